(* DnsMsgProofs_Txt.v -- C09 for TXT answers: puttxtbin / readtxtbin tiling round trip in
   252-byte strings, the prefix letter, and the codec round trip of C07. *)
From Coq Require Import List NArith ZArith Arith Bool Lia ZifyBool ZifyNat ZifyN.
From Iodine Require Import Generated.SrcConsts Base Codec CodecProofs Hostname DnsName DnsWf DnsMsg
  DnsMsgProofs_Base DnsMsgProofs_Null.
Import ListNotations.
Local Open Scope N_scope.

Ltac Zify.zify_post_hook ::= Z.div_mod_to_equations.

(* ---- puttxtbin / readtxtbin --------------------------------------------------------------- *)

(* bytes used by puttxtbin for n bytes of text: one length byte per started 252-byte string *)
Definition txt_len (n : nat) : nat := (n + (n + 251) / 252)%nat.

Lemma txt_len_mono n m : (n <= m)%nat -> (txt_len n <= txt_len m)%nat.
Proof. unfold txt_len. intros H. lia. Qed.

Lemma puttxtbin_go_len fuel : forall rem from t,
  puttxtbin_go fuel rem from = Some t -> length t = txt_len (length from).
Proof.
  induction fuel as [|fuel IH]; intros rem from t H.
  - destruct from; [|discriminate]. injection H as <-. reflexivity.
  - destruct from as [|x from]; [injection H as <-; reflexivity|].
    cbn [puttxtbin_go] in H. rewrite txt_chunk_eq in H.
    set (fr := x :: from) in *. set (tc := Nat.min (length fr) 252) in *.
    destruct (rem <? tc + 1)%nat; [discriminate|].
    destruct (puttxtbin_go fuel (rem - (tc + 1)) (skipn tc fr)) as [rest|] eqn:E; [|discriminate].
    apply some_inj in H. subst t. apply IH in E. rewrite skipn_length in E.
    cbn [length]. rewrite app_length, firstn_length, E.
    assert (1 <= length fr)%nat by (unfold fr; simpl; lia).
    unfold txt_len, tc. lia.
Qed.

Lemma puttxtbin_go_ok fuel : forall rem from,
  (length from < fuel)%nat -> (txt_len (length from) <= rem)%nat ->
  exists t, puttxtbin_go fuel rem from = Some t.
Proof.
  induction fuel as [|fuel IH]; intros rem from Hf Hr; [lia|].
  destruct from as [|x from]; [exists []; reflexivity|].
  cbn [puttxtbin_go]. rewrite txt_chunk_eq.
  set (fr := x :: from) in *. set (tc := Nat.min (length fr) 252) in *.
  assert (1 <= length fr)%nat by (unfold fr; simpl; lia).
  destruct (rem <? tc + 1)%nat eqn:E1.
  { apply Nat.ltb_lt in E1. unfold txt_len, tc in *. lia. }
  destruct (IH (rem - (tc + 1))%nat (skipn tc fr)) as [rest Hrest].
  - rewrite skipn_length. unfold tc. lia.
  - rewrite skipn_length. apply Nat.ltb_ge in E1. unfold txt_len, tc in *. lia.
  - rewrite Hrest. eexists. reflexivity.
Qed.

(* reading back what puttxtbin wrote: everything, or nothing when the destination is too small *)
Lemma readtxtbin_go_put fuel : forall rem from t buf p dst acc fuel',
  puttxtbin_go fuel rem from = Some t -> holds buf p t -> (length t < fuel')%nat ->
  readtxtbin_go fuel' buf p (length t) dst acc =
  if (length from <=? dst)%nat then List.rev acc ++ from else [].
Proof.
  induction fuel as [|fuel IH]; intros rem from t buf p dst acc fuel' H Hh Hf.
  - destruct from; [|discriminate]. apply some_inj in H. subst t.
    destruct fuel'; [simpl in Hf; lia|]. cbn. rewrite app_nil_r. reflexivity.
  - destruct from as [|x from].
    { apply some_inj in H. subst t. destruct fuel'; [simpl in Hf; lia|]. cbn. rewrite app_nil_r. reflexivity. }
    cbn [puttxtbin_go] in H. rewrite txt_chunk_eq in H.
    set (fr := x :: from) in *. set (tc := Nat.min (length fr) 252) in *.
    assert (Hfr : (1 <= length fr)%nat) by (unfold fr; simpl; lia).
    destruct (rem <? tc + 1)%nat; [discriminate|].
    destruct (puttxtbin_go fuel (rem - (tc + 1)) (skipn tc fr)) as [rest|] eqn:E; [|discriminate].
    apply some_inj in H. subst t.
    apply holds_cons in Hh. destruct Hh as [H0 Hh].
    pose proof (holds_app_l _ _ _ _ Hh) as Hh1. pose proof (holds_app_r _ _ _ _ Hh) as Hh2.
    assert (Hfl : length (firstn tc fr) = tc) by (rewrite firstn_length; unfold tc; lia).
    rewrite Hfl in Hh2.
    destruct fuel' as [|fuel']; [lia|].
    cbn [length] in *. rewrite app_length, Hfl in *.
    cbn [readtxtbin_go]. rewrite H0, Nat2N.id.
    destruct (tc + length rest <? tc)%nat eqn:E1; [apply Nat.ltb_lt in E1; lia|].
    destruct (dst <? tc)%nat eqn:E2.
    + apply Nat.ltb_lt in E2. destruct (length fr <=? dst)%nat eqn:E3; [apply Nat.leb_le in E3; unfold tc in E2; lia|reflexivity].
    + apply Nat.ltb_ge in E2.
      replace (tc + length rest - tc)%nat with (length rest) by lia.
      rewrite <- Hfl at 3. rewrite (holds_map _ _ _ Hh1).
      rewrite (IH _ _ _ buf (S p + tc)%nat (dst - tc)%nat _ fuel' E Hh2) by lia.
      rewrite skipn_length.
      destruct (length fr <=? dst)%nat eqn:E3.
      * apply Nat.leb_le in E3. destruct (length fr - tc <=? dst - tc)%nat eqn:E4; [|apply Nat.leb_gt in E4; lia].
        rewrite rev_app_distr, rev_involutive, <- app_assoc, firstn_skipn. reflexivity.
      * apply Nat.leb_gt in E3. destruct (length fr - tc <=? dst - tc)%nat eqn:E4; [apply Nat.leb_le in E4; lia|reflexivity].
Qed.

Lemma readtxtbin_put rem from t buf p dst :
  puttxtbin rem from = Some t -> holds buf p t ->
  readtxtbin buf p (length t) dst = if (length from <=? dst)%nat then from else [].
Proof.
  intros H Hh. unfold readtxtbin, puttxtbin in *.
  rewrite (readtxtbin_go_put _ _ _ _ _ _ _ _ _ H Hh) by lia. reflexivity.
Qed.

Lemma readtxtbin_nil buf p dst : readtxtbin buf p 0 dst = [].
Proof. reflexivity. Qed.

(* ---- server: the TXT answer ------------------------------------------------------------------ *)

Lemma encode_txt B name id ws data d : B = N.to_nat 65536 ->
  Forall label_ok ws -> ws <> [] -> name = dotted ws -> (length name <= 253)%nat ->
  dns_encode_answer B {| q_name := name; q_type := T_TXT; q_id := id |} data = Some d ->
  let txt := opt_bytes (puttxtbin (B - (12 + wire_len ws + 4 + 10) - 2) data) in
  d = null_answer id ws T_TXT txt /\ (length txt < N.to_nat 65536)%nat.
Proof.
  intros H64 Hok Hne Hn Hl H txt. unfold dns_encode_answer in H. cbn [q_name q_type q_id] in H.
  rewrite (putname_qname B name ws H64 Hok Hne Hn Hl) in H. cbn [opt_bytes] in H.
  destruct (B <? 12)%nat; [discriminate|].
  destruct (negb (checklen B _ 4)); [discriminate|].
  change ((T_TXT =? T_CNAME) || (T_TXT =? T_A)) with false in H.
  change ((T_TXT =? T_MX) || (T_TXT =? T_SRV)) with false in H.
  change (T_TXT =? T_TXT) with true in H. cbv iota in H.
  destruct (negb (checklen B _ 10)); [discriminate|].
  rewrite !app_length, hdr_len, wire_length, !be16_len, rr_head_len in H.
  replace (B - (12 + wire_len ws + (2 + 2) + 10) - 2)%nat with (B - (12 + wire_len ws + 4 + 10) - 2)%nat in H by lia.
  fold txt in H.
  match type of H with (if negb (checklen _ ?x 0) then _ else _) = _ => destruct (checklen B x 0) eqn:E end;
    [|discriminate].
  cbn [negb] in H. apply some_inj in H. unfold checklen in E. apply Nat.leb_le in E.
  rewrite !app_length, hdr_len, wire_length, !be16_len, rr_head_len in E. cbn [length] in E.
  assert (Hmod : N.of_nat (length txt) mod 65536 = N.of_nat (length txt)) by (apply N.mod_small; lia).
  rewrite Hmod in H. subst d. split; [|lia].
  rewrite <- !app_assoc. rewrite set_ancount_hdr. unfold null_answer, ans_head. rewrite <- !app_assoc. reflexivity.
Qed.

(* ---- client: dns_decode of a TXT answer -------------------------------------------------------- *)

Lemma decode_txt buflen id ws txt data' :
  id < 65536 -> ws <> [] -> Forall label_ok ws -> (length (dotted ws) <= 253)%nat ->
  (length txt < N.to_nat 65536)%nat ->
  let d := null_answer id ws T_TXT txt in
  readtxtbin d (12 + wire_len ws + 4 + 2 + 10) (length txt) rdata_size = data' ->
  dns_decode_answer buflen d (length d) =
  let m := Nat.min (length data') buflen in
  if (1 <=? length data')%nat then
    {| da_rv := Z.of_nat m; da_out := firstn m data'; da_id := Some id;
       da_name0 := Some (hd 0 (dotted ws)); da_type := Some T_TXT; da_rcode := 0 |}
  else
    {| da_rv := 0; da_out := []; da_id := Some id;
       da_name0 := Some (hd 0 (dotted ws)); da_type := Some T_TXT; da_rcode := 0 |}.
Proof.
  intros Hid Hne Hok Hdl Ht64 d Hrd.
  assert (Htl : T_TXT < 65536) by (vm_compute; reflexivity).
  unfold d, null_answer. rewrite decode_head; try assumption; try lia.
  fold (null_answer id ws T_TXT txt). fold d.
  assert (Hd : d = ans_head id 1 ws T_TXT ++ rr_head T_TXT ++ be16 (N.of_nat (length txt)) ++ txt) by reflexivity.
  destruct (rr_bytes d _ T_TXT (N.of_nat (length txt)) txt Hd Htl ltac:(lia)) as [B0 [B1 [B2 [B3 [B4 B5]]]]].
  rewrite ans_head_len in B0, B1, B2, B3, B4, B5.
  set (d2 := (12 + wire_len ws + 4)%nat) in *.
  unfold da_tail.
  change ((T_TXT =? T_NULL) || (T_TXT =? T_PRIVATE)) with false.
  change ((T_TXT =? T_A) || (T_TXT =? T_CNAME)) with false.
  change ((T_TXT =? T_MX) || (T_TXT =? T_SRV)) with false.
  change (T_TXT =? T_TXT) with true. cbv iota zeta.
  rewrite adv_ptr by (assumption || lia).
  destruct (length d <? 10 + (d2 + 2))%nat eqn:E1; [apply Nat.ltb_lt in E1; lia|].
  rewrite B2, B3, Nat2N.id.
  destruct (length d <? length txt + (d2 + 2 + 10))%nat eqn:E2; [apply Nat.ltb_lt in E2; lia|].
  rewrite Hrd. reflexivity.
Qed.

Lemma holds_null_rd id ws ty rd : holds (null_answer id ws ty rd) (12 + wire_len ws + 4 + 2 + 10) rd.
Proof.
  unfold null_answer.
  replace (ans_head id 1 ws ty ++ rr_head ty ++ be16 (N.of_nat (length rd)) ++ rd)
    with ((ans_head id 1 ws ty ++ rr_head ty ++ be16 (N.of_nat (length rd))) ++ rd ++ [])
    by (rewrite app_nil_r, <- !app_assoc; reflexivity).
  apply holds_here'. rewrite !app_length, ans_head_len, rr_head_len, be16_len. lia.
Qed.

(* ---- write_dns and dns_namedec for TXT --------------------------------------------------------- *)

Definition txt_body (B : nat) (downenc : N) (p : list N) : list N :=
  match fst (txt_letter_codec downenc) with
  | Some c => fst (encode c (B - 1) p)
  | None => firstn (B - 1) p
  end.

Definition txt_data (B : nat) (downenc : N) (p : list N) : list N :=
  snd (txt_letter_codec downenc) :: txt_body B downenc p.

Lemma write_dns_txt q p downenc td : q_type q = T_TXT ->
  fst (write_dns q p downenc td) = dns_encode_answer buf64k q (txt_data buf64k downenc p).
Proof.
  intros Hty. unfold write_dns, txt_data, txt_body. rewrite Hty.
  change ((T_TXT =? T_CNAME) || (T_TXT =? T_A)) with false.
  change ((T_TXT =? T_MX) || (T_TXT =? T_SRV)) with false.
  change (T_TXT =? T_TXT) with true. cbv iota.
  destruct (txt_letter_codec downenc) as [oc letter]. reflexivity.
Qed.

Lemma txt_cases downenc :
  txt_letter_codec downenc = (Some b32, 116) \/ txt_letter_codec downenc = (Some b64, 115) \/
  txt_letter_codec downenc = (Some b64u, 117) \/ txt_letter_codec downenc = (Some b128, 118) \/
  txt_letter_codec downenc = (None, 114).
Proof.
  unfold txt_letter_codec.
  destruct (downenc =? 83); [tauto|]. destruct (downenc =? 85); [tauto|].
  destruct (downenc =? 86); [tauto|]. destruct (downenc =? 82); tauto.
Qed.

(* text length of n payload bytes under the downstream codec letter *)
Definition txt_textlen (downenc : N) (n : nat) : nat :=
  match fst (txt_letter_codec downenc) with Some c => enclen (cbits c) n | None => n end.

Lemma firstn_S_skip1 {A} (x : A) l : firstn (S (length l) - 1) (skipn 1 (x :: l)) = l.
Proof. cbn [skipn]. replace (S (length l) - 1)%nat with (length l) by lia. apply firstn_all. Qed.

Lemma namedec_txt_codec B oc letter body :
  (oc, letter) = (Some b32, 116) \/ (oc, letter) = (Some b64, 115) \/
  (oc, letter) = (Some b64u, 117) \/ (oc, letter) = (Some b128, 118) \/ (oc, letter) = (None, 114) ->
  (1 <= length body)%nat ->
  dns_namedec B (letter :: body) (S (length body)) =
  match oc with Some c => decode c B body | None => firstn (Nat.min (length body) B) body end.
Proof.
  intros Hc Hb. unfold dns_namedec. cbn [nth].
  assert (E2 : (S (length body) <? 2)%nat = false) by (apply Nat.ltb_ge; lia).
  rewrite E2, firstn_S_skip1.
  replace (S (length body) - 1)%nat with (length body) by lia.
  destruct Hc as [Hc|[Hc|[Hc|[Hc|Hc]]]]; injection Hc as -> ->; reflexivity.
Qed.

(* the text is never cut by the 64 KiB staging buffer unless it is far beyond the client's limit *)
Lemma enclen_step k n : k = 5 \/ k = 6 \/ k = 7 -> (enclen k (S n) <= enclen k n + 2)%nat.
Proof. intros [-> |[-> | ->]]; unfold enclen; lia. Qed.

Lemma txt_body_len B downenc p : B = N.to_nat 65536 -> bytes_ok p ->
  let L := length (txt_body B downenc p) in
  ((1 + txt_textlen downenc (length p) <= 4096)%nat ->
     L = txt_textlen downenc (length p) /\
     match fst (txt_letter_codec downenc) with
     | Some c => decode c B (txt_body B downenc p) = p
     | None => txt_body B downenc p = p
     end) /\
  ((4096 < 1 + txt_textlen downenc (length p))%nat -> (4096 < 1 + L)%nat).
Proof.
  intros HB Hp L. unfold L, txt_body, txt_textlen.
  assert (Hgen : forall c, wfb c = true ->
    ((1 + enclen (cbits c) (length p) <= 4096)%nat ->
       length (fst (encode c (B - 1) p)) = enclen (cbits c) (length p) /\ decode c B (fst (encode c (B - 1) p)) = p) /\
    ((4096 < 1 + enclen (cbits c) (length p))%nat -> (4096 < 1 + length (fst (encode c (B - 1) p)))%nat)).
  { intros c Hwf. pose proof (k_ok c Hwf) as Hk. split.
    - intros Hle. destruct (enc_full c Hwf (B - 1) p) as [F1 F2]; [lia|]. split; [exact F2|].
      rewrite (roundtrip c Hwf (B - 1) B p Hp) by (rewrite F1; unfold enclen in Hle; destruct Hk as [E|[E|E]]; rewrite E in Hle; lia).
      rewrite F1. apply firstn_all.
    - intros Hgt. destruct (enc_exact c Hwf (B - 1) p) as [G1 [G2 [G3 [G4 G5]]]]. cbv zeta in *.
      destruct (Nat.eq_dec (snd (encode c (B - 1) p)) (length p)) as [E|NE].
      + rewrite G3, E. lia.
      + assert (Hlt : (snd (encode c (B - 1) p) < length p)%nat) by lia. specialize (G5 Hlt).
        pose proof (enclen_step (cbits c) (snd (encode c (B - 1) p)) Hk). lia. }
  destruct (txt_cases downenc) as [Hc|[Hc|[Hc|[Hc|Hc]]]]; rewrite Hc; cbn [fst].
  - apply Hgen, wfb_b32.
  - apply Hgen, wfb_b64.
  - apply Hgen, wfb_b64u.
  - apply Hgen, wfb_b128.
  - split.
    + intros Hle. rewrite firstn_all2 by lia. split; reflexivity.
    + intros Hgt. rewrite firstn_length. lia.
Qed.

(* ---- summary for TXT ------------------------------------------------------------------------- *)

Lemma txt_data_len B downenc p : length (txt_data B downenc p) = S (length (txt_body B downenc p)).
Proof. reflexivity. Qed.

Lemma txt_letter_ok downenc :
  (fst (txt_letter_codec downenc), snd (txt_letter_codec downenc)) = (Some b32, 116) \/
  (fst (txt_letter_codec downenc), snd (txt_letter_codec downenc)) = (Some b64, 115) \/
  (fst (txt_letter_codec downenc), snd (txt_letter_codec downenc)) = (Some b64u, 117) \/
  (fst (txt_letter_codec downenc), snd (txt_letter_codec downenc)) = (Some b128, 118) \/
  (fst (txt_letter_codec downenc), snd (txt_letter_codec downenc)) = (None, 114).
Proof. destruct (txt_cases downenc) as [Hc|[Hc|[Hc|[Hc|Hc]]]]; rewrite Hc; cbn [fst snd]; tauto. Qed.

Lemma txt_textlen_ge downenc n : (n <= txt_textlen downenc n)%nat.
Proof.
  unfold txt_textlen. destruct (txt_cases downenc) as [Hc|[Hc|[Hc|[Hc|Hc]]]]; rewrite Hc; cbn [fst];
    try (unfold enclen; cbn [cbits b32 b64 b64u b128]; lia).
Qed.

Lemma c09_txt_B B q p downenc buflen d : B = N.to_nat 65536 ->
  q_id q < 65536 -> q_type q = T_TXT -> wf_qname (q_name q) ->
  bytes_ok p -> (2 <= length p)%nat -> (N.to_nat 4096 <= buflen)%nat ->
  dns_encode_answer B q (txt_data B downenc p) = Some d ->
  extract_ok
    (let r := dns_decode_answer buflen d (length d) in
     if (da_rv r <=? 0)%Z then r else
     let dec := dns_namedec B (da_out r) (Z.to_nat (da_rv r)) in
     let m := Nat.min (length dec) buflen in
     {| da_rv := Z.of_nat m; da_out := firstn m dec; da_id := da_id r; da_name0 := da_name0 r;
        da_type := da_type r; da_rcode := da_rcode r |})
    q p (if (1 + txt_textlen downenc (length p) <=? 4096)%nat then length p else 0%nat).
Proof.
  intros HB Hid Hty [ws [Hne [Hok [Hn Hl]]]] Hbp Hp Hb H.
  destruct q as [name ty id]. cbn [q_name q_type q_id] in *. subst ty.
  destruct (encode_txt B name id ws _ d HB Hok Hne Hn Hl H) as [Hd Htl]. cbv zeta in Hd, Htl.
  set (data := txt_data B downenc p) in *.
  set (rem := (B - (12 + wire_len ws + 4 + 10) - 2)%nat) in *.
  pose proof (dotted_wire_len ws Hne) as Hwl. rewrite <- Hn in Hwl.
  destruct (txt_body_len B downenc p HB Hbp) as [HA HBb]. cbv zeta in HA, HBb.
  assert (Hdl : length data = S (length (txt_body B downenc p))) by reflexivity.
  assert (Hat : answer_type T_TXT = T_TXT) by reflexivity.
  destruct (1 + txt_textlen downenc (length p) <=? 4096)%nat eqn:Ecap.
  - (* the text fits the client's 4096-byte rdata *)
    apply Nat.leb_le in Ecap. destruct (HA Ecap) as [HL Hdec].
    destruct (puttxtbin_go_ok (S (length data)) rem data) as [t Ht]; [lia| |].
    { rewrite Hdl, HL. unfold txt_len, rem. lia. }
    fold (puttxtbin rem data) in Ht. rewrite Ht in Hd, Htl. cbn [opt_bytes] in Hd, Htl.
    assert (Hrd : readtxtbin d (12 + wire_len ws + 4 + 2 + 10) (length t) rdata_size = data).
    { rewrite Hd. rewrite (readtxtbin_put rem data t _ _ _ Ht (holds_null_rd _ _ _ _)).
      rewrite rdata_size_eq. destruct (length data <=? N.to_nat 4096)%nat eqn:E; [reflexivity|].
      apply Nat.leb_gt in E. lia. }
    rewrite Hd in Hrd |- *.
    rewrite (decode_txt buflen id ws t data Hid Hne Hok ltac:(subst name; exact Hl) Htl Hrd).
    cbv zeta.
    assert (Hmin : Nat.min (length data) buflen = length data) by lia. rewrite Hmin.
    destruct (1 <=? length data)%nat eqn:E1; [|apply Nat.leb_gt in E1; lia].
    cbn [da_rv da_out da_id da_name0 da_type da_rcode].
    destruct (Z.of_nat (length data) <=? 0)%Z eqn:E2; [lia|].
    rewrite Nat2Z.id, firstn_all.
    assert (Hb1 : (1 <= length (txt_body B downenc p))%nat).
    { pose proof (txt_textlen_ge downenc (length p)). lia. }
    assert (Hres : match fst (txt_letter_codec downenc) with
                   | Some c => decode c B (txt_body B downenc p)
                   | None => firstn (Nat.min (length (txt_body B downenc p)) B) (txt_body B downenc p)
                   end = p).
    { destruct (fst (txt_letter_codec downenc)); [exact Hdec|]. rewrite Hdec. pose proof (txt_textlen_ge downenc (length p)). apply firstn_all2. lia. }
    assert (Hnd : dns_namedec B data (length data) = p).
    { rewrite Hdl. unfold data, txt_data.
      rewrite (namedec_txt_codec B _ _ _ (txt_letter_ok downenc) Hb1). exact Hres. }
    rewrite Hnd.
    pose proof (txt_textlen_ge downenc (length p)) as Hge.
    assert (Hmin2 : Nat.min (length p) buflen = length p) by lia. rewrite Hmin2, firstn_all.
    unfold extract_ok. cbn [da_rv da_out da_id da_type da_name0 q_id q_type q_name]. rewrite Hat.
    subst name. repeat split; try lia. rewrite firstn_all. reflexivity.
  - (* too long for the client: nothing is extracted *)
    apply Nat.leb_gt in Ecap. specialize (HBb Ecap).
    assert (Hrd : readtxtbin d (12 + wire_len ws + 4 + 2 + 10) (length (opt_bytes (puttxtbin rem data))) rdata_size = []).
    { destruct (puttxtbin rem data) as [t|] eqn:Ht; cbn [opt_bytes]; [|reflexivity].
      rewrite Hd. cbn [opt_bytes].
      rewrite (readtxtbin_put rem data t _ _ _ Ht (holds_null_rd _ _ _ _)).
      rewrite rdata_size_eq. destruct (length data <=? N.to_nat 4096)%nat eqn:E; [|reflexivity].
      apply Nat.leb_le in E. lia. }
    rewrite Hd in Hrd |- *.
    rewrite (decode_txt buflen id ws _ [] Hid Hne Hok ltac:(subst name; exact Hl) Htl Hrd).
    cbv zeta. cbn [length Nat.leb da_rv Z.leb Z.compare].
    unfold extract_ok. cbn [da_rv da_out da_id da_type da_name0 q_id q_type q_name firstn]. rewrite Hat.
    subst name. repeat split; try lia.
Qed.

Lemma c09_txt q p downenc td buflen d :
  q_id q < 65536 -> q_type q = T_TXT -> wf_qname (q_name q) ->
  bytes_ok p -> (2 <= length p)%nat -> (N.to_nat 4096 <= buflen)%nat ->
  fst (write_dns q p downenc td) = Some d ->
  extract_ok (client_extract buflen d (length d)) q p
    (if (1 + txt_textlen downenc (length p) <=? 4096)%nat then length p else 0%nat).
Proof.
  intros Hid Hty Hwf Hbp Hp Hb H. rewrite write_dns_txt in H by exact Hty.
  pose proof (c09_txt_B buf64k q p downenc buflen d buf64k_eq Hid Hty Hwf Hbp Hp Hb H) as HX.
  cbv zeta in HX. unfold client_extract.
  destruct (da_rv (dns_decode_answer buflen d (length d)) <=? 0)%Z eqn:E; [exact HX|].
  (* the answer type is TXT whenever something was decoded *)
  destruct HX as [X1 [X2 [X3 [X4 [X5 X6]]]]]. cbn [da_type] in X5.
  rewrite X5. change (answer_type (q_type q)) with (if q_type q =? T_A then T_CNAME else q_type q).
  rewrite Hty. change (if T_TXT =? T_A then T_CNAME else T_TXT) with T_TXT.
  change ((T_TXT =? T_CNAME) || (T_TXT =? T_TXT)) with true. cbv iota.
  unfold extract_ok. cbn [da_rv da_out da_id da_type da_name0] in *. rewrite Hty in X5.
  repeat split; try assumption. rewrite Hty. reflexivity.
Qed.
