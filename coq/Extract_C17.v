(* Extraction of the executable model of check_topdomain / query_datalen, used only by the
   correspondence check of C17.  ExtrOcamlBasic only; no Extract Constant. *)
From Coq Require Import Extraction ExtrOcamlBasic.
From Iodine Require Import Domain.
Extraction Language OCaml.
Set Extraction Optimize.
Extraction "extracted/model_c17.ml" Domain.check_topdomain Domain.query_datalen.
