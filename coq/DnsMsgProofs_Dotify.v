(* DnsMsgProofs_Dotify.v -- inline_dotify as a forward function, the 57-character labels it
   produces, and the host name built by write_dns_nameenc as a dotted list of well-formed labels. *)
From Coq Require Import List NArith ZArith Arith Bool Lia ZifyBool ZifyNat ZifyN.
From Iodine Require Import Generated.SrcConsts Base Codec CodecProofs Hostname DnsName DnsWf DnsMsg
  DnsMsgProofs_Base.
Import ListNotations.
Local Open Scope N_scope.

Ltac Zify.zify_post_hook ::= Z.div_mod_to_equations.

Lemma period_pos_eq : period_pos = 57%nat. Proof. reflexivity. Qed.
Lemma period_dots_eq : period_dots = 57%nat. Proof. reflexivity. Qed.
Lemma period_build_eq : period_build = 57%nat. Proof. reflexivity. Qed.

(* forward form: the char with 0-based index i is followed by a dot when (i+1) mod 57 = 0 *)
Fixpoint dotify_fwd (i : nat) (s : list N) : list N :=
  match s with
  | [] => []
  | ch :: s' => ch :: (if (S i mod 57 =? 0)%nat then DOT :: dotify_fwd (S i) s' else dotify_fwd (S i) s')
  end.

Lemma dotify_fwd_app i a b : (i + length a < 57)%nat ->
  dotify_fwd i (a ++ b) = a ++ dotify_fwd (i + length a) b.
Proof.
  revert i. induction a as [|x a IH]; intros i H; [cbn; rewrite Nat.add_0_r; reflexivity|].
  cbn [app dotify_fwd length] in *.
  destruct (S i mod 57 =? 0)%nat eqn:E; [apply Nat.eqb_eq in E; lia|].
  rewrite IH by lia. replace (i + S (length a))%nat with (S i + length a)%nat by lia. reflexivity.
Qed.

Lemma dotify_fwd_app57 i a b : a <> [] -> (i + length a = 57)%nat ->
  dotify_fwd i (a ++ b) = a ++ DOT :: dotify_fwd 57 b.
Proof.
  revert i. induction a as [|x a IH]; intros i Hne H; [congruence|].
  cbn [app dotify_fwd length] in *.
  destruct a as [|y a].
  - cbn [length] in H. assert (i = 56%nat) by lia. subst i. reflexivity.
  - destruct (S i mod 57 =? 0)%nat eqn:E; [apply Nat.eqb_eq in E; cbn [length] in H; lia|].
    rewrite IH; [reflexivity|congruence|lia].
Qed.

Lemma dotify_fwd_period i s : dotify_fwd (i + 57) s = dotify_fwd i s.
Proof.
  revert i. induction s as [|x s IH]; intros i; [reflexivity|].
  cbn [dotify_fwd]. replace (S (i + 57)) with (S i + 57)%nat by lia. rewrite IH.
  replace ((S i + 57) mod 57)%nat with (S i mod 57)%nat; [reflexivity|].
  rewrite <- Nat.add_mod_idemp_r by lia. rewrite Nat.mod_same by lia. rewrite Nat.add_0_r. reflexivity.
Qed.

(* the loop of inline_dotify computes the forward form *)
Lemma dotify_back_fwd revA : forall r dots acc b,
  r = length revA -> dots = (r / 57)%nat -> acc = dotify_fwd r b ->
  dotify_back revA r dots acc = dotify_fwd 0 (List.rev revA ++ b).
Proof.
  induction revA as [|ch rest IH]; intros r dots acc b Hr Hd Ha.
  - cbn [length] in Hr. subst r. cbn in Hd. subst dots. cbn. exact Ha.
  - cbn [length] in Hr. destruct dots as [|dots'].
    + (* fewer than 57 chars left: no more dots *)
      cbn [dotify_back]. rewrite dotify_fwd_app by (rewrite rev_length; cbn [length]; lia).
      rewrite rev_length. cbn [length Nat.add]. rewrite <- Hr, <- Ha. reflexivity.
    + cbn [dotify_back]. rewrite period_pos_eq.
      destruct (r mod 57 =? 0)%nat eqn:E.
      * apply Nat.eqb_eq in E. cbn [Nat.pred].
        destruct dots' as [|dots''].
        -- (* this was the last dot: r = 57 *)
           assert (r = 57%nat) by lia.
           rewrite dotify_fwd_app57; [rewrite Ha, H; reflexivity|cbn; destruct (List.rev rest); discriminate|].
           rewrite rev_length. cbn [length]. lia.
        -- rewrite (IH (Nat.pred r) (S dots'') (ch :: DOT :: acc) (ch :: b)); try lia.
           ++ cbn [List.rev]. rewrite <- app_assoc. reflexivity.
           ++ cbn [dotify_fwd]. replace (S (Nat.pred r)) with r by lia.
              destruct (r mod 57 =? 0)%nat eqn:E'; [|apply Nat.eqb_neq in E'; lia]. rewrite Ha. reflexivity.
      * apply Nat.eqb_neq in E.
        rewrite (IH (Nat.pred r) (S dots') (ch :: acc) (ch :: b)); try lia.
        -- cbn [List.rev]. rewrite <- app_assoc. reflexivity.
        -- cbn [dotify_fwd]. replace (S (Nat.pred r)) with r by lia.
           destruct (r mod 57 =? 0)%nat eqn:E'; [apply Nat.eqb_eq in E'; lia|]. rewrite Ha. reflexivity.
Qed.

Lemma inline_dotify_fwd s buflen : (length s + length s / 57 <= buflen)%nat ->
  inline_dotify s buflen = Some (dotify_fwd 0 s).
Proof.
  intros H. unfold inline_dotify. rewrite period_dots_eq.
  destruct (buflen <? length s + length s / 57)%nat eqn:E; [apply Nat.ltb_lt in E; lia|].
  f_equal. rewrite (dotify_back_fwd (List.rev s) (length s) (length s / 57) [] []).
  - rewrite rev_involutive, app_nil_r. reflexivity.
  - rewrite rev_length. reflexivity.
  - reflexivity.
  - reflexivity.
Qed.

(* ---- the labels ---------------------------------------------------------------------------- *)

Fixpoint chunks57 (fuel : nat) (s : list N) : list (list N) :=
  match fuel with
  | O => []
  | S f => match s with [] => [] | _ => firstn 57 s :: chunks57 f (skipn 57 s) end
  end.
Definition labels57 (s : list N) : list (list N) := chunks57 (length s) s.

Lemma chunks57_concat fuel : forall s, (length s <= fuel)%nat -> concat (chunks57 fuel s) = s.
Proof.
  induction fuel as [|fuel IH]; intros s H; [destruct s; [reflexivity|simpl in H; lia]|].
  destruct s as [|x s]; [reflexivity|]. cbn [chunks57 concat].
  rewrite IH; [apply firstn_skipn|]. rewrite skipn_length. cbn [length] in *. lia.
Qed.

Lemma chunks57_forall (P : N -> Prop) fuel : forall s, Forall P s ->
  Forall (fun w => (1 <= length w <= 57)%nat /\ Forall P w) (chunks57 fuel s).
Proof.
  induction fuel as [|fuel IH]; intros s H; [constructor|].
  destruct s as [|x s]; [constructor|]. cbn [chunks57]. constructor.
  - split.
    + rewrite firstn_length. cbn [length]. lia.
    + rewrite Forall_forall in *. intros y Hy. apply H.
      rewrite <- (firstn_skipn 57 (x :: s)). apply in_or_app. left. exact Hy.
  - apply IH. rewrite Forall_forall in *. intros y Hy. apply H.
    rewrite <- (firstn_skipn 57 (x :: s)). apply in_or_app. right. exact Hy.
Qed.

Lemma chunks57_nonempty fuel s : s <> [] -> (1 <= fuel)%nat -> chunks57 fuel s <> [].
Proof. intros Hs Hf. destruct fuel; [lia|]. destruct s; [congruence|]. discriminate. Qed.

(* the forward form in terms of the labels: full groups are followed by a dot *)
Lemma dotify_fwd_labels fuel : forall s, (length s <= fuel)%nat -> s <> [] ->
  dotify_fwd 0 s ++ (if (length s mod 57 =? 0)%nat then [] else [DOT]) = dotted (chunks57 fuel s) ++ [DOT].
Proof.
  induction fuel as [|fuel IH]; intros s H Hne; [destruct s; [congruence|simpl in H; lia]|].
  destruct s as [|x s]; [congruence|]. cbn [chunks57].
  set (t := x :: s) in *.
  destruct (Nat.le_gt_cases (length t) 56) as [Hle|Hgt].
  - (* one partial label *)
    rewrite (firstn_all2 t) by lia. rewrite (skipn_all2 t) by lia.
    assert (Hc : chunks57 fuel [] = []) by (destruct fuel; reflexivity). rewrite Hc. cbn [dotted].
    rewrite <- (app_nil_r t) at 1. rewrite dotify_fwd_app by lia. cbn [dotify_fwd]. rewrite app_nil_r.
    destruct (length t mod 57 =? 0)%nat eqn:E; [|reflexivity].
    apply Nat.eqb_eq in E. assert (1 <= length t)%nat by (unfold t; simpl; lia). lia.
  - (* a full label first *)
    assert (Hf : length (firstn 57 t) = 57%nat) by (rewrite firstn_length; lia).
    rewrite <- (firstn_skipn 57 t) at 1.
    rewrite dotify_fwd_app57; [|intros E; rewrite E in Hf; discriminate|lia].
    replace 57%nat with (0 + 57)%nat at 2 by reflexivity. rewrite dotify_fwd_period.
    assert (Hm : (length t mod 57 = length (skipn 57 t) mod 57)%nat).
    { rewrite skipn_length. replace (length t) with ((length t - 57) + 1 * 57)%nat at 1 by lia.
      apply Nat.mod_add. lia. }
    rewrite Hm.
    destruct (skipn 57 t) as [|y u] eqn:Es.
    + assert (Hc : chunks57 fuel [] = []) by (destruct fuel; reflexivity). rewrite Hc. cbn. rewrite app_nil_r. reflexivity.
    + assert (Hl : (length (y :: u) <= fuel)%nat).
      { rewrite <- Es, skipn_length. unfold t in *. cbn [length] in *. lia. }
      assert (Hne' : y :: u <> []) by discriminate.
      specialize (IH (y :: u) Hl Hne').
      destruct (chunks57 fuel (y :: u)) as [|w ws] eqn:Ec.
      { exfalso. destruct fuel; [simpl in Hl; lia|]. discriminate. }
      rewrite dotted_cons2. rewrite <- !app_assoc. cbn [app]. f_equal. f_equal.
      exact IH.
Qed.

Lemma last_dotify_fwd s : forall i, s <> [] -> ((i + length s) mod 57 <> 0)%nat ->
  last (dotify_fwd i s) 0 = last s 0.
Proof.
  induction s as [|x s IH]; intros i Hne H; [congruence|].
  destruct s as [|y s].
  - cbn [dotify_fwd length] in *. replace (i + 1)%nat with (S i) in H by lia.
    destruct (S i mod 57 =? 0)%nat eqn:E; [apply Nat.eqb_eq in E; lia|]. reflexivity.
  - assert (Hne' : y :: s <> []) by discriminate.
    assert (H' : ((S i + length (y :: s)) mod 57 <> 0)%nat).
    { cbn [length] in *. replace (S i + S (length s))%nat with (i + S (S (length s)))%nat by lia. exact H. }
    specialize (IH (S i) Hne' H').
    change (dotify_fwd i (x :: y :: s)) with
      (x :: (if (S i mod 57 =? 0)%nat then DOT :: dotify_fwd (S i) (y :: s) else dotify_fwd (S i) (y :: s))).
    assert (Hd : dotify_fwd (S i) (y :: s) <> []) by (cbn [dotify_fwd]; discriminate).
    destruct (S i mod 57 =? 0)%nat.
    + destruct (dotify_fwd (S i) (y :: s)) as [|a l] eqn:Ed; [congruence|].
      change (last (x :: DOT :: a :: l) 0) with (last (a :: l) 0). rewrite IH. reflexivity.
    + destruct (dotify_fwd (S i) (y :: s)) as [|a l] eqn:Ed; [congruence|].
      change (last (x :: a :: l) 0) with (last (a :: l) 0). rewrite IH. reflexivity.
Qed.

Lemma last_app_one {A} (l : list A) x d : last (l ++ [x]) d = x.
Proof. induction l as [|y l IH]; [reflexivity|]. cbn [app]. destruct (l ++ [x]) eqn:E; [destruct l; discriminate|]. exact IH. Qed.

(* the name after "add dot (if it wasn't there already)": dotted labels and one dot *)
Lemma dotify_then_dot s buflen : s <> [] -> (length s + length s / 57 <= buflen)%nat ->
  last s 0 <> DOT ->
  let dotted0 := match inline_dotify s buflen with Some d => d | None => s end in
  (if last dotted0 0 =? DOT then dotted0 else dotted0 ++ [DOT]) = dotted (labels57 s) ++ [DOT].
Proof.
  intros Hne Hl Hlast dotted0. unfold dotted0. rewrite inline_dotify_fwd by exact Hl.
  pose proof (dotify_fwd_labels (length s) s (le_n _) Hne) as HL. fold (labels57 s) in HL.
  destruct (length s mod 57 =? 0)%nat eqn:E.
  - rewrite app_nil_r in HL. rewrite HL. rewrite last_app_one. change (DOT =? DOT) with true. reflexivity.
  - apply Nat.eqb_neq in E. rewrite last_dotify_fwd by (assumption || (cbn [Nat.add]; exact E)).
    destruct (last s 0 =? DOT) eqn:E2; [apply N.eqb_eq in E2; congruence|]. exact HL.
Qed.

Lemma dotted_snoc ws w : ws <> [] -> dotted (ws ++ [w]) = dotted ws ++ 46 :: w.
Proof.
  induction ws as [|a ws IH]; intros Hne; [congruence|].
  destruct ws as [|b ws]; [reflexivity|].
  change ((a :: b :: ws) ++ [w]) with (a :: (b :: ws) ++ [w]).
  change ((b :: ws) ++ [w]) with (b :: ws ++ [w]) at 1.
  rewrite dotted_cons2. change (b :: ws ++ [w]) with ((b :: ws) ++ [w]). rewrite IH by discriminate.
  rewrite dotted_cons2. rewrite <- app_assoc. reflexivity.
Qed.

Lemma filter_dotted ws : Forall (Forall (fun ch => ch <> 46)) ws ->
  filter (fun ch => negb (ch =? DOT)) (dotted ws) = concat ws.
Proof.
  assert (Hf : forall w, Forall (fun ch => ch <> 46) w -> filter (fun ch => negb (ch =? DOT)) w = w).
  { induction 1 as [|x w Hx Hw IH]; [reflexivity|]. unfold DOT in *. cbn [filter].
    destruct (x =? 46) eqn:E; [lia|]. cbn [negb]. rewrite IH. reflexivity. }
  induction ws as [|w ws IH]; intros H; [reflexivity|].
  inversion H as [|? ? Hw Hws]; subst.
  destruct ws as [|w' ws]; [cbn [dotted concat]; rewrite app_nil_r; apply Hf, Hw|].
  rewrite dotted_cons2, filter_app. cbn [filter]. change (negb (46 =? DOT)) with false. cbv iota.
  rewrite Hf by exact Hw. rewrite IH by exact Hws. reflexivity.
Qed.

Lemma dotted_length_labels fuel : forall s, (length s <= fuel)%nat -> s <> [] ->
  length (dotted (chunks57 fuel s)) = (length s + (length s - 1) / 57)%nat.
Proof.
  induction fuel as [|fuel IH]; intros s H Hne; [destruct s; [congruence|simpl in H; lia]|].
  destruct s as [|x s]; [congruence|]. cbn [chunks57]. set (t := x :: s) in *.
  assert (Ht : (1 <= length t)%nat) by (unfold t; simpl; lia).
  destruct (skipn 57 t) as [|y u] eqn:Es.
  - assert (Hc : chunks57 fuel [] = []) by (destruct fuel; reflexivity). rewrite Hc. cbn [dotted].
    assert (length (skipn 57 t) = 0)%nat by (rewrite Es; reflexivity). rewrite skipn_length in H0.
    rewrite firstn_all2 by lia. assert ((length t - 1) / 57 = 0)%nat by (apply Nat.div_small; lia). lia.
  - assert (Hl : (length (y :: u) <= fuel)%nat).
    { rewrite <- Es, skipn_length. unfold t in *. cbn [length] in *. lia. }
    assert (Hs : length (y :: u) = (length t - 57)%nat) by (rewrite <- Es, skipn_length; reflexivity).
    specialize (IH (y :: u) Hl ltac:(discriminate)).
    destruct (chunks57 fuel (y :: u)) as [|w ws] eqn:Ec.
    { exfalso. destruct fuel; [simpl in Hl; lia|]. discriminate. }
    rewrite dotted_cons2, app_length. cbn [length]. rewrite IH, Hs, firstn_length.
    assert (57 < length t)%nat by (cbn [length] in Hs; lia). lia.
Qed.
