(* DnsMxProofs.v -- C10, emitter side, part 3: MX / SRV answers.  The server splits the payload
   over several host names (mx_build), dns_encode emits one record per name (mx_records). *)
From Coq Require Import List NArith Arith Bool Lia ZArith ZifyBool ZifyNat ZifyN.
From Iodine Require Import Generated.SrcConsts Base Codec CodecProofs Hostname DnsName DnsMsg DnsWf DnsWfProofs DnsEmitProofs
  DnsNameencProofs DnsAnswerProofs.
Import ListNotations.
Local Open Scope N_scope.

Ltac Zify.zify_post_hook ::= Z.div_mod_to_equations.

(* "name1\0name2\0...\0\0" *)
Definition mxdata (names : list (list N)) : list N := concat (map (fun nm => nm ++ [0]) names) ++ [0].

Lemma mxdata_cons nm r : mxdata (nm :: r) = nm ++ 0 :: mxdata r.
Proof. unfold mxdata. cbn [map concat]. rewrite <- !app_assoc. reflexivity. Qed.

Lemma mxdata_length names : (length names < length (mxdata names))%nat.
Proof.
  induction names as [|nm r IH]; [cbn; lia|].
  rewrite mxdata_cons, app_length. cbn [length]. lia.
Qed.

Lemma host_nonempty nm : enc_host_ok nm -> nm <> [] /\ ~ In 0 nm.
Proof. intros [Hnn [_ [Hne _]]]. split; [intros ->; apply Hne; reflexivity|exact Hnn]. Qed.

Lemma mx_strings_names names : forall fuel first,
  (length names < fuel)%nat -> Forall enc_host_ok names -> (names = [] -> first = false) ->
  mx_strings fuel (mxdata names) first = names.
Proof.
  induction names as [|nm r IH]; intros fuel first Hf Hok Hfirst.
  - destruct fuel as [|fuel]; [cbn in Hf; lia|]. rewrite (Hfirst eq_refl). reflexivity.
  - destruct fuel as [|fuel]; [cbn in Hf; lia|].
    pose proof (Forall_inv Hok) as Hnm. pose proof (Forall_inv_tail Hok) as Hr.
    destruct (host_nonempty nm Hnm) as [Hne Hnn].
    cbn [mx_strings]. rewrite mxdata_cons, (cstr_app_nul nm (mxdata r) Hnn).
    destruct nm as [|x nm']; [congruence|]. rewrite andb_false_r.
    f_equal.
    replace (skipn (S (length (x :: nm'))) ((x :: nm') ++ 0 :: mxdata r)) with (mxdata r).
    + apply IH; [cbn [length] in Hf; lia|exact Hr|reflexivity].
    + replace ((x :: nm') ++ 0 :: mxdata r) with (((x :: nm') ++ [0]) ++ mxdata r) by (rewrite <- app_assoc; reflexivity).
      replace (S (length (x :: nm'))) with (length ((x :: nm') ++ [0])) by (rewrite app_length; cbn [length]; lia).
      rewrite skipn_app, Nat.sub_diag, skipn_all. reflexivity.
Qed.

(* ---------------------------------------------------------------------------------- *)
(* mx_build                                                                              *)

(* how much one name carries: all of the data, or at least 100 bytes of it *)
Lemma enc_res_bound c data : wfb c = true -> data <> [] ->
  let res := snd (encode c 245 data) in
  (1 <= res <= length data)%nat /\ ((res < length data)%nat -> (100 <= res)%nat).
Proof.
  intros Hwf Hne. cbv zeta.
  destruct (enc_exact c Hwf 245 data) as [_ [G2 [_ [_ G5]]]].
  pose proof (k_ok c Hwf) as Hk.
  revert G2 G5. generalize (snd (encode c 245 data)). intros n G2 G5.
  assert (Hl : (1 <= length data)%nat) by (destruct data; [congruence|cbn; lia]).
  unfold enclen in G5.
  split.
  - split; [|exact G2]. destruct (Nat.eq_dec n 0) as [E|E]; [|lia].
    subst n. assert (H0 : (0 < length data)%nat) by lia. specialize (G5 H0).
    destruct Hk as [E|[E|E]]; rewrite E in G5; cbn in G5; lia.
  - intros Hlt. specialize (G5 Hlt).
    destruct Hk as [E|[E|E]]; rewrite E in G5; lia.
Qed.

Definition names_data (names : list (list N)) : list N := concat (map (fun nm => nm ++ [0]) names).

Lemma mx_build_shape downenc fuel : forall data td acc,
  data <> [] -> (length data < fuel)%nat ->
  exists names td',
    mx_build fuel data downenc td acc = (acc ++ names_data names ++ [0], td') /\
    names <> [] /\ Forall enc_host_ok names /\ (100 * length names <= length data + 100)%nat.
Proof.
  induction fuel as [|fuel IH]; intros data td acc Hne Hf; [lia|].
  cbn [mx_build].
  destruct (nameenc_ok buf64k data downenc td) as [nm [Hnm Hhost]]; [unfold buf64k; lia|].
  rewrite Hnm.
  pose proof (downenc_codec_cases downenc) as Hcc. cbv zeta in Hcc. destruct Hcc as [Hc _].
  destruct (enc_res_bound _ data (four_wfb _ Hc) Hne) as [Hr1 Hr2]. cbv zeta in Hr1, Hr2.
  revert Hr1 Hr2. generalize (snd (encode (fst (downenc_codec downenc)) 245 data)). intros res Hr1 Hr2.
  destruct res as [|res']; [lia|].
  destruct (length data <=? S res')%nat eqn:E.
  - exists [nm], (td_next td). split; [|split; [discriminate|split; [constructor; [exact Hhost|constructor]|cbn [length]; lia]]].
    unfold names_data. cbn [map concat]. rewrite app_nil_r, <- !app_assoc. reflexivity.
  - apply Nat.leb_gt in E.
    destruct (IH (skipn (S res') data) (td_next td) (acc ++ nm ++ [0])) as [names [td' [H1 [H2 [H3 H4]]]]].
    + intros Hs. apply (f_equal (@length N)) in Hs. rewrite skipn_length in Hs. cbn [length] in Hs. lia.
    + rewrite skipn_length. lia.
    + exists (nm :: names), td'. split; [|split; [discriminate|split; [constructor; assumption|]]].
      * rewrite H1. unfold names_data. cbn [map concat]. rewrite <- !app_assoc. reflexivity.
      * rewrite skipn_length in H4. specialize (Hr2 E). cbn [length]. lia.
Qed.

(* ---------------------------------------------------------------------------------- *)
(* mx_records                                                                            *)

Definition srv_bytes (ty : N) : list N :=
  if ty =? T_SRV then DnsWfProofs.be16 10 ++ DnsWfProofs.be16 5060 else [].

Fixpoint bodies (ty ancnt : N) (names : list (list N)) : list (list N) :=
  match names with
  | [] => []
  | nm :: r => (DnsWfProofs.be16 ((10 * ancnt) mod 65536) ++ srv_bytes ty ++ enc_name (tokens nm)) :: bodies ty (ancnt + 1) r
  end.

Lemma bodies_length ty names : forall a, length (bodies ty a names) = length names.
Proof. induction names as [|nm r IH]; intros a; [reflexivity|]. cbn [bodies length]. rewrite IH. reflexivity. Qed.

Lemma srv_bytes_length ty : (length (srv_bytes ty) <= 4)%nat.
Proof. unfold srv_bytes. destruct (ty =? T_SRV); cbn; lia. Qed.

Lemma recs12_cons ty cl ttl rd rds : recs12 ty cl ttl (rd :: rds) = rec12 ty cl ttl rd ++ recs12 ty cl ttl rds.
Proof. reflexivity. Qed.

Lemma mx_records_form ty : forall names ancnt sofar,
  Forall enc_host_ok names ->
  N.of_nat (length sofar) + 300 * N.of_nat (length names) <= 60000 ->
  mx_records buf64k ty names ancnt sofar =
    Some (sofar ++ recs12 ty 1 0 (bodies ty ancnt names), ancnt + N.of_nat (length names) - 1).
Proof.
  induction names as [|nm r IH]; intros ancnt sofar Hok Hb.
  - cbn [mx_records bodies length]. unfold recs12. cbn [map concat]. rewrite app_nil_r. repeat f_equal. lia.
  - pose proof (Forall_inv Hok) as Hnm. pose proof (Forall_inv_tail Hok) as Hr.
    cbn [length] in Hb.
    cbn [mx_records].
    rewrite be16_same.
    assert (C1 : checklen buf64k sofar 10 = true) by (apply checklen_true; unfold buf64k; lia).
    rewrite C1. cbn [negb].
    assert (C2 : checklen buf64k ((sofar ++ rr_head ty) ++ [0; 0]) 2 = true).
    { apply checklen_true. rewrite !app_length, rr_head_length. cbn [length]. unfold buf64k. lia. }
    rewrite C2. cbn [negb].
    set (pref := DnsWfProofs.be16 ((10 * ancnt) mod 65536)).
    assert (C3 : (ty =? T_SRV) && negb (checklen buf64k ((sofar ++ rr_head ty) ++ [0; 0] ++ pref) 4) = false).
    { rewrite checklen_true; [apply andb_false_r|].
      rewrite !app_length, rr_head_length. unfold pref. rewrite be16_length. cbn [length]. unfold buf64k. lia. }
    rewrite C3.
    fold (srv_bytes ty).
    pose proof (srv_bytes_length ty) as Hsl.
    destruct (host_putname (buf64k - length ((sofar ++ rr_head ty) ++ [0; 0] ++ pref ++ srv_bytes ty)) nm Hnm) as [Hp [Hlo [Hwl H57]]].
    { rewrite !app_length, rr_head_length. unfold pref. rewrite be16_length. cbn [length]. unfold buf64k. lia. }
    rewrite Hp. cbn [opt_bytes].
    assert (Hel : (length (enc_name (tokens nm)) <= 255)%nat) by (rewrite enc_name_length; exact Hwl).
    set (body := (pref ++ srv_bytes ty) ++ enc_name (tokens nm)).
    assert (Hbl : (length body <= 261)%nat).
    { unfold body, pref. rewrite !app_length, be16_length. lia. }
    assert (C4 : checklen buf64k ((sofar ++ rr_head ty) ++ [0; 0] ++ body) 0 = true).
    { apply checklen_true. rewrite !app_length, rr_head_length. cbn [length]. fold body. unfold buf64k. lia. }
    rewrite C4. cbn [negb].
    replace (N.of_nat (length body) mod 65536) with (N.of_nat (length body)) by lia.
    rewrite IH; [|exact Hr|].
    + cbn [bodies]. fold pref.
      replace (pref ++ srv_bytes ty ++ enc_name (tokens nm)) with body by (unfold body; rewrite <- app_assoc; reflexivity).
      rewrite recs12_cons.
      replace (ancnt + N.of_nat (length (nm :: r)) - 1) with (ancnt + 1 + N.of_nat (length r) - 1) by (cbn [length]; lia).
      unfold rec12, rr_fixed. rewrite rr_head_eq, <- !app_assoc. reflexivity.
    + rewrite !app_length, rr_head_length, be16_length. lia.
Qed.

Lemma answer_mx_form q ls names :
  q_name q = name_of ls -> Forall label_ok ls -> (wire_len ls <= 255)%nat ->
  (q_type q = T_MX \/ q_type q = T_SRV) ->
  names <> [] -> Forall enc_host_ok names -> (length names <= 100)%nat ->
  dns_encode_answer buf64k q (mxdata names) =
    Some (hdr12 (q_id q) 132 0 1 (N.of_nat (length (bodies (q_type q) 1 names))) 0 0 ++ enc_name ls ++
          DnsWfProofs.be16 (q_type q) ++ DnsWfProofs.be16 1 ++ recs12 (q_type q) 1 0 (bodies (q_type q) 1 names)).
Proof.
  intros Hn Hok Hw Hty Hne Hnames Hk.
  unfold dns_encode_answer. rewrite Hn.
  destruct (buf64k <? 12)%nat eqn:E; [apply Nat.ltb_lt in E; unfold buf64k in E; lia|].
  rewrite (putname_name_of _ ls Hok) by (unfold buf64k; lia). cbn [opt_bytes].
  rewrite hdr_same, be16_same. change C_IN with 1.
  rewrite checklen_true by len_solve. cbn [negb].
  assert (Hb1 : (q_type q =? T_CNAME) || (q_type q =? T_A) = false) by (destruct Hty as [-> | ->]; reflexivity).
  assert (Hb2 : (q_type q =? T_MX) || (q_type q =? T_SRV) = true) by (destruct Hty as [-> | ->]; reflexivity).
  rewrite Hb1, Hb2, front_alt.
  assert (Hms : mx_strings (S (length (mxdata names))) (mxdata names) true = names).
  { apply mx_strings_names; [pose proof (mxdata_length names); lia|exact Hnames|intros ->; congruence]. }
  rewrite Hms.
  rewrite (mx_records_form (q_type q) names 1 (front (q_id q) (q_type q) ls) Hnames) by (rewrite front_length; lia).
  rewrite bodies_length.
  replace ((1 + N.of_nat (length names) - 1) mod 65536) with (N.of_nat (length names)) by lia.
  unfold front. rewrite <- !app_assoc, set_ancount_hdr. reflexivity.
Qed.

Lemma bodies_shapes ty names : (ty = T_MX \/ ty = T_SRV) -> Forall enc_host_ok names -> forall a,
  Forall2 (fun rd rdn => N.of_nat (length rd) < 65536 /\ rd_shape ty rd rdn /\ short_labels rdn)
          (bodies ty a names) (map (fun nm => Some (tokens nm)) names).
Proof.
  intros Hty Hok. induction Hok as [|nm r Hnm Hr IH]; intros a; [constructor|].
  cbn [bodies map]. constructor; [|apply IH].
  destruct (host_putname 253 nm Hnm) as [_ [Hlo [Hwl H57]]]; [lia|].
  pose proof (srv_bytes_length ty) as Hsl.
  split; [|split; [|exact H57]].
  - rewrite !app_length, be16_length, enc_name_length. lia.
  - rewrite app_assoc. apply rs_name; [|exact Hlo|exact Hwl].
    unfold srv_bytes. destruct Hty as [-> | ->]; reflexivity.
Qed.

(* ---------------------------------------------------------------------------------- *)
(* the empty payload: one name for the letter, one for the suffix                       *)

Lemma small_host_ok (x : N) : x <> 46 -> x <> 0 -> enc_host_ok [x].
Proof.
  intros H1 H2. unfold enc_host_ok, tokens. cbn [tokens_go]. unfold DOTC.
  destruct (x =? 46) eqn:E; [lia|]. cbn [List.rev app].
  repeat split; [intros [H|[]]; lia|cbn; lia|discriminate|constructor; [cbn; lia|constructor]].
Qed.

Lemma small_host_ok2 (x y : N) : 97 <= x -> 97 <= y -> enc_host_ok [x; y].
Proof.
  intros H1 H2. unfold enc_host_ok, tokens. cbn [tokens_go]. unfold DOTC.
  destruct (x =? 46) eqn:E; [lia|]. destruct (y =? 46) eqn:E'; [lia|]. cbn [List.rev app].
  repeat split; [intros [H|[H|[]]]; lia|cbn; lia|discriminate|constructor; [cbn; lia|constructor]].
Qed.

Lemma nameenc_name_empty c letter td' buflen : (255 <= buflen)%nat ->
  (letter = 104 \/ letter = 105 \/ letter = 106 \/ letter = 107) ->
  nameenc_name c letter [] td' buflen = [letter; 46; 97 + N.of_nat (fst td'); 97 + N.of_nat (snd td')].
Proof.
  intros Hb Hlet. unfold nameenc_name, encode. rewrite enc_go_nil. cbn [fst].
  unfold inline_dotify. cbn [length]. rewrite period_dots_57. change (1 / 57)%nat with 0%nat.
  destruct (buflen <? 1 + 0)%nat eqn:E; [apply Nat.ltb_lt in E; lia|].
  cbn [List.rev app dotify_back last]. unfold DOT.
  destruct (letter =? 46) eqn:E1; [destruct Hlet as [->|[->|[->| ->]]]; discriminate|].
  reflexivity.
Qed.

Lemma mx_build_empty downenc td :
  exists names, mx_build 1 [] downenc td [] = (mxdata names, td_next td) /\
                names <> [] /\ Forall enc_host_ok names /\ (length names <= 2)%nat.
Proof.
  cbn [mx_build]. rewrite (nameenc_eq buf64k [] downenc td) by (unfold buf64k; lia).
  pose proof (downenc_codec_cases downenc) as Hcc. cbv zeta in Hcc. destruct Hcc as [Hc Hlet].
  rewrite (nameenc_name_empty _ _ (td_next td) buf64k) by (try assumption; unfold buf64k; lia).
  unfold encode. rewrite enc_go_nil. cbn [snd firstn skipn app].
  exists [[snd (downenc_codec downenc)]; [97 + N.of_nat (fst (td_next td)); 97 + N.of_nat (snd (td_next td))]].
  split; [reflexivity|]. split; [discriminate|]. split; [|cbn; lia].
  constructor; [|constructor; [apply small_host_ok2; lia|constructor]].
  apply small_host_ok; destruct Hlet as [->|[->|[->| ->]]]; discriminate.
Qed.

(* ---------------------------------------------------------------------------------- *)
(* stage 4: MX / SRV                                                                     *)

Lemma answer_wf_mx q ls p downenc td :
  q_name q = name_of ls -> wf_labels ls -> ls <> [] -> q_id q < 65536 ->
  (q_type q = T_MX \/ q_type q = T_SRV) -> (length p <= 4098)%nat ->
  answer_goal q ls p downenc td.
Proof.
  intros Hn [Hok Hw] Hne Hid Hty Hp.
  assert (Hat : answer_type (q_type q) = q_type q) by (destruct Hty as [-> | ->]; reflexivity).
  assert (Hq : q_type q < 65536) by (destruct Hty as [-> | ->]; unfold T_MX, T_SRV; lia).
  assert (Hqa : answer_type (q_type q) < 65536) by (rewrite Hat; exact Hq).
  unfold answer_goal, write_dns.
  assert (Hb1 : (q_type q =? T_CNAME) || (q_type q =? T_A) = false) by (destruct Hty as [-> | ->]; reflexivity).
  assert (Hb2 : (q_type q =? T_MX) || (q_type q =? T_SRV) = true) by (destruct Hty as [-> | ->]; reflexivity).
  rewrite Hb1, Hb2.
  assert (Hnames : exists names td', mx_build (S (length p)) p downenc td [] = (mxdata names, td') /\
                                     names <> [] /\ Forall enc_host_ok names /\ (length names <= 100)%nat).
  { destruct p as [|b p'].
    - destruct (mx_build_empty downenc td) as [names [H1 [H2 [H3 H4]]]]. exists names, (td_next td).
      cbn [length]. repeat split; try assumption. lia.
    - destruct (mx_build_shape downenc (S (length (b :: p'))) (b :: p') td []) as [names [td' [H1 [H2 [H3 H4]]]]]; [discriminate|lia|].
      exists names, td'. repeat split; try assumption. lia. }
  destruct Hnames as [names [td' [H1 [H2 [H3 H4]]]]].
  rewrite H1.
  assert (HF : Forall2 (fun rd rdn => N.of_nat (length rd) < 65536 /\ rd_shape (answer_type (q_type q)) rd rdn /\ short_labels rdn)
                       (bodies (q_type q) 1 names) (map (fun nm => Some (tokens nm)) names)).
  { rewrite Hat. apply bodies_shapes; assumption. }
  destruct (answer_msg_ok q ls (bodies (q_type q) 1 names) (map (fun nm => Some (tokens nm)) names) Hid Hq Hqa) as [msg [Hwf Hans]];
    try assumption.
  { destruct names; [congruence|discriminate]. }
  { rewrite bodies_length. lia. }
  eexists. exists td', msg. split; [rewrite (answer_mx_form q ls names Hn Hok Hw Hty H2 H3 H4); reflexivity|].
  split; [rewrite Hat in Hwf; exact Hwf|exact Hans].
Qed.
