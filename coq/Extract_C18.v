(* Extraction of the executable model of src/user.c, used only by the C18 correspondence check.
   ExtrOcamlBasic only; N, positive, nat stay as extracted datatypes; no Extract Constant. *)
From Coq Require Import Extraction ExtrOcamlBasic.
From Iodine Require Import Users.
Extraction Language OCaml.
Set Extraction Optimize.
Extraction "extracted/model_c18.ml" Users.init_users Users.find_user_by_ip Users.find_available_user
  Users.fresh_users Users.netmask_accepted Users.u_active Users.u_auth Users.u_disabled Users.u_last_pkt
  Users.u_tun_ip.
