(* Extraction of the executable model for the C11 correspondence check (ExtrOcamlBasic only). *)
From Coq Require Import Extraction ExtrOcamlBasic.
From Iodine Require Import Relay Negotiate.
Extraction Language OCaml.
Set Extraction Optimize.
Extraction "extracted/model_c11.ml" Negotiate.negotiate Relay.no_flip Negotiate.up_test Negotiate.downcheck
  Negotiate.probe Negotiate.probe_qname Negotiate.answer_msg.
