(* Users.v -- executable model of src/user.c: init_users (tunnel address pool),
   find_user_by_ip (lookup by tunnel address) and find_available_user (slot allocation).
   Model only; proofs are in UsersProofs.v.

   Representation: [in_addr_t] is a 32-bit unsigned holding the little-endian load of the four
   network-order bytes, exactly what the C manipulates on x86-64: 10.0.0.1 is 0x0100000A.
   All 32-bit results are reduced with [u32] where the C wraps. *)
From Coq Require Import List NArith Arith Bool.
From Iodine Require Import Generated.SrcConsts.
Import ListNotations.
Local Open Scope N_scope.

Definition u32 (x : N) : N := x mod 2 ^ 32.

(* htonl / ntohl on a little-endian machine: reversal of the four bytes *)
Definition bswap32 (x : N) : N :=
  let x1 := x / 256 in
  let x2 := x1 / 256 in
  let x3 := x2 / 256 in
  (x mod 256) * 2 ^ 24 + (x1 mod 256) * 2 ^ 16 + (x2 mod 256) * 2 ^ 8 + x3 mod 256.

Definition htonl := bswap32.

(* for (i = 0; i < netbits; i++) netmask = (netmask << 1) | 1;   (32-bit unsigned) *)
Fixpoint mask_loop (n : nat) (m : N) : N :=
  match n with
  | O => m
  | S n' => mask_loop n' (u32 (N.lor (N.shiftl m 1) 1))
  end.

(* netmask <<= (32 - netbits); net.s_addr = htonl(netmask)   (netbits <= 32) *)
Definition netmask_host (netbits : nat) : N :=
  u32 (N.shiftl (mask_loop netbits 0) (32 - N.of_nat netbits)).

Definition net_saddr (netbits : nat) : N := htonl (netmask_host netbits).

(* inet_addr("0.0.0.k") for k < 256: k in the last network-order byte = bits 24..31 of the
   little-endian load.  (k <= USERS + 1 = 17 in init_users.) *)
Definition inet_addr_last (k : N) : N := k * 2 ^ 24.

(* maxusers = (1 << (32-netbits)) - 3 as a C int, usercount = MIN(maxusers, USERS) stored in an
   unsigned: a negative maxusers (netbits 31, 32 -- refused by iodined's range check) would
   wrap to 2^32 + maxusers. *)
Definition user_count (netbits : nat) : N :=
  let p := N.shiftl 1 (32 - N.of_nat netbits) in
  if p <? src_USER_RESERVED_ADDRS then u32 (2 ^ 32 + p - src_USER_RESERVED_ADDRS)
  else N.min (p - src_USER_RESERVED_ADDRS) src_USERS.

(* the loop body for slots i, i+1, ..., i+n-1 with the current value of [skip] *)
Fixpoint assign (my_ip ipstart : N) (n : nat) (i skip : N) : list N :=
  match n with
  | O => []
  | S n' =>
      let ip := u32 (ipstart + inet_addr_last (i + skip + 1)) in
      if (ip =? my_ip) && (skip =? 0) then
        (* This IP was taken by iodined *)
        let skip' := skip + 1 in
        let ip' := u32 (ipstart + inet_addr_last (i + skip' + 1)) in
        ip' :: assign my_ip ipstart n' (i + 1) skip'
      else
        ip :: assign my_ip ipstart n' (i + 1) skip
  end.

(* init_users my_ip netbits = (users[0..usercount-1].tun_ip as stored, usercount) *)
Definition init_users (my_ip : N) (netbits : nat) : list N * N :=
  let ipstart := N.land my_ip (net_saddr netbits) in
  let usercount := user_count netbits in
  (assign my_ip ipstart (N.to_nat usercount) 0 0, usercount).

(* iodined.c: if (netmask > 30 || netmask < 8) usage(); *)
Definition netmask_accepted (netbits : nat) : bool :=
  negb ((src_NETMASK_MAX <? N.of_nat netbits) || (N.of_nat netbits <? src_NETMASK_MIN)).

(* --- session table ------------------------------------------------------------------- *)

(* the fields of struct tun_user read or written by the two lookups; the int flags are kept
   as numbers, C truth = non-zero *)
Record user := {
  u_active : N;
  u_auth : N;
  u_disabled : N;
  u_last_pkt : N;
  u_tun_ip : N
}.

Definition truthy (x : N) : bool := negb (x =? 0).

(* users[i].active && users[i].authenticated && !users[i].disabled &&
   users[i].last_pkt + 60 > time(NULL) *)
Definition live (now : N) (u : user) : bool :=
  truthy (u_active u) && truthy (u_auth u) && negb (truthy (u_disabled u)) &&
  (now <? u_last_pkt u + src_USER_TIMEOUT).

Definition hit (ip now : N) (u : user) : bool := live now u && (ip =? u_tun_ip u).

Fixpoint find_from (us : list user) (ip now : N) (i : nat) : option nat :=
  match us with
  | [] => None
  | u :: t => if hit ip now u then Some i else find_from t ip now (S i)
  end.

(* find_user_by_ip over users[0..usercount-1]: None is the C's -1 *)
Definition find_user_by_ip (us : list user) (ip now : N) : option nat := find_from us ip now O.

(* find_available_user: first slot that is (!active || last_pkt + 60 < now) && !disabled;
   it becomes active, unauthenticated, last_pkt = now *)
Definition available (now : N) (u : user) : bool :=
  (negb (truthy (u_active u)) || (u_last_pkt u + src_USER_TIMEOUT_AVAIL <? now)) &&
  negb (truthy (u_disabled u)).

Definition claim (now : N) (u : user) : user :=
  {| u_active := 1; u_auth := 0; u_disabled := u_disabled u; u_last_pkt := now; u_tun_ip := u_tun_ip u |}.

Fixpoint avail_from (us : list user) (now : N) (i : nat) : option nat * list user :=
  match us with
  | [] => (None, [])
  | u :: t =>
      if available now u then (Some i, claim now u :: t)
      else let r := avail_from t now (S i) in (fst r, u :: snd r)
  end.

Definition find_available_user (us : list user) (now : N) : option nat * list user :=
  avail_from us now O.

(* the table right after init_users: calloc'ed, flags cleared *)
Definition fresh_users (ips : list N) : list user :=
  map (fun ip => {| u_active := 0; u_auth := 0; u_disabled := 0; u_last_pkt := 0; u_tun_ip := ip |}) ips.
