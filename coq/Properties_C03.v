(* Properties_C03.v -- final statements for property C03 (no tunnel access without answering the
   password challenge), about the validated model of the iodined dispatcher (Server.v).  Only
   statements, each closed by a lemma of ServerAuthFinal.v / ServerAuthSteps.v / ServerAuthProofs.v,
   with Print Assumptions beneath.  The oracles login (login_calculate), zc / unz (zlib) are
   universally quantified: nothing is assumed about them.

   Vocabulary (ServerAuthDefs.v, ServerAuthProofs.v, ServerAuthSteps.v, ServerFrame.v):
     step login zc unz c st e = (st', outs)   one event (EDns / ERaw / ETun / ESweepClear / ESweepSend)
     getu st i                       slot i of the session table (a blank record when out of range)
     dispatch c q = Some dl          tunnel_dns hands the query to handle_null_request with dl request bytes
     req_inb q dl, req_unpacked q dl the request bytes / their Base32 decoding (bytes after the command letter)
     cmd_of c0                       command selected by the first request byte (V L I Z S O Y R N P, hex digit = data)
     named_user q dl                 the userid the request names: L N P: first decoded byte as signed char;
                                     I S O: Base32 digit of the 2nd byte; R: (digit >> 1) & 15; data: hex digit
     cmd_check c st now k uz from    the check command k applies: L: check_user_and_ip; I R P data:
                                     check_authenticated_user_and_ip; S O N: ..._and_options   (true = refused)
     precheck q dl = Some outs       the handler returns outs before looking at the userid (BADLEN / silently)
     refusal p q                     the outputs of a refused request: p's outs, else one BADIP answer to the sender
     slot_ok st now i                i < #slots, active, not disabled, not (last_pkt + 60 < now)
     source_ok c u from              when source checking is on: same family, IPv4 or IPv6, same address as u_host u
     sec u                           (active, auth, auth_raw, locked, disabled, seed, tun_ip, host, enc, downenc, lazy, fragsize, conn)
     alloc_event c st e i            e is a V request with the right version for which find_available_user returns i
     login_event, option_event, data_event, rawlogin_event, rawdata_event: accepted L / S,O,N / data / raw LOGIN / raw DATA
                                     for slot i (definitions in ServerAuthSteps.v)
     raw_hdr pk cmd i                pk is a raw frame (>= 4 bytes, magic) with command cmd and userid nibble i
     raw_login_ok login c st now pk i   >= 16 payload bytes = login(password, seed_i + 1 mod 2^32), slot_ok, auth_i
     run login zc unz c st es        the state after the events es
     since c st0 P es i              ghost: P held for slot i at some event of es and slot i was not allocated afterwards *)
From Coq Require Import List NArith ZArith Arith Bool Lia.
From RecordUpdate Require Import RecordUpdate.
From Iodine Require Import Generated.SrcConsts Base Codec Hostname DnsName DnsMsg Domain Server
  ServerFrame ServerAuthDefs ServerAuthProofs ServerAuthSteps ServerIsolationProofs ServerAuthFinal.
From Iodine Require Users.
Import ListNotations.
Local Open Scope N_scope.

(* -- the authenticated flag is set only by a login answering the slot's current challenge *)
Theorem C03_auth_only_by_login : forall login zc unz c st e st' outs i,
  step login zc unz c st e = (st', outs) ->
  u_auth (getu st i) = false -> u_auth (getu st' i) = true ->
  exists now rnd q dl,
    e = EDns now rnd q /\ dispatch c q = Some dl /\ (2 <= dl)%nat /\
    is_letter (chr (h_name q) 0) 108 = true /\
    (18 <= length (req_unpacked q dl))%nat /\
    schar (chr (req_unpacked q dl) 0) = Z.of_nat i /\
    firstn 16 (skipn 1 (req_unpacked q dl)) = login (c_password c) (u_seed (getu st i)) /\
    check_user_and_ip c st now (Z.of_nat i) (h_from q) = false /\
    slot_ok st now i /\ source_ok c (getu st i) (h_from q) /\
    getu st' i = set_login now (getu st i).
Proof. exact final_auth. Qed.
Print Assumptions C03_auth_only_by_login.

(* -- authenticated_raw only by a raw LOGIN frame for that slot carrying login(password, seed + 1),
      and only when the slot is already logged in *)
Theorem C03_authraw_only_by_raw_login : forall login zc unz c st e st' outs i,
  step login zc unz c st e = (st', outs) ->
  u_auth_raw (getu st i) = false -> u_auth_raw (getu st' i) = true ->
  exists now from pk,
    e = ERaw now from pk /\ (4 <= length pk)%nat /\ firstn 3 pk = firstn 3 src_raw_header /\
    N.land (chr pk 3) src_RAW_HDR_CMD_MASK = src_RAW_HDR_CMD_LOGIN /\
    N.to_nat (N.land (chr pk 3) src_RAW_HDR_USR_MASK) = i /\
    (16 <= length (skipn 4 pk))%nat /\
    firstn 16 (skipn 4 pk) = login (c_password c) (wrap32 (Z.of_N (u_seed (getu st i)) + 1)) /\
    slot_ok st now i /\ u_auth (getu st i) = true /\
    getu st' i = set_raw now from (getu st i).
Proof. exact final_authraw. Qed.
Print Assumptions C03_authraw_only_by_raw_login.

(* -- the V handler: the allocated slot restarts unauthenticated with a fresh challenge ... *)
Theorem C03_claim_clears : forall login zc unz c st now rnd q dl i st' outs,
  dispatch c q = Some dl -> (2 <= dl)%nat -> is_letter (chr (h_name q) 0) 118 = true ->
  version_of (req_unpacked q dl) = src_PROTOCOL_VERSION -> find_available_from st now 0 = Some i ->
  step login zc unz c st (EDns now rnd q) = (st', outs) ->
  getu st' i = reset_session (claim now (getu st i)) q (rnd mod 2147483648) /\
  u_active (getu st' i) = true /\ u_auth (getu st' i) = false /\ u_auth_raw (getu st' i) = false /\
  u_locked (getu st' i) = false /\ u_seed (getu st' i) = rnd mod 2147483648 /\
  u_host (getu st' i) = h_from q /\ u_last (getu st' i) = now /\
  (forall j, j <> i -> getu st' j = getu st j) /\
  outs = [mk_answer q (vack (rnd mod 2147483648) i) 84].
Proof. exact final_claim. Qed.
Print Assumptions C03_claim_clears.

(* ... and nothing else (re)allocates: a slot's active flag or seed changes only in such a step *)
Theorem C03_claim_only : forall login zc unz c st e st' outs i,
  step login zc unz c st e = (st', outs) ->
  u_active (getu st' i) <> u_active (getu st i) \/ u_seed (getu st' i) <> u_seed (getu st i) ->
  exists now rnd q dl, e = EDns now rnd q /\ dispatch c q = Some dl /\ (2 <= dl)%nat /\
    is_letter (chr (h_name q) 0) 118 = true /\
    version_of (req_unpacked q dl) = src_PROTOCOL_VERSION /\ find_available_from st now 0 = Some i.
Proof. exact final_claim_only. Qed.
Print Assumptions C03_claim_only.

(* -- the whole access-control state of every slot changes only in five ways *)
Theorem C03_step_classification : forall login zc unz c st e st' outs,
  step login zc unz c st e = (st', outs) ->
  length st' = length st /\ forall i, slot_change login c st e i (getu st i) (getu st' i).
Proof. exact step_slot_change. Qed.
Print Assumptions C03_step_classification.

(* -- privileged effects.  (1) a write to the tun device *)
Theorem C03_privileged_tun : forall login zc unz c st e st' outs b,
  step login zc unz c st e = (st', outs) -> In (OTun b) outs ->
  exists i, (data_event c st e i \/ rawdata_event c st e i) /\
    u_auth (getu st i) = true /\
    (rawdata_event c st e i -> u_auth_raw (getu st i) = true) /\
    slot_ok st (match e with EDns now _ _ | ERaw now _ _ | ETun now _ | ESweepClear now | ESweepSend now => now end) i.
Proof. exact final_tun_write. Qed.
Print Assumptions C03_privileged_tun.

(* (2) any change of the session table by a DNS-mode request (this covers client-to-client
   forwarding into another slot's outpacket / queue): an allocation, or a request naming a session
   that passed its check -- logged in, unless the request is the login itself, which touches only
   its own slot *)
Theorem C03_privileged_change : forall login zc unz c st now rnd q st' outs,
  step login zc unz c st (EDns now rnd q) = (st', outs) -> st' <> st ->
  (exists i, alloc_event c st (EDns now rnd q) i /\ forall j, j <> i -> getu st' j = getu st j) \/
  (exists i dl, dispatch c q = Some dl /\ (2 <= dl)%nat /\ named_user q dl = Some (Z.of_nat i) /\
     cmd_check c st now (cmd_of (chr (req_inb q dl) 0)) (Z.of_nat i) (h_from q) = false /\
     slot_ok st now i /\ source_ok c (getu st i) (h_from q) /\
     (cmd_of (chr (req_inb q dl) 0) <> CL -> u_auth (getu st i) = true) /\
     (cmd_of (chr (req_inb q dl) 0) = CL -> forall j, j <> i -> getu st' j = getu st j)).
Proof. exact final_dns_change. Qed.
Print Assumptions C03_privileged_change.

(* (3) any effect at all of a raw-mode frame (state change or datagram sent, including forwarding
   to another session) *)
Theorem C03_privileged_raw : forall login zc unz c st now from pk st' outs,
  step login zc unz c st (ERaw now from pk) = (st', outs) -> st' <> st \/ outs <> [] ->
  exists i, slot_ok st now i /\ u_auth (getu st i) = true /\
    ((raw_hdr pk src_RAW_HDR_CMD_LOGIN i /\ raw_login_ok login c st now pk i) \/
     ((raw_hdr pk src_RAW_HDR_CMD_DATA i \/ raw_hdr pk src_RAW_HDR_CMD_PING i) /\
      check_auth c st now (Z.of_nat i) from = false /\ u_auth_raw (getu st i) = true /\
      source_ok c (getu st i) from)).
Proof. exact final_raw_change. Qed.
Print Assumptions C03_privileged_raw.

(* (4) the I request discloses the address only to a logged-in session *)
Theorem C03_privileged_I : forall login zc unz c st now rnd q dl st' outs,
  dispatch c q = Some dl -> (2 <= dl)%nat -> is_letter (chr (h_name q) 0) 105 = true ->
  step login zc unz c st (EDns now rnd q) = (st', outs) ->
  let uz := Z.of_N (b32_8to5 (chr (req_inb q dl) 1)) in
  st' = st /\
  ((check_auth c st now uz (h_from q) = true /\ outs = [mk_answer q s_BADIP 84]) \/
   (check_auth c st now uz (h_from q) = false /\ outs = [mk_answer q (i_reply c q) 84] /\
    slot_ok st now (Z.to_nat uz) /\ u_auth (getu st (Z.to_nat uz)) = true)).
Proof. exact final_I. Qed.
Print Assumptions C03_privileged_I.

(* (5) codec, options, fragment size, options lock of an allocated slot *)
Theorem C03_privileged_options : forall login zc unz c st e st' outs i,
  step login zc unz c st e = (st', outs) ->
  u_enc (getu st' i) <> u_enc (getu st i) \/ u_downenc (getu st' i) <> u_downenc (getu st i) \/
  u_lazy (getu st' i) <> u_lazy (getu st i) \/ u_fragsize (getu st' i) <> u_fragsize (getu st i) \/
  u_locked (getu st' i) <> u_locked (getu st i) ->
  alloc_event c st e i \/ (option_event c st e i /\ u_auth (getu st i) = true).
Proof. exact final_options. Qed.
Print Assumptions C03_privileged_options.

(* (6) the switch to raw UDP mode *)
Theorem C03_privileged_conn_raw : forall login zc unz c st e st' outs i,
  step login zc unz c st e = (st', outs) ->
  u_conn (getu st i) = CONN_DNS -> u_conn (getu st' i) = CONN_RAW ->
  rawlogin_event login c st e i /\ u_auth (getu st i) = true.
Proof. exact final_conn_raw. Qed.
Print Assumptions C03_privileged_conn_raw.

(* (7) the exact result of a refused request: unchanged table, one BADIP answer (or the handler's
   earlier BADLEN / silent return) *)
Theorem C03_refused : forall login zc unz c st now rnd q dl uz,
  dispatch c q = Some dl -> (2 <= dl)%nat -> named_user q dl = Some uz ->
  cmd_check c st now (cmd_of (chr (req_inb q dl) 0)) uz (h_from q) = true ->
  step login zc unz c st (EDns now rnd q) = (st, refusal (precheck q dl) q).
Proof.
  intros login zc unz c st now rnd q dl uz Hd Hdl Hn Hc.
  apply (step_refused login zc unz c st _ now rnd q dl uz); [repeat split; assumption|exact Hn|exact Hc].
Qed.
Print Assumptions C03_refused.

(* every command other than L refuses a session that has not logged in *)
Theorem C03_refused_unauthenticated : forall login zc unz c st now rnd q dl uz,
  dispatch c q = Some dl -> (2 <= dl)%nat -> named_user q dl = Some uz ->
  cmd_of (chr (req_inb q dl) 0) <> CL -> u_auth (getu st (Z.to_nat uz)) = false ->
  step login zc unz c st (EDns now rnd q) = (st, refusal (precheck q dl) q).
Proof.
  intros login zc unz c st now rnd q dl uz Hd Hdl Hn Hl Ha.
  apply (step_refused_unauth login zc unz c st _ now rnd q dl uz); [repeat split; assumption|assumption..].
Qed.
Print Assumptions C03_refused_unauthenticated.

(* negative (signed char of a byte >= 0x80), out-of-range and unallocated userids *)
Theorem C03_refused_userids : forall login zc unz c st now rnd q dl uz,
  dispatch c q = Some dl -> (2 <= dl)%nat -> named_user q dl = Some uz ->
  (uz < 0)%Z \/ (Z.of_nat (length st) <= uz)%Z \/ u_active (getu st (Z.to_nat uz)) = false ->
  step login zc unz c st (EDns now rnd q) = (st, refusal (precheck q dl) q).
Proof. exact final_bad_userid. Qed.
Print Assumptions C03_refused_userids.

Theorem C03_negative_userid : forall q dl b, (2 <= dl)%nat ->
  (cmd_of (chr (req_inb q dl) 0) = CL \/ cmd_of (chr (req_inb q dl) 0) = CN \/ cmd_of (chr (req_inb q dl) 0) = CP) ->
  chr (req_unpacked q dl) 0 = b -> 128 <= b < 256 ->
  exists uz, named_user q dl = Some uz /\ (uz < 0)%Z.
Proof. exact named_user_negative. Qed.
Print Assumptions C03_negative_userid.

(* raw frames: refused unless the conditions of C03_privileged_raw hold *)
Theorem C03_refused_raw : forall login zc unz c st now from pk v i, raw_hdr pk v i ->
  (v = src_RAW_HDR_CMD_LOGIN -> ~ raw_login_ok login c st now pk i) ->
  (v = src_RAW_HDR_CMD_DATA \/ v = src_RAW_HDR_CMD_PING ->
     check_auth c st now (Z.of_nat i) from = true \/ u_auth_raw (getu st i) = false) ->
  step login zc unz c st (ERaw now from pk) = (st, []).
Proof. exact raw_refused. Qed.
Print Assumptions C03_refused_raw.

(* what the checks mean *)
Theorem C03_check_meaning : forall c st now uz from,
  (check_user_and_ip c st now uz from = false <->
     (0 <= uz)%Z /\ slot_ok st now (Z.to_nat uz) /\ source_ok c (getu st (Z.to_nat uz)) from) /\
  (check_auth c st now uz from = false <->
     check_user_and_ip c st now uz from = false /\ u_auth (getu st (Z.to_nat uz)) = true) /\
  (check_auth_options c st now uz from = false <->
     check_auth c st now uz from = false /\ (c_check_ip c = false -> u_locked (getu st (Z.to_nat uz)) = false)).
Proof.
  intros. split; [apply cuip_false|]. split; [apply check_auth_false|apply check_auth_options_false_iff].
Qed.
Print Assumptions C03_check_meaning.

(* the conjunction asked for under the name C03_privileged *)
Theorem C03_privileged : forall login zc unz c st e st' outs,
  step login zc unz c st e = (st', outs) ->
  (forall b, In (OTun b) outs ->
     exists i, (data_event c st e i \/ rawdata_event c st e i) /\ u_auth (getu st i) = true /\
               (rawdata_event c st e i -> u_auth_raw (getu st i) = true)) /\
  (forall i,
     u_enc (getu st' i) <> u_enc (getu st i) \/ u_downenc (getu st' i) <> u_downenc (getu st i) \/
     u_lazy (getu st' i) <> u_lazy (getu st i) \/ u_fragsize (getu st' i) <> u_fragsize (getu st i) \/
     u_locked (getu st' i) <> u_locked (getu st i) ->
     alloc_event c st e i \/ (option_event c st e i /\ u_auth (getu st i) = true)) /\
  (forall i, u_conn (getu st i) = CONN_DNS -> u_conn (getu st' i) = CONN_RAW ->
     rawlogin_event login c st e i /\ u_auth (getu st i) = true) /\
  (forall i, u_auth (getu st i) = false -> u_auth (getu st' i) = true -> login_event login c st e i) /\
  (forall i, u_auth_raw (getu st i) = false -> u_auth_raw (getu st' i) = true ->
     rawlogin_event login c st e i /\ u_auth (getu st i) = true).
Proof.
  intros login zc unz c st e st' outs H. split; [|split; [|split; [|split]]].
  - intros b Hin. destruct (final_tun_write login zc unz _ _ _ _ _ _ H Hin) as (i & A & B & C & _).
    exists i. repeat split; assumption.
  - intros i. apply (final_options login zc unz _ _ _ _ _ _ H).
  - intros i. apply (final_conn_raw login zc unz _ _ _ _ _ _ H).
  - intros i. apply (auth_only_by_login login zc unz _ _ _ _ _ _ H).
  - intros i F T. pose proof (authraw_only_by_raw_login login zc unz _ _ _ _ _ _ H F T) as Hr.
    split; [exact Hr|]. destruct Hr as (now & from & pk & _ & _ & (_ & _ & Ha & _)). exact Ha.
Qed.
Print Assumptions C03_privileged.

(* -- traces from the initial table: an authenticated slot answered the challenge it still holds,
      after its last allocation *)
Theorem C03_trace : forall login zc unz c ips es i,
  u_auth (getu (run login zc unz c (init_state ips) es) i) = true ->
  exists es1 e es2, es = es1 ++ e :: es2 /\
    login_event login c (run login zc unz c (init_state ips) es1) e i /\
    (forall a e' b, es2 = a ++ e' :: b ->
       ~ alloc_event c (run login zc unz c (init_state ips) (es1 ++ e :: a)) e' i) /\
    u_seed (getu (run login zc unz c (init_state ips) es) i) =
    u_seed (getu (run login zc unz c (init_state ips) es1) i).
Proof. exact auth_trace_seed. Qed.
Print Assumptions C03_trace.

Theorem C03_trace_raw : forall login zc unz c ips es i,
  u_auth_raw (getu (run login zc unz c (init_state ips) es) i) = true ->
  u_auth (getu (run login zc unz c (init_state ips) es) i) = true /\
  exists es1 e es2, es = es1 ++ e :: es2 /\
    rawlogin_event login c (run login zc unz c (init_state ips) es1) e i /\
    (forall a e' b, es2 = a ++ e' :: b ->
       ~ alloc_event c (run login zc unz c (init_state ips) (es1 ++ e :: a)) e' i).
Proof.
  intros login zc unz c ips es i T. split; [apply authraw_implies_auth, T|].
  apply since_unfold. apply authraw_trace, T.
Qed.
Print Assumptions C03_trace_raw.

(* what a login event is *)
Theorem C03_login_event : forall login c st e i, login_event login c st e i ->
  exists now rnd q dl,
    e = EDns now rnd q /\ dispatch c q = Some dl /\ (2 <= dl)%nat /\
    is_letter (chr (h_name q) 0) 108 = true /\
    (18 <= length (req_unpacked q dl))%nat /\
    schar (chr (req_unpacked q dl) 0) = Z.of_nat i /\
    firstn 16 (skipn 1 (req_unpacked q dl)) = login (c_password c) (u_seed (getu st i)) /\
    check_user_and_ip c st now (Z.of_nat i) (h_from q) = false /\
    slot_ok st now i /\ source_ok c (getu st i) (h_from q).
Proof. exact login_event_unfold. Qed.
Print Assumptions C03_login_event.

(* -- replay: the response to an earlier challenge logs in only if it equals the response to the
      current one *)
Theorem C03_replay : forall login zc unz c st e st' outs i now rnd q dl s_old,
  step login zc unz c st e = (st', outs) ->
  u_auth (getu st i) = false -> u_auth (getu st' i) = true ->
  e = EDns now rnd q -> dispatch c q = Some dl ->
  firstn 16 (skipn 1 (req_unpacked q dl)) = login (c_password c) s_old ->
  login (c_password c) s_old = login (c_password c) (u_seed (getu st i)).
Proof. exact final_replay. Qed.
Print Assumptions C03_replay.

(* ---------------------------------------------------------------------------------------------------- *)
(* non-vacuity: a concrete handshake under the instantiation used by the correspondence run.         *)

(* the example configuration, addresses and requests (ex_...) are defined at the end of ServerAuthFinal.v *)

(* V from A allocates slot 0 with seed 777; the right login from A authenticates it; a login for
   another challenge (778) or from B does not; a login naming userid 0x80 or 16 is refused *)
Example C03_example_handshake :
  let st0 := init_state ex_ips in
  let st1 := fst (ex_step true st0 (EDns 1000 777 (ex_V ex_A))) in
  ex_flags st1 0 = (true, false, 777, 1000) /\
  ex_flags (fst (ex_step true st1 (EDns 1001 0 (ex_L ex_A 0 777)))) 0 = (true, true, 777, 1001) /\
  ex_flags (fst (ex_step true st1 (EDns 1001 0 (ex_L ex_A 0 778)))) 0 = (true, false, 777, 1001) /\
  ex_res (ex_step true st1 (EDns 1001 0 (ex_L ex_B 0 777))) = (ex_sig st1, [mk_answer (ex_L ex_B 0 777) s_BADIP 84]) /\
  ex_flags (fst (ex_step false st1 (EDns 1001 0 (ex_L ex_B 0 777)))) 0 = (true, true, 777, 1001) /\
  ex_res (ex_step true st1 (EDns 1001 0 (ex_L ex_A 128 777))) = (ex_sig st1, [mk_answer (ex_L ex_A 128 777) s_BADIP 84]) /\
  ex_res (ex_step true st1 (EDns 1001 0 (ex_L ex_A 16 777))) = (ex_sig st1, [mk_answer (ex_L ex_A 16 777) s_BADIP 84]) /\
  dispatch (ex_c true) (ex_L ex_A 0 777) = Some 33%nat /\ named_user (ex_L ex_A 128 777) 33 = Some (-128)%Z.
Proof. vm_compute. repeat split; reflexivity. Qed.

(* replay after re-allocation: the slot expires (61 s), is handed to B with seed 5, and A's old login
   (for seed 777) no longer logs in *)
Example C03_example_replay :
  let st0 := init_state ex_ips in
  let st1 := fst (ex_step false st0 (EDns 1000 777 (ex_V ex_A))) in
  let st2 := fst (ex_step false st1 (EDns 1001 0 (ex_L ex_A 0 777))) in
  let st3 := fst (ex_step false st2 (EDns 1062 5 (ex_V ex_B))) in
  ex_flags st2 0 = (true, true, 777, 1001) /\
  ex_flags st3 0 = (true, false, 5, 1062) /\
  ex_flags (fst (ex_step false st3 (EDns 1063 0 (ex_L ex_A 0 777)))) 0 = (true, false, 5, 1063) /\
  ex_flags (fst (ex_step false st3 (EDns 1063 0 (ex_L ex_A 0 5)))) 0 = (true, true, 5, 1063) /\
  (* at 60 s exactly slot 0 is still owned: the V goes to slot 1 *)
  ex_flags (fst (ex_step false st2 (EDns 1061 5 (ex_V ex_B)))) 0 = (true, true, 777, 1001) /\
  ex_flags (fst (ex_step false st2 (EDns 1061 5 (ex_V ex_B)))) 1 = (true, false, 5, 1061).
Proof. vm_compute. repeat split; reflexivity. Qed.

(* scope note: the address the I reply carries (-n ns_ip, else the destination address of the query)
   is also what iodined answers to an A query for ns.<topdomain> from anybody -- that is the public
   address record of the delegated name server, served by tunnel_dns before any session handling
   (an OAux output), and is not an effect of handle_null_request *)
Example C03_scope_ns_record :
  let c := {| c_topdomain := ex_dom; c_password := ex_pw; c_check_ip := true; c_my_ip := 16777226;
              c_netmask := 27; c_mtu := 1130; c_ns_ip := Some [198; 51; 100; 7]; c_bind := false |} in
  let q := {| h_name := [110; 115; 46] ++ ex_dom; h_type := 1; h_id := 77; h_from := ex_B; h_id2 := 0;
              h_from2 := addr0; h_dest := None |} in
  dispatch c q = None /\
  match step login_stub zc_frame unz_frame c (init_state ex_ips) (EDns 1000 0 q) with
  | (st', [OAux to bytes]) => ex_sig st' = ex_sig (init_state ex_ips) /\ to = ex_B /\
                               skipn (length bytes - 4) bytes = [198; 51; 100; 7]
  | _ => False
  end.
Proof. vm_compute. repeat split; reflexivity. Qed.
