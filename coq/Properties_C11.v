(* Properties_C11.v -- final statements for property C11 (automatic negotiation only selects
   settings that actually work on the path).  Only statements, each closed by exact/apply of a
   lemma of NegotiateProofs.v, with Print Assumptions beneath.

   Claim level: proof, PARTIAL.  Proved for all inputs: the handshake's DECISION LOGIC
   (Negotiate.v: which codec / type / fragment size is chosen for which test outcomes, following
   src/client.c) and the ALPHABET COVERAGE of the source's test patterns against the relay family
   of Relay.v, lifted to "every payload survives" with the codec round-trip theorems of C07.
   The retry / time-out sequencing of the handshake (handshake_waitdns, attempts per test, late and
   unfitting replies, the order of the steps of client_handshake) has a model of its own since round 6
   (Handshake.v, tied to the real functions by scripted replies in checks/c06.py); C11_test_sequencing at
   the end of this file states what the decision logic above assumes of it: a test is the evaluation of the
   first fitting non-empty reply, or of "no reply" after three silent attempts.
   NOT proved (validated by the correspondence and system runs of checks/c11.py only): the raw-UDP
   sub-handshake, the composition of whole-handshake scripts with the relay family, and that the character-level outcomes
   `bounce` / `downcheck` / `probe` describe what the real messages do (host-name dots, type
   letters, MX/SRV splitting); answer sizes enter C11_frag_sound through the hypothesis
   C09_size_monotone (property C09) and are proved here only for NULL/PRIVATE.

   Two exceptions are part of the statements (both observed on the real client):
   - C11_down_raw_refuted: answers {case keep, 8-bit clean, mangle '+'} with TXT: Raw is selected
     although '+' bytes are altered (DOWNCODECCHECK1 contains no 0x2B);
   - C11_forced_raw_reject_witness: -O R forced on a path that drops TXT answers with bytes >= 0x80:
     the handshake completes with fragment size 2. *)
From Coq Require Import List NArith ZArith Arith Bool Lia.
From Iodine Require Import Generated.SrcConsts Base Codec CodecProofs Hostname DnsName DnsMsg Relay Negotiate NegotiateProofs.
From Iodine Require Server ServerAuthDefs ServerAuthFinal.
From Iodine Require Import Startup StartupProofs.
From Iodine Require Import Handshake HandshakeProofs HandshakeGen.
Import ListNotations.
Local Open Scope N_scope.

(* ---- coverage of the alphabets by the source's test patterns -------------------------- *)

Theorem C11_patterns_cover :
  src_UPENC_CHAIN_RET = 3 /\ src_upenc_alt_ret = [1; 2] /\
  map up_switch [0; 1; 2; 3] = [(0, 0); (1, 1); (2, 2); (3, 3)] /\
  forallb (fun p => (nth 0 p 0 =? 97) && (nth 1 p 0 =? 65) && (length p <=? 59)%nat) up_patterns = true /\
  missing src_cb128 (tests_for 3) = [] /\
  missing src_cb64 (tests_for 1) = [51; 52; 53; 54; 55; 56] /\
  missing src_cb64u (tests_for 2) = [51; 52; 53; 54; 55; 56] /\
  (forall x f ch, 48 <= ch <= 57 -> rchar x f ch = Some ch) /\
  (existsb is_upper (chk_text 83) && existsb is_lower (chk_text 83) && memb 43 (chk_text 83) && memb 45 (chk_text 83)) = true /\
  (existsb is_upper (chk_text 85) && existsb is_lower (chk_text 85) && memb 95 (chk_text 85) && memb 45 (chk_text 85)) = true /\
  (existsb is_upper (chk_text 86) && existsb is_lower (chk_text 86) && has_high (chk_text 86)) = true /\
  (existsb is_upper src_DOWNCODECCHECK1 && existsb is_lower src_DOWNCODECCHECK1 && memb 95 src_DOWNCODECCHECK1 &&
   memb 45 src_DOWNCODECCHECK1 && has_high src_DOWNCODECCHECK1) = true /\
  memb 43 src_DOWNCODECCHECK1 = false /\
  src_downenc_order = [83; 85; 86; 82] /\ N.of_nat (length src_DOWNCODECCHECK1) = src_DOWNCODECCHECK1_LEN.
Proof. exact patterns_cover. Qed.
Print Assumptions C11_patterns_cover.

(* a deterministic member that alters a character of a codec's alphabet alters a character of a
   test string for that codec (upstream) resp. of the check text of that codec (downstream) *)
Theorem C11_cover_alters : forall x, det x = true ->
  (forall id, In id [1; 2; 3] -> forall ch, alphab id ch = true -> rchar x false ch <> Some ch ->
     exists p c, In p (tests_for id) /\ In c p /\ rchar x false c <> Some c) /\
  (forall id l, In (id, l) [(1, 83); (2, 85); (3, 86)] -> forall ch, alphab id ch = true -> rchar x false ch <> Some ch ->
     exists c, In c (chk_text l) /\ rchar x false c <> Some c).
Proof. exact cover_alters. Qed.
Print Assumptions C11_cover_alters.

(* ---- upstream codec --------------------------------------------------------------------- *)

(* For every relay whose query direction is deterministic, whatever its answer direction (any
   member, the random one included), record type and header characters: client and server end up
   with the same codec; if it is not Base32 the query direction is the identity on every
   character of its alphabet; and every payload encoded with it survives the query direction. *)
Theorem C11_up_sound : forall (r : relay) (oq oa : nat -> bool) (ty : N) (hdr : list N),
  det (r_q r) = true -> length hdr = 4%nat -> bytes_ok hdr ->
  let sel := up_switch (up_select r oq oa ty hdr) in
  fst sel = snd sel /\ fst sel < 4 /\
  (fst sel <> 0 -> forall ch f, alphab (fst sel) ch = true -> rchar (r_q r) f ch = Some ch) /\
  (forall p cap capd o', bytes_ok p ->
     (enclen (cbits (codec_by_id (fst sel))) (length p) <= cap)%nat -> (length p <= capd)%nat ->
     exists t, rmap (r_q r) o' (fst (encode (codec_by_id (fst sel)) cap p)) = Some t /\
               decode (codec_by_id (fst sel)) capd t = p).
Proof.
  intros r oq oa ty hdr Hd Hl Hh. rewrite (up_select_core r oq oa ty hdr Hl Hh). cbv zeta.
  destruct (up_sound_q (r_q r) oq Hd) as [A [B C]]. split; [exact A|]. split; [exact B|]. split.
  - intros Hnz ch f Ha. exact (C Hnz ch f Ha).
  - exact (up_payload_q (r_q r) oq Hd).
Qed.
Print Assumptions C11_up_sound.

(* ---- downstream codec ------------------------------------------------------------------- *)

(* For every deterministic answer direction and each of the seven record types: either this is
   the one exception (TXT, Raw, '+' mangled), or every payload sent with the selected codec letter
   is extracted intact by the client. *)
Theorem C11_down_sound : forall x o ty, det x = true -> In ty src_qtype_order ->
  (down_select x o ty = 82 /\ ty = T_TXT /\ x = xf_plus) \/
  forall p o', bytes_ok p -> down_deliver x o' ty (down_select x o ty) p = Some p.
Proof. exact down_sound. Qed.
Print Assumptions C11_down_sound.

Theorem C11_down_raw_refuted :
  det xf_plus = true /\ down_select xf_plus no_flip T_TXT = 82 /\
  down_deliver xf_plus no_flip T_TXT 82 [43] = Some [45].
Proof. exact down_raw_refuted. Qed.
Print Assumptions C11_down_raw_refuted.

(* ---- the random-case member --------------------------------------------------------------- *)

(* limitation of the protocol: a relay that happens not to flip the tested letters is taken for a
   transparent one (Base128 selected), and a later query is decoded to different bytes *)
Theorem C11_random_case_witness :
  up_select_q xf_random no_flip = 3 /\ up_switch 3 = (3, 3) /\
  exists p t, bytes_ok p /\ rmap xf_random flip_all (fst (encode b128 8 p)) = Some t /\ decode b128 1 t <> p.
Proof. exact random_case_witness. Qed.
Print Assumptions C11_random_case_witness.

(* soundness under the explicit hypothesis that the flips were visible: upstream "in every test
   query some letter of the test string was flipped"; downstream "every advanced-codec check came
   back altered".  Then Base32 is kept in both directions, and Base32 works through every member
   of the family under every oracle. *)
Theorem C11_random_case_partial : forall (r : relay) (oq oa : nat -> bool) (ty : N) (hdr : list N),
  x_case (r_q r) = CRandom -> length hdr = 4%nat -> bytes_ok hdr -> flips_tested oq ->
  (forall l, In l [83; 85; 86; 82] -> downenctest_eval (downcheck (r_a r) oa ty l) = false) ->
  up_switch (up_select r oq oa ty hdr) = (0, 0) /\ down_select (r_a r) oa ty = 32 /\
  (forall p cap capd o', bytes_ok p -> (enclen 5 (length p) <= cap)%nat -> (length p <= capd)%nat ->
     exists t, rmap (r_q r) o' (fst (encode b32 cap p)) = Some t /\ decode b32 capd t = p) /\
  (forall p o', bytes_ok p -> down_deliver (r_a r) o' ty 32 p = Some p).
Proof.
  intros r oq oa ty hdr Hc Hl Hh Hf Hd. rewrite (up_select_core r oq oa ty hdr Hl Hh).
  rewrite (random_up_partial (r_q r) oq Hc Hf). split; [reflexivity|].
  destruct (random_down_partial (r_a r) oa ty Hd) as [A B]. split; [exact A|]. split; [|exact B].
  intros p cap capd o' Hp Hcap Hcapd. apply b32_survives; assumption.
Qed.
Print Assumptions C11_random_case_partial.

(* ---- fragment size ------------------------------------------------------------------------ *)

(* what fragsize_check verifies of a probe reply it accepts *)
Theorem C11_fragsize_check_spec : forall inb F, fragsize_check inb F = POk ->
  N.of_nat (length inb) = F /\ nth 0 inb 0 * 256 + nth 1 inb 0 = F /\ nth 2 inb 0 = src_PROBE_BYTE2 /\
  seq_okb (skipn 3 inb) (nth 3 inb 0) = true.
Proof. exact fragsize_check_ok. Qed.
Print Assumptions C11_fragsize_check_spec.

(* The binary search returns a size whose probe was accepted, and -- given that answer sizes are
   monotone in payload length and question-name length (C09_size_monotone) -- every data answer
   with at most that many payload bytes plus the 2-byte header, to a query name no longer than
   the probe's, passes the relay's size limit. *)
Theorem C11_frag_sound : forall (answer_size : N -> N -> nat -> nat -> nat),
  (forall ty e n n' len len', (n <= n')%nat -> (len <= len')%nat ->
     (answer_size ty e n len <= answer_size ty e n' len')%nat) ->
  forall (r : relay) (probe : N -> probe_res) ty e nprobe,
  (forall F, probe F = POk -> passes_size r (answer_size ty e nprobe (N.to_nat F)) = true) ->
  forall frag, autoprobe probe = frag -> frag <> 0 ->
    probe (frag + src_PROBE_HDR) = POk /\
    forall n len, (n <= nprobe)%nat -> (len <= N.to_nat frag)%nat ->
      passes_size r (answer_size ty e n (len + N.to_nat src_PROBE_HDR)%nat) = true.
Proof. exact frag_sound. Qed.
Print Assumptions C11_frag_sound.

(* the model's probe only accepts when the server's answer passed the size limit; a search in
   which no probe is accepted, or whose first probe is corrupted, fails *)
Theorem C11_frag_probe : forall r o ty l qname v,
  (forall F, probe r o ty l qname v F = POk ->
     exists msg, answer_msg ty l qname (probe_payload F v) = Some msg /\ passes_size r (length msg) = true) /\
  (forall pr, (forall F, pr F <> POk) -> autoprobe pr = 0) /\
  (forall pr, pr src_PROBE_START = PCorrupt -> autoprobe pr = 0).
Proof.
  intros r o ty l qname v. split; [intros F; apply probe_ok_size|].
  split; [exact autoprobe_never_ok|exact autoprobe_first_corrupt].
Qed.
Print Assumptions C11_frag_probe.

(* the size hypothesis holds for NULL / PRIVATE answers (closed form checked against DnsMsg.write_dns) *)
Theorem C11_frag_null_instance :
  (forall n n' len len', (n <= n')%nat -> (len <= len')%nat -> (null_answer_size n len <= null_answer_size n' len')%nat) /\
  forallb (fun k => forallb (fun len =>
     match answer_msg T_NULL 32 (demo_qname k) (repeat 7 len) with
     | Some msg => (length msg =? null_answer_size (length (demo_qname k)) len)%nat
     | None => false
     end) [2; 3; 50; 200; 1200]%nat) [1; 20; 63]%nat = true.
Proof. split; [exact null_size_monotone|exact null_size_matches_model]. Qed.
Print Assumptions C11_frag_null_instance.

Theorem C11_autoprobe_example :
  autoprobe (fun F => if F <=? 1200 then POk else PNoAnswer) = 1198 /\
  autoprobe (fun F => if F <=? 200 then POk else PNoAnswer) = 198 /\
  autoprobe (fun F => if F <=? 100 then POk else PNoAnswer) = 98 /\
  autoprobe (fun F => if F <=? 400 then (if F <=? 300 then POk else PCorrupt) else PNoAnswer) = 0 /\
  autoprobe (fun _ => PNoAnswer) = 0.
Proof. exact autoprobe_example. Qed.
Print Assumptions C11_autoprobe_example.

(* ---- fallback ----------------------------------------------------------------------------- *)

(* every autodetect function is total, returns Base32 / the default when its tests fail, and the
   query-type autodetect succeeds -- with the first served type in the preference order that the
   server's 'Y' handler supports -- on every relay of the family (both directions arbitrary, the
   random member included, any oracle) that serves at least one such type; every size limit of
   the family leaves at least 512 bytes *)
Theorem C11_fallback :
  (forall test, In (upenc_autodetect test) [0; 1; 2; 3]) /\
  (forall test, (forall p, test p = UpFail) -> upenc_autodetect test = 0) /\
  (forall test, (forall p, In p up_patterns -> test p <> UpPass) -> upenc_autodetect test = 0) /\
  (forall ty test, In (downenc_autodetect ty test) [32; 82; 83; 85; 86]) /\
  (forall ty test, (forall l, In l [83; 85; 86; 82] -> test l = false) -> downenc_autodetect ty test = 32) /\
  (forall t : nat -> bool,
     match qtype_autodetect (fun q _ => t q) with
     | Some h => (h < ntypes)%nat /\ t h = true /\ forall j, (j < h)%nat -> t j = false
     | None => forall j, (j < ntypes)%nat -> t j = false
     end) /\
  (forall r o, (exists idx, (idx < ntypes)%nat /\ type_allowed r idx = true /\ qtype_of idx <> T_PRIVATE) ->
     exists h, qtype_autodetect (fun q _ => qtype_test r o q) = Some h /\ (h < ntypes)%nat /\
               type_allowed r h = true /\ qtype_of h <> T_PRIVATE /\
               forall j, (j < h)%nat -> type_allowed r j = false \/ qtype_of j = T_PRIVATE) /\
  (forall x o ty p, bytes_ok p -> down_deliver x o ty 32 p = Some p) /\
  (forall r, In (r_limit r) size_limits -> 512 <= answer_limit r).
Proof.
  split; [exact upenc_autodetect_range|]. split; [exact upenc_autodetect_all_fail|].
  split; [exact upenc_autodetect_no_pass|]. split; [exact downenc_autodetect_range|].
  split; [exact downenc_autodetect_all_fail|]. split; [exact qtype_autodetect_spec|].
  split; [exact qtype_fallback|]. split; [exact down_deliver_default|exact answer_limit_512].
Qed.
Print Assumptions C11_fallback.

(* ---- source constants ----------------------------------------------------------------------- *)

Theorem C11_source_constants :
  src_PROBE_START = 768 /\ src_PROBE_RANGE = 768 /\ src_PROBE_SHIFT = 1 /\ src_PROBE_OK_UP = 1 /\ src_PROBE_FAIL_UP = 0 /\
  src_PROBE_RANGE_MIN = 8 /\ src_PROBE_ENOUGH = 300 /\ src_PROBE_MIN_OK = 2 /\ src_PROBE_HDR = 2 /\
  src_PROBE_BYTE2 = src_SRV_PROBE_BYTE2 /\ src_PROBE_STEP = src_SRV_PROBE_STEP /\ src_PROBE_CORRUPT_FATAL = 1 /\
  src_qtype_order = [T_NULL; T_PRIVATE; T_TXT; T_SRV; T_MX; T_CNAME; T_A] /\ src_QTYPE_TIMEOUT_MAX = 3 /\
  src_y_raw_types = [T_NULL; T_TXT] /\ src_y_text_types = [T_TXT; T_SRV; T_MX; T_CNAME; T_A].
Proof. exact source_constants. Qed.
Print Assumptions C11_source_constants.

(* ---- the forced -O R / 8-bit-reject members ------------------------------------------------- *)

Theorem C11_forced_raw_reject_witness :
  let o := negotiate params_forced_raw no_flip no_flip 1 in
  o_rv o = 0 /\ o_qtype o = T_TXT /\ o_down o = 82 /\ o_frag o = 2 /\
  down_deliver xf_reject no_flip T_TXT 82 [200] = None.
Proof. exact forced_raw_reject_witness. Qed.
Print Assumptions C11_forced_raw_reject_witness.

(* non-vacuity: the transparent relay negotiates NULL / Base128 / default downstream with the
   largest probed size; a lower-casing 8-bit-stripping relay limited to 512-byte CNAME/A answers
   negotiates CNAME with Base32 both ways *)
Example C11_example :
  let rid := {| r_q := xf_id; r_a := xf_id; r_types := 127; r_limit := 0; r_edns := true; r_rawok := false |} in
  let rlo := {| r_q := {| x_case := CLower; x_high := HStrip; x_punct := PKeep |};
                r_a := {| x_case := CLower; x_high := HStrip; x_punct := PKeep |};
                r_types := 96; r_limit := 512; r_edns := false; r_rawok := false |} in
  let par r := {| p_relay := r; p_qtype := 0; p_downenc := 32; p_rawmode := false; p_autofrag := true;
                  p_fragsize := 0; p_maxlen := 255; p_topdomain := td_example |} in
  let o1 := negotiate (par rid) no_flip no_flip 1 in
  let o2 := negotiate (par rlo) no_flip no_flip 1 in
  (o_rv o1, o_qtype o1, o_up o1, o_down o1, o_frag o1) = (0, T_NULL, 3, 32, 1522) /\
  (o_rv o2, o_qtype o2, o_up o2, o_down o2) = (0, T_CNAME, 0, 32) /\ 0 < o_frag o2.
Proof. vm_compute. repeat split; reflexivity. Qed.

(* Negotiation starts from the same server state for every client: the version handshake that hands a slot to a new
   client (a fresh one or one taken back from a client silent for more than 60 s) leaves it with upstream codec Base32,
   downstream codec 'T' (Base32), fragment size 100, immediate (non-lazy) DNS mode, no packet in either direction, an
   empty ring of pending packets and empty answer / query memories -- whatever the previous owner had negotiated.  A
   client that keeps Base32 because its path folds letter case sends no switch command and relies on exactly this
   (second-session stage of checks/c11.py: two real handshakes in a row on one real server). *)
Theorem C11_new_session_starts_from_defaults : forall login zc unz c st now rnd q dl i st' outs,
  ServerAuthDefs.dispatch c q = Some dl -> (2 <= dl)%nat -> Server.is_letter (Server.chr (Server.h_name q) 0) 118 = true ->
  ServerAuthDefs.version_of (ServerAuthDefs.req_unpacked q dl) = src_PROTOCOL_VERSION -> Server.find_available_from st now 0 = Some i ->
  Server.step login zc unz c st (Server.EDns now rnd q) = (st', outs) ->
  let u := Server.getu st' i in
  Server.u_enc u = 0%N /\ Server.u_downenc u = 84%N /\ Server.u_fragsize u = 100%N /\ Server.u_lazy u = false /\
  Server.u_conn u = Server.CONN_DNS /\
  Server.p_len (Server.u_out u) = 0%N /\ Server.p_len (Server.u_in u) = 0%N /\
  Server.p_seqno (Server.u_out u) = 0%N /\ Server.p_seqno (Server.u_in u) = 0%N /\
  Server.u_queue_filled u = O /\ Server.u_auth u = false.
Proof.
  intros login zc unz c st now rnd q dl i st' outs Hd Hl Hv Hp Hf Hs.
  destruct (ServerAuthFinal.final_claim login zc unz c st now rnd q dl i st' outs Hd Hl Hv Hp Hf Hs) as (E & _ & Ha & _).
  cbn zeta. rewrite E. repeat split; try reflexivity. all: rewrite <- E; exact Ha.
Qed.
Print Assumptions C11_new_session_starts_from_defaults.

(* What the user forces on the command line reaches the handshake as documented (Startup.v: -L -I -m -r folded in command-line order;
   the settings stage of checks/mainlib.py runs the real main() of iodine.c against it): lazy mode is 0 or 1 and the select
   time-out at least 1 second for every option sequence; asking for immediate mode last forces the 1-second time-out; -m fixes
   the fragment size and switches the probing off, -r switches raw mode off, and nothing else touches these three. *)
Theorem C11_forced_settings :
  (forall opts, (s_lazy (csettings_of opts) = 0 \/ s_lazy (csettings_of opts) = 1)%Z /\ (1 <= s_timeout (csettings_of opts))%Z) /\
  (forall opts n, (n <= 0)%Z -> s_lazy (csettings_of (opts ++ [OL n])) = 0%Z /\ s_timeout (csettings_of (opts ++ [OL n])) = 1%Z) /\
  (forall opts n, s_autofrag (csettings_of (opts ++ [Om n])) = false /\ s_fragsize (csettings_of (opts ++ [Om n])) = n) /\
  (forall opts, (forall o, In o opts -> match o with Om _ | Or => False | _ => True end) ->
     s_autofrag (csettings_of opts) = true /\ s_fragsize (csettings_of opts) = 3072%Z /\ s_raw (csettings_of opts) = true).
Proof. exact (conj csettings_inv (conj lazy_off_last (conj m_last no_m_no_r))). Qed.
Print Assumptions C11_forced_settings.

(* ------------------------------------------------------------------------------------------ *)
(* C11_test_sequencing: the link between the sequencing model of the handshake (Handshake.v: retries,
   time-outs, which datagram is taken for the reply) and the decision logic above, which treats a
   test as a function of "the reply".  For each of the three kinds of test (upstream pattern,
   downstream / EDNS0 / query-type check string, fragment-size probe):
   - when the next event is a reply that fits the query just sent (DNS id and command letter) and is
     not empty, the test's result is the evaluation of exactly these bytes, one query was sent and
     exactly this event consumed;
   - when three attempts pass in silence the result is the evaluation of "no reply", after three
     queries.
   (A probe reply that fragsize_check reads as "keep checking" -- BADIP, an ack for another size --
   does not end the attempt; the prompt clause is stated for the replies that do.) *)
Theorem C11_test_sequencing :
  (forall pat s it buf r, prompt_reply s 122 90 cap_full it buf ->
     hs_upenctest pat s (it :: r) = (upenctest_eval pat (Some buf), send 122 s, r)) /\
  (forall pat s r,
     hs_upenctest pat s (IT :: IT :: IT :: r) = (upenctest_eval pat None, send 122 (send 122 (send 122 s)), r)) /\
  (forall s it buf r, prompt_reply s 121 89 cap_full it buf ->
     hs_downenctest s (it :: r) = (downenctest_eval (Some buf), send 121 s, r)) /\
  (forall s r,
     hs_downenctest s (IT :: IT :: IT :: r) = (downenctest_eval None, send 121 (send 121 (send 121 s)), r)) /\
  (forall proposed s it buf r, prompt_reply s 114 82 cap_term it buf ->
     probe_of (fragsize_check buf proposed) = true ->
     hs_probe proposed s (it :: r) = (probe_eval (Some buf) proposed, send 114 s, r)) /\
  (forall proposed s r,
     hs_probe proposed s (IT :: IT :: IT :: r) = (probe_eval None proposed, send 114 (send 114 (send 114 s)), r)).
Proof.
  split; [exact upenctest_prompt |].
  split; [exact upenctest_silent |].
  split; [exact downenctest_prompt |].
  split; [exact downenctest_silent |].
  split; [exact probe_prompt | exact probe_silent].
Qed.
Print Assumptions C11_test_sequencing.

(* ------------------------------------------------------------------------------------------ *)
(* C11_handshake_computes_decisions: the four autodetect steps are written once over an abstract world that
   answers queries (HandshakeGen.v) and instantiated twice.
   (a) With the script world they are, for every state and script, the steps of the sequencing model
       Handshake.v -- the model that checks/c06.py compares with the real client_handshake on scripted replies.
   (b) With a deterministic responder R (for the test named by its command letter and tag -- the pattern, the
       codec letter, the size, the type index and round -- the bytes the client extracts from the fitting reply,
       or None when no reply ever comes; never an empty reply) they return exactly what the decision functions
       of Negotiate.v return on the evaluations of R's answers: upenc_autodetect, downenc_autodetect (for the
       query type in force), autoprobe, qtype_autodetect.
   So the decision logic the soundness theorems above are about is what the handshake's retry / time-out
   sequencing computes on every path that answers consistently: three attempts, one query each, the first
   usable reply taken. *)
Theorem C11_handshake_computes_decisions :
  (forall s l, g_upenc_auto (list item) ask_script s l = hs_upenc_auto s l) /\
  (g_downenc_auto (list item) ask_script = hs_downenc_auto) /\
  (forall s l, g_autoprobe (list item) ask_script s l = hs_autoprobe s l) /\
  (forall rounds timeout highest s l,
     g_qtype_rounds (list item) ask_script rounds timeout highest s l = hs_qtype_rounds rounds highest s l) /\
  (forall (R : N -> list N -> option (list N)), (forall c t, R c t <> Some []) -> forall s,
     fst (fst (g_upenc_auto unit (ask_resp R) s tt)) = upenc_autodetect (fun p => upenctest_eval p (R 122 p)) /\
     fst (fst (g_downenc_auto unit (ask_resp R) s tt)) =
       downenc_autodetect (h_qtype s) (fun l => downenctest_eval (R 121 [l])) /\
     fst (fst (g_autoprobe unit (ask_resp R) s tt)) = autoprobe (fun p => probe_eval (R 114 (size_tag p)) p) /\
     (let h := fst (fst (g_qtype_rounds unit (ask_resp R) (N.to_nat src_QTYPE_TIMEOUT_MAX) 1 100 s tt)) in
      (if (h <? ntypes)%nat then Some h else None) = qtype_autodetect (qtest R))).
Proof.
  split; [exact gen_upenc_auto_script |].
  split; [exact gen_downenc_auto_script |].
  split; [exact gen_autoprobe_script |].
  split; [exact gen_qtype_rounds_script |].
  intros R HR s.
  split; [exact (resp_upenc_auto R HR s) |].
  split; [exact (resp_downenc_auto R HR s) |].
  split; [exact (resp_autoprobe R HR s) | exact (resp_qtype_auto R s)].
Qed.
Print Assumptions C11_handshake_computes_decisions.

(* non-vacuity of the prompt clause: a NULL answer to a 'y' query carrying the check string, delivered with the id
   and command letter of the query just sent, is a prompt reply, and the downstream test evaluates to true on it *)
Definition ex_y_reply : list N := [0; 0; 132; 0; 0; 1; 0; 1; 0; 0; 0; 0; 5; 121; 97; 97; 97; 113; 1; 116; 7; 101; 120; 97; 109; 112; 108; 101; 3; 99; 111; 109; 0; 0; 10; 0; 1; 192; 12; 0; 10; 0; 1; 0; 0; 0; 0; 0; 48; 0; 0; 0; 0; 255; 255; 255; 255; 85; 85; 85; 85; 170; 170; 170; 170; 129; 99; 200; 210; 199; 124; 178; 23; 95; 79; 206; 201; 73; 45; 82; 33; 97; 169; 113; 32; 37; 179; 6; 115; 230; 216; 68; 48; 121; 80; 87; 191]%N.
Example ex_prompt_reply :
  let s0 := hs_init 1000 16 0%Z 0%Z true 32 [] [] in
  prompt_reply s0 121 89 cap_full (ID 2 ex_y_reply) src_DOWNCODECCHECK1 /\
  hs_downenctest s0 [ID 2 ex_y_reply; IT] = (true, send 121 s0, [IT]).
Proof.
  split.
  - exists 2, ex_y_reply. split; [reflexivity |].
    split; [vm_compute; reflexivity |]. split; [vm_compute; discriminate |]. split; vm_compute; reflexivity.
  - vm_compute; reflexivity.
Qed.

(* non-vacuity of the responder clause: a transparent path (every upstream pattern comes back behind the 4-byte
   header, every downstream check string intact, no probe answered) is a responder without empty replies; on it
   the handshake's upstream autodetect returns 3 (Base128) and, for TXT queries, the downstream autodetect 'R' *)
Definition ex_R : N -> list N -> option (list N) :=
  fun c t => if c =? 122 then Some ([122; 97; 98; 99] ++ t) else if c =? 121 then Some src_DOWNCODECCHECK1 else None.
Example ex_responder :
  (forall c t, ex_R c t <> Some []) /\
  (let s0 := hs_init 1000 16 0%Z 0%Z true 32 [] [] in
   fst (fst (g_upenc_auto unit (ask_resp ex_R) s0 tt)) = 3 /\
   fst (fst (g_downenc_auto unit (ask_resp ex_R) s0 tt)) = 82).
Proof.
  split.
  - intros c t; unfold ex_R. destruct (c =? 122); [discriminate |]. destruct (c =? 121); discriminate.
  - vm_compute. split; reflexivity.
Qed.
