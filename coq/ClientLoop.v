(* ClientLoop.v -- the select loop of client_tunnel() (client.c) around the handlers of Client.v,
   including the retransmit-timer guard added with the repair of D18:

       i = select(...);                      // tun selected only if !is_sending() || outchunkresent >= 2
       watchdog (60 s without downstream data -> stop)
       if (i > 0 && is_sending() && FD_ISSET(tun) && lastchunktime + 1 < time(NULL)) { tunnel_tun(); i = 0; }
       if (i == 0) timeout branch
       else { if (FD_ISSET(tun)) if (tunnel_tun() <= 0) continue;
              if (FD_ISSET(dns)) if (tunnel_dns() <= 0) continue; }

   lastchunktime is a new static of client.c set by send_chunk(); it is kept here next to the client state
   (a chunk went out in a step exactly when the data-CMC counter moved).  The environment of one
   iteration is an event: the select timeout expired, or a tun packet / a datagram / both became readable at
   time [now] (whole seconds, as time(NULL)).  A tun packet that becomes readable while the tun device is not
   in the read set stays in the kernel; for the loop this iteration is a timeout. *)
From Coq Require Import List NArith ZArith Bool Lia.
From RecordUpdate Require Import RecordUpdate.
From Iodine Require Import Base Client.
Import ListNotations.
Local Open Scope N_scope.

Record lstate := mkl { l_c : cstate; l_lastchunk : N }.

Inductive levent :=
| LTimeout (now : N)
| LTun (now : N) (pkt : list N)
| LDns (now : N) (d : list N)
| LBoth (now : N) (pkt : list N) (d : list N).

Definition lnow (e : levent) : N :=
  match e with LTimeout n => n | LTun n _ => n | LDns n _ => n | LBoth n _ _ => n end.

Section WithZlib.
Variable zc : list N -> list N.
Variable unz : list N -> option (list N).

Definition chunk_sent (s s' : cstate) : bool := negb (Nat.eqb (c_datacmc s) (c_datacmc s')).

Definition lwrap (now : N) (L : lstate) (s1 : cstate) (r : cstate * list cout) : lstate * list cout :=
  ({| l_c := fst r; l_lastchunk := if chunk_sent s1 (fst r) then now else l_lastchunk L |}, snd r).

(* the retransmit guard: sending, the tun device readable, and more than a second since the last chunk *)
Definition overdue (L : lstate) (s1 : cstate) (now : N) : bool := is_sending s1 && (l_lastchunk L + 1 <? now).

(* does tunnel_tun() return > 0 (a packet was read and sent)? *)
Definition tun_accepts (s : cstate) (pkt : list N) : bool :=
  match pkt with [] => false | _ => negb (is_sending s) end.

Definition lstep (L : lstate) (e : levent) : lstate * list cout :=
  let now := lnow e in
  let s1 := watchdog (l_c L) now in
  if negb (c_running s1) then ({| l_c := s1; l_lastchunk := l_lastchunk L |}, []) else
  match e with
  | LTimeout _ => lwrap now L s1 (timeout s1)
  | LTun _ pkt =>
      if negb (reads_tun s1) then lwrap now L s1 (timeout s1)          (* not selected: the select times out *)
      else if overdue L s1 now then lwrap now L s1 (timeout s1)        (* packet drained, timeout branch *)
      else lwrap now L s1 (tunnel_tun zc s1 pkt)
  | LDns _ d => lwrap now L s1 (tunnel_dns unz s1 now d)
  | LBoth _ pkt d =>
      if negb (reads_tun s1) then lwrap now L s1 (tunnel_dns unz s1 now d)
      else if overdue L s1 now then lwrap now L s1 (timeout s1)
      else if tun_accepts s1 pkt then
        let '(s2, o2) := tunnel_tun zc s1 pkt in
        let '(s3, o3) := tunnel_dns unz s2 now d in
        lwrap now L s1 (s3, o2 ++ o3)
      else lwrap now L s1 (tunnel_tun zc s1 pkt)                      (* "continue": the datagram waits *)
  end.

Fixpoint lrun (L : lstate) (es : list levent) : lstate :=
  match es with [] => L | e :: r => lrun (fst (lstep L e)) r end.

(* ---- no starvation of the retransmit timer --------------------------------------------------------- *)

(* whatever wakes the loop -- the select timeout, a tun packet, or a tun packet together with a datagram --
   once more than a second has passed since the last chunk went out while a packet is in flight, the
   timeout branch runs: the chunk is retransmitted (and counted) or, after the third retransmission, the
   packet is given up and a ping is sent.  (Before the repair a readable tun device made the loop drop the
   packet and `continue`, restarting the one-second timeout, so that branch could be postponed forever.) *)
Theorem busy_tun_cannot_starve_retransmit L e :
  let s1 := watchdog (l_c L) (lnow e) in
  c_running s1 = true -> is_sending s1 = true -> (l_lastchunk L + 1 < lnow e) ->
  match e with LDns _ _ => False | _ => True end ->
  match e with LBoth _ _ _ => reads_tun s1 = true | _ => True end ->
  lstep L e = lwrap (lnow e) L s1 (timeout s1).
Proof.
  intros s1 Hrun Hs Hov Hk Hb. unfold lstep. fold s1. rewrite Hrun. cbn [negb].
  assert (Ho : overdue L s1 (lnow e) = true) by (unfold overdue; rewrite Hs; cbn [andb]; lia).
  destruct e as [n|n pkt|n d|n pkt d]; cbn [lnow] in *.
  - reflexivity.
  - destruct (reads_tun s1); cbn [negb]; [rewrite Ho|]; reflexivity.
  - contradiction.
  - rewrite Hb. cbn [negb]. rewrite Ho. reflexivity.
Qed.

End WithZlib.
