(* Extraction of the executable handshake sequencing model (Handshake.v), used only by the correspondence
   stage of C06 (scripted handshake steps).  ExtrOcamlBasic only; N, positive, nat, Z stay as extracted
   datatypes; no Extract Constant. *)
From Coq Require Import Extraction ExtrOcamlBasic.
From Iodine Require Import Generated.SrcConsts Negotiate Handshake.
Extraction Language OCaml.
Set Extraction Optimize.
Extraction "extracted/model_hs.ml" Handshake.run_step Handshake.hs_init
  SrcConsts.src_upenc_alt SrcConsts.src_upenc_chain Negotiate.T_UNSET.
