(* ServerFragNumbering.v -- C15: the N handler (reject below 2, exact effect of an accepted size) and the
   numbering / tiling of the fragments of one out-packet under a constant fragment size. *)
From Coq Require Import List NArith ZArith Arith Bool Lia.
From RecordUpdate Require Import RecordUpdate.
From Iodine Require Import Generated.SrcConsts Base Codec Hostname DnsName DnsMsg Domain Server ServerRings ServerRefine.
Import ListNotations.
Local Open Scope N_scope.

(* ---- the N handler ------------------------------------------------------------------------------------ *)

Lemma n_letter_others c0 :
  is_letter c0 110 = true ->
  is_letter c0 118 = false /\ is_letter c0 108 = false /\ is_letter c0 105 = false /\ is_letter c0 122 = false /\
  is_letter c0 115 = false /\ is_letter c0 111 = false /\ is_letter c0 121 = false /\ is_letter c0 114 = false.
Proof. intros H. apply is_letter_cases in H. destruct H as [-> | ->]; repeat split; reflexivity. Qed.

Lemma N_request login unz c st now rnd q dl :
  (2 <= dl)%nat -> is_letter (chr (h_name q) 0) 110 = true ->
  let unpacked := unpack_data b32 (N.to_nat 65536) (skipn 1 (firstn dl (h_name q))) (dl - 1) in
  (3 <= length unpacked)%nat ->
  check_auth_options c st now (schar (chr unpacked 0)) (h_from q) = false ->
  let i := Z.to_nat (schar (chr unpacked 0)) in
  let mfs := chr unpacked 1 * 256 + chr unpacked 2 in
  handle_null_request login unz c st now rnd q dl =
    if mfs <? 2 then (st, [mk_answer q s_BADFRAG (u_downenc (getu st i))])
    else (upd st i (n_accept mfs), [mk_answer q [chr unpacked 1; chr unpacked 2] (u_downenc (getu st i))]).
Proof.
  intros Hdl HN unpacked Hread Hauth i mfs.
  unfold handle_null_request. cbv zeta.
  assert (D : (dl <? 2)%nat = false) by (apply Nat.ltb_ge; exact Hdl). rewrite D.
  rewrite (chr_firstn (h_name q) dl) by lia.
  destruct (n_letter_others _ HN) as (A1 & A2 & A3 & A4 & A5 & A6 & A7 & A8).
  rewrite A1, A2, A3, A4, A5, A6, A7, A8, HN.
  fold unpacked.
  assert (R : (length unpacked <? 3)%nat = false) by (apply Nat.ltb_ge; exact Hread). rewrite R.
  rewrite Hauth. fold i. fold mfs. destruct (mfs <? 2); reflexivity.
Qed.

Lemma n_accept_effect mfs u :
  u_fragsize (n_accept mfs u) = mfs /\ u_locked (n_accept mfs u) = true /\
  Forall (fun e => ce_id e = 0 /\ ce_len e = 0) (u_cache (n_accept mfs u)) /\
  (n_accept mfs u) <| u_cache := u_cache u |> <| u_fragsize := u_fragsize u |> <| u_locked := u_locked u |> = u.
Proof.
  unfold n_accept. cbn. repeat split.
  - apply Forall_forall. intros e He. apply in_map_iff in He. destruct He as (x & <- & _). split; reflexivity.
  - destruct u; reflexivity.
Qed.

(* ---- one out-packet in flight ------------------------------------------------------------------------- *)

Definition dlen (F len off : N) : N := N.min (N.min F (len - off)) 4094.

Lemma out_scd_u5 u2 w p :
  u_out (scd_u5 u2 w p) = u_out u2 /\ u_resent (scd_u5 u2 w p) = u_resent u2 /\ u_fragsize (scd_u5 u2 w p) = u_fragsize u2.
Proof.
  unfold scd_u5. cbv zeta. rewrite save_qm_eq. unfold save_to_dnscache, qm_push.
  destruct (N.to_nat 4096 <? length p)%nat; destruct (qm_kind _) as [[[|] cmc]|]; destruct w; repeat split; reflexivity.
Qed.

(* an emission while a packet is in flight and not yet given up *)
Lemma scd_inflight u w u' o ag :
  0 < p_len (u_out u) -> u_resent u <= 5 -> send_chunk_or_dataless u w = (u', o, ag) ->
  let ou := u_out u in
  let dl := dlen (u_fragsize u) (p_len ou) (p_offset ou) in
  let last := p_len ou =? p_offset ou + dl in
  let pktb := scd_b0 u :: ((p_seqno ou mod 8) * 32 + Z.to_N (p_fragment ou mod 16) * 2 + (if last then 1 else 0))
              :: firstn (N.to_nat dl) (skipn (N.to_nat (p_offset ou)) (p_data ou)) in
  o = scd_outs (getq u w) pktb (u_downenc u) /\
  ((0 <? dl) && (dl =? p_len ou) = false ->
     u_out u' = ou <| p_sentlen := dl |> /\ u_resent u' = u_resent u + 1 /\ u_fragsize u' = u_fragsize u).
Proof.
  intros Hlen Hres Hs. cbv zeta.
  assert (U1 : scd_u1 u = u).
  { unfold scd_u1. assert (E : (5 <? u_resent u) = false) by (apply N.ltb_ge; exact Hres). rewrite E, andb_false_r. reflexivity. }
  assert (Has : (0 <? p_len (u_out u)) = true) by (apply N.ltb_lt; exact Hlen).
  assert (DL : scd_datalen u = dlen (u_fragsize u) (p_len (u_out u)) (p_offset (u_out u))).
  { unfold scd_datalen. cbv zeta. rewrite Has. reflexivity. }
  assert (PK : scd_pktb u = scd_b0 u :: ((p_seqno (u_out u) mod 8) * 32 + Z.to_N (p_fragment (u_out u) mod 16) * 2 +
                 (if p_len (u_out u) =? p_offset (u_out u) + dlen (u_fragsize u) (p_len (u_out u)) (p_offset (u_out u)) then 1 else 0))
                 :: firstn (N.to_nat (dlen (u_fragsize u) (p_len (u_out u)) (p_offset (u_out u))))
                      (skipn (N.to_nat (p_offset (u_out u))) (p_data (u_out u)))).
  { unfold scd_pktb, scd_b1, scd_last, scd_payload. rewrite DL, Has. reflexivity. }
  split.
  - destruct (scd_result _ _ _ _ _ Hs) as [H _]. rewrite H, U1, PK. reflexivity.
  - intros Hnd. rewrite scd_eq in Hs. cbv zeta in Hs. rewrite U1 in Hs.
    destruct (out_scd_u5 (scd_u2 u) w (scd_pktb u)) as (O5 & R5 & F5).
    assert (O2 : u_out (scd_u2 u) = (u_out u) <| p_sentlen := scd_datalen u |> /\ u_resent (scd_u2 u) = u_resent u + 1 /\
                 u_fragsize (scd_u2 u) = u_fragsize u).
    { unfold scd_u2. rewrite Has. repeat split; reflexivity. }
    destruct O2 as (O2 & R2 & F2).
    assert (Dn : scd_done u (scd_u5 (scd_u2 u) w (scd_pktb u)) = false).
    { unfold scd_done. rewrite O5, O2, DL. cbn [p_len]. exact Hnd. }
    rewrite Dn in Hs. inversion Hs. subst u'. rewrite O5, R5, F5, O2, R2, F2, DL. repeat split; reflexivity.
Qed.

(* process_downstream_ack while a packet is in flight *)
Lemma ack_miss u s f :
  (Z.of_N (p_seqno (u_out u)) =? s)%Z && (p_fragment (u_out u) =? f)%Z && negb (p_sentlen (u_out u) =? 0) = false ->
  process_downstream_ack u s f = u.
Proof.
  intros H. unfold process_downstream_ack. cbv zeta. destruct (p_len (u_out u) =? 0); [reflexivity|].
  destruct ((Z.of_N (p_seqno (u_out u)) =? s)%Z && (p_fragment (u_out u) =? f)%Z); [|reflexivity].
  cbn [negb andb] in *. apply negb_false_iff in H. rewrite H. reflexivity.
Qed.

Lemma ack_hit_more u s f :
  0 < p_len (u_out u) -> 0 < p_sentlen (u_out u) ->
  (Z.of_N (p_seqno (u_out u)) =? s)%Z && (p_fragment (u_out u) =? f)%Z = true ->
  p_offset (u_out u) + p_sentlen (u_out u) < p_len (u_out u) ->
  process_downstream_ack u s f =
  u <| u_out := (u_out u) <| p_offset := p_offset (u_out u) + p_sentlen (u_out u) |> <| p_sentlen := 0 |>
                         <| p_fragment := schar_wrap (p_fragment (u_out u) + 1) |> |> <| u_resent := 0 |>.
Proof.
  intros Hl Hsl Hm Hlt. unfold process_downstream_ack. cbv zeta.
  assert (E0 : (p_len (u_out u) =? 0) = false) by (apply N.eqb_neq; lia). rewrite E0, Hm. cbn [negb].
  assert (Es : (p_sentlen (u_out u) =? 0) = false) by (apply N.eqb_neq; lia). rewrite Es. cbn.
  assert (E1 : (p_len (u_out u) <=? p_offset (u_out u) + p_sentlen (u_out u)) = false) by (apply N.leb_gt; exact Hlt).
  rewrite E1. reflexivity.
Qed.

Lemma ack_hit_done u s f :
  0 < p_len (u_out u) -> 0 < p_sentlen (u_out u) ->
  (Z.of_N (p_seqno (u_out u)) =? s)%Z && (p_fragment (u_out u) =? f)%Z = true ->
  p_len (u_out u) <= p_offset (u_out u) + p_sentlen (u_out u) ->
  process_downstream_ack u s f =
  fst (get_from_outpacketq
    (u <| u_out := (u_out u) <| p_offset := p_offset (u_out u) + p_sentlen (u_out u) |> <| p_sentlen := 0 |>
                            <| p_fragment := schar_wrap (p_fragment (u_out u) + 1) |> |> <| u_resent := 0 |>
       <| u_out := (u_out u) <| p_offset := p_offset (u_out u) + p_sentlen (u_out u) |> <| p_sentlen := 0 |>
                            <| p_fragment := schar_wrap (p_fragment (u_out u) + 1) |> <| p_len := 0 |> <| p_offset := 0 |>
                            <| p_fragment := schar_wrap (schar_wrap (p_fragment (u_out u) + 1) - 1) |> |>)).
Proof.
  intros Hl Hsl Hm Hge. unfold process_downstream_ack. cbv zeta.
  assert (E0 : (p_len (u_out u) =? 0) = false) by (apply N.eqb_neq; lia). rewrite E0, Hm. cbn [negb].
  assert (Es : (p_sentlen (u_out u) =? 0) = false) by (apply N.eqb_neq; lia). rewrite Es. cbn.
  assert (E1 : (p_len (u_out u) <=? p_offset (u_out u) + p_sentlen (u_out u)) = true) by (apply N.leb_le; exact Hge).
  rewrite E1. reflexivity.
Qed.

(* The life of one out-packet [data] under fragment size F, with the list of fragments acknowledged so
   far as ghost state.  Any interleaving of: (re-)emissions, acks that do not match, acks that match,
   and changes that leave the out-packet alone. *)
Inductive flight (F : N) (data : list N) : suser -> list (list N) -> Prop :=
| fl_start u0 :
    data <> [] -> (length data <= N.to_nat 65536)%nat -> flight F data (start_new_outpacket u0 data) []
| fl_emit u ps w u' o ag :
    flight F data u ps -> u_fragsize u = F -> u_resent u <= 5 ->
    send_chunk_or_dataless u w = (u', o, ag) ->
    (0 <? dlen F (p_len (u_out u)) (p_offset (u_out u))) && (dlen F (p_len (u_out u)) (p_offset (u_out u)) =? p_len (u_out u)) = false ->
    flight F data u' ps
| fl_ack_miss u ps s f :
    flight F data u ps ->
    (Z.of_N (p_seqno (u_out u)) =? s)%Z && (p_fragment (u_out u) =? f)%Z && negb (p_sentlen (u_out u) =? 0) = false ->
    flight F data (process_downstream_ack u s f) ps
| fl_ack_hit u ps s f :
    flight F data u ps -> (0 <= f <= 15)%Z ->
    (Z.of_N (p_seqno (u_out u)) =? s)%Z && (p_fragment (u_out u) =? f)%Z = true ->
    0 < p_sentlen (u_out u) ->
    p_offset (u_out u) + p_sentlen (u_out u) < p_len (u_out u) ->
    flight F data (process_downstream_ack u s f)
      (ps ++ [firstn (N.to_nat (p_sentlen (u_out u))) (skipn (N.to_nat (p_offset (u_out u))) data)])
| fl_other u ps u' :
    flight F data u ps -> u_out u' = u_out u -> flight F data u' ps.

Definition flight_inv (F : N) (data : list N) (u : suser) (ps : list (list N)) : Prop :=
  let ou := u_out u in
  p_data ou = data /\ p_len ou = N.of_nat (length data) /\ p_offset ou < p_len ou /\
  concat ps = firstn (N.to_nat (p_offset ou)) data /\
  p_fragment ou = Z.of_nat (length ps) /\ (length ps <= 16)%nat /\
  (p_sentlen ou = 0 \/ p_sentlen ou = dlen F (p_len ou) (p_offset ou)) /\
  Forall (fun p => p <> []) ps.

Lemma firstn_skipn_tile {A} (l : list A) a b :
  firstn a l ++ firstn b (skipn a l) = firstn (a + b) l.
Proof.
  revert l. induction a as [|a IH]; intros l; [reflexivity|].
  destruct l as [|x l]; [simpl; rewrite firstn_nil; reflexivity|]. simpl. rewrite IH. reflexivity.
Qed.

Lemma flight_ok F data u ps : flight F data u ps -> flight_inv F data u ps.
Proof.
  intros H. induction H as [u0 Hne Hlen|u ps w u' o ag H IH HF Hres Hs Hnd|u ps s f H IH Hm|u ps s f H IH Hf Hm Hsl Hlt|u ps u' H IH Ho].
  - unfold flight_inv, start_new_outpacket. cbn.
    rewrite firstn_all2 by exact Hlen. repeat split; try reflexivity; try lia.
    all: try (left; reflexivity).
    all: try (constructor).
    all: destruct data; [contradiction|]; cbn [length]; lia.
  - destruct IH as (A & B & C & D & E & G & S & NE).
    destruct (scd_inflight u w u' o ag ltac:(lia) Hres Hs) as [_ K]. cbv zeta in K. rewrite HF in K.
    destruct (K Hnd) as (O & _ & _). unfold flight_inv. rewrite O. cbn.
    repeat split; try assumption. right. reflexivity.
  - rewrite ack_miss by exact Hm. exact IH.
  - destruct IH as (A & B & C & D & E & G & S & NE).
    rewrite ack_hit_more by (try assumption; lia).
    unfold flight_inv. cbn. repeat split; try assumption; try lia.
    + rewrite concat_app. cbn [concat]. rewrite app_nil_r, D.
      rewrite firstn_skipn_tile. f_equal. lia.
    + apply andb_prop in Hm. destruct Hm as [_ Hm]. apply Z.eqb_eq in Hm.
      rewrite app_length. cbn [length]. unfold schar_wrap. lia.
    + apply andb_prop in Hm. destruct Hm as [_ Hm]. apply Z.eqb_eq in Hm. rewrite app_length. cbn [length]. lia.
    + apply Forall_app. split; [exact NE|]. constructor; [|constructor].
      intros Hnil. apply (f_equal (@length N)) in Hnil. rewrite firstn_length, skipn_length in Hnil. cbn [length] in Hnil. lia.
  - unfold flight_inv. rewrite Ho. exact IH.
Qed.

(* what an emission of a packet in flight looks like on the wire *)
Lemma flight_emission F data u ps w u' o ag :
  flight F data u ps -> u_fragsize u = F -> u_resent u <= 5 -> send_chunk_or_dataless u w = (u', o, ag) ->
  let off := p_offset (u_out u) in
  let len := N.of_nat (length data) in
  let dl := dlen F len off in
  let last := len =? off + dl in
  o = scd_outs (getq u w)
        (scd_b0 u :: ((p_seqno (u_out u) mod 8) * 32 + N.of_nat (length ps mod 16) * 2 + (if last then 1 else 0))
           :: firstn (N.to_nat dl) (skipn (N.to_nat off) data)) (u_downenc u).
Proof.
  intros H HF Hres Hs. cbv zeta. destruct (flight_ok _ _ _ _ H) as (A & B & C & D & E & G & S & NE).
  destruct (scd_inflight u w u' o ag ltac:(lia) Hres Hs) as [K _]. cbv zeta in K.
  rewrite K, HF, A, B, E. repeat f_equal.
  rewrite <- (Nat2Z.id (length ps mod 16)). rewrite Z_nat_N. f_equal.
  rewrite Nat2Z.inj_mod. reflexivity.
Qed.

(* the matching ack of the final fragment: the acknowledged fragments are exactly the packet *)
Lemma flight_complete F data u ps s f :
  flight F data u ps ->
  (Z.of_N (p_seqno (u_out u)) =? s)%Z && (p_fragment (u_out u) =? f)%Z = true ->
  p_len (u_out u) <= p_offset (u_out u) + p_sentlen (u_out u) ->
  concat (ps ++ [firstn (N.to_nat (p_sentlen (u_out u))) (skipn (N.to_nat (p_offset (u_out u))) data)]) = data /\
  p_offset (u_out u) + p_sentlen (u_out u) = p_len (u_out u).
Proof.
  intros H Hm Hge. destruct (flight_ok _ _ _ _ H) as (A & B & C & D & E & G & S & NE).
  assert (Hs : p_sentlen (u_out u) = p_len (u_out u) - p_offset (u_out u)) by (unfold dlen in S; lia).
  split; [|lia].
  rewrite concat_app. cbn [concat]. rewrite app_nil_r, D, firstn_skipn_tile.
  apply firstn_all2. lia.
Qed.

(* the 17th fragment can never be acknowledged: acks carry 4 bits, the C counter does not wrap at 16 *)
Lemma flight_stall_16 F data u ps s f :
  flight F data u ps -> length ps = 16%nat -> (0 <= f <= 15)%Z -> process_downstream_ack u s f = u.
Proof.
  intros H L Hf. destruct (flight_ok _ _ _ _ H) as (_ & _ & _ & _ & E & _). apply ack_miss.
  assert (X : (p_fragment (u_out u) =? f)%Z = false) by (apply Z.eqb_neq; lia).
  rewrite X, andb_false_r. reflexivity.
Qed.

(* numbering starts at 0: while nothing of the packet has been acknowledged (offset 0) the fragment
   counter is 0 -- an ack that names fragment 0 before it was sent is ignored (sentlen = 0) *)
Lemma flight_from_zero F data u ps :
  flight F data u ps -> p_offset (u_out u) = 0 -> ps = [] /\ p_fragment (u_out u) = 0%Z.
Proof.
  intros H Hz. destruct (flight_ok _ _ _ _ H) as (_ & _ & _ & D & E & _ & _ & NE).
  rewrite Hz in D. cbn in D.
  assert (P : ps = []).
  { destruct ps as [|p ps']; [reflexivity|]. cbn in D. inversion NE as [|x l Hp Hl]. subst.
    destruct p; [contradiction|discriminate]. }
  split; [exact P|]. rewrite E, P. reflexivity.
Qed.

Lemma ack_unsent u s f : p_sentlen (u_out u) = 0 -> process_downstream_ack u s f = u.
Proof. intros H. apply ack_miss. rewrite H. cbn. apply andb_false_r. Qed.
