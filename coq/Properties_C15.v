(* Properties_C15.v -- final statements for property C15 (downstream fragments never exceed the
   negotiated fragment size; sizes below 2 are rejected; fragments of a packet are numbered
   consecutively from 0 and only the final one carries the last-fragment flag).
   Only statements, each closed by lemmas of ServerRings / ServerRefine / ServerFragProofs /
   ServerFragNumbering, with Print Assumptions beneath.

   Vocabulary
     data_payload_ok F data  = data = b0 :: b1 :: d with |d| <= F and |d| <= 4094
                               (2-byte downstream data header, then the fragment)
     reach login zc unz c ips st = st is reachable from init_state ips by any list of events
                               (Server.step: decoded DNS queries, raw datagrams, tun packets, sweeps;
                                every datagram of recv_datagram is such a step or a no-op)
     nslot c name            = the session a ping / data request names, as the handlers compute it
     is_control o            = o is not an answer to a ping/data request, or is BADIP, or the
                               1-byte illegal answer "x" (such answers carry no tunnel data)
     answer_ok c st o        = is_control o, or o = OAnswer q _ _ data _ with nslot c (h_name q) = Some i,
                               i < length st and data_payload_ok (u_fragsize (getu st i)) data
     "answers carrying tunnel data" are the outputs of send_chunk_or_dataless (fresh fragments) and
     of the dnscache-hit branch of the ping / data handlers (replays): step_refines (ServerRefine.v)
     shows that every other output of a step is a control output.
     flight F data u ps      = u holds out-packet [data] (started by start_new_outpacket) after any
                               interleaving of (re-)emissions under fragsize F, acks, and unrelated
                               changes; ps = the fragments acknowledged so far. *)
From Coq Require Import List NArith ZArith Arith Bool Lia.
From RecordUpdate Require Import RecordUpdate.
From Iodine Require Import Generated.SrcConsts Base Codec Hostname DnsName DnsMsg Domain Server
  ServerRings ServerRefine ServerFragProofs ServerFragNumbering.
Import ListNotations.
Local Open Scope N_scope.

(* Every answer produced by send_chunk_or_dataless -- the primary one and the copy for a remembered
   duplicate -- is the same payload: 2 header bytes and at most u_fragsize (of the state at emission),
   and at most 4094, bytes of the out-packet. *)
Theorem C15_emit_bound : forall u w u' o ag,
  send_chunk_or_dataless u w = (u', o, ag) ->
  exists pktb, data_payload_ok (u_fragsize u) pktb /\
    Forall (fun x => exists id to, x = OAnswer (getq u w) id to pktb (u_downenc u)) o /\ o <> [].
Proof. exact emit_bound. Qed.
Print Assumptions C15_emit_bound.

(* In every reachable state, every valid entry of every session's answer cache was cut under a fragment
   size that is still in force: ce_len - 2 <= u_fragsize (entries are saved under the current size,
   the N handler clears the cache, V resets it). *)
Theorem C15_cache_inv : forall login zc unz c ips st,
  reach login zc unz c ips st ->
  forall i e, In e (u_cache (getu st i)) -> ce_len e <> 0 ->
    ce_len e = N.of_nat (length (ce_answer e)) /\
    data_payload_ok (u_fragsize (getu st i)) (ce_answer e) /\
    ce_len e - 2 <= u_fragsize (getu st i).
Proof.
  intros login zc unz c ips st R i e Hin Hl.
  destruct (reach_sinv login zc unz c ips st R i) as (_ & Ck & _).
  unfold cache_ok in Ck. rewrite Forall_forall in Ck. destruct (Ck e Hin) as [Z|[L D]]; [contradiction|].
  split; [exact L|]. split; [exact D|].
  destruct D as (b0 & b1 & d & E & H1 & _). rewrite L, E. cbn [length]. lia.
Qed.
Print Assumptions C15_cache_inv.

(* A replay from the answer cache, in any reachable state, is a whole cached answer and obeys the
   current fragment size of that session. *)
Theorem C15_replay_bound : forall login zc unz c ips st,
  reach login zc unz c ips st ->
  forall i name ty e, answer_from_dnscache (getu st i) name ty = Some e ->
    data_payload_ok (u_fragsize (getu st i)) (firstn (N.to_nat (ce_len e)) (ce_answer e)) /\
    firstn (N.to_nat (ce_len e)) (ce_answer e) = ce_answer e.
Proof.
  intros login zc unz c ips st R i name ty e H.
  destruct (reach_sinv login zc unz c ips st R i) as (_ & Ck & _). eapply replay_bound; eassumption.
Qed.
Print Assumptions C15_replay_bound.

(* EVERY answer of EVERY step from a reachable state is a control answer or carries at most
   u_fragsize bytes of tunnel data after the 2-byte header, u_fragsize being that of the session the
   answered query names, in the state the step started from -- fresh or replayed, primary or copy to a
   remembered duplicate, whichever event (query, raw datagram, tun packet, sweep) triggered it. *)
Theorem C15_bound_all : forall login zc unz c ips st e,
  reach login zc unz c ips st ->
  Forall (answer_ok c st) (snd (step login zc unz c st e)).
Proof. intros login zc unz c ips st e R. apply step_answers_ok. eapply reach_sinv, R. Qed.
Print Assumptions C15_bound_all.

(* the same for the datagram entry point used by the correspondence run *)
Theorem C15_bound_all_datagram : forall login zc unz c ips st now rnd from dest packet,
  reach login zc unz c ips st ->
  Forall (answer_ok c st) (snd (recv_datagram login unz c st now rnd from dest packet)) /\
  reach login zc unz c ips (fst (recv_datagram login unz c st now rnd from dest packet)).
Proof.
  intros login zc unz c ips st now rnd from dest packet R.
  destruct (recv_datagram_is_step login zc unz c st now rnd from dest packet) as [E|[e E]]; rewrite E.
  - split; [constructor|exact R].
  - split; [apply C15_bound_all with (ips := ips); exact R|apply reach_step, R].
Qed.
Print Assumptions C15_bound_all_datagram.

(* u_fragsize is the last accepted N value or the V handler's default: a step leaves the fragment size
   of a session alone, or sets it to a value in 2..65535 (an accepted N), or to 100 (V); steps that
   answer tunnel data never change it (ServerFragProofs.fragsize_msteps_true). *)
Theorem C15_fragsize_changes : forall login zc unz c st e i,
  let st' := fst (step login zc unz c st e) in
  u_fragsize (getu st' i) = u_fragsize (getu st i) \/
  2 <= u_fragsize (getu st' i) < 65536 \/ u_fragsize (getu st' i) = 100.
Proof. exact step_fragsize. Qed.
Print Assumptions C15_fragsize_changes.

Theorem C15_default_after_V : forall u now q seed, u_fragsize (reset_session (claim now u) q seed) = 100.
Proof. reflexivity. Qed.
Print Assumptions C15_default_after_V.

(* The N handler: a well-formed request of an authenticated session with size < 2 is answered BADFRAG
   and leaves the state unchanged; an accepted one sets exactly u_fragsize and u_locked and invalidates
   the answer cache of that session only. *)
Theorem C15_reject : forall login unz c st now rnd q dl,
  (2 <= dl)%nat -> is_letter (chr (h_name q) 0) 110 = true ->
  let unpacked := unpack_data b32 (N.to_nat 65536) (skipn 1 (firstn dl (h_name q))) (dl - 1) in
  (3 <= length unpacked)%nat ->
  check_auth_options c st now (schar (chr unpacked 0)) (h_from q) = false ->
  let i := Z.to_nat (schar (chr unpacked 0)) in
  let mfs := chr unpacked 1 * 256 + chr unpacked 2 in
  (mfs < 2 ->
     handle_null_request login unz c st now rnd q dl = (st, [mk_answer q s_BADFRAG (u_downenc (getu st i))])) /\
  (2 <= mfs ->
     handle_null_request login unz c st now rnd q dl =
       (upd st i (n_accept mfs), [mk_answer q [chr unpacked 1; chr unpacked 2] (u_downenc (getu st i))]) /\
     (forall j, j <> i -> getu (upd st i (n_accept mfs)) j = getu st j) /\
     u_fragsize (n_accept mfs (getu st i)) = mfs /\ u_locked (n_accept mfs (getu st i)) = true /\
     Forall (fun e => ce_id e = 0 /\ ce_len e = 0) (u_cache (n_accept mfs (getu st i))) /\
     (n_accept mfs (getu st i)) <| u_cache := u_cache (getu st i) |> <| u_fragsize := u_fragsize (getu st i) |>
        <| u_locked := u_locked (getu st i) |> = getu st i).
Proof.
  intros login unz c st now rnd q dl Hdl HN unpacked Hread Hauth i mfs.
  pose proof (N_request login unz c st now rnd q dl Hdl HN Hread Hauth) as E. cbv zeta in E.
  fold unpacked in E. fold i in E. fold mfs in E. split.
  - intros H. rewrite E. assert (X : (mfs <? 2) = true) by (apply N.ltb_lt; exact H). rewrite X. reflexivity.
  - intros H. assert (X : (mfs <? 2) = false) by (apply N.ltb_ge; exact H). rewrite X in E. split; [exact E|].
    split; [intros j Hj; apply getu_upd_other; congruence|]. apply n_accept_effect.
Qed.
Print Assumptions C15_reject.

(* ---- numbering ----------------------------------------------------------------------------------------- *)

(* a packet starts at offset 0 with fragment number 0 and the next sequence number *)
Theorem C15_numbering_start : forall u data,
  u_out (start_new_outpacket u data) =
  {| p_len := N.of_nat (length (firstn (N.to_nat 65536) data)); p_sentlen := 0; p_offset := 0;
     p_data := firstn (N.to_nat 65536) data; p_seqno := (p_seqno (u_out u) + 1) mod 8; p_fragment := 0%Z |}.
Proof. reflexivity. Qed.
Print Assumptions C15_numbering_start.

(* While packet [data] is in flight under a constant fragment size F, after ANY interleaving of
   re-emissions, matching and non-matching acks and unrelated changes: the acknowledged fragments ps
   concatenate to the first p_offset bytes of the packet, the fragment counter is their number (<= 16),
   and the amount the next matching ack will add is 0 or exactly the length of the current fragment. *)
Theorem C15_numbering_inv : forall F data u ps,
  flight F data u ps ->
  p_data (u_out u) = data /\ p_len (u_out u) = N.of_nat (length data) /\ p_offset (u_out u) < p_len (u_out u) /\
  concat ps = firstn (N.to_nat (p_offset (u_out u))) data /\
  p_fragment (u_out u) = Z.of_nat (length ps) /\ (length ps <= 16)%nat /\
  (p_sentlen (u_out u) = 0 \/ p_sentlen (u_out u) = dlen F (p_len (u_out u)) (p_offset (u_out u))) /\
  Forall (fun p => p <> []) ps.
Proof. exact flight_ok. Qed.
Print Assumptions C15_numbering_inv.

(* Every (re-)emission of the current fragment: the wire fragment number is (number of acknowledged
   fragments) mod 16 -- 0 for the first, consecutive thereafter --, the data is the next
   min(F, remaining, 4094) bytes at the acknowledged offset, and the last flag is set iff this fragment
   reaches the end of the packet. *)
Theorem C15_numbering_emit : forall F data u ps w u' o ag,
  flight F data u ps -> u_fragsize u = F -> u_resent u <= 5 -> send_chunk_or_dataless u w = (u', o, ag) ->
  let off := p_offset (u_out u) in
  let len := N.of_nat (length data) in
  let dl := dlen F len off in
  let last := len =? off + dl in
  o = scd_outs (getq u w)
        (scd_b0 u :: ((p_seqno (u_out u) mod 8) * 32 + N.of_nat (length ps mod 16) * 2 + (if last then 1 else 0))
           :: firstn (N.to_nat dl) (skipn (N.to_nat off) data)) (u_downenc u).
Proof. exact flight_emission. Qed.
Print Assumptions C15_numbering_emit.

(* acks: a non-matching (seq, frag), or one that names a fragment of which nothing has been sent yet
   (sentlen = 0), changes nothing; a matching one that does not finish the packet advances the offset
   by exactly the sent length and the fragment number by exactly 1 *)
Theorem C15_numbering_ack : forall u s f,
  ((Z.of_N (p_seqno (u_out u)) =? s)%Z && (p_fragment (u_out u) =? f)%Z && negb (p_sentlen (u_out u) =? 0) = false ->
     process_downstream_ack u s f = u) /\
  (0 < p_len (u_out u) -> 0 < p_sentlen (u_out u) -> (-128 <= p_fragment (u_out u) < 127)%Z ->
   (Z.of_N (p_seqno (u_out u)) =? s)%Z && (p_fragment (u_out u) =? f)%Z = true ->
   p_offset (u_out u) + p_sentlen (u_out u) < p_len (u_out u) ->
     u_out (process_downstream_ack u s f) =
       (u_out u) <| p_offset := p_offset (u_out u) + p_sentlen (u_out u) |> <| p_sentlen := 0 |>
                 <| p_fragment := (p_fragment (u_out u) + 1)%Z |>).
Proof.
  intros u s f. split; [apply ack_miss|].
  intros Hl Hsl Hr Hm Hlt. rewrite ack_hit_more by assumption. cbn.
  replace (schar_wrap (p_fragment (u_out u) + 1)) with (p_fragment (u_out u) + 1)%Z; [reflexivity|].
  unfold schar_wrap. lia.
Qed.
Print Assumptions C15_numbering_ack.

(* the matching ack of the final fragment: the acknowledged fragments are exactly the packet, and that
   final fragment was the one whose emission carried the last flag (off + dl = len) *)
Theorem C15_numbering_complete : forall F data u ps s f,
  flight F data u ps ->
  (Z.of_N (p_seqno (u_out u)) =? s)%Z && (p_fragment (u_out u) =? f)%Z = true ->
  p_len (u_out u) <= p_offset (u_out u) + p_sentlen (u_out u) ->
  concat (ps ++ [firstn (N.to_nat (p_sentlen (u_out u))) (skipn (N.to_nat (p_offset (u_out u))) data)]) = data /\
  p_offset (u_out u) + p_sentlen (u_out u) = p_len (u_out u).
Proof. exact flight_complete. Qed.
Print Assumptions C15_numbering_complete.

(* 16+ fragments: the wire number wraps (length ps mod 16 above) but the server's counter is a C char
   that does not: after 16 acknowledged fragments it is 16, no 4-bit ack can match it, so the 17th
   fragment is re-sent until the packet is dropped (outfragresent > 5); no data is ever mis-numbered. *)
Theorem C15_numbering_wrap : forall F data u ps s f,
  flight F data u ps -> length ps = 16%nat -> (0 <= f <= 15)%Z -> process_downstream_ack u s f = u.
Proof. exact flight_stall_16. Qed.
Print Assumptions C15_numbering_wrap.

From Iodine Require Import ServerExamples.

(* ---- numbered from 0 ----------------------------------------------------------------------------------- *)
(* As long as nothing of the packet has been acknowledged (offset 0) the fragment counter is 0, so every
   emission of the first fragment carries wire number 0 (C15_numbering_emit with ps = []), whatever acks
   arrived: an ack naming fragment 0 before it was sent is ignored (sentlen = 0).  This is the repaired
   behaviour (iodine commit 1b8dff8; before it, such an ack made the first fragment go out as number 1:
   corpus/C15/premature-ack-first-fragment-numbered-1.cases, seeded/revert-fix-D19-...). *)
Theorem C15_numbering_from_zero : forall F data u ps,
  flight F data u ps -> p_offset (u_out u) = 0 -> ps = [] /\ p_fragment (u_out u) = 0%Z.
Proof. exact flight_from_zero. Qed.
Print Assumptions C15_numbering_from_zero.

(* on a whole history: V, L, N=10, a 30-byte packet, a ping whose ack byte names (seq 1, frag 0) before
   anything was sent, then the regular acks: the fragments go out with numbers 0,1,2,3 (last) and tile *)
Example C15_example_premature_ack :
  map (fun k => map (fun d => (N.of_nat (length d) - 2, (nth 1 d 0 / 2) mod 16, nth 1 d 0 mod 2)) (ex2_payloads k)) [4; 5; 6; 7]%nat
    = [[(10, 0, 0)]; [(10, 1, 0)]; [(10, 2, 0)]; [(1, 3, 1)]] /\
  flat_map (fun k => skipn 2 (hd [] (ex2_payloads k))) [4; 5; 6; 7]%nat
    = 90 :: map N.of_nat (seq 100 20) ++ [10; 0; 0; 2] ++ map N.of_nat (seq 124 6).
Proof. vm_compute. split; reflexivity. Qed.

(* ---- non-vacuity: the history of ServerExamples.v (V, L, N=1, N=10, a 30-byte tun packet, pings that
   acknowledge fragment after fragment, ..., N=5) ------------------------------------------------------ *)

(* N=1 is answered BADFRAG and changes nothing; N=10 is accepted *)
Example C15_example_reject :
  ex_payloads 2 = [s_BADFRAG] /\ u_fragsize (ex_user 1) = 100 /\ u_fragsize (ex_user 2) = 100 /\
  ex_digest 2 = ex_digest 1 /\ ex_payloads 3 = [[0; 10]] /\ u_fragsize (ex_user 3) = 10.
Proof. vm_compute. repeat split. Qed.

(* the 31 framed bytes travel as fragments 0,1,2,3 of 10,10,10,1 bytes (the bound is tight), only the
   last carries the last flag, and they concatenate to 0x5A ++ packet *)
Example C15_example_transfer :
  map (fun k => map (fun d => (N.of_nat (length d) - 2, (nth 1 d 0 / 2) mod 16, nth 1 d 0 mod 2)) (ex_payloads k)) [5; 7; 9; 10]%nat
    = [[(10, 0, 0)]; [(10, 1, 0)]; [(10, 2, 0)]; [(1, 3, 1)]] /\
  flat_map (fun k => skipn 2 (hd [] (ex_payloads k))) [5; 7; 9; 10]%nat
    = 90 :: map N.of_nat (seq 100 20) ++ [10; 0; 0; 2] ++ map N.of_nat (seq 124 6).
Proof. vm_compute. split; reflexivity. Qed.

(* the reachable states of this history satisfy the hypothesis of C15_bound_all, and its conclusion is
   not vacuous: event 5 answers tunnel data for session 0 *)
Example C15_example_answer_ok :
  exists q id to d denc, snd (nth 5 ex_trace ([], [])) = [OAnswer q id to d denc] /\
    nslot ex_cfg (h_name q) = Some 0%nat /\ data_payload_ok (u_fragsize (ex_user 4)) d /\
    pd_letter (chr (h_name q) 0) = true.
Proof.
  eexists. eexists. eexists. eexists. eexists. split; [vm_compute; reflexivity|].
  split; [vm_compute; reflexivity|]. split; [|vm_compute; reflexivity].
  eexists. eexists. eexists. split; [reflexivity|]. vm_compute. split; discriminate.
Qed.
