(* Properties_C05.v -- final statements for property C05 (the server survives arbitrary
   datagrams: memory safety and termination of the modelled code; other sessions untouched).
   Only statements, each closed by lemmas of ServerSafety*.v, with Print Assumptions beneath.

   WHAT IS PROVED (for the executable model coq/Server.v + DnsMsg.v + DnsName.v + Hostname.v +
   Codec.v + Domain.v, which the correspondence run checks/c05.py ties to the real iodined):
   for every configuration, every list of events -- datagrams of arbitrary bytes and arbitrary
   length on the DNS socket, packets of arbitrary bytes and length from the tun device, sweeps of
   the select loop, with arbitrary clock values and rand() results -- starting from init_users():
     - every length, offset and ring index kept in the session table stays inside the C array it
       indexes (C05_state_bounds),
     - every datagram / packet emitted fits the C buffer it is built in, every decoded query name
       fits struct query.name, the copy into in[512] is in bounds, every users[] index has passed
       the range check (C05_output_bounds, C05_indices_checked),
     - no fuel of the model ever runs out, i.e. every loop of the C code leaves by its own exit
       condition within the stated number of iterations (C05_termination),
     - a datagram changes only the session records named in the frame condition
       (C05_other_sessions_untouched, C05_established_session_survives),
     - the signed-char arithmetic of the model stays in the range of a C char (C05_char_arithmetic).
   External functions are Section variables: login (login_calculate), zc / unz (zlib).  The single
   hypothesis: uncompress() reports at most the 64 KiB of room it was given.

   WHAT IS NOT PROVED HERE and is only observed by the ASan/UBSan runs of checks/c05.py:
   undefined behaviour below the level of the model (signed overflow / shifts in C expressions,
   uninitialised reads, aliasing, libc / zlib internals, stack depth).  Known C expressions whose
   arithmetic is undefined for some reachable value and is not observable in the model:
     - iodined.c handle_raw_login: `users[userid].seed + 1` / `seed - 1` on an int: seed = rand()
       ranges over 0..RAND_MAX = 2^31-1, so seed + 1 overflowed for seed = INT_MAX (probability 2^-31
       per handshake; the model computes the two's-complement wrap, wrap32).  Fixed in /repo db34e24
       (unsigned arithmetic); corpus/C05/intmax-seed-raw-login.cases drives rand() to INT_MAX and
       makes UBSan report the overflow when that fix is reverted;
     - iodined.c V handler `(unpacked[0] & 0xff) << 24` (shift into the sign bit, fixed in fb7526d,
       corpus/C05/d15-signed-shift.cases); base32.c / base64.c reverse tables indexed with a plain
       char (fixed in de1166f, corpus/C05/d3-high-bytes.cases);
     - dns.c / read.c: `short qdcount = ntohs(...)`, conversions of values >= 0x8000 to short are
       implementation-defined (not undefined); modelled by to_short. *)
From Coq Require Import List NArith ZArith Arith Bool Lia.
From Iodine Require Import Generated.SrcConsts Base Codec Hostname DnsName DnsMsg Domain Server
  ServerSafetyProofs ServerSafetyOps ServerSafetyStep ServerSafetyStep2 ServerSafetyFrame
  ServerSafetyRun ServerSafetyFuel ServerSafetyMisc ServerSafetyExample.
Import ListNotations.
Local Open Scope N_scope.

(* the oracles: login = login_calculate, zc = compress2, unz = uncompress; the one hypothesis *)
Definition unz_bounded (unz : list N -> option (list N)) : Prop :=
  forall b p, unz b = Some p -> (length p <= N.to_nat 65536)%nat.

(* ---- C05_state_bounds ---------------------------------------------------------------------------- *)

(* Inductive invariant, spelled out: in every reachable state, for every slot u of the table *)
Theorem C05_state_bounds :
  forall (login : list N -> N -> list N) (zc : list N -> list N) (unz : list N -> option (list N)),
  unz_bounded unz ->
  forall (c : cfg) (ips : list N) (evs : list devent),
  let st := fst (run login zc unz c (init_state ips) evs) in
  length st = length ips /\
  forall u, In u st ->
    (* reassembly buffer inpacket: data[64K]; len = offset <= 256 * (fragment + 1) <= 4096, so the
       MIN(read, sizeof(data) - offset) clamp of the data handler is never needed *)
    p_len (u_in u) = p_offset (u_in u) /\ p_offset (u_in u) <= 65536 /\
    p_offset (u_in u) <= (Z.to_N (p_fragment (u_in u)) + 1) * 256 /\
    (length (p_data (u_in u)) <= N.to_nat 65536)%nat /\
    p_seqno (u_in u) < 8 /\ (0 <= p_fragment (u_in u) <= 15)%Z /\
    (* outpacket: memcpy(&pkt[2], data + offset, datalen) reads inside data[0..len) *)
    p_offset (u_out u) + p_sentlen (u_out u) <= p_len (u_out u) /\
    p_len (u_out u) <= N.of_nat (length (p_data (u_out u))) /\
    (length (p_data (u_out u)) <= N.to_nat 65536)%nat /\
    p_seqno (u_out u) < 8 /\ (-128 <= p_fragment (u_out u) <= 127)%Z /\
    u_resent u <= 6 /\ u_seed u < 2147483648 /\
    (* outpacketq ring *)
    length (u_queue u) = QLEN /\ (u_queue_next u < QLEN)%nat /\ (u_queue_filled u <= QLEN)%nat /\
    Forall (fun e => p_len e <= N.of_nat (length (p_data e)) /\ (length (p_data e) <= N.to_nat 65536)%nat) (u_queue u) /\
    (* dnscache ring: answers fit dnscache_answer[][4096], names fit struct query *)
    length (u_cache u) = CACHELEN /\ (u_cache_last u < CACHELEN)%nat /\
    Forall (fun e => ce_len e <= 4096 /\ ce_len e <= N.of_nat (length (ce_answer e)) /\
                     (length (ce_answer e) <= N.to_nat 4096)%nat /\ (length (ce_name e) <= 255)%nat) (u_cache u) /\
    (* query memories: 4-byte CMCs *)
    length (u_pingmem u) = PINGLEN /\ (u_pingmem_last u < PINGLEN)%nat /\
    Forall (fun e => length (qm_cmc e) = 4%nat) (u_pingmem u) /\
    length (u_datamem u) = DATALEN /\ (u_datamem_last u < DATALEN)%nat /\
    Forall (fun e => length (qm_cmc e) = 4%nat) (u_datamem u) /\
    (* held queries fit struct query.name[256] *)
    (length (h_name (u_q u)) <= 255)%nat /\ (length (h_name (u_qs u)) <= 255)%nat.
Proof.
  intros login zc unz unz_bound c ips evs st.
  destruct (init_state_ok ips) as [H0 HL0].
  destruct (run_ok login zc unz unz_bound c evs (init_state ips) H0) as (Hst & HL & _).
  fold st in Hst, HL.
  split; [congruence|]. intros u Hu. unfold state_ok in Hst. rewrite Forall_forall in Hst.
  destruct (Hst u Hu) as [[] [] ? ? ? ? ? Hq ? ? ? Hc ? ? ? ? ? ? ?].
  unfold K64, K4096, hq_ok, qm_ok in *.
  repeat match goal with |- _ /\ _ => split end; try assumption; try lia.
  - eapply Forall_impl; [|exact Hq]. intros e []. split; assumption.
  - eapply Forall_impl; [|exact Hc]. intros e []. repeat split; assumption.
Qed.
Print Assumptions C05_state_bounds.

(* the table sizes behind QLEN .. DATALEN and the literal bounds are those of the C source *)
Theorem C05_buffer_constants :
  QLEN = N.to_nat src_OUTPACKETQ_LEN /\ CACHELEN = N.to_nat src_DNSCACHE_LEN /\
  PINGLEN = N.to_nat src_QMEMPING_LEN /\ DATALEN = N.to_nat src_QMEMDATA_LEN /\
  src_C05_PACKET_DATA = 65536 /\ src_C05_UNPACKED_BUF = 65536 /\ src_C05_PKT_BUF = 4096 /\
  src_C05_PKT_BUF - src_C05_PKT_HDR = 4094 /\ src_C05_DNSCACHE_ANSWER = 4096 /\
  src_C05_RAWPKT_BUF = 4096 /\ src_C05_RAWPKT_BUF - src_RAW_HDR_LEN = 4092 /\
  src_QUERY_NAME_SIZE = 256 /\ src_QUERY_NAME_SIZE - 1 <= src_C05_IN_BUF /\
  src_C05_CMC_CAP = 8 /\ src_C05_CMC_CAP + 1 <= src_C05_CMC_BUF /\ src_READNAME_LOOPS = 10.
Proof. repeat split; vm_compute; congruence. Qed.
Print Assumptions C05_buffer_constants.

(* ---- C05_output_bounds ---------------------------------------------------------------------------- *)

Theorem C05_output_bounds :
  forall (login : list N -> N -> list N) (zc : list N -> list N) (unz : list N -> option (list N)),
  unz_bounded unz ->
  forall (c : cfg) (ips : list N) (evs : list devent),
  Forall (fun o => match o with
                   | OAnswer q _ _ data _ =>      (* write_dns(q, data, datalen): pkt[4096] / cache slot *)
                       (length data <= N.to_nat 4096)%nat /\ (length (h_name q) <= 255)%nat
                   | OAux _ bytes => (length bytes <= N.to_nat 65536)%nat     (* buf[64K] of the NS / A answers *)
                   | ORaw _ bytes => (length bytes <= N.to_nat 4096)%nat      (* packet[4096] of send_raw *)
                   | OTun bytes => (length bytes <= N.to_nat 65536)%nat       (* out[64K] of handle_full_packet *)
                   | OForward q => (length (h_name q) <= 255)%nat
                   end)
         (snd (run login zc unz c (init_state ips) evs)).
Proof.
  intros login zc unz unz_bound c ips evs. destruct (init_state_ok ips) as [H0 _].
  destruct (run_ok login zc unz unz_bound c evs (init_state ips) H0) as (_ & _ & Ho).
  exact Ho.
Qed.
Print Assumptions C05_output_bounds.

(* answers to every command other than ping ('p'/'P') and data (hex digit) are small: the fragsize
   probe reply is cut to the requested size <= 2047 out of buf[2048], the 'Z' echo is the query's own
   <= 255 characters, everything else (VACK/VNAK/VFUL, BAD..., login reply, codec names) is shorter *)
Theorem C05_handshake_answer_sizes :
  forall (login : list N -> N -> list N) (unz : list N -> option (list N))
         (c : cfg) (st : sstate) (now rnd : N) (q : hq) (dl : nat),
  (length (h_name q) <= 255)%nat ->
  let c0 := chr (firstn dl (h_name q)) 0 in
  is_letter c0 112 = false ->
  ((48 <=? c0) && (c0 <=? 57)) || ((97 <=? c0) && (c0 <=? 102)) || ((65 <=? c0) && (c0 <=? 70)) = false ->
  Forall (fun o => match o with OAnswer _ _ _ data _ => (length data <= 2047)%nat | _ => True end)
         (snd (handle_null_request login unz c st now rnd q dl)).
Proof. intros login unz c st now rnd q dl Hq c0 Hp Hd. exact (hnr_small login unz c st now rnd q dl Hq Hp Hd). Qed.
Print Assumptions C05_handshake_answer_sizes.

(* parser side: the name dns_decode hands out fits q->name[256]; readname writes at most the 255
   bytes it is allowed into name[256]; domain_len < strlen(name) <= 255 < sizeof(in); a decoded
   payload (+ the NUL the decoder appends) fits unpacked[64K] resp. cmc[] *)
Theorem C05_parser_bounds :
  (forall buf plen q, dq_q (dns_decode_query buf plen) = Some q -> (length (q_name q) <= 255)%nat) /\
  (forall buf plen src, (length (rn_wr (readname buf plen src (name_size - 1))) <= name_size - 1)%nat) /\
  (forall name topdomain dl, query_datalen name topdomain = Some dl -> (dl < length name)%nat) /\
  (forall i d n, (length d <= 255)%nat ->
     (length (unpack_data (codec_of_id i) (N.to_nat 65536) d n) <= 255)%nat /\
     (S (length (unpack_data (codec_of_id i) (N.to_nat 65536) d n)) <= N.to_nat src_C05_UNPACKED_BUF)%nat) /\
  (forall s, (S (length (decode b32 8 s)) <= N.to_nat src_C05_CMC_BUF)%nat).
Proof.
  split; [exact dns_decode_query_name|]. split; [|split; [exact query_datalen_lt|split]].
  - intros buf plen src. apply readname_wr_len. unfold name_size. vm_compute. lia.
  - intros i d n Hd. split; [|apply unpack_nul_room; [apply codec_of_id_kok3|exact Hd]].
    etransitivity; [apply unpack_data_len_in, codec_of_id_kok3|exact Hd].
  - intros s. destruct (cmc_nul_room s) as [_ H]. exact H.
Qed.
Print Assumptions C05_parser_bounds.

(* every userid used to index users[] has passed the range check: the three access checks imply
   0 <= userid < created_users; forwarding targets and claimed slots are existing slots *)
Theorem C05_indices_checked : forall (c : cfg) (st : sstate) (now : N) (from : addr),
  (forall userid, check_user_and_ip c st now userid from = false -> (0 <= userid < Z.of_nat (length st))%Z) /\
  (forall userid, check_auth c st now userid from = false -> (0 <= userid < Z.of_nat (length st))%Z) /\
  (forall userid, check_auth_options c st now userid from = false -> (0 <= userid < Z.of_nat (length st))%Z) /\
  (forall ip t, find_user_by_ip st ip now = Some t -> (t < length st)%nat) /\
  (forall t, find_available_from st now 0 = Some t -> (t < length st)%nat) /\
  (forall ch, (0 <= Z.of_N (b32_8to5 ch) <= 31)%Z) /\
  (forall b, b < 256 -> (-128 <= schar b <= 127)%Z).
Proof.
  intros c st now from.
  split; [intros userid H; eapply check_user_in_range, H|].
  split; [intros userid H; eapply check_user_in_range, (check_auth_user _ _ _ _ _ H)|].
  split; [intros userid H; apply check_auth_options_auth in H; eapply check_user_in_range, (check_auth_user _ _ _ _ _ H)|].
  split; [intros ip t H; apply find_user_by_ip_receiver in H; apply H|].
  split; [intros t H; apply find_available_from_spec in H; lia|].
  split; [exact b32_userid_range|exact schar_range_byte].
Qed.
Print Assumptions C05_indices_checked.

(* ---- C05_termination -------------------------------------------------------------------------------- *)

(* No fuel runs out: the fuelled loops return the same result with any larger fuel.
   Per-datagram work of the model, in loop iterations (plen = datagram length <= 65536):
     readname      <= 10 levels x (plen + 1) label iterations, <= 254 bytes copied in total
     query_datalen <= 255 + 128 character comparisons;  unpack / decode <= 255 characters
     dnscache / qmem scans <= DNSCACHE_LEN + QMEMPING_LEN + QMEMDATA_LEN entries, each comparing <= 256 bytes
     send_chunk_or_dataless <= 3 calls per datagram, each copying <= 4096 bytes; write_dns's MX loop
                   <= |data| + 1 <= 4097 iterations, puttxtbin <= |data| + 1
     handle_full_packet / tunnel_tun: one (un)compress + copies of <= 64 KiB; sweep: USERS slots
   -- all structurally recursive on lists of these lengths or on the fuels below. *)
Theorem C05_termination :
  (* readname_loop: label loop <= plen + 1 iterations per level, <= src_READNAME_LOOPS levels *)
  (forall buf plen src length,
     readname buf plen src length = readname_lvl_f (S plen) buf plen length (N.to_nat src_READNAME_LOOPS) src) /\
  (forall buf plen F, (S plen <= F)%nat -> forall loop length s0,
     readname_lvl_f F buf plen length loop s0 = readname_lvl_f (S plen) buf plen length loop s0) /\
  (* the "%d" / inet_ntoa digit loops *)
  (forall v, v < 4294967296 -> forall f, (20 <= f)%nat -> dec_digits f v [] = dec_of v) /\
  (* write_dns: TXT strings, MX/SRV name splitting and the while(1) name loop *)
  (forall bufremain from f, (length from < f)%nat -> puttxtbin_go f bufremain from = puttxtbin bufremain from) /\
  (forall f data first f', (length data < f)%nat -> (length data < f')%nat ->
     mx_strings f data first = mx_strings f' data first) /\
  (forall f data downenc td acc f', (length data < f)%nat -> (length data < f')%nat ->
     mx_build f data downenc td acc = mx_build f' data downenc td acc).
Proof.
  split; [intros; unfold readname; apply readname_lvl_is_f|].
  split; [exact readname_lvl_f_fuel|]. split; [exact dec_of_fuel|].
  split; [intros; apply puttxtbin_fuel; assumption|]. split; [exact mx_strings_fuel|exact mx_build_fuel].
Qed.
Print Assumptions C05_termination.

(* ---- C05_other_sessions_untouched ---------------------------------------------------------------------- *)

(* Frame condition of one datagram (any bytes, any length, any sender): slot j keeps its record
   unless the sender passes j's access check (own), or j is the free slot a version handshake claims
   (claimed), or the sender is a logged-in client and j an authenticated live session that receives
   a forwarded packet (fwd), or the datagram is a raw login frame with j's login hash (rawlogin). *)
Theorem C05_other_sessions_untouched :
  forall (login : list N -> N -> list N) (unz : list N -> option (list N))
         (c : cfg) (st : sstate) (now rnd : N) (from : addr) (dest : option (list N)) (dg : list N) (j : nat),
  ~ (check_user_and_ip c st now (Z.of_nat j) from = false \/
     find_available_from st now 0 = Some j \/
     ((exists s, check_auth c st now (Z.of_nat s) from = false) /\
      (j < length st)%nat /\ u_active (getu st j) = true /\ u_auth (getu st j) = true /\
      u_disabled (getu st j) = false /\ live now (getu st j) = true) \/
     (j = N.to_nat (N.land (chr dg 3) src_RAW_HDR_USR_MASK) /\ (j < length st)%nat /\
      u_active (getu st j) = true /\ u_auth (getu st j) = true /\
      list_eqb (firstn 16 (skipn 4 dg)) (login (c_password c) (wrap32 (Z.of_N (u_seed (getu st j)) + 1))) = true)) ->
  nth_error (fst (recv_datagram login unz c st now rnd from dest dg)) j = nth_error st j.
Proof.
  intros login unz c st now rnd from dest dg j Hn. apply recv_datagram_only.
  intros [[Ho|[Hc|[Hs Hr]]]|Hr]; apply Hn; [left; exact Ho|right; left; exact Hc|right; right; left; split; [exact Hs|exact Hr]|].
  right. right. right. exact Hr.
Qed.
Print Assumptions C05_other_sessions_untouched.

(* corollary: an established session keeps its whole record across arbitrary traffic from third
   parties -- senders that do not pass its access check and are not logged-in clients -- as long
   as it has not timed out and nobody presents its raw login hash *)
Theorem C05_established_session_survives :
  forall (login : list N -> N -> list N) (zc : list N -> list N) (unz : list N -> option (list N))
         (c : cfg) (u : nat) (evs : list devent) (st : sstate),
  hostile_run login zc unz c u st evs ->
  nth_error (fst (run login zc unz c st evs)) u = nth_error st u.
Proof. intros login zc unz c u evs st H. apply hostile_run_untouched, H. Qed.
Print Assumptions C05_established_session_survives.

(* with address checking on (no -c), a sender whose address differs from the session's is refused *)
Theorem C05_foreign_address_refused : forall (c : cfg) (st : sstate) (now : N) (from : addr) (j : nat),
  c_check_ip c = true -> list_eqb (a_ip from) (a_ip (u_host (getu st j))) = false ->
  check_user_and_ip c st now (Z.of_nat j) from = true /\
  check_auth c st now (Z.of_nat j) from = true.
Proof.
  intros c st now from j Hc Hne. pose proof (foreign_refused c st now from j Hc Hne) as H.
  split; [exact H|]. unfold check_auth. rewrite H. reflexivity.
Qed.
Print Assumptions C05_foreign_address_refused.

(* ---- C05_char_arithmetic ---------------------------------------------------------------------------------- *)

Theorem C05_char_arithmetic :
  (forall b, b < 256 -> (-128 <= schar b <= 127)%Z) /\
  (forall z, (-128 <= schar_wrap z <= 127)%Z) /\
  (forall z, (-128 <= z <= 127)%Z -> schar_wrap z = z) /\
  (forall z, (-128 <= z <= 127)%Z -> schar_wrap (z + 1) = (if (z =? 127)%Z then -128 else z + 1)%Z) /\
  (forall ch, b32_8to5 ch < 32) /\
  (length rev32tab = 256 /\ length rev64tab = 256 /\ length rev64utab = 256 /\ length rev128tab = 256)%nat /\
  (forall c cap d n, Forall (fun b => b < 256) (unpack_data c cap d n)).
Proof.
  split; [exact schar_range_byte|]. split; [exact schar_wrap_in_range|]. split; [exact schar_wrap_id|].
  split; [exact schar_wrap_succ|]. split; [exact b32_8to5_lt32|]. split; [exact revtab_lengths|exact unpack_data_bytes].
Qed.
Print Assumptions C05_char_arithmetic.


(* ---- non-vacuity ---------------------------------------------------------------------------------------------- *)

(* the oracle hypothesis holds for the codec of the correspondence run, and the hypotheses of
   C05_established_session_survives hold on a concrete run: an established session (version + login
   handshake built by the model's client-side builders) and six datagrams from a third party --
   garbage, a ping naming the session's userid, a raw login with a wrong hash, a version handshake of
   its own (which claims slot 1), a data query, 200 bytes of junk one second before the time-out *)
Example C05_nonvacuous :
  unz_bounded unz_frame /\
  (u_active (getu ex_st 0) = true /\ u_auth (getu ex_st 0) = true) /\
  hostile_run login_stub zc_frame unz_frame ex_cfg 0 ex_st ex_hostile /\
  u_active (getu (fst (run login_stub zc_frame unz_frame ex_cfg ex_st ex_hostile)) 1) = true /\
  nth_error (fst (run login_stub zc_frame unz_frame ex_cfg ex_st ex_hostile)) 0 = nth_error ex_st 0.
Proof.
  split; [exact unz_frame_bounded|]. split; [split; apply ex_established|].
  split; [exact ex_hostile_run|exact ex_outcome].
Qed.
Print Assumptions C05_nonvacuous.
