(* ServerAuthProofs.v -- what each request can do to the session table of the iodined model:
   the meaning of the access checks, the exact result of a refused request, and a classification
   of the effect of every accepted request (hnr_effect / raw_effect), from which the per-step and
   per-trace statements of C03 and C04 are derived (ServerAuthSteps.v). *)
From Coq Require Import List NArith ZArith Arith Bool Lia.
From RecordUpdate Require Import RecordUpdate.
From Iodine Require Import Generated.SrcConsts Base Codec Hostname DnsName DnsMsg Domain Server ServerFrame ServerAuthDefs.
Import ListNotations.
Local Open Scope N_scope.

(* ---- the access checks -------------------------------------------------------------------------- *)

Lemma in_range_iff st uz : in_range st uz = true <-> (0 <= uz)%Z /\ (Z.to_nat uz < length st)%nat.
Proof.
  unfold in_range. rewrite andb_true_iff, Z.leb_le, Nat.ltb_lt. reflexivity.
Qed.

(* the slot exists, is in use, not disabled, and heard from within the last 60 s (boundary included) *)
Definition slot_ok (st : sstate) (now : N) (i : nat) : Prop :=
  (i < length st)%nat /\ u_active (getu st i) = true /\ u_disabled (getu st i) = false /\
  (u_last (getu st i) + TIMEOUT <? now) = false.

(* with source checking on: same family, IPv4 or IPv6, same address (the port is not compared) *)
Definition source_ok (c : cfg) (u : suser) (from : addr) : Prop :=
  c_check_ip c = true ->
  a_fam from = a_fam (u_host u) /\ (a_fam from = AF_INET \/ a_fam from = AF_INET6) /\ a_ip from = a_ip (u_host u).

Lemma cuip_false c st now uz from : check_user_and_ip c st now uz from = false <->
  (0 <= uz)%Z /\ slot_ok st now (Z.to_nat uz) /\ source_ok c (getu st (Z.to_nat uz)) from.
Proof.
  unfold check_user_and_ip, slot_ok, source_ok. cbv zeta.
  destruct (in_range st uz) eqn:Er; simpl negb; cbv iota.
  2: { split; [discriminate|]. intros (H0 & (Hl & _) & _).
       assert (in_range st uz = true) by (apply in_range_iff; split; assumption). congruence. }
  apply in_range_iff in Er. destruct Er as [E0 El].
  set (u := getu st (Z.to_nat uz)).
  destruct (u_active u) eqn:Ea; simpl.
  2: { split; [discriminate|]. intros (_ & (_ & H & _) & _). discriminate. }
  destruct (u_disabled u) eqn:Ed; simpl.
  1: { split; [discriminate|]. intros (_ & (_ & _ & H & _) & _). discriminate. }
  destruct (u_last u + TIMEOUT <? now) eqn:Et.
  1: { split; [discriminate|]. intros (_ & (_ & _ & _ & H) & _). discriminate. }
  destruct (c_check_ip c) eqn:Ec; simpl.
  2: { split; [|reflexivity]. intros _. repeat split; auto; discriminate. }
  destruct (a_fam from =? a_fam (u_host u)) eqn:Ef; simpl.
  2: { split; [discriminate|]. intros (_ & _ & Hs). destruct (Hs eq_refl) as (Hf & _).
       apply N.eqb_neq in Ef. contradiction. }
  apply N.eqb_eq in Ef.
  destruct ((a_fam from =? AF_INET) || (a_fam from =? AF_INET6)) eqn:Ek.
  - rewrite negb_false_iff, list_eqb_eq. split.
    + intros Hip. repeat split; auto.
      apply orb_true_iff in Ek. destruct Ek as [Ek|Ek]; apply N.eqb_eq in Ek; auto.
    + intros (_ & _ & Hs). apply Hs; reflexivity.
  - split; [discriminate|]. intros (_ & _ & Hs). destruct (Hs eq_refl) as (_ & Hk & _).
    apply orb_false_iff in Ek. destruct Ek as [E1 E2]. apply N.eqb_neq in E1, E2. tauto.
Qed.

Lemma check_auth_false c st now uz from : check_auth c st now uz from = false <->
  check_user_and_ip c st now uz from = false /\ u_auth (getu st (Z.to_nat uz)) = true.
Proof.
  unfold check_auth. destruct (check_user_and_ip c st now uz from).
  - split; [discriminate|intros [H _]; discriminate].
  - rewrite negb_false_iff. tauto.
Qed.

Lemma check_auth_options_false c st now uz from : check_auth_options c st now uz from = false ->
  check_auth c st now uz from = false.
Proof.
  unfold check_auth_options. cbv zeta. destruct (check_auth c st now uz from); simpl; [|reflexivity].
  intros H; exact H.
Qed.

Lemma check_auth_options_false_iff c st now uz from : check_auth_options c st now uz from = false <->
  check_auth c st now uz from = false /\ (c_check_ip c = false -> u_locked (getu st (Z.to_nat uz)) = false).
Proof.
  unfold check_auth_options. cbv zeta. destruct (check_auth c st now uz from); simpl.
  - split; [discriminate|intros [H _]; discriminate].
  - destruct (c_check_ip c).
    + split; [intros _; split; [reflexivity|discriminate]|reflexivity].
    + split; [intros H; split; [reflexivity|intros _; exact H]|intros [_ H]; apply H; reflexivity].
Qed.

(* a refusal by the basic check is a refusal by every stronger one *)
Lemma cuip_true_cmd_check c st now k uz from : k <> CV -> k <> CZ -> k <> CY -> k <> COther ->
  check_user_and_ip c st now uz from = true -> cmd_check c st now k uz from = true.
Proof.
  intros H1 H2 H3 H4 H. unfold cmd_check, check_auth_options, check_auth. rewrite H.
  destruct k; try reflexivity; congruence.
Qed.

Lemma cmd_check_false_cuip c st now k uz from : k <> CV -> k <> CZ -> k <> CY -> k <> COther ->
  cmd_check c st now k uz from = false -> check_user_and_ip c st now uz from = false.
Proof.
  intros H1 H2 H3 H4 H. destruct (check_user_and_ip c st now uz from) eqn:E; [|reflexivity].
  rewrite (cuip_true_cmd_check c st now k uz from H1 H2 H3 H4 E) in H. discriminate.
Qed.

(* every command but L insists on a completed login *)
Lemma cmd_check_false_auth c st now k uz from : k <> CV -> k <> CZ -> k <> CY -> k <> COther -> k <> CL ->
  cmd_check c st now k uz from = false -> u_auth (getu st (Z.to_nat uz)) = true.
Proof.
  intros H1 H2 H3 H4 H5 H. destruct k; try congruence; simpl in H;
    try apply check_auth_options_false in H; apply check_auth_false in H; tauto.
Qed.

(* when the basic check refuses *)
Lemma cuip_out_of_range c st now uz from : in_range st uz = false -> check_user_and_ip c st now uz from = true.
Proof. intros H. unfold check_user_and_ip. rewrite H. reflexivity. Qed.

Lemma cuip_negative c st now uz from : (uz < 0)%Z -> check_user_and_ip c st now uz from = true.
Proof.
  intros H. apply cuip_out_of_range. unfold in_range. destruct (0 <=? uz)%Z eqn:E; [apply Z.leb_le in E; lia|reflexivity].
Qed.

Lemma schar_negative b : 128 <= b < 256 -> (schar b < 0)%Z.
Proof. intros H. unfold schar. destruct (b <? 128) eqn:E; [apply N.ltb_lt in E; lia|lia]. Qed.

Lemma cuip_expired c st now uz from :
  (u_last (getu st (Z.to_nat uz)) + TIMEOUT <? now) = true -> check_user_and_ip c st now uz from = true.
Proof.
  intros H. destruct (check_user_and_ip c st now uz from) eqn:E; [reflexivity|].
  apply cuip_false in E. destruct E as (_ & (_ & _ & _ & E) & _). congruence.
Qed.

Lemma cuip_inactive c st now uz from :
  u_active (getu st (Z.to_nat uz)) = false \/ u_disabled (getu st (Z.to_nat uz)) = true ->
  check_user_and_ip c st now uz from = true.
Proof.
  intros H. destruct (check_user_and_ip c st now uz from) eqn:E; [reflexivity|].
  apply cuip_false in E. destruct E as (_ & (_ & E1 & E2 & _) & _). destruct H; congruence.
Qed.

Lemma cuip_foreign c st now uz from : c_check_ip c = true ->
  a_fam from <> a_fam (u_host (getu st (Z.to_nat uz))) \/ a_ip from <> a_ip (u_host (getu st (Z.to_nat uz))) ->
  check_user_and_ip c st now uz from = true.
Proof.
  intros Hc H. destruct (check_user_and_ip c st now uz from) eqn:E; [reflexivity|].
  apply cuip_false in E. destruct E as (_ & _ & E). destruct (E Hc) as (E1 & _ & E2). tauto.
Qed.

(* ---- find_available_user ---------------------------------------------------------------------------- *)

Definition avail (now : N) (u : suser) : bool :=
  (negb (u_active u) || (u_last u + src_USER_TIMEOUT_AVAIL <? now)) && negb (u_disabled u).

Lemma faf_spec st now : forall i0,
  match find_available_from st now i0 with
  | Some t => (i0 <= t < i0 + length st)%nat /\ avail now (getu st (t - i0)) = true /\
              forall j, (j < t - i0)%nat -> avail now (getu st j) = false
  | None => forall j, (j < length st)%nat -> avail now (getu st j) = false
  end.
Proof.
  induction st as [|u st IH]; intros i0; simpl.
  - intros j Hj. lia.
  - fold (avail now u). destruct (avail now u) eqn:E.
    + rewrite Nat.sub_diag. split; [lia|]. split; [exact E|]. intros j Hj. lia.
    + specialize (IH (S i0)). destruct (find_available_from st now (S i0)) as [t|].
      * destruct IH as (Hr & Ht & Hm). split; [lia|].
        replace (t - i0)%nat with (S (t - S i0)) by lia. split; [exact Ht|].
        intros [|j] Hj; [exact E|]. apply Hm. lia.
      * intros [|j] Hj; [exact E|]. apply IH. lia.
Qed.

Lemma faf_some st now t : find_available_from st now 0 = Some t ->
  (t < length st)%nat /\ avail now (getu st t) = true /\ forall j, (j < t)%nat -> avail now (getu st j) = false.
Proof.
  intros H. pose proof (faf_spec st now O) as S. rewrite H in S. rewrite Nat.sub_0_r in S.
  destruct S as (A & B & C). split; [lia|]. split; assumption.
Qed.

Lemma faf_none st now : find_available_from st now 0 = None ->
  forall j, (j < length st)%nat -> avail now (getu st j) = false.
Proof. intros H. pose proof (faf_spec st now O) as S. rewrite H in S. exact S. Qed.

Lemma faf_first st now t : (t < length st)%nat -> avail now (getu st t) = true ->
  (forall j, (j < t)%nat -> avail now (getu st j) = false) -> find_available_from st now 0 = Some t.
Proof.
  intros Ht Ha Hm. destruct (find_available_from st now 0) as [t'|] eqn:E.
  - destruct (faf_some _ _ _ E) as (A & B & C).
    destruct (Nat.lt_trichotomy t t') as [L|[L|L]]; [rewrite (C t L) in Ha; discriminate|subst; reflexivity|].
    rewrite (Hm t' L) in B. discriminate.
  - rewrite (faf_none _ _ E t Ht) in Ha. discriminate.
Qed.

(* ---- effect of a DNS-mode request -------------------------------------------------------------------- *)

(* the fields no option command may touch *)
Definition ident (u : suser) :=
  (u_active u, u_auth u, u_auth_raw u, u_disabled u, u_seed u, u_tun_ip u, u_host u, u_conn u, u_last u).

Definition is_option_cmd (k : cmd) : Prop := k = CS \/ k = CO \/ k = CN.

Lemma ans1 q x d : Forall is_ans [mk_answer q x d].
Proof. repeat constructor. Qed.

Section WithOracles.
Variable login : list N -> N -> list N.
Variable zc : list N -> list N.
Variable unz : list N -> option (list N).

Definition login_hash_ok (c : cfg) (st : sstate) (q : hq) (dl : nat) (i : nat) : Prop :=
  (18 <= length (req_unpacked q dl))%nat /\
  firstn 16 (skipn 1 (req_unpacked q dl)) = login (c_password c) (u_seed (getu st i)).

Definition set_login (now : N) (u : suser) : suser := u <| u_last := now |> <| u_auth := true |>.
Definition touch (now : N) (u : suser) : suser := u <| u_last := now |>.

Inductive hnr_effect (c : cfg) (st : sstate) (now rnd : N) (q : hq) (dl : nat) : sstate -> list out -> Prop :=
| HE_none outs : Forall is_ans outs -> hnr_effect c st now rnd q dl st outs
| HE_alloc i :
    (2 <= dl)%nat ->
    cmd_of (chr (req_inb q dl) 0) = CV -> version_of (req_unpacked q dl) = src_PROTOCOL_VERSION ->
    find_available_from st now 0 = Some i ->
    hnr_effect c st now rnd q dl
      (upd st i (fun u => reset_session (claim now u) q (rnd mod 2147483648)))
      [mk_answer q (vack (rnd mod 2147483648) i) 84]
| HE_login_fail i :
    (2 <= dl)%nat ->
    cmd_of (chr (req_inb q dl) 0) = CL -> named_user q dl = Some (Z.of_nat i) -> precheck q dl = None ->
    check_user_and_ip c st now (Z.of_nat i) (h_from q) = false ->
    ~ login_hash_ok c st q dl i ->
    hnr_effect c st now rnd q dl (upd st i (touch now)) [mk_answer q s_LNAK 84]
| HE_login_ok i :
    (2 <= dl)%nat ->
    cmd_of (chr (req_inb q dl) 0) = CL -> named_user q dl = Some (Z.of_nat i) -> precheck q dl = None ->
    check_user_and_ip c st now (Z.of_nat i) (h_from q) = false ->
    login_hash_ok c st q dl i ->
    hnr_effect c st now rnd q dl (upd st i (set_login now))
      [mk_answer q (login_reply c (getu st i)) (u_downenc (getu st i))]
| HE_option i f outs :
    (2 <= dl)%nat ->
    is_option_cmd (cmd_of (chr (req_inb q dl) 0)) -> named_user q dl = Some (Z.of_nat i) -> precheck q dl = None ->
    check_auth_options c st now (Z.of_nat i) (h_from q) = false ->
    (forall u, ident (f u) = ident u) -> Forall is_ans outs ->
    hnr_effect c st now rnd q dl (upd st i f) outs
| HE_ping i st' outs :
    (2 <= dl)%nat ->
    cmd_of (chr (req_inb q dl) 0) = CP -> named_user q dl = Some (Z.of_nat i) -> precheck q dl = None ->
    check_auth c st now (Z.of_nat i) (h_from q) = false ->
    sec_same st st' -> Forall is_ans outs -> (forall j, j <> i -> getu st' j = getu st j) ->
    hnr_effect c st now rnd q dl st' outs
| HE_data i st' outs :
    (2 <= dl)%nat ->
    cmd_of (chr (req_inb q dl) 0) = CData -> named_user q dl = Some (Z.of_nat i) -> precheck q dl = None ->
    check_auth c st now (Z.of_nat i) (h_from q) = false ->
    sec_same st st' ->
    hnr_effect c st now rnd q dl st' outs.

Lemma named_of k q dl : cmd_of (chr (req_inb q dl) 0) = k ->
  named_user q dl =
  match k with
  | CL | CN | CP => Some (schar (chr (req_unpacked q dl) 0))
  | CI | CS | CO => Some (Z.of_N (b32_8to5 (chr (req_inb q dl) 1)))
  | CR => Some (Z.of_N ((b32_8to5 (chr (req_inb q dl) 1) / 2) mod 16))
  | CData => Some (Z.of_N (hexcode (chr (req_inb q dl) 0)))
  | _ => None
  end.
Proof. intros H. unfold named_user. cbv zeta. rewrite H. reflexivity. Qed.

Lemma precheck_of k q dl : cmd_of (chr (req_inb q dl) 0) = k ->
  precheck q dl =
  match k with
  | CL => if (length (req_unpacked q dl) <? 17)%nat then Some [mk_answer q s_BADLEN 84] else None
  | CS | CO => if (dl <? 3)%nat then Some [mk_answer q s_BADLEN 84] else None
  | CR => if (dl <? 16)%nat then Some [mk_answer q s_BADLEN 84] else None
  | CN => if (length (req_unpacked q dl) <? 3)%nat then Some [mk_answer q s_BADLEN 84] else None
  | CP => if h_id q =? 0 then Some [] else if (length (req_unpacked q dl) <? 4)%nat then Some [] else None
  | CData => if (dl <? 6)%nat then Some [] else if h_id q =? 0 then Some [] else None
  | _ => None
  end.
Proof. intros H. unfold precheck. cbv zeta. rewrite H. reflexivity. Qed.

Lemma cuip_nonneg c st now uz from : check_user_and_ip c st now uz from = false ->
  Z.of_nat (Z.to_nat uz) = uz /\ (Z.to_nat uz < length st)%nat.
Proof.
  intros H. apply cuip_false in H. destruct H as (H0 & (Hl & _) & _). split; [apply Z2Nat.id, H0|exact Hl].
Qed.

(* -- the exact result of a request that is refused, or returns before the check *)

Definition refusal (p : option (list out)) (q : hq) : list out :=
  match p with Some o => o | None => [mk_answer q s_BADIP 84] end.

Lemma hL_refused c st now q unp : check_user_and_ip c st now (schar (chr unp 0)) (h_from q) = true ->
  hL login c st now q unp =
  (st, refusal (if (length unp <? 17)%nat then Some [mk_answer q s_BADLEN 84] else None) q).
Proof. intros Hc. unfold hL. cbv zeta. destruct (_ <? 17)%nat; [reflexivity|]. rewrite Hc. reflexivity. Qed.

Lemma hI_refused c st now q inb : check_auth c st now (Z.of_N (b32_8to5 (chr inb 1))) (h_from q) = true ->
  hI c st now q inb = (st, [mk_answer q s_BADIP 84]).
Proof. intros Hc. unfold hI. cbv zeta. rewrite Hc. reflexivity. Qed.

Lemma hS_refused c st now q inb dl :
  check_auth_options c st now (Z.of_N (b32_8to5 (chr inb 1))) (h_from q) = true ->
  hS c st now q inb dl = (st, refusal (if (dl <? 3)%nat then Some [mk_answer q s_BADLEN 84] else None) q).
Proof. intros Hc. unfold hS. cbv zeta. destruct (dl <? 3)%nat; [reflexivity|]. rewrite Hc. reflexivity. Qed.

Lemma hO_refused c st now q inb dl :
  check_auth_options c st now (Z.of_N (b32_8to5 (chr inb 1))) (h_from q) = true ->
  hO c st now q inb dl = (st, refusal (if (dl <? 3)%nat then Some [mk_answer q s_BADLEN 84] else None) q).
Proof. intros Hc. unfold hO. cbv zeta. destruct (dl <? 3)%nat; [reflexivity|]. rewrite Hc. reflexivity. Qed.

Lemma hR_refused c st now rnd q inb dl :
  check_auth c st now (Z.of_N ((b32_8to5 (chr inb 1) / 2) mod 16)) (h_from q) = true ->
  hR c st now rnd q inb dl = (st, refusal (if (dl <? 16)%nat then Some [mk_answer q s_BADLEN 84] else None) q).
Proof. intros Hc. unfold hR. cbv zeta. destruct (dl <? 16)%nat; [reflexivity|]. rewrite Hc. reflexivity. Qed.

Lemma hN_refused c st now q unp : check_auth_options c st now (schar (chr unp 0)) (h_from q) = true ->
  hN c st now q unp = (st, refusal (if (length unp <? 3)%nat then Some [mk_answer q s_BADLEN 84] else None) q).
Proof. intros Hc. unfold hN. cbv zeta. destruct (_ <? 3)%nat; [reflexivity|]. rewrite Hc. reflexivity. Qed.

Lemma hP_refused c st now q unp : check_auth c st now (schar (chr unp 0)) (h_from q) = true ->
  hP c st now q unp =
  (st, refusal (if h_id q =? 0 then Some [] else if (length unp <? 4)%nat then Some [] else None) q).
Proof.
  intros Hc. unfold hP. destruct (h_id q =? 0); [reflexivity|]. destruct (_ <? 4)%nat; [reflexivity|].
  apply handle_ping_refused, Hc.
Qed.

Lemma hD_refused c st now q inb dl : check_auth c st now (Z.of_N (hexcode (chr inb 0))) (h_from q) = true ->
  hD unz c st now q inb dl =
  (st, refusal (if (dl <? 6)%nat then Some [] else if h_id q =? 0 then Some [] else None) q).
Proof.
  intros Hc. unfold hD. destruct (dl <? 6)%nat; [reflexivity|]. destruct (h_id q =? 0); [reflexivity|].
  apply handle_data_refused. exact Hc.
Qed.

Theorem hnr_refused c st now rnd q dl uz : (2 <= dl)%nat ->
  named_user q dl = Some uz ->
  cmd_check c st now (cmd_of (chr (req_inb q dl) 0)) uz (h_from q) = true ->
  handle_null_request login unz c st now rnd q dl = (st, refusal (precheck q dl) q).
Proof.
  intros Hdl. rewrite hnr_eq. unfold hnr', named_user, precheck.
  destruct (dl <? 2)%nat eqn:E; [apply Nat.ltb_lt in E; lia|]. cbv zeta.
  destruct (cmd_of (chr (req_inb q dl) 0)); unfold cmd_check; intros Hn Hc; try discriminate;
    injection Hn as <-.
  - apply hL_refused, Hc.
  - apply hI_refused, Hc.
  - apply hS_refused, Hc.
  - apply hO_refused, Hc.
  - apply hR_refused, Hc.
  - apply hN_refused, Hc.
  - apply hP_refused, Hc.
  - apply hD_refused, Hc.
Qed.

Lemma refusal_some o q : refusal (Some o) q = o.
Proof. reflexivity. Qed.

Theorem hnr_precheck c st now rnd q dl o : (2 <= dl)%nat -> precheck q dl = Some o ->
  handle_null_request login unz c st now rnd q dl = (st, o).
Proof.
  intros Hdl. rewrite hnr_eq. unfold hnr', precheck.
  destruct (dl <? 2)%nat eqn:E; [apply Nat.ltb_lt in E; lia|]. cbv zeta.
  destruct (cmd_of (chr (req_inb q dl) 0)); intros Hp; try discriminate.
  - unfold hL. cbv zeta. destruct (_ <? 17)%nat; [inversion Hp; reflexivity|discriminate].
  - unfold hS. cbv zeta. destruct (dl <? 3)%nat; [inversion Hp; reflexivity|discriminate].
  - unfold hO. cbv zeta. destruct (dl <? 3)%nat; [inversion Hp; reflexivity|discriminate].
  - unfold hR. cbv zeta. destruct (dl <? 16)%nat; [inversion Hp; reflexivity|discriminate].
  - unfold hN. cbv zeta. destruct (_ <? 3)%nat; [inversion Hp; reflexivity|discriminate].
  - unfold hP. destruct (h_id q =? 0); [inversion Hp; reflexivity|].
    destruct (_ <? 4)%nat; [inversion Hp; reflexivity|discriminate].
  - unfold hD. destruct (dl <? 6)%nat; [inversion Hp; reflexivity|].
    destruct (h_id q =? 0); [inversion Hp; reflexivity|discriminate].
Qed.

(* -- classification of every result *)

Lemma hV_effect c st now rnd q dl st' outs : (2 <= dl)%nat -> cmd_of (chr (req_inb q dl) 0) = CV ->
  hV st now rnd q (req_unpacked q dl) = (st', outs) -> hnr_effect c st now rnd q dl st' outs.
Proof.
  intros Hdl Ek. unfold hV. cbv zeta.
  destruct (version_of (req_unpacked q dl) =? src_PROTOCOL_VERSION) eqn:Ev.
  - apply N.eqb_eq in Ev. destruct (find_available_from st now 0) as [i|] eqn:Ef.
    + intros H; inversion H; subst. apply HE_alloc; assumption.
    + intros H; inversion H; subst. apply HE_none, ans1.
  - intros H; inversion H; subst. apply HE_none, ans1.
Qed.

Lemma hL_effect c st now rnd q dl st' outs : (2 <= dl)%nat -> cmd_of (chr (req_inb q dl) 0) = CL ->
  hL login c st now q (req_unpacked q dl) = (st', outs) -> hnr_effect c st now rnd q dl st' outs.
Proof.
  intros Hdl Ek. unfold hL. cbv zeta.
  pose proof (named_of _ _ _ Ek) as Hn. pose proof (precheck_of _ _ _ Ek) as Hp. cbv iota in Hn, Hp.
  destruct (length (req_unpacked q dl) <? 17)%nat eqn:E17.
  { intros H; inversion H; subst. apply HE_none, ans1. }
  set (uz := schar (chr (req_unpacked q dl) 0)) in *.
  destruct (check_user_and_ip c st now uz (h_from q)) eqn:Ec.
  { intros H; inversion H; subst. apply HE_none, ans1. }
  destruct (cuip_nonneg _ _ _ _ _ Ec) as [Hz Hl]. set (i := Z.to_nat uz) in *.
  rewrite <- Hz in Hn, Ec.
  assert (Hg : getu (upd st i (fun u => u <| u_last := now |>)) i = touch now (getu st i))
    by (apply getu_upd_same, Hl).
  rewrite Hg. change (u_seed (touch now (getu st i))) with (u_seed (getu st i)).
  change (u_downenc (touch now (getu st i))) with (u_downenc (getu st i)).
  change (login_reply c (touch now (getu st i))) with (login_reply c (getu st i)).
  destruct ((18 <=? length (req_unpacked q dl))%nat &&
            list_eqb (login (c_password c) (u_seed (getu st i))) (firstn 16 (skipn 1 (req_unpacked q dl)))) eqn:Eh.
  - intros H; inversion H; subst. rewrite upd_upd.
    apply andb_true_iff in Eh. destruct Eh as [E18 Eh]. apply Nat.leb_le in E18. apply list_eqb_eq in Eh.
    apply (HE_login_ok c st now rnd q dl i); try assumption. split; [exact E18|symmetry; exact Eh].
  - intros H; inversion H; subst.
    apply (HE_login_fail c st now rnd q dl i); try assumption. intros [E18 Eh'].
    apply andb_false_iff in Eh. destruct Eh as [Eh|Eh].
    + apply Nat.leb_gt in Eh. lia.
    + rewrite <- Eh' in Eh. rewrite list_eqb_refl in Eh. discriminate.
Qed.

Lemma hI_effect c st now rnd q dl st' outs :
  hI c st now q (req_inb q dl) = (st', outs) -> hnr_effect c st now rnd q dl st' outs.
Proof.
  unfold hI. cbv zeta. destruct (check_auth _ _ _ _ _); intros H; inversion H; subst; apply HE_none, ans1.
Qed.

Lemma hY_effect c st now rnd q dl st' outs :
  hY st q (req_inb q dl) dl = (st', outs) -> hnr_effect c st now rnd q dl st' outs.
Proof.
  unfold hY. cbv zeta.
  repeat (match goal with |- context [if ?cnd then _ else _] => destruct cnd end;
          [intros H; inversion H; subst; apply HE_none, ans1|]).
  intros H; inversion H; subst; apply HE_none, ans1.
Qed.

Lemma hR_effect c st now rnd q dl st' outs :
  hR c st now rnd q (req_inb q dl) dl = (st', outs) -> hnr_effect c st now rnd q dl st' outs.
Proof.
  unfold hR. cbv zeta.
  repeat (match goal with |- context [if ?cnd then _ else _] => destruct cnd end;
          [intros H; inversion H; subst; apply HE_none, ans1|]).
  intros H; inversion H; subst; apply HE_none, ans1.
Qed.

Lemma hS_effect c st now rnd q dl st' outs : (2 <= dl)%nat -> cmd_of (chr (req_inb q dl) 0) = CS ->
  hS c st now q (req_inb q dl) dl = (st', outs) -> hnr_effect c st now rnd q dl st' outs.
Proof.
  intros Hdl Ek. unfold hS. cbv zeta.
  pose proof (named_of _ _ _ Ek) as Hn. pose proof (precheck_of _ _ _ Ek) as Hp. cbv iota in Hn, Hp.
  destruct (dl <? 3)%nat. { intros H; inversion H; subst. apply HE_none, ans1. }
  set (uz := Z.of_N (b32_8to5 (chr (req_inb q dl) 1))) in *.
  destruct (check_auth_options c st now uz (h_from q)) eqn:Ec.
  { intros H; inversion H; subst. apply HE_none, ans1. }
  pose proof (check_auth_options_false _ _ _ _ _ Ec) as Ea. apply check_auth_false in Ea. destruct Ea as [Ea _].
  destruct (cuip_nonneg _ _ _ _ _ Ea) as [Hz Hl]. set (i := Z.to_nat uz) in *. rewrite <- Hz in Hn, Ec.
  assert (Ho : is_option_cmd (cmd_of (chr (req_inb q dl) 0))) by (rewrite Ek; left; reflexivity).
  repeat (match goal with |- context [if ?cnd then _ else _] => destruct cnd end;
          [intros H; inversion H; subst; apply (HE_option c st now rnd q dl i); try assumption;
           [intros; reflexivity|apply ans1]|]).
  intros H; inversion H; subst. apply HE_none, ans1.
Qed.

Lemma hO_effect c st now rnd q dl st' outs : (2 <= dl)%nat -> cmd_of (chr (req_inb q dl) 0) = CO ->
  hO c st now q (req_inb q dl) dl = (st', outs) -> hnr_effect c st now rnd q dl st' outs.
Proof.
  intros Hdl Ek. unfold hO. cbv zeta.
  pose proof (named_of _ _ _ Ek) as Hn. pose proof (precheck_of _ _ _ Ek) as Hp. cbv iota in Hn, Hp.
  destruct (dl <? 3)%nat. { intros H; inversion H; subst. apply HE_none, ans1. }
  set (uz := Z.of_N (b32_8to5 (chr (req_inb q dl) 1))) in *.
  destruct (check_auth_options c st now uz (h_from q)) eqn:Ec.
  { intros H; inversion H; subst. apply HE_none, ans1. }
  pose proof (check_auth_options_false _ _ _ _ _ Ec) as Ea. apply check_auth_false in Ea. destruct Ea as [Ea _].
  destruct (cuip_nonneg _ _ _ _ _ Ea) as [Hz Hl]. set (i := Z.to_nat uz) in *. rewrite <- Hz in Hn, Ec.
  assert (Ho : is_option_cmd (cmd_of (chr (req_inb q dl) 0))) by (rewrite Ek; right; left; reflexivity).
  repeat (match goal with |- context [if ?cnd then _ else _] => destruct cnd end;
          [intros H; inversion H; subst; apply (HE_option c st now rnd q dl i); try assumption;
           [intros; reflexivity|apply ans1]|]).
  intros H; inversion H; subst. apply HE_none, ans1.
Qed.

Lemma hN_effect c st now rnd q dl st' outs : (2 <= dl)%nat -> cmd_of (chr (req_inb q dl) 0) = CN ->
  hN c st now q (req_unpacked q dl) = (st', outs) -> hnr_effect c st now rnd q dl st' outs.
Proof.
  intros Hdl Ek. unfold hN. cbv zeta.
  pose proof (named_of _ _ _ Ek) as Hn. pose proof (precheck_of _ _ _ Ek) as Hp. cbv iota in Hn, Hp.
  destruct (length (req_unpacked q dl) <? 3)%nat. { intros H; inversion H; subst. apply HE_none, ans1. }
  set (uz := schar (chr (req_unpacked q dl) 0)) in *.
  destruct (check_auth_options c st now uz (h_from q)) eqn:Ec.
  { intros H; inversion H; subst. apply HE_none, ans1. }
  pose proof (check_auth_options_false _ _ _ _ _ Ec) as Ea. apply check_auth_false in Ea. destruct Ea as [Ea _].
  destruct (cuip_nonneg _ _ _ _ _ Ea) as [Hz Hl]. set (i := Z.to_nat uz) in *. rewrite <- Hz in Hn, Ec.
  assert (Ho : is_option_cmd (cmd_of (chr (req_inb q dl) 0))) by (rewrite Ek; right; right; reflexivity).
  destruct (_ <? 2). { intros H; inversion H; subst. apply HE_none, ans1. }
  intros H; inversion H; subst. apply (HE_option c st now rnd q dl i); try assumption;
    [intros; reflexivity|apply ans1].
Qed.

Lemma hP_effect c st now rnd q dl st' outs : (2 <= dl)%nat -> cmd_of (chr (req_inb q dl) 0) = CP ->
  hP c st now q (req_unpacked q dl) = (st', outs) -> hnr_effect c st now rnd q dl st' outs.
Proof.
  intros Hdl Ek. unfold hP.
  pose proof (named_of _ _ _ Ek) as Hn. pose proof (precheck_of _ _ _ Ek) as Hp. cbv iota in Hn, Hp.
  destruct (h_id q =? 0). { intros H; inversion H; subst. apply HE_none. constructor. }
  destruct (_ <? 4)%nat. { intros H; inversion H; subst. apply HE_none. constructor. }
  set (uz := schar (chr (req_unpacked q dl) 0)) in *.
  destruct (check_auth c st now uz (h_from q)) eqn:Ec.
  { rewrite handle_ping_refused by exact Ec. intros H; inversion H; subst. apply HE_none, ans1. }
  pose proof Ec as Ea. apply check_auth_false in Ea. destruct Ea as [Ea _].
  destruct (cuip_nonneg _ _ _ _ _ Ea) as [Hz Hl]. set (i := Z.to_nat uz) in *. rewrite <- Hz in Hn, Ec.
  intros H. apply handle_ping_spec in H. destruct H as (SS & Ha & Ho).
  apply (HE_ping c st now rnd q dl i); assumption.
Qed.

Lemma hD_effect c st now rnd q dl st' outs : (2 <= dl)%nat -> cmd_of (chr (req_inb q dl) 0) = CData ->
  hD unz c st now q (req_inb q dl) dl = (st', outs) -> hnr_effect c st now rnd q dl st' outs.
Proof.
  intros Hdl Ek. unfold hD.
  pose proof (named_of _ _ _ Ek) as Hn. pose proof (precheck_of _ _ _ Ek) as Hp. cbv iota in Hn, Hp.
  destruct (dl <? 6)%nat. { intros H; inversion H; subst. apply HE_none. constructor. }
  destruct (h_id q =? 0). { intros H; inversion H; subst. apply HE_none. constructor. }
  set (uz := Z.of_N (hexcode (chr (req_inb q dl) 0))) in *.
  destruct (check_auth c st now uz (h_from q)) eqn:Ec.
  { rewrite handle_data_refused by exact Ec. intros H; inversion H; subst. apply HE_none, ans1. }
  pose proof Ec as Ea. apply check_auth_false in Ea. destruct Ea as [Ea _].
  destruct (cuip_nonneg _ _ _ _ _ Ea) as [Hz Hl]. set (i := Z.to_nat uz) in *. rewrite <- Hz in Hn, Ec.
  intros H. apply handle_data_spec in H.
  apply (HE_data c st now rnd q dl i); assumption.
Qed.

Theorem hnr_effect_spec c st now rnd q dl st' outs :
  handle_null_request login unz c st now rnd q dl = (st', outs) -> hnr_effect c st now rnd q dl st' outs.
Proof.
  rewrite hnr_eq. unfold hnr'.
  destruct (dl <? 2)%nat eqn:E2. { intros H; inversion H; subst. apply HE_none. constructor. }
  apply Nat.ltb_ge in E2.
  cbv zeta. destruct (cmd_of (chr (req_inb q dl) 0)) eqn:Ek.
  - apply hV_effect; assumption.
  - apply hL_effect; assumption.
  - apply hI_effect.
  - intros H; inversion H; subst. apply HE_none, ans1.
  - apply hS_effect; assumption.
  - apply hO_effect; assumption.
  - apply hY_effect.
  - apply hR_effect.
  - apply hN_effect; assumption.
  - apply hP_effect; assumption.
  - apply hD_effect; assumption.
  - intros H; inversion H; subst. apply HE_none. constructor.
Qed.

(* ---- effect of a raw-mode frame -------------------------------------------------------------------------- *)

Definition raw_hdr (pk : list N) (cmdv : N) (i : nat) : Prop :=
  (4 <= length pk)%nat /\ firstn 3 pk = firstn 3 src_raw_header /\
  N.land (chr pk 3) src_RAW_HDR_CMD_MASK = cmdv /\ N.to_nat (N.land (chr pk 3) src_RAW_HDR_USR_MASK) = i.

Definition raw_q (from : addr) : hq := hq0 <| h_from := from |>.

Definition raw_login_ok (c : cfg) (st : sstate) (now : N) (pk : list N) (i : nat) : Prop :=
  (16 <= length (skipn 4 pk))%nat /\ slot_ok st now i /\ u_auth (getu st i) = true /\
  firstn 16 (skipn 4 pk) = login (c_password c) (wrap32 (Z.of_N (u_seed (getu st i)) + 1)).

Definition set_raw (now : N) (from : addr) (x : suser) : suser :=
  x <| u_last := now |> <| u_q := raw_q from |> <| u_host := from |> <| u_conn := CONN_RAW |> <| u_auth_raw := true |>.

Inductive raw_effect (c : cfg) (st : sstate) (now : N) (from : addr) (pk : list N) : sstate -> list out -> Prop :=
| RE_none : raw_effect c st now from pk st []
| RE_login i :
    raw_hdr pk src_RAW_HDR_CMD_LOGIN i -> raw_login_ok c st now pk i ->
    raw_effect c st now from pk (upd st i (set_raw now from))
      [ORaw from (raw_frame src_RAW_HDR_CMD_LOGIN i (login (c_password c) (wrap32 (Z.of_N (u_seed (getu st i)) - 1))))]
| RE_data i st' outs :
    raw_hdr pk src_RAW_HDR_CMD_DATA i ->
    check_auth c st now (Z.of_nat i) from = false -> u_auth_raw (getu st i) = true ->
    sec_same st st' ->
    raw_effect c st now from pk st' outs
| RE_ping i :
    raw_hdr pk src_RAW_HDR_CMD_PING i ->
    check_auth c st now (Z.of_nat i) from = false -> u_auth_raw (getu st i) = true ->
    raw_effect c st now from pk (upd st i (fun x => x <| u_last := now |> <| u_q := raw_q from |>))
      [ORaw from (raw_frame src_RAW_HDR_CMD_PING i [])].

Theorem raw_effect_spec c st now from pk st' outs :
  raw_decode login unz c st now pk from = Some (st', outs) -> raw_effect c st now from pk st' outs.
Proof.
  unfold raw_decode. destruct (length pk <? 4)%nat eqn:E4; [discriminate|].
  destruct (negb (list_eqb (firstn 3 pk) (firstn 3 src_raw_header))) eqn:Eh; [discriminate|].
  apply negb_false_iff, list_eqb_eq in Eh. apply Nat.ltb_ge in E4. cbv zeta.
  set (i := N.to_nat (N.land (chr pk 3) src_RAW_HDR_USR_MASK)).
  fold (raw_q from).
  assert (Hh : forall v, N.land (chr pk 3) src_RAW_HDR_CMD_MASK = v -> raw_hdr pk v i)
    by (intros v Hv; repeat split; assumption).
  destruct (N.land (chr pk 3) src_RAW_HDR_CMD_MASK =? src_RAW_HDR_CMD_LOGIN) eqn:E1.
  { apply N.eqb_eq in E1. unfold handle_raw_login.
    destruct (length (skipn 4 pk) <? 16)%nat eqn:E16; [intros H; inversion H; apply RE_none|].
    destruct (length st <=? i)%nat eqn:El; [intros H; inversion H; apply RE_none|].
    cbv zeta.
    destruct (u_active (getu st i)) eqn:Ea; cbn [negb orb]; [|intros H; inversion H; apply RE_none].
    destruct (u_disabled (getu st i)) eqn:Ed; cbn [negb orb]; [intros H; inversion H; apply RE_none|].
    destruct (u_auth (getu st i)) eqn:Eau; cbn [negb orb]; [|intros H; inversion H; apply RE_none].
    destruct (u_last (getu st i) + TIMEOUT <? now) eqn:Et; [intros H; inversion H; apply RE_none|].
    destruct (list_eqb _ _) eqn:Eq; [|intros H; inversion H; apply RE_none].
    apply list_eqb_eq in Eq. apply Nat.ltb_ge in E16. apply Nat.leb_gt in El.
    intros H; inversion H; subst. apply RE_login; [apply Hh, E1|].
    split; [exact E16|]. split; [repeat split; assumption|]. split; assumption. }
  destruct (N.land (chr pk 3) src_RAW_HDR_CMD_MASK =? src_RAW_HDR_CMD_DATA) eqn:E2.
  { apply N.eqb_eq in E2. unfold handle_raw_data.
    change (h_from (raw_q from)) with from.
    destruct (check_auth c st now (Z.of_nat i) from) eqn:Ec; [intros H; inversion H; apply RE_none|].
    destruct (u_auth_raw (getu st i)) eqn:Er; cbn [negb orb]; [|intros H; inversion H; apply RE_none].
    intros H. inversion H as [H1]. apply hfp_spec in H1. destruct H1 as [SS _].
    apply (RE_data c st now from pk i); [apply Hh, E2|exact Ec|exact Er|].
    eapply sec_same_trans; [|exact SS]. apply sec_same_upd. intros; reflexivity. }
  destruct (N.land (chr pk 3) src_RAW_HDR_CMD_MASK =? src_RAW_HDR_CMD_PING) eqn:E3.
  { apply N.eqb_eq in E3. unfold handle_raw_ping.
    change (h_from (raw_q from)) with from.
    destruct (check_auth c st now (Z.of_nat i) from) eqn:Ec; [intros H; inversion H; apply RE_none|].
    destruct (u_auth_raw (getu st i)) eqn:Er; cbn [negb orb]; [|intros H; inversion H; apply RE_none].
    intros H; inversion H; subst. apply RE_ping; [apply Hh, E3|exact Ec|exact Er]. }
  intros H; inversion H; apply RE_none.
Qed.

End WithOracles.
