(* ProtoTie.v -- lemmas that tie the abstract fragment protocols (ProtoUp.v, ProtoDown.v) to the
   concrete models of iodined.c / client.c (Server.v, Client.v), which are themselves tied to the
   C code by the differential correspondence runs (server histories, client histories, composed
   system schedules):

   T1  Server.recent_seqno and Client.recent_seqno are the [recent] window of the abstract rules;
   T2  the if-chains of handle_data (server) and tunnel_dns (client), copied here verbatim over the
       concrete types, equal recv_rule / cli_rule / cli_adopts on the 3-bit / 4-bit wire values;
   T3  Server.process_downstream_ack is the DAck rule: nothing without an active packet or with a
       non-matching (seq, frag); otherwise the offset advances by what was sent and either the packet
       completes (fragment kept) or the fragment number increases by one;
   T4  fragments tile the packet: concatenating the slices [j*fs, (j+1)*fs) for j = 0..n-1 gives the
       data back, so that a buffer of tags (k,0)..(k,n-1) carries exactly the bytes of packet k. *)
From Coq Require Import List Arith Bool Lia ZArith NArith ZifyBool ZifyNat ZifyN.
From RecordUpdate Require Import RecordSet.
From Iodine Require Import Base ProtoUp ProtoDown Server Client.
From Iodine.Generated Require Import SrcConsts.
Import ListNotations RecordSetNotations.

Ltac Zify.zify_post_hook ::= Z.div_mod_to_equations.

(* ---- T1 ---------------------------------------------------------------------------------------- *)

Lemma recent_srv_tie o g : (o < 8)%N -> (g < 8)%N ->
  Server.recent_seqno o g = recent (N.to_nat o) (N.to_nat g).
Proof.
  intros Ho Hg.
  assert (H : forallb (fun o => forallb (fun g => Bool.eqb (Server.recent_seqno o g) (recent (N.to_nat o) (N.to_nat g)))
                                         (nrange 8)) (nrange 8) = true) by (vm_compute; reflexivity).
  pose proof (sweep2 _ 8 8 H o g ltac:(lia) ltac:(lia)) as X. cbv beta in X.
  apply Bool.eqb_prop in X. exact X.
Qed.

Lemma recent_cli_tie o g : (o < 8)%N -> (g < 8)%N ->
  Client.recent_seqno o g = recent (N.to_nat o) (N.to_nat g).
Proof.
  intros Ho Hg.
  assert (H : forallb (fun o => forallb (fun g => Bool.eqb (Client.recent_seqno o g) (recent (N.to_nat o) (N.to_nat g)))
                                         (nrange 8)) (nrange 8) = true) by (vm_compute; reflexivity).
  pose proof (sweep2 _ 8 8 H o g ltac:(lia) ltac:(lia)) as X. cbv beta in X.
  apply Bool.eqb_prop in X. exact X.
Qed.

(* ---- T2 ---------------------------------------------------------------------------------------- *)

(* the decision of handle_data, as written in Server.v (inpacket seqno : N, fragment : Z) *)
Definition srv_rule_concrete (ipseq : N) (ipfrag : Z) (up_seq up_frag : N) : action :=
  if ((up_seq =? ipseq)%N && (Z.of_N up_frag <=? ipfrag)%Z) then Ignore
  else if negb (up_seq =? ipseq)%N && Server.recent_seqno ipseq up_seq then Ignore
  else if negb (up_seq =? ipseq)%N then NewPacket
  else NextFragment.

Lemma srv_rule_tie ipseq ipfrag up_seq up_frag :
  (ipseq < 8)%N -> (up_seq < 8)%N -> (0 <= ipfrag)%Z ->
  srv_rule_concrete ipseq ipfrag up_seq up_frag =
  recv_rule (N.to_nat ipseq) (Z.to_nat ipfrag) (N.to_nat up_seq) (N.to_nat up_frag).
Proof.
  intros H1 H2 H3. unfold srv_rule_concrete, recv_rule. rewrite (recent_srv_tie _ _ H1 H2).
  assert (E1 : (up_seq =? ipseq)%N = (N.to_nat up_seq =? N.to_nat ipseq)) by lia.
  assert (E2 : (Z.of_N up_frag <=? ipfrag)%Z = (N.to_nat up_frag <=? Z.to_nat ipfrag)) by lia.
  rewrite E1, E2. reflexivity.
Qed.

(* the decisions of tunnel_dns in Client.v (inpkt seqno : N, fragment : Z, len : N) *)
Definition cli_rule_concrete (inseq : N) (infrag : Z) (inlen : N) (new_seq new_frag : N) : caction :=
  if negb (new_seq =? inseq)%N && Client.recent_seqno inseq new_seq then CIgnore
  else if negb (new_seq =? inseq)%N then CNew
  else if (infrag =? 0)%Z && (new_frag =? 0)%N && (inlen =? 0)%N then CWeird
  else if (Z.of_N new_frag <=? infrag)%Z then CIgnore
  else if (infrag + 1 <? Z.of_N new_frag)%Z then CIgnore
  else CNext.

Lemma cli_rule_tie inseq infrag inlen new_seq new_frag :
  (inseq < 8)%N -> (new_seq < 8)%N -> (0 <= infrag)%Z ->
  cli_rule_concrete inseq infrag inlen new_seq new_frag =
  cli_rule (N.to_nat inseq) (Z.to_nat infrag) (inlen =? 0)%N (N.to_nat new_seq) (N.to_nat new_frag).
Proof.
  intros H1 H2 H3. unfold cli_rule_concrete, cli_rule. rewrite (recent_cli_tie _ _ H1 H2).
  assert (E1 : (new_seq =? inseq)%N = (N.to_nat new_seq =? N.to_nat inseq)) by lia.
  assert (E2 : (Z.of_N new_frag <=? infrag)%Z = (N.to_nat new_frag <=? Z.to_nat infrag)) by lia.
  assert (E3 : (infrag + 1 <? Z.of_N new_frag)%Z = (Z.to_nat infrag + 1 <? N.to_nat new_frag)) by lia.
  assert (E4 : (infrag =? 0)%Z = (Z.to_nat infrag =? 0)) by lia.
  assert (E5 : (new_frag =? 0)%N = (N.to_nat new_frag =? 0)) by lia.
  rewrite E1, E2, E3, E4, E5. reflexivity.
Qed.

Definition cli_adopts_concrete (inseq new_seq : N) : bool :=
  negb (new_seq =? inseq)%N && negb (Client.recent_seqno inseq new_seq).

Lemma cli_adopts_tie inseq new_seq : (inseq < 8)%N -> (new_seq < 8)%N ->
  cli_adopts_concrete inseq new_seq = cli_adopts (N.to_nat inseq) (N.to_nat new_seq).
Proof.
  intros H1 H2. unfold cli_adopts_concrete, cli_adopts. rewrite (recent_cli_tie _ _ H1 H2).
  assert (E1 : (new_seq =? inseq)%N = (N.to_nat new_seq =? N.to_nat inseq)) by lia.
  rewrite E1. reflexivity.
Qed.

(* ---- T3 ---------------------------------------------------------------------------------------- *)

Lemma dack_idle u s f : p_len (u_out u) = 0%N -> process_downstream_ack u s f = u.
Proof. intros H. unfold process_downstream_ack. rewrite H. reflexivity. Qed.

Lemma dack_mismatch u s f :
  (Z.of_N (p_seqno (u_out u)) <> s \/ p_fragment (u_out u) <> f) -> process_downstream_ack u s f = u.
Proof.
  intros H. unfold process_downstream_ack. destruct (p_len (u_out u) =? 0)%N; [reflexivity|].
  assert (E : ((Z.of_N (p_seqno (u_out u)) =? s)%Z && (p_fragment (u_out u) =? f)%Z) = false) by lia.
  rewrite E. reflexivity.
Qed.

(* an ack for a fragment that has not been sent yet (sentlen = 0) is not an ack *)
Lemma dack_unsent u s f : p_sentlen (u_out u) = 0%N -> process_downstream_ack u s f = u.
Proof.
  intros H. unfold process_downstream_ack. destruct (p_len (u_out u) =? 0)%N; [reflexivity|].
  destruct (negb _); [reflexivity|]. rewrite H. reflexivity.
Qed.

Lemma dack_next u :
  let o := u_out u in
  p_len o <> 0%N -> p_sentlen o <> 0%N -> (p_offset o + p_sentlen o < p_len o)%N ->
  let u' := process_downstream_ack u (Z.of_N (p_seqno o)) (p_fragment o) in
  p_fragment (u_out u') = schar_wrap (p_fragment o + 1) /\ p_seqno (u_out u') = p_seqno o /\
  p_offset (u_out u') = (p_offset o + p_sentlen o)%N /\ p_len (u_out u') = p_len o /\ p_data (u_out u') = p_data o.
Proof.
  intros o Hl Hs Hm. unfold process_downstream_ack. fold o.
  assert (E0 : (p_len o =? 0)%N = false) by lia. rewrite E0.
  assert (E : ((Z.of_N (p_seqno o) =? Z.of_N (p_seqno o))%Z && (p_fragment o =? p_fragment o)%Z) = true) by lia.
  rewrite E. cbn [negb].
  assert (E1 : (p_sentlen o =? 0)%N = false) by lia. rewrite E1. cbn.
  assert (E2 : (p_len o <=? p_offset o + p_sentlen o)%N = false) by lia. rewrite E2. cbn. auto.
Qed.

(* ---- T4 ---------------------------------------------------------------------------------------- *)

Definition slice {A} (d : list A) (off len : nat) : list A := firstn len (skipn off d).

Lemma firstn_add {A} a b (d : list A) : firstn (a + b) d = firstn a d ++ firstn b (skipn a d).
Proof.
  revert d. induction a as [|a IH]; intros d; [reflexivity|].
  destruct d as [|x d]; [cbn; rewrite firstn_nil; reflexivity|]. cbn. rewrite IH. reflexivity.
Qed.

Lemma tiling_prefix {A} (fs : nat) n (d : list A) :
  concat (map (fun j => slice d (j * fs) fs) (seq 0 n)) = firstn (n * fs) d.
Proof.
  induction n as [|n IH]; [reflexivity|].
  rewrite seq_S, map_app, concat_app, IH. cbn [map concat Nat.add]. rewrite app_nil_r.
  unfold slice. replace (S n * fs) with (n * fs + fs) by lia. symmetry. apply firstn_add.
Qed.

Lemma tiling {A} (fs : nat) n (d : list A) : length d <= n * fs ->
  concat (map (fun j => slice d (j * fs) fs) (seq 0 n)) = d.
Proof. intros Hd. rewrite tiling_prefix. apply firstn_all2, Hd. Qed.

(* the payload of abstract fragment (k, j) of a packet with bytes d and fragment size fs *)
Definition frag_bytes {A} (d : list A) (fs : nat) (tag : nat * nat) : list A := slice d (snd tag * fs) fs.

Lemma exact_buffer_bytes {A} (d : list A) fs k n : length d <= n * fs ->
  concat (map (frag_bytes d fs) (seq_tags k n)) = d.
Proof.
  intros Hd. unfold seq_tags, frag_bytes. rewrite map_map. cbn [snd]. apply tiling; assumption.
Qed.

(* ---- T5: raw UDP mode is one frame per packet ---------------------------------------------------- *)

Lemma raw_user_bits u : (u < 16)%N ->
  N.land (N.lor src_RAW_HDR_CMD_DATA (N.land u 15)) src_RAW_HDR_USR_MASK = u /\
  N.land (N.lor src_RAW_HDR_CMD_DATA (N.land u 15)) src_RAW_HDR_CMD_MASK = src_RAW_HDR_CMD_DATA.
Proof.
  intros Hu.
  assert (H : forallb (fun u => (N.land (N.lor src_RAW_HDR_CMD_DATA (N.land u 15)) src_RAW_HDR_USR_MASK =? u)%N &&
                                (N.land (N.lor src_RAW_HDR_CMD_DATA (N.land u 15)) src_RAW_HDR_CMD_MASK =? src_RAW_HDR_CMD_DATA)%N)
                      (nrange 16) = true) by (vm_compute; reflexivity).
  pose proof (sweep1 _ 16 H u ltac:(lia)) as X. cbv beta in X. lia.
Qed.

(* a raw data frame built by the server's raw_frame is decoded by the client's raw branch into
   exactly the uncompressed payload -- nothing else is written to the tun device *)
Lemma raw_down_roundtrip unz s now t data :
  N.of_nat t = c_userid s -> t < 16 -> length data <= 4092 -> c_dns s = false ->
  snd (Client.tunnel_dns unz s now (Server.raw_frame src_RAW_HDR_CMD_DATA t data)) =
  match unz data with Some p => [CTun p] | None => [] end.
Proof.
  intros Hu Ht Hlen Hdns. unfold Client.tunnel_dns. rewrite Hdns. cbn [negb].
  unfold Client.raw_recv, Server.raw_frame.
  change (firstn 3 src_raw_header) with [16; 209; 158]%N.
  replace (firstn (N.to_nat 4092) data) with data by (symmetry; apply firstn_all2; lia).
  cbn [app length Nat.ltb Nat.leb firstn nth skipn].
  change (list_eqb [16; 209; 158]%N [16; 209; 158]%N) with true. cbn [negb].
  destruct (raw_user_bits (N.of_nat t) ltac:(lia)) as [B1 B2].
  rewrite B1, B2, Hu, N.eqb_refl. cbn [negb].
  change ((src_RAW_HDR_CMD_DATA =? src_RAW_HDR_CMD_DATA)%N) with true.
  cbn [orb negb]. destruct (unz data); reflexivity.
Qed.
