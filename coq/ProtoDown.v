(* ProtoDown.v -- the downstream (server -> client) fragment protocol of iodine as an abstract
   transition system with ghost packet numbers and an adversarial network, and (in
   ProtoDownProofs.v) the safety theorem: under N* every buffer the client hands to uncompress()
   is exactly the fragment sequence 0..n-1 of ONE packet of the server.

   Abstract state            real code
   ---------------------------------------------------------------------------------------------
   dk, df, dn, dact          server users[u].outpacket.seqno (= dk mod 8), .fragment, #fragments,
                             outpacket.len > 0
   cR, cf, cbuf, cmode       client inpkt.seqno (= cR mod 8), inpkt.fragment, accumulated data
                             (inpkt.len = 0 iff cbuf = []); cmode is ghost
   Data k f last             an answer with payload: 2-byte header (seqno, fragment, last flag) + data
   Hdr k f                   a dataless answer: the header alone, sent only while no packet is in
                             flight (send_chunk_or_dataless with outpacket.len = 0)
   dack                      the downstream ack fields (dn_seq, dn_frag) that every ping and data
                             query of the client carries = its inpkt.seqno / .fragment
   client rule               tunnel_dns in client.c: recent-seqno duplicates, adoption of an unseen
                             seqno from a dataless answer, new packet, the "weird situation" rule,
                             duplicate / out-of-order fragment rejection, delivery on the last flag
   single-fragment packets   "Whole packet was sent in one chunk, dont wait for ack" = DNew 1 ; DDrop
   DDrop                     resend limit reached, or the single chunk went out: outpacket.len := 0
   N*                        H1: an answer is never delivered after the server has started more than
                                 3 newer packets;  H2: a query is never processed after the server has
                                 started more than 2 newer packets since the query was built;
                             H6: the client is never more than 5 packets behind; F16: <= 16 fragments. *)
From Coq Require Import List Arith Bool Lia ZArith ZifyBool ZifyNat.
From Iodine Require Import ProtoUp.
Import ListNotations.

Record dsender := mkdsender { dk : nat; df : nat; dn : nat; dact : bool }.

Inductive cmode_t := CInit | CProg | CDone | CAdopted.
Record dreceiver := mkdrecv { cR : nat; cf : nat; cbuf : list (nat * nat); cmode : cmode_t }.

Inductive dmsg := Data (k f : nat) (last : bool) | Hdr (k f : nat).

Record dack := mkdack {
  b_seq : nat; b_frag : nat;               (* on the wire *)
  b_sk : nat; b_R : nat; b_rf : nat   (* ghost: server packet number and client state at snapshot *)
}.

Record dsys := mkdsys {
  dsnd : dsender; drcv : dreceiver;
  dmsgs : list dmsg; dacks : list dack;
  dsizes : nat -> nat
}.

Inductive caction := CIgnore | CNew | CWeird | CNext.

(* the client's decision for an answer WITH data (read > 2), on wire values *)
Definition cli_rule (cseq cfrag : nat) (empty : bool) (seq frag : nat) : caction :=
  if negb (seq =? cseq) && recent cseq seq then CIgnore
  else if negb (seq =? cseq) then CNew
  else if (cfrag =? 0) && (frag =? 0) && empty then CWeird
  else if frag <=? cfrag then CIgnore
  else if cfrag + 1 <? frag then CIgnore
  else CNext.

(* the client's decision for a dataless answer: adopt an unseen, non-recent seqno *)
Definition cli_adopts (cseq seq : nat) : bool := negb (seq =? cseq) && negb (recent cseq seq).

Definition is_empty (b : list (nat * nat)) : bool := match b with [] => true | _ => false end.

Inductive devent :=
| DNew (n : nat) | DDrop | DGenHdr | DAck (b : dack)
| CGenAck | CData (m : dmsg) | CHdr (m : dmsg).

Definition dinit : dsys :=
  {| dsnd := {| dk := 0; df := 0; dn := 0; dact := false |};
     drcv := {| cR := 0; cf := 0; cbuf := []; cmode := CInit |};
     dmsgs := []; dacks := []; dsizes := fun _ => 0 |}.

(* [w]: H2 window (2 under N-star) *)
Inductive dstep (w : nat) : dsys -> devent -> dsys -> option (list (nat * nat)) -> Prop :=
| ds_new s n : dact (dsnd s) = false -> 1 <= n <= 16 ->
    dstep w s (DNew n)
      {| dsnd := {| dk := S (dk (dsnd s)); df := 0; dn := n; dact := true |}; drcv := drcv s;
         dmsgs := Data (S (dk (dsnd s))) 0 (n =? 1) :: dmsgs s; dacks := dacks s;
         dsizes := fun k => if k =? S (dk (dsnd s)) then n else dsizes s k |} None
| ds_drop s :
    dstep w s DDrop
      {| dsnd := {| dk := dk (dsnd s); df := df (dsnd s); dn := dn (dsnd s); dact := false |};
         drcv := drcv s; dmsgs := dmsgs s; dacks := dacks s; dsizes := dsizes s |} None
| ds_genhdr s : dact (dsnd s) = false ->
    dstep w s DGenHdr
      {| dsnd := dsnd s; drcv := drcv s; dmsgs := Hdr (dk (dsnd s)) (df (dsnd s)) :: dmsgs s;
         dacks := dacks s; dsizes := dsizes s |} None
| ds_ack_last s b : In b (dacks s) -> dact (dsnd s) = true -> dk (dsnd s) <= b_sk b + w ->
    b_seq b = dk (dsnd s) mod 8 -> b_frag b = df (dsnd s) -> S (df (dsnd s)) = dn (dsnd s) ->
    dstep w s (DAck b)
      {| dsnd := {| dk := dk (dsnd s); df := df (dsnd s); dn := dn (dsnd s); dact := false |};
         drcv := drcv s; dmsgs := dmsgs s; dacks := dacks s; dsizes := dsizes s |} None
| ds_ack_next s b : In b (dacks s) -> dact (dsnd s) = true -> dk (dsnd s) <= b_sk b + w ->
    b_seq b = dk (dsnd s) mod 8 -> b_frag b = df (dsnd s) -> S (df (dsnd s)) < dn (dsnd s) ->
    dstep w s (DAck b)
      {| dsnd := {| dk := dk (dsnd s); df := S (df (dsnd s)); dn := dn (dsnd s); dact := true |};
         drcv := drcv s;
         dmsgs := Data (dk (dsnd s)) (S (df (dsnd s))) (S (S (df (dsnd s))) =? dn (dsnd s)) :: dmsgs s;
         dacks := dacks s; dsizes := dsizes s |} None
| ds_ack_ignored s b : In b (dacks s) ->
    (dact (dsnd s) = false \/ b_sk b + w < dk (dsnd s) \/ b_seq b <> dk (dsnd s) mod 8 \/ b_frag b <> df (dsnd s)) ->
    dstep w s (DAck b) s None
| ds_genack s :
    dstep w s CGenAck
      {| dsnd := dsnd s; drcv := drcv s; dmsgs := dmsgs s;
         dacks := {| b_seq := cR (drcv s) mod 8; b_frag := cf (drcv s) mod 16; b_sk := dk (dsnd s);
                     b_R := cR (drcv s); b_rf := cf (drcv s) |} :: dacks s;
         dsizes := dsizes s |} None
| ds_data_ignore s k f l : In (Data k f l) (dmsgs s) -> dk (dsnd s) <= k + 3 ->
    cli_rule (cR (drcv s) mod 8) (cf (drcv s)) (is_empty (cbuf (drcv s))) (k mod 8) (f mod 16) = CIgnore ->
    dstep w s (CData (Data k f l)) s None
| ds_data_new s k f l : In (Data k f l) (dmsgs s) -> dk (dsnd s) <= k + 3 ->
    cli_rule (cR (drcv s) mod 8) (cf (drcv s)) (is_empty (cbuf (drcv s))) (k mod 8) (f mod 16) = CNew ->
    dstep w s (CData (Data k f l))
      {| dsnd := dsnd s;
         drcv := {| cR := k; cf := f mod 16; cbuf := if l then [] else [(k, f)]; cmode := if l then CDone else CProg |};
         dmsgs := dmsgs s; dacks := dacks s; dsizes := dsizes s |}
      (if l then Some [(k, f)] else None)
| ds_data_weird s k f l : In (Data k f l) (dmsgs s) -> dk (dsnd s) <= k + 3 ->
    cli_rule (cR (drcv s) mod 8) (cf (drcv s)) (is_empty (cbuf (drcv s))) (k mod 8) (f mod 16) = CWeird ->
    dstep w s (CData (Data k f l))
      {| dsnd := dsnd s;
         drcv := {| cR := cR (drcv s); cf := f mod 16; cbuf := if l then [] else [(k, f)]; cmode := if l then CDone else CProg |};
         dmsgs := dmsgs s; dacks := dacks s; dsizes := dsizes s |}
      (if l then Some [(k, f)] else None)
| ds_data_next s k f l : In (Data k f l) (dmsgs s) -> dk (dsnd s) <= k + 3 ->
    cli_rule (cR (drcv s) mod 8) (cf (drcv s)) (is_empty (cbuf (drcv s))) (k mod 8) (f mod 16) = CNext ->
    dstep w s (CData (Data k f l))
      {| dsnd := dsnd s;
         drcv := {| cR := cR (drcv s); cf := f mod 16; cbuf := if l then [] else cbuf (drcv s) ++ [(k, f)];
                    cmode := if l then CDone else CProg |};
         dmsgs := dmsgs s; dacks := dacks s; dsizes := dsizes s |}
      (if l then Some (cbuf (drcv s) ++ [(k, f)]) else None)
| ds_hdr_adopt s k f : In (Hdr k f) (dmsgs s) -> dk (dsnd s) <= k + 3 ->
    cli_adopts (cR (drcv s) mod 8) (k mod 8) = true ->
    dstep w s (CHdr (Hdr k f))
      {| dsnd := dsnd s; drcv := {| cR := k; cf := f mod 16; cbuf := []; cmode := CAdopted |};
         dmsgs := dmsgs s; dacks := dacks s; dsizes := dsizes s |} None
| ds_hdr_ignore s k f : In (Hdr k f) (dmsgs s) -> dk (dsnd s) <= k + 3 ->
    cli_adopts (cR (drcv s) mod 8) (k mod 8) = false ->
    dstep w s (CHdr (Hdr k f)) s None.

Definition dclose (s : dsys) : Prop := dk (dsnd s) <= cR (drcv s) + 5.

Inductive dreach : dsys -> list (list (nat * nat)) -> Prop :=
| dreach_init : dreach dinit []
| dreach_step s outs e s' o : dreach s outs -> dstep 2 s e s' o -> dclose s' ->
    dreach s' (match o with Some b => outs ++ [b] | None => outs end).

(* executions without the network hypotheses H2 (window w arbitrary) and H6 *)
Inductive dreach0 (w : nat) : dsys -> list (list (nat * nat)) -> Prop :=
| dreach0_init : dreach0 w dinit []
| dreach0_step s outs e s' o : dreach0 w s outs -> dstep w s e s' o ->
    dreach0 w s' (match o with Some b => outs ++ [b] | None => outs end).

(* ---- executable version ------------------------------------------------------------------------ *)

Definition dmsg_eqb (a b : dmsg) : bool :=
  match a, b with
  | Data k f l, Data k' f' l' => (k =? k') && (f =? f') && Bool.eqb l l'
  | Hdr k f, Hdr k' f' => (k =? k') && (f =? f')
  | _, _ => false
  end.

Definition dack_eqb (a b : dack) : bool :=
  (b_seq a =? b_seq b) && (b_frag a =? b_frag b) && (b_sk a =? b_sk b) && (b_R a =? b_R b) && (b_rf a =? b_rf b).

Definition with_rcv (s : dsys) (r : dreceiver) : dsys :=
  {| dsnd := dsnd s; drcv := r; dmsgs := dmsgs s; dacks := dacks s; dsizes := dsizes s |}.

Definition dexec (w : nat) (s : dsys) (e : devent) : option (dsys * option (list (nat * nat))) :=
  let S_ := dsnd s in let R_ := drcv s in
  match e with
  | DNew n =>
      if negb (dact S_) && (1 <=? n) && (n <=? 16) then
        Some ({| dsnd := {| dk := S (dk S_); df := 0; dn := n; dact := true |}; drcv := R_;
                 dmsgs := Data (S (dk S_)) 0 (n =? 1) :: dmsgs s; dacks := dacks s;
                 dsizes := fun k => if k =? S (dk S_) then n else dsizes s k |}, None)
      else None
  | DDrop =>
      Some ({| dsnd := {| dk := dk S_; df := df S_; dn := dn S_; dact := false |};
               drcv := R_; dmsgs := dmsgs s; dacks := dacks s; dsizes := dsizes s |}, None)
  | DGenHdr =>
      if dact S_ then None else
      Some ({| dsnd := S_; drcv := R_; dmsgs := Hdr (dk S_) (df S_) :: dmsgs s;
               dacks := dacks s; dsizes := dsizes s |}, None)
  | DAck b =>
      if negb (existsb (dack_eqb b) (dacks s)) then None else
      if dact S_ && (dk S_ <=? b_sk b + w) && (b_seq b =? dk S_ mod 8) && (b_frag b =? df S_) then
        if S (df S_) =? dn S_ then
          Some ({| dsnd := {| dk := dk S_; df := df S_; dn := dn S_; dact := false |};
                   drcv := R_; dmsgs := dmsgs s; dacks := dacks s; dsizes := dsizes s |}, None)
        else if S (df S_) <? dn S_ then
          Some ({| dsnd := {| dk := dk S_; df := S (df S_); dn := dn S_; dact := true |}; drcv := R_;
                   dmsgs := Data (dk S_) (S (df S_)) (S (S (df S_)) =? dn S_) :: dmsgs s;
                   dacks := dacks s; dsizes := dsizes s |}, None)
        else None
      else Some (s, None)
  | CGenAck =>
      Some ({| dsnd := S_; drcv := R_; dmsgs := dmsgs s;
               dacks := {| b_seq := cR R_ mod 8; b_frag := cf R_ mod 16; b_sk := dk S_;
                           b_R := cR R_; b_rf := cf R_ |} :: dacks s;
               dsizes := dsizes s |}, None)
  | CData (Data k f l) =>
      if negb (existsb (dmsg_eqb (Data k f l)) (dmsgs s)) || negb (dk S_ <=? k + 3) then None else
      match cli_rule (cR R_ mod 8) (cf R_) (is_empty (cbuf R_)) (k mod 8) (f mod 16) with
      | CIgnore => Some (s, None)
      | CNew =>
          Some (with_rcv s {| cR := k; cf := f mod 16; cbuf := if l then [] else [(k, f)]; cmode := if l then CDone else CProg |},
                if l then Some [(k, f)] else None)
      | CWeird =>
          Some (with_rcv s {| cR := cR R_; cf := f mod 16; cbuf := if l then [] else [(k, f)]; cmode := if l then CDone else CProg |},
                if l then Some [(k, f)] else None)
      | CNext =>
          Some (with_rcv s {| cR := cR R_; cf := f mod 16; cbuf := if l then [] else cbuf R_ ++ [(k, f)];
                              cmode := if l then CDone else CProg |},
                if l then Some (cbuf R_ ++ [(k, f)]) else None)
      end
  | CHdr (Hdr k f) =>
      if negb (existsb (dmsg_eqb (Hdr k f)) (dmsgs s)) || negb (dk S_ <=? k + 3) then None else
      if cli_adopts (cR R_ mod 8) (k mod 8) then
        Some (with_rcv s {| cR := k; cf := f mod 16; cbuf := []; cmode := CAdopted |}, None)
      else Some (s, None)
  | CData (Hdr _ _) | CHdr (Data _ _ _) => None
  end.

(* the ack fields the client would put into a query built now *)
Definition cur_dack (s : dsys) : dack :=
  {| b_seq := cR (drcv s) mod 8; b_frag := cf (drcv s) mod 16; b_sk := dk (dsnd s);
     b_R := cR (drcv s); b_rf := cf (drcv s) |}.

Inductive dsevent := DEv (e : devent) | DEvAckNow.

Fixpoint drun (w : nat) (s : dsys) (es : list dsevent) (outs : list (list (nat * nat))) (needs_close : bool)
  : option (dsys * list (list (nat * nat))) :=
  match es with
  | [] => Some (s, outs)
  | DEv e :: rest =>
      match dexec w s e with
      | Some (s', o) =>
          if needs_close && negb (dk (dsnd s') <=? cR (drcv s') + 5) then None
          else drun w s' rest (match o with Some b => outs ++ [b] | None => outs end) needs_close
      | None => None
      end
  | DEvAckNow :: rest =>
      let a := cur_dack s in
      match dexec w s CGenAck with
      | Some (s1, _) =>
          match dexec w s1 (DAck a) with
          | Some (s2, _) =>
              if needs_close && negb (dk (dsnd s2) <=? cR (drcv s2) + 5) then None
              else drun w s2 rest outs needs_close
          | None => None
          end
      | None => None
      end
  end.
