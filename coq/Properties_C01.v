(* Properties_C01.v -- final statements for property C01 (end-to-end integrity).

   What C01 says: every packet written to a tun device is byte-identical to one read from the peer's
   tun device, for ALL network behaviours.  For the code as it is this cannot be a theorem of the
   reassembly logic alone: with 3-bit sequence numbers a long enough burst of loss lets the logic put
   fragments of two different packets into one buffer, and only zlib's Adler-32 (which the models treat
   as an oracle) rejects the result.  The statements below therefore are:

     (A) the reassembly logic of BOTH directions, as abstract transition systems with an adversarial
         network (arbitrary loss, duplication, reordering of every datagram ever sent), delivers only
         buffers that are the complete in-order fragment sequence of one packet -- for every execution
         inside the network hypothesis N* (H1 bounded delay <= 3 packets, H2 query freshness <= 2
         packets, H6 receiver <= 5 packets behind, F16 <= 16 fragments);          [full within N*]
     (B) the hypotheses are satisfiable and exercised (non-vacuity scripts with loss/dup/reorder);
     (C) outside N* the statement is false of the logic: concrete witnesses in both directions
         (C01_*_refuted_outside_Nstar); there integrity rests on the checksum;
     (D) fragments tile a packet, so an exact tag buffer carries exactly the packet's bytes;
     (E) ties of the abstract rules to the concrete models Server.v / Client.v (which the
         correspondence runs tie to iodined.c / client.c): the rules equal the concrete decision
         expressions, and the real handlers are PROVED to update their reassembly state as the rules
         prescribe (server handle_data through its staged form data_pre; client tunnel_dns through
         its staged form td_down / td_accept), delivering exactly on "accepted and last flag";
     (F) raw UDP mode: a data frame decodes to exactly its payload;
     (G) client-to-client forwarding and the server's ring of pending downstream packets: the ring is a
         bounded FIFO of byte strings (nothing is altered, merged or re-ordered in it), and a completed
         upstream packet addressed to a busy session enters that session's ring as the sender's own
         reassembled stream.
   Byte transport of one fragment (hostname codec, DNS encode/decode) is C07/C08/C09.
   C01_partial: the full statement "for all network behaviours" is not proved (and is false without
   the checksum, see (C)); what is missing is a probabilistic argument about Adler-32. *)
From Coq Require Import List Arith Bool Lia ZArith NArith.
From RecordUpdate Require Import RecordUpdate.
From Iodine Require Import Base ProtoUp ProtoUpProofs ProtoDown ProtoDownProofs Server Client ProtoTie
  ServerAnswerData ClientStages ProtoRefine ServerFrame QueueProofs.
From Iodine.Generated Require Import SrcConsts.
Import ListNotations.

(* (A) upstream: client -> server *)
Theorem C01_upstream_reassembly_exact_partial :
  forall s outs, reach s outs -> Forall (exact s) outs.
Proof. intros s outs H. exact (proj2 (proj2 (proto_up_safe s outs H))). Qed.
Print Assumptions C01_upstream_reassembly_exact_partial.

(* (A) downstream: server -> client *)
Theorem C01_downstream_reassembly_exact_partial :
  forall s outs, dreach s outs -> Forall (dexact s) outs.
Proof. intros s outs H. exact (proj2 (proj2 (proto_down_safe s outs H))). Qed.
Print Assumptions C01_downstream_reassembly_exact_partial.

(* (B) *)
Theorem C01_upstream_nonvacuous :
  exists s, prun init script_ok [] true = Some (s, [seq_tags 1 3; seq_tags 2 1]) /\ reach s [seq_tags 1 3; seq_tags 2 1].
Proof. exact proto_up_nonvacuous. Qed.
Print Assumptions C01_upstream_nonvacuous.

Theorem C01_downstream_nonvacuous :
  exists s, drun 2 dinit dscript_ok [] true = Some (s, [seq_tags 1 3; seq_tags 2 1; seq_tags 4 1]) /\
            dreach s [seq_tags 1 3; seq_tags 2 1; seq_tags 4 1].
Proof. exact proto_down_nonvacuous. Qed.
Print Assumptions C01_downstream_nonvacuous.

(* (C) *)
Theorem C01_upstream_refuted_outside_Nstar :
  exists s outs, reach0 s outs /\ ~ Forall (exact s) outs.
Proof. exact proto_up_inexact_witness. Qed.
Print Assumptions C01_upstream_refuted_outside_Nstar.

Theorem C01_downstream_refuted_outside_Nstar :
  exists s outs, dreach0 8 s outs /\ ~ Forall (dexact s) outs.
Proof. exact proto_down_inexact_witness. Qed.
Print Assumptions C01_downstream_refuted_outside_Nstar.

(* (D) *)
Theorem C01_fragments_tile :
  forall (d : list N) fs k n, (length d <= n * fs)%nat ->
  concat (map (frag_bytes d fs) (seq_tags k n)) = d.
Proof. exact (@exact_buffer_bytes N). Qed.
Print Assumptions C01_fragments_tile.

(* (E) *)
Theorem C01_server_rule_tie :
  forall ipseq ipfrag up_seq up_frag, (ipseq < 8)%N -> (up_seq < 8)%N -> (0 <= ipfrag)%Z ->
  srv_rule_concrete ipseq ipfrag up_seq up_frag =
  recv_rule (N.to_nat ipseq) (Z.to_nat ipfrag) (N.to_nat up_seq) (N.to_nat up_frag).
Proof. exact srv_rule_tie. Qed.
Print Assumptions C01_server_rule_tie.

Theorem C01_client_rule_tie :
  forall inseq infrag inlen new_seq new_frag, (inseq < 8)%N -> (new_seq < 8)%N -> (0 <= infrag)%Z ->
  cli_rule_concrete inseq infrag inlen new_seq new_frag =
  cli_rule (N.to_nat inseq) (Z.to_nat infrag) (inlen =? 0)%N (N.to_nat new_seq) (N.to_nat new_frag).
Proof. exact cli_rule_tie. Qed.
Print Assumptions C01_client_rule_tie.

Theorem C01_client_adopt_tie :
  forall inseq new_seq, (inseq < 8)%N -> (new_seq < 8)%N ->
  cli_adopts_concrete inseq new_seq = cli_adopts (N.to_nat inseq) (N.to_nat new_seq).
Proof. exact cli_adopts_tie. Qed.
Print Assumptions C01_client_adopt_tie.

Theorem C01_server_downstream_ack_rule :
  (forall u s f, p_len (u_out u) = 0%N -> process_downstream_ack u s f = u) /\
  (forall u s f, (Z.of_N (p_seqno (u_out u)) <> s \/ p_fragment (u_out u) <> f) -> process_downstream_ack u s f = u) /\
  (forall u s f, p_sentlen (u_out u) = 0%N -> process_downstream_ack u s f = u) /\
  (forall u, let o := u_out u in
     p_len o <> 0%N -> p_sentlen o <> 0%N -> (p_offset o + p_sentlen o < p_len o)%N ->
     let u' := process_downstream_ack u (Z.of_N (p_seqno o)) (p_fragment o) in
     p_fragment (u_out u') = schar_wrap (p_fragment o + 1) /\ p_seqno (u_out u') = p_seqno o /\
     p_offset (u_out u') = (p_offset o + p_sentlen o)%N /\ p_len (u_out u') = p_len o /\ p_data (u_out u') = p_data o).
Proof. exact (conj dack_idle (conj dack_mismatch (conj dack_unsent dack_next))). Qed.
Print Assumptions C01_server_downstream_ack_rule.

(* (F) *)
Theorem C01_raw_frame_exact :
  forall unz s now t data,
  N.of_nat t = c_userid s -> (t < 16)%nat -> (length data <= 4092)%nat -> c_dns s = false ->
  snd (Client.tunnel_dns unz s now (Server.raw_frame src_RAW_HDR_CMD_DATA t data)) =
  match unz data with Some p => [CTun p] | None => [] end.
Proof. exact raw_down_roundtrip. Qed.
Print Assumptions C01_raw_frame_exact.

(* (E, continued) the server's data handler follows recv_rule: with none of the early exits (bad user / source,
   cached answer, remembered duplicate, duplicate of a pending query) handle_data is the staged tail, whose
   reassembly step is an equation on the rule, and the buffer goes to handle_full_packet exactly when the chunk
   was accepted and carries the last flag *)
Theorem C01_server_reassembly_follows_rule :
  (forall u inb dl,
     let u1 := process_downstream_ack u (Z.of_N (dn_seq_of inb)) (Z.of_N (dn_frag_of inb)) in
     let ip := u_in u1 in
     data_pre u inb dl =
     match srv_rule_concrete (p_seqno ip) (p_fragment ip) (up_seq_of inb) (up_frag_of inb) with
     | Ignore => (u1, false, lastflag_of inb)
     | NewPacket => (append_in (u1 <| u_in := reset_in ip (up_seq_of inb) (up_frag_of inb) |>) inb dl, true, lastflag_of inb)
     | NextFragment => (append_in (u1 <| u_in := ip <| p_fragment := Z.of_N (up_frag_of inb) |> |>) inb dl, true, lastflag_of inb)
     end) /\
  (forall u2 inb dl,
     let ip2 := u_in u2 in
     let piece := firstn (N.to_nat (65536 - p_offset ip2)) (chunk_bytes u2 inb dl) in
     p_seqno (u_in (append_in u2 inb dl)) = p_seqno ip2 /\
     p_fragment (u_in (append_in u2 inb dl)) = p_fragment ip2 /\
     p_data (u_in (append_in u2 inb dl)) =
       firstn (N.to_nat (p_offset ip2)) (p_data ip2 ++ repeat 0%N (N.to_nat (p_offset ip2))) ++ piece /\
     p_len (u_in (append_in u2 inb dl)) = (p_len ip2 + N.of_nat (length piece))%N /\
     p_offset (u_in (append_in u2 inb dl)) = (p_offset ip2 + N.of_nat (length piece))%N) /\
  (forall unz c st now q inb dl,
     data_guard c st now q inb = None ->
     let i := N.to_nat (data_code inb) in
     handle_data unz c st now q inb dl = data_tail unz st now q i inb dl /\
     forall u3 ok lf, data_pre (getu st i) inb dl = (u3, ok, lf) ->
       let st1 := upd st i (fun _ => u3) in
       fst (data_tail unz st now q i inb dl) =
         (let '(st2, _) := if ok && lf then handle_full_packet unz st1 now i else (st1, []) in
          upd st2 i (fun _ => fst (d_users (getu st2 i) now q ok lf)))).
Proof. exact (conj data_pre_follows_recv_rule (conj append_in_spec handle_data_reassembly)). Qed.
Print Assumptions C01_server_reassembly_follows_rule.

(* ... and the client's answer handler follows cli_rule (tunnel_dns = td_dispatch -> td_main -> td_recent -> td_down
   by ClientStages.tunnel_dns_stages) *)
Theorem C01_client_reassembly_follows_rule :
  (forall unz s0 now d,
     Client.tunnel_dns unz s0 now d =
     if negb (c_dns s0) then raw_recv unz s0 now d
     else td_dispatch unz s0 now (DnsMsg.client_extract (N.to_nat 65536) d (length d))) /\
  (forall unz buf read2 nseq nfrag lastflag now_flag s6,
     (2 < read2)%Z ->
     let inp := c_in s6 in
     (negb (nseq =? k_seqno inp)%N && Client.recent_seqno (k_seqno inp) nseq = false) ->
     td_down unz buf read2 nseq nfrag lastflag now_flag s6 =
     match cli_rule_concrete (k_seqno inp) (k_fragment inp) (k_len inp) nseq nfrag with
     | CIgnore => (s6 <| c_ping_soon := 500%N |>, [], now_flag)
     | CNew => td_accept unz buf read2 (Z.of_N nfrag) lastflag now_flag
                 (s6 <| c_in := inp <| k_seqno := nseq |> <| k_fragment := Z.of_N nfrag |> <| k_len := 0%N |> |>)
     | CWeird | CNext => td_accept unz buf read2 (Z.of_N nfrag) lastflag now_flag s6
     end) /\
  (forall unz buf read2 frag lastflag now_flag st,
     let r := td_accept unz buf read2 frag lastflag now_flag st in
     let s' := fst (fst r) in
     let piece := firstn (N.to_nat (65536 - k_len (c_in st))) (skipn 2 (firstn (Z.to_nat read2) buf)) in
     let data' := firstn (N.to_nat (k_len (c_in st))) (k_data (c_in st) ++ repeat 0%N (N.to_nat (k_len (c_in st)))) ++ piece in
     k_seqno (c_in s') = k_seqno (c_in st) /\ k_fragment (c_in s') = frag /\ k_data (c_in s') = data' /\
     k_len (c_in s') = (if lastflag then 0 else k_len (c_in st) + N.of_nat (length piece))%N /\
     snd (fst r) = (if lastflag
                    then match unz (firstn (N.to_nat (k_len (c_in st) + N.of_nat (length piece))) data') with Some p => [CTun p] | None => [] end
                    else [])) /\
  (forall unz buf read2 nseq nfrag lastflag now_flag s6,
     (read2 <= 2)%Z -> td_down unz buf read2 nseq nfrag lastflag now_flag s6 = (s6, [], now_flag)).
Proof.
  exact (conj (fun unz => tunnel_dns_stages unz) (conj td_down_follows_cli_rule (conj td_accept_spec td_down_dataless))).
Qed.
Print Assumptions C01_client_reassembly_follows_rule.

(* (E, continued) the client's upstream acknowledgement handling is the SAck rule: nothing without a packet in
   flight or with a non-matching (seq, frag); a matching ack of the last chunk ends the packet; a matching ack of
   an inner chunk advances the offset by what was sent and the fragment number by one and sends the next chunk *)
Theorem C01_client_upstream_ack_rule :
  (forall a b nf s7, is_sending s7 = false -> td_up a b nf s7 = (s7, [], nf)) /\
  (forall a b nf s7, ((a =? k_seqno (c_out s7))%N && (Z.of_N b =? k_fragment (c_out s7))%Z = false) -> td_up a b nf s7 = (s7, [], nf)) /\
  (forall nf s7, is_sending s7 = true -> (k_len (c_out s7) <= k_offset (c_out s7) + k_sentlen (c_out s7))%N ->
     let r := td_up (k_seqno (c_out s7)) (Z.to_N (k_fragment (c_out s7))) nf s7 in
     (0 <= k_fragment (c_out s7))%Z ->
     is_sending (fst (fst r)) = false /\ k_seqno (c_out (fst (fst r))) = k_seqno (c_out s7) /\ snd (fst r) = []) /\
  (forall nf s7, is_sending s7 = true -> (k_offset (c_out s7) + k_sentlen (c_out s7) < k_len (c_out s7))%N -> (0 <= k_fragment (c_out s7))%Z ->
     td_up (k_seqno (c_out s7)) (Z.to_N (k_fragment (c_out s7))) nf s7 =
     (let st := s7 <| c_out := (c_out s7) <| k_offset := (k_offset (c_out s7) + k_sentlen (c_out s7))%N |>
                                          <| k_fragment := schar_wrap (k_fragment (c_out s7) + 1) |> |> <| c_resent := 0%N |> in
      let '(st2, out) := send_chunk st in (st2 <| c_ping_soon := 0%N |>, out, false))).
Proof. exact (conj td_up_idle (conj td_up_mismatch (conj td_up_last td_up_next))). Qed.
Print Assumptions C01_client_upstream_ack_rule.

(* (G) The per-session ring of pending downstream packets (outpacketq) refines a bounded FIFO: abstraction qabs =
   the payloads of the filled slots in ring order.  A save on a ring that is not full appends exactly the given
   bytes (capped at the 64 KiB slot size) at the end and touches neither the packet in flight nor the reassembly
   buffer; a save on a full ring changes nothing; a get pops the head and makes it the packet in flight, byte for
   byte, with the next sequence number and fragment 0. *)
Theorem C01_outqueue_is_fifo :
  (forall u d, qwf u -> (u_queue_filled u < QLEN)%nat ->
     let u' := fst (save_to_outpacketq u d) in
     snd (save_to_outpacketq u d) = true /\ qwf u' /\ qabs u' = qabs u ++ [firstn (N.to_nat 65536) d] /\
     u_out u' = u_out u /\ u_in u' = u_in u /\ u_queue_next u' = u_queue_next u) /\
  (forall u d, (QLEN <= u_queue_filled u)%nat -> save_to_outpacketq u d = (u, false)) /\
  (forall u x xs, qwf u -> qabs u = x :: xs ->
     let u' := fst (get_from_outpacketq u) in
     snd (get_from_outpacketq u) = true /\ qwf u' /\ qabs u' = xs /\
     p_data (u_out u') = firstn (N.to_nat 65536) x /\
     p_len (u_out u') = N.of_nat (length (firstn (N.to_nat 65536) x)) /\
     p_offset (u_out u') = 0%N /\ p_sentlen (u_out u') = 0%N /\
     p_seqno (u_out u') = ((p_seqno (u_out u) + 1) mod 8)%N /\ p_fragment (u_out u') = 0%Z /\
     u_in u' = u_in u) /\
  (forall u, u_queue_filled u = O -> get_from_outpacketq u = (u, false)) /\
  (forall ip, qwf (user_init ip)).
Proof. exact (conj save_spec (conj save_full (conj get_spec (conj get_empty user_init_qwf)))). Qed.
Print Assumptions C01_outqueue_is_fifo.

(* (G, continued) client-to-client forwarding into a busy recipient: a completed upstream packet of session i
   whose destination address belongs to the live DNS-mode session t with a packet still in flight is answered
   with nothing, and what is appended to t's ring is the reassembled stream of session i itself -- not the
   recipient's own buffer, not a third session's; t's packet in flight is untouched.  (With the ring full the
   packet is dropped: C01 allows loss.) *)
Theorem C01_forward_into_busy_exact : forall unz st now i ip t,
  unz (hfp_raw st i) = Some ip -> route st now ip = Some t -> (t < length st)%nat ->
  u_conn (getu st t) = CONN_DNS -> p_len (u_out (getu st t)) <> 0%N -> qwf (getu st t) ->
  let r := handle_full_packet unz st now i in
  snd r = [] /\
  qabs (getu (fst r) t) =
    (if (u_queue_filled (getu st t) <? QLEN)%nat
     then qabs (getu st t) ++ [firstn (N.to_nat 65536) (hfp_raw st i)] else qabs (getu st t)) /\
  u_out (getu (fst r) t) = u_out (getu st t).
Proof. exact forward_into_busy. Qed.
Print Assumptions C01_forward_into_busy_exact.

(* non-vacuity: on a fresh session a saved packet comes back from the ring unchanged *)
Example C01_outqueue_roundtrip :
  let u := user_init 167772162%N in
  let u2 := fst (get_from_outpacketq (fst (save_to_outpacketq u [90; 1; 2; 3]%N))) in
  qwf u /\ p_data (u_out u2) = [90; 1; 2; 3]%N /\ p_seqno (u_out u2) = 1%N /\ u_queue_filled u2 = O.
Proof. split; [apply user_init_qwf|]. vm_compute. repeat split; reflexivity. Qed.
