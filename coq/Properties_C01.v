From Iodine Require Import Tunnel.
Theorem C01_placeholder : True. Proof. exact I. Qed.
Print Assumptions C01_placeholder.
