(* ServerRings.v -- shared lemmas about the helpers of Server.v used by the C15 / C16 proofs:
   lists-as-rings (set_nth, most-recent-first view), upd/getu, the fields each helper leaves
   alone, and a decomposition of send_chunk_or_dataless into named pieces. *)
From Coq Require Import List NArith ZArith Arith Bool Lia.
From RecordUpdate Require Import RecordUpdate.
From Iodine Require Import Generated.SrcConsts Base Codec Hostname DnsName DnsMsg Domain Server.
Import ListNotations.
Local Open Scope N_scope.

(* ---- set_nth ---------------------------------------------------------------------------- *)

Lemma firstn_app_len {A} (a l : list A) : firstn (length a) (a ++ l) = a.
Proof. induction a as [|z a IH]; [destruct l; reflexivity|simpl; rewrite IH; reflexivity]. Qed.

Lemma skipn_S_app_cons {A} (a : list A) y b : skipn (S (length a)) (a ++ y :: b) = b.
Proof. induction a as [|z a IH]; [reflexivity|exact IH]. Qed.

Lemma skipn_app_len {A} (a l : list A) : skipn (length a) (a ++ l) = l.
Proof. induction a as [|z a IH]; [reflexivity|exact IH]. Qed.

Lemma set_nth_eq {A} (l : list A) i x :
  set_nth l i x = firstn i l ++ (if (i <? length l)%nat then [x] else []) ++ skipn (S i) l.
Proof. unfold set_nth. destruct l; [destruct i; reflexivity|reflexivity]. Qed.

Lemma set_nth_split {A} (l : list A) i x :
  (i < length l)%nat -> exists a y b, l = a ++ y :: b /\ length a = i /\ set_nth l i x = a ++ x :: b.
Proof.
  intros Hi. rewrite set_nth_eq.
  destruct (nth_error l i) as [y|] eqn:Hn; [|apply nth_error_None in Hn; lia].
  apply nth_error_split in Hn. destruct Hn as (a & b & -> & Hla).
  exists a, y, b. split; [reflexivity|]. split; [exact Hla|].
  assert (Hlt : (i <? length (a ++ y :: b))%nat = true) by (apply Nat.ltb_lt; exact Hi).
  rewrite Hlt. subst i.
  rewrite firstn_app_len, skipn_S_app_cons. reflexivity.
Qed.

Lemma set_nth_length {A} (l : list A) i x : length (set_nth l i x) = length l.
Proof.
  destruct (Nat.lt_ge_cases i (length l)) as [Hi|Hi].
  - destruct (set_nth_split l i x Hi) as (a & y & b & -> & _ & ->). rewrite !app_length. reflexivity.
  - rewrite set_nth_eq.
    assert (Hlt : (i <? length l)%nat = false) by (apply Nat.ltb_ge; exact Hi).
    rewrite Hlt. rewrite firstn_all2 by lia. rewrite skipn_all2 by lia. simpl. rewrite app_nil_r. reflexivity.
Qed.

Lemma set_nth_In {A} (l : list A) i x y : In y (set_nth l i x) -> y = x \/ In y l.
Proof.
  destruct (Nat.lt_ge_cases i (length l)) as [Hi|Hi].
  - destruct (set_nth_split l i x Hi) as (a & z & b & -> & _ & ->).
    rewrite !in_app_iff. simpl. intuition.
  - rewrite set_nth_eq.
    assert (Hlt : (i <? length l)%nat = false) by (apply Nat.ltb_ge; exact Hi).
    rewrite Hlt. rewrite firstn_all2 by lia. rewrite skipn_all2 by lia. simpl. rewrite app_nil_r. intuition.
Qed.

Lemma Forall_set_nth {A} (P : A -> Prop) (l : list A) i x : Forall P l -> P x -> Forall P (set_nth l i x).
Proof.
  intros Hl Hx. apply Forall_forall. intros y Hy. apply set_nth_In in Hy. destruct Hy as [->|Hy]; [exact Hx|].
  rewrite Forall_forall in Hl. apply Hl, Hy.
Qed.

(* ---- a list filled round-robin, seen most-recent-first ---------------------------------------- *)

Definition ring_recent {A} (l : list A) (last : nat) : list A := List.rev (firstn (S last) l) ++ List.rev (skipn (S last) l).

Definition ring_fill (len last : nat) : nat := if (len <=? S last)%nat then O else S last.

Lemma ring_recent_length {A} (l : list A) last : length (ring_recent l last) = length l.
Proof. unfold ring_recent. rewrite app_length, !rev_length, <- app_length, firstn_skipn. reflexivity. Qed.

Lemma ring_fill_lt len last : (0 < len)%nat -> (ring_fill len last < len)%nat.
Proof. intros H. unfold ring_fill. destruct (len <=? S last)%nat eqn:E; [exact H|apply Nat.leb_gt in E; exact E]. Qed.

(* one save: the new element becomes the head, the oldest one falls out *)
Lemma ring_save {A} (l : list A) last x :
  (last < length l)%nat ->
  ring_recent (set_nth l (ring_fill (length l) last) x) (ring_fill (length l) last)
  = x :: removelast (ring_recent l last).
Proof.
  intros Hl. unfold ring_fill. destruct (length l <=? S last)%nat eqn:E.
  - apply Nat.leb_le in E. assert (Hlen : length l = S last) by lia.
    destruct l as [|y b]; [simpl in Hl; lia|].
    assert (Hs : set_nth (y :: b) 0 x = x :: b) by reflexivity. rewrite Hs.
    assert (H1 : ring_recent (x :: b) 0 = x :: List.rev b) by reflexivity. rewrite H1.
    unfold ring_recent. rewrite firstn_all2 by lia. rewrite skipn_all2 by lia.
    change (List.rev (y :: b)) with (List.rev b ++ [y]). change (List.rev []) with (@nil A).
    rewrite app_nil_r, removelast_last. reflexivity.
  - apply Nat.leb_gt in E.
    destruct (set_nth_split l (S last) x E) as (a & y & b & -> & Ha & ->).
    unfold ring_recent.
    assert (F1 : firstn (S (S last)) (a ++ x :: b) = a ++ [x]).
    { rewrite <- Ha. replace (a ++ x :: b) with ((a ++ [x]) ++ b) by (rewrite <- app_assoc; reflexivity).
      replace (S (length a)) with (length (a ++ [x])) by (rewrite app_length; simpl; lia).
      apply firstn_app_len. }
    assert (S1 : skipn (S (S last)) (a ++ x :: b) = b) by (rewrite <- Ha; apply skipn_S_app_cons).
    assert (F2 : firstn (S last) (a ++ y :: b) = a) by (rewrite <- Ha; apply firstn_app_len).
    assert (S2 : skipn (S last) (a ++ y :: b) = y :: b) by (rewrite <- Ha; apply skipn_app_len).
    rewrite F1, S1, F2, S2. rewrite rev_app_distr.
    change (List.rev [x]) with [x]. change (List.rev (y :: b)) with (List.rev b ++ [y]).
    rewrite app_assoc, removelast_last. reflexivity.
Qed.

Lemma removelast_firstn_len {A} (l : list A) : removelast l = firstn (length l - 1) l.
Proof.
  destruct l as [|x l'] using rev_ind; [reflexivity|].
  rewrite removelast_last, app_length. simpl. replace (length l' + 1 - 1)%nat with (length l') by lia.
  rewrite firstn_app, Nat.sub_diag, firstn_all. simpl. rewrite app_nil_r. reflexivity.
Qed.

Lemma ring_save_firstn {A} (l : list A) last x :
  (last < length l)%nat ->
  ring_recent (set_nth l (ring_fill (length l) last) x) (ring_fill (length l) last)
  = firstn (length l) (x :: ring_recent l last).
Proof.
  intros Hl. rewrite ring_save by exact Hl. rewrite removelast_firstn_len, ring_recent_length.
  destruct (length l) as [|n] eqn:E; [lia|]. simpl. rewrite Nat.sub_0_r. reflexivity.
Qed.

Lemma nth_firstn_lt' {A} (l : list A) n i d : (i < n)%nat -> nth i (firstn n l) d = nth i l d.
Proof.
  revert n i. induction l as [|x l IH]; intros n i H; [rewrite firstn_nil; reflexivity|].
  destruct n; [lia|]. destruct i; [reflexivity|]. simpl. apply IH. lia.
Qed.

Lemma nth_skipn' {A} (l : list A) n i d : nth i (skipn n l) d = nth (n + i) l d.
Proof.
  revert l. induction n as [|n IH]; intros l; [reflexivity|].
  destruct l as [|x l]; [destruct i; reflexivity|]. simpl. apply IH.
Qed.

(* element i of the most-recent-first view is the slot the C scan loops compute *)
Lemma ring_recent_nth {A} (l : list A) last i d :
  (last < length l)%nat -> (i < length l)%nat ->
  nth i (ring_recent l last) d
  = nth (if (i <=? last)%nat then (last - i)%nat else (last + length l - i)%nat) l d.
Proof.
  intros Hl Hi. unfold ring_recent.
  assert (Hf : length (firstn (S last) l) = S last) by (rewrite firstn_length; lia).
  destruct (i <=? last)%nat eqn:E.
  - apply Nat.leb_le in E. rewrite app_nth1 by (rewrite rev_length; lia).
    rewrite rev_nth by lia. rewrite Hf. replace (S last - S i)%nat with (last - i)%nat by lia.
    rewrite nth_firstn_lt' by lia. reflexivity.
  - apply Nat.leb_gt in E. rewrite app_nth2 by (rewrite rev_length; lia). rewrite rev_length, Hf.
    assert (Hs : length (skipn (S last) l) = (length l - S last)%nat) by apply skipn_length.
    rewrite rev_nth by lia. rewrite Hs. rewrite nth_skipn'. f_equal. lia.
Qed.

Lemma ring_recent_In {A} (l : list A) last x : In x (ring_recent l last) <-> In x l.
Proof.
  unfold ring_recent. rewrite in_app_iff, <- !in_rev, <- in_app_iff, firstn_skipn. reflexivity.
Qed.

Lemma existsb_ring_recent {A} (f : A -> bool) (l : list A) last :
  existsb f (ring_recent l last) = existsb f l.
Proof.
  apply eq_true_iff_eq. rewrite !existsb_exists. split; intros (x & Hx & Hf); exists x; split; try exact Hf.
  - apply ring_recent_In in Hx. exact Hx.
  - apply ring_recent_In. exact Hx.
Qed.

(* ---- upd / getu ------------------------------------------------------------------------------ *)

Lemma upd_length st i f : length (upd st i f) = length st.
Proof.
  unfold upd. destruct (nth_error st i) as [u|] eqn:E.
  - apply nth_error_split in E. destruct E as (a & b & -> & <-).
    rewrite firstn_app_len, skipn_S_app_cons. rewrite !app_length. reflexivity.
  - apply nth_error_None in E. rewrite firstn_all2 by lia. rewrite skipn_all2 by lia. simpl. rewrite app_nil_r. reflexivity.
Qed.

Lemma upd_oob st i f : (length st <= i)%nat -> upd st i f = st.
Proof.
  intros H. unfold upd. assert (E : nth_error st i = None) by (apply nth_error_None; exact H).
  rewrite E. rewrite firstn_all2 by lia. rewrite skipn_all2 by lia. simpl. rewrite app_nil_r. reflexivity.
Qed.

Lemma upd_split st i f :
  (i < length st)%nat -> exists a b, st = a ++ getu st i :: b /\ length a = i /\ upd st i f = a ++ f (getu st i) :: b.
Proof.
  intros Hi. unfold upd, getu.
  destruct (nth_error st i) as [u|] eqn:E; [|apply nth_error_None in E; lia].
  pose proof (nth_error_nth st i (user_init 0) E) as Hn. rewrite Hn.
  apply nth_error_split in E. destruct E as (a & b & -> & <-).
  exists a, b. split; [reflexivity|]. split; [reflexivity|].
  rewrite firstn_app_len, skipn_S_app_cons. reflexivity.
Qed.

Lemma getu_upd_same st i f : (i < length st)%nat -> getu (upd st i f) i = f (getu st i).
Proof.
  intros Hi. destruct (upd_split st i f Hi) as (a & b & _ & Ha & ->).
  unfold getu at 1. rewrite app_nth2 by lia. rewrite Ha, Nat.sub_diag. reflexivity.
Qed.

Lemma getu_upd_other st i j f : i <> j -> getu (upd st i f) j = getu st j.
Proof.
  intros Hij. destruct (Nat.lt_ge_cases i (length st)) as [Hi|Hi]; [|rewrite upd_oob by exact Hi; reflexivity].
  destruct (upd_split st i f Hi) as (a & b & Hst & Ha & ->).
  unfold getu at 1. rewrite Hst at 2. unfold getu at 2.
  destruct (Nat.lt_ge_cases j i) as [Hj|Hj].
  - rewrite !app_nth1 by lia. reflexivity.
  - rewrite !app_nth2 by lia. destruct (j - length a)%nat eqn:E; [lia|]. reflexivity.
Qed.

Lemma getu_oob st i : (length st <= i)%nat -> getu st i = user_init 0.
Proof. intros H. unfold getu. apply nth_overflow. exact H. Qed.

Lemma upd_const_getu st i : upd st i (fun _ => getu st i) = st.
Proof.
  destruct (Nat.lt_ge_cases i (length st)) as [Hi|Hi]; [|apply upd_oob; exact Hi].
  destruct (upd_split st i (fun _ => getu st i) Hi) as (a & b & Hst & _ & ->). symmetry. exact Hst.
Qed.

Lemma upd_ext st i f g : (forall u, f u = g u) -> upd st i f = upd st i g.
Proof. intros H. unfold upd. destruct (nth_error st i); [rewrite H|]; reflexivity. Qed.

Lemma getu_upd st i j f : getu (upd st i f) j = if (i =? j)%nat && (i <? length st)%nat then f (getu st i) else getu st j.
Proof.
  destruct (i =? j)%nat eqn:E.
  - apply Nat.eqb_eq in E. subst j. destruct (i <? length st)%nat eqn:L; simpl.
    + apply Nat.ltb_lt in L. apply getu_upd_same, L.
    + apply Nat.ltb_ge in L. rewrite upd_oob by exact L. reflexivity.
  - apply Nat.eqb_neq in E. simpl. apply getu_upd_other, E.
Qed.

Lemma getu_In st i : (i < length st)%nat -> In (getu st i) st.
Proof. intros H. unfold getu. apply nth_In, H. Qed.

Lemma In_getu st u : In u st -> exists i, (i < length st)%nat /\ getu st i = u.
Proof. intros H. destruct (In_nth st u (user_init 0) H) as (i & Hi & Hn). exists i. split; [exact Hi|exact Hn]. Qed.

Lemma state_ext (st st' : sstate) : length st' = length st -> (forall i, getu st' i = getu st i) -> st' = st.
Proof.
  intros Hl Hg. apply nth_ext with (d := user_init 0) (d' := user_init 0); [exact Hl|].
  intros n _. apply Hg.
Qed.

Lemma upd_upd st i f g : upd (upd st i f) i g = upd st i (fun u => g (f u)).
Proof.
  apply state_ext; [rewrite !upd_length; reflexivity|].
  intros j. rewrite !getu_upd, upd_length.
  destruct ((i =? j)%nat && (i <? length st)%nat) eqn:E; [|reflexivity].
  apply andb_prop in E. destruct E as [E1 E2]. apply Nat.eqb_eq in E1. subst j.
  rewrite Nat.eqb_refl, E2. reflexivity.
Qed.

(* ---- fields the helpers leave alone ----------------------------------------------------------- *)

(* everything but the out-packet / queue bookkeeping *)
Definition okey (u : suser) : suser :=
  u <| u_out := pkt0 |> <| u_resent := 0 |> <| u_queue := [] |> <| u_queue_next := O |> <| u_queue_filled := O |>.

Lemma okey_proj {T} (p : suser -> T) u u' : (forall a, p (okey a) = p a) -> okey u' = okey u -> p u' = p u.
Proof. intros Hp H. rewrite <- (Hp u'), <- (Hp u), H. reflexivity. Qed.

Lemma okey_start_new_outpacket u d : okey (start_new_outpacket u d) = okey u.
Proof. reflexivity. Qed.
Lemma okey_drop_outpacket u : okey (drop_outpacket u) = okey u.
Proof. reflexivity. Qed.
Lemma okey_get_from_outpacketq u : okey (fst (get_from_outpacketq u)) = okey u.
Proof. unfold get_from_outpacketq. destruct (u_queue_filled u); reflexivity. Qed.
Lemma okey_save_to_outpacketq u d : okey (fst (save_to_outpacketq u d)) = okey u.
Proof. unfold save_to_outpacketq. destruct (QLEN <=? u_queue_filled u)%nat; reflexivity. Qed.
Lemma okey_process_downstream_ack u a b : okey (process_downstream_ack u a b) = okey u.
Proof.
  unfold process_downstream_ack.
  destruct (p_len (u_out u) =? 0); [reflexivity|].
  destruct (negb _); [reflexivity|].
  destruct (p_sentlen (u_out u) =? 0); [reflexivity|].
  match goal with |- context [if ?c then _ else _] => destruct c end; [|reflexivity].
  rewrite okey_get_from_outpacketq. reflexivity.
Qed.

(* the rings and the negotiated fragment size *)
Definition rview (u : suser) :=
  (u_cache u, u_cache_last u, u_pingmem u, u_pingmem_last u, u_datamem u, u_datamem_last u, u_fragsize u).

Lemma rview_okey u u' : okey u' = okey u -> rview u' = rview u.
Proof. intros H. apply (okey_proj rview u u'); [reflexivity|exact H]. Qed.

Definition wf_user (u : suser) : Prop :=
  length (u_cache u) = CACHELEN /\ (u_cache_last u < CACHELEN)%nat /\
  length (u_pingmem u) = PINGLEN /\ (u_pingmem_last u < PINGLEN)%nat /\
  length (u_datamem u) = DATALEN /\ (u_datamem_last u < DATALEN)%nat.

Lemma wf_rview u u' : rview u' = rview u -> wf_user u -> wf_user u'.
Proof. unfold rview, wf_user. intros H. inversion H as [[H1 H2 H3 H4 H5 H6 H7]]. rewrite H1, H2, H3, H4, H5, H6. tauto. Qed.

Lemma CACHELEN_pos : (0 < CACHELEN)%nat. Proof. vm_compute. lia. Qed.
Lemma PINGLEN_pos : (0 < PINGLEN)%nat. Proof. vm_compute. lia. Qed.
Lemma DATALEN_pos : (0 < DATALEN)%nat. Proof. vm_compute. lia. Qed.

Lemma wf_user_init ip : wf_user (user_init ip).
Proof.
  unfold wf_user, user_init; cbn [u_cache u_cache_last u_pingmem u_pingmem_last u_datamem u_datamem_last].
  rewrite !repeat_length. pose proof CACHELEN_pos. pose proof PINGLEN_pos. pose proof DATALEN_pos. tauto.
Qed.

(* ---- send_chunk_or_dataless in named pieces ----------------------------------------------------- *)

Definition scd_u1 (u0 : suser) : suser :=
  if (0 <? p_len (u_out u0)) && (5 <? u_resent u0) then fst (get_from_outpacketq (drop_outpacket u0)) else u0.

Definition scd_datalen (u1 : suser) : N :=
  let o := u_out u1 in
  if 0 <? p_len o then N.min (N.min (u_fragsize u1) (p_len o - p_offset o)) 4094 else 0.

Definition scd_payload (u1 : suser) : list N :=
  firstn (N.to_nat (scd_datalen u1)) (skipn (N.to_nat (p_offset (u_out u1))) (p_data (u_out u1))).

Definition scd_last (u1 : suser) : bool :=
  (0 <? p_len (u_out u1)) && (p_len (u_out u1) =? p_offset (u_out u1) + scd_datalen u1).

Definition scd_u2 (u1 : suser) : suser :=
  if 0 <? p_len (u_out u1)
  then u1 <| u_out := (u_out u1) <| p_sentlen := scd_datalen u1 |> |> <| u_resent := u_resent u1 + 1 |>
  else u1.

Definition scd_b0 (u1 : suser) : N := 128 + (p_seqno (u_in u1) mod 8) * 16 + Z.to_N (p_fragment (u_in u1) mod 16).
Definition scd_b1 (u1 : suser) : N :=
  (p_seqno (u_out u1) mod 8) * 32 + Z.to_N (p_fragment (u_out u1) mod 16) * 2 + (if scd_last u1 then 1 else 0).

Definition scd_pktb (u1 : suser) : list N := scd_b0 u1 :: scd_b1 u1 :: scd_payload u1.

Definition scd_q' (q : hq) : hq :=
  if negb (h_id2 q =? 0) then q <| h_id := h_id2 q |> <| h_from := h_from2 q |> else q.

Definition scd_outs (q : hq) (pktb : list N) (denc : N) : list out :=
  OAnswer q (h_id q) (h_from q) pktb denc ::
  (if negb (h_id2 q =? 0) then [OAnswer q (h_id2 q) (h_from2 q) pktb denc] else []).

Definition scd_u5 (u2 : suser) (w : which_q) (pktb : list N) : suser :=
  let q' := scd_q' (getq u2 w) in
  setq (save_to_dnscache (save_to_qmem_pingordata u2 q') q' (h_id q') pktb) w (q' <| h_id := 0 |>).

Definition scd_done (u1 : suser) (u5 : suser) : bool :=
  (0 <? scd_datalen u1) && (scd_datalen u1 =? p_len (u_out u5)).

Lemma scd_eq u0 w :
  send_chunk_or_dataless u0 w =
  let u1 := scd_u1 u0 in
  let u2 := scd_u2 u1 in
  let u5 := scd_u5 u2 w (scd_pktb u1) in
  let o := scd_outs (getq u2 w) (scd_pktb u1) (u_downenc u2) in
  if scd_done u1 u5
  then (fst (get_from_outpacketq (drop_outpacket u5)), o, snd (get_from_outpacketq (drop_outpacket u5)))
  else (u5, o, false).
Proof.
  unfold send_chunk_or_dataless. fold (scd_u1 u0). set (u1 := scd_u1 u0).
  assert (E2 : (if 0 <? p_len (u_out u1)
                then u1 <| u_out := (u_out u1) <| p_sentlen := scd_datalen u1 |> |> <| u_resent := u_resent u1 + 1 |>
                else u1) = scd_u2 u1) by reflexivity.
  fold (scd_datalen u1). rewrite E2. set (u2 := scd_u2 u1).
  assert (Ein : u_in u2 = u_in u1) by (unfold u2, scd_u2; destruct (0 <? p_len (u_out u1)); reflexivity).
  assert (Eo : p_seqno (u_out u2) = p_seqno (u_out u1) /\ p_fragment (u_out u2) = p_fragment (u_out u1))
    by (unfold u2, scd_u2; destruct (0 <? p_len (u_out u1)); split; reflexivity).
  destruct Eo as [Eo1 Eo2]. rewrite Ein, Eo1, Eo2.
  fold (scd_last u1). fold (scd_payload u1). fold (scd_b0 u1). fold (scd_b1 u1). fold (scd_pktb u1).
  cbv zeta. unfold scd_done, scd_u5, scd_outs, scd_q'.
  destruct (negb (h_id2 (getq u2 w) =? 0)); cbv beta iota;
    match goal with |- context [get_from_outpacketq ?x] => destruct (get_from_outpacketq x) end;
    reflexivity.
Qed.

Lemma okey_scd_u1 u : okey (scd_u1 u) = okey u.
Proof.
  unfold scd_u1. destruct ((0 <? p_len (u_out u)) && (5 <? u_resent u)); [|reflexivity].
  rewrite okey_get_from_outpacketq. reflexivity.
Qed.

Lemma okey_scd_u2 u : okey (scd_u2 u) = okey u.
Proof. unfold scd_u2. destruct (0 <? p_len (u_out u)); reflexivity. Qed.

Lemma scd_datalen_le u1 :
  scd_datalen u1 <= u_fragsize u1 /\ scd_datalen u1 <= 4094 /\ scd_datalen u1 <= p_len (u_out u1) - p_offset (u_out u1).
Proof. unfold scd_datalen. cbv zeta. destruct (0 <? p_len (u_out u1)); lia. Qed.

Lemma scd_payload_length u1 : (length (scd_payload u1) <= N.to_nat (scd_datalen u1))%nat.
Proof. unfold scd_payload. rewrite firstn_length. lia. Qed.

Lemma scd_pktb_length u1 : (length (scd_pktb u1) <= N.to_nat 4096)%nat.
Proof.
  unfold scd_pktb. cbn [length]. pose proof (scd_payload_length u1). pose proof (scd_datalen_le u1). lia.
Qed.

(* what save_to_qmem_pingordata remembers for a query name: (ping?, 4-byte fingerprint) *)
Definition qm_kind (nm : list N) : option (bool * list N) :=
  if is_letter (chr nm 0) 112 then
    match index_of DOT nm 0 with
    | None => None
    | Some cp => let cmc := decode b32 8 (firstn (cp - 1) (skipn 1 nm)) in
                 if (length cmc <? 4)%nat then None else Some (true, firstn 4 cmc)
    end
  else if (length nm <? 5)%nat then None else Some (false, lower4 nm).

Definition push_ping (u : suser) (e : qmem_entry) : suser :=
  u <| u_pingmem := set_nth (u_pingmem u) (ring_fill PINGLEN (u_pingmem_last u)) e |>
    <| u_pingmem_last := ring_fill PINGLEN (u_pingmem_last u) |>.
Definition push_data (u : suser) (e : qmem_entry) : suser :=
  u <| u_datamem := set_nth (u_datamem u) (ring_fill DATALEN (u_datamem_last u)) e |>
    <| u_datamem_last := ring_fill DATALEN (u_datamem_last u) |>.
Definition push_cache (u : suser) (e : cache_entry) : suser :=
  u <| u_cache := set_nth (u_cache u) (ring_fill CACHELEN (u_cache_last u)) e |>
    <| u_cache_last := ring_fill CACHELEN (u_cache_last u) |>.

Definition qm_push (u : suser) (nm : list N) (ty : N) : suser :=
  match qm_kind nm with
  | None => u
  | Some (true, cmc) => push_ping u {| qm_cmc := cmc; qm_type := ty |}
  | Some (false, cmc) => push_data u {| qm_cmc := cmc; qm_type := ty |}
  end.

Lemma save_qm_eq u q : save_to_qmem_pingordata u q = qm_push u (h_name q) (h_type q).
Proof.
  unfold save_to_qmem_pingordata, qm_push, qm_kind. cbv zeta.
  destruct (is_letter (chr (h_name q) 0) 112).
  - destruct (index_of DOT (h_name q) 0) as [cp|]; [|reflexivity].
    destruct (length (decode b32 8 (firstn (cp - 1) (skipn 1 (h_name q)))) <? 4)%nat; reflexivity.
  - destruct (length (h_name q) <? 5)%nat; reflexivity.
Qed.

Lemma save_dnscache_eq u q id ans :
  (length ans <= N.to_nat 4096)%nat ->
  save_to_dnscache u q id ans =
  push_cache u {| ce_name := h_name q; ce_type := h_type q; ce_id := id; ce_answer := ans; ce_len := N.of_nat (length ans) |}.
Proof.
  intros H. unfold save_to_dnscache.
  assert (E : (N.to_nat 4096 <? length ans)%nat = false) by (apply Nat.ltb_ge; exact H).
  rewrite E. reflexivity.
Qed.

Lemma scd_q'_name q : h_name (scd_q' q) = h_name q /\ h_type (scd_q' q) = h_type q.
Proof. unfold scd_q'. destruct (negb (h_id2 q =? 0)); split; reflexivity. Qed.

Lemma scd_q'_id q : h_id q <> 0 -> h_id (scd_q' q) <> 0.
Proof.
  intros H. unfold scd_q'. destruct (h_id2 q =? 0) eqn:E; simpl; [exact H|]. apply N.eqb_neq in E. exact E.
Qed.

(* the cache entry written by an emission *)
Definition scd_ce (u0 : suser) (w : which_q) : cache_entry :=
  let q := getq u0 w in
  let p := scd_pktb (scd_u1 u0) in
  {| ce_name := h_name q; ce_type := h_type q; ce_id := h_id (scd_q' q); ce_answer := p; ce_len := N.of_nat (length p) |}.

(* the session after an emission, up to the out-packet / queue bookkeeping *)
Definition scd_core (u : suser) (w : which_q) (nm : list N) (ty : N) (e : cache_entry) (q : hq) : suser :=
  setq (push_cache (qm_push u nm ty) e) w q.

Lemma okey_scd_core u w nm ty e q : okey (scd_core u w nm ty e q) = scd_core (okey u) w nm ty e q.
Proof. unfold scd_core, qm_push. destruct (qm_kind nm) as [[[|] cmc]|]; destruct w; reflexivity. Qed.

Lemma getq_okey u w : getq (okey u) w = getq u w.
Proof. destruct w; reflexivity. Qed.

Lemma getq_of_okey u u' w : okey u' = okey u -> getq u' w = getq u w.
Proof. intros H. rewrite <- (getq_okey u'), <- (getq_okey u), H. reflexivity. Qed.

Lemma scd_result u0 w u' o ag :
  send_chunk_or_dataless u0 w = (u', o, ag) ->
  o = scd_outs (getq u0 w) (scd_pktb (scd_u1 u0)) (u_downenc u0) /\
  okey u' = okey (scd_core u0 w (h_name (getq u0 w)) (h_type (getq u0 w)) (scd_ce u0 w)
                    ((scd_q' (getq u0 w)) <| h_id := 0 |>)).
Proof.
  rewrite scd_eq. cbv zeta.
  set (u1 := scd_u1 u0). set (u2 := scd_u2 u1).
  assert (K2 : okey u2 = okey u0) by (unfold u2; rewrite okey_scd_u2; apply okey_scd_u1).
  assert (Q2 : getq u2 w = getq u0 w) by (apply getq_of_okey, K2).
  assert (D2 : u_downenc u2 = u_downenc u0) by (apply (okey_proj u_downenc); [reflexivity|exact K2]).
  assert (K5 : okey (scd_u5 u2 w (scd_pktb u1)) =
               okey (scd_core u0 w (h_name (getq u0 w)) (h_type (getq u0 w)) (scd_ce u0 w)
                      ((scd_q' (getq u0 w)) <| h_id := 0 |>))).
  { unfold scd_u5. cbv zeta. rewrite save_qm_eq, save_dnscache_eq by apply scd_pktb_length.
    destruct (scd_q'_name (getq u2 w)) as [-> ->]. rewrite Q2.
    change (okey (scd_core u2 w (h_name (getq u0 w)) (h_type (getq u0 w)) (scd_ce u0 w) ((scd_q' (getq u0 w)) <| h_id := 0 |>)) =
            okey (scd_core u0 w (h_name (getq u0 w)) (h_type (getq u0 w)) (scd_ce u0 w) ((scd_q' (getq u0 w)) <| h_id := 0 |>))).
    rewrite !okey_scd_core, K2. reflexivity. }
  rewrite Q2, D2.
  destruct (scd_done u1 (scd_u5 u2 w (scd_pktb u1))); intros H; inversion H; subst; (split; [reflexivity|]).
  - rewrite okey_get_from_outpacketq, okey_drop_outpacket. exact K5.
  - exact K5.
Qed.
