(* ServerAuthFinal.v -- the statements of C03 / C04 in their final, unfolded form (the Properties_C03.v /
   Properties_C04.v files restate them and close each by one of these lemmas). *)
From Coq Require Import List NArith ZArith Arith Bool Lia.
From RecordUpdate Require Import RecordUpdate.
From Iodine Require Import Generated.SrcConsts Base Codec Hostname DnsName DnsMsg Domain Server
  ServerFrame ServerAuthDefs ServerAuthProofs ServerAuthSteps ServerIsolationProofs.
From Iodine Require Users UsersProofs.
Import ListNotations.
Local Open Scope N_scope.

(* ---- the command letter ---------------------------------------------------------------------------- *)

Lemma cmd_of_spec c0 :
  match cmd_of c0 with
  | CV => is_letter c0 118 = true | CL => is_letter c0 108 = true | CI => is_letter c0 105 = true
  | CZ => is_letter c0 122 = true | CS => is_letter c0 115 = true | CO => is_letter c0 111 = true
  | CY => is_letter c0 121 = true | CR => is_letter c0 114 = true | CN => is_letter c0 110 = true
  | CP => is_letter c0 112 = true | CData => is_hex c0 = true | COther => True
  end.
Proof.
  unfold cmd_of.
  repeat (match goal with |- context [if is_letter c0 ?l then _ else _] => destruct (is_letter c0 l) eqn:?; [first [assumption|reflexivity]|] end).
  destruct (is_hex c0) eqn:?; [first [assumption|reflexivity]|exact I].
Qed.

Lemma is_letter_cases c0 l : is_letter c0 l = true -> c0 = l \/ c0 = l - 32.
Proof. unfold is_letter. rewrite orb_true_iff, !N.eqb_eq. tauto. Qed.

(* distinct command letters select distinct commands *)
Lemma cmd_of_letter c0 l k : is_letter c0 l = true ->
  In (l, k) [(118, CV); (108, CL); (105, CI); (122, CZ); (115, CS); (111, CO); (121, CY); (114, CR); (110, CN); (112, CP)] ->
  cmd_of c0 = k.
Proof.
  intros Hl Hin. apply is_letter_cases in Hl. simpl in Hin.
  repeat (destruct Hin as [Hin|Hin]; [inversion Hin; subst; destruct Hl; subst; vm_compute; reflexivity|]).
  destruct Hin.
Qed.

Lemma chr_req_inb q dl : (1 <= dl)%nat -> chr (req_inb q dl) 0 = chr (h_name q) 0.
Proof.
  intros H. unfold req_inb, chr. destruct dl; [lia|]. destruct (h_name q); reflexivity.
Qed.

Section WithOracles.
Variable login : list N -> N -> list N.
Variable zc : list N -> list N.
Variable unz : list N -> option (list N).

Notation step := (Server.step login zc unz).
Notation run := (ServerAuthSteps.run login zc unz).

(* ---- C03 ------------------------------------------------------------------------------------------------ *)

Lemma login_event_unfold c st e i : login_event login c st e i ->
  exists now rnd q dl,
    e = EDns now rnd q /\ dispatch c q = Some dl /\ (2 <= dl)%nat /\
    is_letter (chr (h_name q) 0) 108 = true /\
    (18 <= length (req_unpacked q dl))%nat /\
    schar (chr (req_unpacked q dl) 0) = Z.of_nat i /\
    firstn 16 (skipn 1 (req_unpacked q dl)) = login (c_password c) (u_seed (getu st i)) /\
    check_user_and_ip c st now (Z.of_nat i) (h_from q) = false /\
    slot_ok st now i /\ source_ok c (getu st i) (h_from q).
Proof.
  intros (now & rnd & q & dl & (He & Hd & Hdl) & Ek & Hn & Hc & (H18 & Hh)).
  exists now, rnd, q, dl. split; [exact He|]. split; [exact Hd|]. split; [exact Hdl|].
  split. { rewrite <- (chr_req_inb q dl) by lia. pose proof (cmd_of_spec (chr (req_inb q dl) 0)) as S. rewrite Ek in S. exact S. }
  split; [exact H18|]. split. { rewrite (named_of _ _ _ Ek) in Hn. inversion Hn. reflexivity. }
  split; [exact Hh|]. split; [exact Hc|]. apply cuip_nat, Hc.
Qed.

Lemma final_auth c st e st' outs i : step c st e = (st', outs) ->
  u_auth (getu st i) = false -> u_auth (getu st' i) = true ->
  exists now rnd q dl,
    e = EDns now rnd q /\ dispatch c q = Some dl /\ (2 <= dl)%nat /\
    is_letter (chr (h_name q) 0) 108 = true /\
    (18 <= length (req_unpacked q dl))%nat /\
    schar (chr (req_unpacked q dl) 0) = Z.of_nat i /\
    firstn 16 (skipn 1 (req_unpacked q dl)) = login (c_password c) (u_seed (getu st i)) /\
    check_user_and_ip c st now (Z.of_nat i) (h_from q) = false /\
    slot_ok st now i /\ source_ok c (getu st i) (h_from q) /\
    getu st' i = set_login now (getu st i).
Proof.
  intros H F T. destruct (step_slot_change login zc unz _ _ _ _ _ H) as [_ S]. specialize (S i).
  destruct S as [Hs | now rnd q He Ha Hu | now rnd q He Hl Hu | Ho Hi | now from pk He Hr Hu].
  - apply sec_fields in Hs. destruct Hs as (_ & Hs & _). congruence.
  - rewrite Hu in T. discriminate.
  - destruct (login_event_unfold _ _ _ _ Hl) as (now' & rnd' & q' & dl & He' & R).
    rewrite He in He'. inversion He'; subst now' rnd' q'.
    exists now, rnd, q, dl. split; [exact He|].
    destruct R as (R1 & R2 & R3 & R4 & R5 & R6 & R7 & R8 & R9). repeat (split; [assumption|]). exact Hu.
  - unfold ident in Hi. inversion Hi. congruence.
  - rewrite Hu in T. simpl in T. congruence.
Qed.

Lemma final_authraw c st e st' outs i : step c st e = (st', outs) ->
  u_auth_raw (getu st i) = false -> u_auth_raw (getu st' i) = true ->
  exists now from pk,
    e = ERaw now from pk /\ (4 <= length pk)%nat /\ firstn 3 pk = firstn 3 src_raw_header /\
    N.land (chr pk 3) src_RAW_HDR_CMD_MASK = src_RAW_HDR_CMD_LOGIN /\
    N.to_nat (N.land (chr pk 3) src_RAW_HDR_USR_MASK) = i /\
    (16 <= length (skipn 4 pk))%nat /\
    firstn 16 (skipn 4 pk) = login (c_password c) (wrap32 (Z.of_N (u_seed (getu st i)) + 1)) /\
    slot_ok st now i /\ u_auth (getu st i) = true /\
    getu st' i = set_raw now from (getu st i).
Proof.
  intros H F T. destruct (step_slot_change login zc unz _ _ _ _ _ H) as [_ S]. specialize (S i).
  destruct S as [Hs | now rnd q He Ha Hu | now rnd q He Hl Hu | Ho Hi | now from pk He Hr Hu].
  - apply sec_fields in Hs. destruct Hs as (_ & _ & Hs & _). congruence.
  - rewrite Hu in T. discriminate.
  - rewrite Hu in T. simpl in T. congruence.
  - unfold ident in Hi. inversion Hi. congruence.
  - destruct Hr as (now' & from' & pk' & He' & (A1 & A2 & A3 & A4) & (B1 & B2 & B3 & B4)).
    rewrite He in He'. inversion He'; subst now' from' pk'.
    exists now, from, pk. repeat (split; [assumption|]). exact Hu.
Qed.

(* a V request that finds a slot *)
Lemma final_claim c st now rnd q dl i st' outs :
  dispatch c q = Some dl -> (2 <= dl)%nat -> is_letter (chr (h_name q) 0) 118 = true ->
  version_of (req_unpacked q dl) = src_PROTOCOL_VERSION -> find_available_from st now 0 = Some i ->
  step c st (EDns now rnd q) = (st', outs) ->
  getu st' i = reset_session (claim now (getu st i)) q (rnd mod 2147483648) /\
  u_active (getu st' i) = true /\ u_auth (getu st' i) = false /\ u_auth_raw (getu st' i) = false /\
  u_locked (getu st' i) = false /\ u_seed (getu st' i) = rnd mod 2147483648 /\
  u_host (getu st' i) = h_from q /\ u_last (getu st' i) = now /\
  (forall j, j <> i -> getu st' j = getu st j) /\
  outs = [mk_answer q (vack (rnd mod 2147483648) i) 84].
Proof.
  intros Hd Hdl Hv Ev Ef H.
  assert (Ek : cmd_of (chr (req_inb q dl) 0) = CV).
  { apply (cmd_of_letter _ 118); [rewrite chr_req_inb by lia; exact Hv|simpl; tauto]. }
  assert (Hr : dns_req c (EDns now rnd q) now rnd q dl) by (repeat split; assumption).
  destruct (alloc_result login zc unz _ _ _ _ _ _ _ _ _ Hr Ek Ev Ef H) as (_ & Ho & Hg & Hj).
  pose proof (reset_claim_fields now (getu st i) q (rnd mod 2147483648)) as F. cbv zeta in F.
  rewrite Hg. split; [reflexivity|]. repeat (split; [apply F|]). split; [exact Hj|exact Ho].
Qed.

Lemma alloc_event_unfold c st e i : alloc_event c st e i ->
  exists now rnd q dl, e = EDns now rnd q /\ dispatch c q = Some dl /\ (2 <= dl)%nat /\
    is_letter (chr (h_name q) 0) 118 = true /\
    version_of (req_unpacked q dl) = src_PROTOCOL_VERSION /\ find_available_from st now 0 = Some i.
Proof.
  intros (now & rnd & q & dl & (He & Hd & Hdl) & Ek & Ev & Ef). exists now, rnd, q, dl.
  repeat (split; [assumption|]). split; [|split; assumption].
  rewrite <- (chr_req_inb q dl) by lia. pose proof (cmd_of_spec (chr (req_inb q dl) 0)) as S. rewrite Ek in S. exact S.
Qed.

Lemma final_claim_only c st e st' outs i : step c st e = (st', outs) ->
  u_active (getu st' i) <> u_active (getu st i) \/ u_seed (getu st' i) <> u_seed (getu st i) ->
  exists now rnd q dl, e = EDns now rnd q /\ dispatch c q = Some dl /\ (2 <= dl)%nat /\
    is_letter (chr (h_name q) 0) 118 = true /\
    version_of (req_unpacked q dl) = src_PROTOCOL_VERSION /\ find_available_from st now 0 = Some i.
Proof. intros H D. apply alloc_event_unfold. eapply seed_only_by_alloc; eassumption. Qed.

(* -- privileged effects, in terms of the session the request acts for *)

Lemma final_tun_write c st e st' outs b : step c st e = (st', outs) -> In (OTun b) outs ->
  exists i, (data_event c st e i \/ rawdata_event c st e i) /\
    u_auth (getu st i) = true /\
    (rawdata_event c st e i -> u_auth_raw (getu st i) = true) /\
    slot_ok st (match e with EDns now _ _ | ERaw now _ _ | ETun now _ | ESweepClear now | ESweepSend now => now end) i.
Proof.
  intros H Hin. destruct (tun_write_authorized login zc unz _ _ _ _ _ _ H Hin) as [[i Hd]|[i Hd]]; exists i.
  - split; [left; exact Hd|]. destruct Hd as (now & rnd & q & dl & (He & _) & _ & _ & Hc). subst e.
    apply check_auth_nat in Hc. split; [tauto|]. split; [|tauto].
    intros (now' & from & pk & He & _). discriminate.
  - split; [right; exact Hd|]. destruct Hd as (now & from & pk & He & _ & Hc & Hr). subst e.
    apply check_auth_nat in Hc. split; [tauto|]. split; [intros _; exact Hr|tauto].
Qed.

Lemma final_dns_change c st now rnd q st' outs : step c st (EDns now rnd q) = (st', outs) -> st' <> st ->
  (exists i, alloc_event c st (EDns now rnd q) i /\ forall j, j <> i -> getu st' j = getu st j) \/
  (exists i dl, dispatch c q = Some dl /\ (2 <= dl)%nat /\ named_user q dl = Some (Z.of_nat i) /\
     cmd_check c st now (cmd_of (chr (req_inb q dl) 0)) (Z.of_nat i) (h_from q) = false /\
     slot_ok st now i /\ source_ok c (getu st i) (h_from q) /\
     (cmd_of (chr (req_inb q dl) 0) <> CL -> u_auth (getu st i) = true) /\
     (cmd_of (chr (req_inb q dl) 0) = CL -> forall j, j <> i -> getu st' j = getu st j)).
Proof.
  intros H Hne. destruct (dns_change_authorized login zc unz _ _ _ _ _ _ _ H Hne) as [[i Ha]|[i [Ha Hl]]].
  - left. exists i. split; [exact Ha|].
    destruct (alloc_clears login zc unz _ _ _ _ _ _ H Ha) as (_ & _ & _ & _ & _ & _ & _ & _ & _ & Hj). exact Hj.
  - right. destruct Ha as (now' & rnd' & q' & dl & (He & Hd & Hdl) & Hn & Hc). inversion He; subst now' rnd' q'.
    exists i, dl. repeat (split; [assumption|]).
    destruct (named_cmd _ _ _ Hn) as (K1 & K2 & K3 & K4).
    pose proof (cmd_check_false_cuip _ _ _ _ _ _ K1 K2 K3 K4 Hc) as Hu. apply cuip_nat in Hu.
    split; [tauto|]. split; [tauto|]. split.
    + intros Hk. pose proof (cmd_check_false_auth _ _ _ _ _ _ K1 K2 K3 K4 Hk Hc) as Hau.
      rewrite Nat2Z.id in Hau. exact Hau.
    + intros Hk. apply (Hl dl Hd Hk).
Qed.

Lemma final_raw_change c st now from pk st' outs : step c st (ERaw now from pk) = (st', outs) ->
  st' <> st \/ outs <> [] ->
  exists i, slot_ok st now i /\ u_auth (getu st i) = true /\
    ((raw_hdr pk src_RAW_HDR_CMD_LOGIN i /\ raw_login_ok login c st now pk i) \/
     ((raw_hdr pk src_RAW_HDR_CMD_DATA i \/ raw_hdr pk src_RAW_HDR_CMD_PING i) /\
      check_auth c st now (Z.of_nat i) from = false /\ u_auth_raw (getu st i) = true /\
      source_ok c (getu st i) from)).
Proof.
  intros H Hne. destruct (raw_change_authorized login zc unz _ _ _ _ _ _ _ H Hne) as [[i Hr]|[[i Hr]|[i Hr]]];
    exists i; destruct Hr as (now' & from' & pk' & He & R); inversion He; subst now' from' pk'.
  - destruct R as (Hh & Hok). pose proof Hok as (_ & Hs & Ha & _). split; [exact Hs|]. split; [exact Ha|].
    left. split; assumption.
  - destruct R as (Hh & Hc & Hr). pose proof (check_auth_nat _ _ _ _ _ Hc) as (Hs & Hso & Ha).
    split; [exact Hs|]. split; [exact Ha|]. right. split; [left; exact Hh|]. split; [exact Hc|]. split; [exact Hr|exact Hso].
  - destruct R as (Hh & Hc & Hr). pose proof (check_auth_nat _ _ _ _ _ Hc) as (Hs & Hso & Ha).
    split; [exact Hs|]. split; [exact Ha|]. right. split; [right; exact Hh|]. split; [exact Hc|]. split; [exact Hr|exact Hso].
Qed.

(* the I request: BADIP unless the named session is logged in (and passes the source check) *)
Lemma final_I c st now rnd q dl st' outs : dispatch c q = Some dl -> (2 <= dl)%nat ->
  is_letter (chr (h_name q) 0) 105 = true ->
  step c st (EDns now rnd q) = (st', outs) ->
  let uz := Z.of_N (b32_8to5 (chr (req_inb q dl) 1)) in
  st' = st /\
  ((check_auth c st now uz (h_from q) = true /\ outs = [mk_answer q s_BADIP 84]) \/
   (check_auth c st now uz (h_from q) = false /\ outs = [mk_answer q (i_reply c q) 84] /\
    slot_ok st now (Z.to_nat uz) /\ u_auth (getu st (Z.to_nat uz)) = true)).
Proof.
  intros Hd Hdl Hi. cbv zeta.
  assert (Ek : cmd_of (chr (req_inb q dl) 0) = CI).
  { apply (cmd_of_letter _ 105); [rewrite chr_req_inb by lia; exact Hi|simpl; tauto]. }
  simpl. rewrite (tunnel_dns_dispatch login unz c st now rnd q dl Hd), hnr_eq. unfold hnr'.
  destruct (dl <? 2)%nat eqn:E; [apply Nat.ltb_lt in E; lia|]. cbv zeta. rewrite Ek. unfold hI. cbv zeta.
  destruct (check_auth c st now (Z.of_N (b32_8to5 (chr (req_inb q dl) 1))) (h_from q)) eqn:Ec;
    intros H; inversion H; subst; (split; [reflexivity|]).
  - left. split; reflexivity.
  - right. split; [reflexivity|]. split; [reflexivity|].
    apply check_auth_false in Ec. destruct Ec as [Ec Ha]. apply cuip_false in Ec. tauto.
Qed.

Lemma option_event_auth c st e i : option_event c st e i ->
  exists now, slot_ok st now i /\ u_auth (getu st i) = true /\
    (match e with EDns n _ _ => n = now | _ => False end).
Proof.
  intros (now & rnd & q & dl & (He & _) & _ & _ & Hc). exists now. subst e.
  apply check_auth_options_false, check_auth_nat in Hc. tauto.
Qed.

Lemma final_options c st e st' outs i : step c st e = (st', outs) ->
  u_enc (getu st' i) <> u_enc (getu st i) \/ u_downenc (getu st' i) <> u_downenc (getu st i) \/
  u_lazy (getu st' i) <> u_lazy (getu st i) \/ u_fragsize (getu st' i) <> u_fragsize (getu st i) \/
  u_locked (getu st' i) <> u_locked (getu st i) ->
  alloc_event c st e i \/ (option_event c st e i /\ u_auth (getu st i) = true).
Proof.
  intros H D. destruct (options_only_by_option_cmd login zc unz _ _ _ _ _ _ H D) as [Ha|Ho]; [left; exact Ha|].
  right. split; [exact Ho|]. destruct (option_event_auth _ _ _ _ Ho) as (now & _ & Ha & _). exact Ha.
Qed.

Lemma final_conn_raw c st e st' outs i : step c st e = (st', outs) ->
  u_conn (getu st i) = CONN_DNS -> u_conn (getu st' i) = CONN_RAW ->
  rawlogin_event login c st e i /\ u_auth (getu st i) = true.
Proof.
  intros H F T. pose proof (conn_raw_only_by_raw_login login zc unz _ _ _ _ _ _ H F T) as Hr.
  split; [exact Hr|]. destruct Hr as (now & from & pk & _ & _ & (_ & _ & Ha & _)). exact Ha.
Qed.

(* wrong, out-of-range and negative userids *)
Lemma final_bad_userid c st now rnd q dl uz : dispatch c q = Some dl -> (2 <= dl)%nat ->
  named_user q dl = Some uz ->
  (uz < 0)%Z \/ (Z.of_nat (length st) <= uz)%Z \/ u_active (getu st (Z.to_nat uz)) = false ->
  step c st (EDns now rnd q) = (st, refusal (precheck q dl) q).
Proof.
  intros Hd Hdl Hn Hb. apply (step_refused_basic login zc unz c st _ now rnd q dl uz); [repeat split; assumption|exact Hn|].
  destruct Hb as [Hb|[Hb|Hb]].
  - apply cuip_negative, Hb.
  - apply cuip_out_of_range. unfold in_range. destruct (0 <=? uz)%Z eqn:E0; [|reflexivity]. simpl.
    apply Nat.ltb_ge. apply Z.leb_le in E0. lia.
  - apply cuip_inactive. left; exact Hb.
Qed.

Lemma named_user_negative q dl b : (2 <= dl)%nat ->
  (cmd_of (chr (req_inb q dl) 0) = CL \/ cmd_of (chr (req_inb q dl) 0) = CN \/ cmd_of (chr (req_inb q dl) 0) = CP) ->
  chr (req_unpacked q dl) 0 = b -> 128 <= b < 256 ->
  exists uz, named_user q dl = Some uz /\ (uz < 0)%Z.
Proof.
  intros _ Hk Hb Hr. exists (schar b). split; [|apply schar_negative, Hr].
  destruct Hk as [Hk|[Hk|Hk]]; rewrite (named_of _ _ _ Hk), Hb; reflexivity.
Qed.

(* replay: a login carrying the response to another challenge logs in only if the responses coincide *)
Lemma final_replay c st e st' outs i now rnd q dl s_old : step c st e = (st', outs) ->
  u_auth (getu st i) = false -> u_auth (getu st' i) = true ->
  e = EDns now rnd q -> dispatch c q = Some dl ->
  firstn 16 (skipn 1 (req_unpacked q dl)) = login (c_password c) s_old ->
  login (c_password c) s_old = login (c_password c) (u_seed (getu st i)).
Proof.
  intros H F T He Hd Hold. destruct (final_auth _ _ _ _ _ _ H F T) as (now' & rnd' & q' & dl' & He' & Hd' & _ & _ & _ & _ & Hh & _).
  rewrite He in He'. inversion He'; subst now' rnd' q'. rewrite Hd in Hd'. inversion Hd'; subst dl'.
  rewrite <- Hold. exact Hh.
Qed.

(* ---- C04 ------------------------------------------------------------------------------------------------ *)

Lemma final_badip c st now rnd q dl uz : c_check_ip c = true ->
  dispatch c q = Some dl -> (2 <= dl)%nat -> named_user q dl = Some uz ->
  a_fam (h_from q) <> a_fam (u_host (getu st (Z.to_nat uz))) \/
  a_ip (h_from q) <> a_ip (u_host (getu st (Z.to_nat uz))) ->
  step c st (EDns now rnd q) = (st, refusal (precheck q dl) q).
Proof.
  intros Hc Hd Hdl Hn Hf. apply (step_refused_basic login zc unz c st _ now rnd q dl uz); [repeat split; assumption|exact Hn|].
  apply cuip_foreign; assumption.
Qed.

Lemma final_expired c st now rnd q dl uz : dispatch c q = Some dl -> (2 <= dl)%nat -> named_user q dl = Some uz ->
  u_last (getu st (Z.to_nat uz)) + src_USER_TIMEOUT < now ->
  step c st (EDns now rnd q) = (st, refusal (precheck q dl) q).
Proof.
  intros Hd Hdl Hn Ht. apply (step_refused_basic login zc unz c st _ now rnd q dl uz); [repeat split; assumption|exact Hn|].
  apply cuip_expired. apply N.ltb_lt. exact Ht.
Qed.

Lemma final_expired_raw c st now from pk v i : raw_hdr pk v i ->
  u_last (getu st i) + src_USER_TIMEOUT < now -> step c st (ERaw now from pk) = (st, []).
Proof.
  intros Hh Ht. destruct (raw_decode login unz c st now pk from) as [[st' outs]|] eqn:Er; simpl; rewrite Er; [|reflexivity].
  apply raw_effect_spec in Er. apply N.ltb_lt in Ht.
  destruct Er as [ | i0 Hh' Hok | i0 st' outs Hh' Hc Hr SS | i0 Hh' Hc Hr]; [reflexivity| | | ];
    destruct (raw_hdr_fun _ _ _ _ _ Hh Hh') as [_ <-]; exfalso.
  - destruct Hok as (_ & (_ & _ & _ & Hx) & _). unfold TIMEOUT in Hx. congruence.
  - apply check_auth_nat in Hc. destruct Hc as ((_ & _ & _ & Hx) & _). unfold TIMEOUT in Hx. congruence.
  - apply check_auth_nat in Hc. destruct Hc as ((_ & _ & _ & Hx) & _). unfold TIMEOUT in Hx. congruence.
Qed.

(* exactly 60 s of silence: still accepted by the checks, not yet reusable, no longer routed to *)
Lemma final_boundary st now i : u_last (getu st i) + src_USER_TIMEOUT = now ->
  (u_last (getu st i) + TIMEOUT <? now) = false /\
  (u_active (getu st i) = true -> avail now (getu st i) = false) /\
  (forall ip, routable now ip (getu st i) = false).
Proof.
  intros H. unfold TIMEOUT. split; [apply N.ltb_ge; lia|]. split.
  - intros Ha. unfold avail. rewrite Ha. simpl.
    assert (E : src_USER_TIMEOUT_AVAIL = src_USER_TIMEOUT) by reflexivity. rewrite E.
    replace (u_last (getu st i) + src_USER_TIMEOUT <? now) with false by (symmetry; apply N.ltb_ge; lia). reflexivity.
  - intros ip. unfold routable, live, TIMEOUT.
    replace (now <? u_last (getu st i) + src_USER_TIMEOUT) with false by (symmetry; apply N.ltb_ge; lia).
    rewrite !andb_false_r. reflexivity.
Qed.

Lemma final_rebind c st e st' outs i : step c st e = (st', outs) ->
  u_host (getu st' i) <> u_host (getu st i) ->
  alloc_event c st e i \/
  (exists now from pk, e = ERaw now from pk /\ raw_hdr pk src_RAW_HDR_CMD_LOGIN i /\
     raw_login_ok login c st now pk i /\ u_host (getu st' i) = from).
Proof.
  intros H D. destruct (step_slot_change login zc unz _ _ _ _ _ H) as [_ S]. specialize (S i).
  destruct S as [Hs | now rnd q He Ha Hu | now rnd q He Hl Hu | Ho Hi | now from pk He Hr Hu].
  - apply sec_fields in Hs. destruct Hs as (_ & _ & _ & _ & _ & _ & _ & Hs & _). congruence.
  - left; exact Ha.
  - rewrite Hu in D. simpl in D. congruence.
  - unfold ident in Hi. inversion Hi. congruence.
  - right. destruct Hr as (now' & from' & pk' & He' & Hh & Hok). rewrite He in He'. inversion He'; subst now' from' pk'.
    exists now, from, pk. repeat (split; [assumption|]). rewrite Hu. reflexivity.
Qed.

Lemma final_route_tun c st now pkt st' outs : step c st (ETun now pkt) = (st', outs) ->
  match route st now pkt with
  | None => st' = st /\ outs = []
  | Some t =>
      (24 <= length pkt)%nat /\ (t < length st)%nat /\
      routable now (le32_at pkt 20) (getu st t) = true /\
      (forall j, (j < t)%nat -> routable now (le32_at pkt 20) (getu st j) = false) /\
      length st' = length st /\ (forall j, j <> t -> getu st' j = getu st j) /\
      sec (getu st' t) = sec (getu st t) /\ Forall (out_for t (getu st t)) outs
  end.
Proof.
  intros H. apply (route_tun login zc unz) in H. destruct (route st now pkt) as [t|] eqn:Er; [|exact H].
  destruct (route_some _ _ _ _ Er) as [Hl Hf]. destruct (fubi_some _ _ _ _ Hf) as (A & B & C).
  repeat (split; [assumption|]). exact H.
Qed.

Lemma final_route_forward st now i st' outs : handle_full_packet unz st now i = (st', outs) ->
  sec_same st st' /\
  match unz (hfp_raw st i) with
  | None => outs = [] /\ forall j, j <> i -> getu st' j = getu st j
  | Some ip =>
      match route st now ip with
      | None => outs = [OTun ip] /\ forall j, j <> i -> getu st' j = getu st j
      | Some t =>
          (t < length st)%nat /\ routable now (le32_at ip 20) (getu st t) = true /\
          (forall j, (j < t)%nat -> routable now (le32_at ip 20) (getu st j) = false) /\
          Forall (out_for t (getu st t)) outs /\
          forall j, j <> i -> j <> t -> getu st' j = getu st j
      end
  end.
Proof.
  intros H. apply hfp_spec in H. destruct H as [SS H]. split; [exact SS|].
  destruct (unz (hfp_raw st i)) as [ip|]; [|exact H].
  destruct (route st now ip) as [t|] eqn:Er; [|exact H].
  destruct (route_some _ _ _ _ Er) as [Hl Hf]. destruct (fubi_some _ _ _ _ Hf) as (A & B & C).
  repeat (split; [assumption|]). exact H.
Qed.

(* on every reachable table the tunnel addresses are those handed out at start-up: the owner of an
   address is unique as soon as they are distinct (C18: they are, for init_users) *)
Lemma final_route_unique c ips es ip now t : NoDup ips ->
  let st := run c (init_state ips) es in
  (find_user_by_ip st ip now = Some t <-> (t < length st)%nat /\ routable now ip (getu st t) = true) /\
  (find_user_by_ip st ip now = Some t -> forall j, (j < length st)%nat -> u_tun_ip (getu st j) = ip -> j = t) /\
  map u_tun_ip st = ips.
Proof.
  intros Hnd. cbv zeta. destruct (run_invariant login zc unz c ips es) as (_ & M & _).
  assert (Hnd' : NoDup (map u_tun_ip (run c (init_state ips) es))) by (rewrite M; exact Hnd).
  destruct (fubi_unique _ ip now t Hnd') as [A B]. split; [exact A|]. split; [exact B|exact M].
Qed.

Lemma final_pool_nodup my_ip nb : my_ip < 2 ^ 32 -> (8 <= nb <= 30)%nat -> NoDup (fst (Users.init_users my_ip nb)).
Proof. apply UsersProofs.init_users_nodup. Qed.

Lemma final_no_takeover c st e i : alloc_event c st e i ->
  exists now rnd q, e = EDns now rnd q /\ (i < length st)%nat /\
    (u_active (getu st i) = false \/ u_last (getu st i) + src_USER_TIMEOUT_AVAIL < now) /\
    u_disabled (getu st i) = false /\
    (forall j, (j < i)%nat -> avail now (getu st j) = false) /\
    forall st' outs, step c st e = (st', outs) -> forall j, j <> i -> getu st' j = getu st j.
Proof.
  intros Ha. destruct (alloc_only_free _ _ _ _ Ha) as (now & rnd & q & He & R). exists now, rnd, q.
  split; [exact He|]. destruct R as (R1 & R2 & R3 & R4). repeat (split; [assumption|]).
  intros st' outs H. destruct (alloc_clears login zc unz _ _ _ _ _ _ H Ha) as (_ & _ & _ & _ & _ & _ & _ & _ & _ & Hj).
  exact Hj.
Qed.

Lemma final_version_request c st now rnd q dl st' outs : dispatch c q = Some dl -> (2 <= dl)%nat ->
  is_letter (chr (h_name q) 0) 118 = true -> step c st (EDns now rnd q) = (st', outs) ->
  st' = st \/ exists i, alloc_event c st (EDns now rnd q) i /\ forall j, j <> i -> getu st' j = getu st j.
Proof.
  intros Hd Hdl Hv H.
  assert (Ek : cmd_of (chr (req_inb q dl) 0) = CV).
  { apply (cmd_of_letter _ 118); [rewrite chr_req_inb by lia; exact Hv|simpl; tauto]. }
  apply (version_request_effect login zc unz c st _ now rnd q dl st' outs); [repeat split; assumption|exact Ek|exact H].
Qed.

End WithOracles.

(* ---- a concrete configuration for the non-vacuity examples of Properties_C03.v / Properties_C04.v:
   the instantiation of the oracles used by the correspondence run ------------------------------------- *)

Definition ex_dom : list N := [97; 46; 98; 99].                              (* a.bc *)
Definition ex_pw : list N := [112; 119] ++ repeat 0 30.
Definition ex_c (chk : bool) : cfg :=
  {| c_topdomain := ex_dom; c_password := ex_pw; c_check_ip := chk; c_my_ip := 16777226 (* 10.0.0.1 *);
     c_netmask := 27; c_mtu := 1130; c_ns_ip := None; c_bind := false |}.
Definition ex_ips : list N := fst (Users.init_users 16777226 27).
Definition ex_A : addr := {| a_fam := 2; a_ip := [192; 0; 2; 10]; a_port := 4000 |}.
Definition ex_B : addr := {| a_fam := 2; a_ip := [192; 0; 2; 11]; a_port := 4001 |}.
Definition ex_q (name : list N) (from : addr) (id : N) : hq :=
  {| h_name := name; h_type := 10; h_id := id; h_from := from; h_id2 := 0; h_from2 := addr0; h_dest := None |}.
Definition ex_name (letter : N) (payload : list N) : list N :=
  [letter] ++ fst (encode b32 200 payload) ++ [46] ++ ex_dom.
Definition ex_V (from : addr) : hq := ex_q (ex_name 118 [0; 0; 5; 2; 0; 1]) from 7.
Definition ex_L (from : addr) (uid seed : N) : hq := ex_q (ex_name 108 (uid :: login_stub ex_pw seed ++ [0; 1])) from 8.
Definition ex_step (chk : bool) := Server.step login_stub zc_frame unz_frame (ex_c chk).
Definition ex_flags (st : sstate) (i : nat) := (u_active (getu st i), u_auth (getu st i), u_seed (getu st i), u_last (getu st i)).
(* a digest of the table that keeps the examples small: access-control fields, last_pkt, pending
   query id and outgoing packet length of every slot *)
Definition ex_sig (st : sstate) := map (fun u => (sec u, u_last u, h_id (u_q u), p_len (u_out u))) st.
Definition ex_res (r : sstate * list out) := (ex_sig (fst r), snd r).

