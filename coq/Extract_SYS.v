(* Extraction of the composed system model for the whole-system correspondence runs (C01/C02). *)
From Coq Require Import Extraction ExtrOcamlBasic.
From Iodine Require Import Codec Hostname DnsName DnsMsg Users Server Client Tunnel.
Extraction Language OCaml.
Set Extraction Optimize.
Extraction "extracted/model_sys.ml" Tunnel.sys_step Tunnel.setup Client.client_init Users.init_users
  Server.zc_frame Server.unz_frame Server.login_stub Server.getu.
