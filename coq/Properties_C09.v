(* Properties_C09.v -- final statements for property C09: downstream answers decode exactly (or
   to a prefix), monotonically in size.  Only statements, each closed by [exact]/[apply] of a lemma
   from DnsMsgProofs*.v, with Print Assumptions beneath; non-vacuity examples at the end.

   Setting of every theorem: q a query with q_id < 65536, q_type one of the seven tunnel types
   ([is_ctype]), q_name a well-formed dotted name ([wf_qname]); payload p with bytes_ok p and at
   least 2 bytes; downenc ANY byte (the letters S, U, V, R select Base64, Base64u, Base128, raw;
   everything else behaves as T = Base32); td ANY state of the rotating ".xy" suffix (no bound is
   needed); buflen the client's buffer size with [client_fits]: at least 4096 (the client uses
   65536 in tunnel mode and 4096 during the handshake), and for MX / SRV additionally
   length p <= 4096 and the decoded name list fits ([mx_fits]: 254 * (length p / 153 + 1) + 2
   <= buflen, true for 65536 with every length <= 4096, and for 4096 with every length <= 2295,
   which covers the 11-bit fragment-size probes of the handshake).
   ans := write_dns q p downenc td, and for fst ans = Some d, r := client_extract buflen d (length d). *)
From Coq Require Import List NArith ZArith Arith Bool Lia.
From Iodine Require Import Base Codec CodecProofs Hostname DnsName DnsWf DnsMsg
  DnsMsgProofs_Base DnsMsgProofs_Null DnsMsgProofs_Txt DnsMsgProofs_Name DnsMsgProofs_Mx DnsMsgProofs_MxClient DnsMsgProofs DnsMsgProofs_Sent DnsMsgProofs_MxSize DnsMsgExamples_C09.
Import ListNotations.
Local Open Scope N_scope.

(* whatever the client extracts is a prefix of the payload -- never different bytes -- and the
   answer carries the id, (answer) type and first name byte of the question *)
Theorem C09_prefix : forall q p downenc td buflen d,
  q_id q < 65536 -> is_ctype (q_type q) -> wf_qname (q_name q) ->
  bytes_ok p -> (2 <= length p)%nat -> client_fits (q_type q) (length p) buflen ->
  fst (write_dns q p downenc td) = Some d ->
  let r := client_extract buflen d (length d) in
  (0 <= da_rv r)%Z /\
  da_out r = firstn (Z.to_nat (da_rv r)) p /\ (Z.to_nat (da_rv r) <= length p)%nat /\
  da_id r = Some (q_id q) /\ da_type r = Some (answer_type (q_type q)) /\
  da_name0 r = Some (hd 0 (q_name q)).
Proof. exact c09_prefix. Qed.
Print Assumptions C09_prefix.

(* a payload within the capacity of the answer format is delivered exactly *)
Theorem C09_exact : forall q p downenc td buflen d,
  q_id q < 65536 -> is_ctype (q_type q) -> wf_qname (q_name q) ->
  bytes_ok p -> (2 <= length p)%nat -> client_fits (q_type q) (length p) buflen ->
  fst (write_dns q p downenc td) = Some d ->
  (length p <= capacity (q_type q) downenc)%nat ->
  let r := client_extract buflen d (length d) in
  da_rv r = Z.of_nat (length p) /\ da_out r = p.
Proof. exact c09_exact. Qed.
Print Assumptions C09_exact.

(* the table is tight for the single-record types: a payload delivered exactly is within it *)
Theorem C09_exact_tight : forall q p downenc td buflen d,
  q_id q < 65536 -> is_ctype (q_type q) -> ~ mx_type (q_type q) -> wf_qname (q_name q) ->
  bytes_ok p -> (2 <= length p)%nat -> client_fits (q_type q) (length p) buflen ->
  fst (write_dns q p downenc td) = Some d ->
  (let r := client_extract buflen d (length d) in da_rv r = Z.of_nat (length p) /\ da_out r = p) ->
  (length p <= capacity (q_type q) downenc)%nat.
Proof. exact c09_exact_conv. Qed.
Print Assumptions C09_exact_tight.

(* the capacity table, and what each entry is the solution of *)
Theorem C09_capacity_table :
  (forall e, capacity T_NULL e = N.to_nat 4096 /\ capacity T_PRIVATE e = N.to_nat 4096 /\
             capacity T_MX e = N.to_nat 4096 /\ capacity T_SRV e = N.to_nat 4096) /\
  (capacity T_TXT 84 = N.to_nat 2559 /\ capacity T_TXT 83 = N.to_nat 3071 /\ capacity T_TXT 85 = N.to_nat 3071 /\
   capacity T_TXT 86 = N.to_nat 3583 /\ capacity T_TXT 82 = N.to_nat 4095) /\
  (forall ty, ty = T_CNAME \/ ty = T_A ->
     capacity ty 84 = 153%nat /\ capacity ty 83 = 183%nat /\ capacity ty 85 = 183%nat /\
     capacity ty 86 = 214%nat /\ capacity ty 82 = 153%nat) /\
  (forall e n, (n <= capacity T_TXT e)%nat <-> (1 + txt_textlen e n <= 4096)%nat) /\
  (forall ty e n, ty = T_CNAME \/ ty = T_A ->
     ((n <= capacity ty e)%nat <-> (enclen (cbits (host_codec e)) n <= 245)%nat)).
Proof. exact c09_capacity_table. Qed.
Print Assumptions C09_capacity_table.

(* exact delivery is downward closed in the payload length: the fragment-size probe is a sound
   binary search *)
Theorem C09_monotone : forall q p p' downenc td td' buflen d d',
  q_id q < 65536 -> is_ctype (q_type q) -> wf_qname (q_name q) ->
  bytes_ok p -> bytes_ok p' -> (2 <= length p' <= length p)%nat ->
  client_fits (q_type q) (length p) buflen ->
  fst (write_dns q p downenc td) = Some d ->
  fst (write_dns q p' downenc td') = Some d' ->
  (let r := client_extract buflen d (length d) in da_rv r = Z.of_nat (length p) /\ da_out r = p) ->
  (let r' := client_extract buflen d' (length d') in da_rv r' = Z.of_nat (length p') /\ da_out r' = p').
Proof. exact c09_monotone. Qed.
Print Assumptions C09_monotone.

(* the hypothesis "fst ans = Some d" is always met in the quantified range: the server does send *)
Theorem C09_sent : forall q p downenc td,
  is_ctype (q_type q) -> wf_qname (q_name q) -> bytes_ok p -> (1 <= length p <= N.to_nat 4096)%nat ->
  exists d, fst (write_dns q p downenc td) = Some d.
Proof. exact c09_sent. Qed.
Print Assumptions C09_sent.

(* ... and within capacity the client gets exactly the payload *)
Theorem C09_delivered : forall q p downenc td buflen,
  q_id q < 65536 -> is_ctype (q_type q) -> wf_qname (q_name q) ->
  bytes_ok p -> (2 <= length p)%nat -> client_fits (q_type q) (length p) buflen ->
  (length p <= capacity (q_type q) downenc)%nat ->
  exists d, fst (write_dns q p downenc td) = Some d /\
            let r := client_extract buflen d (length d) in da_rv r = Z.of_nat (length p) /\ da_out r = p.
Proof. exact c09_delivered. Qed.
Print Assumptions C09_delivered.

(* size of the emitted datagram, all seven types, within capacity: a closed form
   (ans_size_all: ans_size for the single-record types, mx_size for MX / SRV) ... *)
Theorem C09_size : forall q p downenc td d,
  is_ctype (q_type q) -> wf_qname (q_name q) -> bytes_ok p ->
  (1 <= length p <= capacity (q_type q) downenc)%nat ->
  fst (write_dns q p downenc td) = Some d ->
  length d = ans_size_all (q_type q) downenc (length (q_name q)) (length p).
Proof. exact c09_size_all. Qed.
Print Assumptions C09_size.

(* ... that is non-decreasing in the payload length and in the question-name length *)
Theorem C09_size_monotone : forall q q' p p' downenc td td' d d',
  is_ctype (q_type q) -> q_type q' = q_type q ->
  wf_qname (q_name q) -> wf_qname (q_name q') -> (length (q_name q) <= length (q_name q'))%nat ->
  bytes_ok p -> bytes_ok p' -> (1 <= length p <= length p')%nat ->
  (length p' <= capacity (q_type q) downenc)%nat ->
  fst (write_dns q p downenc td) = Some d ->
  fst (write_dns q' p' downenc td') = Some d' ->
  (length d <= length d')%nat.
Proof. exact c09_size_monotone. Qed.
Print Assumptions C09_size_monotone.

(* the two buffer sizes the client really uses *)
Theorem C09_client_buffers : forall ty n,
  ((n <= N.to_nat 4096)%nat -> client_fits ty n (N.to_nat 65536)) /\
  ((n <= N.to_nat 2295)%nat -> client_fits ty n (N.to_nat 4096)).
Proof. intros ty n. split; [apply client_fits_64k|apply client_fits_4k]. Qed.
Print Assumptions C09_client_buffers.

(* ---- non-vacuity (computed in DnsMsgExamples_C09.v): the setting is satisfiable, and the model
   delivers exactly at each capacity and cuts just above it ------------------------------------------- *)

Example C09_example_setting : forall ty, wf_qname (q_name (demo_q ty)) /\ q_id (demo_q ty) < 65536 /\
  bytes_ok (demo_p 4096) /\ length (demo_p 4096) = N.to_nat 4096 /\ client_fits ty (N.to_nat 4096) (N.to_nat 65536).
Proof. exact C09_demo_setting. Qed.

Example C09_example_boundaries :
  (* (return value, extracted = payload, extracted = prefix of the payload) *)
  demo_run T_NULL 84 4096 65536 = Some (4096%Z, true, true) /\
  demo_run T_NULL 84 4097 65536 = Some (4096%Z, false, true) /\
  demo_run T_TXT 84 2559 65536 = Some (2559%Z, true, true) /\
  demo_run T_TXT 84 2560 65536 = Some (0%Z, false, true) /\
  demo_run T_TXT 85 3071 65536 = Some (3071%Z, true, true) /\
  demo_run T_TXT 82 4095 65536 = Some (4095%Z, true, true) /\
  demo_run T_CNAME 84 153 65536 = Some (153%Z, true, true) /\
  demo_run T_CNAME 84 154 65536 = Some (153%Z, false, true) /\
  demo_run T_A 86 214 4096 = Some (214%Z, true, true) /\
  demo_run T_MX 84 4096 65536 = Some (4096%Z, true, true) /\
  demo_run T_SRV 86 4096 65536 = Some (4096%Z, true, true) /\
  demo_run T_MX 84 2295 4096 = Some (2295%Z, true, true).
Proof.
  destruct C09_demo_null as [N1 [N2 _]]. destruct C09_demo_txt as [X1 [X2 [_ [_ [X5 [_ [_ [_ [X9 _]]]]]]]]].
  destruct C09_demo_cname as [C1 [C2 [_ [_ [_ [_ [C7 _]]]]]]]. destruct C09_demo_mx as [M1 [M2 [M3 _]]].
  exact (conj N1 (conj N2 (conj X1 (conj X2 (conj X5 (conj X9 (conj C1 (conj C2 (conj C7 (conj M1 (conj M2 M3))))))))))).
Qed.
