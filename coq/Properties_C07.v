(* Properties_C07.v -- final statements for property C07 (codecs lossless, alphabet-pure,
   capacity-exact).  Only statements, each closed by [exact]/[apply] of a lemma from
   CodecProofs.v, with Print Assumptions beneath.  "the four codecs" is the explicit list. *)
From Coq Require Import List NArith Arith Lia.
From Iodine Require Import Base Codec CodecProofs.
Import ListNotations.
Local Open Scope N_scope.

Definition the_codec (c : codec) : Prop := c = b32 \/ c = b64 \/ c = b64u \/ c = b128.

Lemma the_codec_wf c : the_codec c -> wfb c = true.
Proof. intros [->|[->|[->| ->]]]; [exact wfb_b32|exact wfb_b64|exact wfb_b64u|exact wfb_b128]. Qed.

(* decoding the encoding returns exactly the input bytes that the encoder reports as consumed,
   for every capacity; with enough capacity that is the whole input *)
Theorem C07_roundtrip : forall c, the_codec c -> forall (cap capd : nat) (d : list N),
  bytes_ok d -> (snd (encode c cap d) <= capd)%nat ->
  decode c capd (fst (encode c cap d)) = firstn (snd (encode c cap d)) d.
Proof. intros c Hc cap capd d. exact (roundtrip c (the_codec_wf c Hc) cap capd d). Qed.
Print Assumptions C07_roundtrip.

Theorem C07_roundtrip_full : forall c, the_codec c -> forall (cap capd : nat) (d : list N),
  bytes_ok d -> (enclen (cbits c) (length d) <= cap)%nat -> (length d <= capd)%nat ->
  decode c capd (fst (encode c cap d)) = d.
Proof.
  intros c Hc cap capd d Hd Hcap Hcapd.
  destruct (enc_full c (the_codec_wf c Hc) cap d Hcap) as [Hn _].
  rewrite (roundtrip c (the_codec_wf c Hc) cap capd d Hd) by lia.
  rewrite Hn. apply firstn_all.
Qed.
Print Assumptions C07_roundtrip_full.

(* only the documented alphabet *)
Theorem C07_alphabet_32 : forall cap d, Forall (fun ch => alpha32b ch = true) (fst (encode b32 cap d)).
Proof. apply (alpha_from_sweep b32 alpha32b wfb_b32). vm_compute. reflexivity. Qed.
Print Assumptions C07_alphabet_32.
Theorem C07_alphabet_64 : forall cap d, Forall (fun ch => alpha64b ch = true) (fst (encode b64 cap d)).
Proof. apply (alpha_from_sweep b64 alpha64b wfb_b64). vm_compute. reflexivity. Qed.
Print Assumptions C07_alphabet_64.
Theorem C07_alphabet_64u : forall cap d, Forall (fun ch => alpha64ub ch = true) (fst (encode b64u cap d)).
Proof. apply (alpha_from_sweep b64u alpha64ub wfb_b64u). vm_compute. reflexivity. Qed.
Print Assumptions C07_alphabet_64u.
Theorem C07_alphabet_128 : forall cap d, Forall (fun ch => alpha128b ch = true) (fst (encode b128 cap d)).
Proof. apply (alpha_from_sweep b128 alpha128b wfb_b128). vm_compute. reflexivity. Qed.
Print Assumptions C07_alphabet_128.

(* Base32 text decodes case-insensitively *)
Theorem C07_case_insensitive_32 : forall cap s, bytes_ok s ->
  decode b32 cap (map toupper s) = decode b32 cap s.
Proof. intros cap s. exact (dec32_upper cap 0 s). Qed.
Print Assumptions C07_case_insensitive_32.

(* capacity is respected by encoder and decoder; consumed never exceeds the input *)
Theorem C07_capacity : forall c, the_codec c -> forall cap capd d s,
  (length (fst (encode c cap d)) <= cap)%nat /\ (snd (encode c cap d) <= length d)%nat /\
  (length (decode c capd s) <= capd)%nat.
Proof.
  intros c Hc cap capd d s. destruct (enc_go_len c cap 0 d) as [H1 H2].
  repeat split; [exact H1|exact H2|apply dec_go_cap].
Qed.
Print Assumptions C07_capacity.

(* documented length ratio: ceil(8n/5), ceil(8n/6) = ceil(4n/3), ceil(8n/7) *)
Theorem C07_ratio : forall c, the_codec c -> forall cap d,
  (enclen (cbits c) (length d) <= cap)%nat ->
  length (fst (encode c cap d)) = enclen (cbits c) (length d) /\ snd (encode c cap d) = length d.
Proof. intros c Hc cap d H. destruct (enc_full c (the_codec_wf c Hc) cap d H). split; assumption. Qed.
Print Assumptions C07_ratio.

(* the reported consumed count n is exact: the emitted text has the documented length for n
   bytes, fits the capacity, and one more input byte would not have fitted *)
Theorem C07_consumed_exact : forall c, the_codec c -> forall cap d,
  let n := snd (encode c cap d) in
  length (fst (encode c cap d)) = enclen (cbits c) n /\ (enclen (cbits c) n <= cap)%nat /\
  (n <= length d)%nat /\
  (forall m, (n < m <= length d)%nat -> (cap < enclen (cbits c) m)%nat).
Proof.
  intros c Hc cap d. cbv zeta.
  destruct (enc_exact c (the_codec_wf c Hc) cap d) as [G1 [G2 [G3 [G4 G5]]]].
  repeat split; try lia.
  intros m Hm. assert (Hlt : (snd (encode c cap d) < length d)%nat) by lia.
  specialize (G5 Hlt).
  pose proof (enclen_mono c (the_codec_wf c Hc) (S (snd (encode c cap d))) m). lia.
Qed.
Print Assumptions C07_consumed_exact.

(* successive chunks with any capacity >= 2 terminate and lose / repeat nothing *)
Theorem C07_chunks : forall c, the_codec c -> forall cap d, (2 <= cap)%nat -> bytes_ok d ->
  exists ss, chunks c cap (length d) d = Some ss /\
             concat (map (fun s => decode c (length s) s) ss) = d /\
             Forall (fun s => (length s <= cap)%nat) ss.
Proof. intros c Hc cap d Hcap Hd. apply (chunks_ok c (the_codec_wf c Hc) cap Hcap); [exact Hd|lia]. Qed.
Print Assumptions C07_chunks.

(* non-vacuity: concrete, non-trivial instances (capacity cut in the middle of a block) *)
Example C07_example_cut :
  encode b32 4 [104; 101; 108; 108; 111] = ([110; 98; 115; 119], 2%nat) /\
  decode b32 2 [110; 98; 115; 119] = [104; 101] /\
  encode b128 3 [255; 0; 255] = ([253; 190; 70], 2%nat) /\
  bytes_ok [104; 101; 108; 108; 111].
Proof. repeat split; try (vm_compute; reflexivity). repeat constructor. Qed.
