(* DecodeSafetyProofs.v -- C06, part 1: index/length safety and termination (fuel adequacy) of
   the client-side decoders of DnsName.v / DnsMsg.v: readname, readtxtbin, the MX/SRV loops of
   dns_decode and read_dns_withq, dns_namedec, dns_decode_answer, client_extract.
   Lemmas only; the final statements are in Properties_C06.v. *)
From Coq Require Import List NArith ZArith Arith Bool Lia ZifyBool ZifyNat ZifyN.
From Iodine Require Import Generated.SrcConsts Base Codec CodecProofs Hostname DnsName DnsMsg.
Import ListNotations.
Local Open Scope nat_scope.

Ltac Zify.zify_post_hook ::= Z.div_mod_to_equations.

(* ------------------------------------------------------------------------------------------ *)
(* readname: the label loop of one level as a top-level function with explicit fuel            *)

Section LabelLoop.
Variable buf : list N.
Variable plen : nat.
Variable lim : nat.                              (* "length" *)
Variable sub : nat -> nat -> rn_result.          (* the recursive call: sub (length - len) offset *)

Definition rl_finish (s len : nat) (acc : list N) : rn_result :=
  {| rn_ret := S len; rn_wr := List.rev (0%N :: acc); rn_src := Some (S s) |}.

Fixpoint rl_labels (fuel : nat) (s len : nat) (acc : list N) {struct fuel} : rn_result :=
  match fuel with
  | O => rl_finish s len acc
  | S fuel' =>
      if negb ((s <? plen) && negb (rb buf s =? 0)%N && (len <? lim - 2))
      then rl_finish s len acc
      else
        let c := rb buf s in
        let s1 := S s in
        if (N.land c 192 =? 192)%N then
          if (plen <=? s1) then rl_finish s1 len acc
          else
            let offset := N.to_nat (N.lor (N.shiftl (N.land c 63) 8) (N.land (rb buf s1) 255)) in
            if (plen <=? offset) then
              match len with
              | O => {| rn_ret := 0; rn_wr := []; rn_src := None |}
              | _ => rl_finish s1 len acc
              end
            else
              let r := sub (lim - len) offset in
              {| rn_ret := len + rn_ret r; rn_wr := List.rev acc ++ rn_wr r; rn_src := Some (S s1) |}
        else
          let '(s2, len2, acc2) := copy_label buf plen (N.to_nat c) s1 len lim acc in
          if (lim - 1 <=? len2) then rl_finish s2 len2 acc2
          else if ((s2 <? plen) && negb (rb buf s2 =? 0)%N)
               then rl_labels fuel' s2 (S len2) (DOTC :: acc2)
               else rl_labels fuel' s2 len2 acc2
  end.
End LabelLoop.

Lemma readname_lvl_S buf plen lim loop s0 :
  readname_lvl buf plen lim (S loop) s0 =
  rl_labels buf plen lim (fun l off => readname_lvl buf plen l loop off) (S plen) s0 0 [].
Proof. reflexivity. Qed.

Lemma readname_lvl_0 buf plen lim s0 :
  readname_lvl buf plen lim 0 s0 = {| rn_ret := 0; rn_wr := []; rn_src := None |}.
Proof. reflexivity. Qed.

(* copy_label: copies while len < lim - 1 and s < plen *)
Lemma copy_label_spec buf plen lim : forall cnt s len acc,
  length acc = len -> len <= lim - 1 ->
  let '(s2, len2, acc2) := copy_label buf plen cnt s len lim acc in
  length acc2 = len2 /\ len2 <= lim - 1 /\ len <= len2 /\ s2 - s = len2 - len /\ s <= s2 /\ (s2 <= plen \/ s2 = s).
Proof.
  induction cnt as [|cnt IH]; intros s len acc Ha Hl; cbn [copy_label].
  - lia.
  - destruct ((len <? lim - 1) && (s <? plen)) eqn:E; [|lia].
    specialize (IH (S s) (S len) (rb buf s :: acc)).
    destruct (copy_label buf plen cnt (S s) (S len) lim (rb buf s :: acc)) as [[s2 len2] acc2].
    cbn [length] in IH. lia.
Qed.

(* what a level writes: at most lim bytes, and the return value is the number of bytes written *)
Definition rn_bounded (lim : nat) (r : rn_result) : Prop :=
  length (rn_wr r) <= lim /\ rn_ret r = length (rn_wr r).

Lemma rl_labels_bound buf plen lim sub :
  (forall l off, 1 <= l -> rn_bounded l (sub l off)) ->
  forall fuel s len acc, length acc = len -> len <= lim - 1 -> 1 <= lim ->
  let r := rl_labels buf plen lim sub fuel s len acc in
  length (rn_wr r) <= lim /\ rn_ret r = length (rn_wr r) /\ len <= length (rn_wr r).
Proof.
  intros Hsub. unfold rn_bounded in Hsub.
  assert (Hfin : forall s len acc, length acc = len -> len <= lim - 1 -> 1 <= lim ->
            let r := rl_finish s len acc in
            length (rn_wr r) <= lim /\ rn_ret r = length (rn_wr r) /\ len <= length (rn_wr r)).
  { intros s len acc Ha Hl H1. cbn. rewrite app_length, rev_length. cbn. lia. }
  induction fuel as [|fuel IH]; intros s len acc Ha Hl H1; cbn [rl_labels].
  - apply Hfin; assumption.
  - destruct (negb _) eqn:Econd; [apply Hfin; assumption|].
    cbv zeta.
    destruct (N.land (rb buf s) 192 =? 192)%N.
    + destruct (plen <=? S s); [apply Hfin; assumption|].
      destruct (plen <=? _).
      * destruct len; [cbn; lia|apply Hfin; assumption].
      * match goal with |- context[sub ?l ?o] => destruct (Hsub l o) as [B1 B2] end.
        { rewrite negb_false_iff in Econd. lia. }
        cbn [rn_wr rn_ret]. rewrite app_length, rev_length.
        rewrite negb_false_iff in Econd. lia.
    + pose proof (copy_label_spec buf plen lim (N.to_nat (rb buf s)) (S s) len acc Ha Hl) as Hc.
      destruct (copy_label buf plen (N.to_nat (rb buf s)) (S s) len lim acc) as [[s2 len2] acc2].
      destruct Hc as (C1 & C2 & C3 & _).
      destruct (lim - 1 <=? len2) eqn:E1.
      * pose proof (Hfin s2 len2 acc2 C1 C2 H1) as F. cbv zeta in F. lia.
      * destruct ((s2 <? plen) && negb (rb buf s2 =? 0)%N).
        -- specialize (IH s2 (S len2) (DOTC :: acc2)). cbn [length] in IH. cbv zeta in IH.
           assert (S len2 <= lim - 1) by lia.
           specialize (IH ltac:(lia) ltac:(lia) H1). lia.
        -- specialize (IH s2 len2 acc2 C1 C2 H1). cbv zeta in IH. lia.
Qed.

Lemma readname_lvl_bound buf plen : forall loop lim s0, 1 <= lim ->
  rn_bounded lim (readname_lvl buf plen lim loop s0).
Proof.
  induction loop as [|loop IH]; intros lim s0 H1.
  - rewrite readname_lvl_0. split; cbn; lia.
  - rewrite readname_lvl_S.
    pose proof (rl_labels_bound buf plen lim (fun l off => readname_lvl buf plen l loop off)
                  (fun l off Hl => IH l off Hl) (S plen) s0 0 [] eq_refl ltac:(lia) H1) as H.
    cbv zeta in H. split; lia.
Qed.

(* the name[256] / names[i][256] bound: readname(packet, len, &p, dst, lim) writes at most lim bytes *)
Lemma readname_bound buf plen src lim : 1 <= lim ->
  length (rn_wr (readname buf plen src lim)) <= lim /\
  rn_ret (readname buf plen src lim) = length (rn_wr (readname buf plen src lim)).
Proof. intros H. apply readname_lvl_bound, H. Qed.

(* ---- termination of the label loop: the fuel S plen never runs out while the loop condition
        holds (every iteration advances s by at least one and needs s < plen) ---- *)

Lemma rl_labels_fuel buf plen lim sub : forall fuel1 fuel2 s len acc,
  plen - s < fuel1 -> plen - s < fuel2 ->
  rl_labels buf plen lim sub fuel1 s len acc = rl_labels buf plen lim sub fuel2 s len acc.
Proof.
  induction fuel1 as [|fuel1 IH]; intros fuel2 s len acc H1 H2; [lia|].
  destruct fuel2 as [|fuel2]; [lia|].
  cbn [rl_labels].
  destruct (negb _) eqn:Econd; [reflexivity|].
  rewrite negb_false_iff in Econd.
  cbv zeta.
  destruct (N.land (rb buf s) 192 =? 192)%N; [reflexivity|].
  pose proof (copy_label_spec buf plen lim (N.to_nat (rb buf s)) (S s) len (repeat 0%N len)) as Hc.
  (* the positions do not depend on acc: use the spec on the actual call *)
  clear Hc.
  assert (Hs : forall cnt s' len' acc', s' <= fst (fst (copy_label buf plen cnt s' len' lim acc'))).
  { induction cnt as [|cnt IHc]; intros s' len' acc'; cbn [copy_label]; [cbn; lia|].
    destruct ((len' <? lim - 1) && (s' <? plen)); [|cbn; lia].
    specialize (IHc (S s') (S len') (rb buf s' :: acc')). lia. }
  specialize (Hs (N.to_nat (rb buf s)) (S s) len acc).
  destruct (copy_label buf plen (N.to_nat (rb buf s)) (S s) len lim acc) as [[s2 len2] acc2].
  cbn [fst] in Hs.
  destruct (lim - 1 <=? len2); [reflexivity|].
  destruct ((s2 <? plen) && negb (rb buf s2 =? 0)%N); apply IH; lia.
Qed.

(* the number of levels is the constant of the source *)
Lemma readname_levels : src_READNAME_LOOPS = 10%N.
Proof. reflexivity. Qed.

(* ------------------------------------------------------------------------------------------ *)
(* readtxtbin *)

Lemma readtxtbin_go_bound buf : forall fuel p sr dr acc,
  length (readtxtbin_go fuel buf p sr dr acc) <= length acc + dr.
Proof.
  induction fuel as [|fuel IH]; intros p sr dr acc; cbn [readtxtbin_go]; [cbn; lia|].
  destruct sr as [|sr]; [rewrite rev_length; lia|].
  destruct (sr <? _); [cbn; lia|].
  destruct (dr <? N.to_nat (rb buf p)) eqn:E; [cbn; lia|].
  etransitivity; [apply IH|].
  rewrite app_length, rev_length, map_length, seq_length. lia.
Qed.

Lemma readtxtbin_bound buf p sr dr : length (readtxtbin buf p sr dr) <= dr.
Proof. unfold readtxtbin. etransitivity; [apply readtxtbin_go_bound|]. cbn. lia. Qed.

Lemma readtxtbin_go_fuel buf : forall fuel1 fuel2 p sr dr acc,
  sr < fuel1 -> sr < fuel2 ->
  readtxtbin_go fuel1 buf p sr dr acc = readtxtbin_go fuel2 buf p sr dr acc.
Proof.
  induction fuel1 as [|fuel1 IH]; intros fuel2 p sr dr acc H1 H2; [lia|].
  destruct fuel2 as [|fuel2]; [lia|].
  cbn [readtxtbin_go]. destruct sr as [|sr]; [reflexivity|].
  destruct (sr <? _); [reflexivity|]. destruct (dr <? _); [reflexivity|].
  apply IH; lia.
Qed.
