(* DecodeNul.v -- C06: the codec decoders store a terminating NUL behind the last decoded byte
   ("*buf space should be at least 1 byte more than *buflen", base32.c / base64.c / base128.c),
   and read_dns_withq hands them data[64K] with capacity 64K.  The NUL stays inside data[] because
   a decoder never produces more bytes than it consumes characters: the decoded length is at
   most the length of the answer text minus one.  Lemmas only. *)
From Coq Require Import List NArith ZArith Arith Bool Lia ZifyBool ZifyNat ZifyN.
From Iodine Require Import Generated.SrcConsts Base Codec Hostname DnsName DnsMsg
     DecodeSafetyProofs DecodeSafetyMx DecodeSafetyAnswer.
Import ListNotations.
Local Open Scope nat_scope.

Ltac Zify.zify_post_hook ::= Z.div_mod_to_equations.

(* every decoder phase uses up at least one character *)
Definition dadv_posb (k : N) : bool :=
  forallb (fun i => 1 <=? dadv k i) (nrange (N.to_nat (dphases k))).

Lemma dadv_pos k i : dadv_posb k = true -> (i < dphases k)%N -> 1 <= dadv k i.
Proof.
  intros H Hi. unfold dadv_posb in H.
  pose proof (sweep1 (fun i => 1 <=? dadv k i) (N.to_nat (dphases k)) H i) as S.
  cbv beta in S. rewrite N2Nat.id in S. specialize (S Hi). lia.
Qed.

Lemma filter_le {A} (f : A -> bool) l : length (filter f l) <= length l.
Proof. induction l as [|a l IH]; cbn; [lia|]. destruct (f a); cbn; lia. Qed.

Lemma dec_go_consumes c : dadv_posb (cbits c) = true -> (0 < dphases (cbits c))%N ->
  forall cap i s, (i < dphases (cbits c))%N -> length (dec_go c cap i s) <= length s.
Proof.
  intros Hp Hd. induction cap as [|cap IH]; intros i s Hi; cbn [dec_go]; [cbn; lia|].
  cbv zeta.
  destruct (length (firstn _ s) <? _) eqn:E1; [cbn; lia|].
  destruct (existsb _ _); [cbn; lia|].
  cbn [length].
  pose proof (dadv_pos _ _ Hp Hi) as Ha.
  assert (Hn : 2 <= length s).
  { rewrite firstn_length in E1. unfold dneed in E1. destruct (_ <=? _)%N in E1; lia. }
  specialize (IH ((i + 1) mod dphases (cbits c))%N (skipn (dadv (cbits c) i) s)).
  rewrite skipn_length in IH.
  assert (Hm : ((i + 1) mod dphases (cbits c) < dphases (cbits c))%N) by (apply N.mod_lt; lia).
  specialize (IH Hm). lia.
Qed.

Lemma codecs_consume :
  forall c, In c [b32; b64; b64u; b128] ->
  forall cap s, length (decode c cap s) <= length s.
Proof.
  intros c Hc cap s. unfold decode.
  assert (H : dadv_posb (cbits c) = true /\ (0 < dphases (cbits c))%N).
  { cbn in Hc. destruct Hc as [<-|[<-|[<-|[<-|[]]]]]; split; vm_compute; reflexivity. }
  destruct H as [H1 H2]. apply dec_go_consumes; assumption.
Qed.

Lemma undotify_length s n : length (inline_undotify s n) <= n.
Proof.
  unfold inline_undotify.
  etransitivity; [apply filter_le|]. rewrite firstn_length. lia.
Qed.

(* dns_namedec(outdata, outdatalen, buf, buflen) yields at most buflen - 1 bytes *)
Lemma dns_namedec_short outlen s n : length (dns_namedec outlen s n) <= n - 1.
Proof.
  unfold dns_namedec, unpack_data.
  assert (Hh : forall c, In c [b32; b64; b64u; b128] ->
            length (if n <? 5 then [] else decode c outlen (inline_undotify (skipn 1 s) (n - 4))) <= n - 1).
  { intros c Hc. destruct (n <? 5) eqn:E; [cbn; lia|].
    etransitivity; [apply codecs_consume, Hc|]. pose proof (undotify_length (skipn 1 s) (n - 4)). lia. }
  assert (Ht : forall c, In c [b32; b64; b64u; b128] ->
            length (if n <? 2 then [] else decode c outlen (firstn (n - 1) (skipn 1 s))) <= n - 1).
  { intros c Hc. destruct (n <? 2) eqn:E; [cbn; lia|].
    etransitivity; [apply codecs_consume, Hc|]. rewrite firstn_length. lia. }
  repeat match goal with |- context[if (lower_letter _ =? _)%N then _ else _] => destruct (lower_letter _ =? _)%N end;
    try (apply Hh; cbn; tauto); try (apply Ht; cbn; tauto); [rewrite firstn_length; lia|cbn; lia].
Qed.

(* CNAME / TXT path of read_dns_withq: decoded bytes + NUL fit into data[] whenever the text
   length handed in (the return value of dns_decode) is at most sizeof(data) *)
Lemma namedec_nul_fits s n : 1 <= n -> n <= buf64k -> length (dns_namedec buf64k s n) + 1 <= buf64k.
Proof. intros H1 H2. pose proof (dns_namedec_short buf64k s n). lia. Qed.

(* MX / SRV path: every part decodes to at most thispartlen - 1 bytes while the read offset
   advances by thispartlen + 1 *)
Lemma mx_namedec_loop_short : forall fuel bufbytes buftotal bufoffset dataspace0 acc,
  let r := mx_namedec_loop fuel bufbytes buftotal bufoffset dataspace0 acc in
  r = acc \/ length r + 2 <= length acc + (buftotal + 1 - bufoffset).
Proof.
  induction fuel as [|fuel IH]; intros bufbytes buftotal bufoffset dataspace0 acc; cbn [mx_namedec_loop]; [left; reflexivity|].
  cbv zeta. destruct (_ || _) eqn:E; [left; reflexivity|].
  set (tp := Z.to_nat _) in *.
  pose proof (dns_namedec_short (dataspace0 - length acc) (skipn bufoffset bufbytes) tp) as Hs.
  destruct (dns_namedec _ _ tp) as [|x part] eqn:Ed; [left; reflexivity|].
  right.
  assert (Htp : 1 <= tp /\ tp <= buftotal - bufoffset) by (subst tp; lia).
  specialize (IH bufbytes buftotal (bufoffset + tp + 1) dataspace0 (acc ++ x :: part)). cbv zeta in IH.
  rewrite app_length in IH. cbn [length] in IH, Hs.
  destruct IH as [-> | IH]; [rewrite app_length; cbn [length]; lia|lia].
Qed.

Lemma mx_namedec_nul_fits fuel bufbytes buftotal : buftotal <= buf64k ->
  length (mx_namedec_loop fuel bufbytes buftotal 0 buf64k []) + 1 <= buf64k.
Proof.
  intros H. pose proof (mx_namedec_loop_short fuel bufbytes buftotal 0 buf64k []) as Hs. cbv zeta in Hs.
  assert (1 <= buf64k) by (unfold buf64k; lia).
  destruct Hs as [-> | Hs]; cbn [length] in *; lia.
Qed.

(* read_dns_withq as a whole: for every datagram and every caller buffer of at most 64K the
   decoders' terminating NUL lands inside data[64K] *)
Lemma read_dns_nul_fits buflen buf plen : 1 <= buflen -> buflen <= buf64k ->
  let r := dns_decode_answer buflen buf plen in
  (0 < da_rv r)%Z ->
  length (dns_namedec buf64k (da_out r) (Z.to_nat (da_rv r))) + 1 <= buf64k /\
  length (mx_namedec_loop (S (Z.to_nat (da_rv r))) (da_out r) (Z.to_nat (da_rv r)) 0 buf64k []) + 1 <= buf64k.
Proof.
  intros H1 H2 r Hr. destruct (dns_decode_answer_safe buflen buf plen H1) as (S1 & S2 & S3 & S4). fold r in S1, S2, S3, S4.
  split; [apply namedec_nul_fits; lia|apply mx_namedec_nul_fits; lia].
Qed.
