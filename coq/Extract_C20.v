(* Extraction of the executable forwarding model, used only by the correspondence check of C20.
   ExtrOcamlBasic only; N, positive, nat, Z stay as extracted datatypes; no Extract Constant. *)
From Coq Require Import Extraction ExtrOcamlBasic.
From Iodine Require Import FwQuery.
Extraction Language OCaml.
Set Extraction Optimize.
Extraction "extracted/model_c20.ml" FwQuery.fw_init FwQuery.fw_put FwQuery.fw_get FwQuery.fw_run
  FwQuery.forward FwQuery.bind_reply FwQuery.step FwQuery.encode_query FwQuery.get_id
  FwQuery.parse_query FwQuery.join_dots FwQuery.zero_addr FwQuery.fw_size.
