(* QueueProofs.v -- the per-user ring of pending downstream packets (outpacketq of src/iodined.c:
   save_to_outpacketq / get_from_outpacketq, modelled in Server.v) refines a bounded FIFO of byte strings.

   abstraction: the payloads of the [u_queue_filled] slots starting at [u_queue_next], in ring order.
   - a save on a ring that is not full appends the (64 KiB-capped) bytes at the end and changes nothing else;
   - a save on a full ring changes nothing (the packet is dropped);
   - a get pops the head and makes it the new downstream packet, byte for byte; an empty ring gives nothing.
   Holds for every ring length QLEN >= 1 (the constant is read from the source). *)
From Coq Require Import List NArith ZArith Arith Bool Lia.
From RecordUpdate Require Import RecordUpdate.
From Iodine Require Import Generated.SrcConsts Base DnsMsg Server ServerAnswerLedger ServerFrame.
Import ListNotations.

Definition payload (e : pkt) : list N := firstn (N.to_nat (p_len e)) (p_data e).

Definition wrap (x : nat) : nat := if (QLEN <=? x)%nat then (x - QLEN)%nat else x.

Definition qabs (u : suser) : list (list N) :=
  map (fun k => payload (nth (wrap (u_queue_next u + k)) (u_queue u) pkt0)) (seq 0 (u_queue_filled u)).

Record qwf (u : suser) : Prop := {
  qwf_len : length (u_queue u) = QLEN;
  qwf_next : (u_queue_next u < QLEN)%nat;
  qwf_filled : (u_queue_filled u <= QLEN)%nat }.

Lemma qlen_pos : (0 < QLEN)%nat.
Proof. unfold QLEN. change src_OUTPACKETQ_LEN with 4%N. simpl. lia. Qed.

Local Opaque QLEN.

Lemma nth_firstn_lt {A} (l : list A) i j d : (j < i)%nat -> nth j (firstn i l) d = nth j l d.
Proof.
  revert i j. induction l as [|a l IH]; intros i j H.
  - rewrite firstn_nil. reflexivity.
  - destruct i; [lia|]. destruct j; [reflexivity|]. cbn [firstn nth]. apply IH. lia.
Qed.

Lemma nth_skipn {A} (l : list A) i j d : nth j (skipn i l) d = nth (i + j) l d.
Proof.
  revert l. induction i as [|i IH]; intros l; [reflexivity|].
  destruct l; [destruct j; reflexivity|]. cbn [skipn Nat.add nth]. apply IH.
Qed.

Lemma nth_set_nth_eq {A} (l : list A) i x d : (i < length l)%nat -> nth i (set_nth l i x) d = x.
Proof.
  intros H. unfold set_nth. destruct l as [|a l']; [simpl in H; lia|].
  destruct (Nat.ltb_spec i (length (a :: l'))) as [_|C]; [|lia].
  rewrite app_nth2; rewrite firstn_length, Nat.min_l by lia; [|lia].
  rewrite Nat.sub_diag. reflexivity.
Qed.

Lemma nth_set_nth_neq {A} (l : list A) i j x d : i <> j -> nth j (set_nth l i x) d = nth j l d.
Proof.
  intros Hij. unfold set_nth. destruct l as [|a l'].
  - destruct i, j; reflexivity.
  - destruct (Nat.ltb_spec i (length (a :: l'))) as [Hi|Hi].
    + destruct (Nat.lt_ge_cases j i) as [Hlt|Hge].
      * rewrite app_nth1 by (rewrite firstn_length; lia). apply nth_firstn_lt. exact Hlt.
      * rewrite app_nth2; rewrite firstn_length, Nat.min_l by lia; [|lia].
        replace (j - i)%nat with (S (j - S i)) by lia.
        change (nth (S (j - S i)) ([x] ++ skipn (S i) (a :: l')) d) with (nth (j - S i) (skipn (S i) (a :: l')) d).
        rewrite nth_skipn. replace (S i + (j - S i))%nat with j by lia. reflexivity.
    + cbn [app]. rewrite (firstn_all2 (n := i)) by lia.
      rewrite (skipn_all2 (n := S i)) by lia. rewrite app_nil_r. reflexivity.
Qed.

Lemma set_nth_length {A} (l : list A) i x : length (set_nth l i x) = length l.
Proof.
  unfold set_nth. destruct l as [|a l']; [destruct i; reflexivity|].
  destruct (Nat.ltb_spec i (length (a :: l'))) as [Hi|Hi].
  - rewrite !app_length, firstn_length, skipn_length. cbn [length] in *. lia.
  - cbn [app]. rewrite (firstn_all2 (n := i)) by lia. rewrite (skipn_all2 (n := S i)) by lia.
    rewrite app_nil_r. reflexivity.
Qed.

Lemma wrap_lt x : (x < 2 * QLEN)%nat -> (wrap x < QLEN)%nat.
Proof. unfold wrap. destruct (Nat.leb_spec QLEN x); lia. Qed.

Lemma wrap_inj x y : (x < 2 * QLEN)%nat -> (y < 2 * QLEN)%nat -> (x < y)%nat -> (y < x + QLEN)%nat -> wrap x <> wrap y.
Proof. unfold wrap. destruct (Nat.leb_spec QLEN x), (Nat.leb_spec QLEN y); lia. Qed.

(* ---- save ------------------------------------------------------------------------------- *)

Lemma save_full u d : (QLEN <= u_queue_filled u)%nat -> save_to_outpacketq u d = (u, false).
Proof. intros H. unfold save_to_outpacketq. destruct (Nat.leb_spec QLEN (u_queue_filled u)); [reflexivity|lia]. Qed.

Lemma save_spec u d : qwf u -> (u_queue_filled u < QLEN)%nat ->
  let u' := fst (save_to_outpacketq u d) in
  snd (save_to_outpacketq u d) = true /\ qwf u' /\
  qabs u' = qabs u ++ [firstn (N.to_nat 65536) d] /\
  u_out u' = u_out u /\ u_in u' = u_in u /\ u_queue_next u' = u_queue_next u.
Proof.
  intros [Hl Hn Hf] Hlt. unfold save_to_outpacketq.
  destruct (Nat.leb_spec QLEN (u_queue_filled u)) as [C|_]; [lia|].
  cbn zeta. cbn [fst snd].
  set (fill := if (QLEN <=? u_queue_next u + u_queue_filled u)%nat then _ else _).
  assert (Hfill : fill = wrap (u_queue_next u + u_queue_filled u)) by reflexivity.
  assert (Hfl : (fill < QLEN)%nat) by (rewrite Hfill; apply wrap_lt; lia).
  set (d' := firstn (N.to_nat 65536) d).
  set (e' := _ <| p_data := d' |> <| p_len := N.of_nat (length d') |>).
  assert (Hpe : payload e' = d').
  { unfold payload, e'. cbn. rewrite Nat2N.id. apply firstn_all. }
  split; [reflexivity|]. split.
  { constructor; cbn; [rewrite set_nth_length; exact Hl|exact Hn|lia]. }
  split; [|repeat split; reflexivity].
  match goal with |- qabs ?U = _ => set (u' := U) end.
  assert (Q : u_queue u' = set_nth (u_queue u) fill e') by reflexivity.
  assert (Nx : u_queue_next u' = u_queue_next u) by reflexivity.
  assert (Fl : u_queue_filled u' = S (u_queue_filled u)) by reflexivity.
  unfold qabs. rewrite Q, Nx, Fl.
  rewrite seq_S, map_app. cbn [map Nat.add]. f_equal.
  - apply map_ext_in. intros k Hk. apply in_seq in Hk. f_equal.
    apply nth_set_nth_neq. rewrite Hfill. apply not_eq_sym. apply wrap_inj; lia.
  - f_equal. rewrite <- Hfill. rewrite nth_set_nth_eq by lia. exact Hpe.
Qed.

(* ---- get -------------------------------------------------------------------------------- *)

Lemma get_empty u : u_queue_filled u = O -> get_from_outpacketq u = (u, false).
Proof. intros H. unfold get_from_outpacketq. rewrite H. reflexivity. Qed.

Lemma get_spec u x xs : qwf u -> qabs u = x :: xs ->
  let u' := fst (get_from_outpacketq u) in
  snd (get_from_outpacketq u) = true /\ qwf u' /\ qabs u' = xs /\
  p_data (u_out u') = firstn (N.to_nat 65536) x /\
  p_len (u_out u') = N.of_nat (length (firstn (N.to_nat 65536) x)) /\
  p_offset (u_out u') = 0%N /\ p_sentlen (u_out u') = 0%N /\
  p_seqno (u_out u') = ((p_seqno (u_out u) + 1) mod 8)%N /\ p_fragment (u_out u') = 0%Z /\
  u_in u' = u_in u.
Proof.
  intros [Hl Hn Hf] Habs. unfold qabs in Habs. unfold get_from_outpacketq.
  destruct (u_queue_filled u) as [|f] eqn:Ef; [discriminate Habs|].
  cbn zeta. cbn [fst snd].
  change (seq 0 (S f)) with (0 :: seq 1 f)%nat in Habs. cbn [map] in Habs.
  injection Habs as Hx Hxs. rewrite Nat.add_0_r in Hx.
  assert (Hw0 : wrap (u_queue_next u) = u_queue_next u).
  { unfold wrap. destruct (Nat.leb_spec QLEN (u_queue_next u)); [lia|reflexivity]. }
  rewrite Hw0 in Hx.
  split; [reflexivity|]. split.
  { constructor; cbn; [exact Hl| |lia].
    destruct (Nat.leb_spec QLEN (S (u_queue_next u))); [apply qlen_pos|lia]. }
  split.
  { unfold qabs. cbn. rewrite <- Hxs. rewrite <- seq_shift, map_map.
    apply map_ext_in. intros k Hk. apply in_seq in Hk. f_equal. f_equal.
    unfold wrap. destruct (Nat.leb_spec QLEN (S (u_queue_next u))) as [C|C].
    - assert (u_queue_next u = QLEN - 1)%nat as E by lia. rewrite E.
      destruct (Nat.leb_spec QLEN (0 + k)), (Nat.leb_spec QLEN (QLEN - 1 + S k)); lia.
    - destruct (Nat.leb_spec QLEN (S (u_queue_next u) + k)), (Nat.leb_spec QLEN (u_queue_next u + S k)); lia. }
  unfold start_new_outpacket. cbn. fold (payload (nth (u_queue_next u) (u_queue u) pkt0)). rewrite Hx.
  repeat split; reflexivity.
Qed.

(* ---- what a queued packet becomes ------------------------------------------------------- *)

(* FIFO: after saves d1 .. dn on an empty ring (n <= QLEN) the gets return d1 .. dn in that order *)
Lemma save_then_get u d : qwf u -> u_queue_filled u = O ->
  let u1 := fst (save_to_outpacketq u d) in
  let u2 := fst (get_from_outpacketq u1) in
  p_data (u_out u2) = firstn (N.to_nat 65536) d /\ qabs u2 = [] /\ u_queue_filled u2 = O.
Proof.
  intros W E. pose proof qlen_pos as Q.
  destruct (save_spec u d W ltac:(lia)) as (_ & W1 & A1 & _).
  assert (qabs u = []) as A0 by (unfold qabs; rewrite E; reflexivity).
  rewrite A0 in A1. cbn [app] in A1.
  destruct (get_spec _ _ _ W1 A1) as (_ & W2 & A2 & D & _).
  cbn zeta. split; [|split].
  - rewrite D. rewrite firstn_firstn, Nat.min_id. reflexivity.
  - exact A2.
  - unfold qabs in A2. apply map_eq_nil in A2.
    match type of A2 with seq 0 ?n = [] => destruct n; [reflexivity|discriminate A2] end.
Qed.

Lemma user_init_qwf ip : qwf (user_init ip).
Proof. constructor; cbn; [apply repeat_length|apply qlen_pos|lia]. Qed.

(* ---- client-to-client forwarding into a busy recipient (handle_full_packet) -------------------------- *)

Section Forward.
Variable unz : list N -> option (list N).

Lemma qabs_clear_in x p : qabs (x <| u_in := p |>) = qabs x.
Proof. reflexivity. Qed.

(* A completed upstream packet of session i whose destination is the live DNS-mode session t with a downstream
   packet still in flight: nothing is sent, and the bytes appended to t's ring are the sender's reassembled
   stream itself (64 KiB cap) -- not t's, not anybody else's -- or, when the ring is full, nothing changes.
   t's packet in flight is untouched. *)
Lemma forward_into_busy st now i ip t :
  unz (ServerFrame.hfp_raw st i) = Some ip -> ServerFrame.route st now ip = Some t -> (t < length st)%nat ->
  u_conn (getu st t) = CONN_DNS -> p_len (u_out (getu st t)) <> 0%N -> qwf (getu st t) ->
  let r := handle_full_packet unz st now i in
  snd r = [] /\
  qabs (getu (fst r) t) =
    (if (u_queue_filled (getu st t) <? QLEN)%nat
     then qabs (getu st t) ++ [firstn (N.to_nat 65536) (ServerFrame.hfp_raw st i)] else qabs (getu st t)) /\
  u_out (getu (fst r) t) = u_out (getu st t).
Proof.
  intros Hz Hr Ht Hc Hb W. cbn zeta.
  unfold handle_full_packet. cbv zeta.
  change (firstn (N.to_nat (p_len (u_in (getu st i)))) (p_data (u_in (getu st i)))) with (ServerFrame.hfp_raw st i).
  rewrite Hz.
  change (if (24 <=? length ip)%nat then find_user_by_ip st (le32_at ip 20) now else None) with (ServerFrame.route st now ip).
  rewrite Hr, Hc.
  destruct (N.eqb_spec (p_len (u_out (getu st t))) 0) as [E|_]; [contradiction|].
  cbn [fst snd]. split; [reflexivity|].
  set (raw := ServerFrame.hfp_raw st i).
  set (f := fun x => fst (save_to_outpacketq x raw)).
  set (g := fun x : suser => x <| u_in := (u_in x) <| p_len := 0%N |> <| p_offset := 0%N |> |>).
  assert (G : getu (upd (upd st t f) i g) t = (if Nat.eqb i t then g (f (getu st t)) else f (getu st t))).
  { destruct (Nat.eqb_spec i t) as [->|Hne].
    - rewrite ServerAnswerLedger.getu_upd_same by (rewrite ServerAnswerLedger.upd_length; exact Ht).
      rewrite ServerAnswerLedger.getu_upd_same by exact Ht. reflexivity.
    - rewrite ServerAnswerLedger.getu_upd_other by exact Hne.
      rewrite ServerAnswerLedger.getu_upd_same by exact Ht. reflexivity. }
  rewrite G.
  assert (Q : qabs (if Nat.eqb i t then g (f (getu st t)) else f (getu st t)) = qabs (f (getu st t)) /\
              u_out (if Nat.eqb i t then g (f (getu st t)) else f (getu st t)) = u_out (f (getu st t))).
  { destruct (Nat.eqb i t); split; reflexivity. }
  destruct Q as [Q1 Q2]. rewrite Q1, Q2. unfold f.
  destruct (Nat.ltb_spec (u_queue_filled (getu st t)) QLEN) as [Hlt|Hge].
  - destruct (save_spec (getu st t) raw W Hlt) as (_ & _ & A & O & _). split; [exact A|exact O].
  - rewrite save_full by exact Hge. split; reflexivity.
Qed.

End Forward.
