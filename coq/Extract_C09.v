(* Extraction of the executable model for C09/C10 (correspondence only). *)
From Coq Require Import Extraction ExtrOcamlBasic.
From Iodine Require Import Codec Hostname DnsName DnsMsg.
Extraction Language OCaml.
Set Extraction Optimize.
Extraction "extracted/model_c09.ml" DnsMsg.write_dns DnsMsg.client_extract DnsMsg.dns_decode_query
  DnsMsg.dns_encode_query DnsMsg.dns_get_id.
