(* ProtoRefine.v -- the dispatcher functions of the concrete models FOLLOW the abstract decision rules.

   ProtoTie.v shows that the abstract rules equal verbatim copies of the concrete if-chains.  This file
   removes the "copy" step for the two reassembly paths: using the staged forms of the real handlers
   proved equal to them elsewhere (ServerAnswerData.handle_data_eq for handle_data, ClientStages.
   tunnel_dns_stages for tunnel_dns) it shows that
     - the server's upstream bookkeeping in handle_data (data_pre) updates the reassembly state exactly
       as recv_rule prescribes: Ignore -> untouched; NewPacket -> seqno/fragment taken from the chunk and
       the buffer restarted with this chunk's bytes; NextFragment -> fragment advanced and the bytes
       appended at the current offset; and the buffer is handed to handle_full_packet exactly when the
       chunk was accepted and carries the last flag;
     - the client's downstream handling (td_down / td_accept inside tunnel_dns) updates its reassembly
       state exactly as cli_rule prescribes, and writes to the tun device only when an accepted fragment
       carries the last flag; a recent-seqno duplicate is cut to its header before that (td_main) and a
       dataless header changes the state only by adoption (cli_adopts). *)
From Coq Require Import List Arith Bool Lia ZArith NArith ZifyBool ZifyNat ZifyN.
From RecordUpdate Require Import RecordUpdate.
From Iodine Require Import Base Codec Hostname ProtoUp ProtoDown Server Client ProtoTie ServerAnswerData ClientStages.
Import ListNotations.

Ltac Zify.zify_post_hook ::= Z.div_mod_to_equations.

(* ---- server ------------------------------------------------------------------------------------- *)

Definition up_seq_of (inb : list N) : N := (b32_8to5 (chr inb 1) / 4) mod 8.
Definition up_frag_of (inb : list N) : N := (b32_8to5 (chr inb 1) mod 4) * 4 + (b32_8to5 (chr inb 2) / 8) mod 4.
Definition dn_seq_of (inb : list N) : N := b32_8to5 (chr inb 2) mod 8.
Definition dn_frag_of (inb : list N) : N := b32_8to5 (chr inb 3) / 2.
Definition lastflag_of (inb : list N) : bool := (b32_8to5 (chr inb 3) mod 2 =? 1)%N.

Definition chunk_bytes (u : suser) (inb : list N) (domain_len : nat) : list N :=
  unpack_data (codec_of_id (u_enc u)) (N.to_nat 65536) (skipn 5 inb) (domain_len - 5).

(* the buffer append of handle_data, as written there (u2 = session after the rule's bookkeeping) *)
Definition append_in (u2 : suser) (inb : list N) (domain_len : nat) : suser :=
  let dec := unpack_data (codec_of_id (u_enc u2)) (N.to_nat 65536) (skipn 5 inb) (domain_len - 5) in
  let ip2 := u_in u2 in
  let room := N.to_nat (65536 - p_offset ip2) in
  let piece := firstn room dec in
  u2 <| u_in := ip2 <| p_data := firstn (N.to_nat (p_offset ip2)) (p_data ip2 ++ repeat 0%N (N.to_nat (p_offset ip2))) ++ piece |>
                   <| p_len := (p_len ip2 + N.of_nat (length piece))%N |>
                   <| p_offset := (p_offset ip2 + N.of_nat (length piece))%N |> |>.

Definition reset_in (ip : pkt) (seq frag : N) : pkt :=
  ip <| p_seqno := seq |> <| p_fragment := Z.of_N frag |> <| p_len := 0%N |> <| p_offset := 0%N |>.

Lemma data_pre_follows_recv_rule u inb dl :
  let u1 := process_downstream_ack u (Z.of_N (dn_seq_of inb)) (Z.of_N (dn_frag_of inb)) in
  let ip := u_in u1 in
  data_pre u inb dl =
  match srv_rule_concrete (p_seqno ip) (p_fragment ip) (up_seq_of inb) (up_frag_of inb) with
  | Ignore => (u1, false, lastflag_of inb)
  | NewPacket => (append_in (u1 <| u_in := reset_in ip (up_seq_of inb) (up_frag_of inb) |>) inb dl, true, lastflag_of inb)
  | NextFragment => (append_in (u1 <| u_in := ip <| p_fragment := Z.of_N (up_frag_of inb) |> |>) inb dl, true, lastflag_of inb)
  end.
Proof.
  unfold data_pre, srv_rule_concrete, append_in, reset_in, lastflag_of. cbv zeta.
  fold (up_seq_of inb) (up_frag_of inb) (dn_seq_of inb) (dn_frag_of inb).
  set (u1 := process_downstream_ack u (Z.of_N (dn_seq_of inb)) (Z.of_N (dn_frag_of inb))).
  destruct ((up_seq_of inb =? p_seqno (u_in u1))%N && (Z.of_N (up_frag_of inb) <=? p_fragment (u_in u1))%Z); [reflexivity|].
  destruct (negb (up_seq_of inb =? p_seqno (u_in u1))%N && Server.recent_seqno (p_seqno (u_in u1)) (up_seq_of inb)); [reflexivity|].
  destruct (negb (up_seq_of inb =? p_seqno (u_in u1))%N); reflexivity.
Qed.

(* what the append does to the reassembly state *)
Lemma append_in_spec u2 inb dl :
  let ip2 := u_in u2 in
  let piece := firstn (N.to_nat (65536 - p_offset ip2)) (chunk_bytes u2 inb dl) in
  p_seqno (u_in (append_in u2 inb dl)) = p_seqno ip2 /\
  p_fragment (u_in (append_in u2 inb dl)) = p_fragment ip2 /\
  p_data (u_in (append_in u2 inb dl)) =
    firstn (N.to_nat (p_offset ip2)) (p_data ip2 ++ repeat 0%N (N.to_nat (p_offset ip2))) ++ piece /\
  p_len (u_in (append_in u2 inb dl)) = (p_len ip2 + N.of_nat (length piece))%N /\
  p_offset (u_in (append_in u2 inb dl)) = (p_offset ip2 + N.of_nat (length piece))%N.
Proof. unfold append_in, chunk_bytes. cbv zeta. repeat split. Qed.

(* the whole handler: when none of the early exits applies, handle_data is the staged tail whose
   reassembly step is data_pre and whose delivery condition is "accepted and last" *)
Lemma handle_data_reassembly unz c st now q inb dl :
  data_guard c st now q inb = None ->
  let i := N.to_nat (data_code inb) in
  handle_data unz c st now q inb dl = data_tail unz st now q i inb dl /\
  forall u3 ok lf, data_pre (getu st i) inb dl = (u3, ok, lf) ->
    let st1 := upd st i (fun _ => u3) in
    fst (data_tail unz st now q i inb dl) =
      (let '(st2, _) := if ok && lf then handle_full_packet unz st1 now i else (st1, []) in
       upd st2 i (fun _ => fst (d_users (getu st2 i) now q ok lf))).
Proof.
  intros Hg i. split.
  - rewrite handle_data_eq. rewrite Hg. reflexivity.
  - intros u3 ok lf Hp. unfold data_tail. fold i. rewrite Hp.
    destruct (if ok && lf then handle_full_packet unz (upd st i (fun _ => u3)) now i else (upd st i (fun _ => u3), [])) as [st2 o0].
    destruct (d_users (getu st2 i) now q ok lf) as [u8 o]. reflexivity.
Qed.

(* ---- client ------------------------------------------------------------------------------------- *)

(* what accepting a fragment does to the client's reassembly state *)
Lemma td_accept_spec unz buf read2 frag lastflag now_flag st :
  let r := td_accept unz buf read2 frag lastflag now_flag st in
  let s' := fst (fst r) in
  let piece := firstn (N.to_nat (65536 - k_len (c_in st))) (skipn 2 (firstn (Z.to_nat read2) buf)) in
  let data' := firstn (N.to_nat (k_len (c_in st))) (k_data (c_in st) ++ repeat 0%N (N.to_nat (k_len (c_in st)))) ++ piece in
  k_seqno (c_in s') = k_seqno (c_in st) /\ k_fragment (c_in s') = frag /\ k_data (c_in s') = data' /\
  k_len (c_in s') = (if lastflag then 0 else k_len (c_in st) + N.of_nat (length piece))%N /\
  snd (fst r) = (if lastflag
                 then match unz (firstn (N.to_nat (k_len (c_in st) + N.of_nat (length piece))) data') with Some p => [CTun p] | None => [] end
                 else []).
Proof.
  unfold td_accept. cbv zeta. destruct lastflag; cbn [fst snd];
    match goal with |- context [if ?b then _ else _] => destruct b end; cbn; repeat split; reflexivity.
Qed.

(* a data answer (read2 > 2) whose seqno is not a recent duplicate: the client's reassembly decision is
   exactly cli_rule *)
Lemma td_down_follows_cli_rule unz buf read2 nseq nfrag lastflag now_flag s6 :
  (2 < read2)%Z ->
  let inp := c_in s6 in
  (negb (nseq =? k_seqno inp)%N && Client.recent_seqno (k_seqno inp) nseq = false) ->
  td_down unz buf read2 nseq nfrag lastflag now_flag s6 =
  match cli_rule_concrete (k_seqno inp) (k_fragment inp) (k_len inp) nseq nfrag with
  | CIgnore => (s6 <| c_ping_soon := 500%N |>, [], now_flag)
  | CNew => td_accept unz buf read2 (Z.of_N nfrag) lastflag now_flag
              (s6 <| c_in := inp <| k_seqno := nseq |> <| k_fragment := Z.of_N nfrag |> <| k_len := 0%N |> |>)
  | CWeird | CNext => td_accept unz buf read2 (Z.of_N nfrag) lastflag now_flag s6
  end.
Proof.
  intros Hr inp Hnr. unfold td_down. fold inp.
  assert (E : (2 <? read2)%Z = true) by lia. rewrite E.
  unfold cli_rule_concrete. rewrite Hnr.
  destruct (negb (nseq =? k_seqno inp)%N); [reflexivity|].
  destruct ((k_fragment inp =? 0)%Z && (nfrag =? 0)%N && (k_len inp =? 0)%N); [reflexivity|].
  destruct (Z.of_N nfrag <=? k_fragment inp)%Z; [reflexivity|].
  destruct (k_fragment inp + 1 <? Z.of_N nfrag)%Z; reflexivity.
Qed.

(* the recent-seqno duplicate filter of td_main: such an answer is cut to its 2-byte header *)
Lemma recent_dup_is_cut (s1 : cstate) (read : Z) (nseq : N) :
  (2 < read)%Z -> negb (nseq =? k_seqno (c_in s1))%N && Client.recent_seqno (k_seqno (c_in s1)) nseq = true ->
  (if (2 <? read)%Z && negb (nseq =? k_seqno (c_in s1))%N && Client.recent_seqno (k_seqno (c_in s1)) nseq
   then (s1 <| c_ping_soon := 500%N |>, 2%Z) else (s1, read)) = (s1 <| c_ping_soon := 500%N |>, 2%Z).
Proof.
  intros Hr H. assert (E : (2 <? read)%Z = true) by lia. rewrite E. cbn [andb].
  rewrite H. reflexivity.
Qed.

(* a dataless answer (read2 <= 2) never touches the reassembly buffer in td_down *)
Lemma td_down_dataless unz buf read2 nseq nfrag lastflag now_flag s6 :
  (read2 <= 2)%Z -> td_down unz buf read2 nseq nfrag lastflag now_flag s6 = (s6, [], now_flag).
Proof. intros H. unfold td_down. assert (E : (2 <? read2)%Z = false) by lia. rewrite E. reflexivity. Qed.

(* ---- the client's upstream acknowledgement rule (sender side of ProtoUp: SAck) --------------------- *)

Lemma td_up_idle a b nf s7 : is_sending s7 = false -> td_up a b nf s7 = (s7, [], nf).
Proof. intros H. unfold td_up. rewrite H. reflexivity. Qed.

Lemma td_up_mismatch a b nf s7 :
  ((a =? k_seqno (c_out s7))%N && (Z.of_N b =? k_fragment (c_out s7))%Z = false) -> td_up a b nf s7 = (s7, [], nf).
Proof. intros H. unfold td_up. destruct (is_sending s7); [|reflexivity]. rewrite H. reflexivity. Qed.

(* matching ack of the last chunk: the packet is complete, the sender becomes idle *)
Lemma td_up_last nf s7 :
  is_sending s7 = true -> (k_len (c_out s7) <= k_offset (c_out s7) + k_sentlen (c_out s7))%N ->
  let r := td_up (k_seqno (c_out s7)) (Z.to_N (k_fragment (c_out s7))) nf s7 in
  (0 <= k_fragment (c_out s7))%Z ->
  is_sending (fst (fst r)) = false /\ k_seqno (c_out (fst (fst r))) = k_seqno (c_out s7) /\ snd (fst r) = [].
Proof.
  intros Hs Hl r Hf. unfold r, td_up. rewrite Hs.
  assert (E : (k_seqno (c_out s7) =? k_seqno (c_out s7))%N && (Z.of_N (Z.to_N (k_fragment (c_out s7))) =? k_fragment (c_out s7))%Z = true) by lia.
  rewrite E. cbn [k_len k_offset RecordSet.set].
  assert (E2 : (k_len (c_out s7) <=? k_offset (c_out s7) + k_sentlen (c_out s7))%N = true) by lia.
  cbn. rewrite E2.
  match goal with |- context [if ?c then _ else _] => destruct c end; cbn; repeat split; reflexivity.
Qed.

(* matching ack of an inner chunk: offset advances by what was sent, the fragment number by one, and the
   next chunk goes out at once *)
Lemma td_up_next nf s7 :
  is_sending s7 = true -> (k_offset (c_out s7) + k_sentlen (c_out s7) < k_len (c_out s7))%N -> (0 <= k_fragment (c_out s7))%Z ->
  td_up (k_seqno (c_out s7)) (Z.to_N (k_fragment (c_out s7))) nf s7 =
  (let st := s7 <| c_out := (c_out s7) <| k_offset := (k_offset (c_out s7) + k_sentlen (c_out s7))%N |>
                                       <| k_fragment := schar_wrap (k_fragment (c_out s7) + 1) |> |> <| c_resent := 0%N |> in
   let '(st2, out) := send_chunk st in (st2 <| c_ping_soon := 0%N |>, out, false)).
Proof.
  intros Hs Hl Hf. unfold td_up. rewrite Hs.
  assert (E : (k_seqno (c_out s7) =? k_seqno (c_out s7))%N && (Z.of_N (Z.to_N (k_fragment (c_out s7))) =? k_fragment (c_out s7))%Z = true) by lia.
  rewrite E. cbn [k_len k_offset RecordSet.set]. cbn.
  assert (E2 : (k_len (c_out s7) <=? k_offset (c_out s7) + k_sentlen (c_out s7))%N = false) by lia.
  rewrite E2. reflexivity.
Qed.
