(* Domain.v -- executable model of src/common.c check_topdomain and query_datalen (C17),
   and the declarative specifications they are proved against in DomainProofs.v.
   Model only; no proofs here.

   Strings are lists of bytes (N < 256) without the terminating NUL; where the C reads
   str[i+1] at the end of the string it reads that NUL, modelled by [hd 0].
   The length limits and the two label-length limits are read from the source by
   tools/gen_consts.py (Generated/SrcConsts.v).

   tolower/isdigit: the C calls tolower()/isdigit() on a plain (signed) char.  iodine never
   calls setlocale(), so the "C" locale applies: only 'A'..'Z' are changed by tolower, only
   '0'..'9' are digits, bytes >= 0x80 (negative chars; glibc's tables cover -128..255) are
   returned unchanged and are not digits.  The model is that ASCII-only function. *)
From Coq Require Import List NArith Arith Bool.
From Iodine Require Import Generated.SrcConsts.
Import ListNotations.
Local Open Scope N_scope.

Definition ch_dot : N := 46.    (* '.' *)
Definition ch_star : N := 42.   (* '*' *)
Definition ch_dash : N := 45.   (* '-' *)

Definition is_lower (c : N) : bool := (97 <=? c) && (c <=? 122).
Definition is_upper (c : N) : bool := (65 <=? c) && (c <=? 90).
Definition is_digit (c : N) : bool := (48 <=? c) && (c <=? 57).
Definition tolower (c : N) : N := if is_upper c then c + 32 else c.

(* the first alternative of the character test in check_topdomain *)
Definition td_plain_char (c : N) : bool :=
  is_lower c || is_upper c || is_digit c || (c =? ch_dash) || (c =? ch_dot).

(* --- check_topdomain ---------------------------------------------------------------- *)

(* The for loop, from index i with the rest [s] of the string still to read.
   [first] = (i == 0); result None = an error return inside the loop, Some (dots, chunklen)
   = loop finished.  Same order as the C: first the dot / chunk-length bookkeeping for
   str[i], then the character-class test of str[i]. *)
Fixpoint ct_loop (w first : bool) (dots chunklen : N) (s : list N) : option (N * N) :=
  match s with
  | [] => Some (dots, chunklen)
  | c :: t =>
      match (if c =? ch_dot then
               if chunklen =? 0 then None                               (* "Consecutive dots" *)
               else if src_TOPDOMAIN_LABEL_MAX <? chunklen then None    (* "Too long domain part" *)
               else Some (dots + 1, 0)
             else Some (dots, chunklen + 1)) with
      | None => None
      | Some (dots', chunklen') =>
          if td_plain_char c then ct_loop w false dots' chunklen' t
          else if w && (c =? ch_star) then
            if first then
              if hd 0 t =? ch_dot then ct_loop w false dots' chunklen' t
              else None                                  (* "Wildcard must be followed by dot" *)
            else None                                    (* "Wildcard only allowed as first char" *)
          else None                                      (* "Contains illegal character" *)
      end
  end.

(* true = accepted (the C returns 0), false = rejected (the C returns 1) *)
Definition check_topdomain (s : list N) (allow_wildcard : bool) : bool :=
  if (length s <? N.to_nat src_TOPDOMAIN_MIN)%nat then false          (* "Too short" *)
  else if (N.to_nat src_TOPDOMAIN_MAX <? length s)%nat then false     (* "Too long" *)
  else if hd 0 s =? ch_dot then false                                 (* "Starts with a dot" *)
  else
    match ct_loop allow_wildcard true 0 0 s with
    | None => false
    | Some (dots, chunklen) =>
        if dots =? 0 then false                                       (* "No dots" *)
        else if chunklen =? 0 then false                              (* "Ends with a dot" *)
        else if src_TOPDOMAIN_LABEL_MAX_END <? chunklen then false    (* "Too long domain part" *)
        else true
    end.

(* --- query_datalen ------------------------------------------------------------------- *)

(* The backward compare works on the reversed strings: [rq] = qname[qpos], qname[qpos-1],
   .., qname[0] and [rd] = topdomain[tpos], .., topdomain[0]; so qpos = length (tl rq),
   "qpos == 0 || qname[qpos-1] == '.'" is [at_boundary (tl rq)], "tpos == 0" is tl rd = [],
   and the loop condition qpos >= 0 is rq <> [].  tpos never goes below 0 (rd = [] is not
   reachable from a topdomain of length >= 1). *)
Definition at_boundary (rq' : list N) : bool :=
  match rq' with
  | [] => true
  | p :: _ => p =? ch_dot
  end.

Fixpoint qd_scan (rq rd : list N) : option nat :=
  match rq with
  | [] => None                                            (* loop ends: return -1 *)
  | qc :: rq' =>
      match rd with
      | [] => None
      | dc :: rd' =>
          if dc =? ch_star then
            if qc =? ch_star then None                    (* star in query name *)
            else if at_boundary rq' then Some (length rq')
            else qd_scan rq' rd                           (* qpos--, tpos unchanged *)
          else if tolower qc =? tolower dc then
            match rd' with
            | [] => if at_boundary rq' then Some (length rq') else None   (* tpos == 0 *)
            | _ => qd_scan rq' rd'                        (* tpos--, qpos-- *)
            end
          else None
      end
  end.

(* None = the C returns -1; Some n = the C returns n *)
Definition query_datalen (q d : list N) : option nat :=
  if (length d <? N.to_nat src_QUERY_DATALEN_MIN)%nat || (length q <? length d)%nat then None
  else qd_scan (rev q) (rev d).

(* --- declarative specifications (independent of the algorithms above) ------------------- *)

(* characters allowed in a tunnel domain: [A-Za-z0-9-.] *)
Definition dom_char (c : N) : Prop :=
  97 <= c <= 122 \/ 65 <= c <= 90 \/ 48 <= c <= 57 \/ c = ch_dash \/ c = ch_dot.

(* labels joined by '.': "splitting s at '.' gives ls" is  s = join_dot ls  with every label
   free of '.' *)
Fixpoint join_dot (ls : list (list N)) : list N :=
  match ls with
  | [] => []
  | [l] => l
  | l :: ls' => l ++ ch_dot :: join_dot ls'
  end.

Definition valid_domain_spec (s : list N) (w : bool) : Prop :=
  (3 <= length s <= 128)%nat /\
  (Forall dom_char s \/
   (w = true /\ exists t, s = ch_star :: ch_dot :: t /\ Forall dom_char t)) /\
  exists ls, s = join_dot ls /\ Forall (fun l => ~ In ch_dot l) ls /\
             (2 <= length ls)%nat /\ Forall (fun l => (1 <= length l <= 63)%nat) ls.

(* ASCII case-insensitive equality of characters / strings *)
Definition ci_eq (a b : N) : Prop :=
  a = b \/ (65 <= a <= 90 /\ b = a + 32) \/ (65 <= b <= 90 /\ a = b + 32).
Definition ci_eql (x y : list N) : Prop := Forall2 ci_eq x y.

(* the part before the matched domain is empty or ends with '.' *)
Definition boundary (pre : list N) : Prop := pre = [] \/ exists p, pre = p ++ [ch_dot].

(* m (the end of the query name) matches the domain d *)
Definition dom_match (m d : list N) : Prop :=
  (hd 0 d <> ch_star /\ ci_eql m d) \/
  (exists rest lbl rest',
      d = ch_star :: rest /\ m = lbl ++ rest' /\
      lbl <> [] /\ ~ In ch_dot lbl /\ ~ In ch_star lbl /\ ci_eql rest' rest).

Definition match_spec (q d : list N) (n : nat) : Prop :=
  exists pre m, q = pre ++ m /\ length pre = n /\ boundary pre /\ dom_match m d.

(* hypothesis on query names: no two consecutive dots *)
Fixpoint no_dotdot (q : list N) : bool :=
  match q with
  | a :: t => negb ((a =? ch_dot) && (hd 0 t =? ch_dot)) && no_dotdot t
  | [] => true
  end.
