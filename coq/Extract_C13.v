(* Extraction of the executable model of C13, used only by the correspondence check.
   ExtrOcamlBasic only; N, positive, Z, nat, string/ascii stay as extracted datatypes; no
   Extract Constant. *)
From Coq Require Import Extraction ExtrOcamlBasic.
From Iodine Require Import Shell.
Extraction Language OCaml.
Set Extraction Optimize.
Extraction "extracted/model_c13.ml" Shell.login_session Shell.login_commands Shell.tun_setip_cmd
  Shell.tun_setmtu_cmd Shell.parse_login_reply Shell.inet_pton4 Shell.inet_addr_glibc Shell.inet_ntoa
  Shell.mask_x86 Shell.cstr Shell.dotted_quadb.
