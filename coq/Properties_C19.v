(* Properties_C19.v -- final statements for property C19 (login response follows the documented
   challenge-response for all inputs).  Only statements, each closed by lemmas of
   LoginProofs.v, with Print Assumptions beneath.

   Vocabulary (coq/Login.v, coq/Md5.v):
     login_calculate p s   model of src/login.c, p = bytes of the password buffer, s = the
                           32-bit pattern of the C int seed;  = md5 (login_block p s)
     login_block p s       the 32 bytes the C hands to md5_append, computed word-wise as the C
                           (memcpy 32; per word: LE load, ntohl, xor seed, htonl, store)
     pad32 p               firstn 32 (p ++ repeat 0 32): first 32 bytes of the zero-padded password
     be32 s                the 4 bytes of the challenge, most significant first (as on the wire)
     rep8 l                eight repetitions of l
     doc_block p s         map2 N.lxor (pad32 p) (rep8 (be32 s))  -- doc/proto_00000502.txt
     md5                   RFC 1321, written from the RFC text
     raw_login_up/down     the hashes of seed+1 / seed-1 of the raw-UDP login
   Vocabulary of the glue between the version reply and the login (coq/LoginGlue.v); C ints are
   Z, uint32_t values and byte patterns are N:
     srv_version_reply seed uid   iodined.c 'V' branch + send_version_response: the 9 bytes handed
                           to write_dns for the int users[].seed and the int userid
     cli_version inb       client.c handshake_version on the reply bytes inb: Some (seed, userid)
                           as it stores them ( *seed = payload; userid = in[8] ), None = not accepted
     cli_payload_defined inb   no operand of the reassembly has undefined behaviour (int shift)
     cli_dns_login p seed  handshake_login: login_calculate(login, 16, password, seed)
     cli_raw_login p seed  send_raw_udp_login: login_calculate(.., (int) ((unsigned) seed + 1))
     cli_raw_accepts       handshake_raw_udp's test of the server's answer (seed - 1)
     srv_dns_login p seed  iodined.c login handler: login_calculate(.., users[userid].seed)
     srv_login_accepts     its memcmp with the 16 bytes of the login message
     u32_of_Z / int_of_u32 int -> uint32_t (mod 2^32) and uint32_t -> int (two's complement) *)
From Coq Require Import String Ascii.
From Coq Require Import List NArith ZArith Arith Lia.
From Iodine Require Import Base Generated.SrcConsts Md5 Login LoginProofs LoginGlue LoginGlueProofs.
From Iodine Require Server ServerFrame ServerAuthFinal.
From Iodine Require Import Startup StartupProofs.
From Iodine Require Handshake HandshakeProofs DnsMsg.
Import ListNotations.
Local Open Scope N_scope.

(* the login response is the MD5 digest of (first 32 bytes of the zero-padded password) xor
   (eight big-endian repetitions of the 32-bit challenge) -- for every password and every
   challenge (no bound on the length of p; s may be any N, only s mod 2^32 matters) *)
Theorem C19_spec : forall (p : list N) (s : N), bytes_ok p ->
  login_calculate p s = md5 (map2 N.lxor (pad32 p) (rep8 (be32 s))).
Proof. intros p s Hp. unfold login_calculate. rewrite (login_block_doc p s Hp). reflexivity. Qed.
Print Assumptions C19_spec.

(* nothing but the first 32 bytes of the padded password is read *)
Theorem C19_only_first32 : forall (p1 p2 : list N) (s : N),
  pad32 p1 = pad32 p2 -> login_calculate p1 s = login_calculate p2 s.
Proof. intros p1 p2 s H. unfold login_calculate. rewrite (login_block_pad p1 p2 s H). reflexivity. Qed.
Print Assumptions C19_only_first32.

(* in particular: whatever follows the 32nd byte of a password changes nothing, and a short
   password equals the same password followed by explicit zero bytes *)
Theorem C19_only_first32_extend : forall (p q : list N) (s : N), (32 <= length p)%nat ->
  login_calculate (p ++ q) s = login_calculate p s /\
  login_calculate p s = login_calculate (firstn 32 p) s.
Proof.
  intros p q s H. split; apply C19_only_first32; unfold pad32.
  - apply padn_app_long, H.
  - rewrite (padn_long 32 p H), padn_long by (rewrite firstn_length; lia).
    rewrite firstn_firstn. reflexivity.
Qed.
Print Assumptions C19_only_first32_extend.

Theorem C19_zero_padding : forall (p : list N) (n : nat) (s : N),
  login_calculate (p ++ repeat 0 n) s = login_calculate p s.
Proof.
  intros p n s. apply C19_only_first32. unfold pad32. apply padn_app_zeros.
Qed.
Print Assumptions C19_zero_padding.

(* login = md5 o block; the block (the only input of MD5) is injective in the padded password
   for a fixed challenge and injective in the challenge for a fixed password: it depends on
   each of the first 32 password bytes and on the challenge.  Byte i of the block is byte i of
   the padded password xor byte (i mod 4) of the big-endian challenge.  (Nothing stronger
   about the digest can be said without assuming MD5 collision resistance.) *)
Theorem C19_block_injective :
  (forall p s, login_calculate p s = md5 (login_block p s)) /\
  (forall p s, length (login_block p s) = 32%nat) /\
  (forall p1 p2 s, bytes_ok p1 -> bytes_ok p2 ->
     login_block p1 s = login_block p2 s -> pad32 p1 = pad32 p2) /\
  (forall p s1 s2, bytes_ok p -> s1 < 2 ^ 32 -> s2 < 2 ^ 32 ->
     login_block p s1 = login_block p s2 -> s1 = s2) /\
  (forall p s i, bytes_ok p -> (i < 32)%nat ->
     nth i (login_block p s) 0 = N.lxor (nth i (pad32 p) 0) (nth (i mod 4) (be32 s) 0)).
Proof.
  split; [reflexivity|]. split; [|split; [|split]].
  - intros p s. unfold login_block.
    rewrite src_login_copy_32, src_login_words_8, src_login_md5_len_32.
    change (N.to_nat 32) with 32%nat. change (N.to_nat 8) with 8%nat.
    assert (Hl : forall n buf, length (xor_words n buf s) = length buf).
    { induction n as [|n IH]; intros buf; [destruct buf; reflexivity|].
      destruct buf as [|b0 [|b1 [|b2 [|b3 rest]]]]; try reflexivity.
      cbn [xor_words]. rewrite app_length, IH. reflexivity. }
    rewrite firstn_length, Hl, padn_length. reflexivity.
  - intros p1 p2 s H1 H2. rewrite !login_block_doc by assumption. apply doc_block_inj_pad.
  - intros p s1 s2 Hp H1 H2. rewrite !login_block_doc by assumption.
    apply doc_block_inj_seed; assumption.
  - intros p s i Hp Hi. rewrite login_block_doc by assumption. apply doc_block_nth, Hi.
Qed.
Print Assumptions C19_block_injective.

(* raw-UDP login: the client sends the login hash of challenge+1, the server accepts exactly
   that and answers the hash of challenge-1, which is exactly what the client accepts; +1 and
   -1 are C int operations on the seed, i.e. modulo 2^32 on its bit pattern *)
Theorem C19_raw_interop : forall (p : list N) (s : N), s < 2 ^ 32 ->
  raw_login_up p s = login_calculate p ((s + 1) mod 2 ^ 32) /\
  raw_login_down p s = login_calculate p ((s + 2 ^ 32 - 1) mod 2 ^ 32) /\
  (s + 1) mod 2 ^ 32 = (if s =? 2 ^ 32 - 1 then 0 else s + 1) /\
  (s + 2 ^ 32 - 1) mod 2 ^ 32 = (if s =? 0 then 2 ^ 32 - 1 else s - 1) /\
  raw_server p s (raw_login_up p s) = Some (raw_login_down p s) /\
  (forall pkt r, raw_server p s pkt = Some r ->
     firstn 16 pkt = raw_login_up p s /\ r = raw_login_down p s) /\
  raw_client_accepts p s (raw_login_down p s) = true /\
  (forall h, raw_client_accepts p s h = true -> firstn 16 h = raw_login_down p s).
Proof.
  intros p s Hs. change (2 ^ 32) with M32 in *.
  destruct (seed_succ_spec s Hs) as [Hu _]. destruct (seed_pred_spec s Hs) as [Hd _].
  assert (Ed : seed_pred s = (s + M32 - 1) mod M32).
  { unfold seed_pred. rewrite (N.mod_small s M32 Hs). reflexivity. }
  split; [reflexivity|].
  split; [unfold raw_login_down; rewrite Ed; reflexivity|].
  split; [exact Hu|].
  split; [rewrite <- Ed; exact Hd|].
  split; [apply raw_server_accepts|].
  split; [intros pkt r H; exact (raw_server_exact p s pkt r H)|].
  split; [apply raw_client_accepts_down|apply raw_client_exact].
Qed.
Print Assumptions C19_raw_interop.

(* the challenge the raw login is checked against IS the one of the version reply: in the server model a session's
   challenge changes only when a version handshake claims the slot -- no login, option, ping, data, raw or tun step
   touches it -- so "challenge+1 towards the server, challenge-1 back" refers to the value the client was given
   (the SV cases of checks/c19.py run the real 'V' handler, the real login handler and then the real
   handle_raw_login on one session) *)
Theorem C19_challenge_survives_until_next_version : forall login zc unz c st e st' outs i,
  Server.step login zc unz c st e = (st', outs) ->
  (forall now rnd q, e = Server.EDns now rnd q -> Server.is_letter (Server.chr (Server.h_name q) 0) 118 = false) ->
  Server.u_seed (Server.getu st' i) = Server.u_seed (Server.getu st i).
Proof.
  intros login zc unz c st e st' outs i Hs Hnv.
  destruct (N.eq_dec (Server.u_seed (Server.getu st' i)) (Server.u_seed (Server.getu st i))) as [E|NE]; [exact E|].
  exfalso.
  destruct (ServerAuthFinal.final_claim_only login zc unz c st e st' outs i Hs (or_intror NE))
    as (now & rnd & q & dl & He & _ & _ & Hv & _).
  rewrite (Hnv now rnd q He) in Hv. discriminate Hv.
Qed.
Print Assumptions C19_challenge_survives_until_next_version.

(* what main() of either program prepares for login_calculate (Startup.v; the startup stage of checks/mainlib.py runs the
   real main() functions against it): a 33-byte buffer holding the first 32 bytes of the password, zero-filled and
   NUL-terminated -- whichever way the password was given -- so that the response computed over it is the response of the
   password: it depends on the password bytes and on nothing else (no residue of an earlier, longer -P; no lost last
   character at the prompt). *)
Theorem C19_startup_buffer : forall (pw : list N) (s : N),
  length (pw_buffer pw) = 33%nat /\ nth 32 (pw_buffer pw) 1 = 0 /\
  pw_buffer (firstn 32 pw) = pw_buffer pw /\
  login_calculate (pw_buffer pw) s = login_calculate pw s.
Proof.
  intros pw s. exact (conj (pw_buffer_length pw) (conj (pw_buffer_terminated pw) (conj (pw_buffer_first32 pw) (login_over_buffer pw s)))).
Qed.
Print Assumptions C19_startup_buffer.

Theorem C19_startup_sources :
  (forall ps p env inp, p <> [] -> startup_password (ps ++ [p]) env inp = pw_buffer p) /\
  (forall env inp, startup_password [] (Some env) inp = pw_buffer env) /\
  (forall line rest, ~ In 10 line -> (length line <= 79)%nat ->
     startup_password [] None (line ++ 10 :: rest) = pw_buffer line /\ startup_password [] None line = pw_buffer line).
Proof.
  split; [exact startup_password_P|]. split; [reflexivity|].
  intros line rest Hn Hl. unfold startup_password, last_opt, prompt_line. cbn [map last].
  rewrite until_nl_app by exact Hn. rewrite until_nl_nonl by exact Hn.
  rewrite firstn_all2 by exact Hl. split; reflexivity.
Qed.
Print Assumptions C19_startup_sources.

(* --- the glue between the server's version reply and the client's login ---------------------- *)
(* for every C int the server may hold as challenge (all 2^32) and every userid the server can
   assign: the real reply layout fed to the real reassembly gives back exactly that int (and the
   userid), no operand of the reassembly overflows an int shift, and bytes 4..7 of the reply are
   the challenge most significant byte first *)
Theorem C19_version_challenge_roundtrip : forall (seed : Z) (u : N),
  (-2147483648 <= seed < 2147483648)%Z -> u < 128 ->
  cli_version (srv_version_reply seed (Z.of_N u)) = Some (seed, Z.of_N u) /\
  cli_payload_defined (srv_version_reply seed (Z.of_N u)) = true /\
  firstn 4 (skipn 4 (srv_version_reply seed (Z.of_N u))) = be32 (u32_of_Z seed).
Proof. exact version_roundtrip_int. Qed.
Print Assumptions C19_version_challenge_roundtrip.

(* the same over the 2^32 bit patterns, with the reply spelled out *)
Theorem C19_version_challenge_roundtrip_u32 : forall (s u : N), s < 4294967296 -> u < 128 ->
  srv_version_reply (int_of_u32 s) (Z.of_N u) = vack_tag ++ be32 s ++ [u] /\
  cli_version (srv_version_reply (int_of_u32 s) (Z.of_N u)) = Some (int_of_u32 s, Z.of_N u) /\
  cli_payload_defined (srv_version_reply (int_of_u32 s) (Z.of_N u)) = true.
Proof. exact version_roundtrip. Qed.
Print Assumptions C19_version_challenge_roundtrip_u32.

(* hence the login the client sends is the one the server computes: DNS login with the challenge,
   raw login with challenge+1, the server's raw answer with challenge-1 (both modulo 2^32), and
   the DNS login is the documented MD5(pass32 xor 8 x big-endian challenge) *)
Theorem C19_handshake_login_agrees : forall (p : list N) (seed : Z) (u : N),
  (-2147483648 <= seed < 2147483648)%Z -> u < 128 ->
  exists cseed cuid,
    cli_version (srv_version_reply seed (Z.of_N u)) = Some (cseed, cuid) /\
    cseed = seed /\ cuid = Z.of_N u /\
    cli_dns_login p cseed = srv_dns_login p seed /\
    srv_login_accepts p seed (cli_dns_login p cseed) = true /\
    (bytes_ok p ->
       cli_dns_login p cseed = md5 (map2 N.lxor (pad32 p) (rep8 (be32 (u32_of_Z seed))))) /\
    cli_raw_login p cseed = raw_login_up p (u32_of_Z seed) /\
    cli_raw_login p cseed = login_calculate p ((u32_of_Z seed + 1) mod 2 ^ 32) /\
    raw_server p (u32_of_Z seed) (cli_raw_login p cseed) = Some (raw_login_down p (u32_of_Z seed)) /\
    cli_raw_accepts p cseed (raw_login_down p (u32_of_Z seed)) = true /\
    raw_login_down p (u32_of_Z seed) = login_calculate p ((u32_of_Z seed + 2 ^ 32 - 1) mod 2 ^ 32).
Proof. exact handshake_login_agrees. Qed.
Print Assumptions C19_handshake_login_agrees.

(* what the theorems above exclude (they rest on LoginGlueProofs.cli_check, which evaluates the
   source's expression on all 256 patterns of each byte): an in[7] read without its mask is
   sign-extended, and an in[4] shifted as an int is undefined for challenges >= 2^31 *)
Theorem C19_glue_mask_needed :
  let t := {| t_idx := 7; t_masked := false; t_mask := 0; t_cast := false; t_shift := 0 |} in
  cli_signed = true /\
  term_u32 t 128 = 4294967168 /\
  (forall b, b < 128 -> term_u32 t b = b) /\
  term_ok t 7 0 = false.
Proof. exact unmasked_low_byte_sign_extends. Qed.
Print Assumptions C19_glue_mask_needed.

Theorem C19_glue_cast_needed :
  let t := {| t_idx := 4; t_masked := true; t_mask := 255; t_cast := false; t_shift := 24 |} in
  term_u32 t 128 = 2147483648 /\ term_defined t 128 = false /\ term_defined t 127 = true /\
  term_ok t 4 24 = false.
Proof. exact uncast_high_byte_undefined. Qed.
Print Assumptions C19_glue_cast_needed.

(* the output buffer is written only when it can take 16 bytes *)
Theorem C19_buflen : forall (n : N) (p : list N) (s : N),
  (n < 16 -> login_out n p s = None) /\
  (16 <= n -> login_out n p s = Some (login_calculate p s)) /\
  length (login_calculate p s) = 16%nat.
Proof.
  intros n p s. unfold login_out. repeat split.
  - intros H. destruct (N.ltb_spec n 16); [reflexivity|lia].
  - intros H. destruct (N.ltb_spec n 16); [lia|reflexivity].
  - apply md5_length.
Qed.
Print Assumptions C19_buflen.

(* --- MD5 model against the RFC 1321 test suite (appendix A.5) ---------------------------- *)
Definition bytes_of_string (s : string) : list N :=
  map (fun c => N.of_nat (nat_of_ascii c)) (list_ascii_of_string s).

Theorem Md5_rfc_vectors :
  md5 (bytes_of_string ""%string) =
    [0xd4; 0x1d; 0x8c; 0xd9; 0x8f; 0x00; 0xb2; 0x04; 0xe9; 0x80; 0x09; 0x98; 0xec; 0xf8; 0x42; 0x7e] /\
  md5 (bytes_of_string "a"%string) =
    [0x0c; 0xc1; 0x75; 0xb9; 0xc0; 0xf1; 0xb6; 0xa8; 0x31; 0xc3; 0x99; 0xe2; 0x69; 0x77; 0x26; 0x61] /\
  md5 (bytes_of_string "abc"%string) =
    [0x90; 0x01; 0x50; 0x98; 0x3c; 0xd2; 0x4f; 0xb0; 0xd6; 0x96; 0x3f; 0x7d; 0x28; 0xe1; 0x7f; 0x72] /\
  md5 (bytes_of_string "message digest"%string) =
    [0xf9; 0x6b; 0x69; 0x7d; 0x7c; 0xb7; 0x93; 0x8d; 0x52; 0x5a; 0x2f; 0x31; 0xaa; 0xf1; 0x61; 0xd0] /\
  md5 (bytes_of_string "abcdefghijklmnopqrstuvwxyz"%string) =
    [0xc3; 0xfc; 0xd3; 0xd7; 0x61; 0x92; 0xe4; 0x00; 0x7d; 0xfb; 0x49; 0x6c; 0xca; 0x67; 0xe1; 0x3b] /\
  md5 (bytes_of_string "ABCDEFGHIJKLMNOPQRSTUVWXYZabcdefghijklmnopqrstuvwxyz0123456789"%string) =
    [0xd1; 0x74; 0xab; 0x98; 0xd2; 0x77; 0xd9; 0xf5; 0xa5; 0x61; 0x1c; 0x2c; 0x9f; 0x41; 0x9d; 0x9f] /\
  md5 (bytes_of_string "12345678901234567890123456789012345678901234567890123456789012345678901234567890"%string) =
    [0x57; 0xed; 0xf4; 0xa2; 0x2b; 0xe3; 0xc9; 0x55; 0xac; 0x49; 0xda; 0x2e; 0x21; 0x07; 0xb6; 0x7a].
Proof. repeat match goal with |- _ /\ _ => split end; vm_compute; reflexivity. Qed.
Print Assumptions Md5_rfc_vectors.

(* --- non-vacuity: the values of /repo/tests/login.c (password "iodine is the shit", seed 15,
   expected digest 2A8A12B4 E042EEAB D019171E 44A088CD), and the raw-login wrap at both ends - *)
Example C19_example_tests_login :
  bytes_ok (bytes_of_string "iodine is the shit"%string) /\
  login_calculate (bytes_of_string "iodine is the shit"%string) 15 =
    [0x2A; 0x8A; 0x12; 0xB4; 0xE0; 0x42; 0xEE; 0xAB; 0xD0; 0x19; 0x17; 0x1E; 0x44; 0xA0; 0x88; 0xCD] /\
  login_block (bytes_of_string "iodine is the shit"%string) 15 =
    [105; 111; 100; 102; 110; 101; 32; 102; 115; 32; 116; 103; 101; 32; 115; 103;
     105; 116; 0; 15; 0; 0; 0; 15; 0; 0; 0; 15; 0; 0; 0; 15].
Proof.
  split; [|split; vm_compute; reflexivity].
  apply bytes_okb_ok. vm_compute. reflexivity.
Qed.

Example C19_example_raw_wrap :
  let p := bytes_of_string "iodine is the shit"%string in
  (* seed = 2^32-1 (C int -1): seed+1 wraps to 0, seed-1 = 2^32-2 *)
  raw_login_up p 4294967295 = login_calculate p 0 /\
  raw_login_up p 4294967295 =
    [219; 175; 103; 247; 79; 77; 63; 172; 4; 12; 145; 110; 31; 100; 202; 239] /\
  raw_login_down p 4294967295 = login_calculate p 4294967294 /\
  raw_login_down p 4294967295 =
    [86; 141; 158; 186; 244; 37; 172; 217; 82; 221; 194; 1; 17; 64; 36; 218] /\
  (* seed = 0: seed-1 wraps to 2^32-1 (C int -1), seed+1 = 1 *)
  raw_login_down p 0 = login_calculate p 4294967295 /\
  raw_login_down p 0 =
    [255; 34; 185; 66; 157; 184; 88; 169; 64; 60; 95; 149; 228; 165; 212; 4] /\
  raw_login_up p 0 = login_calculate p 1 /\
  raw_login_up p 0 =
    [141; 126; 221; 90; 209; 23; 249; 55; 248; 145; 204; 62; 148; 208; 168; 132] /\
  raw_login_up p 0 <> raw_login_down p 0 /\
  raw_server p 0 (raw_login_down p 0) = None /\
  raw_client_accepts p 0 (raw_login_up p 0) = false.
Proof.
  cbv zeta.
  repeat match goal with |- _ /\ _ => split end; try (vm_compute; reflexivity).
  intros H. vm_compute in H. discriminate H.
Qed.

(* non-vacuity of the glue theorems: every userid the server assigns is below 128; challenge 0x80
   (low byte negative as a signed char) and 0xffffffff (the C int -1) go through the reply and
   come back, and the login for 0x80 is the documented one, not the one for 0xffffff80 *)
Example C19_example_glue :
  let p := bytes_of_string "iodine is the shit"%string in
  src_USERS <= 128 /\
  srv_version_reply 128 3 = [86; 65; 67; 75; 0; 0; 0; 128; 3] /\
  cli_version [86; 65; 67; 75; 0; 0; 0; 128; 3] = Some (128%Z, 3%Z) /\
  srv_version_reply (-1) 15 = [86; 65; 67; 75; 255; 255; 255; 255; 15] /\
  cli_version [86; 65; 67; 75; 255; 255; 255; 255; 15] = Some ((-1)%Z, 15%Z) /\
  cli_version [86; 78; 65; 75; 0; 0; 5; 2; 0] = None /\
  cli_version [86; 65; 67; 75; 0; 0; 0; 128] = None /\
  cli_dns_login p 128 =
    [32; 37; 213; 161; 40; 30; 197; 230; 159; 139; 235; 58; 80; 23; 199; 1] /\
  login_calculate p 4294967168 =
    [40; 73; 226; 110; 58; 111; 230; 15; 107; 82; 153; 214; 213; 77; 106; 50] /\
  cli_raw_login p 128 =
    [121; 27; 144; 148; 64; 0; 166; 172; 49; 183; 244; 98; 204; 127; 37; 7] /\
  cli_raw_login p (-1) = login_calculate p 0.
Proof.
  cbv zeta. split; [vm_compute; discriminate|].
  repeat match goal with |- _ /\ _ => split end; vm_compute; reflexivity.
Qed.

(* ------------------------------------------------------------------------------------------ *)
(* C19_handshake_challenge_provenance: the glue statements above are about one version reply handed to
   the client's expression.  This one is about handshake_version as the sequencing model runs it
   (Handshake.v, compared with the real function on scripted replies in checks/c06.py): for EVERY script
   of datagrams and time-outs, if the step returns 0 then the challenge and the user id it stored are
   exactly what cli_version reads from a datagram of the script that fitted one of its version queries
   (DNS id of that query, name starting with v or V) -- not from an unfitting datagram, not from an
   earlier or a later one, and nothing else in the step writes them.  client_handshake hands this
   stored challenge to handshake_login's digest and to the raw login (Handshake.hs_full). *)
Theorem C19_handshake_challenge_provenance :
  forall n s l,
    fst (fst (Handshake.attempts n Handshake.version_body (Handshake.ret 1%Z) s l)) = 0%Z ->
    exists m d cid,
      In (Handshake.ID m d) l /\
      let d' := Handshake.subst m cid 118 d in
      let x := DnsMsg.client_extract Handshake.cap_full d' (length d') in
      Handshake.fits cid 118 86 x = true /\
      cli_version (firstn (Z.to_nat (DnsMsg.da_rv x)) (DnsMsg.da_out x)) =
        Some (Handshake.h_seed (snd (fst (Handshake.attempts n Handshake.version_body (Handshake.ret 1%Z) s l))),
              Handshake.h_uid (snd (fst (Handshake.attempts n Handshake.version_body (Handshake.ret 1%Z) s l)))).
Proof. exact HandshakeProofs.version_sound. Qed.
Print Assumptions C19_handshake_challenge_provenance.
