(* DnsMsgProofs_Mx.v -- C09 for MX and SRV answers, server side: the name list built by write_dns
   (mx_build), its split into C strings by dns_encode (mx_strings) and the answer records
   (mx_records) with preference 10, 20, ... *)
From Coq Require Import List NArith ZArith Arith Bool Lia ZifyBool ZifyNat ZifyN.
From Iodine Require Import Generated.SrcConsts Base Codec CodecProofs Hostname DnsName DnsWf DnsMsg
  DnsMsgProofs_Base DnsMsgProofs_Null DnsMsgProofs_Dotify DnsMsgProofs_Name.
Import ListNotations.
Local Open Scope N_scope.

Ltac Zify.zify_post_hook ::= Z.div_mod_to_equations.

(* ---- the successive (remaining payload, suffix state) pairs of the multi-name loop ---------- *)

Fixpoint mx_states (fuel : nat) (e : N) (data : list N) (td : nat * nat) : list (list N * (nat * nat)) :=
  match fuel with
  | O => []
  | S f =>
      if (length data <=? host_used e data)%nat then [(data, td)]
      else (data, td) :: mx_states f e (skipn (host_used e data) data) (td_next td)
  end.

Definition st_name (e : N) (st : list N * (nat * nat)) : list N := host_name e (snd st) (fst st).
Definition st_labels (e : N) (st : list N * (nat * nat)) : list (list N) := host_labels e (snd st) (fst st).
Definition st_piece (e : N) (st : list N * (nat * nat)) : list N := firstn (host_used e (fst st)) (fst st).

(* "name1\0name2\0" *)
Definition flat (names : list (list N)) : list N := concat (map (fun nm => nm ++ [0]) names).

Lemma flat_cons nm r : flat (nm :: r) = nm ++ 0 :: flat r.
Proof. unfold flat. cbn [map concat]. rewrite <- app_assoc. reflexivity. Qed.

Lemma host_used_le e p : (host_used e p <= length p)%nat.
Proof. unfold host_used. apply enc_go_len. Qed.

Lemma mx_build_spec e fuel : forall data td acc, data <> [] -> (length data < fuel)%nat ->
  fst (mx_build fuel data e td acc) = acc ++ flat (map (st_name e) (mx_states fuel e data td)) ++ [0].
Proof.
  induction fuel as [|fuel IH]; intros data td acc Hne Hf; [lia|].
  cbn [mx_build mx_states]. rewrite nameenc_spec by (pose proof buf64k_eq; lia).
  destruct (host_used_pos e data Hne) as [Hu _].
  destruct (host_used e data) as [|n] eqn:En; [lia|].
  destruct (length data <=? S n)%nat eqn:E.
  - cbn [fst map]. rewrite flat_cons. unfold st_name. cbn [fst snd flat map concat]. rewrite <- !app_assoc. reflexivity.
  - apply Nat.leb_gt in E.
    rewrite IH.
    + cbn [map]. rewrite flat_cons. unfold st_name at 2. cbn [fst snd]. rewrite <- !app_assoc. reflexivity.
    + intros Hs. apply (f_equal (@length N)) in Hs. rewrite skipn_length in Hs. simpl in Hs. lia.
    + rewrite skipn_length. lia.
Qed.

Lemma mx_states_pieces e fuel : forall data td, (length data < fuel)%nat ->
  concat (map (st_piece e) (mx_states fuel e data td)) = data.
Proof.
  induction fuel as [|fuel IH]; intros data td Hf; [lia|].
  cbn [mx_states]. pose proof (host_used_le e data) as Hle.
  destruct (length data <=? host_used e data)%nat eqn:E.
  - apply Nat.leb_le in E. cbn [map concat]. unfold st_piece. cbn [fst]. rewrite app_nil_r. apply firstn_all2. lia.
  - apply Nat.leb_gt in E. cbn [map concat]. unfold st_piece at 1. cbn [fst].
    destruct (Nat.eq_dec (host_used e data) 0) as [Z|NZ].
    + (* no progress: only for an empty payload, which has length 0 <= 0 *)
      exfalso. assert (Hd : data <> []) by (destruct data; [simpl in E; lia|discriminate]).
      destruct (host_used_pos e data Hd). lia.
    + rewrite IH by (rewrite skipn_length; lia). apply firstn_skipn.
Qed.

(* every state but the last consumes the same number of bytes (the capacity of one name); the last
   one consumes what is left, which is not more *)
Definition full_used (e : N) (n : nat) : Prop :=
  (enclen (cbits (host_codec e)) n <= 245 < enclen (cbits (host_codec e)) (S n))%nat.

Lemma host_used_full e p : (host_used e p < length p)%nat -> full_used e (host_used e p).
Proof.
  intros Hlt. destruct (host_codec_wf e) as [Hwf _]. pose proof host_cap_eq as Hc.
  destruct (enc_exact _ Hwf host_cap p) as [G1 [G2 [G3 [G4 G5]]]]. cbv zeta in *.
  fold (host_used e p) in *. specialize (G5 Hlt). unfold full_used. lia.
Qed.

Lemma full_used_unique e n m : full_used e n -> full_used e m -> n = m.
Proof.
  unfold full_used. destruct (host_codec_wf e) as [Hwf _]. intros [A1 A2] [B1 B2].
  destruct (Nat.lt_trichotomy n m) as [H|[H|H]]; [|exact H|].
  - pose proof (enclen_mono _ Hwf (S n) m ltac:(lia)). lia.
  - pose proof (enclen_mono _ Hwf (S m) n ltac:(lia)). lia.
Qed.

Lemma full_used_ge e n : full_used e n -> (153 <= n <= 214)%nat.
Proof.
  unfold full_used. destruct (host_codec_wf e) as [Hwf _]. pose proof (k_ok _ Hwf) as Hk.
  unfold enclen. destruct Hk as [E|[E|E]]; rewrite E; lia.
Qed.

Lemma host_enc_len e p : length (host_enc e p) = enclen (cbits (host_codec e)) (host_used e p).
Proof.
  destruct (host_codec_wf e) as [Hwf _].
  destruct (enc_exact _ Hwf host_cap p) as [G1 [G2 [G3 [G4 G5]]]]. cbv zeta in *. exact G3.
Qed.

(* shape of the state list: n-byte pieces, then a last piece of at most n bytes *)
Lemma mx_states_shape e fuel : forall data td sts, data <> [] -> (length data < fuel)%nat ->
  mx_states fuel e data td = sts ->
  exists front lst, sts = front ++ [lst] /\
    host_used e (fst lst) = length (fst lst) /\ fst lst <> [] /\
    (forall st, In st front -> full_used e (host_used e (fst st)) /\ (host_used e (fst st) < length (fst st))%nat) /\
    (length data = fold_right (fun st a => host_used e (fst st) + a)%nat 0%nat sts)%nat.
Proof.
  induction fuel as [|fuel IH]; intros data td sts Hne Hf Hs; [lia|].
  cbn [mx_states] in Hs. pose proof (host_used_le e data) as Hle.
  destruct (length data <=? host_used e data)%nat eqn:E.
  - apply Nat.leb_le in E. exists [], (data, td). subst sts. cbn [fst app fold_right].
    split; [reflexivity|]. split; [lia|]. split; [assumption|]. split; [intros st []|lia].
  - apply Nat.leb_gt in E.
    destruct (host_used_pos e data Hne) as [Hu _].
    assert (Hs1 : skipn (host_used e data) data <> []).
    { intros Hs'. apply (f_equal (@length N)) in Hs'. rewrite skipn_length in Hs'. simpl in Hs'. lia. }
    assert (Hs2 : (length (skipn (host_used e data) data) < fuel)%nat) by (rewrite skipn_length; lia).
    destruct (IH _ (td_next td) _ Hs1 Hs2 eq_refl) as [front [lst [H1 [H2 [H3 [H4 H5]]]]]].
    + exists ((data, td) :: front), lst. subst sts. rewrite H1. cbn [app fst fold_right].
      split; [reflexivity|]. split; [assumption|]. split; [assumption|]. split.
      * intros st [<- | Hin]; [cbn [fst]; split; [apply host_used_full; exact E|exact E]|apply H4, Hin].
      * rewrite <- H1. rewrite <- H5, skipn_length. lia.
Qed.

(* ---- mx_strings splits the flat list back into the names ----------------------------------------- *)

Lemma skipn_S_app {A} (s : list A) x t : skipn (S (length s)) (s ++ x :: t) = t.
Proof. induction s as [|a s IH]; [reflexivity|exact IH]. Qed.

Definition cname_ok (nm : list N) : Prop := nm <> [] /\ Forall (fun ch => ch <> 0) nm.

Lemma mx_strings_flat names : forall fuel first, Forall cname_ok names ->
  (first = true -> names <> []) -> (length names < fuel)%nat ->
  mx_strings fuel (flat names ++ [0]) first = names.
Proof.
  induction names as [|nm r IH]; intros fuel first Hok Hfirst Hf.
  - destruct first; [specialize (Hfirst eq_refl); congruence|].
    destruct fuel; [simpl in Hf; lia|]. reflexivity.
  - destruct fuel; [simpl in Hf; lia|]. inversion Hok as [|? ? [Hn Hz] Hr]; subst.
    cbn [mx_strings]. rewrite flat_cons. rewrite <- app_assoc. cbn [app].
    rewrite cstr_app_nul by exact Hz.
    destruct nm as [|c nm]; [congruence|]. rewrite andb_false_r.
    f_equal. rewrite skipn_S_app.
    apply IH; [exact Hr|discriminate|simpl in Hf; lia].
Qed.

(* ---- the answer records ------------------------------------------------------------------------- *)

Definition srv_bytes (ty : N) : list N := if ty =? T_SRV then be16 10 ++ be16 5060 else [].

Definition mx_body (ty : N) (j : nat) (wl : list (list N)) : list N :=
  be16 (10 * N.of_nat j) ++ srv_bytes ty ++ wire wl.

Definition mx_rec (ty : N) (j : nat) (wl : list (list N)) : list N :=
  rr_head ty ++ be16 (N.of_nat (length (mx_body ty j wl))) ++ mx_body ty j wl.

Fixpoint mx_recs (ty : N) (j : nat) (wls : list (list (list N))) : list N :=
  match wls with
  | [] => []
  | wl :: r => mx_rec ty j wl ++ mx_recs ty (S j) r
  end.

Definition wl_ok (wl : list (list N)) : Prop :=
  Forall label_ok wl /\ wl <> [] /\ (length (dotted wl) <= 253)%nat.

Lemma srv_bytes_len ty : (length (srv_bytes ty) <= 4)%nat.
Proof. unfold srv_bytes. destruct (ty =? T_SRV); cbn; lia. Qed.

Lemma mx_body_len ty j wl : length (mx_body ty j wl) = (2 + length (srv_bytes ty) + wire_len wl)%nat.
Proof. unfold mx_body. rewrite !app_length, be16_len, wire_length. lia. Qed.

Lemma mx_rec_len ty j wl : length (mx_rec ty j wl) = (12 + length (mx_body ty j wl))%nat.
Proof. unfold mx_rec. rewrite !app_length, rr_head_len, be16_len. lia. Qed.

Lemma mx_records_spec B ty wls : forall j sofar msg an, B = N.to_nat 65536 ->
  Forall wl_ok wls -> (length sofar + 280 * length wls + 300 <= B)%nat -> (j + length wls <= 1000)%nat ->
  mx_records B ty (map dotted wls) (N.of_nat j) sofar = Some (msg, an) ->
  msg = sofar ++ mx_recs ty j wls /\ an = N.of_nat (j + length wls) - 1.
Proof.
  induction wls as [|wl r IH]; intros j sofar msg an HB Hok Hlen Hj H.
  - cbn in H. apply some_inj in H. injection H as <- <-. cbn [mx_recs length]. rewrite app_nil_r. split; [reflexivity|lia].
  - apply Forall_cons_iff in Hok. destruct Hok as [[Hl [Hne Hdl]] Hr].
    cbn [map mx_records] in H. cbn [length] in Hlen, Hj.
    destruct (negb (checklen B sofar 10)); [discriminate|].
    destruct (negb (checklen B _ 2)); [discriminate|].
    pose proof (dotted_wire_len wl Hne) as Hwl.
    assert (Hmod : (10 * N.of_nat j) mod 65536 = 10 * N.of_nat j) by (apply N.mod_small; lia).
    rewrite Hmod in H.
    fold (srv_bytes ty) in H.
    match type of H with (if ?c then _ else _) = _ => destruct c; [discriminate|] end.
    pose proof (srv_bytes_len ty) as Hsl.
    rewrite (putname_wf _ (dotted wl) wl Hl eq_refl) in H
      by (rewrite !app_length, rr_head_len, be16_len; cbn [length]; lia).
    cbn [opt_bytes] in H.
    match type of H with (if ?c then _ else _) = _ => destruct c; [discriminate|] end.
    replace (N.of_nat j + 1) with (N.of_nat (S j)) in H by lia.
    assert (Hbody : (be16 (10 * N.of_nat j) ++ srv_bytes ty) ++ wire wl = mx_body ty j wl)
      by (unfold mx_body; rewrite <- app_assoc; reflexivity).
    rewrite Hbody in H.
    pose proof (mx_body_len ty j wl) as Hbl.
    assert (Hmod2 : N.of_nat (length (mx_body ty j wl)) mod 65536 = N.of_nat (length (mx_body ty j wl)))
      by (apply N.mod_small; lia).
    rewrite Hmod2 in H.
    apply IH in H; [|exact HB|exact Hr| |lia].
    + destruct H as [-> ->]. split.
      * cbn [mx_recs]. unfold mx_rec. rewrite <- !app_assoc. reflexivity.
      * cbn [length]. f_equal. f_equal. lia.
    + rewrite !app_length, rr_head_len, be16_len. lia.
Qed.

Lemma flat_length names : (length names <= length (flat names))%nat.
Proof.
  induction names as [|nm r IH]; [cbn; lia|]. rewrite flat_cons, app_length. cbn [length]. lia.
Qed.

Lemma wl_ok_cname wl : wl_ok wl -> cname_ok (dotted wl).
Proof.
  intros [Hl [Hne Hdl]]. split; [|apply dotted_nz, Hl].
  destruct wl as [|w r]; [congruence|]. inversion Hl as [|? ? [Hw _] _]; subst.
  destruct w as [|c w]; [simpl in Hw; lia|]. destruct r; discriminate.
Qed.

Definition mx_answer (id : N) (ws : list (list N)) (ty : N) (wls : list (list (list N))) : list N :=
  ans_head id (N.of_nat (length wls)) ws ty ++ mx_recs ty 1 wls.

Lemma encode_mx B name ty id ws wls d : B = N.to_nat 65536 ->
  ty = T_MX \/ ty = T_SRV ->
  Forall label_ok ws -> ws <> [] -> name = dotted ws -> (length name <= 253)%nat ->
  Forall wl_ok wls -> wls <> [] -> (length wls <= 200)%nat ->
  dns_encode_answer B {| q_name := name; q_type := ty; q_id := id |} (flat (map dotted wls) ++ [0]) = Some d ->
  d = mx_answer id ws ty wls.
Proof.
  intros H64 Hty Hok Hne Hn Hl Hwls Hwne Hwlen H. unfold dns_encode_answer in H. cbn [q_name q_type q_id] in H.
  rewrite (putname_qname B name ws H64 Hok Hne Hn Hl) in H. cbn [opt_bytes] in H.
  destruct (B <? 12)%nat; [discriminate|].
  destruct (negb (checklen B _ 4)); [discriminate|].
  assert (Ht : (ty =? T_CNAME) || (ty =? T_A) = false /\ (ty =? T_MX) || (ty =? T_SRV) = true).
  { destruct Hty as [-> | ->]; split; vm_compute; reflexivity. }
  destruct Ht as [Ht1 Ht2]. rewrite Ht1, Ht2 in H.
  rewrite mx_strings_flat in H.
  - pose proof (dotted_wire_len ws Hne) as Hwq. rewrite <- Hn in Hwq.
    destruct (mx_records B ty (map dotted wls) 1 _) as [[msg an]|] eqn:E; [|discriminate].
    apply (mx_records_spec B ty wls 1%nat) in E; [|exact H64|exact Hwls| |lia].
    + destruct E as [-> ->]. apply some_inj in H.
      assert (Hmod : (N.of_nat (1 + length wls) - 1) mod 65536 = N.of_nat (length wls)) by (rewrite N.mod_small; lia).
      rewrite Hmod in H. subst d. rewrite <- !app_assoc. rewrite set_ancount_hdr.
      unfold mx_answer, ans_head. rewrite <- !app_assoc. reflexivity.
    + rewrite !app_length, hdr_len, wire_length, !be16_len. lia.
  - rewrite Forall_forall. intros nm Hin. apply in_map_iff in Hin. destruct Hin as [wl [<- Hin]].
    apply wl_ok_cname. rewrite Forall_forall in Hwls. apply Hwls, Hin.
  - intros _. destruct wls; [congruence|discriminate].
  - pose proof (flat_length (map dotted wls)). rewrite app_length. cbn [length]. lia.
Qed.
