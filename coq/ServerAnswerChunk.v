(* ServerAnswerChunk.v -- C14: frame lemmas (which functions leave the held-query slots alone) and
   the exact effect of send_chunk_or_dataless on answers and slots; slot progress relation. *)
From Coq Require Import List NArith ZArith Arith Bool Lia Permutation.
From RecordUpdate Require Import RecordUpdate.
From Iodine Require Import Generated.SrcConsts Base Server ServerAnswerLedger.
Import ListNotations.
Local Open Scope N_scope.

(* ---- the part of a session the accounting looks at ----------------------------------------- *)

Definition qs3 (u : suser) : hq * hq * bool := (u_q u, u_qs u, u_lazy u).

Lemma qs3_q u u' : qs3 u' = qs3 u -> u_q u' = u_q u.
Proof. unfold qs3. congruence. Qed.
Lemma qs3_qs u u' : qs3 u' = qs3 u -> u_qs u' = u_qs u.
Proof. unfold qs3. congruence. Qed.
Lemma qs3_lazy u u' : qs3 u' = qs3 u -> u_lazy u' = u_lazy u.
Proof. unfold qs3. congruence. Qed.
Lemma qs3_getq u u' w : qs3 u' = qs3 u -> getq u' w = getq u w.
Proof. intros H. destruct w; simpl; [apply qs3_q|apply qs3_qs]; exact H. Qed.
Lemma qs3_held u u' : qs3 u' = qs3 u -> user_held u' = user_held u.
Proof. intros H. unfold user_held. rewrite (qs3_q _ _ H), (qs3_qs _ _ H). reflexivity. Qed.

Lemma qs3_drop u : qs3 (drop_outpacket u) = qs3 u.
Proof. reflexivity. Qed.
Lemma qs3_start u d : qs3 (start_new_outpacket u d) = qs3 u.
Proof. reflexivity. Qed.
Lemma qs3_getq_from u : qs3 (fst (get_from_outpacketq u)) = qs3 u.
Proof. unfold get_from_outpacketq. destruct (u_queue_filled u); reflexivity. Qed.
Lemma qs3_saveq u d : qs3 (fst (save_to_outpacketq u d)) = qs3 u.
Proof. unfold save_to_outpacketq. destruct (_ <=? _)%nat; reflexivity. Qed.
Lemma qs3_cache u q id a : qs3 (save_to_dnscache u q id a) = qs3 u.
Proof. unfold save_to_dnscache. destruct (_ <? _)%nat; reflexivity. Qed.
Lemma qs3_qmem u q : qs3 (save_to_qmem_pingordata u q) = qs3 u.
Proof.
  unfold save_to_qmem_pingordata.
  repeat match goal with
         | |- context[if ?b then _ else _] => destruct b
         | |- context[match ?b with _ => _ end] => destruct b
         end; reflexivity.
Qed.
Lemma qs3_ack u a b : qs3 (process_downstream_ack u a b) = qs3 u.
Proof.
  unfold process_downstream_ack.
  destruct (p_len (u_out u) =? 0); [reflexivity|].
  destruct (negb _); [reflexivity|].
  destruct (p_sentlen (u_out u) =? 0); [reflexivity|].
  match goal with |- context[if ?b then _ else _] => destruct b end; [|reflexivity].
  rewrite qs3_getq_from. reflexivity.
Qed.

Definition other (w : which_q) : which_q := match w with WQ => WQS | WQS => WQ end.

Lemma getq_setq_same u w q : getq (setq u w q) w = q.
Proof. destruct w; reflexivity. Qed.
Lemma getq_setq_other u w q : getq (setq u w q) (other w) = getq u (other w).
Proof. destruct w; reflexivity. Qed.
Lemma lazy_setq u w q : u_lazy (setq u w q) = u_lazy u.
Proof. destruct w; reflexivity. Qed.

Lemma user_held_wq u w : Permutation (user_held u) (hq_held (getq u w) ++ hq_held (getq u (other w))).
Proof. destruct w; unfold user_held; simpl; [reflexivity|apply Permutation_app_comm]. Qed.

(* ---- "this held query was answered" ------------------------------------------------------------ *)

(* the query in slot h was answered: one answer to (h_from, h_id) and, if a duplicate was
   remembered, one more with the same payload to (h_from2, h_id2) *)
Definition answered_by (outs : list out) (h : hq) : Prop :=
  exists d dl, In (OAnswer h (h_id h) (h_from h) d dl) outs /\
               (h_id2 h <> 0 -> In (OAnswer h (h_id2 h) (h_from2 h) d dl) outs).

Lemma answered_by_app_l o1 o2 h : answered_by o1 h -> answered_by (o1 ++ o2) h.
Proof. intros (d & dl & H1 & H2). exists d, dl. split; [|intros H]; apply in_or_app; left; auto. Qed.
Lemma answered_by_app_r o1 o2 h : answered_by o2 h -> answered_by (o1 ++ o2) h.
Proof. intros (d & dl & H1 & H2). exists d, dl. split; [|intros H]; apply in_or_app; right; auto. Qed.

(* what may happen to a slot in the course of a handler: untouched, or (if occupied) answered and
   freed.  Never: freed or overwritten without an answer. *)
Definition slot_prog (h h' : hq) (outs : list out) : Prop :=
  h' = h \/ (h_id h <> 0 /\ answered_by outs h /\ h_id h' = 0).

Lemma slot_prog_refl h : slot_prog h h [].
Proof. left. reflexivity. Qed.

Lemma slot_prog_trans h h' h'' o1 o2 :
  slot_prog h h' o1 -> slot_prog h' h'' o2 -> slot_prog h h'' (o1 ++ o2).
Proof.
  intros [->|(Hn & Ha & Hz)] [->|(Hn' & Ha' & Hz')].
  - left. reflexivity.
  - right. split; [exact Hn'|]. split; [apply answered_by_app_r, Ha'|exact Hz'].
  - right. split; [exact Hn|]. split; [apply answered_by_app_l, Ha|exact Hz].
  - contradiction.
Qed.

Lemma slot_prog_weaken_l h h' o1 o2 : slot_prog h h' o2 -> slot_prog h h' (o1 ++ o2).
Proof. intros H. apply (slot_prog_trans h h h' o1 o2); [left; reflexivity|exact H]. Qed.
Lemma slot_prog_weaken_r h h' o1 o2 : slot_prog h h' o1 -> slot_prog h h' (o1 ++ o2).
Proof. intros H. apply (slot_prog_trans h h' h' o1 o2); [exact H|left; reflexivity]. Qed.

(* a one-user phase that only answers held queries: exact accounting, lazy flag kept, slots progress *)
Definition pstep (qi : option inst) (u u' : suser) (outs : list out) : Prop :=
  uacc qi [] u u' outs [] /\ u_lazy u' = u_lazy u /\
  slot_prog (u_q u) (u_q u') outs /\ slot_prog (u_qs u) (u_qs u') outs.

Lemma pstep_same qi u u' : qs3 u' = qs3 u -> pstep qi u u' [].
Proof.
  intros H. split; [apply uacc_same, qs3_held, H|]. split; [apply qs3_lazy, H|].
  rewrite (qs3_q _ _ H), (qs3_qs _ _ H). split; apply slot_prog_refl.
Qed.

Lemma pstep_trans qi u u' u'' o1 o2 : pstep qi u u' o1 -> pstep qi u' u'' o2 -> pstep qi u u'' (o1 ++ o2).
Proof.
  intros (A1 & L1 & Q1 & S1) (A2 & L2 & Q2 & S2).
  split; [exact (uacc_trans qi [] [] u u' u'' o1 o2 [] [] A1 A2)|].
  split; [congruence|]. split; eapply slot_prog_trans; eassumption.
Qed.

(* ---- send_chunk_or_dataless --------------------------------------------------------------------- *)

Definition sc_outs (h : hq) (d : list N) (dl : N) : list out :=
  OAnswer h (h_id h) (h_from h) d dl ::
  (if h_id2 h =? 0 then [] else [OAnswer h (h_id2 h) (h_from2 h) d dl]).

(* It answers exactly the selected slot's query plus its remembered duplicate (same payload),
   frees that slot (id := 0) and touches neither the other slot nor the lazy flag. *)
Lemma send_chunk_spec u w :
  exists d dl,
    snd (fst (send_chunk_or_dataless u w)) = sc_outs (getq u w) d dl /\
    h_id (getq (fst (fst (send_chunk_or_dataless u w))) w) = 0 /\
    getq (fst (fst (send_chunk_or_dataless u w))) (other w) = getq u (other w) /\
    u_lazy (fst (fst (send_chunk_or_dataless u w))) = u_lazy u.
Proof.
  unfold send_chunk_or_dataless.
  set (u1 := if (0 <? p_len (u_out u)) && (5 <? u_resent u) then fst (get_from_outpacketq (drop_outpacket u)) else u).
  assert (E1 : qs3 u1 = qs3 u).
  { subst u1. destruct (_ && _); [|reflexivity]. rewrite qs3_getq_from. apply qs3_drop. }
  set (has := 0 <? p_len (u_out u1)).
  set (datalen := if has then _ else 0).
  set (payload := firstn _ _).
  set (u2 := if has then _ else u1).
  assert (E2 : qs3 u2 = qs3 u).
  { subst u2. destruct has; [|exact E1]. rewrite <- E1. reflexivity. }
  set (pktb := _ :: _ :: payload).
  rewrite (qs3_getq u u2 w E2).
  set (h := getq u w).
  exists pktb, (u_downenc u2).
  destruct (h_id2 h =? 0) eqn:Hid2; simpl negb; cbv iota.
  - (* no duplicate remembered *)
    set (u5 := setq _ w _).
    assert (P5 : h_id (getq u5 w) = 0 /\ getq u5 (other w) = getq u (other w) /\ u_lazy u5 = u_lazy u).
    { subst u5. rewrite getq_setq_same, getq_setq_other, lazy_setq. split; [reflexivity|].
      rewrite (qs3_getq _ _ _ (qs3_cache _ _ _ _)), (qs3_lazy _ _ (qs3_cache _ _ _ _)).
      rewrite (qs3_getq _ _ _ (qs3_qmem _ _)), (qs3_lazy _ _ (qs3_qmem _ _)).
      split; [apply qs3_getq, E2|apply qs3_lazy, E2]. }
    destruct ((0 <? datalen) && (datalen =? p_len (u_out u5))).
    + destruct (get_from_outpacketq (drop_outpacket u5)) as [u6 got] eqn:E6. simpl.
      assert (E : qs3 u6 = qs3 u5).
      { change u6 with (fst (u6, got)). rewrite <- E6. rewrite qs3_getq_from. apply qs3_drop. }
      unfold sc_outs. fold h. rewrite Hid2. split; [reflexivity|].
      rewrite !(qs3_getq _ _ _ E), (qs3_lazy _ _ E). exact P5.
    + simpl. unfold sc_outs. fold h. rewrite Hid2. split; [reflexivity|exact P5].
  - set (u5 := setq _ w _).
    assert (P5 : h_id (getq u5 w) = 0 /\ getq u5 (other w) = getq u (other w) /\ u_lazy u5 = u_lazy u).
    { subst u5. rewrite getq_setq_same, getq_setq_other, lazy_setq. split; [reflexivity|].
      rewrite (qs3_getq _ _ _ (qs3_cache _ _ _ _)), (qs3_lazy _ _ (qs3_cache _ _ _ _)).
      rewrite (qs3_getq _ _ _ (qs3_qmem _ _)), (qs3_lazy _ _ (qs3_qmem _ _)).
      split; [apply qs3_getq, E2|apply qs3_lazy, E2]. }
    destruct ((0 <? datalen) && (datalen =? p_len (u_out u5))).
    + destruct (get_from_outpacketq (drop_outpacket u5)) as [u6 got] eqn:E6. simpl.
      assert (E : qs3 u6 = qs3 u5).
      { change u6 with (fst (u6, got)). rewrite <- E6. rewrite qs3_getq_from. apply qs3_drop. }
      unfold sc_outs. fold h. rewrite Hid2. split; [reflexivity|].
      rewrite !(qs3_getq _ _ _ E), (qs3_lazy _ _ E). exact P5.
    + simpl. unfold sc_outs. fold h. rewrite Hid2. split; [reflexivity|exact P5].
Qed.

Lemma answers_sc_outs qi h d dl : h_id h <> 0 -> answers qi (sc_outs h d dl) = hq_held h.
Proof.
  intros Hn. unfold sc_outs, hq_held. apply N.eqb_neq in Hn. rewrite Hn.
  destruct (h_id2 h =? 0); reflexivity.
Qed.

Lemma answered_by_sc_outs h d dl : answered_by (sc_outs h d dl) h.
Proof.
  exists d, dl. unfold sc_outs. split; [left; reflexivity|].
  intros Hn. apply N.eqb_neq in Hn. rewrite Hn. right. left. reflexivity.
Qed.

(* answering an occupied slot is a phase step *)
Lemma send_chunk_pstep qi u w u' outs again :
  send_chunk_or_dataless u w = (u', outs, again) -> h_id (getq u w) <> 0 ->
  pstep qi u u' outs /\ h_id (getq u' w) = 0 /\ getq u' (other w) = getq u (other w) /\
  answered_by outs (getq u w).
Proof.
  intros E Hn. destruct (send_chunk_spec u w) as (d & dl & Ho & Hz & Hoth & Hl).
  rewrite E in Ho, Hz, Hoth, Hl. simpl in Ho, Hz, Hoth, Hl. subst outs.
  assert (Hab : answered_by (sc_outs (getq u w) d dl) (getq u w)) by apply answered_by_sc_outs.
  split; [|auto].
  split.
  { unfold uacc. rewrite answers_sc_outs by exact Hn.
    pose proof (user_held_wq u w) as P1. pose proof (user_held_wq u' w) as P2.
    rewrite Hoth in P2. unfold hq_held at 1 in P2. rewrite Hz in P2. simpl in P2.
    perm_lia. }
  split; [exact Hl|].
  destruct w; simpl in *.
  - split; [right; auto|left; exact Hoth].
  - split; [left; exact Hoth|right; auto].
Qed.

Lemma slot_prog_freed h h' o : slot_prog h h' o -> h_id h' = 0 -> h_id h <> 0 -> answered_by o h.
Proof. intros [->|(_ & Ha & _)] Hz Hn; [contradiction|exact Ha]. Qed.

Lemma hq_held_fresh q : h_id q <> 0 -> h_id2 q = 0 -> hq_held q = [q_inst q].
Proof. intros Hn Hz. unfold hq_held. apply N.eqb_neq in Hn. rewrite Hn, Hz. reflexivity. Qed.

Lemma hq_held_free q : h_id q = 0 -> hq_held q = [].
Proof. intros Hz. unfold hq_held. rewrite Hz. reflexivity. Qed.

