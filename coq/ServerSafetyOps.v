(* ServerSafetyOps.v -- C05, part 2: the per-session operations of Server.v preserve the
   invariant user_ok_gen P of ServerSafetyProofs.v, and the datagrams they emit fit the C buffers:
   start_new_outpacket, the out-packet queue, the DNS cache, the query memories,
   send_chunk_or_dataless (pkt[4096]), process_downstream_ack. *)
From Coq Require Import List NArith ZArith Arith Bool Lia ZifyBool ZifyNat ZifyN.
From RecordUpdate Require Import RecordUpdate.
From Iodine Require Import Generated.SrcConsts Base Codec Hostname DnsName DnsMsg Domain Server ServerSafetyProofs.
Import ListNotations.
Local Open Scope N_scope.

Ltac Zify.zify_post_hook ::= Z.div_mod_to_equations.

(* all lemmas are generic in the condition P on the reassembly buffer: none of these operations
   touches u_in *)
Section Gen.
Context {P : pkt -> Prop}.

(* ---- start_new_outpacket, queue ---------------------------------------------------------- *)

Lemma firstn_K64_len {A} (l : list A) : (length (firstn (N.to_nat 65536) l) <= K64)%nat.
Proof. rewrite firstn_length. unfold K64. lia. Qed.

Lemma start_new_outpacket_ok u data : user_ok_gen P u -> user_ok_gen P (start_new_outpacket u data).
Proof.
  intros H. unfold start_new_outpacket. uok H; try lia.
  pose proof (firstn_K64_len data) as HL. destruct I_out.
  constructor; cbn; try lia; try assumption.
Qed.

Lemma save_to_outpacketq_ok u data : user_ok_gen P u -> user_ok_gen P (fst (save_to_outpacketq u data)).
Proof.
  intros H. unfold save_to_outpacketq.
  destruct (QLEN <=? u_queue_filled u)%nat eqn:E; [exact H|].
  uok H; try lia.
  - rewrite set_nth_length. assumption.
  - apply set_nth_Forall; [assumption|]. pose proof (firstn_K64_len data) as HL.
    constructor; cbn; lia.
Qed.

Lemma get_from_outpacketq_ok u : user_ok_gen P u -> user_ok_gen P (fst (get_from_outpacketq u)).
Proof.
  intros H. unfold get_from_outpacketq. destruct (u_queue_filled u) as [|f] eqn:E; [exact H|].
  cbn [fst].
  pose proof (start_new_outpacket_ok u (firstn (N.to_nat (p_len (nth (u_queue_next u) (u_queue u) pkt0)))
                                               (p_data (nth (u_queue_next u) (u_queue u) pkt0))) H) as H1.
  pose proof ring_sizes as (HQ & _).
  destruct H. uok H1; try lia.
  destruct (QLEN <=? S (u_queue_next u))%nat eqn:E2; lia.
Qed.

Lemma drop_outpacket_ok u : user_ok_gen P u -> user_ok_gen P (drop_outpacket u).
Proof.
  intros H. unfold drop_outpacket. uok H; try lia. destruct I_out. constructor; cbn; try lia; assumption.
Qed.

(* ---- caches ------------------------------------------------------------------------------ *)

Lemma save_to_dnscache_ok u q id answer : user_ok_gen P u -> hq_ok q -> user_ok_gen P (save_to_dnscache u q id answer).
Proof.
  intros H Hq. unfold save_to_dnscache.
  destruct (N.to_nat 4096 <? length answer)%nat eqn:E; [exact H|].
  pose proof ring_sizes as (_ & HC & _).
  uok H.
  - rewrite set_nth_length. assumption.
  - apply set_nth_Forall; [assumption|]. constructor; cbn; unfold K4096; try lia. exact Hq.
  - destruct (CACHELEN <=? S (u_cache_last u))%nat eqn:E2; lia.
Qed.

Lemma save_to_qmem_len mem last len cmc ty :
  length (fst (save_to_qmem mem last len cmc ty)) = length mem.
Proof. unfold save_to_qmem. cbn. apply set_nth_length. Qed.

Lemma save_to_qmem_Forall mem last len cmc ty :
  Forall qm_ok mem -> length cmc = 4%nat -> Forall qm_ok (fst (save_to_qmem mem last len cmc ty)).
Proof. intros H Hc. unfold save_to_qmem. cbn. apply set_nth_Forall; [exact H|exact Hc]. Qed.

Lemma save_to_qmem_last mem last len cmc ty : (0 < len)%nat -> (snd (save_to_qmem mem last len cmc ty) < len)%nat.
Proof. intros H. unfold save_to_qmem. cbn. destruct (len <=? S last)%nat eqn:E; lia. Qed.

Lemma lower4_length nm : length (lower4 nm) = 4%nat.
Proof. unfold lower4. rewrite map_length. reflexivity. Qed.

Lemma save_to_qmem_pingordata_ok u q : user_ok_gen P u -> user_ok_gen P (save_to_qmem_pingordata u q).
Proof.
  intros H. unfold save_to_qmem_pingordata.
  pose proof ring_sizes as (_ & _ & HP & HD).
  destruct (is_letter (chr (h_name q) 0) 112).
  - destruct (index_of DOT (h_name q) 0) as [cp|]; [|exact H].
    destruct (length (decode b32 8 (firstn (cp - 1) (skipn 1 (h_name q)))) <? 4)%nat eqn:E; [exact H|].
    destruct (save_to_qmem _ _ _ _ _) as [m l] eqn:ES.
    pose proof (save_to_qmem_len (u_pingmem u) (u_pingmem_last u) PINGLEN
                  (firstn 4 (decode b32 8 (firstn (cp - 1) (skipn 1 (h_name q))))) (h_type q)) as H1.
    pose proof (save_to_qmem_Forall (u_pingmem u) (u_pingmem_last u) PINGLEN
                  (firstn 4 (decode b32 8 (firstn (cp - 1) (skipn 1 (h_name q))))) (h_type q)) as H2.
    pose proof (save_to_qmem_last (u_pingmem u) (u_pingmem_last u) PINGLEN
                  (firstn 4 (decode b32 8 (firstn (cp - 1) (skipn 1 (h_name q))))) (h_type q) HP) as H3.
    rewrite ES in H1, H2, H3. cbn [fst snd] in *.
    uok H; try lia; try (apply H2; [assumption|]; rewrite firstn_length; lia).
  - destruct (length (h_name q) <? 5)%nat; [exact H|].
    destruct (save_to_qmem _ _ _ _ _) as [m l] eqn:ES.
    pose proof (save_to_qmem_len (u_datamem u) (u_datamem_last u) DATALEN (lower4 (h_name q)) (h_type q)) as H1.
    pose proof (save_to_qmem_Forall (u_datamem u) (u_datamem_last u) DATALEN (lower4 (h_name q)) (h_type q)) as H2.
    pose proof (save_to_qmem_last (u_datamem u) (u_datamem_last u) DATALEN (lower4 (h_name q)) (h_type q) HD) as H3.
    rewrite ES in H1, H2, H3. cbn [fst snd] in *.
    uok H; try lia; try (apply H2; [assumption|apply lower4_length]).
Qed.

Lemma setq_ok u w q : user_ok_gen P u -> hq_ok q -> user_ok_gen P (setq u w q).
Proof. intros H Hq. destruct w; cbn; uok H. Qed.

Lemma getq_ok u w : user_ok_gen P u -> hq_ok (getq u w).
Proof. intros H. destruct H. destruct w; assumption. Qed.

(* ---- outputs ------------------------------------------------------------------------------ *)

(* what every emitted datagram / packet must satisfy to fit the C buffers:
   OAnswer data  <= 4096   (pkt[4096] of send_chunk_or_dataless, dnscache_answer[][4096]; the
                            handshake answers are far smaller, see hnr_small below)
   q->name       <= 255    (struct query.name[256])
   ORaw frame    <= 4096   (packet[4096] of send_raw)
   OTun          <= 65536  (out[64*1024] of handle_full_packet)
   OAux          <= 65536  (buf[64*1024] of handle_ns_request / handle_a_request) *)
Definition out_ok (o : out) : Prop :=
  match o with
  | OAnswer q _ _ data _ => (length data <= K4096)%nat /\ hq_ok q
  | OAux _ bytes => (length bytes <= K64)%nat
  | ORaw _ bytes => (length bytes <= K4096)%nat
  | OTun bytes => (length bytes <= K64)%nat
  | OForward q => hq_ok q
  end.
Definition outs_ok (l : list out) : Prop := Forall out_ok l.

Lemma outs_ok_app a b : outs_ok a -> outs_ok b -> outs_ok (a ++ b).
Proof. intros Ha Hb. apply Forall_app. split; assumption. Qed.
Lemma outs_ok_nil : outs_ok [].
Proof. constructor. Qed.

(* ---- send_chunk_or_dataless, in stages ------------------------------------------------------ *)

Definition scd_u1 (u0 : suser) : suser :=
  if (0 <? p_len (u_out u0)) && (5 <? u_resent u0) then fst (get_from_outpacketq (drop_outpacket u0)) else u0.
Definition scd_datalen (u1 : suser) : N :=
  if 0 <? p_len (u_out u1)
  then N.min (N.min (u_fragsize u1) (p_len (u_out u1) - p_offset (u_out u1))) 4094 else 0.
Definition scd_u2 (u1 : suser) : suser :=
  if 0 <? p_len (u_out u1)
  then u1 <| u_out := (u_out u1) <| p_sentlen := scd_datalen u1 |> |> <| u_resent := u_resent u1 + 1 |>
  else u1.
Definition scd_pktb (u1 : suser) : list N :=
  let o := u_out u1 in let u2 := scd_u2 u1 in let o2 := u_out u2 in
  let datalen := scd_datalen u1 in
  let last := (0 <? p_len o) && (p_len o =? p_offset o + datalen) in
  (128 + (p_seqno (u_in u2) mod 8) * 16 + Z.to_N (p_fragment (u_in u2) mod 16))
  :: ((p_seqno o2 mod 8) * 32 + Z.to_N (p_fragment o2 mod 16) * 2 + (if last then 1 else 0))
  :: firstn (N.to_nat datalen) (skipn (N.to_nat (p_offset o)) (p_data o)).
Definition scd_q' (q : hq) : hq :=
  if negb (h_id2 q =? 0) then q <| h_id := h_id2 q |> <| h_from := h_from2 q |> else q.
Definition scd_u5 (u1 : suser) (w : which_q) : suser :=
  let u2 := scd_u2 u1 in let q' := scd_q' (getq u2 w) in
  setq (save_to_dnscache (save_to_qmem_pingordata u2 q') q' (h_id q') (scd_pktb u1)) w (q' <| h_id := 0 |>).
Definition scd_outs (u1 : suser) (w : which_q) : list out :=
  let u2 := scd_u2 u1 in let q := getq u2 w in
  OAnswer q (h_id q) (h_from q) (scd_pktb u1) (u_downenc u2)
  :: (if negb (h_id2 q =? 0) then [OAnswer q (h_id2 q) (h_from2 q) (scd_pktb u1) (u_downenc u2)] else []).

Lemma scd_eq u0 w :
  send_chunk_or_dataless u0 w =
  let u1 := scd_u1 u0 in let u5 := scd_u5 u1 w in
  if (0 <? scd_datalen u1) && (scd_datalen u1 =? p_len (u_out u5))
  then (fst (get_from_outpacketq (drop_outpacket u5)), scd_outs u1 w, snd (get_from_outpacketq (drop_outpacket u5)))
  else (u5, scd_outs u1 w, false).
Proof.
  unfold send_chunk_or_dataless, scd_u5, scd_outs, scd_q', scd_pktb, scd_u2, scd_datalen, scd_u1.
  cbv zeta.
  destruct ((0 <? p_len (u_out u0)) && (5 <? u_resent u0)).
  - destruct (0 <? p_len (u_out (fst (get_from_outpacketq (drop_outpacket u0))))).
    + destruct (negb (h_id2 (getq _ w) =? 0)); cbn [app];
      (destruct (_ && _); [destruct (get_from_outpacketq _); reflexivity|reflexivity]).
    + destruct (negb (h_id2 (getq _ w) =? 0)); cbn [app];
      (destruct (_ && _); [destruct (get_from_outpacketq _); reflexivity|reflexivity]).
  - destruct (0 <? p_len (u_out u0)).
    + destruct (negb (h_id2 (getq _ w) =? 0)); cbn [app];
      (destruct (_ && _); [destruct (get_from_outpacketq _); reflexivity|reflexivity]).
    + destruct (negb (h_id2 (getq _ w) =? 0)); cbn [app];
      (destruct (_ && _); [destruct (get_from_outpacketq _); reflexivity|reflexivity]).
Qed.

Lemma get_from_outpacketq_resent u : u_resent (fst (get_from_outpacketq u)) <= u_resent u.
Proof.
  unfold get_from_outpacketq. destruct (u_queue_filled u); cbn; lia.
Qed.

Lemma scd_u1_ok u0 : user_ok_gen P u0 -> user_ok_gen P (scd_u1 u0).
Proof.
  intros H. unfold scd_u1. destruct (_ && _); [apply get_from_outpacketq_ok, drop_outpacket_ok, H|exact H].
Qed.

Lemma scd_u1_resent u0 : (0 <? p_len (u_out (scd_u1 u0))) = true -> u_resent (scd_u1 u0) <= 5.
Proof.
  unfold scd_u1. destruct ((0 <? p_len (u_out u0)) && (5 <? u_resent u0)) eqn:E.
  - intros _. pose proof (get_from_outpacketq_resent (drop_outpacket u0)) as H. cbn in H. lia.
  - intros H. rewrite H in E. cbn in E. lia.
Qed.

Lemma scd_datalen_le u1 : scd_datalen u1 <= 4094 /\ p_offset (u_out u1) + scd_datalen u1 <= N.max (p_len (u_out u1)) (p_offset (u_out u1)).
Proof. unfold scd_datalen. destruct (0 <? p_len (u_out u1)); lia. Qed.

Lemma scd_u2_ok u1 : user_ok_gen P u1 -> ((0 <? p_len (u_out u1)) = true -> u_resent u1 <= 5) -> user_ok_gen P (scd_u2 u1).
Proof.
  intros H Hr. unfold scd_u2. destruct (0 <? p_len (u_out u1)) eqn:E; [|exact H].
  specialize (Hr eq_refl). pose proof (scd_datalen_le u1) as [H1 H2].
  uok H; try lia. destruct I_out. constructor; cbn; try lia; assumption.
Qed.

Lemma scd_pktb_len u1 : (length (scd_pktb u1) <= K4096)%nat.
Proof.
  unfold scd_pktb. cbv zeta. cbn [length]. rewrite firstn_length.
  pose proof (scd_datalen_le u1) as [H1 _]. unfold K4096. lia.
Qed.

Lemma scd_q'_ok q : hq_ok q -> hq_ok (scd_q' q).
Proof. unfold scd_q', hq_ok. destruct (negb _); cbn; auto. Qed.

Lemma scd_u5_ok u1 w : user_ok_gen P u1 -> ((0 <? p_len (u_out u1)) = true -> u_resent u1 <= 5) -> user_ok_gen P (scd_u5 u1 w).
Proof.
  intros H Hr. unfold scd_u5. cbv zeta.
  pose proof (scd_u2_ok u1 H Hr) as H2.
  pose proof (scd_q'_ok _ (getq_ok _ w H2)) as Hq.
  apply setq_ok; [apply save_to_dnscache_ok; [apply save_to_qmem_pingordata_ok, H2|exact Hq]|].
  unfold hq_ok in *. cbn. exact Hq.
Qed.

Lemma scd_outs_ok u1 w : user_ok_gen P u1 -> ((0 <? p_len (u_out u1)) = true -> u_resent u1 <= 5) -> outs_ok (scd_outs u1 w).
Proof.
  intros H Hr. unfold scd_outs. cbv zeta.
  pose proof (getq_ok _ w (scd_u2_ok u1 H Hr)) as Hq. pose proof (scd_pktb_len u1) as HL.
  constructor; [split; assumption|]. destruct (negb _); constructor; [split; assumption|constructor].
Qed.

Lemma scd_ok u0 w : user_ok_gen P u0 ->
  user_ok_gen P (fst (fst (send_chunk_or_dataless u0 w))) /\ outs_ok (snd (fst (send_chunk_or_dataless u0 w))).
Proof.
  intros H. rewrite scd_eq. cbv zeta.
  pose proof (scd_u1_ok u0 H) as H1. pose proof (scd_u1_resent u0) as Hr.
  pose proof (scd_u5_ok _ w H1 Hr) as H5. pose proof (scd_outs_ok _ w H1 Hr) as Ho.
  destruct (_ && _); cbn [fst snd]; split; auto.
  apply get_from_outpacketq_ok, drop_outpacket_ok, H5.
Qed.

(* ---- process_downstream_ack ------------------------------------------------------------------ *)

Lemma schar_wrap_range z : (-128 <= schar_wrap z <= 127)%Z.
Proof. unfold schar_wrap. lia. Qed.

Lemma schar_range b : b < 256 -> (-128 <= schar b <= 127)%Z.
Proof. intros H. unfold schar. destruct (b <? 128) eqn:E; lia. Qed.

Lemma process_downstream_ack_ok u s f : user_ok_gen P u -> user_ok_gen P (process_downstream_ack u s f).
Proof.
  intros H. unfold process_downstream_ack. cbv zeta.
  destruct (p_len (u_out u) =? 0); [exact H|]. destruct (negb _); [exact H|]. destruct (p_sentlen (u_out u) =? 0); [exact H|].
  match goal with |- user_ok_gen P (if ?c then _ else _) => destruct c eqn:E end.
  - apply get_from_outpacketq_ok.
    uok H; try lia. destruct I_out. constructor; cbn; try lia; try assumption. apply schar_wrap_range.
  - cbn in E.
    uok H; try lia. destruct I_out. constructor; cbn; try lia; try assumption. apply schar_wrap_range.
Qed.

End Gen.
(* EOF *)
