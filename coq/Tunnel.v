(* Tunnel.v -- the composed system: one client (Client.v), the server (Server.v) and an
   adversarial network between them (in-flight datagrams that the scheduler delivers, duplicates,
   drops, re-orders, re-sends with a rewritten DNS id and randomised letter case).  One system
   event = one iteration of the client's or the server's select loop.  Model only; executable
   (this is what the whole-system correspondence run executes against the two real programs). *)
From Coq Require Import List NArith ZArith Arith Bool.
From RecordUpdate Require Import RecordUpdate.
From Iodine Require Import Generated.SrcConsts Base Codec Hostname DnsName DnsMsg Domain Server Client.
Import ListNotations.
Local Open Scope N_scope.

Record idmap := mkidmap { im_new : N; im_orig : list N (* the client's original query datagram *) }.

Record sys := mksys {
  y_cli : cstate;
  y_srv : sstate;
  y_cfg : cfg;
  y_c2s : list (list N);        (* in flight client -> server, oldest first *)
  y_s2c : list (list N);        (* in flight server -> client *)
  y_td : nat * nat;             (* rotating ".xy" suffix state of write_dns_nameenc *)
  y_now : N;
  y_evno : N;                   (* event counter: seeds the server's rand() per event *)
  y_cli_addr : addr;
  y_idmap : list idmap
}.
#[export] Instance eta_sys : Settable _ := settable! mksys
  <y_cli; y_srv; y_cfg; y_c2s; y_s2c; y_td; y_now; y_evno; y_cli_addr; y_idmap>.

(* what an observer sees at the two tun devices *)
Inductive obs :=
| TunAtServer (pkt : list N)
| TunAtClient (pkt : list N).

Section WithOracles.
Variable login : list N -> N -> list N.
Variable zc : list N -> list N.
Variable unz : list N -> option (list N).

(* the harness' rand(): wire_srand(seed); rand() *)
Definition rand_after_seed (seed : N) : N :=
  (((seed * 1103515245 + 12345) mod 18446744073709551616) / 65536) mod 2147483648.

Definition dest4 : option (list N) := Some [10; 1; 2; 3].

(* turn server outputs into datagrams for the client (only those addressed to it) and tun writes *)
Fixpoint srv_outputs (ca : addr) (outs : list out) (td : nat * nat) (acc : list (list N)) (tun : list obs)
  : list (list N) * list obs * (nat * nat) :=
  match outs with
  | [] => (acc, tun, td)
  | o :: rest =>
      match o with
      | OAnswer q id to data downenc =>
          let '(dg, td') := write_dns {| q_name := h_name q; q_type := h_type q; q_id := id |} data downenc td in
          match dg with
          | Some d => srv_outputs ca rest td' (if addr_eqb to ca then acc ++ [d] else acc) tun
          | None => srv_outputs ca rest td' acc tun
          end
      | OAux to bytes => srv_outputs ca rest td (if addr_eqb to ca then acc ++ [bytes] else acc) tun
      | ORaw to bytes => srv_outputs ca rest td (if addr_eqb to ca then acc ++ [bytes] else acc) tun
      | OTun p => srv_outputs ca rest td acc (tun ++ [TunAtServer p])
      | OForward _ => srv_outputs ca rest td acc tun
      end
  end.

(* a relay that rewrote the id / letter case of a query maps the answer back *)
Fixpoint restore_question (a : list N) (orig : list N) (p : nat) (fuel : nat) : list N :=
  match fuel with
  | O => a
  | S f =>
      let l := nth p a 0 in
      if (l =? 0) || (64 <=? l) || negb (l =? nth p orig 0) then a
      else
        let n := N.to_nat l in
        restore_question (firstn (S p) a ++ firstn n (skipn (S p) orig) ++ skipn (S p + n) a) orig (S p + n) f
  end.

Definition map_back (im : list idmap) (d : list N) : list N :=
  if (length d <? 12)%nat then d else
  let id := nth 0 d 0 * 256 + nth 1 d 0 in
  match find (fun m => im_new m =? id) im with
  | None => d
  | Some m =>
      let o := im_orig m in
      let d1 := nth 0 o 0 :: nth 1 o 0 :: skipn 2 d in
      restore_question d1 o 12 64
  end.

(* one server loop iteration: clear send-real-soon marks, handle the event, sweep *)
Definition srv_iteration (y : sys) (handle : sstate -> sstate * list out) : sys * list obs :=
  let now := y_now y in
  let st0 := sweep_clear (y_srv y) now in
  let '(st1, o1) := handle st0 in
  let '(st2, o2) := sweep_send (length st1) 0 st1 now [] in
  let '(dgs, tun, td') := srv_outputs (y_cli_addr y) (o1 ++ o2) (y_td y) [] [] in
  (y <| y_srv := st2 |> <| y_td := td' |> <| y_s2c := y_s2c y ++ map (map_back (y_idmap y)) dgs |>
     <| y_evno := y_evno y + 1 |>, tun).

Definition cli_outputs (outs : list cout) : list (list N) * list obs :=
  fold_left (fun acc o =>
               match o with
               | CQuery d => (fst acc ++ [d], snd acc)
               | CRaw d => (fst acc ++ [d], snd acc)
               | CTun p => (fst acc, snd acc ++ [TunAtClient p])
               end) outs ([], []).

Definition cli_iteration (y : sys) (e : cevent) : sys * list obs :=
  let '(c', outs) := cstep zc unz (y_cli y) e in
  let '(dgs, tun) := cli_outputs outs in
  (y <| y_cli := c' |> <| y_c2s := y_c2s y ++ dgs |> <| y_evno := y_evno y + 1 |>, tun).

Definition remove_nth {A} (n : nat) (l : list A) : list A := firstn n l ++ skipn (S n) l.

(* flip the case of the letters of the question name selected by the bits of mask; set a new id *)
Fixpoint flip_name (d : list N) (p : nat) (mask : N) (fuel : nat) : list N :=
  match fuel with
  | O => d
  | S f =>
      let l := nth p d 0 in
      if (l =? 0) || (64 <=? l) then d
      else
        let n := N.to_nat l in
        let lbl := firstn n (skipn (S p) d) in
        let lbl' := map (fun pr => let '(i, ch) := pr in
                                   if N.testbit mask (N.of_nat ((p + i) mod 29)) &&
                                      (((65 <=? ch) && (ch <=? 90)) || ((97 <=? ch) && (ch <=? 122)))
                                   then N.lxor ch 32 else ch)
                        (combine (seq 0 n) lbl) in
        flip_name (firstn (S p) d ++ lbl' ++ skipn (S p + n) d) (S p + n) mask f
  end.

Inductive sysevent :=
| YCU (pkt : list N)              (* client reads a packet from its tun *)
| YSU (pkt : list N)              (* server reads a packet from its tun *)
| YC2S (k : nat) (mode : N) (newid : N) (mask : N)
      (* k-th in-flight query: 0 deliver, 1 deliver a copy (keep), 2 drop,
         3 deliver a copy with DNS id newid and letter case flipped by mask (relay re-send) *)
| YS2C (k : nat) (mode : N)       (* k-th in-flight answer: 0 deliver, 1 deliver a copy, 2 drop *)
| YCT                             (* client select() timeout *)
| YSS                             (* server select() timeout *)
| YTick (secs : N).

Definition sys_step (y : sys) (e : sysevent) : sys * list obs :=
  match e with
  | YCU pkt => cli_iteration y (CETun (y_now y) pkt)
  | YCT => cli_iteration y (CETimeout (y_now y))
  | YS2C k mode =>
      match nth_error (y_s2c y) k with
      | None => (y, [])
      | Some d =>
          let y1 := if mode =? 1 then y else y <| y_s2c := remove_nth k (y_s2c y) |> in
          if mode =? 2 then (y1, []) else cli_iteration y1 (CEDns (y_now y) d)
      end
  | YSU pkt => srv_iteration y (fun st => Server.tunnel_tun zc st (y_now y) pkt)
  | YSS => srv_iteration y (fun st => (st, []))
  | YC2S k mode newid mask =>
      match nth_error (y_c2s y) k with
      | None => (y, [])
      | Some d =>
          let y1 := if (mode =? 1) || (mode =? 3) then y else y <| y_c2s := remove_nth k (y_c2s y) |> in
          if mode =? 2 then (y1, []) else
          let israw := list_eqb (firstn 3 d) (firstn 3 src_raw_header) in
          let '(d', y2) :=
            if (mode =? 3) && negb israw && (12 <=? length d)%nat then
              let dd := (newid / 256) mod 256 :: newid mod 256 :: skipn 2 (flip_name d 12 mask 64) in
              (dd, y1 <| y_idmap := {| im_new := newid mod 65536; im_orig := d |} :: y_idmap y1 |>)
            else (d, y1) in
          srv_iteration y2 (fun st => recv_datagram login unz (y_cfg y) st (y_now y) (rand_after_seed (y_evno y))
                                                    (y_cli_addr y) dest4 d')
      end
  | YTick secs => (y <| y_now := y_now y + secs |>, [])
  end.

(* run a schedule, collecting observations *)
Fixpoint sys_run (y : sys) (es : list sysevent) : sys * list obs :=
  match es with
  | [] => (y, [])
  | e :: rest =>
      let '(y1, o1) := sys_step y e in
      let '(y2, o2) := sys_run y1 rest in
      (y2, o1 ++ o2)
  end.

(* ---- scripted session set-up (version, login, options) ----------------------------------- *)

Definition client_packet (c : cstate) (cmd : N) (data : list N) : cstate * list cout :=
  match packet_name cmd data (c_domain c) (c_maxlen c) with
  | None => (c, [])
  | Some (name, _) => send_query c name
  end.

(* deliver everything the client just sent to the server, drop the server's replies *)
Definition setup_exchange (y : sys) (r : cstate * list cout) : sys :=
  let '(c', outs) := r in
  let '(dgs, _) := cli_outputs outs in
  let y1 := y <| y_cli := c' |> in
  fold_left (fun yy d =>
               let '(y2, _) := srv_iteration yy (fun st => recv_datagram login unz (y_cfg yy) st (y_now yy)
                                                             (rand_after_seed (y_evno yy)) (y_cli_addr yy) dest4 d) in
               y2 <| y_s2c := [] |>) dgs y1.

Definition bump_seed (c : cstate) : cstate := c <| c_rand_seed := (c_rand_seed c + 1) mod 65536 |>.

Definition setup (cfg0 : cfg) (tun_ips : list N) (c0 : cstate) (fragsize : N) (downenc : N) (cli_addr : addr) (now : N) : sys :=
  let y0 := {| y_cli := c0; y_srv := init_state tun_ips; y_cfg := cfg0; y_c2s := []; y_s2c := []; y_td := (O, O);
               y_now := now; y_evno := 0; y_cli_addr := cli_addr; y_idmap := [] |} in
  (* version *)
  let y1 := setup_exchange y0 (client_packet (bump_seed c0) 118 (version_data src_PROTOCOL_VERSION (c_rand_seed c0))) in
  let seed := u_seed (getu (y_srv y1) 0) in
  (* login for user 0 *)
  let c1 := y_cli y1 in
  let y2 := setup_exchange y1 (client_packet (bump_seed c1) 108 (login_data 0 (login (c_password cfg0) seed) (c_rand_seed c1))) in
  (* upstream codec switch *)
  let c2 := y_cli y2 in
  let bits := if c_codec c2 =? 1 then 6 else if c_codec c2 =? 2 then 26 else if c_codec c2 =? 3 then 7 else 5 in
  let y3 := if c_codec c2 =? 0 then y2 else
            setup_exchange y2 (send_query (bump_seed c2) (handshake_name [115; b32_5to8 0; b32_5to8 bits] (c_rand_seed c2) (c_domain c2))) in
  (* downstream codec switch *)
  let c3 := y_cli y3 in
  let lc := if (65 <=? downenc) && (downenc <=? 90) then downenc + 32 else downenc in
  let y4 := if downenc =? 84 then y3 else
            setup_exchange y3 (send_query (bump_seed c3) (handshake_name [111; b32_5to8 0; lc] (c_rand_seed c3) (c_domain c3))) in
  (* lazy mode *)
  let c4 := y_cli y4 in
  let y5 := if c_lazy c4 then
              setup_exchange y4 (send_query (bump_seed c4) (handshake_name [111; b32_5to8 0; 108] (c_rand_seed c4) (c_domain c4)))
            else y4 in
  (* fragment size *)
  let c5 := y_cli y5 in
  let y6 := setup_exchange y5 (client_packet (bump_seed c5) 110 (fragsize_data 0 fragsize (c_rand_seed c5))) in
  y6 <| y_c2s := [] |> <| y_s2c := [] |>.

End WithOracles.
