(* Md5.v -- the MD5 message-digest algorithm, written from the text of RFC 1321 (section 3,
   steps 1-5), NOT from src/md5.c.  Messages and digests are byte lists ([list N], every
   byte < 256); 32-bit words are [N] with an explicit [mod 2^32] after every addition and
   shift.  Model only: executable with vm_compute and extractable.  It is tied to RFC 1321 by
   the seven test-suite vectors of its appendix A.5 (Properties_C19.Md5_rfc_vectors) and to
   src/md5.c by the correspondence run of checks/c19.py. *)
From Coq Require Import List NArith Arith.
Import ListNotations.
Local Open Scope N_scope.

Definition M32 : N := 4294967296.          (* 2^32 *)
Definition M64 : N := 18446744073709551616. (* 2^64 *)

Definition w32 (x : N) : N := x mod M32.
Definition add32 (a b : N) : N := (a + b) mod M32.
(* bitwise complement of a 32-bit word *)
Definition not32 (x : N) : N := N.lxor (x mod M32) 4294967295.
(* X <<< s : circular left shift of a 32-bit word by s bits, 0 < s < 32 *)
Definition rotl32 (x s : N) : N := N.lor ((N.shiftl x s) mod M32) (N.shiftr (x mod M32) (32 - s)).

(* RFC 1321 section 3.4: the four auxiliary functions *)
Definition fF (x y z : N) : N := N.lor (N.land x y) (N.land (not32 x) z).
Definition fG (x y z : N) : N := N.lor (N.land x z) (N.land y (not32 z)).
Definition fH (x y z : N) : N := N.lxor x (N.lxor y z).
Definition fI (x y z : N) : N := N.lxor y (N.lor x (not32 z)).

(* T[i] = integer part of 4294967296 * abs(sin(i)), i = 1..64 (RFC 1321 section 3.4) *)
Definition Ttab : list N :=
  [0xd76aa478; 0xe8c7b756; 0x242070db; 0xc1bdceee; 0xf57c0faf; 0x4787c62a; 0xa8304613; 0xfd469501;
   0x698098d8; 0x8b44f7af; 0xffff5bb1; 0x895cd7be; 0x6b901122; 0xfd987193; 0xa679438e; 0x49b40821;
   0xf61e2562; 0xc040b340; 0x265e5a51; 0xe9b6c7aa; 0xd62f105d; 0x02441453; 0xd8a1e681; 0xe7d3fbc8;
   0x21e1cde6; 0xc33707d6; 0xf4d50d87; 0x455a14ed; 0xa9e3e905; 0xfcefa3f8; 0x676f02d9; 0x8d2a4c8a;
   0xfffa3942; 0x8771f681; 0x6d9d6122; 0xfde5380c; 0xa4beea44; 0x4bdecfa9; 0xf6bb4b60; 0xbebfbc70;
   0x289b7ec6; 0xeaa127fa; 0xd4ef3085; 0x04881d05; 0xd9d4d039; 0xe6db99e5; 0x1fa27cf8; 0xc4ac5665;
   0xf4292244; 0x432aff97; 0xab9423a7; 0xfc93a039; 0x655b59c3; 0x8f0ccc92; 0xffeff47d; 0x85845dd1;
   0x6fa87e4f; 0xfe2ce6e0; 0xa3014314; 0x4e0811a1; 0xf7537e82; 0xbd3af235; 0x2ad7d2bb; 0xeb86d391].

(* the operations [abcd k s i] of the four rounds, in the order of the RFC: index k of the
   message word and shift amount s for operation i = 1..64 *)
Definition ktab : list nat :=
  [0; 1; 2; 3; 4; 5; 6; 7; 8; 9; 10; 11; 12; 13; 14; 15;
   1; 6; 11; 0; 5; 10; 15; 4; 9; 14; 3; 8; 13; 2; 7; 12;
   5; 8; 11; 14; 1; 4; 7; 10; 13; 0; 3; 6; 9; 12; 15; 2;
   0; 7; 14; 5; 12; 3; 10; 1; 8; 15; 6; 13; 4; 11; 2; 9]%nat.

Definition stab : list N :=
  [7; 12; 17; 22; 7; 12; 17; 22; 7; 12; 17; 22; 7; 12; 17; 22;
   5; 9; 14; 20; 5; 9; 14; 20; 5; 9; 14; 20; 5; 9; 14; 20;
   4; 11; 16; 23; 4; 11; 16; 23; 4; 11; 16; 23; 4; 11; 16; 23;
   6; 10; 15; 21; 6; 10; 15; 21; 6; 10; 15; 21; 6; 10; 15; 21].

Definition round_fun (i : nat) : N -> N -> N -> N :=
  match (i / 16)%nat with
  | 0%nat => fF
  | 1%nat => fG
  | 2%nat => fH
  | _ => fI
  end.

Definition state : Type := (N * N * N * N)%type.

(* operation number i (0-based): a = b + ((a + f(b,c,d) + X[k] + T[i]) <<< s), followed by
   the register rotation ABCD -> DABC that the RFC writes out as [ABCD] [DABC] [CDAB] [BCDA] *)
Definition md5_step (X : list N) (st : state) (i : nat) : state :=
  let '(a, b, c, d) := st in
  let f := round_fun i in
  let x := nth (nth i ktab 0%nat) X 0 in
  let t := nth i Ttab 0 in
  let s := nth i stab 0 in
  (d, add32 b (rotl32 (add32 (add32 (add32 a (f b c d)) x) t) s), b, c).

(* a 32-bit word from four bytes, low-order byte first *)
Definition le32 (b0 b1 b2 b3 : N) : N := b0 + 256 * b1 + 65536 * b2 + 16777216 * b3.

Fixpoint words_le (l : list N) : list N :=
  match l with
  | b0 :: b1 :: b2 :: b3 :: t => le32 b0 b1 b2 b3 :: words_le t
  | _ => []
  end.

Definition bytes_le32 (x : N) : list N :=
  [x mod 256; (x / 256) mod 256; (x / 65536) mod 256; (x / 16777216) mod 256].

(* step 4: process one 16-word block *)
Definition md5_block (st : state) (blk : list N) : state :=
  let X := words_le blk in
  let '(a0, b0, c0, d0) := st in
  let '(a, b, c, d) := fold_left (md5_step X) (seq 0 64) st in
  (add32 a0 a, add32 b0 b, add32 c0 c, add32 d0 d).

Fixpoint md5_blocks (n : nat) (st : state) (m : list N) : state :=
  match n with
  | O => st
  | S n' => md5_blocks n' (md5_block st (firstn 64 m)) (skipn 64 m)
  end.

(* steps 1 and 2: a single 1 bit (byte 0x80), zero bits up to 448 mod 512, then the bit length
   of the message as a 64-bit quantity, low-order word first, low-order byte first *)
Definition md5_pad (m : list N) : list N :=
  let len := length m in
  let bits := (N.of_nat len * 8) mod M64 in
  m ++ [128] ++ repeat 0 ((119 - len mod 64) mod 64)%nat
    ++ bytes_le32 (bits mod M32) ++ bytes_le32 (bits / M32).

(* step 3 *)
Definition md5_init : state := (0x67452301, 0xefcdab89, 0x98badcfe, 0x10325476).

(* step 5: A, B, C, D, each low-order byte first *)
Definition md5 (m : list N) : list N :=
  let p := md5_pad m in
  let '(a, b, c, d) := md5_blocks (length p / 64)%nat md5_init p in
  bytes_le32 a ++ bytes_le32 b ++ bytes_le32 c ++ bytes_le32 d.
