(* Properties_C17.v -- final statements for property C17 (tunnel domain validation and query
   matching follow label boundaries exactly).  Model: Domain.v (check_topdomain, query_datalen
   of src/common.c); specifications valid_domain_spec / match_spec are in Domain.v, written
   independently of the algorithms; lemmas in DomainProofs.v.

   Strings are lists of N.  The theorems hold for all such lists; C strings are the lists of
   bytes 1..255 (no NUL), which is the only part of the domain the correspondence check can
   exercise.  The limits 3 / 128 / 63 / 63 / 3 are read from the source on every run
   (DomainProofs.src_consts fails when one of them changes). *)
From Coq Require Import List NArith Arith Lia.
From Iodine Require Import Base Domain DomainProofs.
Import ListNotations.
Local Open Scope N_scope.

(* A tunnel domain is accepted exactly when it is 3..128 characters of letters, digits, '-'
   and '.', has at least two non-empty labels of at most 63 characters, and (allow_wildcard,
   server only) may start with a single "*." wildcard label. *)
Theorem C17_validate_iff : forall (s : list N) (w : bool),
  check_topdomain s w = true <-> valid_domain_spec s w.
Proof. exact check_topdomain_iff. Qed.
Print Assumptions C17_validate_iff.

(* A query name is treated as tunnel traffic exactly when it equals the domain or ends with it
   at a label boundary, case-insensitively, a leading wildcard matching exactly one star-free
   label; the reported data length is the length of the part before the matched domain.
   For every accepted domain (either flag) and every name without two consecutive dots. *)
Theorem C17_match_iff : forall (d : list N) (w : bool) (q : list N) (n : nat),
  check_topdomain d w = true -> no_dotdot q = true ->
  (query_datalen q d = Some n <-> match_spec q d n).
Proof. intros d w q n Hd Hq. exact (query_datalen_iff q d w n Hd Hq). Qed.
Print Assumptions C17_match_iff.

(* the data length is determined by the name and the domain *)
Theorem C17_match_unique : forall (q d : list N) (n1 n2 : nat),
  match_spec q d n1 -> match_spec q d n2 -> n1 = n2.
Proof. exact match_unique. Qed.
Print Assumptions C17_match_unique.

(* names outside the domain are never tunnel traffic: -1 exactly when no split of the name
   matches the domain at a label boundary *)
Theorem C17_no_match : forall (d : list N) (w : bool) (q : list N),
  check_topdomain d w = true -> no_dotdot q = true ->
  (query_datalen q d = None <-> forall n, ~ match_spec q d n).
Proof.
  intros d w q Hd Hq. split.
  - intros Hnone n Hm. apply (query_datalen_iff q d w n Hd Hq) in Hm. congruence.
  - intros Hno. destruct (query_datalen q d) as [n|] eqn:E; [|reflexivity].
    exfalso. apply (Hno n). apply (query_datalen_iff q d w n Hd Hq). exact E.
Qed.
Print Assumptions C17_no_match.

(* every name inside the domain is recognised, with no hypothesis on the name *)
Theorem C17_match_complete : forall (d : list N) (w : bool) (q : list N) (n : nat),
  check_topdomain d w = true -> match_spec q d n -> query_datalen q d = Some n.
Proof. intros d w q n Hd Hm. exact (query_datalen_complete q d w n Hd Hm). Qed.
Print Assumptions C17_match_complete.

(* for a domain accepted without the wildcard flag (the client's check, or a plain server
   domain) the equivalence needs no hypothesis on the name at all *)
Theorem C17_match_iff_plain : forall (d q : list N) (n : nat),
  check_topdomain d false = true ->
  (query_datalen q d = Some n <-> match_spec q d n).
Proof.
  intros d q n Hd. apply check_topdomain_iff in Hd. destruct Hd as [[H3 _] [[Hc|[Hw _]] _]].
  - apply qd_plain; assumption.
  - discriminate.
Qed.
Print Assumptions C17_match_iff_plain.

(* Why C17_match_iff has the hypothesis no_dotdot (it is part of the property's quantifier):
   for a wildcard domain the scan of the wildcard label tests qname[qpos-1] == '.', so the
   character next to the matched ".rest" is never tested for '.': "y..a.b" is matched by
   "*.a.b" with data length 0, the wildcard standing for "y." *)
Theorem C17_match_iff_without_nodotdot_refuted :
  exists (d q : list N) (n : nat),
    check_topdomain d true = true /\ query_datalen q d = Some n /\ ~ match_spec q d n.
Proof.
  exists [42; 46; 97; 46; 98], [121; 46; 46; 97; 46; 98], 0%nat.
  split; [vm_compute; reflexivity|]. split; [vm_compute; reflexivity|].
  intros [pre [m [E [L [B M]]]]]. destruct pre; [|discriminate]. simpl in E. subst m.
  destruct M as [[H _]|[rest [lbl [r' [D [E [_ [Nd [_ C]]]]]]]]].
  - apply H. reflexivity.
  - injection D as <-. apply Forall2_len in C.
    destruct (app_len_inj lbl [121; 46] r' [46; 97; 46; 98] (eq_sym E) C) as [-> _].
    apply Nd. right. left. reflexivity.
Qed.
Print Assumptions C17_match_iff_without_nodotdot_refuted.

(* --- non-vacuity ----------------------------------------------------------------------- *)

Definition s_test_com : list N := [116; 101; 115; 116; 46; 99; 111; 109].            (* "test.com" *)
Definition s_wild_test_com : list N := 42 :: 46 :: s_test_com.                       (* "*.test.com" *)
Definition s_abc_test_com : list N := [97; 98; 99; 46] ++ s_test_com.                 (* "abc.test.com" *)
Definition s_xtest_com : list N := 120 :: s_test_com.                                (* "xtest.com" *)
Definition s_ab_Cd_TEST_com : list N := [97; 98; 46; 67; 100; 46; 84; 69; 83; 84; 46; 99; 111; 109]. (* "ab.Cd.TEST.com" *)
Definition s_ab_star_test_com : list N := [97; 98; 46; 67; 42; 46] ++ s_test_com.    (* "ab.C*.test.com" *)

(* a plain domain is accepted with either flag; a wildcard domain only by the server *)
Example C17_example_domains :
  check_topdomain s_test_com false = true /\ check_topdomain s_test_com true = true /\
  check_topdomain s_wild_test_com true = true /\ check_topdomain s_wild_test_com false = false /\
  check_topdomain (repeat 97 63 ++ [46; 97]) false = true /\
  check_topdomain (repeat 97 64 ++ [46; 97]) false = false.
Proof. repeat split; vm_compute; reflexivity. Qed.

(* a matching name with data, the domain itself, a suffix match that is not at a label
   boundary, the wildcard taking exactly one label, a star inside the wildcard's label *)
Example C17_example_match :
  query_datalen s_abc_test_com s_test_com = Some 4%nat /\
  query_datalen s_test_com s_test_com = Some 0%nat /\
  query_datalen s_xtest_com s_test_com = None /\
  query_datalen s_ab_Cd_TEST_com s_wild_test_com = Some 3%nat /\
  query_datalen s_ab_star_test_com s_wild_test_com = None /\
  query_datalen s_test_com s_wild_test_com = None /\
  no_dotdot s_abc_test_com = true /\ no_dotdot s_xtest_com = true /\
  no_dotdot s_ab_Cd_TEST_com = true.
Proof. repeat split; vm_compute; reflexivity. Qed.

(* the specification side of the same instances, through the theorems *)
Example C17_example_spec :
  valid_domain_spec s_test_com false /\ valid_domain_spec s_wild_test_com true /\
  match_spec s_abc_test_com s_test_com 4 /\
  (forall n, ~ match_spec s_xtest_com s_test_com n) /\
  match_spec s_ab_Cd_TEST_com s_wild_test_com 3.
Proof.
  split; [apply C17_validate_iff; vm_compute; reflexivity|].
  split; [apply C17_validate_iff; vm_compute; reflexivity|].
  split; [apply (C17_match_iff s_test_com false); vm_compute; reflexivity|].
  split; [apply (C17_no_match s_test_com false); vm_compute; reflexivity|].
  apply (C17_match_iff s_wild_test_com true); vm_compute; reflexivity.
Qed.
