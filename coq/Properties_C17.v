(* Properties_C17.v -- final statements for property C17 (tunnel domain validation and query
   matching follow label boundaries exactly).  Model: Domain.v (check_topdomain, query_datalen
   of src/common.c); specifications valid_domain_spec / match_spec are in Domain.v, written
   independently of the algorithms; lemmas in DomainProofs.v.  The use of query_datalen's result
   by the server's dispatcher (Server.tunnel_dns / recv_datagram, modelling tunnel_dns() of
   src/iodined.c) is covered by the C17_dispatch* / C17_datagram_forward theorems; lemmas and the
   specification-side definitions in DomainDispatchProofs.v.

   Strings are lists of N.  The theorems hold for all such lists; C strings are the lists of
   bytes 1..255 (no NUL), which is the only part of the domain the correspondence check can
   exercise.  The limits 3 / 128 / 63 / 63 / 3 are read from the source on every run
   (DomainProofs.src_consts fails when one of them changes). *)
From Coq Require Import List NArith Arith Lia.
From Iodine Require Import Base DnsMsg Domain DomainProofs Server DomainDispatchProofs.
Import ListNotations.
Local Open Scope N_scope.

(* A tunnel domain is accepted exactly when it is 3..128 characters of letters, digits, '-'
   and '.', has at least two non-empty labels of at most 63 characters, and (allow_wildcard,
   server only) may start with a single "*." wildcard label. *)
Theorem C17_validate_iff : forall (s : list N) (w : bool),
  check_topdomain s w = true <-> valid_domain_spec s w.
Proof. exact check_topdomain_iff. Qed.
Print Assumptions C17_validate_iff.

(* A query name is treated as tunnel traffic exactly when it equals the domain or ends with it
   at a label boundary, case-insensitively, a leading wildcard matching exactly one star-free
   label; the reported data length is the length of the part before the matched domain.
   For every accepted domain (either flag) and every name without two consecutive dots. *)
Theorem C17_match_iff : forall (d : list N) (w : bool) (q : list N) (n : nat),
  check_topdomain d w = true -> no_dotdot q = true ->
  (query_datalen q d = Some n <-> match_spec q d n).
Proof. intros d w q n Hd Hq. exact (query_datalen_iff q d w n Hd Hq). Qed.
Print Assumptions C17_match_iff.

(* the data length is determined by the name and the domain *)
Theorem C17_match_unique : forall (q d : list N) (n1 n2 : nat),
  match_spec q d n1 -> match_spec q d n2 -> n1 = n2.
Proof. exact match_unique. Qed.
Print Assumptions C17_match_unique.

(* names outside the domain are never tunnel traffic: -1 exactly when no split of the name
   matches the domain at a label boundary *)
Theorem C17_no_match : forall (d : list N) (w : bool) (q : list N),
  check_topdomain d w = true -> no_dotdot q = true ->
  (query_datalen q d = None <-> forall n, ~ match_spec q d n).
Proof.
  intros d w q Hd Hq. split.
  - intros Hnone n Hm. apply (query_datalen_iff q d w n Hd Hq) in Hm. congruence.
  - intros Hno. destruct (query_datalen q d) as [n|] eqn:E; [|reflexivity].
    exfalso. apply (Hno n). apply (query_datalen_iff q d w n Hd Hq). exact E.
Qed.
Print Assumptions C17_no_match.

(* The wildcard label is for the server only: main() of iodine.c validates with allow_wildcard = 0, main() of
   iodined.c with 1 (the startup stage of checks/c17.py runs both real main() functions against this model).
   What the client accepts has no '*' anywhere; the server accepts all of it, and in addition exactly the
   strings "*." + plain characters that satisfy the same label rules. *)
Theorem C17_client_never_wildcard : forall (s : list N),
  check_topdomain s false = true -> ~ In ch_star s.
Proof. exact client_domain_no_star. Qed.
Print Assumptions C17_client_never_wildcard.

Theorem C17_server_accepts_client_domains : forall (s : list N),
  check_topdomain s false = true -> check_topdomain s true = true.
Proof. exact server_accepts_client_domains. Qed.
Print Assumptions C17_server_accepts_client_domains.

Theorem C17_server_only_wildcard : forall (s : list N),
  check_topdomain s true = true -> check_topdomain s false = false ->
  exists t, s = ch_star :: ch_dot :: t /\ Forall dom_char t.
Proof. exact server_only_domains. Qed.
Print Assumptions C17_server_only_wildcard.

(* every name inside the domain is recognised, with no hypothesis on the name *)
Theorem C17_match_complete : forall (d : list N) (w : bool) (q : list N) (n : nat),
  check_topdomain d w = true -> match_spec q d n -> query_datalen q d = Some n.
Proof. intros d w q n Hd Hm. exact (query_datalen_complete q d w n Hd Hm). Qed.
Print Assumptions C17_match_complete.

(* for a domain accepted without the wildcard flag (the client's check, or a plain server
   domain) the equivalence needs no hypothesis on the name at all *)
Theorem C17_match_iff_plain : forall (d q : list N) (n : nat),
  check_topdomain d false = true ->
  (query_datalen q d = Some n <-> match_spec q d n).
Proof.
  intros d q n Hd. apply check_topdomain_iff in Hd. destruct Hd as [[H3 _] [[Hc|[Hw _]] _]].
  - apply qd_plain; assumption.
  - discriminate.
Qed.
Print Assumptions C17_match_iff_plain.

(* Why C17_match_iff has the hypothesis no_dotdot (it is part of the property's quantifier):
   for a wildcard domain the scan of the wildcard label tests qname[qpos-1] == '.', so the
   character next to the matched ".rest" is never tested for '.': "y..a.b" is matched by
   "*.a.b" with data length 0, the wildcard standing for "y." *)
Theorem C17_match_iff_without_nodotdot_refuted :
  exists (d q : list N) (n : nat),
    check_topdomain d true = true /\ query_datalen q d = Some n /\ ~ match_spec q d n.
Proof.
  exists [42; 46; 97; 46; 98], [121; 46; 46; 97; 46; 98], 0%nat.
  split; [vm_compute; reflexivity|]. split; [vm_compute; reflexivity|].
  intros [pre [m [E [L [B M]]]]]. destruct pre; [|discriminate]. simpl in E. subst m.
  destruct M as [[H _]|[rest [lbl [r' [D [E [_ [Nd [_ C]]]]]]]]].
  - apply H. reflexivity.
  - injection D as <-. apply Forall2_len in C.
    destruct (app_len_inj lbl [121; 46] r' [46; 97; 46; 98] (eq_sym E) C) as [-> _].
    apply Nd. right. left. reflexivity.
Qed.
Print Assumptions C17_match_iff_without_nodotdot_refuted.

(* --- the use of the result in the server's dispatcher -------------------------------------
   Server.tunnel_dns models tunnel_dns() of src/iodined.c: domain_len = query_datalen(q.name,
   topdomain); domain_len >= 0 -> tunnel handling, else forward_query (-b) or nothing.  The
   specification side (in_domain_handling / out_of_domain_handling / tunnel_rr / no_forward /
   is_dns_answer) is in DomainDispatchProofs.v, written in the order of the C.  For every
   external function (login, unz), configuration, session state, time and query. *)

(* the dispatcher is exactly: tunnel handling when query_datalen is Some n (n = 0 included),
   forward-or-ignore when it is None *)
Theorem C17_dispatch : forall login unz (c : cfg) (st : sstate) (now rnd : N) (q : hq),
  tunnel_dns login unz c st now rnd q =
  match query_datalen (h_name q) (c_topdomain c) with
  | Some n => in_domain_handling login unz c st now rnd q n
  | None => out_of_domain_handling c st q
  end.
Proof. exact tunnel_dns_dispatch. Qed.
Print Assumptions C17_dispatch.

(* a query is forwarded exactly when its name is outside the domain and forwarding is configured;
   what is forwarded is that query *)
Theorem C17_dispatch_forward_iff : forall login unz (c : cfg) (st : sstate) (now rnd : N) (q q' : hq),
  In (OForward q') (snd (tunnel_dns login unz c st now rnd q)) <->
  (query_datalen (h_name q) (c_topdomain c) = None /\ c_bind c = true /\ q' = q).
Proof. exact tunnel_dns_forward_iff. Qed.
Print Assumptions C17_dispatch_forward_iff.

(* never both: each query is in exactly one of the two cases.  Inside the domain it gets the tunnel
   handling and no output is a forwarded query; outside it is forwarded (-b) or ignored, the
   sessions are unchanged and no output is a DNS answer *)
Theorem C17_dispatch_exclusive : forall login unz (c : cfg) (st : sstate) (now rnd : N) (q : hq),
  (exists n, query_datalen (h_name q) (c_topdomain c) = Some n /\
             tunnel_dns login unz c st now rnd q = in_domain_handling login unz c st now rnd q n /\
             no_forward (snd (tunnel_dns login unz c st now rnd q))) \/
  (query_datalen (h_name q) (c_topdomain c) = None /\
   tunnel_dns login unz c st now rnd q = (st, if c_bind c then [OForward q] else []) /\
   forall o, In o (snd (tunnel_dns login unz c st now rnd q)) -> ~ is_dns_answer o).
Proof. exact tunnel_dns_partition. Qed.
Print Assumptions C17_dispatch_exclusive.

(* the tunnel record types (NULL, PRIVATE, CNAME, A, MX, SRV, TXT) of a name inside the domain go to
   handle_null_request with the reported data length -- for A unless it is the ns./www. query *)
Theorem C17_dispatch_tunnel_types : forall login unz (c : cfg) (st : sstate) (now rnd : N) (q : hq) (n : nat),
  query_datalen (h_name q) (c_topdomain c) = Some n ->
  tunnel_rr (h_type q) = true -> ns_a_query q n = false -> www_a_query q n = false ->
  tunnel_dns login unz c st now rnd q = handle_null_request login unz c st now rnd q n.
Proof. exact tunnel_dns_inside_tunnel_rr. Qed.
Print Assumptions C17_dispatch_tunnel_types.

(* in particular a name that equals the domain (or whose only extra label is the wildcard's):
   data length 0 is tunnel traffic like any other *)
Theorem C17_dispatch_zero_data : forall login unz (c : cfg) (st : sstate) (now rnd : N) (q : hq),
  query_datalen (h_name q) (c_topdomain c) = Some 0%nat -> tunnel_rr (h_type q) = true ->
  tunnel_dns login unz c st now rnd q = handle_null_request login unz c st now rnd q 0.
Proof. exact tunnel_dns_zero_data_tunnel_rr. Qed.
Print Assumptions C17_dispatch_zero_data.

(* an NS query for a name inside the domain gets the NS auxiliary answer built for the matched
   part of the name *)
Theorem C17_dispatch_ns : forall login unz (c : cfg) (st : sstate) (now rnd : N) (q : hq) (n : nat),
  query_datalen (h_name q) (c_topdomain c) = Some n -> h_type q = T_NS ->
  tunnel_dns login unz c st now rnd q =
  (st, aux_out q (dns_encode_ns_response buf64k (to_query q) (skipn n (h_name q)) (answer_ip c q))).
Proof. exact tunnel_dns_inside_ns. Qed.
Print Assumptions C17_dispatch_ns.

(* ... and that answer is really sent (n = 0: the NS query for the domain itself; n = 1 would be
   the name ".domain"; 1000 is any bound below the 64 kB buffer, names have at most 255 bytes) *)
Theorem C17_dispatch_ns_answered : forall login unz (c : cfg) (st : sstate) (now rnd : N) (q : hq) (n : nat),
  query_datalen (h_name q) (c_topdomain c) = Some n -> h_type q = T_NS ->
  n <> 1%nat -> (length (h_name q) <= 1000)%nat ->
  exists bytes, tunnel_dns login unz c st now rnd q = (st, [OAux (h_from q) bytes]).
Proof. exact tunnel_dns_ns_answered. Qed.
Print Assumptions C17_dispatch_ns_answered.

(* any other record type of a name inside the domain is dropped, not forwarded *)
Theorem C17_dispatch_other_type : forall login unz (c : cfg) (st : sstate) (now rnd : N) (q : hq) (n : nat),
  query_datalen (h_name q) (c_topdomain c) = Some n ->
  tunnel_rr (h_type q) = false -> h_type q <> T_NS ->
  tunnel_dns login unz c st now rnd q = (st, []).
Proof. exact tunnel_dns_inside_other. Qed.
Print Assumptions C17_dispatch_other_type.

(* datagram level (raw-mode frames, DNS decoding, then the dispatcher): whatever datagram arrives,
   a forwarded query is the query decoded from it, its name is outside the domain and forwarding
   is configured *)
Theorem C17_datagram_forward : forall login unz (c : cfg) (st : sstate) (now rnd : N) (from : addr)
    (dest : option (list N)) (packet : list N) (q' : hq),
  In (OForward q') (snd (recv_datagram login unz c st now rnd from dest packet)) ->
  query_datalen (h_name q') (c_topdomain c) = None /\ c_bind c = true /\
  h_from q' = from /\ h_dest q' = dest /\
  dq_q (dns_decode_query packet (length packet)) =
    Some {| q_name := h_name q'; q_type := h_type q'; q_id := h_id q' |}.
Proof. exact recv_datagram_forward. Qed.
Print Assumptions C17_datagram_forward.

(* --- non-vacuity ----------------------------------------------------------------------- *)

Definition s_test_com : list N := [116; 101; 115; 116; 46; 99; 111; 109].            (* "test.com" *)
Definition s_wild_test_com : list N := 42 :: 46 :: s_test_com.                       (* "*.test.com" *)
Definition s_abc_test_com : list N := [97; 98; 99; 46] ++ s_test_com.                 (* "abc.test.com" *)
Definition s_xtest_com : list N := 120 :: s_test_com.                                (* "xtest.com" *)
Definition s_ab_Cd_TEST_com : list N := [97; 98; 46; 67; 100; 46; 84; 69; 83; 84; 46; 99; 111; 109]. (* "ab.Cd.TEST.com" *)
Definition s_ab_star_test_com : list N := [97; 98; 46; 67; 42; 46] ++ s_test_com.    (* "ab.C*.test.com" *)

(* a plain domain is accepted with either flag; a wildcard domain only by the server *)
Example C17_example_domains :
  check_topdomain s_test_com false = true /\ check_topdomain s_test_com true = true /\
  check_topdomain s_wild_test_com true = true /\ check_topdomain s_wild_test_com false = false /\
  check_topdomain (repeat 97 63 ++ [46; 97]) false = true /\
  check_topdomain (repeat 97 64 ++ [46; 97]) false = false.
Proof. repeat split; vm_compute; reflexivity. Qed.

(* a matching name with data, the domain itself, a suffix match that is not at a label
   boundary, the wildcard taking exactly one label, a star inside the wildcard's label *)
Example C17_example_match :
  query_datalen s_abc_test_com s_test_com = Some 4%nat /\
  query_datalen s_test_com s_test_com = Some 0%nat /\
  query_datalen s_xtest_com s_test_com = None /\
  query_datalen s_ab_Cd_TEST_com s_wild_test_com = Some 3%nat /\
  query_datalen s_ab_star_test_com s_wild_test_com = None /\
  query_datalen s_test_com s_wild_test_com = None /\
  no_dotdot s_abc_test_com = true /\ no_dotdot s_xtest_com = true /\
  no_dotdot s_ab_Cd_TEST_com = true.
Proof. repeat split; vm_compute; reflexivity. Qed.

(* the specification side of the same instances, through the theorems *)
Example C17_example_spec :
  valid_domain_spec s_test_com false /\ valid_domain_spec s_wild_test_com true /\
  match_spec s_abc_test_com s_test_com 4 /\
  (forall n, ~ match_spec s_xtest_com s_test_com n) /\
  match_spec s_ab_Cd_TEST_com s_wild_test_com 3.
Proof.
  split; [apply C17_validate_iff; vm_compute; reflexivity|].
  split; [apply C17_validate_iff; vm_compute; reflexivity|].
  split; [apply (C17_match_iff s_test_com false); vm_compute; reflexivity|].
  split; [apply (C17_no_match s_test_com false); vm_compute; reflexivity|].
  apply (C17_match_iff s_wild_test_com true); vm_compute; reflexivity.
Qed.

(* the dispatcher on zero-data names: "TEST.com" under the domain "test.com" and "ab.test.com"
   under "*.test.com" have data length 0; with forwarding configured, an NS query for them is
   answered (through the theorem and by computation: one auxiliary answer to the sender), a TXT /
   NULL query goes to the tunnel handler (which sends nothing for an empty request) and neither is
   forwarded, while "xtest.com" is forwarded *)
Definition s_TEST_com : list N := [84; 69; 83; 84; 46; 99; 111; 109].               (* "TEST.com" *)
Definition s_ab_test_com : list N := [97; 98; 46] ++ s_test_com.                     (* "ab.test.com" *)
Definition ex_cfg (d : list N) : cfg :=
  {| c_topdomain := d; c_password := []; c_check_ip := true; c_my_ip := 0; c_netmask := 27; c_mtu := 1130;
     c_ns_ip := None; c_bind := true |}.
Definition ex_from : addr := {| a_fam := 2; a_ip := [192; 0; 2; 1]; a_port := 4000 |}.
Definition ex_q (name : list N) (ty : N) : hq :=
  {| h_name := name; h_type := ty; h_id := 4660; h_from := ex_from; h_id2 := 0; h_from2 := addr0;
     h_dest := Some [10; 1; 2; 3] |}.
Definition ex_st : sstate := init_state [1; 2].
Definition ex_run (d name : list N) (ty : N) : sstate * list out :=
  tunnel_dns login_stub unz_frame (ex_cfg d) ex_st 1000 7 (ex_q name ty).

Example C17_example_dispatch :
  query_datalen s_TEST_com s_test_com = Some 0%nat /\
  query_datalen s_ab_test_com s_wild_test_com = Some 0%nat /\
  (exists bytes, ex_run s_test_com s_TEST_com T_NS = (ex_st, [OAux ex_from bytes])) /\
  (exists bytes, ex_run s_wild_test_com s_ab_test_com T_NS = (ex_st, [OAux ex_from bytes])) /\
  match snd (ex_run s_test_com s_TEST_com T_NS) with
  | [OAux to bytes] => to = ex_from /\ firstn 2 bytes = [18; 52] /\ nth 2 bytes 0 = 132
  | _ => False
  end /\
  ex_run s_test_com s_TEST_com T_TXT = (ex_st, []) /\
  ex_run s_wild_test_com s_ab_test_com T_NULL = (ex_st, []) /\
  ex_run s_test_com s_xtest_com T_NS = (ex_st, [OForward (ex_q s_xtest_com T_NS)]) /\
  ex_run s_test_com s_xtest_com T_TXT = (ex_st, [OForward (ex_q s_xtest_com T_TXT)]) /\
  In (OForward (ex_q s_xtest_com T_TXT)) (snd (ex_run s_test_com s_xtest_com T_TXT)) /\
  ~ In (OForward (ex_q s_TEST_com T_TXT)) (snd (ex_run s_test_com s_TEST_com T_TXT)).
Proof.
  split; [vm_compute; reflexivity|]. split; [vm_compute; reflexivity|].
  split; [apply C17_dispatch_ns_answered with (n := 0%nat);
          [vm_compute; reflexivity|reflexivity|discriminate|vm_compute; lia]|].
  split; [apply C17_dispatch_ns_answered with (n := 0%nat);
          [vm_compute; reflexivity|reflexivity|discriminate|vm_compute; lia]|].
  split; [vm_compute; repeat split; reflexivity|].
  split; [vm_compute; reflexivity|]. split; [vm_compute; reflexivity|].
  split; [vm_compute; reflexivity|]. split; [vm_compute; reflexivity|].
  split.
  - apply C17_dispatch_forward_iff. repeat split; vm_compute; reflexivity.
  - intros H. apply C17_dispatch_forward_iff in H. destruct H as [H _]. vm_compute in H. discriminate.
Qed.
