(* DecodeSafetyMx.v -- C06, part 2: the MX/SRV record loop and output loop of dns_decode
   (names[250][256]), dns_namedec and the MX reassembly loop of read_dns_withq.  Lemmas only. *)
From Coq Require Import List NArith ZArith Arith Bool Lia ZifyBool ZifyNat ZifyN.
From Iodine Require Import Generated.SrcConsts Base Codec Hostname DnsName DnsMsg DecodeSafetyProofs.
Import ListNotations.
Local Open Scope nat_scope.

Ltac Zify.zify_post_hook ::= Z.div_mod_to_equations.

(* ------------------------------------------------------------------------------------------ *)
(* the MX/SRV record loop of dns_decode: names[250][256] *)

Definition names_ok (names : list (list N)) : Prop :=
  length names = 250 /\ Forall (fun r => length r = name_size) names.

Lemma name_size_256 : name_size = 256.
Proof. reflexivity. Qed.

Lemma names_ok_init : names_ok (repeat (repeat 0%N name_size) 250).
Proof.
  split; [apply repeat_length|]. apply Forall_forall. intros r Hr.
  apply repeat_spec in Hr. subst r. apply repeat_length.
Qed.

Lemma overlay_length w old : length (overlay w old) = Nat.max (length w) (length old).
Proof. unfold overlay. rewrite app_length, skipn_length. lia. Qed.

(* the row index: pref % 10 == 0 && pref >= 10 && pref < 2500  ==>  pref/10 - 1 <= 248 *)
Lemma mx_index_bound pref :
  ((pref mod 10 =? 0) && (10 <=? pref) && (pref <? 2500))%N = true ->
  N.to_nat (pref / 10 - 1) < 249.
Proof. intros H. lia. Qed.

Lemma In_firstn {A} n (l : list A) x : In x (firstn n l) -> In x l.
Proof. revert l. induction n; intros l H; [destruct H|]. destruct l; [destruct H|]. cbn in H. destruct H; [left; exact H|right; apply IHn, H]. Qed.

Lemma In_skipn {A} n (l : list A) x : In x (skipn n l) -> In x l.
Proof. revert l. induction n; intros l H; [exact H|]. destruct l; [destruct H|]. right. apply IHn, H. Qed.

Lemma Forall_update {A} (P : A -> Prop) idx (l : list A) x :
  Forall P l -> P x -> Forall P (firstn idx l ++ x :: skipn (S idx) l).
Proof.
  intros Hl Hx. rewrite Forall_forall in *. intros y Hy. apply in_app_or in Hy.
  destruct Hy as [Hy|[Hy|Hy]]; [apply Hl, (In_firstn _ _ _ Hy)|subst; exact Hx|apply Hl, (In_skipn _ _ _ Hy)].
Qed.

Lemma update_length {A} idx (l : list A) x : idx < length l ->
  length (firstn idx l ++ x :: skipn (S idx) l) = length l.
Proof. intros H. rewrite app_length, firstn_length. cbn [length]. rewrite skipn_length. lia. Qed.

Lemma nth_firstn_lt {A} : forall idx j (l : list A) d, j < idx -> nth j (firstn idx l) d = nth j l d.
Proof.
  induction idx; intros j l d L; [lia|].
  destruct l; [destruct j; reflexivity|]. destruct j; [reflexivity|]. cbn. apply IHidx. lia.
Qed.

Lemma nth_skipn' {A} : forall n j (l : list A) d, nth j (skipn n l) d = nth (n + j) l d.
Proof.
  induction n; intros j l d; [reflexivity|]. destruct l; [destruct j; reflexivity|]. cbn. apply IHn.
Qed.

Lemma update_nth_other {A} idx j (l : list A) x d : idx < length l -> j <> idx ->
  nth j (firstn idx l ++ x :: skipn (S idx) l) d = nth j l d.
Proof.
  intros H Hj. destruct (Nat.lt_ge_cases j idx) as [L|G].
  - rewrite app_nth1 by (rewrite firstn_length; lia). apply nth_firstn_lt, L.
  - rewrite app_nth2 by (rewrite firstn_length; lia). rewrite firstn_length.
    replace (Nat.min idx (length l)) with idx by lia.
    destruct (j - idx) as [|k] eqn:E; [lia|]. cbn [nth].
    rewrite nth_skipn'. f_equal. lia.
Qed.

(* invariant of the loop: 250 rows of 256 bytes; row 249 is never written *)
Lemma mx_decode_loop_inv buf plen : forall cnt data ty0 names names' ty',
  names_ok names ->
  mx_decode_loop buf plen cnt data ty0 names = Some (names', ty') ->
  names_ok names' /\ nth 249 names' [] = nth 249 names [].
Proof.
  induction cnt as [|cnt IH]; intros data ty0 names names' ty' Hok H; cbn [mx_decode_loop] in H.
  - inversion H; subst. split; [exact Hok|reflexivity].
  - cbv zeta in H.
    destruct (plen <? 12 + _); [discriminate|].
    destruct (_ && _) eqn:E0 in H; [discriminate|].
    destruct (plen <? _) in H; [discriminate|].
    match type of H with mx_decode_loop _ _ _ _ _ ?nn = _ => set (nms := nn) in * end.
    assert (Hn : names_ok nms /\ nth 249 nms [] = nth 249 names []).
    { subst nms. destruct (_ && _ && _)%bool eqn:Ep; [|split; [exact Hok|reflexivity]].
      apply mx_index_bound in Ep.
      destruct Hok as [Hl Hr]. split; [split|].
      - rewrite update_length; lia.
      - apply Forall_update; [exact Hr|].
        rewrite app_length, firstn_length, overlay_length. cbn [length].
        match goal with |- context[readname ?b ?p ?s ?l] => pose proof (readname_bound b p s l) as Hb end.
        specialize (Hb ltac:(rewrite name_size_256; lia)). destruct Hb as [Hb _].
        match goal with |- context[nth ?i names []] =>
          assert (Ho : length (nth i names []) = name_size)
            by (rewrite Forall_forall in Hr; apply Hr, nth_In; lia);
          rewrite Ho end.
        rewrite name_size_256 in *. lia.
      - apply update_nth_other; lia. }
    destruct Hn as [Hn1 Hn2].
    destruct (IH _ _ _ _ _ Hn1 H) as [I1 I2]. split; [exact I1|congruence].
Qed.

Lemma mx_decode_loop_rows buf plen cnt data ty0 names' ty' :
  mx_decode_loop buf plen cnt data ty0 (repeat (repeat 0%N name_size) 250) = Some (names', ty') ->
  names_ok names' /\ nth 249 names' [] = repeat 0%N name_size.
Proof.
  intros H. destruct (mx_decode_loop_inv _ _ _ _ _ _ _ _ names_ok_init H) as [A B].
  split; [exact A|]. rewrite B. reflexivity.
Qed.

(* termination / work: every successful iteration needs 12 bytes at its record header and the
   next record starts at least 10 bytes further (type, class, ttl, rdlength; rdlength may be 0) *)
Lemma adv_ge rn data : (forall p, rn_src rn = Some p -> data <= p) -> data <= adv rn data.
Proof. intros H. unfold adv. destruct (rn_src rn) eqn:E; [apply H; reflexivity|lia]. Qed.

Lemma copy_label_pos buf plen lim : forall cnt s' len' acc',
  s' <= fst (fst (copy_label buf plen cnt s' len' lim acc')).
Proof.
  induction cnt as [|cnt IHc]; intros s' len' acc'; cbn [copy_label]; [cbn; lia|].
  destruct ((len' <? lim - 1) && (s' <? plen)); [|cbn; lia].
  specialize (IHc (S s') (S len') (rb buf s' :: acc')). lia.
Qed.

Lemma rl_labels_src buf plen lim sub : forall fuel s len acc p,
  rn_src (rl_labels buf plen lim sub fuel s len acc) = Some p -> s < p.
Proof.
  induction fuel as [|fuel IH]; intros s len acc p; cbn [rl_labels].
  - cbn. intros H. inversion H. lia.
  - destruct (negb _); [cbn; intros H; inversion H; lia|]. cbv zeta.
    destruct (N.land _ _ =? _)%N.
    + destruct (plen <=? S s); [cbn; intros H; inversion H; lia|].
      destruct (plen <=? _).
      * destruct len; cbn; intros H; inversion H; lia.
      * cbn. intros H; inversion H; lia.
    + pose proof (copy_label_pos buf plen lim (N.to_nat (rb buf s)) (S s) len acc) as Hs.
      destruct (copy_label buf plen (N.to_nat (rb buf s)) (S s) len lim acc) as [[s2 len2] acc2].
      cbn [fst] in Hs.
      destruct (lim - 1 <=? len2); [cbn; intros H; inversion H; lia|].
      destruct (_ && _); intros H; apply IH in H; lia.
Qed.

Lemma readname_src buf plen src lim p : rn_src (readname buf plen src lim) = Some p -> src < p.
Proof.
  unfold readname. destruct (N.to_nat src_READNAME_LOOPS) as [|loop]; [cbn; discriminate|].
  rewrite readname_lvl_S. apply rl_labels_src.
Qed.

Lemma adv_readname_ge buf plen src lim : src <= adv (readname buf plen src lim) src.
Proof. apply adv_ge. intros p Hp. apply readname_src in Hp. lia. Qed.

Lemma mx_decode_loop_consumes buf plen : forall cnt data ty0 names r,
  mx_decode_loop buf plen cnt data ty0 names = Some r ->
  cnt = 0 \/ data + 10 * cnt + 2 <= plen.
Proof.
  induction cnt as [|cnt IH]; intros data ty0 names r H; [left; reflexivity|right].
  cbn [mx_decode_loop] in H. cbv zeta in H.
  pose proof (adv_readname_ge buf plen data name_size) as Ha.
  destruct (plen <? 12 + _) eqn:E1; [discriminate|].
  destruct (_ && _) in H; [discriminate|].
  destruct (plen <? _) eqn:E2 in H; [discriminate|].
  apply IH in H. lia.
Qed.

(* hence: more than (plen - data) / 10 announced records always end in a CHECKLEN failure *)
Lemma mx_decode_loop_stops buf plen cnt data ty0 names :
  plen < data + 10 * cnt + 2 -> 1 <= cnt ->
  mx_decode_loop buf plen cnt data ty0 names = None.
Proof.
  intros H H1. destruct (mx_decode_loop buf plen cnt data ty0 names) eqn:E; [|reflexivity].
  apply mx_decode_loop_consumes in E. lia.
Qed.

(* number of iterations begun (instrumented copy of the loop skeleton) *)
Fixpoint mx_iterations (buf : list N) (plen cnt data : nat) : nat :=
  match cnt with
  | O => O
  | S cnt' =>
      let d1 := adv (readname buf plen data name_size) data in
      if (plen <? 12 + d1) then 1 else
      let ty := readshort buf d1 in
      let rlen := N.to_nat (readshort buf (d1 + 8)) in
      let d3 := if (ty =? T_SRV)%N then d1 + 10 + 2 + 4 else d1 + 10 + 2 in
      if ((ty =? T_SRV)%N && (plen <? d3)) then 1 else
      if (plen <? d1 + 10 + rlen) then 1 else
      S (mx_iterations buf plen cnt' (d1 + 10 + rlen))
  end.

(* the instrumented skeleton follows the model's loop: it counts exactly cnt iterations when the
   loop succeeds *)
Lemma mx_iterations_success buf plen : forall cnt data ty0 names r,
  mx_decode_loop buf plen cnt data ty0 names = Some r -> mx_iterations buf plen cnt data = cnt.
Proof.
  induction cnt as [|cnt IH]; intros data ty0 names r H; [reflexivity|].
  cbn [mx_decode_loop] in H. cbn [mx_iterations]. cbv zeta in H |- *.
  destruct (plen <? 12 + _); [discriminate|].
  destruct (_ && _) in H |- *; [discriminate|].
  destruct (plen <? _) in H |- *; [discriminate|].
  f_equal. eapply IH. exact H.
Qed.

Lemma mx_iterations_bound buf plen : forall cnt data,
  mx_iterations buf plen cnt data <= cnt /\ 10 * mx_iterations buf plen cnt data <= plen - data + 10.
Proof.
  induction cnt as [|cnt IH]; intros data; cbn [mx_iterations]; [lia|]. cbv zeta.
  pose proof (adv_readname_ge buf plen data name_size) as Ha.
  match goal with |- context[mx_iterations buf plen cnt ?d] => specialize (IH d); set (it := mx_iterations buf plen cnt d) in * end.
  repeat match goal with |- context[if ?b then _ else _] => destruct b eqn:? end; lia.
Qed.

(* ancount is a signed short *)
Lemma to_short_bound v : (v < 65536)%N -> (to_short v <= 32767)%Z.
Proof. intros H. unfold to_short. destruct (v <? 32768)%N eqn:E; lia. Qed.

Lemma readshort_lt buf p : Forall (fun b => (b < 256)%N) buf -> (readshort buf p < 65536)%N.
Proof.
  intros H. unfold readshort, rb.
  assert (Hn : forall i, (nth i buf 0 < 256)%N).
  { intros i. destruct (Nat.lt_ge_cases i (length buf)) as [L|G].
    - rewrite Forall_forall in H. apply H, nth_In, L.
    - rewrite nth_overflow by exact G. lia. }
  pose proof (Hn p). pose proof (Hn (S p)). lia.
Qed.

(* ------------------------------------------------------------------------------------------ *)
(* the output loop "name10\0name20\0\0": never beyond buflen (the D8 statement, fixed code), and
   independent of whatever follows the 250 rows (row 249 is always empty) *)

Lemma cstr_length s : length (cstr s) <= length s.
Proof. induction s as [|c s IH]; cbn; [lia|]. destruct (c =? 0)%N; cbn; lia. Qed.

Lemma mx_output_bound buflen : forall names offset acc,
  1 <= buflen -> offset <= buflen - 1 -> length acc = offset ->
  length (fst (mx_output names buflen offset acc)) = snd (mx_output names buflen offset acc) + 1 /\
  snd (mx_output names buflen offset acc) <= buflen - 1 /\
  offset <= snd (mx_output names buflen offset acc).
Proof.
  induction names as [|nb rest IH]; intros offset acc H1 Ho Ha; cbn [mx_output].
  - cbn [fst snd]. rewrite app_length. cbn. lia.
  - destruct (cstr nb) as [|c s] eqn:Es; [cbn [fst snd]; rewrite app_length; cbn; lia|].
    cbv zeta.
    destruct (_ <=? 0)%Z eqn:El; [cbn [fst snd]; rewrite app_length; cbn; lia|].
    set (ln := Z.to_nat _) in *.
    assert (Hln : 1 <= ln /\ ln <= length (c :: s) /\ offset + ln + 2 <= buflen) by (subst ln; cbn [length] in *; lia).
    specialize (IH (offset + ln + 1) (acc ++ firstn ln (c :: s) ++ [0%N]) H1).
    destruct IH as (I1 & I2 & I3).
    + lia.
    + rewrite !app_length, firstn_length. cbn [length] in *. lia.
    + lia.
Qed.

Lemma mx_output_beyond buflen extra : forall names offset acc,
  (exists i, i < length names /\ cstr (nth i names []) = []) ->
  mx_output (names ++ extra) buflen offset acc = mx_output names buflen offset acc.
Proof.
  induction names as [|nb rest IH]; intros offset acc [i [Hi He]]; [cbn in Hi; lia|].
  cbn [app mx_output].
  destruct (cstr nb) as [|c s] eqn:Es; [reflexivity|]. cbv zeta.
  destruct (_ <=? 0)%Z; [reflexivity|].
  apply IH. destruct i as [|i]; [cbn in He; congruence|].
  exists i. cbn in Hi, He. split; [lia|exact He].
Qed.

(* ------------------------------------------------------------------------------------------ *)
(* dns_namedec and the MX reassembly loop of read_dns_withq *)

Lemma dec_go_cap' c cap : forall i s, length (dec_go c cap i s) <= cap.
Proof.
  induction cap as [|cap IH]; intros i s; cbn [dec_go]; [cbn; lia|]. cbv zeta.
  destruct (_ <? _); [cbn; lia|]. destruct (existsb _ _); [cbn; lia|].
  cbn [length]. specialize (IH ((i + 1) mod dphases (cbits c))%N (skipn (dadv (cbits c) i) s)). lia.
Qed.

Lemma dns_namedec_bound outlen s buflen : length (dns_namedec outlen s buflen) <= outlen.
Proof.
  unfold dns_namedec, unpack_data, decode.
  repeat match goal with
         | |- context[if ?b then _ else _] => destruct b
         end; cbn [length]; try lia; try apply dec_go_cap'.
  rewrite firstn_length. lia.
Qed.

Lemma mx_namedec_loop_bound : forall fuel bufbytes buftotal bufoffset dataspace0 acc,
  length acc <= dataspace0 ->
  length (mx_namedec_loop fuel bufbytes buftotal bufoffset dataspace0 acc) <= dataspace0.
Proof.
  induction fuel as [|fuel IH]; intros bufbytes buftotal bufoffset dataspace0 acc Ha; cbn [mx_namedec_loop]; [exact Ha|].
  cbv zeta. destruct (_ || _) eqn:E; [exact Ha|].
  match goal with |- context[dns_namedec ?o ?s ?b] =>
    pose proof (dns_namedec_bound o s b) as Hb; destruct (dns_namedec o s b) as [|x part] eqn:Ed end;
    [exact Ha|].
  apply IH. rewrite app_length. lia.
Qed.

(* fuel: every iteration advances bufoffset by thispartlen + 1 >= 2 and needs bufoffset < buftotal *)
Lemma mx_namedec_loop_fuel : forall fuel1 fuel2 bufbytes buftotal bufoffset dataspace0 acc,
  buftotal - bufoffset < fuel1 -> buftotal - bufoffset < fuel2 ->
  mx_namedec_loop fuel1 bufbytes buftotal bufoffset dataspace0 acc =
  mx_namedec_loop fuel2 bufbytes buftotal bufoffset dataspace0 acc.
Proof.
  induction fuel1 as [|fuel1 IH]; intros fuel2 bufbytes buftotal bufoffset dataspace0 acc H1 H2; [lia|].
  destruct fuel2 as [|fuel2]; [lia|].
  cbn [mx_namedec_loop]. cbv zeta.
  destruct (_ || _) eqn:E; [reflexivity|].
  destruct (dns_namedec _ _ _); [reflexivity|].
  apply IH; lia.
Qed.
