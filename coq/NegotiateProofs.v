(* NegotiateProofs.v -- lemmas for property C11 (negotiation only selects settings that work on
   the path).  Finite facts about the relay family, the source's test patterns and the decision
   logic are established by vm_compute over the family (reflection) and lifted by lemmas. *)
From Coq Require Import List NArith ZArith Arith Bool Lia ZifyBool ZifyNat ZifyN.
From Iodine Require Import Generated.SrcConsts Base Codec CodecProofs Hostname DnsName DnsMsg Relay Negotiate.
Import ListNotations.
Local Open Scope N_scope.

Ltac Zify.zify_post_hook ::= Z.div_mod_to_equations.

(* ==================================================================================== *)
(* small list facts                                                                      *)

Lemma list_eqb_eq a : forall b, list_eqb a b = true <-> a = b.
Proof.
  induction a as [|x a IH]; intros [|y b]; simpl; split; intros H; try reflexivity; try discriminate.
  - apply andb_prop in H. destruct H as [H1 H2]. apply N.eqb_eq in H1. apply IH in H2. subst. reflexivity.
  - inversion H; subst. rewrite N.eqb_refl. simpl. apply IH. reflexivity.
Qed.

Lemma list_eqb_refl a : list_eqb a a = true.
Proof. apply list_eqb_eq. reflexivity. Qed.

Lemma list_eqb_neq a b : a <> b -> list_eqb a b = false.
Proof. intros H. destruct (list_eqb a b) eqn:E; [|reflexivity]. apply list_eqb_eq in E. contradiction. Qed.

Lemma memb_In c l : memb c l = true <-> In c l.
Proof.
  unfold memb. rewrite existsb_exists. split.
  - intros [x [Hx E]]. apply N.eqb_eq in E. subst. exact Hx.
  - intros H. exists c. split; [exact H|apply N.eqb_refl].
Qed.

(* ==================================================================================== *)
(* the relay family                                                                      *)

Lemma all_xf_complete : forall x, In x all_xf.
Proof.
  intros [[| | |] [| |] [| |]]; vm_compute; repeat (first [left; reflexivity | right]).
Qed.

Lemma det_xf_complete x : det x = true -> In x det_xf.
Proof. intros H. unfold det_xf. apply filter_In. split; [apply all_xf_complete|exact H]. Qed.

Lemma forallb_det_xf (P : xf -> bool) : forallb P det_xf = true -> forall x, det x = true -> P x = true.
Proof. intros H x Hx. rewrite forallb_forall in H. apply H, det_xf_complete, Hx. Qed.

Lemma forallb_all_xf (P : xf -> bool) : forallb P all_xf = true -> forall x, P x = true.
Proof. intros H x. rewrite forallb_forall in H. apply H, all_xf_complete. Qed.

Lemma rchar_det x f f' c : det x = true -> rchar x f c = rchar x f' c.
Proof.
  unfold det, rchar. destruct (high_step _ c); [|reflexivity].
  destruct (x_case x); intros H; try reflexivity. discriminate.
Qed.

Lemma rmap_from_det x o o' : det x = true -> forall s i i', rmap_from x o i s = rmap_from x o' i' s.
Proof.
  intros Hd. induction s as [|c s IH]; intros i i'; [reflexivity|]. simpl.
  rewrite (rchar_det x (o i) (o' i') c Hd). rewrite (IH (S i) (S i')). reflexivity.
Qed.

Lemma rmap_det x o o' s : det x = true -> rmap x o s = rmap x o' s.
Proof. intros Hd. apply rmap_from_det, Hd. Qed.

Lemma rmap_from_length x o : forall s i t, rmap_from x o i s = Some t -> length t = length s.
Proof.
  induction s as [|c s IH]; intros i t H; simpl in H.
  - inversion H. reflexivity.
  - destruct (rchar x (o i) c); [|discriminate]. destruct (rmap_from x o (S i) s) eqn:E; [|discriminate].
    inversion H. simpl. f_equal. apply (IH (S i)). exact E.
Qed.

(* a string made of characters the relay leaves alone passes unchanged *)
Lemma rmap_from_id x o : forall s i, Forall (fun c => forall f, rchar x f c = Some c) s -> rmap_from x o i s = Some s.
Proof.
  induction s as [|c s IH]; intros i H; [reflexivity|]. simpl.
  inversion H as [|? ? Hc Hs]; subst. rewrite Hc, (IH (S i) Hs). reflexivity.
Qed.

(* element-wise description of a transformed string *)
Lemma rmap_from_nth x o : forall s i t, rmap_from x o i s = Some t ->
  forall j, (j < length s)%nat -> rchar x (o (i + j)%nat) (nth j s 0) = Some (nth j t 0).
Proof.
  induction s as [|c s IH]; intros i t H j Hj; [simpl in Hj; lia|]. simpl in H.
  destruct (rchar x (o i) c) eqn:Ec; [|discriminate].
  destruct (rmap_from x o (S i) s) eqn:E; [|discriminate]. inversion H; subst.
  destruct j as [|j]; simpl.
  - rewrite Nat.add_0_r. exact Ec.
  - replace (i + S j)%nat with (S i + j)%nat by lia. apply IH; [exact E|simpl in Hj; lia].
Qed.

Lemma rchar_lt x f c c' : c < 256 -> rchar x f c = Some c' -> c' < 256.
Proof.
  intros Hc.
  assert (S : forallb (fun x => forallb (fun f => forallb (fun c =>
              match rchar x f c with Some c' => c' <? 256 | None => true end) (nrange 256)) [true; false]) all_xf = true)
    by (vm_compute; reflexivity).
  pose proof (forallb_all_xf _ S x) as H1. cbv beta in H1. rewrite forallb_forall in H1.
  assert (Hf : In f [true; false]) by (destruct f; simpl; tauto).
  specialize (H1 f Hf). pose proof (sweep1 _ _ H1 c) as H2. cbv beta in H2.
  intros E. rewrite E in H2. assert (c < N.of_nat 256) by lia. specialize (H2 H). lia.
Qed.

Lemma rmap_from_bytes_ok x o : forall s i t, bytes_ok s -> rmap_from x o i s = Some t -> bytes_ok t.
Proof.
  induction s as [|c s IH]; intros i t Hs H; simpl in H.
  - inversion H. constructor.
  - destruct (rchar x (o i) c) eqn:Ec; [|discriminate].
    destruct (rmap_from x o (S i) s) eqn:E; [|discriminate]. inversion H; subst.
    inversion Hs as [|? ? Hc Hs']; subst. constructor.
    + exact (rchar_lt x (o i) c n Hc Ec).
    + exact (IH (S i) l Hs' E).
Qed.

(* ==================================================================================== *)
(* decoding depends only on the reverse-table values and on which characters are NUL     *)

Definition same_val (c : codec) (a b : N) : Prop := rev c a = rev c b /\ (a =? 0) = (b =? 0).

Lemma Forall2_firstn {A B} (R : A -> B -> Prop) n : forall l l', Forall2 R l l' -> Forall2 R (firstn n l) (firstn n l').
Proof.
  induction n as [|n IH]; intros l l' H; [constructor|].
  destruct H; simpl; [constructor|]. constructor; [assumption|apply IH; assumption].
Qed.

Lemma Forall2_skipn {A B} (R : A -> B -> Prop) n : forall l l', Forall2 R l l' -> Forall2 R (skipn n l) (skipn n l').
Proof.
  induction n as [|n IH]; intros l l' H; [exact H|].
  destruct H; simpl; [constructor|]. apply IH; assumption.
Qed.

Lemma Forall2_length' {A B} (R : A -> B -> Prop) l l' : Forall2 R l l' -> length l = length l'.
Proof. induction 1; simpl; congruence. Qed.

Lemma same_val_existsb c l l' : Forall2 (same_val c) l l' ->
  existsb (fun x => x =? 0) l = existsb (fun x => x =? 0) l'.
Proof. induction 1 as [|a b l l' [_ Hz] _ IH]; [reflexivity|]. simpl. rewrite Hz, IH. reflexivity. Qed.

Lemma same_val_nth c l l' j : Forall2 (same_val c) l l' -> rev c (nth j l 0) = rev c (nth j l' 0).
Proof.
  intros H. revert j. induction H as [|a b l l' [Hr _] _ IH]; intros j; [destruct j; reflexivity|].
  destruct j; simpl; [exact Hr|apply IH].
Qed.

Lemma dec_go_ext c cap : forall i s s', Forall2 (same_val c) s s' -> dec_go c cap i s = dec_go c cap i s'.
Proof.
  induction cap as [|cap IH]; intros i s s' H; [reflexivity|].
  rewrite !dec_go_S. cbv zeta.
  pose proof (Forall2_firstn _ (dneed (cbits c) i) _ _ H) as Hf.
  rewrite (Forall2_length' _ _ _ Hf).
  destruct (_ <? _)%nat; [reflexivity|].
  rewrite (same_val_existsb c _ _ Hf).
  destruct (existsb _ _); [reflexivity|].
  rewrite !(same_val_nth c _ _ _ Hf). f_equal.
  apply IH, Forall2_skipn, H.
Qed.

(* ==================================================================================== *)
(* Base32 text survives every member of the family, the random-case one included         *)

Lemma b32_char_survives x f ch : alpha32b ch = true ->
  exists ch', rchar x f ch = Some ch' /\ same_val b32 ch' ch.
Proof.
  intros Ha.
  assert (S : forallb (fun x => forallb (fun f => forallb (fun ch =>
              implb (alpha32b ch)
                    match rchar x f ch with
                    | Some ch' => (rev b32 ch' =? rev b32 ch) && Bool.eqb (ch' =? 0) (ch =? 0)
                    | None => false
                    end) (nrange 256)) [true; false]) all_xf = true)
    by (vm_compute; reflexivity).
  pose proof (forallb_all_xf _ S x) as H1. cbv beta in H1. rewrite forallb_forall in H1.
  assert (Hf : In f [true; false]) by (destruct f; simpl; tauto).
  specialize (H1 f Hf). pose proof (sweep1 _ _ H1 ch) as H2. cbv beta in H2.
  assert (Hlt : ch < N.of_nat 256).
  { unfold alpha32b, lower in Ha. lia. }
  specialize (H2 Hlt). rewrite Ha in H2. simpl in H2.
  destruct (rchar x f ch) as [ch'|]; [|discriminate]. exists ch'. split; [reflexivity|].
  apply andb_prop in H2. destruct H2 as [A B]. apply N.eqb_eq in A. apply Bool.eqb_prop in B.
  split; assumption.
Qed.

Lemma b32_text_survives x o : forall s i, Forall (fun ch => alpha32b ch = true) s ->
  exists t, rmap_from x o i s = Some t /\ Forall2 (same_val b32) t s.
Proof.
  induction s as [|ch s IH]; intros i H.
  - exists []. split; [reflexivity|constructor].
  - inversion H as [|? ? Hc Hs]; subst. destruct (b32_char_survives x (o i) ch Hc) as [ch' [E V]].
    destruct (IH (S i) Hs) as [t [Et Vt]]. exists (ch' :: t). simpl. rewrite E, Et. split; [reflexivity|].
    constructor; assumption.
Qed.

Lemma alpha32_encode cap d : Forall (fun ch => alpha32b ch = true) (fst (encode b32 cap d)).
Proof. apply (alpha_from_sweep b32 alpha32b wfb_b32). vm_compute. reflexivity. Qed.

Lemma b32_survives x o p cap capd : bytes_ok p -> (enclen 5 (length p) <= cap)%nat -> (length p <= capd)%nat ->
  exists t, rmap x o (fst (encode b32 cap p)) = Some t /\ decode b32 capd t = p.
Proof.
  intros Hp Hcap Hcapd.
  destruct (b32_text_survives x o (fst (encode b32 cap p)) 0%nat (alpha32_encode cap p)) as [t [Et Vt]].
  exists t. split; [exact Et|]. unfold decode. rewrite (dec_go_ext b32 capd 0 _ _ Vt).
  destruct (enc_full b32 wfb_b32 cap p Hcap) as [Hn _].
  pose proof (roundtrip b32 wfb_b32 cap capd p Hp) as R. unfold decode in R. rewrite R by lia.
  rewrite Hn. apply firstn_all.
Qed.

(* ==================================================================================== *)
(* codec facts reused from C07                                                           *)

Lemma roundtrip_full c : wfb c = true -> forall cap capd d, bytes_ok d ->
  (enclen (cbits c) (length d) <= cap)%nat -> (length d <= capd)%nat ->
  decode c capd (fst (encode c cap d)) = d.
Proof.
  intros Hwf cap capd d Hd Hcap Hcapd.
  destruct (enc_full c Hwf cap d Hcap) as [Hn _].
  rewrite (roundtrip c Hwf cap capd d Hd) by lia. rewrite Hn. apply firstn_all.
Qed.

Lemma alpha64_encode cap d : Forall (fun ch => alpha64b ch = true) (fst (encode b64 cap d)).
Proof. apply (alpha_from_sweep b64 alpha64b wfb_b64). vm_compute. reflexivity. Qed.
Lemma alpha64u_encode cap d : Forall (fun ch => alpha64ub ch = true) (fst (encode b64u cap d)).
Proof. apply (alpha_from_sweep b64u alpha64ub wfb_b64u). vm_compute. reflexivity. Qed.
Lemma alpha128_encode cap d : Forall (fun ch => alpha128b ch = true) (fst (encode b128 cap d)).
Proof. apply (alpha_from_sweep b128 alpha128b wfb_b128). vm_compute. reflexivity. Qed.

(* documented alphabet of codec number id (0 Base32, 1 Base64, 2 Base64u, 3 Base128) *)
Definition alphab (id : N) : N -> bool :=
  if id =? 1 then alpha64b else if id =? 2 then alpha64ub else if id =? 3 then alpha128b else alpha32b.

Lemma alphab_lt id ch : alphab id ch = true -> ch < 256.
Proof.
  unfold alphab, alpha64b, alpha64ub, alpha128b, alpha32b, lower, upper, digit.
  destruct (id =? 1); [lia|]. destruct (id =? 2); [lia|]. destruct (id =? 3); lia.
Qed.

Lemma codec_by_id_wf id : wfb (codec_by_id id) = true.
Proof.
  unfold codec_by_id. destruct (id =? 0); [exact wfb_b32|]. destruct (id =? 1); [exact wfb_b64|].
  destruct (id =? 2); [exact wfb_b64u|exact wfb_b128].
Qed.

Lemma alphab_encode id cap d : id < 4 -> Forall (fun ch => alphab id ch = true) (fst (encode (codec_by_id id) cap d)).
Proof.
  intros H. assert (C : id = 0 \/ id = 1 \/ id = 2 \/ id = 3) by lia.
  destruct C as [->|[->|[->| ->]]]; unfold alphab, codec_by_id; simpl.
  - apply alpha32_encode. - apply alpha64_encode. - apply alpha64u_encode. - apply alpha128_encode.
Qed.

(* a relay direction that is the identity on the alphabet of a codec passes every text of that
   codec unchanged, hence every payload *)
Definition rchar_idb (x : xf) (ch : N) : bool :=
  match rchar x false ch with Some ch' => ch' =? ch | None => false end.

Definition id_on (x : xf) (P : N -> bool) : Prop := forall ch f, P ch = true -> rchar x f ch = Some ch.

Lemma id_on_from_sweep x P : det x = true -> (forall ch, P ch = true -> ch < 256) ->
  forallb (fun ch => implb (P ch) (rchar_idb x ch)) (nrange 256) = true -> id_on x P.
Proof.
  intros Hd Hlt H ch f HP. pose proof (sweep1 _ _ H ch) as H1. cbv beta in H1.
  assert (L : ch < N.of_nat 256) by (specialize (Hlt ch HP); lia). specialize (H1 L).
  rewrite HP in H1. simpl in H1. unfold rchar_idb in H1.
  rewrite (rchar_det x f false ch Hd). destruct (rchar x false ch); [|discriminate].
  apply N.eqb_eq in H1. subst. reflexivity.
Qed.

Lemma text_passes x o P s : id_on x P -> Forall (fun ch => P ch = true) s -> rmap x o s = Some s.
Proof.
  intros Hid Hs. apply rmap_from_id. rewrite Forall_forall in *. intros ch Hin f. apply Hid, Hs, Hin.
Qed.

Lemma payload_passes x id : id < 4 -> id_on x (alphab id) ->
  forall p cap capd o, bytes_ok p -> (enclen (cbits (codec_by_id id)) (length p) <= cap)%nat -> (length p <= capd)%nat ->
  exists t, rmap x o (fst (encode (codec_by_id id) cap p)) = Some t /\ decode (codec_by_id id) capd t = p.
Proof.
  intros Hid Hx p cap capd o Hp Hcap Hcapd.
  exists (fst (encode (codec_by_id id) cap p)). split.
  - apply (text_passes x o (alphab id)); [exact Hx|apply alphab_encode, Hid].
  - apply roundtrip_full; [apply codec_by_id_wf|assumption..].
Qed.

(* ==================================================================================== *)
(* upstream: the 'Z' echo and the decision tree                                          *)

(* the echo always comes back intact: it is carried as binary RDATA (NULL/PRIVATE) or as Base32
   text, which every member passes *)
Lemma down_deliver_T x o ty p : bytes_ok p -> down_deliver x o ty 84 p = Some p.
Proof.
  intros Hp. unfold down_deliver. destruct (is_binary_type ty); [reflexivity|].
  replace (84 =? 82) with false by reflexivity. rewrite andb_false_r.
  change (text_codec 84) with b32.
  destruct (b32_survives x o p (enclen (cbits b32) (length p)) (length p) Hp) as [t [Et Dt]]; [apply Nat.le_refl..|].
  rewrite Et, Dt. reflexivity.
Qed.

Lemma bytes_ok_app a b : bytes_ok a -> bytes_ok b -> bytes_ok (a ++ b).
Proof. unfold bytes_ok. intros. apply Forall_app. split; assumption. Qed.

Lemma bounce_eq r oq oa ty hdr s : bytes_ok hdr -> bytes_ok s ->
  bounce r oq oa ty hdr s = option_map (fun s' => hdr ++ s' ++ [46]) (rmap (r_q r) oq s).
Proof.
  intros Hh Hs. unfold bounce. destruct (rmap (r_q r) oq s) as [s'|] eqn:E; [|reflexivity].
  simpl. apply down_deliver_T. apply bytes_ok_app; [exact Hh|]. apply bytes_ok_app.
  - exact (rmap_from_bytes_ok _ _ _ _ _ Hs E).
  - constructor; [unfold byte_ok; lia|constructor].
Qed.

(* handshake_upenctest never looks at the four header characters *)
Lemma upenctest_hdr s hdr l : length hdr = 4%nat ->
  upenctest_eval s (Some (hdr ++ l)) = upenctest_eval s (Some ([0; 0; 0; 0] ++ l)).
Proof.
  intros H. destruct hdr as [|a [|b [|c [|d [|e hdr]]]]]; try discriminate. reflexivity.
Qed.

Definition up_core (x : xf) (o : nat -> bool) (s : list N) : upres :=
  upenctest_eval s (option_map (fun s' => [0; 0; 0; 0] ++ s' ++ [46]) (rmap x o s)).
Definition up_select_q (x : xf) (o : nat -> bool) : N := upenc_autodetect (up_core x o).

Lemma up_test_core r oq oa ty hdr s : length hdr = 4%nat -> bytes_ok hdr -> bytes_ok s ->
  up_test r oq oa ty hdr s = up_core (r_q r) oq s.
Proof.
  intros Hl Hh Hs. unfold up_test, up_core. rewrite (bounce_eq r oq oa ty hdr s Hh Hs).
  destruct (rmap (r_q r) oq s) as [s'|]; [|reflexivity]. simpl. apply upenctest_hdr, Hl.
Qed.

Lemma upenc_chain_ext t1 t2 : forall ps, (forall p, In p ps -> t1 p = t2 p) -> upenc_chain t1 ps = upenc_chain t2 ps.
Proof.
  induction ps as [|p ps IH]; intros H; [reflexivity|]. simpl. rewrite (H p (or_introl eq_refl)).
  destruct (t2 p); try reflexivity. apply IH. intros q Hq. apply H. right. exact Hq.
Qed.

Lemma upenc_alts_ext t1 t2 : forall ps rets, (forall p, In p ps -> t1 p = t2 p) -> upenc_alts t1 ps rets = upenc_alts t2 ps rets.
Proof.
  induction ps as [|p ps IH]; intros rets H; [reflexivity|]. destruct rets as [|r rets]; [reflexivity|]. simpl.
  rewrite (H p (or_introl eq_refl)). destruct (t2 p); try reflexivity. apply IH. intros q Hq. apply H. right. exact Hq.
Qed.

Definition up_patterns : list (list N) := src_upenc_chain ++ src_upenc_alt.

Lemma upenc_autodetect_ext t1 t2 : (forall p, In p up_patterns -> t1 p = t2 p) -> upenc_autodetect t1 = upenc_autodetect t2.
Proof.
  intros H. unfold upenc_autodetect.
  rewrite (upenc_chain_ext t1 t2 src_upenc_chain) by (intros p Hp; apply H, in_or_app; left; exact Hp).
  rewrite (upenc_alts_ext t1 t2 src_upenc_alt) by (intros p Hp; apply H, in_or_app; right; exact Hp).
  reflexivity.
Qed.

Lemma up_patterns_bytes_ok : forall p, In p up_patterns -> bytes_ok p.
Proof.
  assert (S : forallb bytes_okb up_patterns = true) by (vm_compute; reflexivity).
  intros p Hp. rewrite forallb_forall in S. apply bytes_okb_ok, S, Hp.
Qed.

Lemma up_select_core r oq oa ty hdr : length hdr = 4%nat -> bytes_ok hdr ->
  up_select r oq oa ty hdr = up_select_q (r_q r) oq.
Proof.
  intros Hl Hh. unfold up_select, up_select_q. apply upenc_autodetect_ext.
  intros p Hp. apply up_test_core; [exact Hl|exact Hh|apply up_patterns_bytes_ok, Hp].
Qed.

Lemma up_select_q_det x o : det x = true -> up_select_q x o = up_select_q x no_flip.
Proof.
  intros Hd. unfold up_select_q. apply upenc_autodetect_ext. intros p _. unfold up_core.
  rewrite (rmap_det x o no_flip p Hd). reflexivity.
Qed.

(* the finite check: for every deterministic member, client and server switch to the same codec
   and the member is the identity on that codec's alphabet (Base32 needs no such check) *)
Definition up_check (x : xf) : bool :=
  let sel := up_switch (up_select_q x no_flip) in
  (fst sel =? snd sel) && (fst sel <? 4) &&
  ((fst sel =? 0) || forallb (fun ch => implb (alphab (fst sel) ch) (rchar_idb x ch)) (nrange 256)).

Lemma up_check_all : forallb up_check det_xf = true.
Proof. vm_compute. reflexivity. Qed.

Lemma up_sound_q x o : det x = true ->
  let sel := up_switch (up_select_q x o) in
  fst sel = snd sel /\ fst sel < 4 /\ (fst sel <> 0 -> id_on x (alphab (fst sel))).
Proof.
  intros Hd. rewrite (up_select_q_det x o Hd). cbv zeta.
  pose proof (forallb_det_xf _ up_check_all x Hd) as H. unfold up_check in H. cbv zeta in H.
  apply andb_prop in H. destruct H as [H H3]. apply andb_prop in H. destruct H as [H1 H2].
  split; [lia|]. split; [lia|]. intros Hnz.
  apply orb_prop in H3. destruct H3 as [H3|H3]; [lia|].
  apply id_on_from_sweep; [exact Hd|apply alphab_lt|exact H3].
Qed.

Lemma up_payload_q x o : det x = true ->
  let id := fst (up_switch (up_select_q x o)) in
  forall p cap capd o', bytes_ok p -> (enclen (cbits (codec_by_id id)) (length p) <= cap)%nat -> (length p <= capd)%nat ->
  exists t, rmap x o' (fst (encode (codec_by_id id) cap p)) = Some t /\ decode (codec_by_id id) capd t = p.
Proof.
  intros Hd id p cap capd o' Hp Hcap Hcapd.
  destruct (up_sound_q x o Hd) as [_ [Hlt Hid]]. fold id in Hlt, Hid.
  destruct (N.eq_dec id 0) as [E|NE].
  - revert Hcap. rewrite E. intros Hcap. apply b32_survives; assumption.
  - apply payload_passes; [exact Hlt|apply Hid, NE|assumption..].
Qed.
