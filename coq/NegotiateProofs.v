(* NegotiateProofs.v -- lemmas for property C11 (negotiation only selects settings that work on
   the path).  Finite facts about the relay family, the source's test patterns and the decision
   logic are established by vm_compute over the family (reflection) and lifted by lemmas. *)
From Coq Require Import List NArith ZArith Arith Bool Lia ZifyBool ZifyNat ZifyN.
From Iodine Require Import Generated.SrcConsts Base Codec CodecProofs Hostname DnsName DnsMsg Relay Negotiate.
Import ListNotations.
Local Open Scope N_scope.

Ltac Zify.zify_post_hook ::= Z.div_mod_to_equations.

(* ==================================================================================== *)
(* small list facts                                                                      *)

Lemma list_eqb_eq a : forall b, list_eqb a b = true <-> a = b.
Proof.
  induction a as [|x a IH]; intros [|y b]; simpl; split; intros H; try reflexivity; try discriminate.
  - apply andb_prop in H. destruct H as [H1 H2]. apply N.eqb_eq in H1. apply IH in H2. subst. reflexivity.
  - inversion H; subst. rewrite N.eqb_refl. simpl. apply IH. reflexivity.
Qed.

Lemma list_eqb_refl a : list_eqb a a = true.
Proof. apply list_eqb_eq. reflexivity. Qed.

Lemma list_eqb_neq a b : a <> b -> list_eqb a b = false.
Proof. intros H. destruct (list_eqb a b) eqn:E; [|reflexivity]. apply list_eqb_eq in E. contradiction. Qed.

Lemma memb_In c l : memb c l = true <-> In c l.
Proof.
  unfold memb. rewrite existsb_exists. split.
  - intros [x [Hx E]]. apply N.eqb_eq in E. subst. exact Hx.
  - intros H. exists c. split; [exact H|apply N.eqb_refl].
Qed.

(* ==================================================================================== *)
(* the relay family                                                                      *)

Lemma all_xf_complete : forall x, In x all_xf.
Proof.
  intros [[| | |] [| |] [| |]]; vm_compute; repeat (first [left; reflexivity | right]).
Qed.

Lemma det_xf_complete x : det x = true -> In x det_xf.
Proof. intros H. unfold det_xf. apply filter_In. split; [apply all_xf_complete|exact H]. Qed.

Lemma forallb_det_xf (P : xf -> bool) : forallb P det_xf = true -> forall x, det x = true -> P x = true.
Proof. intros H x Hx. rewrite forallb_forall in H. apply H, det_xf_complete, Hx. Qed.

Lemma forallb_all_xf (P : xf -> bool) : forallb P all_xf = true -> forall x, P x = true.
Proof. intros H x. rewrite forallb_forall in H. apply H, all_xf_complete. Qed.

Lemma rchar_det x f f' c : det x = true -> rchar x f c = rchar x f' c.
Proof.
  unfold det, rchar. destruct (high_step _ c); [|reflexivity].
  destruct (x_case x); intros H; try reflexivity. discriminate.
Qed.

Lemma rmap_from_det x o o' : det x = true -> forall s i i', rmap_from x o i s = rmap_from x o' i' s.
Proof.
  intros Hd. induction s as [|c s IH]; intros i i'; [reflexivity|]. simpl.
  rewrite (rchar_det x (o i) (o' i') c Hd). rewrite (IH (S i) (S i')). reflexivity.
Qed.

Lemma rmap_det x o o' s : det x = true -> rmap x o s = rmap x o' s.
Proof. intros Hd. apply rmap_from_det, Hd. Qed.

Lemma rmap_from_length x o : forall s i t, rmap_from x o i s = Some t -> length t = length s.
Proof.
  induction s as [|c s IH]; intros i t H; simpl in H.
  - inversion H. reflexivity.
  - destruct (rchar x (o i) c); [|discriminate]. destruct (rmap_from x o (S i) s) eqn:E; [|discriminate].
    inversion H. simpl. f_equal. apply (IH (S i)). exact E.
Qed.

(* a string made of characters the relay leaves alone passes unchanged *)
Lemma rmap_from_id x o : forall s i, Forall (fun c => forall f, rchar x f c = Some c) s -> rmap_from x o i s = Some s.
Proof.
  induction s as [|c s IH]; intros i H; [reflexivity|]. simpl.
  inversion H as [|? ? Hc Hs]; subst. rewrite Hc, (IH (S i) Hs). reflexivity.
Qed.

(* element-wise description of a transformed string *)
Lemma rmap_from_nth x o : forall s i t, rmap_from x o i s = Some t ->
  forall j, (j < length s)%nat -> rchar x (o (i + j)%nat) (nth j s 0) = Some (nth j t 0).
Proof.
  induction s as [|c s IH]; intros i t H j Hj; [simpl in Hj; lia|]. simpl in H.
  destruct (rchar x (o i) c) eqn:Ec; [|discriminate].
  destruct (rmap_from x o (S i) s) eqn:E; [|discriminate]. inversion H; subst.
  destruct j as [|j]; simpl.
  - rewrite Nat.add_0_r. exact Ec.
  - replace (i + S j)%nat with (S i + j)%nat by lia. apply IH; [exact E|simpl in Hj; lia].
Qed.

Lemma rchar_lt x f c c' : c < 256 -> rchar x f c = Some c' -> c' < 256.
Proof.
  intros Hc.
  assert (S : forallb (fun x => forallb (fun f => forallb (fun c =>
              match rchar x f c with Some c' => c' <? 256 | None => true end) (nrange 256)) [true; false]) all_xf = true)
    by (vm_compute; reflexivity).
  pose proof (forallb_all_xf _ S x) as H1. cbv beta in H1. rewrite forallb_forall in H1.
  assert (Hf : In f [true; false]) by (destruct f; simpl; tauto).
  specialize (H1 f Hf). pose proof (sweep1 _ _ H1 c) as H2. cbv beta in H2.
  intros E. rewrite E in H2. assert (c < N.of_nat 256) by lia. specialize (H2 H). lia.
Qed.

Lemma rmap_from_bytes_ok x o : forall s i t, bytes_ok s -> rmap_from x o i s = Some t -> bytes_ok t.
Proof.
  induction s as [|c s IH]; intros i t Hs H; simpl in H.
  - inversion H. constructor.
  - destruct (rchar x (o i) c) eqn:Ec; [|discriminate].
    destruct (rmap_from x o (S i) s) eqn:E; [|discriminate]. inversion H; subst.
    inversion Hs as [|? ? Hc Hs']; subst. constructor.
    + exact (rchar_lt x (o i) c n Hc Ec).
    + exact (IH (S i) l Hs' E).
Qed.

(* ==================================================================================== *)
(* decoding depends only on the reverse-table values and on which characters are NUL     *)

Definition same_val (c : codec) (a b : N) : Prop := rev c a = rev c b /\ (a =? 0) = (b =? 0).

Lemma Forall2_firstn {A B} (R : A -> B -> Prop) n : forall l l', Forall2 R l l' -> Forall2 R (firstn n l) (firstn n l').
Proof.
  induction n as [|n IH]; intros l l' H; [constructor|].
  destruct H; simpl; [constructor|]. constructor; [assumption|apply IH; assumption].
Qed.

Lemma Forall2_skipn {A B} (R : A -> B -> Prop) n : forall l l', Forall2 R l l' -> Forall2 R (skipn n l) (skipn n l').
Proof.
  induction n as [|n IH]; intros l l' H; [exact H|].
  destruct H; simpl; [constructor|]. apply IH; assumption.
Qed.

Lemma Forall2_length' {A B} (R : A -> B -> Prop) l l' : Forall2 R l l' -> length l = length l'.
Proof. induction 1; simpl; congruence. Qed.

Lemma same_val_existsb c l l' : Forall2 (same_val c) l l' ->
  existsb (fun x => x =? 0) l = existsb (fun x => x =? 0) l'.
Proof. induction 1 as [|a b l l' [_ Hz] _ IH]; [reflexivity|]. simpl. rewrite Hz, IH. reflexivity. Qed.

Lemma same_val_nth c l l' j : Forall2 (same_val c) l l' -> rev c (nth j l 0) = rev c (nth j l' 0).
Proof.
  intros H. revert j. induction H as [|a b l l' [Hr _] _ IH]; intros j; [destruct j; reflexivity|].
  destruct j; simpl; [exact Hr|apply IH].
Qed.

Lemma dec_go_ext c cap : forall i s s', Forall2 (same_val c) s s' -> dec_go c cap i s = dec_go c cap i s'.
Proof.
  induction cap as [|cap IH]; intros i s s' H; [reflexivity|].
  rewrite !dec_go_S. cbv zeta.
  pose proof (Forall2_firstn _ (dneed (cbits c) i) _ _ H) as Hf.
  rewrite (Forall2_length' _ _ _ Hf).
  destruct (_ <? _)%nat; [reflexivity|].
  rewrite (same_val_existsb c _ _ Hf).
  destruct (existsb _ _); [reflexivity|].
  rewrite !(same_val_nth c _ _ _ Hf). f_equal.
  apply IH, Forall2_skipn, H.
Qed.

(* ==================================================================================== *)
(* Base32 text survives every member of the family, the random-case one included         *)

Lemma b32_char_survives x f ch : alpha32b ch = true ->
  exists ch', rchar x f ch = Some ch' /\ same_val b32 ch' ch.
Proof.
  intros Ha.
  assert (S : forallb (fun x => forallb (fun f => forallb (fun ch =>
              implb (alpha32b ch)
                    match rchar x f ch with
                    | Some ch' => (rev b32 ch' =? rev b32 ch) && Bool.eqb (ch' =? 0) (ch =? 0)
                    | None => false
                    end) (nrange 256)) [true; false]) all_xf = true)
    by (vm_compute; reflexivity).
  pose proof (forallb_all_xf _ S x) as H1. cbv beta in H1. rewrite forallb_forall in H1.
  assert (Hf : In f [true; false]) by (destruct f; simpl; tauto).
  specialize (H1 f Hf). pose proof (sweep1 _ _ H1 ch) as H2. cbv beta in H2.
  assert (Hlt : ch < N.of_nat 256).
  { unfold alpha32b, lower in Ha. lia. }
  specialize (H2 Hlt). rewrite Ha in H2. simpl in H2.
  destruct (rchar x f ch) as [ch'|]; [|discriminate]. exists ch'. split; [reflexivity|].
  apply andb_prop in H2. destruct H2 as [A B]. apply N.eqb_eq in A. apply Bool.eqb_prop in B.
  split; assumption.
Qed.

Lemma b32_text_survives x o : forall s i, Forall (fun ch => alpha32b ch = true) s ->
  exists t, rmap_from x o i s = Some t /\ Forall2 (same_val b32) t s.
Proof.
  induction s as [|ch s IH]; intros i H.
  - exists []. split; [reflexivity|constructor].
  - inversion H as [|? ? Hc Hs]; subst. destruct (b32_char_survives x (o i) ch Hc) as [ch' [E V]].
    destruct (IH (S i) Hs) as [t [Et Vt]]. exists (ch' :: t). simpl. rewrite E, Et. split; [reflexivity|].
    constructor; assumption.
Qed.

Lemma alpha32_encode cap d : Forall (fun ch => alpha32b ch = true) (fst (encode b32 cap d)).
Proof. apply (alpha_from_sweep b32 alpha32b wfb_b32). vm_compute. reflexivity. Qed.

Lemma b32_survives x o p cap capd : bytes_ok p -> (enclen 5 (length p) <= cap)%nat -> (length p <= capd)%nat ->
  exists t, rmap x o (fst (encode b32 cap p)) = Some t /\ decode b32 capd t = p.
Proof.
  intros Hp Hcap Hcapd.
  destruct (b32_text_survives x o (fst (encode b32 cap p)) 0%nat (alpha32_encode cap p)) as [t [Et Vt]].
  exists t. split; [exact Et|]. unfold decode. rewrite (dec_go_ext b32 capd 0 _ _ Vt).
  destruct (enc_full b32 wfb_b32 cap p Hcap) as [Hn _].
  pose proof (roundtrip b32 wfb_b32 cap capd p Hp) as R. unfold decode in R. rewrite R by lia.
  rewrite Hn. apply firstn_all.
Qed.

(* ==================================================================================== *)
(* codec facts reused from C07                                                           *)

Lemma roundtrip_full c : wfb c = true -> forall cap capd d, bytes_ok d ->
  (enclen (cbits c) (length d) <= cap)%nat -> (length d <= capd)%nat ->
  decode c capd (fst (encode c cap d)) = d.
Proof.
  intros Hwf cap capd d Hd Hcap Hcapd.
  destruct (enc_full c Hwf cap d Hcap) as [Hn _].
  rewrite (roundtrip c Hwf cap capd d Hd) by lia. rewrite Hn. apply firstn_all.
Qed.

Lemma alpha64_encode cap d : Forall (fun ch => alpha64b ch = true) (fst (encode b64 cap d)).
Proof. apply (alpha_from_sweep b64 alpha64b wfb_b64). vm_compute. reflexivity. Qed.
Lemma alpha64u_encode cap d : Forall (fun ch => alpha64ub ch = true) (fst (encode b64u cap d)).
Proof. apply (alpha_from_sweep b64u alpha64ub wfb_b64u). vm_compute. reflexivity. Qed.
Lemma alpha128_encode cap d : Forall (fun ch => alpha128b ch = true) (fst (encode b128 cap d)).
Proof. apply (alpha_from_sweep b128 alpha128b wfb_b128). vm_compute. reflexivity. Qed.

(* documented alphabet of codec number id (0 Base32, 1 Base64, 2 Base64u, 3 Base128) *)
Definition alphab (id : N) : N -> bool :=
  if id =? 1 then alpha64b else if id =? 2 then alpha64ub else if id =? 3 then alpha128b else alpha32b.

Lemma alphab_lt id ch : alphab id ch = true -> ch < 256.
Proof.
  unfold alphab, alpha64b, alpha64ub, alpha128b, alpha32b, lower, upper, digit.
  destruct (id =? 1); [lia|]. destruct (id =? 2); [lia|]. destruct (id =? 3); lia.
Qed.

Lemma codec_by_id_wf id : wfb (codec_by_id id) = true.
Proof.
  unfold codec_by_id. destruct (id =? 0); [exact wfb_b32|]. destruct (id =? 1); [exact wfb_b64|].
  destruct (id =? 2); [exact wfb_b64u|exact wfb_b128].
Qed.

Lemma alphab_encode id cap d : id < 4 -> Forall (fun ch => alphab id ch = true) (fst (encode (codec_by_id id) cap d)).
Proof.
  intros H. assert (C : id = 0 \/ id = 1 \/ id = 2 \/ id = 3) by lia.
  destruct C as [->|[->|[->| ->]]]; unfold alphab, codec_by_id; simpl.
  - apply alpha32_encode. - apply alpha64_encode. - apply alpha64u_encode. - apply alpha128_encode.
Qed.

(* a relay direction that is the identity on the alphabet of a codec passes every text of that
   codec unchanged, hence every payload *)
Definition rchar_idb (x : xf) (ch : N) : bool :=
  match rchar x false ch with Some ch' => ch' =? ch | None => false end.

Definition id_on (x : xf) (P : N -> bool) : Prop := forall ch f, P ch = true -> rchar x f ch = Some ch.

Lemma id_on_from_sweep x P : det x = true -> (forall ch, P ch = true -> ch < 256) ->
  forallb (fun ch => implb (P ch) (rchar_idb x ch)) (nrange 256) = true -> id_on x P.
Proof.
  intros Hd Hlt H ch f HP. pose proof (sweep1 _ _ H ch) as H1. cbv beta in H1.
  assert (L : ch < N.of_nat 256) by (specialize (Hlt ch HP); lia). specialize (H1 L).
  rewrite HP in H1. simpl in H1. unfold rchar_idb in H1.
  rewrite (rchar_det x f false ch Hd). destruct (rchar x false ch); [|discriminate].
  apply N.eqb_eq in H1. subst. reflexivity.
Qed.

Lemma text_passes x o P s : id_on x P -> Forall (fun ch => P ch = true) s -> rmap x o s = Some s.
Proof.
  intros Hid Hs. apply rmap_from_id. rewrite Forall_forall in *. intros ch Hin f. apply Hid, Hs, Hin.
Qed.

Lemma payload_passes x id : id < 4 -> id_on x (alphab id) ->
  forall p cap capd o, bytes_ok p -> (enclen (cbits (codec_by_id id)) (length p) <= cap)%nat -> (length p <= capd)%nat ->
  exists t, rmap x o (fst (encode (codec_by_id id) cap p)) = Some t /\ decode (codec_by_id id) capd t = p.
Proof.
  intros Hid Hx p cap capd o Hp Hcap Hcapd.
  exists (fst (encode (codec_by_id id) cap p)). split.
  - apply (text_passes x o (alphab id)); [exact Hx|apply alphab_encode, Hid].
  - apply roundtrip_full; [apply codec_by_id_wf|assumption..].
Qed.

(* ==================================================================================== *)
(* upstream: the 'Z' echo and the decision tree                                          *)

(* the echo always comes back intact: it is carried as binary RDATA (NULL/PRIVATE) or as Base32
   text, which every member passes *)
Lemma down_deliver_T x o ty p : bytes_ok p -> down_deliver x o ty 84 p = Some p.
Proof.
  intros Hp. unfold down_deliver. destruct (is_binary_type ty); [reflexivity|].
  replace (84 =? 82) with false by reflexivity. rewrite andb_false_r.
  change (text_codec 84) with b32.
  destruct (b32_survives x o p (enclen (cbits b32) (length p)) (length p) Hp) as [t [Et Dt]]; [apply Nat.le_refl..|].
  rewrite Et, Dt. reflexivity.
Qed.

Lemma bytes_ok_app a b : bytes_ok a -> bytes_ok b -> bytes_ok (a ++ b).
Proof. unfold bytes_ok. intros. apply Forall_app. split; assumption. Qed.

Lemma bounce_eq r oq oa ty hdr s : bytes_ok hdr -> bytes_ok s ->
  bounce r oq oa ty hdr s = option_map (fun s' => hdr ++ s' ++ [46]) (rmap (r_q r) oq s).
Proof.
  intros Hh Hs. unfold bounce. destruct (rmap (r_q r) oq s) as [s'|] eqn:E; [|reflexivity].
  simpl. apply down_deliver_T. apply bytes_ok_app; [exact Hh|]. apply bytes_ok_app.
  - exact (rmap_from_bytes_ok _ _ _ _ _ Hs E).
  - constructor; [unfold byte_ok; lia|constructor].
Qed.

(* handshake_upenctest never looks at the four header characters *)
Lemma upenctest_hdr s hdr l : length hdr = 4%nat ->
  upenctest_eval s (Some (hdr ++ l)) = upenctest_eval s (Some ([0; 0; 0; 0] ++ l)).
Proof.
  intros H. destruct hdr as [|a [|b [|c [|d [|e hdr]]]]]; try discriminate. reflexivity.
Qed.

Definition up_core (x : xf) (o : nat -> bool) (s : list N) : upres :=
  upenctest_eval s (option_map (fun s' => [0; 0; 0; 0] ++ s' ++ [46]) (rmap x o s)).
Definition up_select_q (x : xf) (o : nat -> bool) : N := upenc_autodetect (up_core x o).

Lemma up_test_core r oq oa ty hdr s : length hdr = 4%nat -> bytes_ok hdr -> bytes_ok s ->
  up_test r oq oa ty hdr s = up_core (r_q r) oq s.
Proof.
  intros Hl Hh Hs. unfold up_test, up_core. rewrite (bounce_eq r oq oa ty hdr s Hh Hs).
  destruct (rmap (r_q r) oq s) as [s'|]; [|reflexivity]. simpl. apply upenctest_hdr, Hl.
Qed.

Lemma upenc_chain_ext t1 t2 : forall ps, (forall p, In p ps -> t1 p = t2 p) -> upenc_chain t1 ps = upenc_chain t2 ps.
Proof.
  induction ps as [|p ps IH]; intros H; [reflexivity|]. simpl. rewrite (H p (or_introl eq_refl)).
  destruct (t2 p); try reflexivity. apply IH. intros q Hq. apply H. right. exact Hq.
Qed.

Lemma upenc_alts_ext t1 t2 : forall ps rets, (forall p, In p ps -> t1 p = t2 p) -> upenc_alts t1 ps rets = upenc_alts t2 ps rets.
Proof.
  induction ps as [|p ps IH]; intros rets H; [reflexivity|]. destruct rets as [|r rets]; [reflexivity|]. simpl.
  rewrite (H p (or_introl eq_refl)). destruct (t2 p); try reflexivity. apply IH. intros q Hq. apply H. right. exact Hq.
Qed.

Definition up_patterns : list (list N) := src_upenc_chain ++ src_upenc_alt.

Lemma upenc_autodetect_ext t1 t2 : (forall p, In p up_patterns -> t1 p = t2 p) -> upenc_autodetect t1 = upenc_autodetect t2.
Proof.
  intros H. unfold upenc_autodetect.
  rewrite (upenc_chain_ext t1 t2 src_upenc_chain) by (intros p Hp; apply H, in_or_app; left; exact Hp).
  rewrite (upenc_alts_ext t1 t2 src_upenc_alt) by (intros p Hp; apply H, in_or_app; right; exact Hp).
  reflexivity.
Qed.

Lemma up_patterns_bytes_ok : forall p, In p up_patterns -> bytes_ok p.
Proof.
  assert (S : forallb bytes_okb up_patterns = true) by (vm_compute; reflexivity).
  intros p Hp. rewrite forallb_forall in S. apply bytes_okb_ok, S, Hp.
Qed.

Lemma up_select_core r oq oa ty hdr : length hdr = 4%nat -> bytes_ok hdr ->
  up_select r oq oa ty hdr = up_select_q (r_q r) oq.
Proof.
  intros Hl Hh. unfold up_select, up_select_q. apply upenc_autodetect_ext.
  intros p Hp. apply up_test_core; [exact Hl|exact Hh|apply up_patterns_bytes_ok, Hp].
Qed.

Lemma up_select_q_det x o : det x = true -> up_select_q x o = up_select_q x no_flip.
Proof.
  intros Hd. unfold up_select_q. apply upenc_autodetect_ext. intros p _. unfold up_core.
  rewrite (rmap_det x o no_flip p Hd). reflexivity.
Qed.

(* the finite check: for every deterministic member, client and server switch to the same codec
   and the member is the identity on that codec's alphabet (Base32 needs no such check) *)
Definition up_check (x : xf) : bool :=
  let sel := up_switch (up_select_q x no_flip) in
  (fst sel =? snd sel) && (fst sel <? 4) &&
  ((fst sel =? 0) || forallb (fun ch => implb (alphab (fst sel) ch) (rchar_idb x ch)) (nrange 256)).

Lemma up_check_all : forallb up_check det_xf = true.
Proof. vm_compute. reflexivity. Qed.

Lemma up_sound_q x o : det x = true ->
  let sel := up_switch (up_select_q x o) in
  fst sel = snd sel /\ fst sel < 4 /\ (fst sel <> 0 -> id_on x (alphab (fst sel))).
Proof.
  intros Hd. rewrite (up_select_q_det x o Hd). cbv zeta.
  pose proof (forallb_det_xf _ up_check_all x Hd) as H. unfold up_check in H. cbv zeta in H.
  apply andb_prop in H. destruct H as [H H3]. apply andb_prop in H. destruct H as [H1 H2].
  split; [lia|]. split; [lia|]. intros Hnz.
  apply orb_prop in H3. destruct H3 as [H3|H3]; [lia|].
  apply id_on_from_sweep; [exact Hd|apply alphab_lt|exact H3].
Qed.

Lemma up_payload_q x o : det x = true ->
  let id := fst (up_switch (up_select_q x o)) in
  forall p cap capd o', bytes_ok p -> (enclen (cbits (codec_by_id id)) (length p) <= cap)%nat -> (length p <= capd)%nat ->
  exists t, rmap x o' (fst (encode (codec_by_id id) cap p)) = Some t /\ decode (codec_by_id id) capd t = p.
Proof.
  intros Hd id p cap capd o' Hp Hcap Hcapd.
  destruct (up_sound_q x o Hd) as [_ [Hlt Hid]]. fold id in Hlt, Hid.
  destruct (N.eq_dec id 0) as [E|NE].
  - revert Hcap. rewrite E. intros Hcap. apply b32_survives; assumption.
  - apply payload_passes; [exact Hlt|apply Hid, NE|assumption..].
Qed.

(* ==================================================================================== *)
(* downstream: the 'Y' check and handshake_downenc_autodetect                            *)

Lemma down_deliver_det x o o' ty l p : det x = true -> down_deliver x o ty l p = down_deliver x o' ty l p.
Proof.
  intros Hd. unfold down_deliver. rewrite (rmap_det x o o' p Hd).
  rewrite (rmap_det x o o' (fst (encode (text_codec l) _ p)) Hd). reflexivity.
Qed.

Lemma downcheck_det x o o' ty l : det x = true -> downcheck x o ty l = downcheck x o' ty l.
Proof. intros Hd. unfold downcheck. rewrite !(down_deliver_det x o o' ty _ _ Hd). reflexivity. Qed.

Lemma downenc_autodetect_ext ty t1 t2 : (forall l, t1 l = t2 l) -> downenc_autodetect ty t1 = downenc_autodetect ty t2.
Proof. intros H. unfold downenc_autodetect. rewrite !H. reflexivity. Qed.

Lemma down_select_det x o ty : det x = true -> down_select x o ty = down_select x no_flip ty.
Proof.
  intros Hd. unfold down_select. apply downenc_autodetect_ext. intros l.
  rewrite (downcheck_det x o no_flip ty l Hd). reflexivity.
Qed.

(* the one deterministic member on which the autodetected downstream codec does not work *)
Definition xf_plus : xf := {| x_case := CKeep; x_high := HClean; x_punct := PPlus |}.

Definition xf_eqb (a b : xf) : bool :=
  match x_case a, x_case b with
  | CKeep, CKeep | CLower, CLower | CUpper, CUpper | CRandom, CRandom => true | _, _ => false end &&
  match x_high a, x_high b with HClean, HClean | HStrip, HStrip | HReject, HReject => true | _, _ => false end &&
  match x_punct a, x_punct b with PKeep, PKeep | PPlus, PPlus | PUnder, PUnder => true | _, _ => false end.

Lemma xf_eqb_eq a b : xf_eqb a b = true -> a = b.
Proof. destruct a as [[| | |] [| |] [| |]], b as [[| | |] [| |] [| |]]; simpl; intros H; try discriminate; reflexivity. Qed.

Definition byteb (ch : N) : bool := ch <? 256.

(* is the relay direction the identity on everything the codec letter puts on the wire? *)
Definition down_letter_ok (x : xf) (ty l : N) : bool :=
  if l =? 32 then true
  else if l =? 82 then (ty =? T_TXT) && forallb (fun ch => implb (byteb ch) (rchar_idb x ch)) (nrange 256)
  else if l =? 83 then forallb (fun ch => implb (alphab 1 ch) (rchar_idb x ch)) (nrange 256)
  else if l =? 85 then forallb (fun ch => implb (alphab 2 ch) (rchar_idb x ch)) (nrange 256)
  else if l =? 86 then forallb (fun ch => implb (alphab 3 ch) (rchar_idb x ch)) (nrange 256)
  else false.

Definition down_check (x : xf) (ty : N) : bool :=
  let l := down_select x no_flip ty in
  down_letter_ok x ty l || ((l =? 82) && (ty =? T_TXT) && xf_eqb x xf_plus).

Lemma down_check_all : forallb (fun x => forallb (down_check x) src_qtype_order) det_xf = true.
Proof. vm_compute. reflexivity. Qed.

Lemma down_letter_ok_sound x ty l : det x = true -> down_letter_ok x ty l = true ->
  forall p o, bytes_ok p -> down_deliver x o ty l p = Some p.
Proof.
  intros Hd H p o Hp. unfold down_deliver. destruct (is_binary_type ty); [reflexivity|].
  unfold down_letter_ok in H.
  destruct (l =? 32) eqn:E32.
  { apply N.eqb_eq in E32. subst l. replace (32 =? 82) with false by reflexivity. rewrite andb_false_r.
    change (text_codec 32) with b32.
    destruct (b32_survives x o p (enclen (cbits b32) (length p)) (length p) Hp) as [t [Et Dt]]; [apply Nat.le_refl..|].
    rewrite Et, Dt. reflexivity. }
  destruct (l =? 82) eqn:E82.
  { apply andb_prop in H. destruct H as [Ht Hs]. rewrite Ht. simpl.
    apply (text_passes x o byteb).
    - apply id_on_from_sweep; [exact Hd|unfold byteb; intros; lia|exact Hs].
    - unfold bytes_ok, byte_ok in Hp. rewrite Forall_forall in *. intros ch Hin. specialize (Hp ch Hin). unfold byteb. lia. }
  rewrite andb_false_r.
  assert (G : forall id, id < 4 -> id <> 0 -> text_codec l = codec_by_id id ->
              forallb (fun ch => implb (alphab id ch) (rchar_idb x ch)) (nrange 256) = true ->
              match rmap x o (fst (encode (text_codec l) (enclen (cbits (text_codec l)) (length p)) p)) with
              | Some t => Some (decode (text_codec l) (length p) t)
              | None => None
              end = Some p).
  { intros id Hid Hnz Ec Hs. rewrite Ec.
    destruct (payload_passes x id Hid (id_on_from_sweep x (alphab id) Hd (alphab_lt id) Hs) p
                (enclen (cbits (codec_by_id id)) (length p)) (length p) o Hp) as [t [Et Dt]]; [apply Nat.le_refl..|].
    rewrite Et, Dt. reflexivity. }
  destruct (l =? 83) eqn:E83.
  { apply N.eqb_eq in E83. subst l. apply (G 1); [lia|lia|reflexivity|exact H]. }
  destruct (l =? 85) eqn:E85.
  { apply N.eqb_eq in E85. subst l. apply (G 2); [lia|lia|reflexivity|exact H]. }
  destruct (l =? 86) eqn:E86.
  { apply N.eqb_eq in E86. subst l. apply (G 3); [lia|lia|reflexivity|exact H]. }
  discriminate.
Qed.

Lemma down_sound x o ty : det x = true -> In ty src_qtype_order ->
  (down_select x o ty = 82 /\ ty = T_TXT /\ x = xf_plus) \/
  forall p o', bytes_ok p -> down_deliver x o' ty (down_select x o ty) p = Some p.
Proof.
  intros Hd Hty. rewrite (down_select_det x o ty Hd).
  pose proof (forallb_det_xf _ down_check_all x Hd) as H. cbv beta in H.
  rewrite forallb_forall in H. specialize (H ty Hty). unfold down_check in H. cbv zeta in H.
  apply orb_prop in H. destruct H as [H|H].
  - right. intros p o' Hp. apply down_letter_ok_sound; assumption.
  - left. apply andb_prop in H. destruct H as [H H3]. apply andb_prop in H. destruct H as [H1 H2].
    split; [lia|]. split; [apply N.eqb_eq, H2|apply xf_eqb_eq, H3].
Qed.

(* the exception is real: on that member Raw is selected for TXT and a '+' byte arrives as '-' *)
Lemma down_raw_refuted :
  det xf_plus = true /\ down_select xf_plus no_flip T_TXT = 82 /\
  down_deliver xf_plus no_flip T_TXT 82 [43] = Some [45].
Proof. repeat split; vm_compute; reflexivity. Qed.

(* ==================================================================================== *)
(* coverage of the alphabets by the source's test patterns                               *)

Definition missing (alpha : list N) (pats : list (list N)) : list N :=
  filter (fun ch => negb (existsb (memb ch) pats)) alpha.

(* text put on the wire for DOWNCODECCHECK1 by codec letter l *)
Definition chk_text (l : N) : list N :=
  fst (encode (text_codec l) (enclen (cbits (text_codec l)) (length src_DOWNCODECCHECK1)) src_DOWNCODECCHECK1).

Definition has_high (s : list N) : bool := existsb (fun ch => 128 <=? ch) s.

(* which test patterns decide for codec number id *)
Definition tests_for (id : N) : list (list N) :=
  if id =? 3 then src_upenc_chain else if id =? 1 then [nth 0 src_upenc_alt []]
  else if id =? 2 then [nth 1 src_upenc_alt []] else [].

Lemma patterns_cover :
  (* which result selects which codec, on both sides *)
  src_UPENC_CHAIN_RET = 3 /\ src_upenc_alt_ret = [1; 2] /\
  map up_switch [0; 1; 2; 3] = [(0, 0); (1, 1); (2, 2); (3, 3)] /\
  (* every test string starts with "aA" (the case-swap probe) and fits one label with "z"+CMC *)
  forallb (fun p => (nth 0 p 0 =? 97) && (nth 1 p 0 =? 65) && (length p <=? 59)%nat) up_patterns = true /\
  (* the five Base128 patterns contain every character of the Base128 alphabet *)
  missing src_cb128 (tests_for 3) = [] /\
  (* pat64 / pat64u contain every Base64 / Base64u character except the digits 3..8 *)
  missing src_cb64 (tests_for 1) = [51; 52; 53; 54; 55; 56] /\
  missing src_cb64u (tests_for 2) = [51; 52; 53; 54; 55; 56] /\
  (* no member of the family, deterministic or not, alters a digit *)
  (forall x f ch, 48 <= ch <= 57 -> rchar x f ch = Some ch) /\
  (* DOWNCODECCHECK1 as Base64 / Base64u / Base128 text and as raw bytes *)
  (existsb is_upper (chk_text 83) && existsb is_lower (chk_text 83) && memb 43 (chk_text 83) && memb 45 (chk_text 83)) = true /\
  (existsb is_upper (chk_text 85) && existsb is_lower (chk_text 85) && memb 95 (chk_text 85) && memb 45 (chk_text 85)) = true /\
  (existsb is_upper (chk_text 86) && existsb is_lower (chk_text 86) && has_high (chk_text 86)) = true /\
  (existsb is_upper src_DOWNCODECCHECK1 && existsb is_lower src_DOWNCODECCHECK1 && memb 95 src_DOWNCODECCHECK1 &&
   memb 45 src_DOWNCODECCHECK1 && has_high src_DOWNCODECCHECK1) = true /\
  memb 43 src_DOWNCODECCHECK1 = false /\
  src_downenc_order = [83; 85; 86; 82] /\ N.of_nat (length src_DOWNCODECCHECK1) = src_DOWNCODECCHECK1_LEN.
Proof.
  repeat split; try (vm_compute; reflexivity).
  intros x f ch Hch.
  assert (S : forallb (fun x => forallb (fun f => forallb (fun ch =>
              implb ((48 <=? ch) && (ch <=? 57)) match rchar x f ch with Some ch' => ch' =? ch | None => false end)
              (nrange 256)) [true; false]) all_xf = true) by (vm_compute; reflexivity).
  pose proof (forallb_all_xf _ S x) as H1. cbv beta in H1. rewrite forallb_forall in H1.
  assert (Hf : In f [true; false]) by (destruct f; simpl; tauto).
  specialize (H1 f Hf). pose proof (sweep1 _ _ H1 ch) as H2. cbv beta in H2.
  assert (L : ch < N.of_nat 256) by lia. specialize (H2 L).
  replace ((48 <=? ch) && (ch <=? 57)) with true in H2 by lia. simpl in H2.
  destruct (rchar x f ch); [|discriminate]. apply N.eqb_eq in H2. subst. reflexivity.
Qed.

(* ... so a deterministic member that alters some character of a codec's alphabet alters a
   character of a test string for that codec (upstream), resp. of the check text (downstream) *)
Definition alters (x : xf) (ch : N) : bool := negb (rchar_idb x ch).

Definition cover_check (x : xf) : bool :=
  forallb (fun id => implb (existsb (fun ch => alphab id ch && alters x ch) (nrange 256))
                           (existsb (existsb (alters x)) (tests_for id))) [1; 2; 3] &&
  forallb (fun idl => implb (existsb (fun ch => alphab (fst idl) ch && alters x ch) (nrange 256))
                            (existsb (alters x) (chk_text (snd idl)))) [(1, 83); (2, 85); (3, 86)].

Lemma cover_check_all : forallb cover_check det_xf = true.
Proof. vm_compute. reflexivity. Qed.

Lemma existsb_nrange_intro (P : N -> bool) n ch : ch < N.of_nat n -> P ch = true -> existsb P (nrange n) = true.
Proof. intros H HP. apply existsb_exists. exists ch. split; [apply in_nrange, H|exact HP]. Qed.

Lemma alters_spec x ch : det x = true -> (alters x ch = true <-> rchar x false ch <> Some ch).
Proof.
  intros _. unfold alters, rchar_idb. destruct (rchar x false ch) as [c'|].
  - destruct (c' =? ch) eqn:E; simpl; split; intros H.
    + discriminate.
    + apply N.eqb_eq in E. subst. contradiction.
    + intros Q. inversion Q. subst. rewrite N.eqb_refl in E. discriminate.
    + reflexivity.
  - simpl. split; [intros _ Q; discriminate|reflexivity].
Qed.

Lemma cover_alters x : det x = true ->
  (forall id, In id [1; 2; 3] -> forall ch, alphab id ch = true -> rchar x false ch <> Some ch ->
     exists p c, In p (tests_for id) /\ In c p /\ rchar x false c <> Some c) /\
  (forall id l, In (id, l) [(1, 83); (2, 85); (3, 86)] -> forall ch, alphab id ch = true -> rchar x false ch <> Some ch ->
     exists c, In c (chk_text l) /\ rchar x false c <> Some c).
Proof.
  intros Hd. pose proof (forallb_det_xf _ cover_check_all x Hd) as H. unfold cover_check in H.
  apply andb_prop in H. destruct H as [HU HD]. rewrite forallb_forall in HU, HD. split.
  - intros id Hid ch Ha Hr. specialize (HU id Hid).
    rewrite (existsb_nrange_intro _ 256 ch) in HU.
    + simpl in HU. apply existsb_exists in HU. destruct HU as [p [Hp Hx]].
      apply existsb_exists in Hx. destruct Hx as [c [Hc Hx]]. exists p, c. repeat split; try assumption.
      apply (alters_spec x c Hd), Hx.
    + pose proof (alphab_lt id ch Ha). lia.
    + rewrite Ha. simpl. apply (alters_spec x ch Hd), Hr.
  - intros id l Hidl ch Ha Hr. specialize (HD (id, l) Hidl). cbn [fst snd] in HD.
    rewrite (existsb_nrange_intro _ 256 ch) in HD.
    + simpl in HD. apply existsb_exists in HD. destruct HD as [c [Hc Hx]]. exists c. split; [exact Hc|].
      apply (alters_spec x c Hd), Hx.
    + pose proof (alphab_lt id ch Ha). lia.
    + rewrite Ha. simpl. apply (alters_spec x ch Hd), Hr.
Qed.

(* ==================================================================================== *)
(* the random-case member                                                                *)

Definition xf_random : xf := {| x_case := CRandom; x_high := HClean; x_punct := PKeep |}.

Definition flip_all : nat -> bool := fun _ => true.

(* a relay that happens not to flip any tested letter is taken for a transparent one: Base128 is
   selected, and a later query whose letters are flipped is decoded to different bytes *)
Lemma random_case_witness :
  up_select_q xf_random no_flip = 3 /\ up_switch 3 = (3, 3) /\
  exists p t, bytes_ok p /\ rmap xf_random flip_all (fst (encode b128 8 p)) = Some t /\ decode b128 1 t <> p.
Proof.
  split; [vm_compute; reflexivity|]. split; [vm_compute; reflexivity|].
  exists [1]. eexists. split; [repeat constructor; unfold byte_ok; lia|].
  split; [vm_compute; reflexivity|]. vm_compute. discriminate.
Qed.

(* when no test passes the result is Base32 *)
Lemma upenc_chain_no_pass test : forall ps, (forall p, In p ps -> test p <> UpPass) -> ps <> [] ->
  upenc_chain test ps = Some 0 \/ upenc_chain test ps = None.
Proof.
  intros [|p ps] H Hne; [contradiction|]. simpl. specialize (H p (or_introl eq_refl)).
  destruct (test p); [left; reflexivity|right; reflexivity|contradiction].
Qed.

Lemma upenc_alts_no_pass test : forall ps rets, (forall p, In p ps -> test p <> UpPass) -> upenc_alts test ps rets = 0.
Proof.
  induction ps as [|p ps IH]; intros rets H; [reflexivity|]. destruct rets as [|r rets]; [reflexivity|]. simpl.
  pose proof (H p (or_introl eq_refl)) as Hp. destruct (test p); [reflexivity| |contradiction].
  apply IH. intros q Hq. apply H. right. exact Hq.
Qed.

Lemma upenc_autodetect_no_pass test : (forall p, In p up_patterns -> test p <> UpPass) -> upenc_autodetect test = 0.
Proof.
  intros H. unfold upenc_autodetect.
  assert (Hne : src_upenc_chain <> []) by (vm_compute; discriminate).
  destruct (upenc_chain_no_pass test src_upenc_chain) as [E|E];
    [intros p Hp; apply H, in_or_app; left; exact Hp|exact Hne|rewrite E; reflexivity|rewrite E].
  apply upenc_alts_no_pass. intros p Hp. apply H, in_or_app. right. exact Hp.
Qed.

(* a reply that differs from the test string is never accepted *)
Lemma upenctest_pass_eq s s' : length s' = length s ->
  upenctest_eval s (Some ([0; 0; 0; 0] ++ s' ++ [46])) = UpPass -> s' = s.
Proof.
  intros Hl H. unfold upenctest_eval in H.
  destruct (_ <? _)%nat; [discriminate|]. destruct (_ =? 65); [discriminate|]. destruct (_ =? 97); [discriminate|].
  destruct (list_eqb _ s) eqn:E; [|discriminate]. apply list_eqb_eq in E.
  change (skipn 4 ([0; 0; 0; 0] ++ s' ++ [46])) with (s' ++ [46]) in E.
  rewrite firstn_app, <- Hl, Nat.sub_diag, firstn_all in E. simpl in E. rewrite app_nil_r in E. exact E.
Qed.

(* a flipped letter is a changed character *)
Lemma flipped_letter_changes x ch c' : x_case x = CRandom -> is_letter ch = true -> rchar x true ch = Some c' -> c' <> ch.
Proof.
  intros Hc Hl.
  assert (S : forallb (fun x => implb (negb (det x)) (forallb (fun ch => implb (is_letter ch)
              match rchar x true ch with Some c' => negb (c' =? ch) | None => true end) (nrange 256))) all_xf = true)
    by (vm_compute; reflexivity).
  pose proof (forallb_all_xf _ S x) as H1. cbv beta in H1. unfold det in H1. rewrite Hc in H1. cbn [negb implb] in H1.
  pose proof (sweep1 _ _ H1 ch) as H2. cbv beta in H2.
  assert (L : ch < N.of_nat 256) by (unfold is_letter, is_upper, is_lower in Hl; lia). specialize (H2 L).
  rewrite Hl in H2. simpl in H2. intros E. rewrite E in H2. lia.
Qed.

(* "some tested letter was flipped": in every test query at least one letter of the test string
   is flipped by the relay *)
Definition flips_tested (o : nat -> bool) : Prop :=
  forall p, In p up_patterns -> exists j, (j < length p)%nat /\ is_letter (nth j p 0) = true /\ o j = true.

Lemma random_up_partial x o : x_case x = CRandom -> flips_tested o -> up_select_q x o = 0.
Proof.
  intros Hc Hf. unfold up_select_q. apply upenc_autodetect_no_pass. intros p Hp HP.
  unfold up_core in HP. destruct (rmap x o p) as [s'|] eqn:E; [|simpl in HP; discriminate]. simpl in HP.
  pose proof (rmap_from_length x o p 0%nat s' E) as Hl.
  apply (upenctest_pass_eq p s' Hl) in HP. subst s'.
  destruct (Hf p Hp) as [j [Hj [Hlet Ho]]].
  pose proof (rmap_from_nth x o p 0%nat p E j Hj) as Hn. simpl in Hn. rewrite Ho in Hn.
  exact (flipped_letter_changes x _ _ Hc Hlet Hn eq_refl).
Qed.

(* downstream: when every advanced-codec test reply is visibly altered, Base32 is kept *)
Lemma downenc_autodetect_all_fail ty test : (forall l, In l [83; 85; 86; 82] -> test l = false) -> downenc_autodetect ty test = 32.
Proof.
  intros H. unfold downenc_autodetect. destruct (_ || _); [reflexivity|].
  rewrite (H 83), (H 85) by (simpl; tauto). simpl. reflexivity.
Qed.

(* ==================================================================================== *)
(* fallback: every autodetect function is total and returns the default when its tests fail *)

Lemma upenc_autodetect_range test : In (upenc_autodetect test) [0; 1; 2; 3].
Proof.
  unfold upenc_autodetect.
  assert (A : forall ps, upenc_chain test ps = Some 0 \/ upenc_chain test ps = Some src_UPENC_CHAIN_RET \/ upenc_chain test ps = None).
  { induction ps as [|p ps IH]; simpl; [right; left; reflexivity|]. destruct (test p); [left; reflexivity|right; right; reflexivity|exact IH]. }
  assert (B : forall ps rets, upenc_alts test ps rets = 0 \/ In (upenc_alts test ps rets) rets).
  { induction ps as [|p ps IH]; intros rets; [left; reflexivity|]. destruct rets as [|r rets]; [left; reflexivity|]. simpl.
    destruct (test p); [left; reflexivity| |right; left; reflexivity].
    destruct (IH rets) as [E|E]; [left; exact E|right; right; exact E]. }
  destruct (A src_upenc_chain) as [E|[E|E]]; rewrite E.
  - simpl. tauto.
  - change src_UPENC_CHAIN_RET with 3. simpl. tauto.
  - destruct (B src_upenc_alt src_upenc_alt_ret) as [E2|E2]; [rewrite E2; simpl; tauto|].
    change src_upenc_alt_ret with [1; 2] in E2 at 2. simpl in E2. simpl. tauto.
Qed.

Lemma upenc_autodetect_all_fail test : (forall p, test p = UpFail) -> upenc_autodetect test = 0.
Proof. intros H. apply upenc_autodetect_no_pass. intros p _. rewrite H. discriminate. Qed.

Lemma downenc_autodetect_range ty test : In (downenc_autodetect ty test) [32; 82; 83; 85; 86].
Proof.
  unfold downenc_autodetect. destruct (_ || _); [simpl; tauto|].
  destruct (test 83); simpl.
  - destruct (test 86); simpl; [destruct ((ty =? T_TXT) && test 82)|]; simpl; tauto.
  - destruct (test 85); simpl; [|tauto].
    destruct (test 86); simpl; [destruct ((ty =? T_TXT) && test 82)|]; simpl; tauto.
Qed.

(* query type: with outcomes that do not depend on the time-out, the first working type in the
   preference order wins; failure only when no type works *)
Lemma ntypes_7 : ntypes = 7%nat.
Proof. reflexivity. Qed.

Lemma qtype_round_spec (t : nat -> bool) : forall fuel q highest, (ntypes < fuel + q)%nat ->
  let h := qtype_round t fuel q highest in
  ((q <= h)%nat /\ (h < highest)%nat /\ (h < ntypes)%nat /\ t h = true /\ (forall j, (q <= j < h)%nat -> t j = false)) \/
  (h = highest /\ forall j, (q <= j)%nat -> (j < highest)%nat -> (j < ntypes)%nat -> t j = false).
Proof.
  induction fuel as [|fuel IH]; intros q highest Hf; cbv zeta.
  - simpl. right. split; [reflexivity|]. intros j H1 H2 H3. lia.
  - simpl. destruct ((q <? highest)%nat && (q <? ntypes)%nat) eqn:E.
    + destruct (t q) eqn:Tq.
      * left. repeat split; try lia. exact Tq.
      * assert (Hf' : (ntypes < fuel + S q)%nat) by lia.
        specialize (IH (S q) highest Hf'). cbv zeta in IH. destruct IH as [[A [B [C [D F]]]]|[A B]].
        -- left. repeat split; try lia; [exact D|]. intros j Hj. destruct (Nat.eq_dec j q) as [->|NE]; [exact Tq|apply F; lia].
        -- right. split; [exact A|]. intros j H1 H2 H3. destruct (Nat.eq_dec j q) as [->|NE]; [exact Tq|apply B; lia].
    + right. split; [reflexivity|]. intros j H1 H2 H3. lia.
Qed.

Lemma qtype_rounds_S test k timeout highest :
  qtype_rounds test (S k) timeout highest =
  (if (qtype_round (fun q => test q timeout) (S ntypes) 0 highest =? 0)%nat
   then qtype_round (fun q => test q timeout) (S ntypes) 0 highest
   else qtype_rounds test k (S timeout) (qtype_round (fun q => test q timeout) (S ntypes) 0 highest)).
Proof. reflexivity. Qed.

Lemma qtype_rounds_stable (t : nat -> bool) : forall k timeout h,
  (h < ntypes)%nat -> (forall j, (j < h)%nat -> t j = false) ->
  qtype_rounds (fun q _ => t q) k timeout h = h.
Proof.
  induction k as [|k IH]; intros timeout h Hh Hno; [reflexivity|]. rewrite qtype_rounds_S.
  pose proof (qtype_round_spec (fun q => t q) (S ntypes) 0 h) as S. cbv zeta in S. cbv beta in S.
  destruct S as [[A [B [C [D F]]]]|[A B]]; [lia| |].
  - rewrite (Hno _ B) in D. discriminate.
  - rewrite A. destruct (h =? 0)%nat eqn:E; [reflexivity|]. apply IH; assumption.
Qed.

Lemma qtype_rounds_none (t : nat -> bool) : (forall j, (j < ntypes)%nat -> t j = false) ->
  forall k timeout, qtype_rounds (fun q _ => t q) k timeout 100 = 100%nat.
Proof.
  intros N100. induction k as [|k IHk]; intros timeout; [reflexivity|]. rewrite qtype_rounds_S.
  pose proof (qtype_round_spec (fun q => t q) (S ntypes) 0 100) as S2. cbv zeta in S2. cbv beta in S2.
  destruct S2 as [[A2 [B2 [C2 [D2 F2]]]]|[A2 B2]]; [lia| |].
  - rewrite (N100 _ C2) in D2. discriminate.
  - rewrite A2. change (100 =? 0)%nat with false. cbv iota. apply IHk.
Qed.

Lemma qtype_autodetect_spec (t : nat -> bool) :
  match qtype_autodetect (fun q _ => t q) with
  | Some h => (h < ntypes)%nat /\ t h = true /\ forall j, (j < h)%nat -> t j = false
  | None => forall j, (j < ntypes)%nat -> t j = false
  end.
Proof.
  unfold qtype_autodetect. change (N.to_nat src_QTYPE_TIMEOUT_MAX) with 3%nat.
  pose proof (qtype_round_spec (fun q => t q) (S ntypes) 0 100) as S. cbv zeta in S. cbv beta in S.
  destruct S as [[A [B [C [D F]]]]|[A B]]; [lia| |].
  - rewrite qtype_rounds_S.
    set (h1 := qtype_round (fun q => t q) (S ntypes) 0 100) in *.
    assert (R : (if (h1 =? 0)%nat then h1 else qtype_rounds (fun q _ => t q) 2 2 h1) = h1).
    { destruct (h1 =? 0)%nat; [reflexivity|]. apply qtype_rounds_stable; [exact C|]. intros j Hj. apply F. lia. }
    rewrite R. replace (h1 <? ntypes)%nat with true by lia. repeat split; [exact C|exact D|]. intros j Hj. apply F. lia.
  - assert (N100 : forall j, (j < ntypes)%nat -> t j = false).
    { intros j Hj. apply B; [lia| |exact Hj]. rewrite ntypes_7 in Hj. lia. }
    rewrite (qtype_rounds_none t N100). replace (100 <? ntypes)%nat with false by (rewrite ntypes_7; reflexivity). exact N100.
Qed.

(* the Base32 / binary check used by handshake_qtypetest passes through EVERY member, so a type
   works exactly when the relay serves it and the server's 'Y' handler serves the test codec *)
Lemma chk_bytes_ok : bytes_ok src_DOWNCODECCHECK1.
Proof. apply bytes_okb_ok. vm_compute. reflexivity. Qed.

Lemma qtype_test_spec r o idx : (idx < ntypes)%nat ->
  qtype_test r o idx = type_allowed r idx && negb (qtype_of idx =? T_PRIVATE).
Proof.
  intros Hi. unfold qtype_test. f_equal. rewrite ntypes_7 in Hi.
  assert (C : (idx = 0 \/ idx = 1 \/ idx = 2 \/ idx = 3 \/ idx = 4 \/ idx = 5 \/ idx = 6)%nat) by lia.
  assert (Ok : forall ty l, y_served ty l = true -> (l = 84 \/ is_binary_type ty = true) ->
               downenctest_eval (downcheck (r_a r) o ty l) = true).
  { intros ty l Hs Hl. unfold downcheck. rewrite Hs. destruct Hl as [->|Hb].
    - rewrite (down_deliver_T _ _ _ _ chk_bytes_ok). unfold downenctest_eval. apply list_eqb_refl.
    - unfold down_deliver. rewrite Hb. unfold downenctest_eval. apply list_eqb_refl. }
  destruct C as [->|[->|[->|[->|[->|[->| ->]]]]]].
  - apply Ok; [reflexivity|right; reflexivity].
  - (* PRIVATE: the server answers BADCODEC *) vm_compute. reflexivity.
  - apply Ok; [reflexivity|left; reflexivity].
  - apply Ok; [reflexivity|left; reflexivity].
  - apply Ok; [reflexivity|left; reflexivity].
  - apply Ok; [reflexivity|left; reflexivity].
  - apply Ok; [reflexivity|left; reflexivity].
Qed.

Lemma qtype_fallback r o :
  (exists idx, (idx < ntypes)%nat /\ type_allowed r idx = true /\ qtype_of idx <> T_PRIVATE) ->
  exists h, qtype_autodetect (fun q _ => qtype_test r o q) = Some h /\ (h < ntypes)%nat /\
            type_allowed r h = true /\ qtype_of h <> T_PRIVATE /\
            forall j, (j < h)%nat -> type_allowed r j = false \/ qtype_of j = T_PRIVATE.
Proof.
  intros [idx [Hi [Ha Hp]]].
  pose proof (qtype_autodetect_spec (qtype_test r o)) as S.
  destruct (qtype_autodetect _) as [h|].
  - destruct S as [Hh [Th Hno]]. exists h. split; [reflexivity|]. split; [exact Hh|].
    rewrite (qtype_test_spec r o h Hh) in Th. apply andb_prop in Th. destruct Th as [T1 T2].
    split; [exact T1|]. split; [intros E; rewrite E, N.eqb_refl in T2; discriminate|].
    intros j Hj. specialize (Hno j Hj). rewrite (qtype_test_spec r o j) in Hno by lia.
    destruct (type_allowed r j); [right|left; reflexivity]. simpl in Hno.
    apply negb_false_iff, N.eqb_eq in Hno. exact Hno.
  - exfalso. specialize (S idx Hi). rewrite (qtype_test_spec r o idx Hi), Ha in S. simpl in S.
    apply negb_false_iff, N.eqb_eq in S. contradiction.
Qed.

(* every family size limit leaves at least the classic 512 bytes *)
Lemma answer_limit_512 r : In (r_limit r) size_limits -> 512 <= answer_limit r.
Proof.
  unfold size_limits, answer_limit. intros [E|[E|[E|[E|[]]]]]; rewrite <- E; destruct (r_edns r); vm_compute; discriminate.
Qed.

(* ==================================================================================== *)
(* fragment size                                                                         *)

(* what fragsize_check verifies of an accepted probe reply *)
Lemma fragsize_check_ok inb F : fragsize_check inb F = POk ->
  N.of_nat (length inb) = F /\ nth 0 inb 0 * 256 + nth 1 inb 0 = F /\ nth 2 inb 0 = src_PROBE_BYTE2 /\
  seq_okb (skipn 3 inb) (nth 3 inb 0) = true.
Proof.
  unfold fragsize_check. destruct (_ && _); [discriminate|].
  destruct (_ =? F) eqn:E1; [|discriminate]. cbn [negb].
  destruct (N.of_nat (length inb) =? F) eqn:E2; [|discriminate]. cbn [negb].
  destruct (nth 2 inb 0 =? src_PROBE_BYTE2) eqn:E3; [|discriminate]. cbn [negb].
  destruct (seq_okb _ _) eqn:E4; [|destruct (src_PROBE_CORRUPT_FATAL =? 1); discriminate].
  intros _. repeat split; lia.
Qed.

(* invariant of the binary search: max_fragsize is 0, -1, or a size whose probe was accepted *)
Lemma autoprobe_loop_inv (probe : N -> probe_res) : forall fuel proposed range maxf,
  ((maxf <= 0)%Z \/ probe (Z.to_N maxf) = POk) ->
  let m := autoprobe_loop fuel probe proposed range maxf in
  (m <= 0)%Z \/ probe (Z.to_N m) = POk.
Proof.
  induction fuel as [|fuel IH]; intros proposed range maxf Hinv; cbv zeta; [exact Hinv|]. simpl.
  destruct (_ && _); [|exact Hinv].
  set (maxf' := match probe proposed with POk => Z.of_N proposed | PCorrupt => (-1)%Z | _ => maxf end).
  assert (Hinv' : (maxf' <= 0)%Z \/ probe (Z.to_N maxf') = POk).
  { unfold maxf'. destruct (probe proposed) eqn:E; try exact Hinv; [left; lia|].
    right. rewrite N2Z.id. exact E. }
  destruct (maxf' <? 0)%Z eqn:Eneg; [left; lia|].
  apply IH. exact Hinv'.
Qed.

Lemma autoprobe_sound (probe : N -> probe_res) frag : autoprobe probe = frag -> frag <> 0 ->
  probe (frag + src_PROBE_HDR) = POk.
Proof.
  unfold autoprobe. intros H Hnz.
  set (m := autoprobe_loop 16 probe src_PROBE_START src_PROBE_RANGE 0) in *.
  pose proof (autoprobe_loop_inv probe 16 src_PROBE_START src_PROBE_RANGE 0%Z (or_introl (Z.le_refl 0))) as Inv.
  cbv zeta in Inv. fold m in Inv.
  change src_PROBE_MIN_OK with 2 in H. change src_PROBE_HDR with 2 in *. change (Z.of_N 2) with 2%Z in H.
  destruct (m <=? 2)%Z eqn:E; [subst frag; contradiction|].
  destruct Inv as [Inv|Inv]; [lia|]. subst frag.
  replace (Z.to_N m - 2 + 2) with (Z.to_N m) by lia. exact Inv.
Qed.

(* a corrupted probe reply ends the search with a failure (since the fix of fragsize_check) *)
Lemma autoprobe_loop_corrupt f probe proposed range maxf :
  (0 <? range) && ((src_PROBE_RANGE_MIN <=? range) || (maxf <? Z.of_N src_PROBE_ENOUGH)%Z) = true ->
  probe proposed = PCorrupt -> autoprobe_loop (S f) probe proposed range maxf = (-1)%Z.
Proof. intros Hc Hp. cbn [autoprobe_loop]. rewrite Hc, Hp. reflexivity. Qed.

Lemma autoprobe_first_corrupt probe : probe src_PROBE_START = PCorrupt -> autoprobe probe = 0.
Proof.
  intros H. unfold autoprobe. change 16%nat with (S 15).
  rewrite (autoprobe_loop_corrupt 15 probe src_PROBE_START src_PROBE_RANGE 0%Z eq_refl H). reflexivity.
Qed.

Lemma autoprobe_never_ok probe : (forall F, probe F <> POk) -> autoprobe probe = 0.
Proof.
  intros H. destruct (N.eq_dec (autoprobe probe) 0) as [E|NE]; [exact E|].
  exfalso. exact (H _ (autoprobe_sound probe _ eq_refl NE)).
Qed.

(* the probe of Negotiate.v: an accepted probe means the answer passed the relay's size limit *)
Lemma probe_ok_size r o ty l qname v F : probe r o ty l qname v F = POk ->
  exists msg, answer_msg ty l qname (probe_payload F v) = Some msg /\ passes_size r (length msg) = true.
Proof.
  unfold probe. destruct (answer_msg ty l qname (probe_payload F v)) as [msg|]; [|discriminate].
  destruct (passes_size r (length msg)) eqn:E; [|discriminate]. intros _. exists msg. split; [reflexivity|exact E].
Qed.

Section FragSound.
  (* byte size of the server's answer as a function of record type, downstream codec letter,
     length of the question name and number of payload bytes *)
  Variable answer_size : N -> N -> nat -> nat -> nat.
  (* C09_size_monotone (coq/DnsMsgProofs.v, property C09): the emitted answer's byte size is
     non-decreasing in the payload length and in the question-name length *)
  Hypothesis C09_size_monotone : forall ty e n n' len len',
    (n <= n')%nat -> (len <= len')%nat -> (answer_size ty e n len <= answer_size ty e n' len')%nat.

  Lemma frag_sound (r : relay) (probe : N -> probe_res) ty e nprobe :
    (forall F, probe F = POk -> passes_size r (answer_size ty e nprobe (N.to_nat F)) = true) ->
    forall frag, autoprobe probe = frag -> frag <> 0 ->
      probe (frag + src_PROBE_HDR) = POk /\
      forall n len, (n <= nprobe)%nat -> (len <= N.to_nat frag)%nat ->
        passes_size r (answer_size ty e n (len + N.to_nat src_PROBE_HDR)) = true.
  Proof.
    intros Hp frag Hf Hnz. pose proof (autoprobe_sound probe frag Hf Hnz) as Ok. split; [exact Ok|].
    intros n len Hn Hl. specialize (Hp _ Ok). unfold passes_size in *.
    pose proof (C09_size_monotone ty e n nprobe (len + N.to_nat src_PROBE_HDR) (N.to_nat (frag + src_PROBE_HDR)) Hn) as M.
    assert (L : (len + N.to_nat src_PROBE_HDR <= N.to_nat (frag + src_PROBE_HDR))%nat) by lia.
    specialize (M L). lia.
  Qed.
End FragSound.

(* the NULL / PRIVATE instance, proved here: header 12, question n + 2 + 4, one record 12 + len *)
Definition null_answer_size (n len : nat) : nat := (12 + (n + 2) + 4 + 12 + len)%nat.

Lemma null_size_monotone n n' len len' : (n <= n')%nat -> (len <= len')%nat ->
  (null_answer_size n len <= null_answer_size n' len')%nat.
Proof. unfold null_answer_size. lia. Qed.

Definition demo_qname (k : nat) : list N := repeat 97 k ++ [46; 116; 46; 99; 99].

Lemma null_size_matches_model :
  forallb (fun k => forallb (fun len =>
     match answer_msg T_NULL 32 (demo_qname k) (repeat 7 len) with
     | Some msg => (length msg =? null_answer_size (length (demo_qname k)) len)%nat
     | None => false
     end) [2; 3; 50; 200; 1200]%nat) [1; 20; 63]%nat = true.
Proof. vm_compute. reflexivity. Qed.

(* ==================================================================================== *)
(* the forced -O Raw / 8-bit-reject members: the handshake completes with fragment size 2 although
   no answer carrying a byte >= 0x80 gets through (drops cannot be told from a size limit) *)

Definition td_example : list N := [116; 46; 101; 120; 97; 109; 112; 108; 101; 46; 99; 111; 109].
Definition xf_reject : xf := {| x_case := CKeep; x_high := HReject; x_punct := PKeep |}.
Definition relay_reject : relay :=
  {| r_q := xf_id; r_a := xf_reject; r_types := 124; r_limit := 512; r_edns := true; r_rawok := false |}.
Definition params_forced_raw : params :=
  {| p_relay := relay_reject; p_qtype := 0; p_downenc := 82; p_rawmode := false; p_autofrag := true;
     p_fragsize := 0; p_maxlen := 255; p_topdomain := td_example |}.

Lemma forced_raw_reject_witness :
  let o := negotiate params_forced_raw no_flip no_flip 1 in
  o_rv o = 0 /\ o_qtype o = T_TXT /\ o_down o = 82 /\ o_frag o = 2 /\
  down_deliver xf_reject no_flip T_TXT 82 [200] = None.
Proof. vm_compute. repeat split; reflexivity. Qed.

(* the default downstream codec (no switch: the server keeps 'T') works through every member *)
Lemma down_deliver_default x o ty p : bytes_ok p -> down_deliver x o ty 32 p = Some p.
Proof.
  intros Hp. unfold down_deliver. destruct (is_binary_type ty); [reflexivity|].
  replace (32 =? 82) with false by reflexivity. rewrite andb_false_r.
  change (text_codec 32) with b32.
  destruct (b32_survives x o p (enclen (cbits b32) (length p)) (length p) Hp) as [t [Et Dt]]; [apply Nat.le_refl..|].
  rewrite Et, Dt. reflexivity.
Qed.

Lemma random_down_partial x o ty :
  (forall l, In l [83; 85; 86; 82] -> downenctest_eval (downcheck x o ty l) = false) ->
  down_select x o ty = 32 /\ forall p o', bytes_ok p -> down_deliver x o' ty 32 p = Some p.
Proof.
  intros H. split.
  - unfold down_select. apply downenc_autodetect_all_fail. exact H.
  - intros p o' Hp. apply down_deliver_default, Hp.
Qed.

(* source constants the model and the theorems depend on *)
Lemma source_constants :
  src_PROBE_START = 768 /\ src_PROBE_RANGE = 768 /\ src_PROBE_SHIFT = 1 /\ src_PROBE_OK_UP = 1 /\ src_PROBE_FAIL_UP = 0 /\
  src_PROBE_RANGE_MIN = 8 /\ src_PROBE_ENOUGH = 300 /\ src_PROBE_MIN_OK = 2 /\ src_PROBE_HDR = 2 /\
  src_PROBE_BYTE2 = src_SRV_PROBE_BYTE2 /\ src_PROBE_STEP = src_SRV_PROBE_STEP /\ src_PROBE_CORRUPT_FATAL = 1 /\
  src_qtype_order = [T_NULL; T_PRIVATE; T_TXT; T_SRV; T_MX; T_CNAME; T_A] /\ src_QTYPE_TIMEOUT_MAX = 3 /\
  src_y_raw_types = [T_NULL; T_TXT] /\ src_y_text_types = [T_TXT; T_SRV; T_MX; T_CNAME; T_A].
Proof. repeat split; reflexivity. Qed.

(* the binary search on a path that passes answers carrying up to 1200 payload bytes:
   768 ok, 1152 ok, 1344 no, 1248 no, 1200 ok, 1224 no, 1212 no -> 1200 - 2 *)
Lemma autoprobe_example :
  autoprobe (fun F => if F <=? 1200 then POk else PNoAnswer) = 1198 /\
  autoprobe (fun F => if F <=? 200 then POk else PNoAnswer) = 198 /\
  autoprobe (fun F => if F <=? 100 then POk else PNoAnswer) = 98 /\
  autoprobe (fun F => if F <=? 400 then (if F <=? 300 then POk else PCorrupt) else PNoAnswer) = 0 /\
  autoprobe (fun _ => PNoAnswer) = 0.
Proof. repeat split; vm_compute; reflexivity. Qed.
