(* ServerSafetyStep2.v -- C05, part 4: handle_null_request (every command letter), tunnel_dns,
   tunnel_tun, the raw-mode handlers, the sweep and recv_datagram preserve the invariant and emit
   only datagrams that fit the C buffers; the decoded query name is at most 255 characters and
   query_datalen never exceeds it (so the copy into in[512] is in bounds). *)
From Coq Require Import List NArith ZArith Arith Bool Lia ZifyBool ZifyNat ZifyN.
From RecordUpdate Require Import RecordUpdate.
From Iodine Require Import Generated.SrcConsts Base Codec Hostname DnsName DnsMsg Domain Server
  ServerSafetyProofs ServerSafetyOps ServerSafetyStep.
Import ListNotations.
Local Open Scope N_scope.

Ltac Zify.zify_post_hook ::= Z.div_mod_to_equations.

(* ---- lengths of the small replies -------------------------------------------------------------- *)

Lemma dec_digits_len fuel : forall v acc, (length (dec_digits fuel v acc) <= fuel + length acc)%nat.
Proof.
  induction fuel as [|f IH]; intros v acc; [cbn; lia|].
  cbn [dec_digits]. cbv zeta. destruct (v / 10 =? 0); [cbn [length]; lia|].
  etransitivity; [apply IH|]. cbn [length]. lia.
Qed.

Lemma dec_of_len v : (length (dec_of v) <= 20)%nat.
Proof. unfold dec_of. etransitivity; [apply dec_digits_len|]. cbn. lia. Qed.

Lemma ntoa_len ip : (length (ntoa ip) <= 83)%nat.
Proof.
  unfold ntoa. rewrite !app_length. cbn [length].
  pose proof (dec_of_len (ip mod 256)). pose proof (dec_of_len ((ip / 256) mod 256)).
  pose proof (dec_of_len ((ip / 65536) mod 256)). pose proof (dec_of_len ((ip / 16777216) mod 256)). lia.
Qed.

Lemma dec_int_len v : (length (dec_int v) <= 21)%nat.
Proof.
  unfold dec_int. destruct (v <? 2147483648); [pose proof (dec_of_len v); lia|].
  cbn [length]. pose proof (dec_of_len (4294967296 - v)). lia.
Qed.

Lemma chk_len : (length src_DOWNCODECCHECK1 <= K4096)%nat.
Proof. apply Nat.leb_le. vm_compute. reflexivity. Qed.

Lemma codec_name_len i : (length (codec_name i) <= 7)%nat.
Proof. unfold codec_name. repeat (destruct (_ =? _)); cbn; lia. Qed.

Lemma probe_reply_len req v0 : (length (probe_reply req v0) <= N.to_nat req)%nat.
Proof. unfold probe_reply. rewrite firstn_length. lia. Qed.

Ltac ans := apply res_ok_same; [assumption|apply mk_answer_ok; [assumption|try small_len]].

Lemma cstr_len s : (length (cstr s) <= length s)%nat.
Proof. induction s as [|a s IH]; cbn; [lia|]. destruct (a =? 0); cbn; lia. Qed.

(* the name handed to tunnel_dns fits struct query.name[256] (255 chars + NUL) *)
Lemma dns_decode_query_name buf plen q : dq_q (dns_decode_query buf plen) = Some q -> (length (q_name q) <= 255)%nat.
Proof.
  unfold dns_decode_query. cbv zeta.
  repeat (match goal with |- dq_q (if ?c then _ else _) = _ -> _ => destruct c; [discriminate|] end).
  cbn [dq_q]. intros E. inversion E; subst. cbn [q_name].
  etransitivity; [apply cstr_len|]. rewrite firstn_length. unfold name_size. lia.
Qed.

Section Oracles.
Variable login : list N -> N -> list N.
Variable unz : list N -> option (list N).
Hypothesis unz_bound : forall b p, unz b = Some p -> (length p <= K64)%nat.

Lemma handle_null_request_ok c st now rnd q dl : state_ok st -> hq_ok q ->
  res_ok st (handle_null_request login unz c st now rnd q dl).
Proof.
  intros H Hq. unfold handle_null_request.
  destruct (dl <? 2)%nat; [apply res_ok_same; [assumption|constructor]|].
  cbv zeta.
  set (inb := firstn dl (h_name q)).
  assert (Hinb : (length inb <= 255)%nat) by (subst inb; rewrite firstn_length; unfold hq_ok in Hq; lia).
  clearbody inb.
  set (unpacked := unpack_data b32 (N.to_nat 65536) (skipn 1 inb) (dl - 1)). clearbody unpacked.
  set (c0 := chr inb 0). clearbody c0.
  destruct (is_letter c0 118).
  { (* V *)
    destruct (_ =? src_PROTOCOL_VERSION).
    - destruct (find_available_from st now 0) as [i|].
      + apply res_ok_upd; [assumption| |apply mk_answer_ok; [assumption|unfold be32b; small_len]].
        intros u Hu. apply reset_session_ok; [apply claim_ok, Hu|assumption|lia].
      + ans. unfold be32b; small_len.
    - ans. unfold be32b; small_len. }
  destruct (is_letter c0 108).
  { (* L *)
    destruct (length unpacked <? 17)%nat; [ans|].
    destruct (check_user_and_ip _ _ _ _ _); [ans|].
    set (i := Z.to_nat _). clearbody i.
    set (st1 := upd st i (fun u => u <| u_last := now |>)).
    assert (Hst1 : state_ok st1 /\ length st1 = length st).
    { subst st1. split; [|apply upd_length]. apply upd_ok; [assumption|]. intros u Hu. uok Hu. }
    destruct Hst1 as [Hst1 HL1]. clearbody st1.
    destruct (_ && _).
    - repeat split; cbn [fst snd]; [apply upd_ok; [assumption|]; intros u Hu; uok Hu|rewrite upd_length; assumption|].
      apply mk_answer_ok; [assumption|]. rewrite !app_length. cbn [length].
      pose proof (ntoa_len (c_my_ip c)). pose proof (ntoa_len (u_tun_ip (getu st1 i))).
      pose proof (dec_int_len (c_mtu c)). pose proof (dec_int_len (c_netmask c)). unfold K4096. lia.
    - repeat split; cbn [fst snd]; [assumption|assumption|apply mk_answer_ok; [assumption|small_len]]. }
  destruct (is_letter c0 105).
  { (* I *)
    destruct (check_auth _ _ _ _ _); [ans|]. ans.
    cbn [length]. destruct (a_fam (h_from q) =? AF_INET).
    - destruct (c_ns_ip c); [rewrite firstn_length; unfold K4096; lia|].
      destruct (h_dest q); [rewrite firstn_length; unfold K4096; lia|small_len].
    - rewrite repeat_length. unfold K4096. lia. }
  destruct (is_letter c0 122); [ans; unfold K4096; lia|].
  destruct (is_letter c0 115).
  { (* S *)
    destruct (dl <? 3)%nat; [ans|]. destruct (check_auth_options _ _ _ _ _); [ans|].
    assert (Hsw : forall e, res_ok st (upd st (Z.to_nat (Z.of_N (b32_8to5 (chr inb 1)))) (fun u => u <| u_enc := e |>),
                    [mk_answer q (codec_name e) (u_downenc (getu st (Z.to_nat (Z.of_N (b32_8to5 (chr inb 1))))))])).
    { intros e. apply res_ok_upd; [assumption|intros u Hu; uok Hu|].
      apply mk_answer_ok; [assumption|]. pose proof (codec_name_len e). unfold K4096. lia. }
    repeat (destruct (b32_8to5 (chr inb 2) =? _); [apply Hsw|]). ans. }
  destruct (is_letter c0 111).
  { (* O *)
    destruct (dl <? 3)%nat; [ans|]. destruct (check_auth_options _ _ _ _ _); [ans|].
    assert (Hsd : forall l nm, (length nm <= 9)%nat ->
              res_ok st (upd st (Z.to_nat (Z.of_N (b32_8to5 (chr inb 1)))) (fun u => u <| u_downenc := l |>), [mk_answer q nm l])).
    { intros l nm Hnm. apply res_ok_upd; [assumption|intros u Hu; uok Hu|].
      apply mk_answer_ok; [assumption|unfold K4096; lia]. }
    do 5 (destruct (is_letter (chr inb 2) _);
          [apply Hsd; first [ (etransitivity; [apply codec_name_len|lia]) | (cbn [length]; lia) ]|]).
    do 2 (destruct (is_letter (chr inb 2) _);
          [apply res_ok_upd; [assumption|intros u Hu; uok Hu|apply mk_answer_ok; [assumption|small_len]]|]).
    ans. }
  destruct (is_letter c0 121).
  { (* Y *)
    destruct (dl <? 6)%nat; [ans|]. destruct (negb _); [ans|].
    repeat (destruct (_ && _); [ans; apply chk_len|]). ans. }
  destruct (is_letter c0 114).
  { (* R *)
    destruct (dl <? 16)%nat; [ans|]. destruct (check_auth _ _ _ _ _); [ans|].
    set (req := _ + _ + _). clearbody req.
    destruct ((req <? 2) || (2047 <? req)) eqn:E; [ans|]. ans.
    pose proof (probe_reply_len req (rnd mod 256)). unfold K4096. lia. }
  destruct (is_letter c0 110).
  { (* N *)
    destruct (length unpacked <? 3)%nat; [ans|]. destruct (check_auth_options _ _ _ _ _); [ans|].
    destruct (_ <? 2); [ans|].
    apply res_ok_upd; [assumption| |apply mk_answer_ok; [assumption|small_len]].
    intros u Hu. uok Hu; [rewrite map_length; assumption|apply invalidate_cache_ok; assumption]. }
  destruct (is_letter c0 112).
  { (* P *)
    destruct (h_id q =? 0); [apply res_ok_same; [assumption|constructor]|].
    destruct (length unpacked <? 4)%nat; [apply res_ok_same; [assumption|constructor]|].
    apply handle_ping_ok; assumption. }
  destruct (_ || _); [|apply res_ok_same; [assumption|constructor]].
  destruct (dl <? 6)%nat; [apply res_ok_same; [assumption|constructor]|].
  destruct (h_id q =? 0); [apply res_ok_same; [assumption|constructor]|].
  apply (handle_data_ok unz unz_bound); assumption.
Qed.

(* ---- tunnel_dns ------------------------------------------------------------------------------------ *)

Lemma checklen_true buflen sofar x : checklen buflen sofar x = true -> (x + length sofar <= buflen)%nat.
Proof. unfold checklen. intros H. apply Nat.leb_le, H. Qed.

Ltac chk H :=
  repeat match type of H with
         | (if negb ?c then None else _) = Some _ =>
             let E := fresh "E" in destruct c eqn:E; cbn [negb] in H; [|discriminate H]
         | (if ?c then None else _) = Some _ =>
             let E := fresh "E" in destruct c eqn:E; [discriminate H|]
         end.

Lemma some_inj {A} (x y : A) : Some x = Some y -> x = y.
Proof. congruence. Qed.

Lemma a_response_len buflen q dest b : dns_encode_a_response buflen q dest = Some b -> (length b <= buflen)%nat.
Proof.
  unfold dns_encode_a_response. destruct dest as [ip|]; [|discriminate]. cbv zeta. intros H. chk H.
  apply some_inj in H; subst b. apply checklen_true in E2. rewrite app_length, firstn_length. lia.
Qed.

Lemma ns_response_len buflen q td dest b : dns_encode_ns_response buflen q td dest = Some b -> (length b <= buflen)%nat.
Proof.
  unfold dns_encode_ns_response. cbv zeta. intros H. chk H.
  destruct dest as [ip|].
  - chk H. apply some_inj in H; subst b. apply checklen_true in E8. rewrite app_length, firstn_length. lia.
  - apply some_inj in H; subst b. apply checklen_true in E6. match type of E6 with (_ + length ?X <= _)%nat => set (XX := X) in * end. clearbody XX. rewrite app_length. unfold be16. cbn [length app]. lia.
Qed.

Lemma aux_answer_len q dl dest ns b : aux_answer q dl dest ns = Some b -> (length b <= K64)%nat.
Proof.
  unfold aux_answer. cbv zeta. intros H.
  destruct (_ && _) in H; [apply a_response_len in H; exact H|].
  destruct (_ && _) in H; [apply a_response_len in H; exact H|].
  destruct (_ =? _) in H; [apply ns_response_len in H; exact H|discriminate].
Qed.

Lemma tunnel_dns_ok c st now rnd q : state_ok st -> hq_ok q -> res_ok st (tunnel_dns login unz c st now rnd q).
Proof.
  intros H Hq. unfold tunnel_dns.
  destruct (query_datalen _ _) as [dl|].
  - cbv zeta. destruct (aux_answer _ _ _ _) as [b|] eqn:Ea.
    + apply res_ok_same; [assumption|]. constructor; [|constructor]. cbn. eapply aux_answer_len, Ea.
    + destruct (_ || _); [apply res_ok_same; [assumption|constructor]|].
      destruct (_ || _); [|apply res_ok_same; [assumption|constructor]].
      apply handle_null_request_ok; assumption.
  - destruct (c_bind c); apply res_ok_same; try assumption; [|constructor].
    constructor; [exact Hq|constructor].
Qed.

(* ---- raw mode ----------------------------------------------------------------------------------------- *)

Lemma hq_from_ok from : hq_ok (hq0 <| h_from := from |>).
Proof. unfold hq_ok. cbn. lia. Qed.

Lemma handle_raw_login_ok c st now payload q userid : state_ok st -> hq_ok q ->
  res_ok st (handle_raw_login login c st now payload q userid).
Proof.
  intros H Hq. unfold handle_raw_login. cbv zeta.
  repeat (match goal with |- res_ok _ (if ?c then (st, []) else _) => destruct c; [apply res_ok_same; [assumption|constructor]|] end).
  destruct (list_eqb _ _); [|apply res_ok_same; [assumption|constructor]].
  apply res_ok_upd; [assumption|intros u Hu; uok Hu|].
  constructor; [|constructor]. cbn. apply raw_frame_len.
Qed.

Lemma handle_raw_ping_ok c st now q userid : state_ok st -> hq_ok q ->
  res_ok st (handle_raw_ping c st now q userid).
Proof.
  intros H Hq. unfold handle_raw_ping.
  repeat (match goal with |- res_ok _ (if ?c then (st, []) else _) => destruct c; [apply res_ok_same; [assumption|constructor]|] end).
  apply res_ok_upd; [assumption|intros u Hu; uok Hu|].
  constructor; [|constructor]. cbn. apply raw_frame_len.
Qed.

Lemma handle_raw_data_ok c st now payload q userid : state_ok st -> hq_ok q -> (length payload <= K64)%nat ->
  res_ok st (handle_raw_data unz c st now payload q userid).
Proof.
  intros H Hq Hp. unfold handle_raw_data. cbv zeta.
  repeat (match goal with |- res_ok _ (if ?c then (st, []) else _) => destruct c; [apply res_ok_same; [assumption|constructor]|] end).
  set (st1 := upd st userid _).
  assert (Hst1 : sok (Qw userid) st1 /\ length st1 = length st).
  { subst st1. split; [|apply upd_length]. apply sok_upd; [apply sok_weaken, H|].
    unfold Qw. rewrite Nat.eqb_refl. intros u Hu. uok Hu. destruct I_in. constructor; cbn; assumption. }
  destruct Hst1 as [Hst1 HL1]. clearbody st1.
  destruct (handle_full_packet_okw unz unz_bound st1 now userid Hst1) as (Ha & Hb & Hc).
  split; [|split]; [assumption|congruence|assumption].
Qed.

Lemma raw_decode_ok c st now packet from r : state_ok st -> (length packet <= K64)%nat ->
  raw_decode login unz c st now packet from = Some r -> res_ok st r.
Proof.
  intros H Hp. unfold raw_decode. cbv zeta.
  destruct (_ <? 4)%nat; [discriminate|]. destruct (negb _); [discriminate|].
  intros E. inversion E; subst; clear E.
  pose proof (hq_from_ok from) as Hq.
  destruct (_ =? src_RAW_HDR_CMD_LOGIN); [apply handle_raw_login_ok; assumption|].
  destruct (_ =? src_RAW_HDR_CMD_DATA).
  { apply handle_raw_data_ok; [assumption|assumption|]. rewrite skipn_length. lia. }
  destruct (_ =? src_RAW_HDR_CMD_PING); [apply handle_raw_ping_ok; assumption|].
  apply res_ok_same; [assumption|constructor].
Qed.

(* ---- tunnel_tun, sweep ----------------------------------------------------------------------------------- *)

Lemma sweep_clear_ok st now : state_ok st /\ True -> state_ok (sweep_clear st now) /\ length (sweep_clear st now) = length st.
Proof.
  intros [H _]. unfold sweep_clear. split; [|apply map_length].
  unfold state_ok in *. rewrite Forall_forall in *. intros u Hu. apply in_map_iff in Hu.
  destruct Hu as [u0 [<- Hu0]]. specialize (H u0 Hu0). destruct (_ && _); [uok H|exact H].
Qed.

Lemma sweep_send_ok n : forall i st now acc, state_ok st -> outs_ok acc ->
  res_ok st (sweep_send n i st now acc).
Proof.
  induction n as [|n IH]; intros i st now acc H Ha; [apply res_ok_same; assumption|].
  cbn [sweep_send]. cbv zeta.
  destruct (_ && _).
  - pose proof (scd_ok (getu st i) WQS (getu_ok st i H)) as [Hx Ho].
    destruct (send_chunk_or_dataless (getu st i) WQS) as [[u' o] b]. cbn [fst snd] in *.
    destruct (IH (S i) (upd st i (fun _ => u')) now (acc ++ o)) as (A & B & C);
      [apply upd_ok_const; assumption|apply outs_ok_app; assumption|].
    rewrite upd_length in B. split; [|split]; assumption.
  - apply IH; assumption.
Qed.

(* ---- recv_datagram ------------------------------------------------------------------------------------------ *)

Lemma recv_datagram_ok c st now rnd from dest packet : state_ok st -> (length packet <= K64)%nat ->
  res_ok st (recv_datagram login unz c st now rnd from dest packet).
Proof.
  intros H Hp. unfold recv_datagram. destruct packet as [|b0 rest] eqn:Epk; [apply res_ok_same; [assumption|constructor]|].
  rewrite <- Epk in *. clear Epk b0 rest.
  destruct (raw_decode _ _ _ _ _ _ _) as [r|] eqn:Er; [eapply raw_decode_ok; eassumption|].
  cbv zeta. destruct (dq_q _) as [q|] eqn:Eq; [|apply res_ok_same; [assumption|constructor]].
  destruct (0 <? _)%Z; [|apply res_ok_same; [assumption|constructor]].
  apply tunnel_dns_ok; [assumption|]. unfold hq_ok. cbn. eapply dns_decode_query_name, Eq.
Qed.

End Oracles.

Section Tun.
Variable zc : list N -> list N.

Lemma tunnel_tun_ok st now inpkt : state_ok st -> res_ok st (tunnel_tun zc st now inpkt).
Proof.
  intros H. unfold tunnel_tun. destruct inpkt as [|b0 rest]; [apply res_ok_same; [assumption|constructor]|].
  destruct (_ <? 24)%nat; [apply res_ok_same; [assumption|constructor]|].
  destruct (find_user_by_ip _ _ _) as [t|]; [|apply res_ok_same; [assumption|constructor]].
  cbv zeta. destruct (u_conn (getu st t)).
  - apply res_ok_same; [assumption|]. constructor; [|constructor]. cbn. apply raw_frame_len.
  - destruct (0 <? p_len (u_out (getu st t))).
    + apply res_ok_upd; [assumption| |constructor]. intros u Hu. apply save_to_outpacketq_ok, Hu.
    + destruct (send_held_ok (upd st t (fun x => start_new_outpacket x (zc (b0 :: rest)))) t) as (Ha & Hb & Hc).
      { apply upd_ok; [assumption|]. intros u Hu. apply start_new_outpacket_ok, Hu. }
      rewrite upd_length in Hb. split; [|split]; assumption.
Qed.

End Tun.
(* EOF *)
