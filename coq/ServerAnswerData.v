(* ServerAnswerData.v -- C14: the data handler (upstream fragment), phase by phase. *)
From Coq Require Import List NArith ZArith Arith Bool Lia Permutation.
From RecordUpdate Require Import RecordUpdate.
From Iodine Require Import Generated.SrcConsts Base Codec Hostname Server ServerAnswerLedger ServerAnswerChunk
  ServerAnswerState ServerAnswerPing.
Import ListNotations.
Local Open Scope N_scope.

Section WithOracles.
Set Default Proof Using "Type".
Variable login : list N -> N -> list N.
Variable unz : list N -> option (list N).
Variable qi : option inst.

(* ---- phases of the data handler after the upstream fragment has been taken in --------------- *)

(* "If there is a query that must be returned real soon, do it." *)
Definition d_phase1 (u4 : suser) : suser * list out * bool :=
  if negb (h_id (u_qs u4) =? 0)
  then let '(x, o, again) := send_chunk_or_dataless u4 WQS in (x, o, negb again)
  else (u4, [], false).

(* "If we already have an earlier query waiting, we need to get rid of it to store the new query":
   answer it, or (lazy mode, nothing else to do) move it to q_sendrealsoon *)
Definition d_phase2 (ok lastfrag : bool) (u5 : suser) (didsend1 : bool) : suser * list out * bool :=
  if negb (h_id (u_q u5) =? 0) then
    if ((0 <? p_len (u_out u5)) && negb didsend1) || (ok && negb lastfrag && negb didsend1)
       || (negb ok && negb didsend1) || negb (u_lazy u5)
    then let '(x, o, again) := send_chunk_or_dataless u5 WQ in (x, o, negb again)
    else (u5 <| u_qs := u_q u5 |> <| u_qs_new := true |> <| u_q := (u_q u5) <| h_id := 0 |> |>, [], true)
  else (u5, [], didsend1).

(* "If we still need to ack this upstream frag, do it": answer the new query, or move it to
   q_sendrealsoon (last fragment), or keep it *)
Definition d_phase3 (ok lastfrag : bool) (u7 : suser) (didsend2 : bool) : suser * list out :=
  if (0 <? p_len (u_out u7)) && negb didsend2
  then let '(x, o, _) := send_chunk_or_dataless u7 WQ in (x, o)
  else if negb didsend2 || negb (u_lazy u7) then
    if ok && lastfrag
    then (u7 <| u_qs := u_q u7 |> <| u_qs_new := true |> <| u_q := (u_q u7) <| h_id := 0 |> |>, [])
    else let '(x, o, _) := send_chunk_or_dataless u7 WQ in (x, o)
  else (u7, []).

Definition d_users (u4 : suser) (now : N) (q : hq) (ok lastfrag : bool) : suser * list out :=
  let '(u5, o1, didsend1) := d_phase1 u4 in
  let '(u6, o2, didsend2) := d_phase2 ok lastfrag u5 didsend1 in
  let u7 := u6 <| u_q := q |> <| u_last := now |> in
  let '(u8, o3) := d_phase3 ok lastfrag u7 didsend2 in
  (u8, o1 ++ o2 ++ o3).

Definition data_code (inb : list N) : N :=
  let c0 := chr inb 0 in
  if (48 <=? c0) && (c0 <=? 57) then c0 - 48
  else if (97 <=? c0) && (c0 <=? 102) then c0 - 87 else c0 - 55.

(* the early exits of the data handler *)
Definition data_guard (c : cfg) (st : sstate) (now : N) (q : hq) (inb : list N) : option (sstate * list out) :=
  let code := data_code inb in
  if check_auth c st now (Z.of_N code) (h_from q) then Some (st, [mk_answer q s_BADIP 84]) else
  let i := N.to_nat code in
  let u := getu st i in
  match answer_from_dnscache u (h_name q) (h_type q) with
  | Some e => Some (st, [mk_answer q (firstn (N.to_nat (ce_len e)) (ce_answer e)) (u_downenc u)])
  | None =>
  if qmem_hit (u_datamem u) (lower4 (h_name q)) (h_type q) then Some (st, [mk_answer q [120] 84]) else
  if dup_pending u q WQ then Some (upd st i (fun x => remember_dup x q WQ), []) else
  if dup_pending u q WQS then Some (upd st i (fun x => remember_dup x q WQS), []) else None
  end.

(* downstream ack + upstream fragment bookkeeping: (session, upstream_ok, lastfrag) *)
Definition data_pre (u : suser) (inb : list N) (domain_len : nat) : suser * bool * bool :=
  let d1 := b32_8to5 (chr inb 1) in
  let d2 := b32_8to5 (chr inb 2) in
  let d3 := b32_8to5 (chr inb 3) in
  let up_seq := (d1 / 4) mod 8 in
  let up_frag := (d1 mod 4) * 4 + (d2 / 8) mod 4 in
  let dn_seq := d2 mod 8 in
  let dn_frag := d3 / 2 in
  let lastfrag := (d3 mod 2) =? 1 in
  let u1 := process_downstream_ack u (Z.of_N dn_seq) (Z.of_N dn_frag) in
  let ip := u_in u1 in
  let '(u2, upstream_ok) :=
     if (up_seq =? p_seqno ip) && (Z.of_N up_frag <=? p_fragment ip)%Z then (u1, false)
     else if negb (up_seq =? p_seqno ip) && recent_seqno (p_seqno ip) up_seq then (u1, false)
     else if negb (up_seq =? p_seqno ip)
          then (u1 <| u_in := ip <| p_seqno := up_seq |> <| p_fragment := Z.of_N up_frag |> <| p_len := 0 |> <| p_offset := 0 |> |>, true)
          else (u1 <| u_in := ip <| p_fragment := Z.of_N up_frag |> |>, true) in
  let u3 :=
     if upstream_ok then
       let dec := unpack_data (codec_of_id (u_enc u2)) (N.to_nat 65536) (skipn 5 inb) (domain_len - 5) in
       let ip2 := u_in u2 in
       let room := N.to_nat (65536 - p_offset ip2) in
       let piece := firstn room dec in
       u2 <| u_in := ip2 <| p_data := firstn (N.to_nat (p_offset ip2)) (p_data ip2 ++ repeat 0 (N.to_nat (p_offset ip2))) ++ piece |>
                        <| p_len := p_len ip2 + N.of_nat (length piece) |>
                        <| p_offset := p_offset ip2 + N.of_nat (length piece) |> |>
     else u2 in
  (u3, upstream_ok, lastfrag).

Definition data_tail (st : sstate) (now : N) (q : hq) (i : nat) (inb : list N) (domain_len : nat) : sstate * list out :=
  let '(u3, ok, lastfrag) := data_pre (getu st i) inb domain_len in
  let st1 := upd st i (fun _ => u3) in
  let '(st2, o0) := if ok && lastfrag then handle_full_packet unz st1 now i else (st1, []) in
  let '(u8, o) := d_users (getu st2 i) now q ok lastfrag in
  (upd st2 i (fun _ => u8), o0 ++ o).

Lemma handle_data_eq c st now q inb domain_len :
  handle_data unz c st now q inb domain_len =
  match data_guard c st now q inb with
  | Some r => r
  | None => data_tail st now q (N.to_nat (data_code inb)) inb domain_len
  end.
Proof.
  unfold handle_data, data_guard. fold (data_code inb). cbv zeta.
  destruct (check_auth _ _ _ _ _); [reflexivity|].
  destruct (answer_from_dnscache _ _ _); [reflexivity|].
  destruct (qmem_hit _ _ _); [reflexivity|].
  destruct (dup_pending _ q WQ); [reflexivity|].
  destruct (dup_pending _ q WQS); [reflexivity|].
  unfold data_tail, data_pre. cbv zeta.
  match goal with |- context[let '(u2, upstream_ok) := ?X in _] => destruct X as [u2 ok] end.
  match goal with |- context[let '(st2, o0) := ?X in _] => destruct X as [st2 o0] end.
  unfold d_users.
  fold (d_phase1 (getu st2 (N.to_nat (data_code inb)))).
  destruct (d_phase1 _) as [[u5 o1] ds1].
  match goal with |- context[b32_8to5 (chr inb 3) mod 2 =? 1] => set (lf := b32_8to5 (chr inb 3) mod 2 =? 1) end.
  fold (d_phase2 ok lf u5 ds1).
  destruct (d_phase2 ok lf u5 ds1) as [[u6 o2] ds2].
  fold (d_phase3 ok lf (u6 <| u_q := q |> <| u_last := now |>) ds2).
  destruct (d_phase3 ok lf _ ds2) as [u8 o3]. reflexivity.
Qed.

Lemma data_pre_qs3 u inb dl u3 ok lf : data_pre u inb dl = (u3, ok, lf) -> qs3 u3 = qs3 u.
Proof.
  unfold data_pre. cbv zeta.
  set (u1 := process_downstream_ack u _ _).
  assert (E1 : qs3 u1 = qs3 u) by apply qs3_ack.
  match goal with |- context[let '(u2, upstream_ok) := ?X in _] => destruct X as [u2 ok'] eqn:E end.
  assert (E2 : qs3 u2 = qs3 u1).
  { repeat match type of E with (if ?b then _ else _) = _ => destruct b end; inversion E; reflexivity. }
  intros H. inversion H. subst. destruct ok; [|congruence]. rewrite <- E1, <- E2. reflexivity.
Qed.

(* ---- phase lemmas ----------------------------------------------------------------------------------- *)

Lemma d_phase1_spec u4 u5 o1 ds1 : d_phase1 u4 = (u5, o1, ds1) -> pstep qi u4 u5 o1 /\ h_id (u_qs u5) = 0.
Proof.
  unfold d_phase1. destruct (h_id (u_qs u4) =? 0) eqn:E; simpl negb; cbv iota.
  - intros H. inversion H. subst. split; [apply pstep_same; reflexivity|apply N.eqb_eq, E].
  - destruct (send_chunk_or_dataless u4 WQS) as [[x o] ag] eqn:S. intros H. inversion H. subst.
    apply (send_chunk_pstep qi) in S; [|simpl; apply N.eqb_neq, E].
    destruct S as (P & Hz & _). split; [exact P|exact Hz].
Qed.

(* phase 2 with q_sendrealsoon free: afterwards u_q is free; the earlier query was answered, or it
   now sits in q_sendrealsoon (only in lazy mode, and then didsend = 1 so that phase 3 keeps it) *)
Lemma d_phase2_spec ok lf u5 ds1 u6 o2 ds2 :
  d_phase2 ok lf u5 ds1 = (u6, o2, ds2) -> h_id (u_qs u5) = 0 ->
  uacc qi [] u5 u6 o2 [] /\ u_lazy u6 = u_lazy u5 /\ h_id (u_q u6) = 0 /\
  ((slot_prog (u_q u5) (u_q u6) o2 /\ u_qs u6 = u_qs u5) \/
   (h_id (u_q u5) <> 0 /\ u_qs u6 = u_q u5 /\ u_qs_new u6 = true /\ ds2 = true /\ u_lazy u6 = true /\ o2 = [])).
Proof.
  unfold d_phase2. intros H Hz.
  destruct (h_id (u_q u5) =? 0) eqn:E; simpl negb in H; cbv iota in H.
  { inversion H. subst. split; [apply uacc_refl|]. split; [reflexivity|]. split; [apply N.eqb_eq, E|].
    left. split; [left; reflexivity|reflexivity]. }
  apply N.eqb_neq in E.
  match type of H with (if ?b then _ else _) = _ => destruct b eqn:C end.
  - destruct (send_chunk_or_dataless u5 WQ) as [[x o] ag] eqn:S. inversion H. subst.
    apply (send_chunk_pstep qi) in S; [|exact E]. destruct S as ((A & L & Q & _) & Z & O & _).
    split; [exact A|]. split; [exact L|]. split; [exact Z|]. left. split; [exact Q|exact O].
  - inversion H. subst. clear H.
    assert (Hl : u_lazy u5 = true).
    { apply orb_false_elim in C. destruct C as [_ C]. destruct (u_lazy u5); [reflexivity|discriminate]. }
    split; [apply move_q_uacc; [exact Hz|reflexivity|reflexivity]|].
    split; [reflexivity|]. split; [reflexivity|]. right. repeat split; auto.
Qed.

(* phase 3 acts on the (occupied) new query in u_q *)
Lemma d_phase3_spec ok lf u7 ds2 u8 o3 :
  d_phase3 ok lf u7 ds2 = (u8, o3) -> h_id (u_q u7) <> 0 ->
  (h_id (u_qs u7) = 0 \/ (ds2 = true /\ u_lazy u7 = true)) ->
  uacc qi [] u7 u8 o3 [] /\ u_lazy u8 = u_lazy u7 /\
  ((u_qs u8 = u_qs u7 /\ (u_q u8 = u_q u7 \/ (answered_by o3 (u_q u7) /\ h_id (u_q u8) = 0))) \/
   (h_id (u_qs u7) = 0 /\ u_qs u8 = u_q u7 /\ h_id (u_q u8) = 0 /\ o3 = [])) /\
  (ds2 = true /\ u_lazy u7 = true -> u8 = u7 /\ o3 = []) /\
  (u_lazy u7 = false -> answered_by o3 (u_q u7) \/ u_qs u8 = u_q u7).
Proof.
  unfold d_phase3. intros H Hn Hqs.
  assert (Send : forall x o ag, send_chunk_or_dataless u7 WQ = (x, o, ag) ->
    uacc qi [] u7 x o [] /\ u_lazy x = u_lazy u7 /\
    ((u_qs x = u_qs u7 /\ (u_q x = u_q u7 \/ (answered_by o (u_q u7) /\ h_id (u_q x) = 0))) \/
     (h_id (u_qs u7) = 0 /\ u_qs x = u_q u7 /\ h_id (u_q x) = 0 /\ o = [])) /\
    (u_lazy u7 = false -> answered_by o (u_q u7) \/ u_qs x = u_q u7)).
  { intros x o ag S. apply (send_chunk_pstep qi) in S; [|exact Hn].
    destruct S as ((A & L & _ & _) & Z & O & Ab).
    split; [exact A|]. split; [exact L|]. split; [left; split; [exact O|right; split; assumption]|].
    intros _. left. exact Ab. }
  destruct ((0 <? p_len (u_out u7)) && negb ds2) eqn:C1.
  { destruct (send_chunk_or_dataless u7 WQ) as [[x o] ag] eqn:S. inversion H. subst.
    destruct (Send _ _ _ eq_refl) as (A & L & D & Lz).
    split; [exact A|]. split; [exact L|]. split; [exact D|]. split; [|exact Lz].
    intros [Hd _]. rewrite Hd in C1. rewrite andb_false_r in C1. discriminate. }
  destruct (negb ds2 || negb (u_lazy u7)) eqn:C2.
  2:{ inversion H. subst. split; [apply uacc_refl|]. split; [reflexivity|].
      split; [left; split; [reflexivity|left; reflexivity]|]. split; [intros _; split; reflexivity|].
      intros Hl. rewrite Hl in C2. rewrite orb_true_r in C2. discriminate. }
  assert (Hfree : h_id (u_qs u7) = 0).
  { destruct Hqs as [Hf|[Hd Hl]]; [exact Hf|]. rewrite Hd, Hl in C2. discriminate. }
  assert (Hno : ds2 = true /\ u_lazy u7 = true -> False).
  { intros [Hd Hl]. rewrite Hd, Hl in C2. discriminate. }
  destruct (ok && lf).
  - inversion H. subst. clear H.
    split; [apply move_q_uacc; [exact Hfree|reflexivity|reflexivity]|]. split; [reflexivity|].
    split; [right; repeat split; auto|]. split; [intros Hc; destruct (Hno Hc)|].
    intros _. right. reflexivity.
  - destruct (send_chunk_or_dataless u7 WQ) as [[x o] ag] eqn:S. inversion H. subst.
    destruct (Send _ _ _ eq_refl) as (A & L & D & Lz).
    split; [exact A|]. split; [exact L|]. split; [exact D|]. split; [|exact Lz].
    intros Hc; destruct (Hno Hc).
Qed.

(* The accepted data query, one-user part: exact conservation; q_sendrealsoon (if occupied) is
   answered; the earlier query in q is answered or moved to q_sendrealsoon (lazy mode only); the new
   query ends up stored in q, stored in q_sendrealsoon, or answered. *)
Lemma d_users_spec u4 now q ok lf u8 outs :
  d_users u4 now q ok lf = (u8, outs) -> h_id q <> 0 -> h_id2 q = 0 ->
  uacc qi [q_inst q] u4 u8 outs [] /\
  (h_id (u_qs u4) <> 0 -> answered_by outs (u_qs u4)) /\
  (h_id (u_q u4) <> 0 ->
     answered_by outs (u_q u4) \/
     (u_qs u8 = u_q u4 /\ u_lazy u8 = true /\ u_qs_new u8 = true /\ u_q u8 = q /\
      (h_id (u_qs u4) <> 0 -> answered_by outs (u_qs u4)))) /\
  (u_q u8 = q \/ (u_qs u8 = q /\ h_id (u_q u8) = 0) \/ (answered_by outs q /\ h_id (u_q u8) = 0)) /\
  u_lazy u8 = u_lazy u4 /\
  (u_lazy u4 = false -> answered_by outs q \/ u_qs u8 = q).
Proof.
  unfold d_users.
  destruct (d_phase1 u4) as [[u5 o1] ds1] eqn:E1.
  destruct (d_phase2 ok lf u5 ds1) as [[u6 o2] ds2] eqn:E2.
  set (u7 := u6 <| u_q := q |> <| u_last := now |>).
  destruct (d_phase3 ok lf u7 ds2) as [u8' o3] eqn:E3.
  intros H Hn H2. inversion H. subst u8' outs. clear H.
  apply d_phase1_spec in E1. destruct E1 as ((A1 & L1 & Q1 & S1) & Z1).
  apply d_phase2_spec in E2; [|exact Z1]. destruct E2 as (A2 & L2 & Z2 & D2).
  assert (A7 : uacc qi [q_inst q] u6 u7 [] []) by (apply store_q_uacc; auto).
  assert (Hqs7 : h_id (u_qs u7) = 0 \/ (ds2 = true /\ u_lazy u7 = true)).
  { change (h_id (u_qs u6) = 0 \/ (ds2 = true /\ u_lazy u6 = true)).
    destruct D2 as [[_ Eq]|(_ & _ & _ & Hd & Hl & _)]; [left; rewrite Eq; exact Z1|right; auto]. }
  apply d_phase3_spec in E3; [|exact Hn|exact Hqs7]. destruct E3 as (A3 & L3 & D3 & K3 & Lz3).
  change (u_q u7) with q in *. change (u_qs u7) with (u_qs u6) in *. change (u_lazy u7) with (u_lazy u6) in *.
  split.
  { unfold uacc in *. rewrite !answers_app in *. simpl in *. perm_lia. }
  split.
  { intros Hs. apply answered_by_app_l. eapply slot_prog_freed; eauto. }
  split.
  { intros Hq. destruct Q1 as [Q1|(_ & Ab & _)]; [|left; apply answered_by_app_l; exact Ab].
    rewrite <- Q1.
    destruct D2 as [[P2 _]|(_ & Eqs & Hnew & Hd & Hl & Ho)].
    - left. apply answered_by_app_r, answered_by_app_l. eapply slot_prog_freed; eauto. congruence.
    - destruct (K3 (conj Hd Hl)) as [-> ->]. right.
      split; [exact Eqs|]. split; [exact Hl|]. split; [exact Hnew|]. split; [reflexivity|].
      intros Hs. apply answered_by_app_l. eapply slot_prog_freed; eauto. }
  split.
  { destruct D3 as [[_ [Eq|[Ab Hz]]]|(_ & Eqs & Hz & _)].
    - left. exact Eq.
    - right. right. split; [apply answered_by_app_r, answered_by_app_r; exact Ab|exact Hz].
    - right. left. split; assumption. }
  split; [congruence|].
  intros Hl. assert (Hl6 : u_lazy u6 = false) by congruence.
  destruct (Lz3 Hl6) as [Ab|Eq]; [left; apply answered_by_app_r, answered_by_app_r; exact Ab|right; exact Eq].
Qed.

(* ---- the handler as a whole -------------------------------------------------------------------------- *)

Lemma data_guard_acc c st now q inb r :
  data_guard c st now q inb = Some r -> h_id q <> 0 -> exists d, acc qi [q_inst q] st (fst r) (snd r) d.
Proof.
  unfold data_guard. intros H Hn. cbv zeta in H.
  destruct (check_auth _ _ _ _ _) eqn:Ec.
  { inversion H. subst. exists []. apply acc_answer_same. reflexivity. }
  apply check_auth_inrange in Ec. replace (Z.to_nat (Z.of_N (data_code inb))) with (N.to_nat (data_code inb)) in Ec by lia.
  destruct (answer_from_dnscache _ _ _).
  { inversion H. subst. exists []. apply acc_answer_same. reflexivity. }
  destruct (qmem_hit _ _ _).
  { inversion H. subst. exists []. apply acc_answer_same. reflexivity. }
  destruct (dup_pending _ q WQ) eqn:D1.
  { inversion H. subst. simpl. destruct (remember_dup_uacc qi _ _ _ D1 Hn) as [d Hd]. exists d.
    apply acc_upd; assumption. }
  destruct (dup_pending _ q WQS) eqn:D2; [|discriminate].
  inversion H. subst. simpl. destruct (remember_dup_uacc qi _ _ _ D2 Hn) as [d Hd]. exists d.
  apply acc_upd; assumption.
Qed.

(* state-level statement for the accepted data query of session i *)
Lemma data_tail_spec st now q i inb dl st' outs :
  data_tail st now q i inb dl = (st', outs) -> (i < length st)%nat -> h_id q <> 0 -> h_id2 q = 0 ->
  acc qi [q_inst q] st st' outs [] /\
  let u := getu st i in let u' := getu st' i in
  (h_id (u_qs u) <> 0 -> answered_by outs (u_qs u)) /\
  (h_id (u_q u) <> 0 ->
     answered_by outs (u_q u) \/
     (u_qs u' = u_q u /\ u_lazy u' = true /\ u_qs_new u' = true /\ u_q u' = q /\
      (h_id (u_qs u) <> 0 -> answered_by outs (u_qs u)))) /\
  (u_q u' = q \/ (u_qs u' = q /\ h_id (u_q u') = 0) \/ (answered_by outs q /\ h_id (u_q u') = 0)) /\
  (u_lazy u = false -> answered_by outs q \/ u_qs u' = q).
Proof.
  unfold data_tail. intros H Hi Hn H2.
  destruct (data_pre (getu st i) inb dl) as [[u3 ok] lf] eqn:EP. cbv zeta in H.
  apply data_pre_qs3 in EP.
  set (st1 := upd st i (fun _ => u3)) in *.
  assert (A01 : acc qi [] st st1 [] []).
  { apply acc_upd; [exact Hi|]. apply uacc_same, qs3_held, EP. }
  assert (G1 : getu st1 i = u3) by (subst st1; apply getu_upd_same; exact Hi).
  assert (L1 : length st1 = length st) by apply upd_length.
  destruct (if ok && lf then handle_full_packet unz st1 now i else (st1, [])) as [st2 o0] eqn:EF.
  assert (F : acc qi [] st1 st2 o0 [] /\ sprog st1 st2 o0).
  { destruct (ok && lf).
    - eapply handle_full_packet_spec; exact EF.
    - injection EF as <- <-. split; [apply acc_refl|apply sprog_refl]. }
  destruct F as [A12 [L2 P12]].
  destruct (d_users (getu st2 i) now q ok lf) as [u8 o] eqn:EU. inversion H. subst st' outs. clear H.
  apply d_users_spec in EU; [|assumption..]. destruct EU as (AU & SU & QU & NU & LU & ZU).
  assert (Hi2 : (i < length st2)%nat) by congruence.
  split.
  { pose proof (acc_upd qi [q_inst q] st2 i (fun _ => u8) o [] Hi2 AU) as A23.
    unfold acc in *. rewrite !answers_app in *. simpl in *. perm_lia. }
  cbv zeta. rewrite getu_upd_same by exact Hi2.
  destruct (P12 i) as (Lz & Pq & Pqs). rewrite G1 in Lz, Pq, Pqs.
  rewrite (qs3_q _ _ EP) in Pq. rewrite (qs3_qs _ _ EP) in Pqs. rewrite (qs3_lazy _ _ EP) in Lz.
  assert (Sqs : h_id (u_qs (getu st i)) <> 0 -> answered_by (o0 ++ o) (u_qs (getu st i))).
  { intros Hs. destruct Pqs as [Eq|(_ & Ab & _)]; [|apply answered_by_app_l; exact Ab].
    apply answered_by_app_r. rewrite <- Eq. apply SU. rewrite Eq. exact Hs. }
  split; [exact Sqs|].
  split.
  { intros Hq. destruct Pq as [Eq|(_ & Ab & _)]; [|left; apply answered_by_app_l; exact Ab].
    rewrite Eq in QU. destruct (QU Hq) as [Ab|(E1 & E2 & E3 & E4 & _)].
    - left. apply answered_by_app_r. exact Ab.
    - right. repeat split; auto. }
  split.
  { destruct NU as [E|[[E Z]|[Ab Z]]]; [left; exact E|right; left; split; assumption|].
    right. right. split; [apply answered_by_app_r; exact Ab|exact Z]. }
  intros Hl. rewrite <- Lz in Hl. destruct (ZU Hl) as [Ab|E]; [left; apply answered_by_app_r; exact Ab|right; exact E].
Qed.

Lemma handle_data_acc c st now q inb dl : h_id q <> 0 -> h_id2 q = 0 ->
  exists d, acc qi [q_inst q] st (fst (handle_data unz c st now q inb dl)) (snd (handle_data unz c st now q inb dl)) d.
Proof.
  intros Hn H2. rewrite handle_data_eq.
  destruct (data_guard c st now q inb) as [r|] eqn:G.
  - eapply data_guard_acc; eassumption.
  - destruct (data_tail st now q _ inb dl) as [st' outs] eqn:T. simpl.
    apply data_tail_spec in T; [destruct T as [A _]; exists []; exact A| |assumption..].
    unfold data_guard in G. cbv zeta in G. destruct (check_auth _ _ _ _ _) eqn:Ec; [discriminate|].
    apply check_auth_inrange in Ec. replace (Z.to_nat (Z.of_N (data_code inb))) with (N.to_nat (data_code inb)) in Ec by lia. exact Ec.
Qed.

End WithOracles.
