(* Properties_C14.v -- final statements for property C14 (the server never sends unsolicited or
   surplus DNS answers; at most two held queries per session, older first).  Only statements, each
   closed by lemmas of ServerAnswer{Ledger,Chunk,State,Ping,Data,Proofs}.v, Print Assumptions beneath.

   Vocabulary (ServerAnswerLedger.v / ServerAnswerProofs.v):
     inst               = (address incl. port, DNS id, question name, question type)
     q_inst q           = (h_from q, h_id q, h_name q, h_type q)
     ev_inst e          = Some (q_inst q) for e = EDns _ _ q (one per decoded query datagram), else None;
                          ev_pool e = that instance as a 0/1-element list
     answers qi outs    = the instances (to, id, h_name q, h_type q) of all OAnswer outputs, and for an
                          OAux (NS / A auxiliary reply) the instance of the incoming query qi sent to [to];
                          ORaw / OTun / OForward are not DNS answers
     hq_held h          = [] if h_id h = 0 (free slot, whatever stale id2 it carries), else
                          (h_from,h_id,h_name,h_type) plus, if h_id2 <> 0, (h_from2,h_id2,h_name,h_type)
     user_held u        = hq_held (u_q u) ++ hq_held (u_qs u)        -- no condition on u_conn (see there)
     held st            = all sessions' user_held
     cnt l i            = multiplicity of i in l (count_occ)
     Inv st rc an       = exists slack, Permutation rc (an ++ held st ++ slack)
                          i.e. answered and held instances are, with multiplicity, distinct received ones
     acc qi pool st st' outs dropped = Permutation (pool ++ held st) (answers qi outs ++ held st' ++ dropped)
     wf_event e         = for EDns _ _ q: h_id2 q = 0 (what dns_decode / recv_datagram guarantee)
     answered_by outs h = outs contain OAnswer h (h_id h) (h_from h) d e and, if h_id2 h <> 0, also
                          OAnswer h (h_id2 h) (h_from2 h) d e with the same payload
     run / hrun         = execution of an event list (Server.step) / of a history as the
                          correspondence harness runs it (recv_datagram, tunnel_tun, sweep), threading
                          received := ev_pool e ++ received, answered := answered ++ answers ... *)
From Coq Require Import List NArith ZArith Arith Bool Lia Permutation.
From RecordUpdate Require Import RecordUpdate.
From Iodine Require Import Generated.SrcConsts Base Codec Users Server
  ServerAnswerLedger ServerAnswerChunk ServerAnswerState ServerAnswerPing ServerAnswerData ServerAnswerProofs.
Import ListNotations.
Local Open Scope N_scope.

(* ---- the invariant ---------------------------------------------------------------------------- *)

(* what Inv says in counting form: for every instance, answers + held copies <= received copies
   (answered is a sub-multiset of received, and held one of received minus answered) *)
Theorem C14_Inv_counts : forall st received answered,
  Inv st received answered <-> forall i, (cnt answered i + cnt (held st) i <= cnt received i)%nat.
Proof. intros. split; [apply Inv_msub|apply Inv_of_counts]. Qed.
Print Assumptions C14_Inv_counts.

(* one step: the event's query (EDns only) joins [received], the step's answers join [answered];
   a raw-mode frame, a tun packet and a sweep add nothing to [received]. *)
Theorem C14_step : forall login zc unz c st e received answered,
  wf_event e -> Inv st received answered ->
  Inv (fst (step login zc unz c st e)) (ev_pool e ++ received)
      (answered ++ answers (ev_inst e) (snd (step login zc unz c st e))).
Proof. exact Inv_one_step. Qed.
Print Assumptions C14_step.

(* the exact ledger of one step: every answer is paid for by the event's own query or by a held
   query, each used once; what is neither answered nor still held is in [dropped] *)
Theorem C14_step_ledger : forall login zc unz c st e, wf_event e ->
  exists dropped,
    Permutation (ev_pool e ++ held st)
                (answers (ev_inst e) (snd (step login zc unz c st e)) ++
                 held (fst (step login zc unz c st e)) ++ dropped).
Proof. exact step_acc. Qed.
Print Assumptions C14_step_ledger.

(* all event lists from the initial state, all interleavings, lazy or immediate, every type *)
Theorem C14_inv : forall login zc unz c ips evs, Forall wf_event evs ->
  let '(st, received, answered) := run login zc unz c (init_state ips) evs [] [] in
  Inv st received answered.
Proof. intros. apply Inv_run; [assumption|apply Inv_init]. Qed.
Print Assumptions C14_inv.

(* at most one answer per received query datagram, none unsolicited -- and the held queries are
   received ones not yet answered *)
Theorem C14_no_surplus : forall login zc unz c ips evs, Forall wf_event evs ->
  let '(st, received, answered) := run login zc unz c (init_state ips) evs [] [] in
  forall i, (cnt answered i + cnt (held st) i <= cnt received i)%nat.
Proof.
  intros login zc unz c ips evs Hwf.
  pose proof (C14_inv login zc unz c ips evs Hwf) as H.
  destruct (run login zc unz c (init_state ips) evs [] []) as [[st rc] an]. apply Inv_msub, H.
Qed.
Print Assumptions C14_no_surplus.

(* the same for histories exactly as the correspondence run executes them (datagrams through
   recv_datagram = raw_decode / dns_decode_query / tunnel_dns; no well-formedness hypothesis:
   a decoded query always has id2 = 0).  Only a datagram that decodes as a query counts as received. *)
Theorem C14_history : forall login zc unz c ips hs,
  let '(st, received, answered) := hrun login zc unz c (init_state ips) hs [] [] in
  forall i, (cnt answered i + cnt (held st) i <= cnt received i)%nat.
Proof.
  intros login zc unz c ips hs.
  pose proof (Inv_hrun login zc unz c hs (init_state ips) [] [] (Inv_init ips)) as H.
  destruct (hrun login zc unz c (init_state ips) hs [] []) as [[st rc] an]. apply Inv_msub, H.
Qed.
Print Assumptions C14_history.

(* events that carry no query (raw-mode frame, tun packet, sweeps): every answer is a held query *)
Theorem C14_no_query_events : forall login zc unz c st e, ev_inst e = None ->
  forall i, (cnt (answers None (snd (step login zc unz c st e))) i <= cnt (held st) i)%nat.
Proof.
  intros login zc unz c st e He i.
  assert (Hwf : wf_event e) by (destruct e; [discriminate|exact I..]).
  destruct (step_acc login zc unz c st e Hwf) as [d A].
  pose proof (acc_answers_from _ _ _ _ _ _ A i) as H. unfold ev_pool in H. rewrite He in H. exact H.
Qed.
Print Assumptions C14_no_query_events.

(* ---- two held queries per session ------------------------------------------------------------- *)

(* "holds": a session holds an instance when it sits in q or q_sendrealsoon with id <> 0 (plus the
   one remembered duplicate of each).  Structurally at most 2 queries + 1 duplicate each; and these
   are the only earlier queries a later step can still answer. *)
Theorem C14_two_held : forall login zc unz c st e,
  (forall u, In u st -> (length (user_held u) <= 4)%nat /\
                        (length (hq_held (u_q u)) <= 2)%nat /\ (length (hq_held (u_qs u)) <= 2)%nat) /\
  (wf_event e ->
   forall i, (cnt (answers (ev_inst e) (snd (step login zc unz c st e))) i <= cnt (ev_pool e ++ held st) i)%nat).
Proof.
  intros login zc unz c st e. split.
  - intros u _. split; [apply user_held_bound|]. split; apply hq_held_bound.
  - intros Hwf i. destruct (step_acc login zc unz c st e Hwf) as [d A]. exact (acc_answers_from _ _ _ _ _ _ A i).
Qed.
Print Assumptions C14_two_held.

(* An accepted ping (not refused, not answered from the cache, not suppressed as an old duplicate,
   not a duplicate of a held query): nothing is lost (exact conservation), BOTH previously held
   queries are answered (q_sendrealsoon first, then q), the new query is stored in q or answered,
   q_sendrealsoon is left free, and in immediate mode the new query is answered at once. *)
Theorem C14_lazy_older_first : forall c st now q unpacked,
  ping_accepted c st now q unpacked -> h_id q <> 0 -> h_id2 q = 0 ->
  let i := Z.to_nat (schar (chr unpacked 0)) in
  let u := getu st i in
  let r := handle_ping c st now q unpacked in
  let u' := getu (fst r) i in
  Permutation (q_inst q :: held st) (answers None (snd r) ++ held (fst r)) /\
  (h_id (u_q u) <> 0 -> answered_by (snd r) (u_q u)) /\
  (h_id (u_qs u) <> 0 -> answered_by (snd r) (u_qs u)) /\
  (u_q u' = q \/ (answered_by (snd r) q /\ h_id (u_q u') = 0)) /\
  h_id (u_qs u') = 0 /\
  (u_lazy u = false -> answered_by (snd r) q).
Proof.
  intros c st now q unpacked Ha Hn H2.
  pose proof (handle_ping_accepted None c st now q unpacked Ha Hn H2) as H. cbv zeta in *.
  destruct H as (A & R). split; [|exact R]. unfold acc in A. rewrite !app_nil_r in A. exact A.
Qed.
Print Assumptions C14_lazy_older_first.

(* An accepted data query: nothing is lost; an occupied q_sendrealsoon (the older of two held
   queries) is answered; the query held in q is answered, or -- only in lazy mode, in the branch
   "we can afford to wait just a tiny little while" -- moved to the by then free q_sendrealsoon
   with q_sendrealsoon_new set; the new query is stored in q, or stored in q_sendrealsoon, or
   answered.  No held query is overwritten without being answered. *)
Theorem C14_lazy_older_first_data : forall unz c st now q inb dl,
  data_accepted c st now q inb -> h_id q <> 0 -> h_id2 q = 0 ->
  let i := N.to_nat (data_code inb) in
  let u := getu st i in
  let r := handle_data unz c st now q inb dl in
  let u' := getu (fst r) i in
  Permutation (q_inst q :: held st) (answers None (snd r) ++ held (fst r)) /\
  (h_id (u_qs u) <> 0 -> answered_by (snd r) (u_qs u)) /\
  (h_id (u_q u) <> 0 ->
     answered_by (snd r) (u_q u) \/
     (u_qs u' = u_q u /\ u_lazy u' = true /\ u_qs_new u' = true /\ u_q u' = q /\
      (h_id (u_qs u) <> 0 -> answered_by (snd r) (u_qs u)))) /\
  (u_q u' = q \/ (u_qs u' = q /\ h_id (u_q u') = 0) \/ (answered_by (snd r) q /\ h_id (u_q u') = 0)) /\
  (u_lazy u = false -> answered_by (snd r) q \/ u_qs u' = q).
Proof.
  intros unz c st now q inb dl Ha Hn H2.
  pose proof (handle_data_accepted unz None c st now q inb dl Ha Hn H2) as H. cbv zeta in *.
  destruct H as (A & R). split; [|exact R]. unfold acc in A. rewrite !app_nil_r in A. exact A.
Qed.
Print Assumptions C14_lazy_older_first_data.

(* ---- DNS id 0 --------------------------------------------------------------------------------------- *)

(* ping and data queries with id 0: no output, no state change; a held instance never has id 0
   (so "id = 0 means free slot" is sound); an answer with id 0 can only be the direct reply to the
   event's own id-0 query (version, login, option ... requests are answered whatever their id). *)
Theorem C14_id0 : forall login zc unz c st now rnd q dl e i,
  (h_id q = 0 -> is_ping_name dl (h_name q) || is_data_name dl (h_name q) = true ->
   handle_null_request login unz c st now rnd q dl = (st, [])) /\
  (In i (held st) -> inst_id i <> 0) /\
  (wf_event e -> In i (answers (ev_inst e) (snd (step login zc unz c st e))) -> inst_id i = 0 ->
   ev_inst e = Some i).
Proof.
  intros. split; [apply handle_null_request_id0|]. split; [apply held_ids|apply step_answer_id0].
Qed.
Print Assumptions C14_id0.

(* ---- non-vacuity: a concrete lazy-mode history ---------------------------------------------------- *)
(* The same history, byte for byte, is corpus/C14/lazy-example.cases (built from srvlib.HistGen
   primitives by tools/gen_corpus_c14.py) and is run through the real iodined.c by checks/c14.py. *)

Definition nV : list N := [118;97;97;97;97;107;97;113;115;103;113;46;97;46;98;99].  (* vaaaakaqsgq.a.bc *)
Definition nL : list N := [108;97;100;115;101;105;118;105;97;111;116;103;104;99;97;97;101;107;115;103;113;98;102;103;50;118;101;97;98;101;110;105;46;97;46;98;99].  (* ladseiviaotghcaaeksgqbfg2veabeni.a.bc *)
Definition nO : list N := [111;97;108;97;97;98;46;97;46;98;99].  (* oalaab.a.bc : lazy mode *)
Definition nP1 : list N := [112;97;97;97;99;97;97;105;46;97;46;98;99].  (* paaacaai.a.bc *)
Definition nP2 : list N := [112;97;97;97;99;97;97;113;46;97;46;98;99].  (* paaacaaq.a.bc *)
Definition nP3 : list N := [112;97;97;97;99;97;97;121;46;97;46;98;99].  (* paaacaay.a.bc *)
Definition nP4 : list N := [112;97;97;97;99;97;98;97;46;97;46;98;99].  (* paaacaba.a.bc *)
Definition tunpkt : list N := [0;1;2;3;4;5;6;7;8;9;10;11;12;13;14;15;16;17;18;19;10;0;0;2;24;25;26;27;28;29;30;31;32;33;34;35;36;37;38;39].

Definition ex_cfg : cfg :=
  {| c_topdomain := [97;46;98;99]; c_password := []; c_check_ip := true; c_my_ip := 16777226;
     c_netmask := 27; c_mtu := 1130; c_ns_ip := None; c_bind := false |}.
Definition ex_ips : list N := fst (init_users 16777226 27).          (* 10.0.0.1/27: 16 sessions *)
Definition exA (port : N) : addr := {| a_fam := 2; a_ip := [192;0;2;10]; a_port := port |}.
Definition exQ (name : list N) (id : N) (port : N) : hq :=
  {| h_name := name; h_type := 10; h_id := id; h_from := exA port; h_id2 := 0; h_from2 := addr0;
     h_dest := Some [10;1;2;3] |}.
Definition ex_events : list event :=
  [ EDns 1000000 13083364 (exQ nV 100 4000);  (* version: session 0, seed 13083364 *)
    EDns 1000000 0 (exQ nL 101 4000);         (* login *)
    EDns 1000000 0 (exQ nO 102 4000);         (* option: lazy mode *)
    EDns 1000000 0 (exQ nP1 201 4000);        (* ping 1: held *)
    EDns 1000000 0 (exQ nP2 202 4000);        (* ping 2: answers ping 1, is held *)
    EDns 1000000 0 (exQ nP2 203 4001);        (* duplicate of ping 2, new id, other port: remembered *)
    EDns 1000000 0 (exQ nP3 204 4000);        (* ping 3: answers ping 2 AND its duplicate, is held *)
    EDns 1000000 0 (exQ nP4 0 4000);          (* ping with id 0: ignored *)
    ETun 1000000 tunpkt;                      (* packet for 10.0.0.2: answers ping 3 with data *)
    ESweepClear 1000000; ESweepSend 1000000 ].  (* nothing left to send *)

Definition ex_short (i : inst) : N * N := (a_port (fst (fst (fst i))), inst_id i).   (* (port, id) *)
(* (received, answered, held) as (port, id) after the first n events *)
Definition ex_ledger (n : nat) :=
  let '(st, rc, an) := run login_stub zc_frame unz_frame ex_cfg (init_state ex_ips) (firstn n ex_events) [] [] in
  (map ex_short rc, map ex_short an, map ex_short (held st)).

Example C14_example_wf : Forall wf_event ex_events.
Proof. repeat constructor. Qed.

Example C14_example_ping_held : ex_ledger 4 =
  ([(4000, 201); (4000, 102); (4000, 101); (4000, 100)],
   [(4000, 100); (4000, 101); (4000, 102)],
   [(4000, 201)]).
Proof. vm_compute. reflexivity. Qed.

Example C14_example_second_ping_answers_first : ex_ledger 5 =
  ([(4000, 202); (4000, 201); (4000, 102); (4000, 101); (4000, 100)],
   [(4000, 100); (4000, 101); (4000, 102); (4000, 201)],
   [(4000, 202)]).
Proof. vm_compute. reflexivity. Qed.

Example C14_example_duplicate_remembered : ex_ledger 6 =
  ([(4001, 203); (4000, 202); (4000, 201); (4000, 102); (4000, 101); (4000, 100)],
   [(4000, 100); (4000, 101); (4000, 102); (4000, 201)],
   [(4000, 202); (4001, 203)]).
Proof. vm_compute. reflexivity. Qed.

Example C14_example_both_answered : ex_ledger 7 =
  ([(4000, 204); (4001, 203); (4000, 202); (4000, 201); (4000, 102); (4000, 101); (4000, 100)],
   [(4000, 100); (4000, 101); (4000, 102); (4000, 201); (4000, 202); (4001, 203)],
   [(4000, 204)]).
Proof. vm_compute. reflexivity. Qed.

(* id-0 ping ignored (received but never answered); the tun packet answers the held ping; the
   sweep finds nothing *)
Example C14_example_end : ex_ledger 11 =
  ([(4000, 0); (4000, 204); (4001, 203); (4000, 202); (4000, 201); (4000, 102); (4000, 101); (4000, 100)],
   [(4000, 100); (4000, 101); (4000, 102); (4000, 201); (4000, 202); (4001, 203); (4000, 204)],
   []).
Proof. vm_compute. reflexivity. Qed.

(* a version request with id 0 IS answered, with id 0 (only ping and data requests ignore id 0) *)
Example C14_example_id0_version_answered :
  map ex_short (answers (Some (q_inst (exQ nV 0 4000)))
                  (snd (step login_stub zc_frame unz_frame ex_cfg (init_state ex_ips) (EDns 1000000 13083364 (exQ nV 0 4000)))))
  = [(4000, 0)].
Proof. vm_compute. reflexivity. Qed.

(* the well-formedness hypothesis is needed at event level: an EDns whose query already carries an
   id2 would make the model answer that never-received id2 (real decoded queries have id2 = 0) *)
Example C14_example_wf_needed :
  let q := (exQ nP1 201 4000) <| h_id2 := 777 |> <| h_from2 := exA 4009 |> in
  let '(st, rc, an) := run login_stub zc_frame unz_frame ex_cfg (init_state ex_ips)
                          (firstn 3 ex_events ++ [EDns 1000000 0 q; EDns 1000000 0 (exQ nP2 202 4000)]) [] [] in
  In (4009, 777) (map ex_short an) /\ ~ In (4009, 777) (map ex_short rc).
Proof. vm_compute. split; [tauto|]. intros H. repeat (destruct H as [H|H]; [discriminate|]). exact H. Qed.
