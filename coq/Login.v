(* Login.v -- executable model of src/login.c (login_calculate) and of the three places where
   the raw-UDP login derives its challenge (client.c send_raw_udp_login / handshake_raw_udp,
   iodined.c handle_raw_login).  Model only; proofs are in LoginProofs.v.

   login_calculate(buf, buflen, pass, seed), as the C does it:
     if (buflen < 16) return;                       nothing is written
     memcpy(temp, pass, 32);                        callers hold the password in a zero-filled
                                                    char[33] (strncpy + terminator), so the 32
                                                    bytes are the password cut at 32 and padded
                                                    with zeros: [pad32 p]
     for 8 words ix[i]: k = ntohl(ix[i]); k ^= seed; ix[i] = htonl(k);
                                                    int load on a little-endian host, byte swap,
                                                    xor with the 32-bit pattern of the C int
                                                    seed, byte swap, store
     md5 of the 32 bytes of temp -> buf[0..15]
   The three literals 32 / 8 / 32 are read from the source by tools/gen_consts.py
   (src_LOGIN_COPY, src_LOGIN_WORDS, src_LOGIN_MD5_LEN).  The seed is the unsigned 32-bit
   pattern of the C int (two's complement), so seed+1 / seed-1 wrap modulo 2^32 (gcc, x86-64). *)
From Coq Require Import List NArith Arith Bool.
From Iodine Require Import Generated.SrcConsts Md5.
Import ListNotations.
Local Open Scope N_scope.

Fixpoint map2 {A B C} (f : A -> B -> C) (l1 : list A) (l2 : list B) : list C :=
  match l1, l2 with
  | a :: t1, b :: t2 => f a b :: map2 f t1 t2
  | _, _ => []
  end.

(* the first n bytes of the zero-filled password buffer *)
Definition padn (n : nat) (p : list N) : list N := firstn n (p ++ repeat 0 n).
Definition pad32 (p : list N) : list N := padn 32 p.

(* ntohl / htonl on a little-endian host: byte swap of a 32-bit word *)
Definition bswap32 (x : N) : N :=
  (x mod 256) * 16777216 + ((x / 256) mod 256) * 65536 + ((x / 65536) mod 256) * 256
  + (x / 16777216) mod 256.
Definition ntohl (x : N) : N := bswap32 x.
Definition htonl (x : N) : N := bswap32 x.

(* the loop over the first n 32-bit words of the buffer; bytes after them are left alone *)
Fixpoint xor_words (n : nat) (buf : list N) (s : N) : list N :=
  match n, buf with
  | S n', b0 :: b1 :: b2 :: b3 :: rest =>
      bytes_le32 (htonl (N.lxor (ntohl (le32 b0 b1 b2 b3)) (s mod M32))) ++ xor_words n' rest s
  | _, _ => buf
  end.

(* the bytes handed to md5_append *)
Definition login_block (p : list N) (s : N) : list N :=
  firstn (N.to_nat src_LOGIN_MD5_LEN)
         (xor_words (N.to_nat src_LOGIN_WORDS) (padn (N.to_nat src_LOGIN_COPY) p) s).

Definition login_calculate (p : list N) (s : N) : list N := md5 (login_block p s).

(* with the buflen test: None = output buffer left untouched *)
Definition login_out (buflen : N) (p : list N) (s : N) : option (list N) :=
  if buflen <? 16 then None else Some (login_calculate p s).

(* C int arithmetic on the seed, as 32-bit patterns *)
Definition seed_succ (s : N) : N := (s + 1) mod M32.
Definition seed_pred (s : N) : N := (s mod M32 + M32 - 1) mod M32.

(* client.c send_raw_udp_login and iodined.c handle_raw_login: login_calculate(.., seed + 1) *)
Definition raw_login_up (p : list N) (s : N) : list N := login_calculate p (seed_succ s).
(* iodined.c handle_raw_login answer and client.c handshake_raw_udp check: seed - 1 *)
Definition raw_login_down (p : list N) (s : N) : list N := login_calculate p (seed_pred s).

Fixpoint bytes_eqb (l1 l2 : list N) : bool :=
  match l1, l2 with
  | [], [] => true
  | a :: t1, b :: t2 => (a =? b) && bytes_eqb t1 t2
  | _, _ => false
  end.

(* iodined.c handle_raw_login for an eligible user: len < 16 -> ignored; memcmp of the first 16
   payload bytes with the hash of seed+1; on success answers the hash of seed-1 *)
Definition raw_server (p : list N) (s : N) (pkt : list N) : option (list N) :=
  if (length pkt <? 16)%nat then None
  else if bytes_eqb (firstn 16 pkt) (raw_login_up p s) then Some (raw_login_down p s)
  else None.

(* client.c handshake_raw_udp: the 16 bytes after the raw header must equal the hash of seed-1 *)
Definition raw_client_accepts (p : list N) (s : N) (h : list N) : bool :=
  bytes_eqb (firstn 16 h) (raw_login_down p s).

(* --- the documented formula (doc/proto_00000502.txt): MD5 of (first 32 bytes of password)
   xor (8 repetitions of login challenge), the challenge as the 4 bytes sent on the wire
   (network order, most significant first) --------------------------------------------- *)
Definition be32 (s : N) : list N :=
  [(s / 16777216) mod 256; (s / 65536) mod 256; (s / 256) mod 256; s mod 256].
Definition rep8 (l : list N) : list N := concat (repeat l 8).
Definition doc_block (p : list N) (s : N) : list N := map2 N.lxor (pad32 p) (rep8 (be32 s)).
