(* DomainProofs.v -- lemmas about the model of check_topdomain / query_datalen (Domain.v):
   the model agrees with the declarative specifications valid_domain_spec / match_spec. *)
From Coq Require Import List NArith Arith Bool Lia ZArith ZifyBool ZifyNat ZifyN.
From Iodine Require Import Base Generated.SrcConsts Domain.
Import ListNotations.
Local Open Scope N_scope.

Ltac Zify.zify_post_hook ::= Z.div_mod_to_equations.

(* the source constants the statements depend on; a changed limit breaks this lemma *)
Lemma src_consts :
  src_TOPDOMAIN_MIN = 3 /\ src_TOPDOMAIN_MAX = 128 /\ src_TOPDOMAIN_LABEL_MAX = 63 /\
  src_TOPDOMAIN_LABEL_MAX_END = 63 /\ src_QUERY_DATALEN_MIN = 3.
Proof. repeat split; reflexivity. Qed.

(* ------------------------------------------------------------------------------------ *)
(* characters *)

Lemma td_plain_char_iff c : td_plain_char c = true <-> dom_char c.
Proof.
  unfold td_plain_char, dom_char, is_lower, is_upper, is_digit, ch_dash, ch_dot. lia.
Qed.

Lemma dom_char_not_star c : dom_char c -> c <> ch_star.
Proof. unfold dom_char, ch_star, ch_dash, ch_dot. lia. Qed.

Lemma tolower_ci a b : tolower a = tolower b <-> ci_eq a b.
Proof.
  unfold tolower, ci_eq, is_upper.
  destruct ((65 <=? a) && (a <=? 90)) eqn:Ea; destruct ((65 <=? b) && (b <=? 90)) eqn:Eb; lia.
Qed.

Lemma tolower_dot c : tolower c = tolower ch_dot -> c = ch_dot.
Proof.
  unfold tolower, is_upper, ch_dot. simpl.
  destruct ((65 <=? c) && (c <=? 90)) eqn:Ec; lia.
Qed.

(* ------------------------------------------------------------------------------------ *)
(* check_topdomain: the loop = character test /\ label bookkeeping *)

Fixpoint chars_okb (w first : bool) (s : list N) : bool :=
  match s with
  | [] => true
  | c :: t => (td_plain_char c || (w && (c =? ch_star) && first && (hd 0 t =? ch_dot)))
              && chars_okb w false t
  end.

Fixpoint lab_loop (dots cl : N) (s : list N) : option (N * N) :=
  match s with
  | [] => Some (dots, cl)
  | c :: t => if c =? ch_dot then
                if cl =? 0 then None else if 63 <? cl then None else lab_loop (dots + 1) 0 t
              else lab_loop dots (cl + 1) t
  end.

Lemma ct_loop_split s : forall w first dots cl r,
  ct_loop w first dots cl s = Some r <-> chars_okb w first s = true /\ lab_loop dots cl s = Some r.
Proof.
  destruct src_consts as [_ [_ [Klab _]]].
  induction s as [|c t IH]; intros w first dots cl r; simpl.
  - tauto.
  - rewrite Klab.
    destruct (c =? ch_dot) eqn:Ed.
    + assert (Hp : td_plain_char c = true) by (apply td_plain_char_iff; unfold dom_char, ch_dot in *; lia).
      rewrite Hp. simpl.
      destruct (cl =? 0); [intuition discriminate|].
      destruct (63 <? cl); [intuition discriminate|]. apply IH.
    + destruct (td_plain_char c) eqn:Hp; simpl; [apply IH|].
      destruct w; simpl; [|intuition discriminate].
      destruct (c =? ch_star); simpl; [|intuition discriminate].
      destruct first; simpl; [|intuition discriminate].
      destruct (hd 0 t =? ch_dot); simpl; [apply IH|intuition discriminate].
Qed.

Lemma chars_okb_false w s : chars_okb w false s = true <-> Forall dom_char s.
Proof.
  induction s as [|c t IH]; simpl.
  - split; [constructor|reflexivity].
  - rewrite andb_false_r, andb_false_l, orb_false_r, andb_true_iff, IH, td_plain_char_iff.
    split; [intros [H1 H2]; constructor; assumption|intros H; inversion H; tauto].
Qed.

Lemma chars_okb_true w s :
  chars_okb w true s = true <->
  Forall dom_char s \/ (w = true /\ exists t, s = ch_star :: ch_dot :: t /\ Forall dom_char t).
Proof.
  destruct s as [|c t]; simpl.
  - split; [left; constructor|reflexivity].
  - rewrite andb_true_iff, orb_true_iff, chars_okb_false, td_plain_char_iff. split.
    + intros [[Hc|Hw] Ht].
      * left. constructor; assumption.
      * right. rewrite !andb_true_iff in Hw. destruct Hw as [[[Hw Hs] _] Hd].
        split; [exact Hw|]. destruct t as [|d t']; simpl in Hd; [unfold ch_dot in Hd; lia|].
        exists t'. apply N.eqb_eq in Hs, Hd. subst. split; [reflexivity|]. inversion Ht; assumption.
    + intros [H|[Hw [t' [E Ht']]]].
      * inversion H; subst. tauto.
      * inversion E; subst. split.
        -- right. reflexivity.
        -- constructor; [unfold dom_char; tauto|exact Ht'].
Qed.

(* ------------------------------------------------------------------------------------ *)
(* label bookkeeping against join_dot *)

Definition nodot (l : list N) : Prop := ~ In ch_dot l.
Definition lenok (l : list N) : Prop := (1 <= length l <= 63)%nat.

Lemma lab_loop_nodot l : nodot l -> forall dots cl,
  lab_loop dots cl l = Some (dots, cl + N.of_nat (length l)).
Proof.
  induction l as [|c t IH]; intros Hn dots cl; simpl.
  - f_equal. f_equal. lia.
  - destruct (c =? ch_dot) eqn:E.
    + exfalso. apply Hn. left. apply N.eqb_eq in E. exact E.
    + rewrite IH by (intros Hin; apply Hn; right; exact Hin). f_equal. f_equal. lia.
Qed.

Lemma lab_loop_app l r : nodot l -> forall dots cl,
  lab_loop dots cl (l ++ ch_dot :: r) =
  if cl + N.of_nat (length l) =? 0 then None
  else if 63 <? cl + N.of_nat (length l) then None
  else lab_loop (dots + 1) 0 r.
Proof.
  induction l as [|c t IH]; intros Hn dots cl.
  - simpl. replace (cl + 0) with cl by lia. reflexivity.
  - change ((c :: t) ++ ch_dot :: r) with (c :: (t ++ ch_dot :: r)).
    cbn [lab_loop]. destruct (c =? ch_dot) eqn:E.
    + exfalso. apply Hn. left. apply N.eqb_eq in E. exact E.
    + rewrite IH by (intros Hin; apply Hn; right; exact Hin).
      replace (cl + 1 + N.of_nat (length t)) with (cl + N.of_nat (length (c :: t))) by (simpl length; lia).
      reflexivity.
Qed.

Lemma lab_loop_join : forall ls l dots cl, Forall nodot (l :: ls) -> forall d' c',
  lab_loop dots cl (join_dot (l :: ls)) = Some (d', c') <->
  d' = dots + N.of_nat (length ls) /\
  match ls with
  | [] => c' = cl + N.of_nat (length l)
  | _ => 1 <= cl + N.of_nat (length l) <= 63 /\ Forall lenok (removelast ls) /\
         c' = N.of_nat (length (last ls []))
  end.
Proof.
  induction ls as [|l2 ls' IH]; intros l dots cl Hn d' c'.
  - simpl. inversion Hn; subst. rewrite lab_loop_nodot by assumption.
    split; [intros H; inversion H; subst; split; [lia|reflexivity]|].
    intros [-> ->]. f_equal. f_equal. lia.
  - change (join_dot (l :: l2 :: ls')) with (l ++ ch_dot :: join_dot (l2 :: ls')).
    inversion Hn as [|? ? Hl Hrest]; subst.
    rewrite lab_loop_app by assumption.
    destruct (cl + N.of_nat (length l) =? 0) eqn:E0; [split; [discriminate|lia]|].
    destruct (63 <? cl + N.of_nat (length l)) eqn:E1; [split; [discriminate|lia]|].
    rewrite (IH l2 (dots + 1) 0 Hrest d' c').
    destruct ls' as [|l3 ls''].
    + simpl. unfold lenok. split.
      * intros [-> ->]. repeat split; try lia. constructor.
      * intros [-> [_ [_ ->]]]. split; lia.
    + change (removelast (l2 :: l3 :: ls'')) with (l2 :: removelast (l3 :: ls'')).
      change (last (l2 :: l3 :: ls'') []) with (last (l3 :: ls'') []).
      simpl length. split.
      * intros [-> [H1 [H2 ->]]]. repeat split; try lia.
        constructor; [unfold lenok; lia|exact H2].
      * intros [-> [_ [H2 ->]]]. inversion H2 as [|? ? Hl2 H3]; subst. unfold lenok in Hl2.
        repeat split; try lia. exact H3.
Qed.

Lemma Forall_removelast_last {A} (P : A -> Prop) (ls : list A) d :
  ls <> [] -> (Forall P ls <-> Forall P (removelast ls) /\ P (last ls d)).
Proof.
  intros Hne. rewrite (app_removelast_last d Hne) at 1. rewrite Forall_app.
  split; intros [H1 H2]; split; try assumption.
  - inversion H2; assumption.
  - constructor; [assumption|constructor].
Qed.

(* the whole label condition: >= 2 labels, all of 1..63 chars *)
Lemma lab_loop_labels ls : Forall nodot ls -> ls <> [] ->
  ((exists d' c', lab_loop 0 0 (join_dot ls) = Some (d', c') /\ d' <> 0 /\ c' <> 0 /\ c' <= 63)
   <-> (2 <= length ls)%nat /\ Forall lenok ls).
Proof.
  intros Hn Hne. destruct ls as [|l ls']; [congruence|]. split.
  - intros [d' [c' [H [Hd [Hc0 Hc]]]]]. apply (lab_loop_join ls' l 0 0 Hn) in H.
    destruct H as [-> H]. destruct ls' as [|l2 ls'']; [simpl in Hd; lia|].
    destruct H as [H1 [H2 ->]]. split; [simpl; lia|].
    constructor; [unfold lenok; lia|].
    apply (Forall_removelast_last lenok (l2 :: ls'') []); [discriminate|].
    split; [exact H2|unfold lenok; lia].
  - intros [Hlen Hall]. destruct ls' as [|l2 ls'']; [simpl in Hlen; lia|].
    inversion Hall as [|? ? Hl Hrest]; subst.
    apply (Forall_removelast_last lenok (l2 :: ls'') []) in Hrest; [|discriminate].
    destruct Hrest as [Hr Hlast]. unfold lenok in Hl, Hlast.
    exists (0 + N.of_nat (length (l2 :: ls''))), (N.of_nat (length (last (l2 :: ls'') []))).
    split; [|change (length (l2 :: ls'')) with (S (length ls'')); lia].
    apply (lab_loop_join (l2 :: ls'') l 0 0 Hn). split; [reflexivity|].
    repeat split; try lia. exact Hr.
Qed.

(* every string splits at its dots *)
Fixpoint split_dot (s : list N) : list (list N) :=
  match s with
  | [] => [[]]
  | c :: t => if c =? ch_dot then [] :: split_dot t
              else match split_dot t with
                   | l :: ls => (c :: l) :: ls
                   | [] => [[c]]
                   end
  end.

Lemma split_dot_ok s :
  s = join_dot (split_dot s) /\ Forall nodot (split_dot s) /\ split_dot s <> [].
Proof.
  induction s as [|c t [IH1 [IH2 IH3]]]; simpl.
  - repeat split; [constructor; [intros []|constructor]|discriminate].
  - destruct (c =? ch_dot) eqn:E.
    + apply N.eqb_eq in E. subst c. repeat split; [| |discriminate].
      * destruct (split_dot t) as [|l ls]; [congruence|].
        change (join_dot ([] :: l :: ls)) with (ch_dot :: join_dot (l :: ls)). congruence.
      * constructor; [intros []|exact IH2].
    + destruct (split_dot t) as [|l ls]; [congruence|]. repeat split; [| |discriminate].
      * destruct ls as [|l2 ls']; simpl in *; congruence.
      * inversion IH2; subst. constructor; [|assumption].
        intros [H|H]; [apply N.eqb_neq in E; congruence|contradiction].
Qed.

Lemma join_dot_hd_nodot l ls : nodot l -> l <> [] -> hd 0 (join_dot (l :: ls)) <> ch_dot.
Proof.
  intros Hn Hne. destruct l as [|c t]; [congruence|].
  assert (Hc : c <> ch_dot) by (intros ->; apply Hn; left; reflexivity).
  destruct ls; exact Hc.
Qed.

Lemma check_topdomain_iff s w : check_topdomain s w = true <-> valid_domain_spec s w.
Proof.
  destruct src_consts as [Kmin [Kmax [_ [Klabe _]]]].
  unfold check_topdomain, valid_domain_spec. rewrite Kmin, Kmax, Klabe.
  split.
  - intros H.
    destruct (length s <? N.to_nat 3)%nat eqn:E1; [discriminate|].
    destruct (N.to_nat 128 <? length s)%nat eqn:E2; [discriminate|].
    destruct (hd 0 s =? ch_dot) eqn:E3; [discriminate|].
    destruct (ct_loop w true 0 0 s) as [[dots cl]|] eqn:E4; [|discriminate].
    destruct (dots =? 0) eqn:E5; [discriminate|].
    destruct (cl =? 0) eqn:E6; [discriminate|].
    destruct (63 <? cl) eqn:E7; [discriminate|].
    apply ct_loop_split in E4. destruct E4 as [Hch Hlab].
    split; [lia|]. split; [apply chars_okb_true, Hch|].
    destruct (split_dot_ok s) as [Hs [Hn Hne]].
    exists (split_dot s). split; [exact Hs|]. split; [exact Hn|].
    apply (lab_loop_labels (split_dot s) Hn Hne).
    exists dots, cl. rewrite <- Hs. split; [exact Hlab|lia].
  - intros [Hlen [Hch [ls [Hs [Hn [H2 Hall]]]]]].
    assert (Hne : ls <> []) by (destruct ls; [simpl in H2; lia|discriminate]).
    destruct (proj2 (lab_loop_labels ls Hn Hne) (conj H2 Hall)) as [d' [c' [Hlab [Hd [Hc0 Hc]]]]].
    assert (E4 : ct_loop w true 0 0 s = Some (d', c')).
    { apply ct_loop_split. split; [apply chars_okb_true, Hch|rewrite Hs; exact Hlab]. }
    rewrite E4.
    destruct (length s <? N.to_nat 3)%nat eqn:E1; [lia|].
    destruct (N.to_nat 128 <? length s)%nat eqn:E2; [lia|].
    assert (E3 : hd 0 s =? ch_dot = false).
    { apply N.eqb_neq. destruct ls as [|l ls']; [congruence|]. rewrite Hs.
      inversion Hn; subst. inversion Hall as [|? ? Hl _]; subst.
      apply join_dot_hd_nodot; [assumption|]. destruct l; [simpl in Hl; lia|discriminate]. }
    rewrite E3.
    destruct (d' =? 0) eqn:E5; [lia|]. destruct (c' =? 0) eqn:E6; [lia|].
    destruct (63 <? c') eqn:E7; [lia|]. reflexivity.
Qed.

(* ------------------------------------------------------------------------------------ *)
(* query_datalen *)

Definition nostar (l : list N) : Prop := ~ In ch_star l.

Lemma Forall2_len {A B} (R : A -> B -> Prop) x y : Forall2 R x y -> length x = length y.
Proof. induction 1; simpl; congruence. Qed.

Lemma ci_eql_map x y : ci_eql x y <-> map tolower x = map tolower y.
Proof.
  unfold ci_eql. split.
  - induction 1 as [|a b x y Hab _ IH]; simpl; [reflexivity|].
    f_equal; [apply tolower_ci; exact Hab|exact IH].
  - revert y. induction x as [|a x IH]; intros [|b y] H; simpl in H; try discriminate; [constructor|].
    inversion H. constructor; [apply tolower_ci; assumption|apply IH; assumption].
Qed.

Lemma map_tolower_rev x y : map tolower x = map tolower y -> map tolower (rev x) = map tolower (rev y).
Proof. intros H. rewrite !map_rev, H. reflexivity. Qed.

Lemma qd_scan_cons qc rq' dc rd' :
  qd_scan (qc :: rq') (dc :: rd') =
  if dc =? ch_star then
    if qc =? ch_star then None
    else if at_boundary rq' then Some (length rq')
    else qd_scan rq' (dc :: rd')
  else if tolower qc =? tolower dc then
    match rd' with
    | [] => if at_boundary rq' then Some (length rq') else None
    | _ => qd_scan rq' rd'
    end
  else None.
Proof. reflexivity. Qed.

(* a star-free stretch rd1 of the domain, followed by more domain characters rd2 *)
Lemma scan_app_match rd1 : forall rm r rd2, nostar rd1 -> rd2 <> [] ->
  map tolower rm = map tolower rd1 -> qd_scan (rm ++ r) (rd1 ++ rd2) = qd_scan r rd2.
Proof.
  induction rd1 as [|dc rd1 IH]; intros rm r rd2 Hns Hne Hm.
  - destruct rm; [reflexivity|discriminate].
  - destruct rm as [|qc rm]; [discriminate|]. simpl in Hm. inversion Hm as [[Hc Hm']].
    change ((qc :: rm) ++ r) with (qc :: (rm ++ r)).
    change ((dc :: rd1) ++ rd2) with (dc :: (rd1 ++ rd2)).
    rewrite qd_scan_cons.
    destruct (dc =? ch_star) eqn:Es.
    { exfalso. apply Hns. left. apply N.eqb_eq in Es. exact Es. }
    rewrite Hc, N.eqb_refl.
    assert (Hns' : nostar rd1) by (intros Hin; apply Hns; right; exact Hin).
    destruct (rd1 ++ rd2) as [|z zs] eqn:E.
    { destruct rd1; simpl in E; [congruence|discriminate]. }
    rewrite <- E. apply IH; assumption.
Qed.

Lemma scan_app_inv rd1 : forall rq rd2 n, nostar rd1 -> rd2 <> [] ->
  qd_scan rq (rd1 ++ rd2) = Some n ->
  exists rm r, rq = rm ++ r /\ map tolower rm = map tolower rd1 /\ qd_scan r rd2 = Some n.
Proof.
  induction rd1 as [|dc rd1 IH]; intros rq rd2 n Hns Hne H.
  - exists [], rq. repeat split. exact H.
  - destruct rq as [|qc rq']; [discriminate|].
    change ((dc :: rd1) ++ rd2) with (dc :: (rd1 ++ rd2)) in H.
    rewrite qd_scan_cons in H.
    destruct (dc =? ch_star) eqn:Es.
    { exfalso. apply Hns. left. apply N.eqb_eq in Es. exact Es. }
    destruct (tolower qc =? tolower dc) eqn:Et; [|discriminate].
    assert (Hns' : nostar rd1) by (intros Hin; apply Hns; right; exact Hin).
    destruct (rd1 ++ rd2) as [|z zs] eqn:E.
    { destruct rd1; simpl in E; [congruence|discriminate]. }
    rewrite <- E in H. destruct (IH rq' rd2 n Hns' Hne H) as [rm [r [Hq [Hm Hr]]]].
    exists (qc :: rm), r. subst rq'. repeat split; [|exact Hr].
    simpl. f_equal; [apply N.eqb_eq; exact Et|exact Hm].
Qed.

(* the last (= first) domain character, plain *)
Lemma scan_last_plain dc rq n : dc <> ch_star ->
  (qd_scan rq [dc] = Some n <->
   exists qc rq', rq = qc :: rq' /\ tolower qc = tolower dc /\ at_boundary rq' = true /\ n = length rq').
Proof.
  intros Hs. destruct rq as [|qc rq'].
  - split; [discriminate|intros [? [? [H _]]]; discriminate].
  - rewrite qd_scan_cons. apply N.eqb_neq in Hs. rewrite Hs. split.
    + destruct (tolower qc =? tolower dc) eqn:Et; [|discriminate].
      destruct (at_boundary rq') eqn:Eb; [|discriminate].
      intros H. injection H as <-. exists qc, rq'.
      split; [reflexivity|]. split; [apply N.eqb_eq; exact Et|]. split; [exact Eb|reflexivity].
    + intros [qc' [rq'' [E [Ht [Hb ->]]]]]. inversion E; subst.
      rewrite Ht, N.eqb_refl, Hb. reflexivity.
Qed.

(* the wildcard: scans one label *)
Lemma scan_star_ok lbl : forall r, lbl <> [] -> nostar lbl -> nodot (tl lbl) -> at_boundary r = true ->
  qd_scan (lbl ++ r) [ch_star] = Some (length r).
Proof.
  induction lbl as [|x t IH]; intros r Hne Hns Hnd Hb; [congruence|].
  change ((x :: t) ++ r) with (x :: (t ++ r)). rewrite qd_scan_cons.
  change (ch_star =? ch_star) with true. cbv iota.
  destruct (x =? ch_star) eqn:Ex.
  { exfalso. apply Hns. left. apply N.eqb_eq in Ex. exact Ex. }
  destruct t as [|y t'].
  - simpl. rewrite Hb. reflexivity.
  - assert (Hy : at_boundary ((y :: t') ++ r) = false).
    { simpl. apply N.eqb_neq. intros ->. apply Hnd. left. reflexivity. }
    rewrite Hy. apply IH; [discriminate| | |exact Hb].
    + intros Hin. apply Hns. right. exact Hin.
    + intros Hin. apply Hnd. right. exact Hin.
Qed.

Lemma scan_star_inv : forall rq n, qd_scan rq [ch_star] = Some n ->
  exists lbl r, rq = lbl ++ r /\ lbl <> [] /\ nostar lbl /\ nodot (tl lbl) /\
                at_boundary r = true /\ n = length r.
Proof.
  induction rq as [|qc rq' IH]; intros n H; [discriminate|].
  rewrite qd_scan_cons in H. change (ch_star =? ch_star) with true in H. cbv iota in H.
  destruct (qc =? ch_star) eqn:Eq; [discriminate|]. apply N.eqb_neq in Eq.
  destruct (at_boundary rq') eqn:Eb.
  - inversion H. exists [qc], rq'. repeat split; [discriminate| |intros []|exact Eb].
    intros [Hin|[]]. congruence.
  - destruct (IH n H) as [lbl [r [Hq [Hne [Hns [Hnd [Hb Hn]]]]]]].
    exists (qc :: lbl), r. subst rq'. repeat split; [discriminate| | |exact Hb|exact Hn].
    + intros [Hin|Hin]; [congruence|exact (Hns Hin)].
    + simpl. destruct lbl as [|y t]; [congruence|].
      intros [Hin|Hin]; [|exact (Hnd Hin)].
      simpl in Eb. subst y. unfold ch_dot in Eb. simpl in Eb. discriminate.
Qed.

Lemma at_boundary_rev pre : at_boundary (rev pre) = true <-> boundary pre.
Proof.
  unfold boundary. split.
  - intros H. destruct (rev pre) as [|p l] eqn:E.
    + left. rewrite <- (rev_involutive pre), E. reflexivity.
    + right. simpl in H. apply N.eqb_eq in H. subst p. exists (rev l).
      rewrite <- (rev_involutive pre), E. reflexivity.
  - intros [->|[p ->]]; [reflexivity|]. rewrite rev_app_distr. simpl. reflexivity.
Qed.

Lemma no_dotdot_app a : forall x y b, no_dotdot (a ++ x :: y :: b) = true -> ~ (x = ch_dot /\ y = ch_dot).
Proof.
  induction a as [|c a IH]; intros x y b H [Hx Hy].
  - subst. simpl in H. discriminate.
  - simpl in H. apply andb_true_iff in H. destruct H as [_ H]. exact (IH x y b H (conj Hx Hy)).
Qed.

Lemma nostar_rev l : nostar l -> nostar (rev l).
Proof. intros H Hin. apply H. apply in_rev. exact Hin. Qed.

Lemma Forall_dom_nostar l : Forall dom_char l -> nostar l.
Proof.
  intros H Hin. rewrite Forall_forall in H. exact (dom_char_not_star _ (H _ Hin) eq_refl).
Qed.

Lemma in_tl {A} (x : A) l : In x (tl l) -> In x l.
Proof. destruct l; [intros []|intros H; right; exact H]. Qed.

(* shape of an accepted domain *)
Lemma accepted_shape d w : check_topdomain d w = true ->
  (3 <= length d)%nat /\
  (Forall dom_char d \/ exists t, d = ch_star :: ch_dot :: t /\ Forall dom_char t).
Proof.
  intros H. apply check_topdomain_iff in H. destruct H as [[H3 _] [Hc _]].
  split; [exact H3|]. destruct Hc as [Hc|[_ Ht]]; [left; exact Hc|right; exact Ht].
Qed.

(* plain domain *)
Lemma qd_plain q d n : (3 <= length d)%nat -> Forall dom_char d ->
  (query_datalen q d = Some n <-> match_spec q d n).
Proof.
  destruct src_consts as [_ [_ [_ [_ Kq]]]].
  intros H3 Hc. unfold query_datalen. rewrite Kq.
  destruct d as [|c0 d']; [simpl in H3; lia|].
  assert (Hns : nostar (c0 :: d')) by (apply Forall_dom_nostar; exact Hc).
  assert (Hc0 : c0 <> ch_star) by (intros ->; apply Hns; left; reflexivity).
  assert (Hns' : nostar (rev d')).
  { apply nostar_rev. intros Hin. apply Hns. right. exact Hin. }
  assert (E1 : (length (c0 :: d') <? N.to_nat 3)%nat = false) by lia. rewrite E1, orb_false_l.
  split.
  - destruct (length q <? length (c0 :: d'))%nat eqn:E2; [discriminate|].
    change (rev (c0 :: d')) with (rev d' ++ [c0]). intros H.
    apply scan_app_inv in H; [|exact Hns'|discriminate].
    destruct H as [rm [r [Hq [Hm Hr]]]].
    apply (scan_last_plain c0 r n Hc0) in Hr. destruct Hr as [qc [rq' [-> [Ht [Hb ->]]]]].
    exists (rev rq'), (qc :: rev rm). repeat split.
    + rewrite <- (rev_involutive q), Hq, rev_app_distr. simpl. rewrite <- app_assoc. reflexivity.
    + apply rev_length.
    + apply at_boundary_rev. rewrite rev_involutive. exact Hb.
    + left. split; [exact Hc0|]. apply ci_eql_map. simpl. f_equal; [exact Ht|].
      apply map_tolower_rev in Hm. rewrite rev_involutive in Hm. exact Hm.
  - intros [pre [m [-> [Hn [Hb Hm]]]]]. destruct Hm as [[_ Hm]|[rest [? [? [E _]]]]].
    2:{ inversion E. congruence. }
    pose proof (Forall2_len _ _ _ Hm) as Hlen.
    destruct m as [|mc m']; [discriminate|].
    apply ci_eql_map in Hm. simpl in Hm. inversion Hm as [[Hmc Hm']].
    assert (E2 : (length (pre ++ mc :: m') <? length (c0 :: d'))%nat = false).
    { rewrite app_length. lia. }
    rewrite E2. rewrite rev_app_distr. simpl rev. rewrite <- app_assoc. simpl app.
    rewrite scan_app_match; [|exact Hns'|discriminate|apply map_tolower_rev; exact Hm'].
    apply (scan_last_plain c0 _ n Hc0). exists mc, (rev pre). repeat split.
    + exact Hmc.
    + apply at_boundary_rev. exact Hb.
    + rewrite rev_length. symmetry. exact Hn.
Qed.

(* wildcard domain: every name the specification accepts is matched (no hypothesis on q) *)
Lemma qd_wild_complete q t n : (1 <= length t)%nat -> Forall dom_char t ->
  match_spec q (ch_star :: ch_dot :: t) n -> query_datalen q (ch_star :: ch_dot :: t) = Some n.
Proof.
  destruct src_consts as [_ [_ [_ [_ Kq]]]].
  intros Ht1 Hc. unfold query_datalen. rewrite Kq.
  set (rest := ch_dot :: t).
  assert (Hcr : Forall dom_char rest) by (constructor; [unfold dom_char; tauto|exact Hc]).
  assert (Hns' : nostar (rev rest)) by (apply nostar_rev, Forall_dom_nostar; exact Hcr).
  change (rev (ch_star :: rest)) with (rev rest ++ [ch_star]).
  intros [pre [m [-> [Hn [Hb Hm]]]]].
    destruct Hm as [[Hh _]|[rest0 [lbl [rest' [E [-> [Hne [Hnd [Hns Hci]]]]]]]]].
    { exfalso. apply Hh. reflexivity. }
    inversion E as [E']. subst rest0.
    pose proof (Forall2_len _ _ _ Hci) as Hlen. apply ci_eql_map in Hci.
    assert (Hl : (1 <= length lbl)%nat) by (destruct lbl; [congruence|simpl; lia]).
    assert (E1 : ((length (ch_star :: rest) <? N.to_nat 3)%nat
                  || (length (pre ++ lbl ++ rest') <? length (ch_star :: rest))%nat) = false).
    { rewrite !app_length. unfold rest in *. simpl length in *. lia. }
    rewrite E1. rewrite !rev_app_distr, <- app_assoc.
    rewrite scan_app_match; [|exact Hns'|discriminate|apply map_tolower_rev; exact Hci].
    rewrite scan_star_ok.
    + rewrite rev_length, Hn. reflexivity.
    + intros E0. apply Hne. rewrite <- (rev_involutive lbl), E0. reflexivity.
    + apply nostar_rev. exact Hns.
    + intros Hin. apply in_tl, in_rev in Hin. exact (Hnd Hin).
    + apply at_boundary_rev. exact Hb.
Qed.

(* wildcard domain: both directions; a matched name is in the domain only if it has no ".." *)
Lemma qd_wild q t n : (1 <= length t)%nat -> Forall dom_char t -> no_dotdot q = true ->
  (query_datalen q (ch_star :: ch_dot :: t) = Some n <-> match_spec q (ch_star :: ch_dot :: t) n).
Proof.
  destruct src_consts as [_ [_ [_ [_ Kq]]]].
  intros Ht1 Hc Hdd. unfold query_datalen. rewrite Kq.
  set (rest := ch_dot :: t).
  assert (Hcr : Forall dom_char rest) by (constructor; [unfold dom_char; tauto|exact Hc]).
  assert (Hns' : nostar (rev rest)) by (apply nostar_rev, Forall_dom_nostar; exact Hcr).
  change (rev (ch_star :: rest)) with (rev rest ++ [ch_star]).
  split.
  - destruct ((length (ch_star :: rest) <? N.to_nat 3)%nat || (length q <? length (ch_star :: rest))%nat);
      [discriminate|].
    intros H. apply scan_app_inv in H; [|exact Hns'|discriminate].
    destruct H as [rm [r [Hq [Hm Hr]]]].
    apply scan_star_inv in Hr. destruct Hr as [rl [r' [-> [Hne [Hns [Hnd [Hb ->]]]]]]].
    assert (Eq : q = rev r' ++ rev rl ++ rev rm).
    { rewrite <- (rev_involutive q), Hq, !rev_app_distr, <- app_assoc. reflexivity. }
    apply map_tolower_rev in Hm. rewrite rev_involutive in Hm.
    exists (rev r'), (rev rl ++ rev rm). repeat split.
    + exact Eq.
    + apply rev_length.
    + apply at_boundary_rev. rewrite rev_involutive. exact Hb.
    + right. exists rest, (rev rl), (rev rm). repeat split.
      * intros E. apply Hne. rewrite <- (rev_involutive rl), E. reflexivity.
      * (* no dot in the label: all but its last char by the scan, the last one by no ".." *)
        intros Hin. apply in_rev in Hin. destruct rl as [|x tl0]; [congruence|].
        destruct Hin as [Hx|Hin]; [|exact (Hnd Hin)].
        destruct (rev rm) as [|z zs] eqn:Erm; [discriminate|].
        unfold rest in Hm. simpl in Hm. injection Hm as Hz _.
        apply tolower_dot in Hz.
        simpl rev in Eq. rewrite <- !app_assoc in Eq. simpl app in Eq.
        rewrite app_assoc in Eq. rewrite Eq in Hdd.
        exact (no_dotdot_app _ _ _ _ Hdd (conj Hx Hz)).
      * intros Hin. apply in_rev in Hin. exact (Hns Hin).
      * apply ci_eql_map. exact Hm.
  - apply qd_wild_complete; assumption.
Qed.

(* the two cases together: any accepted domain *)
Lemma query_datalen_iff q d w n : check_topdomain d w = true -> no_dotdot q = true ->
  (query_datalen q d = Some n <-> match_spec q d n).
Proof.
  intros Hd Hq. destruct (accepted_shape d w Hd) as [H3 [Hc|[t [-> Ht]]]].
  - apply qd_plain; assumption.
  - apply qd_wild; [simpl in H3; lia|exact Ht|exact Hq].
Qed.

(* the part of the iff that needs no hypothesis on the query name *)
Lemma query_datalen_complete q d w n : check_topdomain d w = true ->
  match_spec q d n -> query_datalen q d = Some n.
Proof.
  intros Hd Hm. destruct (accepted_shape d w Hd) as [H3 [Hc|[t [-> Ht]]]].
  - apply qd_plain; assumption.
  - apply qd_wild_complete; [simpl in H3; lia|exact Ht|exact Hm].
Qed.

(* ------------------------------------------------------------------------------------ *)
(* uniqueness of the data length *)

Lemma app_len_inj {A} (a : list A) : forall c b d,
  a ++ b = c ++ d -> length b = length d -> a = c /\ b = d.
Proof.
  induction a as [|x a IH]; intros [|y c] b d H L; simpl in *.
  - tauto.
  - subst b. simpl in L. rewrite app_length in L. lia.
  - subst d. simpl in L. rewrite app_length in L. lia.
  - inversion H; subst. destruct (IH c b d H2 L) as [-> ->]. tauto.
Qed.

Lemma boundary_tl c p : boundary (c :: p) -> boundary p.
Proof.
  intros [H|[x H]]; [discriminate|]. destruct x as [|y x]; simpl in H; inversion H; subst.
  - left. reflexivity.
  - right. exists x. reflexivity.
Qed.

Lemma boundary_in p : boundary p -> p <> [] -> In ch_dot p.
Proof.
  intros [->|[x ->]] Hne; [congruence|]. apply in_or_app. right. left. reflexivity.
Qed.

Lemma split_unique pre1 : forall pre2 l1 l2, pre1 ++ l1 = pre2 ++ l2 ->
  boundary pre1 -> boundary pre2 -> nodot l1 -> nodot l2 -> pre1 = pre2.
Proof.
  induction pre1 as [|c p1 IH]; intros [|c' p2] l1 l2 H B1 B2 N1 N2.
  - reflexivity.
  - exfalso. apply N1. change ([] ++ l1) with l1 in H. rewrite H. apply in_or_app. left.
    apply boundary_in; [exact B2|discriminate].
  - exfalso. apply N2. change ([] ++ l2) with l2 in H. rewrite <- H. apply in_or_app. left.
    apply boundary_in; [exact B1|discriminate].
  - simpl in H. inversion H; subst. f_equal.
    apply (IH p2 l1 l2); try assumption; eapply boundary_tl; eassumption.
Qed.

Lemma match_unique q d n1 n2 : match_spec q d n1 -> match_spec q d n2 -> n1 = n2.
Proof.
  intros [pre1 [m1 [E1 [L1 [B1 M1]]]]] [pre2 [m2 [E2 [L2 [B2 M2]]]]].
  rewrite E1 in E2.
  destruct M1 as [[Hh1 C1]|[rest1 [lbl1 [r1 [D1 [Em1 [Ne1 [Nd1 [Ns1 C1]]]]]]]]];
  destruct M2 as [[Hh2 C2]|[rest2 [lbl2 [r2 [D2 [Em2 [Ne2 [Nd2 [Ns2 C2]]]]]]]]].
  - apply Forall2_len in C1, C2.
    destruct (app_len_inj pre1 pre2 m1 m2 E2) as [-> _]; congruence.
  - exfalso. apply Hh1. rewrite D2. reflexivity.
  - exfalso. apply Hh2. rewrite D1. reflexivity.
  - rewrite D1 in D2. inversion D2; subst rest2.
    apply Forall2_len in C1, C2. subst m1 m2.
    rewrite !app_assoc in E2.
    destruct (app_len_inj _ _ _ _ E2) as [E _]; [congruence|].
    rewrite (split_unique pre1 pre2 lbl1 lbl2 E B1 B2 Nd1 Nd2) in L1. congruence.
Qed.

(* --- the two call sites: the client validates with allow_wildcard = false, the server with true ------- *)

(* what the client accepts contains no '*' at all *)
Lemma client_domain_no_star : forall s, check_topdomain s false = true -> ~ In ch_star s.
Proof.
  intros s H. apply check_topdomain_iff in H. destruct H as (_ & [Hc | (Hw & _)] & _).
  - intros Hin. rewrite Forall_forall in Hc. exact (dom_char_not_star _ (Hc _ Hin) eq_refl).
  - discriminate Hw.
Qed.

(* every domain the client accepts the server accepts too *)
Lemma server_accepts_client_domains : forall s, check_topdomain s false = true -> check_topdomain s true = true.
Proof.
  intros s H. apply check_topdomain_iff. apply check_topdomain_iff in H.
  destruct H as (Hl & [Hc | (Hw & _)] & Hls); [|discriminate Hw].
  split; [exact Hl|]. split; [left; exact Hc|exact Hls].
Qed.

(* and the only domains accepted by the server alone are those with the leading wildcard label *)
Lemma server_only_domains : forall s, check_topdomain s true = true -> check_topdomain s false = false ->
  exists t, s = ch_star :: ch_dot :: t /\ Forall dom_char t.
Proof.
  intros s Ht Hf. apply check_topdomain_iff in Ht. destruct Ht as (Hl & [Hc | (_ & t & Hs & Hct)] & Hls).
  - exfalso. assert (check_topdomain s false = true) as E.
    { apply check_topdomain_iff. split; [exact Hl|]. split; [left; exact Hc|exact Hls]. }
    congruence.
  - exists t. split; assumption.
Qed.
