(* Relay.v -- the family of in-path DNS relays of property C11 as character-wise transformers.
   Model only (proofs are in NegotiateProofs.v).  The semantics are those of the relay of
   harness/h_handshake.c (function xform): for every byte of a query-name label, resp. of a
   host-name label / TXT character string in an answer,
     1. 8-bit:  a byte >= 0x80 is passed (clean), has bit 7 cleared (strip) or makes the relay
                drop the whole datagram (reject);
     2. punct:  '+' (resp. '_') is replaced by '-' (mangle '+' / mangle '_');
     3. case:   letters are kept, folded to lower case, folded to upper case, or flipped
                individually at the relay's whim (random: an oracle says which positions).
   The three steps are applied in this order to the same byte (so strip can produce a letter or a
   '+' that is then folded / mangled).  Length bytes, dots, RDATA of NULL/PRIVATE records, the
   numeric fields of MX/SRV records and the question section of answers are not touched.
   Message-level behaviour: a query for a record type outside the allowed set is answered NOTIMP
   (no tunnel answer), an answer larger than the size limit is dropped, a relay that ignores EDNS0
   forwards the query without OPT and limits answers to 512 bytes. *)
From Coq Require Import List NArith Arith Bool.
From Iodine Require Import Base.
Import ListNotations.
Local Open Scope N_scope.

Inductive rcase := CKeep | CLower | CUpper | CRandom.
Inductive rhigh := HClean | HStrip | HReject.
Inductive rpunct := PKeep | PPlus | PUnder.

(* one direction of a relay: how names (queries) resp. names/text (answers) are transformed *)
Record xf := { x_case : rcase; x_high : rhigh; x_punct : rpunct }.

Definition is_upper (c : N) : bool := (65 <=? c) && (c <=? 90).
Definition is_lower (c : N) : bool := (97 <=? c) && (c <=? 122).
Definition is_letter (c : N) : bool := is_upper c || is_lower c.
Definition flipcase (c : N) : N := if is_upper c then c + 32 else if is_lower c then c - 32 else c.

Definition high_step (h : rhigh) (c : N) : option N :=
  if 128 <=? c then
    match h with HClean => Some c | HStrip => Some (c - 128) | HReject => None end
  else Some c.

Definition punct_step (p : rpunct) (c : N) : N :=
  match p with
  | PKeep => c
  | PPlus => if c =? 43 then 45 else c
  | PUnder => if c =? 95 then 45 else c
  end.

Definition case_step (cs : rcase) (flip : bool) (c : N) : N :=
  match cs with
  | CKeep => c
  | CLower => if is_upper c then c + 32 else c
  | CUpper => if is_lower c then c - 32 else c
  | CRandom => if flip then flipcase c else c
  end.

(* rchar x flip c: what the relay makes of byte c; None = the datagram is rejected.
   flip is the relay's coin for this byte (only consulted by the random-case member). *)
Definition rchar (x : xf) (flip : bool) (c : N) : option N :=
  match high_step (x_high x) c with
  | None => None
  | Some c1 => Some (case_step (x_case x) flip (punct_step (x_punct x) c1))
  end.

(* lifted to strings; the oracle o says which positions the random-case member flips *)
Fixpoint rmap_from (x : xf) (o : nat -> bool) (i : nat) (s : list N) : option (list N) :=
  match s with
  | [] => Some []
  | c :: t =>
      match rchar x (o i) c, rmap_from x o (S i) t with
      | Some c', Some t' => Some (c' :: t')
      | _, _ => None
      end
  end.
Definition rmap (x : xf) (o : nat -> bool) (s : list N) : option (list N) := rmap_from x o 0 s.

Definition det (x : xf) : bool := match x_case x with CRandom => false | _ => true end.
Definition no_flip : nat -> bool := fun _ => false.

Definition all_cases := [CKeep; CLower; CUpper; CRandom].
Definition all_highs := [HClean; HStrip; HReject].
Definition all_puncts := [PKeep; PPlus; PUnder].
Definition all_xf : list xf :=
  flat_map (fun c => flat_map (fun h => map (fun p => {| x_case := c; x_high := h; x_punct := p |}) all_puncts) all_highs) all_cases.
Definition det_xf : list xf := filter det all_xf.

(* identity transformer *)
Definition xf_id : xf := {| x_case := CKeep; x_high := HClean; x_punct := PKeep |}.

(* ---- the whole relay ---------------------------------------------------------------- *)

Record relay := {
  r_q : xf;            (* applied to query names *)
  r_a : xf;            (* applied to names and text in answers *)
  r_types : N;         (* bit mask of record types served, bit i = i-th type of the client's
                          preference order NULL PRIVATE TXT SRV MX CNAME A *)
  r_limit : N;         (* 0: none, else answers larger than this are dropped *)
  r_edns : bool;       (* EDNS0 honoured; if not, answers are limited to 512 bytes *)
  r_rawok : bool       (* direct UDP to the server possible *)
}.

Definition type_allowed (r : relay) (idx : nat) : bool := N.testbit (r_types r) (N.of_nat idx).

(* effective answer-size limit (h_handshake.c relay_answer) *)
Definition answer_limit (r : relay) : N :=
  let base := if r_edns r then (if r_limit r =? 0 then 65536 else r_limit r) else 512 in
  if negb (r_limit r =? 0) && (r_limit r <? base) then r_limit r else base.

Definition passes_size (r : relay) (size : nat) : bool := N.of_nat size <=? answer_limit r.

(* the type sets of the family: every non-empty prefix of the "most widely served first" order
   A, CNAME, MX, SRV, TXT, PRIVATE, NULL (as masks over the client's preference order) and every
   non-empty prefix of the client's preference order itself *)
Definition type_masks_served_first : list N := [64; 96; 112; 120; 124; 126; 127].
Definition type_masks_preferred_first : list N := [1; 3; 7; 15; 31; 63; 127].
Definition size_limits : list N := [0; 4096; 1232; 512].
