(* CodecProofs.v -- proofs about the codec model (C07).  Generic in the codec: everything is
   derived from [wfb c = true], a boolean well-formedness check of the regenerated alphabet
   (rev (sym v) = v, no NUL, 2^k entries) that is discharged by computation for each of the four
   codecs, so an alphabet edit in the source that breaks injectivity breaks the proofs. *)
From Coq Require Import List NArith Arith Bool Lia ZArith ZifyBool ZifyNat ZifyN.
From Iodine Require Import Base Codec.
Import ListNotations.
Local Open Scope N_scope.

Ltac Zify.zify_post_hook ::= Z.div_mod_to_equations.

(* ---------------------------------------------------------------------------------- *)
(* finite facts about the phase tables, for k = 5, 6, 7                                 *)

Definition kok (k : N) : Prop := k = 5 \/ k = 6 \/ k = 7.

Definition ephase_okb (k : N) : bool :=
  forallb (fun j =>
    let j' := (j + 1) mod ephases k in
    (eoff k j <? 8) && (eoff k j' =? (eoff k j + k) mod 8) && (j' <? ephases k) &&
    (eadv k j || eadv k j'))
  (nrange (N.to_nat (ephases k))).

Lemma ephase_ok_all k : kok k -> ephase_okb k = true.
Proof. intros [->|[->| ->]]; vm_compute; reflexivity. Qed.

Lemma ephase_facts k j : kok k -> j < ephases k ->
  eoff k j < 8 /\ eoff k ((j + 1) mod ephases k) = (eoff k j + k) mod 8 /\
  (j + 1) mod ephases k < ephases k /\
  (eadv k j = false -> eadv k ((j + 1) mod ephases k) = true).
Proof.
  intros Hk Hj. pose proof (ephase_ok_all k Hk) as H. unfold ephase_okb in H.
  pose proof (sweep1 _ _ H j) as H1. cbv beta zeta in H1.
  assert (Hj' : j < N.of_nat (N.to_nat (ephases k))) by lia.
  specialize (H1 Hj'). clear H Hj'.
  apply andb_prop in H1. destruct H1 as [H1 H4].
  apply andb_prop in H1. destruct H1 as [H1 H3].
  apply andb_prop in H1. destruct H1 as [H1 H2].
  repeat split; try lia.
  intros Hf. rewrite Hf in H4. simpl in H4. exact H4.
Qed.

Lemma eadv_spec k j : eadv k j = (8 <=? eoff k j + k).
Proof. reflexivity. Qed.

Lemma zero_lt_ephases k : 0 < ephases k.
Proof. unfold ephases. destruct (k =? 6); lia. Qed.

(* ---------------------------------------------------------------------------------- *)
(* well-formed codec                                                                    *)

Definition wfb (c : codec) : bool :=
  ((cbits c =? 5) || (cbits c =? 6) || (cbits c =? 7)) &&
  forallb (fun v => (rev c (sym c v) =? v) && negb (sym c v =? 0) && (sym c v <? 256))
          (nrange (N.to_nat (2 ^ cbits c))).

Lemma wfb_b32 : wfb b32 = true. Proof. vm_compute. reflexivity. Qed.
Lemma wfb_b64 : wfb b64 = true. Proof. vm_compute. reflexivity. Qed.
Lemma wfb_b64u : wfb b64u = true. Proof. vm_compute. reflexivity. Qed.
Lemma wfb_b128 : wfb b128 = true. Proof. vm_compute. reflexivity. Qed.

Section Generic.
Variable c : codec.
Hypothesis Hwf : wfb c = true.
Let k := cbits c.

Lemma k_ok : kok k.
Proof.
  unfold wfb in Hwf. apply andb_prop in Hwf. destruct Hwf as [H _]. unfold kok, k.
  destruct (cbits c =? 5) eqn:E5; [left; lia|].
  destruct (cbits c =? 6) eqn:E6; [right; left; lia|].
  destruct (cbits c =? 7) eqn:E7; [right; right; lia|]. discriminate.
Qed.

Lemma sym_facts v : v < 2 ^ k -> rev c (sym c v) = v /\ sym c v <> 0 /\ sym c v < 256.
Proof.
  intros Hv. unfold wfb in Hwf. apply andb_prop in Hwf. destruct Hwf as [_ H].
  pose proof (sweep1 _ _ H v) as H1. cbv beta in H1.
  assert (Hv' : v < N.of_nat (N.to_nat (2 ^ cbits c))) by (fold k; lia).
  specialize (H1 Hv'). apply andb_prop in H1. destruct H1 as [H1 H3].
  apply andb_prop in H1. destruct H1 as [H1 H2].
  repeat split; try lia.
Qed.

Lemma echar_lt j a b : echar k j a b < 2 ^ k.
Proof. unfold echar. apply N.mod_lt. apply N.pow_nonzero. lia. Qed.

(* an encoded character: symbol of some value below 2^k *)
Definition is_sym (ch : N) : Prop := exists v, v < 2 ^ k /\ ch = sym c v.

Lemma is_sym_nz ch : is_sym ch -> ch <> 0.
Proof. intros [v [Hv ->]]. apply sym_facts, Hv. Qed.

(* ---------------------------------------------------------------------------------- *)
(* unfolding lemmas for the encoder loop                                                *)

Lemma enc_go_0 j d : enc_go c 0 j d = ([], O).
Proof. reflexivity. Qed.

Lemma enc_go_nil cap j : enc_go c cap j [] = ([], O).
Proof. destruct cap; reflexivity. Qed.

Lemma enc_go_adv cap j a d : eadv k j = true ->
  enc_go c (S cap) j (a :: d) =
  (sym c (echar k j a (hd 0 d)) :: fst (enc_go c cap ((j + 1) mod ephases k) d),
   S (snd (enc_go c cap ((j + 1) mod ephases k) d))).
Proof. intros H. cbn [enc_go]. fold k. rewrite H. reflexivity. Qed.

Lemma enc_go_noadv cap j a d : eadv k j = false ->
  enc_go c (S (S cap)) j (a :: d) =
  (sym c (echar k j a (hd 0 d)) :: fst (enc_go c (S cap) ((j + 1) mod ephases k) (a :: d)),
   snd (enc_go c (S cap) ((j + 1) mod ephases k) (a :: d))).
Proof. intros H. cbn [enc_go]. fold k. rewrite H. reflexivity. Qed.

Lemma enc_go_noadv_end j a d : eadv k j = false -> enc_go c 1 j (a :: d) = ([], O).
Proof. intros H. cbn [enc_go]. fold k. rewrite H. reflexivity. Qed.

(* ---------------------------------------------------------------------------------- *)
(* generic invariants of the encoder loop (induction on the capacity)                   *)

(* alphabet purity *)
Lemma enc_go_alpha cap : forall j d, Forall is_sym (fst (enc_go c cap j d)).
Proof.
  induction cap as [|cap IH]; intros j d; [constructor|].
  destruct d as [|a d]; [rewrite enc_go_nil; constructor|].
  destruct (eadv k j) eqn:Ea.
  - rewrite enc_go_adv by exact Ea. cbn [fst]. constructor; [|apply IH].
    eexists; split; [apply echar_lt|reflexivity].
  - destruct cap as [|cap]; [rewrite enc_go_noadv_end by exact Ea; constructor|].
    rewrite enc_go_noadv by exact Ea. cbn [fst]. constructor; [|apply IH].
    eexists; split; [apply echar_lt|reflexivity].
Qed.

(* capacity: never more than cap chars; consumed never more than the input *)
Lemma enc_go_len cap : forall j d,
  (length (fst (enc_go c cap j d)) <= cap)%nat /\ (snd (enc_go c cap j d) <= length d)%nat.
Proof.
  induction cap as [|cap IH]; intros j d; [simpl; lia|].
  destruct d as [|a d]; [rewrite enc_go_nil; simpl; lia|].
  destruct (eadv k j) eqn:Ea.
  - rewrite enc_go_adv by exact Ea. cbn [fst snd length].
    specialize (IH ((j + 1) mod ephases k) d). lia.
  - destruct cap as [|cap]; [rewrite enc_go_noadv_end by exact Ea; simpl; lia|].
    rewrite enc_go_noadv by exact Ea. cbn [fst snd length].
    specialize (IH ((j + 1) mod ephases k) (a :: d)). cbn [length] in IH. lia.
Qed.

(* prefix-monotone in the capacity *)
Lemma enc_go_mono cap1 : forall cap2 j d, (cap1 <= cap2)%nat ->
  prefix (fst (enc_go c cap1 j d)) (fst (enc_go c cap2 j d)) /\
  (snd (enc_go c cap1 j d) <= snd (enc_go c cap2 j d))%nat.
Proof.
  induction cap1 as [|cap1 IH]; intros cap2 j d Hle; [split; [apply prefix_nil|simpl; lia]|].
  destruct cap2 as [|cap2]; [lia|].
  destruct d as [|a d]; [rewrite !enc_go_nil; split; [apply prefix_nil|lia]|].
  destruct (eadv k j) eqn:Ea.
  - rewrite !enc_go_adv by exact Ea. cbn [fst snd].
    destruct (IH cap2 ((j + 1) mod ephases k) d) as [H1 H2]; [lia|].
    split; [apply prefix_cons, H1|lia].
  - destruct cap1 as [|cap1]; [rewrite enc_go_noadv_end by exact Ea; split; [apply prefix_nil|simpl; lia]|].
    destruct cap2 as [|cap2]; [lia|].
    rewrite !enc_go_noadv by exact Ea. cbn [fst snd].
    destruct (IH (S cap2) ((j + 1) mod ephases k) (a :: d)) as [H1 H2]; [lia|].
    split; [apply prefix_cons, H1|lia].
Qed.

(* L1: consumed bytes = completed bytes among the emitted bits;
   L3: the last emitted char completes a byte (no useless trailing char) *)
Lemma enc_go_count cap : forall j d, j < ephases k ->
  let r := enc_go c cap j d in
  let L := N.of_nat (length (fst r)) in
  N.of_nat (snd r) = (eoff k j + k * L) / 8 /\
  (L = 0 \/ (eoff k j + k * L) mod 8 < k).
Proof.
  pose proof k_ok as Hk.
  induction cap as [|cap IH]; intros j d Hj.
  - cbn zeta. rewrite enc_go_0. cbn [fst snd length].
    destruct (ephase_facts k j Hk Hj) as [F1 _]. split; [|left; reflexivity].
    change (N.of_nat 0) with 0. rewrite N.mul_0_r, N.add_0_r. symmetry. apply N.div_small. exact F1.
  - destruct (ephase_facts k j Hk Hj) as [F1 [F2 [F3 F4]]].
    destruct d as [|a d].
    + cbn zeta. rewrite enc_go_nil. cbn [fst snd length]. split; [|left; reflexivity].
      change (N.of_nat 0) with 0. rewrite N.mul_0_r, N.add_0_r. symmetry. apply N.div_small. exact F1.
    + destruct (eadv k j) eqn:Ea.
      * cbn zeta. rewrite enc_go_adv by exact Ea. cbn [fst snd length].
        specialize (IH ((j + 1) mod ephases k) d F3). cbn zeta in IH. destruct IH as [I1 I2].
        rewrite F2 in I1, I2. rewrite eadv_spec in Ea.
        set (L' := length (fst (enc_go c cap ((j + 1) mod ephases k) d))) in *.
        set (n' := snd (enc_go c cap ((j + 1) mod ephases k) d)) in *.
        clearbody L' n'.
        assert (HkL : k = 5 \/ k = 6 \/ k = 7) by exact Hk.
        split.
        -- destruct HkL as [E|[E|E]]; rewrite E in *; lia.
        -- right. destruct I2 as [I2|I2]; destruct HkL as [E|[E|E]]; rewrite E in *; lia.
      * destruct cap as [|cap].
        -- cbn zeta. rewrite enc_go_noadv_end by exact Ea. cbn [fst snd length]. split; [|left; reflexivity].
           change (N.of_nat 0) with 0. rewrite N.mul_0_r, N.add_0_r. symmetry. apply N.div_small. exact F1.
        -- cbn zeta. rewrite enc_go_noadv by exact Ea. cbn [fst snd length].
           pose proof (IH ((j + 1) mod ephases k) (a :: d) F3) as IH'. cbn zeta in IH'. destruct IH' as [I1 I2].
           (* the next phase advances, hence emits at least one char *)
           pose proof (F4 eq_refl) as Ea'.
           rewrite (enc_go_adv cap _ a d Ea') in I1, I2 |- *. cbn [fst snd length] in I1, I2 |- *.
           rewrite F2 in I1, I2. rewrite eadv_spec in Ea.
           set (L'' := length (fst (enc_go c cap (((j + 1) mod ephases k + 1) mod ephases k) d))) in *.
           set (n'' := snd (enc_go c cap (((j + 1) mod ephases k + 1) mod ephases k) d)) in *.
           clearbody L'' n''.
           assert (HkL : k = 5 \/ k = 6 \/ k = 7) by exact Hk.
           split.
           ++ destruct HkL as [E|[E|E]]; rewrite E in *; lia.
           ++ right. destruct I2 as [I2|I2]; destruct HkL as [E|[E|E]]; rewrite E in *; lia.
Qed.

(* L2: if input is left over, the capacity was the reason: either all cap chars were used, or
   one char was undone because it could not complete a byte within the capacity *)
Lemma enc_go_stop cap : forall j d, j < ephases k ->
  let r := enc_go c cap j d in
  let L := N.of_nat (length (fst r)) in
  (snd r < length d)%nat ->
  L = N.of_nat cap \/ (L + 1 = N.of_nat cap /\ (eoff k j + k * L) mod 8 + k < 8).
Proof.
  pose proof k_ok as Hk.
  induction cap as [|cap IH]; intros j d Hj; cbn zeta.
  - rewrite enc_go_0. cbn [fst snd length]. intros _. left. reflexivity.
  - destruct (ephase_facts k j Hk Hj) as [F1 [F2 [F3 F4]]].
    destruct d as [|a d]; [rewrite enc_go_nil; cbn [fst snd length]; lia|].
    destruct (eadv k j) eqn:Ea.
    + rewrite enc_go_adv by exact Ea. cbn [fst snd length]. intros Hlt.
      specialize (IH ((j + 1) mod ephases k) d F3). cbn zeta in IH.
      assert (Hlt' : (snd (enc_go c cap ((j + 1) mod ephases k) d) < length d)%nat) by lia.
      specialize (IH Hlt'). rewrite F2 in IH. rewrite eadv_spec in Ea.
      set (L' := length (fst (enc_go c cap ((j + 1) mod ephases k) d))) in *.
      clearbody L'.
      assert (HkL : k = 5 \/ k = 6 \/ k = 7) by exact Hk.
      destruct IH as [IH|[IH1 IH2]]; [left; lia|right; split; [lia|]].
      destruct HkL as [E|[E|E]]; rewrite E in *; lia.
    + destruct cap as [|cap].
      * rewrite enc_go_noadv_end by exact Ea. cbn [fst snd length]. intros _. right.
        rewrite eadv_spec in Ea. split; [reflexivity|].
        change (N.of_nat 0) with 0. rewrite N.mul_0_r, N.add_0_r, N.mod_small by exact F1. lia.
      * rewrite enc_go_noadv by exact Ea. cbn [fst snd length]. intros Hlt.
        specialize (IH ((j + 1) mod ephases k) (a :: d) F3). cbn zeta in IH.
        specialize (IH Hlt). rewrite F2 in IH. rewrite eadv_spec in Ea.
        set (L' := length (fst (enc_go c (S cap) ((j + 1) mod ephases k) (a :: d)))) in *.
        clearbody L'.
        assert (HkL : k = 5 \/ k = 6 \/ k = 7) by exact Hk.
        destruct IH as [IH|[IH1 IH2]]; [left; lia|right; split; [lia|]].
        destruct HkL as [E|[E|E]]; rewrite E in *; lia.
Qed.


(* ---------------------------------------------------------------------------------- *)
(* decoder: phase facts, unfolding, generic invariants                                  *)

Lemma dphase_facts i : i < dphases k ->
  doff k i < k /\ (i + 1) mod dphases k < dphases k /\
  doff k ((i + 1) mod dphases k) + k * N.of_nat (dadv k i) = doff k i + 8 /\
  (dneed k i = 2%nat /\ doff k i + 8 <= 2 * k \/ dneed k i = 3%nat /\ 2 * k < doff k i + 8 /\ doff k i + 8 <= 3 * k) /\
  (1 <= dadv k i <= dneed k i)%nat.
Proof.
  intros Hi. pose proof k_ok as Hk.
  assert (H : forallb (fun i =>
     let i' := (i + 1) mod dphases k in
     (doff k i <? k) && (i' <? dphases k) &&
     (doff k i' + k * N.of_nat (dadv k i) =? doff k i + 8) &&
     (((dneed k i =? 2)%nat && (doff k i + 8 <=? 2 * k)) ||
      ((dneed k i =? 3)%nat && (2 * k <? doff k i + 8) && (doff k i + 8 <=? 3 * k))) &&
     ((1 <=? dadv k i)%nat && (dadv k i <=? dneed k i)%nat))
    (nrange (N.to_nat (dphases k))) = true).
  { destruct Hk as [E|[E|E]]; rewrite E; vm_compute; reflexivity. }
  pose proof (sweep1 _ _ H i) as H1. cbv beta zeta in H1.
  assert (Hi' : i < N.of_nat (N.to_nat (dphases k))) by lia.
  specialize (H1 Hi'). clear H Hi'.
  repeat (apply andb_prop in H1; let Hx := fresh "G" in destruct H1 as [H1 Hx]).
  apply andb_prop in G. destruct G as [Ga Gb].
  repeat split; lia.
Qed.

Lemma dec_go_0 i s : dec_go c 0 i s = [].
Proof. reflexivity. Qed.

Lemma dec_go_S cap i s :
  dec_go c (S cap) i s =
  let hdr := firstn (dneed k i) s in
  if (length hdr <? dneed k i)%nat then []
  else if existsb (fun x => x =? 0) hdr then []
  else dbyte k i (rev c (nth 0 hdr 0)) (rev c (nth 1 hdr 0)) (rev c (nth 2 hdr 0))
         :: dec_go c cap ((i + 1) mod dphases k) (skipn (dadv k i) s).
Proof. reflexivity. Qed.

Lemma firstn_prefix_full {A} n (s1 s2 : list A) :
  prefix s1 s2 -> length (firstn n s1) = n -> firstn n s2 = firstn n s1.
Proof.
  intros [t ->] H. rewrite firstn_app.
  rewrite firstn_length in H.
  replace (n - length s1)%nat with O by lia. simpl. rewrite app_nil_r. reflexivity.
Qed.

(* prefix-monotone in the capacity and in the input text *)
Lemma dec_go_mono cap1 : forall cap2 i s1 s2, (cap1 <= cap2)%nat -> prefix s1 s2 ->
  prefix (dec_go c cap1 i s1) (dec_go c cap2 i s2).
Proof.
  induction cap1 as [|cap1 IH]; intros cap2 i s1 s2 Hle Hp; [apply prefix_nil|].
  destruct cap2 as [|cap2]; [lia|].
  rewrite !dec_go_S. cbv zeta.
  destruct (length (firstn (dneed k i) s1) <? dneed k i)%nat eqn:E1; [apply prefix_nil|].
  assert (Hl : length (firstn (dneed k i) s1) = dneed k i).
  { pose proof (firstn_le_length (dneed k i) s1). apply Nat.ltb_ge in E1. lia. }
  rewrite (firstn_prefix_full _ _ _ Hp Hl). rewrite E1.
  destruct (existsb (fun x => x =? 0) (firstn (dneed k i) s1)); [apply prefix_nil|].
  apply prefix_cons. apply IH; [lia|]. apply prefix_skipn, Hp.
Qed.

Definition nz (s : list N) : Prop := Forall (fun x => x <> 0) s.

Lemma nz_existsb s : nz s -> existsb (fun x => x =? 0) s = false.
Proof.
  induction 1 as [|x s Hx Hs IH]; [reflexivity|]. simpl. rewrite IH.
  destruct (x =? 0) eqn:E; [lia|reflexivity].
Qed.

Lemma nz_firstn n s : nz s -> nz (firstn n s).
Proof. intros H. unfold nz in *. rewrite Forall_forall in *. intros x Hx. apply H.
  rewrite <- (firstn_skipn n s). apply in_or_app. left. exact Hx.
Qed.

Lemma nz_skipn n s : nz s -> nz (skipn n s).
Proof. intros H. unfold nz in *. rewrite Forall_forall in *. intros x Hx. apply H.
  rewrite <- (firstn_skipn n s). apply in_or_app. right. exact Hx.
Qed.

(* number of bytes decoded from NUL-free text *)
Lemma dec_go_length cap : forall i s, i < dphases k -> nz s ->
  N.of_nat (length (dec_go c cap i s)) =
  N.min (N.of_nat cap) ((k * N.of_nat (length s) - doff k i) / 8).
Proof.
  pose proof k_ok as Hk.
  induction cap as [|cap IH]; intros i s Hi Hs.
  - rewrite dec_go_0. simpl. lia.
  - destruct (dphase_facts i Hi) as [D1 [D2 [D3 [D4 D5]]]].
    rewrite dec_go_S. cbv zeta.
    pose proof (firstn_length (dneed k i) s) as Hfl.
    destruct (length (firstn (dneed k i) s) <? dneed k i)%nat eqn:E1.
    + apply Nat.ltb_lt in E1. cbn [length].
      assert (HkL : k = 5 \/ k = 6 \/ k = 7) by exact Hk.
      set (ls := length s) in *. clearbody ls.
      destruct D4 as [[D4 D4']|[D4 [D4' D4'']]]; rewrite D4 in *;
        destruct HkL as [E|[E|E]]; rewrite E in *; lia.
    + apply Nat.ltb_ge in E1.
      rewrite (nz_existsb _ (nz_firstn _ _ Hs)). cbn [length].
      rewrite Nat2N.inj_succ, (IH _ _ D2 (nz_skipn _ _ Hs)).
      rewrite skipn_length.
      assert (HkL : k = 5 \/ k = 6 \/ k = 7) by exact Hk.
      set (ls := length s) in *. clearbody ls.
      set (adv := dadv k i) in *. clearbody adv.
      set (o' := doff k ((i + 1) mod dphases k)) in *. clearbody o'.
      set (o := doff k i) in *. clearbody o.
      destruct D4 as [[D4 D4']|[D4 [D4' D4'']]]; rewrite D4 in *;
        destruct HkL as [E|[E|E]]; rewrite E in *; lia.
Qed.


(* ---------------------------------------------------------------------------------- *)
(* full-capacity round trip, block by block                                             *)

Lemma sym_nzb v : v < 2 ^ k -> (sym c v =? 0) = false.
Proof. intros Hv. destruct (sym_facts v Hv) as [_ [H _]]. lia. Qed.

Lemma rev_sym v : v < 2 ^ k -> rev c (sym c v) = v.
Proof. intros Hv. apply sym_facts, Hv. Qed.

Lemma dbyte_2 i v0 v1 v2 : doff k i + 8 <= 2 * k -> dbyte k i v0 v1 v2 = dbyte k i v0 v1 0.
Proof. intros H. unfold dbyte. destruct (doff k i + 8 <=? 2 * k) eqn:E; [reflexivity|lia]. Qed.

Lemma enc_adv' cap j j' a d : eadv k j = true -> (j + 1) mod ephases k = j' ->
  enc_go c (S cap) j (a :: d) =
  (sym c (echar k j a (hd 0 d)) :: fst (enc_go c cap j' d), S (snd (enc_go c cap j' d))).
Proof. intros H <-. apply enc_go_adv, H. Qed.

Lemma enc_noadv' cap j j' a d : eadv k j = false -> (j + 1) mod ephases k = j' ->
  enc_go c (S (S cap)) j (a :: d) =
  (sym c (echar k j a (hd 0 d)) :: fst (enc_go c (S cap) j' (a :: d)), snd (enc_go c (S cap) j' (a :: d))).
Proof. intros H <-. apply enc_go_noadv, H. Qed.

Lemma dec_step2 cap i i' adv v0 v1 s :
  dneed k i = 2%nat -> (i + 1) mod dphases k = i' -> dadv k i = adv ->
  v0 < 2 ^ k -> v1 < 2 ^ k ->
  dec_go c (S cap) i (sym c v0 :: sym c v1 :: s) =
  dbyte k i v0 v1 0 :: dec_go c cap i' (skipn adv (sym c v0 :: sym c v1 :: s)).
Proof.
  intros Hn <- <- H0 H1. rewrite dec_go_S. cbv zeta. rewrite Hn. cbn [firstn length nth existsb].
  rewrite (sym_nzb _ H0), (sym_nzb _ H1), !rev_sym by assumption. cbn [orb Nat.ltb Nat.leb].
  f_equal. apply dbyte_2. unfold dneed in Hn. destruct (doff k i + 8 <=? 2 * k) eqn:E; [lia|discriminate].
Qed.

Lemma dec_step3 cap i i' adv v0 v1 v2 s :
  dneed k i = 3%nat -> (i + 1) mod dphases k = i' -> dadv k i = adv ->
  v0 < 2 ^ k -> v1 < 2 ^ k -> v2 < 2 ^ k ->
  dec_go c (S cap) i (sym c v0 :: sym c v1 :: sym c v2 :: s) =
  dbyte k i v0 v1 v2 :: dec_go c cap i' (skipn adv (sym c v0 :: sym c v1 :: sym c v2 :: s)).
Proof.
  intros Hn <- <- H0 H1 H2. rewrite dec_go_S. cbv zeta. rewrite Hn. cbn [firstn length nth existsb].
  rewrite (sym_nzb _ H0), (sym_nzb _ H1), (sym_nzb _ H2), !rev_sym by assumption. cbn [orb Nat.ltb Nat.leb].
  reflexivity.
Qed.

Lemma dec_end cap i s : (length s < dneed k i)%nat -> dec_go c cap i s = [].
Proof.
  intros H. destruct cap; [reflexivity|]. rewrite dec_go_S. cbv zeta.
  destruct (length (firstn (dneed k i) s) <? dneed k i)%nat eqn:E; [reflexivity|].
  apply Nat.ltb_ge in E. rewrite firstn_length in E. lia.
Qed.

End Generic.

(* closed constants that appear after unfolding phase formulas *)
Ltac eval_offs :=
  repeat match goal with
  | |- context [doff ?k ?i] => let v := eval vm_compute in (doff k i) in change (doff k i) with v
  | |- context [eoff ?k ?j] => let v := eval vm_compute in (eoff k j) in change (eoff k j) with v
  end.
Ltac eval_closed :=
  repeat match goal with
  | |- context [N.pow 2 ?e] => let v := eval vm_compute in (N.pow 2 e) in change (N.pow 2 e) with v
  end;
  repeat match goal with
  | |- context [if ?b then _ else _] => let v := eval vm_compute in b in change b with v; cbv iota
  end.
Ltac byte_solve := unfold dbyte, echar; eval_offs; eval_closed; lia.

Lemma bytes_ok_cons a l : bytes_ok (a :: l) -> a < 256 /\ bytes_ok l.
Proof. intros H. inversion H; subst. split; assumption. Qed.

Lemma bytes_ok_hd l : bytes_ok l -> hd 0 l < 256.
Proof. intros H. destruct l; simpl; [lia|]. inversion H; assumption. Qed.

Lemma cons_eq {A} (a b : A) l l' : a = b -> l = l' -> a :: l = b :: l'.
Proof. intros -> ->. reflexivity. Qed.

Ltac bytes_inv :=
  repeat match goal with
  | H : bytes_ok (_ :: _) |- _ => apply bytes_ok_cons in H; let H1 := fresh "Hb" in destruct H as [H1 H]
  end.

Section K5.
Variable c : codec.
Hypothesis Hwf : wfb c = true.
Hypothesis Hk : cbits c = 5.

Ltac side := solve [ rewrite Hk; vm_compute; reflexivity | apply echar_lt | assumption ].
Ltac estep :=
  first [ erewrite (enc_adv' c) ; [ | side | side ]
        | erewrite (enc_noadv' c) ; [ | side | side ] ]; cbn [fst snd hd].
Ltac dstep :=
  first [ erewrite (dec_step2 c Hwf) ; [ | side | side | side | side | side ]
        | erewrite (dec_step3 c Hwf) ; [ | side | side | side | side | side | side ] ]; cbn [skipn].
Ltac dend := rewrite Hk; cbn [length]; vm_compute; lia.
Ltac list_eq := repeat match goal with |- _ :: _ = _ :: _ => apply cons_eq; [byte_solve|] end.
Ltac tail :=
  cbn [length Nat.add]; repeat estep; rewrite ?enc_go_nil; cbn [fst]; repeat dstep;
  rewrite (dec_end c) by dend; rewrite Hk; bytes_inv; list_eq; reflexivity.

Lemma rt_full_5 : forall nb d x y, bytes_ok d -> (length d < 5 * nb)%nat ->
  dec_go c (length d + x) 0 (fst (enc_go c (8 * nb + y) 0 d)) = d.
Proof.
  induction nb as [|nb IH]; intros d x y Hd Hlen; [lia|].
  replace (8 * S nb + y)%nat with (S (S (S (S (S (S (S (S (8 * nb + y))))))))) by lia.
  destruct d as [|b0 d]; [rewrite enc_go_nil; cbn [fst]; apply (dec_end c); dend|].
  destruct d as [|b1 d]; [tail|].
  destruct d as [|b2 d]; [tail|].
  destruct d as [|b3 d]; [tail|].
  destruct d as [|b4 d]; [tail|].
  cbn [length Nat.add]. repeat estep. repeat dstep.
  bytes_inv. rewrite IH; [|assumption|cbn [length] in Hlen; lia].
  pose proof (bytes_ok_hd d Hd) as Hz. set (z := hd 0 d) in *. clearbody z.
  rewrite Hk. list_eq. reflexivity.
Qed.
End K5.

Section K6.
Variable c : codec.
Hypothesis Hwf : wfb c = true.
Hypothesis Hk : cbits c = 6.

Ltac side := solve [ rewrite Hk; vm_compute; reflexivity | apply echar_lt | assumption ].
Ltac estep :=
  first [ erewrite (enc_adv' c) ; [ | side | side ]
        | erewrite (enc_noadv' c) ; [ | side | side ] ]; cbn [fst snd hd].
Ltac dstep :=
  first [ erewrite (dec_step2 c Hwf) ; [ | side | side | side | side | side ]
        | erewrite (dec_step3 c Hwf) ; [ | side | side | side | side | side | side ] ]; cbn [skipn].
Ltac dend := rewrite Hk; cbn [length]; vm_compute; lia.
Ltac list_eq := repeat match goal with |- _ :: _ = _ :: _ => apply cons_eq; [byte_solve|] end.
Ltac tail :=
  cbn [length Nat.add]; repeat estep; rewrite ?enc_go_nil; cbn [fst]; repeat dstep;
  rewrite (dec_end c) by dend; rewrite Hk; bytes_inv; list_eq; reflexivity.

Lemma rt_full_6 : forall nb d x y, bytes_ok d -> (length d < 3 * nb)%nat ->
  dec_go c (length d + x) 0 (fst (enc_go c (4 * nb + y) 0 d)) = d.
Proof.
  induction nb as [|nb IH]; intros d x y Hd Hlen; [lia|].
  replace (4 * S nb + y)%nat with (S (S (S (S (4 * nb + y))))) by lia.
  destruct d as [|b0 d]; [rewrite enc_go_nil; cbn [fst]; apply (dec_end c); dend|].
  destruct d as [|b1 d]; [tail|].
  destruct d as [|b2 d]; [tail|].
  cbn [length Nat.add]. repeat estep. repeat dstep.
  bytes_inv. rewrite IH; [|assumption|cbn [length] in Hlen; lia].
  pose proof (bytes_ok_hd d Hd) as Hz. set (z := hd 0 d) in *. clearbody z.
  rewrite Hk. list_eq. reflexivity.
Qed.
End K6.

Section K7.
Variable c : codec.
Hypothesis Hwf : wfb c = true.
Hypothesis Hk : cbits c = 7.

Ltac side := solve [ rewrite Hk; vm_compute; reflexivity | apply echar_lt | assumption ].
Ltac estep :=
  first [ erewrite (enc_adv' c) ; [ | side | side ]
        | erewrite (enc_noadv' c) ; [ | side | side ] ]; cbn [fst snd hd].
Ltac dstep :=
  first [ erewrite (dec_step2 c Hwf) ; [ | side | side | side | side | side ]
        | erewrite (dec_step3 c Hwf) ; [ | side | side | side | side | side | side ] ]; cbn [skipn].
Ltac dend := rewrite Hk; cbn [length]; vm_compute; lia.
Ltac list_eq := repeat match goal with |- _ :: _ = _ :: _ => apply cons_eq; [byte_solve|] end.
Ltac tail :=
  cbn [length Nat.add]; repeat estep; rewrite ?enc_go_nil; cbn [fst]; repeat dstep;
  rewrite (dec_end c) by dend; rewrite Hk; bytes_inv; list_eq; reflexivity.

Lemma rt_full_7 : forall nb d x y, bytes_ok d -> (length d < 7 * nb)%nat ->
  dec_go c (length d + x) 0 (fst (enc_go c (8 * nb + y) 0 d)) = d.
Proof.
  induction nb as [|nb IH]; intros d x y Hd Hlen; [lia|].
  replace (8 * S nb + y)%nat with (S (S (S (S (S (S (S (S (8 * nb + y))))))))) by lia.
  destruct d as [|b0 d]; [rewrite enc_go_nil; cbn [fst]; apply (dec_end c); dend|].
  destruct d as [|b1 d]; [tail|].
  destruct d as [|b2 d]; [tail|].
  destruct d as [|b3 d]; [tail|].
  destruct d as [|b4 d]; [tail|].
  destruct d as [|b5 d]; [tail|].
  destruct d as [|b6 d]; [tail|].
  cbn [length Nat.add]. repeat estep. repeat dstep.
  bytes_inv. rewrite IH; [|assumption|cbn [length] in Hlen; lia].
  pose proof (bytes_ok_hd d Hd) as Hz. set (z := hd 0 d) in *. clearbody z.
  rewrite Hk. list_eq. reflexivity.
Qed.
End K7.

(* ---------------------------------------------------------------------------------- *)
(* top-level statements, generic in a well-formed codec                                 *)

Section Top.
Variable c : codec.
Hypothesis Hwf : wfb c = true.
Let k := cbits c.

Definition blk_raw : nat := N.to_nat (dphases k).
Definition blk_enc : nat := N.to_nat (ephases k).

Lemma eoff_0 : eoff k 0 = 0.
Proof. unfold eoff. rewrite N.mul_0_r. reflexivity. Qed.

Lemma doff_0 : doff k 0 = 0.
Proof. unfold doff. rewrite N.mul_0_r. apply N.mod_0_l. pose proof (k_ok c Hwf) as H. fold k in H. destruct H as [E|[E|E]]; rewrite E; lia. Qed.

Lemma zero_lt_dphases : 0 < dphases k.
Proof. pose proof (k_ok c Hwf) as H. fold k in H. unfold dphases. destruct H as [E|[E|E]]; rewrite E; simpl; lia. Qed.

(* full-capacity round trip for some sufficiently large capacities *)
Lemma rt_full : forall d x y, bytes_ok d ->
  dec_go c (length d + x) 0 (fst (enc_go c (blk_enc * (length d + 1) + y) 0 d)) = d.
Proof.
  intros d x y Hd. pose proof (k_ok c Hwf) as H. fold k in H. unfold blk_enc.
  destruct H as [E|[E|E]]; rewrite E.
  - apply (rt_full_5 c Hwf E); [assumption|lia].
  - apply (rt_full_6 c Hwf E); [assumption|lia].
  - apply (rt_full_7 c Hwf E); [assumption|lia].
Qed.

(* exact accounting of an encode call *)
Lemma enc_exact cap d :
  let r := encode c cap d in
  let L := length (fst r) in
  let n := snd r in
  (L <= cap)%nat /\ (n <= length d)%nat /\
  L = enclen k n /\
  N.of_nat n = k * N.of_nat L / 8 /\
  ((n < length d)%nat -> (cap < enclen k (S n))%nat).
Proof.
  cbv zeta. unfold encode.
  pose proof (k_ok c Hwf) as Hk. fold k in Hk.
  destruct (enc_go_len c cap 0 d) as [G1 G2].
  destruct (enc_go_count c Hwf cap 0 d (zero_lt_ephases _)) as [G3 G4]. fold k in G3, G4.
  pose proof (enc_go_stop c Hwf cap 0 d (zero_lt_ephases _)) as G5. cbv zeta in G5. fold k in G5.
  rewrite eoff_0 in *. rewrite !N.add_0_l in *.
  set (L := length (fst (enc_go c cap 0 d))) in *.
  set (n := snd (enc_go c cap 0 d)) in *. clearbody L n.
  unfold enclen.
  assert (HkL : k = 5 \/ k = 6 \/ k = 7) by exact Hk.
  repeat split; try assumption.
  - destruct G4 as [G4|G4]; destruct HkL as [E|[E|E]]; rewrite E in *; lia.
  - intros Hlt. specialize (G5 Hlt).
    destruct G5 as [G5|[G5 G6]]; destruct HkL as [E|[E|E]]; rewrite E in *; lia.
Qed.

Lemma enclen_mono n m : (n <= m)%nat -> (enclen k n <= enclen k m)%nat.
Proof.
  intros H. unfold enclen. pose proof (k_ok c Hwf) as Hk. fold k in Hk.
  destruct Hk as [E|[E|E]]; rewrite E; lia.
Qed.

(* with enough capacity everything is consumed and the length is the documented ratio *)
Lemma enc_full cap d : (enclen k (length d) <= cap)%nat ->
  snd (encode c cap d) = length d /\ length (fst (encode c cap d)) = enclen k (length d).
Proof.
  intros Hcap. destruct (enc_exact cap d) as [G1 [G2 [G3 [G4 G5]]]].
  assert (Hn : snd (encode c cap d) = length d).
  { destruct (Nat.eq_dec (snd (encode c cap d)) (length d)) as [E|NE]; [exact E|].
    assert (Hlt : (snd (encode c cap d) < length d)%nat) by lia.
    specialize (G5 Hlt). pose proof (enclen_mono (S (snd (encode c cap d))) (length d)). lia. }
  split; [exact Hn|]. rewrite G3, Hn. reflexivity.
Qed.

Lemma enc_nz cap j d : nz (fst (enc_go c cap j d)).
Proof.
  pose proof (enc_go_alpha c cap j d) as H. unfold nz. rewrite Forall_forall in *.
  intros x Hx. apply (is_sym_nz c Hwf), H, Hx.
Qed.

(* T1: general round trip *)
Lemma roundtrip cap capd d : bytes_ok d -> (snd (encode c cap d) <= capd)%nat ->
  decode c capd (fst (encode c cap d)) = firstn (snd (encode c cap d)) d.
Proof.
  intros Hd Hcapd. unfold decode.
  set (s := fst (encode c cap d)). set (n := snd (encode c cap d)) in *.
  set (sF := fst (enc_go c (blk_enc * (length d + 1) + cap) 0 d)).
  assert (Hp : prefix s sF).
  { unfold s, sF, encode. apply enc_go_mono. lia. }
  assert (Hp2 : prefix (dec_go c capd 0 s) d).
  { pose proof (rt_full d capd cap Hd) as Hrt. fold sF in Hrt.
    apply (prefix_trans _ (dec_go c (length d + capd) 0 sF)); [apply dec_go_mono; [lia|exact Hp]|].
    rewrite Hrt. apply prefix_refl. }
  rewrite (prefix_firstn _ _ Hp2) at 1. f_equal.
  pose proof (dec_go_length c Hwf capd 0 s zero_lt_dphases (enc_nz _ _ _)) as HL.
  fold k in HL. rewrite doff_0, N.sub_0_r in HL.
  destruct (enc_exact cap d) as [G1 [G2 [G3 [G4 G5]]]]. fold s n in G1, G2, G3, G4, G5.
  lia.
Qed.

Lemma dec_go_cap cap : forall i s, (length (dec_go c cap i s) <= cap)%nat.
Proof.
  induction cap as [|cap IH]; intros i s; [simpl; lia|].
  rewrite dec_go_S. cbv zeta.
  destruct (_ <? _)%nat; [simpl; lia|]. destruct (existsb _ _); [simpl; lia|].
  cbn [length]. specialize (IH ((i + 1) mod dphases (cbits c)) (skipn (dadv (cbits c) i) s)). lia.
Qed.

(* T7: successive chunks lose and repeat nothing *)
Lemma chunks_ok cap : (2 <= cap)%nat -> forall fuel d, bytes_ok d -> (length d <= fuel)%nat ->
  exists ss, chunks c cap fuel d = Some ss /\
             concat (map (fun s => decode c (length s) s) ss) = d /\
             Forall (fun s => (length s <= cap)%nat) ss.
Proof.
  intros Hcap. induction fuel as [|fuel IH]; intros d Hd Hlen.
  - destruct d; [|simpl in Hlen; lia]. exists []. repeat split; constructor.
  - destruct d as [|a d]; [exists []; repeat split; constructor|].
    cbn [chunks].
    destruct (enc_exact cap (a :: d)) as [G1 [G2 [G3 [G4 G5]]]].
    pose proof (k_ok c Hwf) as Hk. fold k in Hk.
    assert (Hn : (1 <= snd (encode c cap (a :: d)))%nat).
    { destruct (snd (encode c cap (a :: d))) eqn:En; [|lia].
      assert (Hlt : (0 < length (a :: d))%nat) by (simpl; lia). specialize (G5 Hlt).
      unfold enclen in G5. destruct Hk as [E|[E|E]]; rewrite E in G5; simpl in G5; lia. }
    destruct (snd (encode c cap (a :: d))) as [|n] eqn:En; [lia|].
    assert (Hd' : bytes_ok (skipn (S n) (a :: d))).
    { unfold bytes_ok in *. rewrite Forall_forall in *. intros x Hx. apply Hd.
      rewrite <- (firstn_skipn (S n) (a :: d)). apply in_or_app. right. exact Hx. }
    assert (Hl' : (length (skipn (S n) (a :: d)) <= fuel)%nat).
    { rewrite skipn_length. simpl in Hlen |- *. lia. }
    destruct (IH _ Hd' Hl') as [ss [H1 [H2 H3]]].
    exists (fst (encode c cap (a :: d)) :: ss). rewrite H1. cbn [option_map map concat].
    repeat split; [| constructor; [exact G1|exact H3]].
    rewrite H2. rewrite roundtrip; [|exact Hd|].
    + rewrite En. apply firstn_skipn.
    + rewrite En in *. rewrite G3. unfold enclen. destruct Hk as [E|[E|E]]; rewrite E; lia.
Qed.

End Top.

(* ---------------------------------------------------------------------------------- *)
(* documented alphabets (literal ranges from the protocol documentation)               *)

Definition lower ch := (97 <=? ch) && (ch <=? 122).
Definition upper ch := (65 <=? ch) && (ch <=? 90).
Definition digit ch := (48 <=? ch) && (ch <=? 57).
Definition alpha32b ch := lower ch || ((48 <=? ch) && (ch <=? 53)).
Definition alpha64b ch := lower ch || upper ch || digit ch || (ch =? 45) || (ch =? 43).
Definition alpha64ub ch := lower ch || upper ch || digit ch || (ch =? 45) || (ch =? 95).
Definition alpha128b ch := lower ch || upper ch || digit ch || ((188 <=? ch) && (ch <=? 253)).

Lemma alpha_from_sweep c (P : N -> bool) : wfb c = true ->
  forallb (fun v => P (sym c v)) (nrange (N.to_nat (2 ^ cbits c))) = true ->
  forall cap d, Forall (fun ch => P ch = true) (fst (encode c cap d)).
Proof.
  intros Hwf H cap d. pose proof (enc_go_alpha c cap 0 d) as HA. unfold encode.
  rewrite Forall_forall in *. intros x Hx. destruct (HA x Hx) as [v [Hv ->]].
  apply (sweep1 _ _ H v). lia.
Qed.

(* Base32 decodes case-insensitively *)
Lemma toupper_facts ch : ch < 256 ->
  rev b32 (toupper ch) = rev b32 ch /\ ((toupper ch =? 0) = (ch =? 0)) /\ toupper ch < 256.
Proof.
  intros H.
  assert (S : forallb (fun ch => (rev b32 (toupper ch) =? rev b32 ch) &&
                                 Bool.eqb (toupper ch =? 0) (ch =? 0) && (toupper ch <? 256)) (nrange 256) = true)
    by (vm_compute; reflexivity).
  pose proof (sweep1 _ _ S ch) as H1. cbv beta in H1.
  assert (H' : ch < N.of_nat 256) by lia. specialize (H1 H').
  apply andb_prop in H1. destruct H1 as [H1 H3]. apply andb_prop in H1. destruct H1 as [H1 H2].
  apply Bool.eqb_prop in H2. repeat split; lia.
Qed.

Lemma existsb_map_toupper s : bytes_ok s ->
  existsb (fun x => x =? 0) (map toupper s) = existsb (fun x => x =? 0) s.
Proof.
  induction 1 as [|x s Hx Hs IH]; [reflexivity|]. simpl. rewrite IH.
  destruct (toupper_facts x Hx) as [_ [-> _]]. reflexivity.
Qed.

Lemma nth_bytes_ok i s : bytes_ok s -> nth i s 0 < 256.
Proof.
  intros H. destruct (Nat.lt_ge_cases i (length s)) as [L|L].
  - unfold bytes_ok in H. rewrite Forall_forall in H. apply H, nth_In, L.
  - rewrite nth_overflow by exact L. lia.
Qed.

Lemma bytes_ok_firstn n s : bytes_ok s -> bytes_ok (firstn n s).
Proof. unfold bytes_ok. rewrite !Forall_forall. intros H x Hx. apply H.
  rewrite <- (firstn_skipn n s). apply in_or_app. left. exact Hx. Qed.

Lemma bytes_ok_skipn n s : bytes_ok s -> bytes_ok (skipn n s).
Proof. unfold bytes_ok. rewrite !Forall_forall. intros H x Hx. apply H.
  rewrite <- (firstn_skipn n s). apply in_or_app. right. exact Hx. Qed.

Lemma nth_map_toupper i s : nth i (map toupper s) 0 = toupper (nth i s 0).
Proof. change 0 with (toupper 0) at 1. apply map_nth. Qed.

Lemma dec32_upper cap : forall i s, bytes_ok s ->
  dec_go b32 cap i (map toupper s) = dec_go b32 cap i s.
Proof.
  induction cap as [|cap IH]; intros i s Hs; [reflexivity|].
  rewrite !dec_go_S. cbv zeta.
  rewrite firstn_map, map_length.
  destruct (_ <? _)%nat; [reflexivity|].
  rewrite existsb_map_toupper by (apply bytes_ok_firstn, Hs).
  destruct (existsb _ _); [reflexivity|].
  rewrite !nth_map_toupper.
  assert (Hn : forall j, rev b32 (toupper (nth j (firstn (dneed (cbits b32) i) s) 0)) =
                         rev b32 (nth j (firstn (dneed (cbits b32) i) s) 0)).
  { intros j. apply toupper_facts, nth_bytes_ok, bytes_ok_firstn, Hs. }
  rewrite !Hn. f_equal.
  rewrite skipn_map. apply IH, bytes_ok_skipn, Hs.
Qed.
