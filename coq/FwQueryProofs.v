(* FwQueryProofs.v -- proofs about the forwarding ring model (C20).  Everything is stated for
   the ring size [fw_size] = N.to_nat src_FW_QUERY_CACHE_SIZE; the only fact used about the
   constant is [0 < fw_size] (re-proved by computation from the regenerated constant). *)
From Coq Require Import List NArith Arith Bool Lia ZArith ZifyBool ZifyNat ZifyN Permutation.
From Iodine Require Import Base Generated.SrcConsts FwQuery.
Import ListNotations.
Local Open Scope nat_scope.

Ltac Zify.zify_post_hook ::= Z.div_mod_to_equations.

Lemma fw_size_pos : 0 < fw_size.
Proof. vm_compute. lia. Qed.

(* keep [simpl] from unfolding the ring size into a numeral *)
#[local] Opaque fw_size.

(* ---------------------------------------------------------------------------------- *)
(* list helpers                                                                         *)

Lemma set_nth_app {A} (B : list A) a (T : list A) v :
  set_nth (B ++ a :: T) (length B) v = B ++ v :: T.
Proof. induction B as [|b B IH]; simpl; [reflexivity|rewrite IH; reflexivity]. Qed.

Lemma skipn_repeat {A} (z : A) k n : skipn k (repeat z n) = repeat z (n - k).
Proof.
  revert k. induction n as [|n IH]; intros k; simpl.
  - destruct k; reflexivity.
  - destruct k; simpl; [reflexivity|apply IH].
Qed.

Lemma skipn_skipn' {A} x y (l : list A) : skipn x (skipn y l) = skipn (y + x) l.
Proof.
  revert l. induction y as [|y IH]; intros l; [reflexivity|].
  destruct l; simpl; [destruct x; reflexivity|apply IH].
Qed.

Lemma lastn_length {A} n (l : list A) : length (lastn n l) = Nat.min n (length l).
Proof. unfold lastn. rewrite skipn_length. lia. Qed.

Lemma lastn_all {A} n (l : list A) : length l <= n -> lastn n l = l.
Proof. intros H. unfold lastn. replace (length l - n) with 0 by lia. reflexivity. Qed.

Lemma lastn_app_full {A} (w ps : list A) : lastn (length w) (w ++ ps) = skipn (length ps) (w ++ ps).
Proof. unfold lastn. rewrite app_length. f_equal. lia. Qed.

Lemma in_lastn {A} n (l : list A) x : In x (lastn n l) -> In x l.
Proof.
  unfold lastn. intros H. rewrite <- (firstn_skipn (length l - n) l). apply in_or_app. right. exact H.
Qed.

(* ---------------------------------------------------------------------------------- *)
(* the sliding window of the last fw_size items of the stream  zero^fw_size ++ puts       *)

Definition window_step (w : list entry) (e : entry) : list entry := tl w ++ [e].
Definition window (ps : list entry) : list entry :=
  fold_left window_step ps (repeat zero_entry fw_size).

Lemma window_fold_lastn ps : forall w, w <> [] ->
  fold_left window_step ps w = lastn (length w) (w ++ ps).
Proof.
  induction ps as [|e ps IH]; intros w Hw.
  - simpl. rewrite app_nil_r. apply eq_sym, lastn_all. lia.
  - simpl. destruct w as [|x w]; [congruence|]. unfold window_step at 2. simpl tl.
    rewrite IH by (destruct w; discriminate).
    rewrite !lastn_app_full. rewrite <- app_assoc. simpl. reflexivity.
Qed.

(* window = zero padding (only while fewer than fw_size puts) ++ the last fw_size puts *)
Lemma window_spec ps :
  window ps = repeat zero_entry (fw_size - length ps) ++ lastn fw_size ps.
Proof.
  pose proof fw_size_pos as Hp. unfold window.
  rewrite window_fold_lastn by (destruct fw_size; [lia|discriminate]).
  rewrite lastn_app_full, skipn_app, skipn_repeat, repeat_length.
  reflexivity.
Qed.

Lemma window_length ps : length (window ps) = fw_size.
Proof. rewrite window_spec, app_length, repeat_length, lastn_length. lia. Qed.

(* ---------------------------------------------------------------------------------- *)
(* ring invariant: the array is the window rotated: the newest [ix] items first          *)

Definition ring_inv (st : fwstate) (w : list entry) : Prop :=
  exists A B, entries st = B ++ A /\ w = A ++ B /\ length B = ix st /\ ix st < fw_size /\
              length w = fw_size.

Lemma ring_inv_init : ring_inv fw_init (repeat zero_entry fw_size).
Proof.
  exists (repeat zero_entry fw_size), []. pose proof fw_size_pos.
  split; [reflexivity|]. split; [symmetry; apply app_nil_r|]. split; [reflexivity|].
  split; [exact H|apply repeat_length].
Qed.

Lemma ring_inv_put st w e : ring_inv st w -> ring_inv (fw_put st e) (window_step w e).
Proof.
  intros (A & B & HE & HW & HB & Hlt & Hlen).
  assert (HA : length A = fw_size - ix st) by (subst w; rewrite app_length in Hlen; lia).
  destruct A as [|a A]; [simpl in HA; lia|]. simpl in HA.
  unfold fw_put, window_step. rewrite HE, <- HB, set_nth_app. subst w. simpl tl.
  destruct (fw_size <=? S (length B)) eqn:Hc.
  - (* the index wraps to 0 *)
    apply Nat.leb_le in Hc. assert (A = []) by (destruct A; [reflexivity|simpl in HA; lia]). subst A.
    exists (B ++ [e]), []. simpl. rewrite app_nil_r.
    repeat split; try lia. rewrite app_length in *. simpl in *. lia.
  - apply Nat.leb_gt in Hc. exists A, (B ++ [e]). simpl.
    rewrite <- !app_assoc. simpl. repeat split; try lia.
    + rewrite app_length. simpl. lia.
    + rewrite !app_length in *. simpl in *. lia.
Qed.

Lemma ring_inv_fold ps : forall st w, ring_inv st w ->
  ring_inv (fold_left fw_put ps st) (fold_left window_step ps w).
Proof.
  induction ps as [|e ps IH]; intros st w H; [exact H|]. simpl. apply IH, ring_inv_put, H.
Qed.

Lemma ring_inv_run ps : ring_inv (fw_run ps) (window ps).
Proof. apply ring_inv_fold, ring_inv_init. Qed.

Lemma ix_fold ps : forall st, ix st < fw_size ->
  ix (fold_left fw_put ps st) = (ix st + length ps) mod fw_size.
Proof.
  pose proof fw_size_pos as Hp.
  induction ps as [|e ps IH]; intros st H; simpl.
  - rewrite Nat.add_0_r, Nat.mod_small by lia. reflexivity.
  - assert (Hn : ix (fw_put st e) = (ix st + 1) mod fw_size /\ ix (fw_put st e) < fw_size).
    { unfold fw_put. simpl. destruct (fw_size <=? S (ix st)) eqn:Hc.
      - apply Nat.leb_le in Hc. replace (ix st + 1) with fw_size by lia.
        rewrite Nat.mod_same by lia. lia.
      - apply Nat.leb_gt in Hc. rewrite Nat.mod_small by lia. lia. }
    destruct Hn as [Hn Hl]. rewrite IH by exact Hl. rewrite Hn.
    rewrite Nat.add_mod_idemp_l by lia. f_equal. lia.
Qed.

Lemma ix_run ps : ix (fw_run ps) = length ps mod fw_size.
Proof. unfold fw_run. rewrite ix_fold by (simpl; apply fw_size_pos). reflexivity. Qed.

Lemma entries_length ps : length (entries (fw_run ps)) = fw_size.
Proof.
  destruct (ring_inv_run ps) as (A & B & HE & HW & HB & Hlt & Hlen).
  rewrite HE, app_length, Nat.add_comm, <- app_length, <- HW. exact Hlen.
Qed.

(* refinement to the abstract specification "the last fw_size puts" *)
Lemma ring_holds_window ps :
  let r := length ps mod fw_size in
  let W := repeat zero_entry (fw_size - length ps) ++ lastn fw_size ps in
  entries (fw_run ps) = skipn (fw_size - r) W ++ firstn (fw_size - r) W /\
  ix (fw_run ps) = r /\
  Permutation (entries (fw_run ps)) W.
Proof.
  cbv zeta. rewrite <- window_spec.
  destruct (ring_inv_run ps) as (A & B & HE & HW & HB & Hlt & Hlen).
  rewrite <- (ix_run ps).
  assert (HA : length A = fw_size - ix (fw_run ps)) by (rewrite HW, app_length in Hlen; lia).
  repeat split.
  - rewrite HE, HW, <- HA. rewrite skipn_app, firstn_app, Nat.sub_diag, skipn_all, firstn_all.
    simpl. rewrite app_nil_r. reflexivity.
  - rewrite HE, HW. apply Permutation_app_comm.
Qed.

(* fewer than fw_size puts: the array is the puts in order, then untouched zero slots *)
Lemma entries_small ps : length ps < fw_size ->
  entries (fw_run ps) = ps ++ repeat zero_entry (fw_size - length ps).
Proof.
  intros Hk. destruct (ring_holds_window ps) as [HE _]. rewrite HE.
  rewrite Nat.mod_small by exact Hk. rewrite (lastn_all fw_size ps) by lia.
  set (z := repeat zero_entry (fw_size - length ps)).
  assert (Hz : length z = fw_size - length ps) by apply repeat_length.
  rewrite <- Hz. rewrite skipn_app, firstn_app, Nat.sub_diag, skipn_all, firstn_all.
  simpl. rewrite app_nil_r. reflexivity.
Qed.

Lemma entries_full_perm ps : fw_size <= length ps ->
  Permutation (entries (fw_run ps)) (lastn fw_size ps).
Proof.
  intros Hk. destruct (ring_holds_window ps) as (_ & _ & HP).
  replace (fw_size - length ps) with 0 in HP by lia. exact HP.
Qed.

(* ---------------------------------------------------------------------------------- *)
(* first_match                                                                          *)

Lemma first_match_app id l1 l2 :
  first_match id (l1 ++ l2) =
  match first_match id l1 with Some a => Some a | None => first_match id l2 end.
Proof.
  induction l1 as [|[a i] l1 IH]; simpl; [reflexivity|]. destruct (N.eqb i id); [reflexivity|exact IH].
Qed.

Lemma first_match_in id l a : first_match id l = Some a -> In (a, id) l.
Proof.
  induction l as [|[b i] l IH]; simpl; [discriminate|]. destruct (N.eqb i id) eqn:He.
  - intros H. inversion H. subst. apply N.eqb_eq in He. subst. left. reflexivity.
  - intros H. right. apply IH, H.
Qed.

Lemma first_match_none id l : first_match id l = None <-> (forall a, ~ In (a, id) l).
Proof.
  induction l as [|[b i] l IH]; simpl.
  - split; [intros _ a []|reflexivity].
  - destruct (N.eqb i id) eqn:He.
    + apply N.eqb_eq in He. subst. split; [discriminate|]. intros H. exfalso. apply (H b). left. reflexivity.
    + apply N.eqb_neq in He. rewrite IH. split.
      * intros H a [Heq|Hin]; [inversion Heq; congruence|exact (H a Hin)].
      * intros H a Hin. apply (H a). right. exact Hin.
Qed.

Lemma first_match_unique id l a :
  In (a, id) l -> (forall a', In (a', id) l -> a' = a) -> first_match id l = Some a.
Proof.
  intros Hin Hu. destruct (first_match id l) as [a'|] eqn:Hf.
  - apply first_match_in in Hf. rewrite (Hu a' Hf). reflexivity.
  - exfalso. exact (proj1 (first_match_none id l) Hf a Hin).
Qed.

(* exact description: the match is the first entry in array order with that id *)
Lemma first_match_split id l a :
  first_match id l = Some a <->
  exists l1 l2, l = l1 ++ (a, id) :: l2 /\ forall b, ~ In (b, id) l1.
Proof.
  split.
  - induction l as [|[b i] l IH]; simpl; [discriminate|]. destruct (N.eqb i id) eqn:He.
    + intros H. inversion H. subst. apply N.eqb_eq in He. subst.
      exists [], l. split; [reflexivity|]. intros c [].
    + intros H. destruct (IH H) as (l1 & l2 & -> & Hn). exists ((b, i) :: l1), l2.
      split; [reflexivity|]. intros c [Heq|Hin]; [|exact (Hn c Hin)].
      inversion Heq. subst. apply N.eqb_neq in He. congruence.
  - intros (l1 & l2 & -> & Hn). rewrite first_match_app.
    rewrite (proj2 (first_match_none id l1) Hn). simpl. rewrite N.eqb_refl. reflexivity.
Qed.

Lemma fw_get_entries ps id : fw_get (fw_run ps) id = first_match id (entries (fw_run ps)).
Proof. unfold fw_get. rewrite firstn_all2 by (rewrite entries_length; lia). reflexivity. Qed.

(* ---------------------------------------------------------------------------------- *)
(* the lookup after an arbitrary sequence of puts                                       *)

Lemma get_recent ps a id :
  In (a, id) (lastn fw_size ps) ->
  (forall a', In (a', id) (lastn fw_size ps) -> a' = a) ->
  fw_get (fw_run ps) id = Some a.
Proof.
  intros Hin Hu. rewrite fw_get_entries.
  destruct (Nat.lt_ge_cases (length ps) fw_size) as [Hk|Hk].
  - rewrite entries_small by exact Hk. rewrite lastn_all in Hin, Hu by lia.
    rewrite first_match_app, (first_match_unique id ps a Hin Hu). reflexivity.
  - pose proof (entries_full_perm ps Hk) as HP. apply first_match_unique.
    + apply (Permutation_in _ (Permutation_sym HP)), Hin.
    + intros a' H. apply Hu. apply (Permutation_in _ HP), H.
Qed.

Lemma get_no_misroute ps a id :
  fw_get (fw_run ps) id = Some a ->
  In (a, id) (lastn fw_size ps) \/ (id = 0%N /\ a = zero_addr /\ length ps < fw_size).
Proof.
  rewrite fw_get_entries. intros H. apply first_match_in in H.
  destruct (ring_holds_window ps) as (_ & _ & HP).
  apply (Permutation_in _ HP) in H. apply in_app_or in H. destruct H as [H|H]; [right|left; exact H].
  assert (Hk : length ps < fw_size).
  { destruct (Nat.lt_ge_cases (length ps) fw_size) as [Hk|Hk]; [exact Hk|].
    replace (fw_size - length ps) with 0 in H by lia. destruct H. }
  apply repeat_spec in H. unfold zero_entry in H. inversion H. repeat split; assumption.
Qed.

Lemma get_none ps id :
  fw_get (fw_run ps) id = None ->
  (forall a, ~ In (a, id) (lastn fw_size ps)) /\ (id = 0%N -> fw_size <= length ps).
Proof.
  rewrite fw_get_entries. intros H. pose proof (proj1 (first_match_none _ _) H) as Hn.
  destruct (ring_holds_window ps) as (_ & _ & HP). split.
  - intros a Hin. apply (Hn a). apply (Permutation_in _ (Permutation_sym HP)).
    apply in_or_app. right. exact Hin.
  - intros ->. destruct (Nat.lt_ge_cases (length ps) fw_size) as [Hk|Hk]; [exfalso|exact Hk].
    apply (Hn zero_addr). apply (Permutation_in _ (Permutation_sym HP)). apply in_or_app. left.
    destruct (fw_size - length ps) eqn:Hd; [lia|]. simpl. left. reflexivity.
Qed.

(* which entry answers when an id is reused inside the window: array order, i.e. the OLDEST
   of the [length ps mod fw_size] newest puts carrying the id, else the oldest older one *)
Lemma get_array_order ps id :
  let r := length ps mod fw_size in
  let W := repeat zero_entry (fw_size - length ps) ++ lastn fw_size ps in
  fw_get (fw_run ps) id =
  match first_match id (lastn r ps) with
  | Some a => Some a
  | None => first_match id (firstn (fw_size - r) W)
  end.
Proof.
  cbv zeta. pose proof fw_size_pos as Hp. rewrite fw_get_entries.
  destruct (ring_holds_window ps) as (HE & _ & _). rewrite HE, first_match_app.
  assert (Hr : length ps mod fw_size < fw_size) by (apply Nat.mod_upper_bound; lia).
  replace (skipn (fw_size - length ps mod fw_size)
             (repeat zero_entry (fw_size - length ps) ++ lastn fw_size ps))
    with (lastn (length ps mod fw_size) ps); [reflexivity|].
  destruct (Nat.lt_ge_cases (length ps) fw_size) as [Hk|Hk].
  - rewrite Nat.mod_small by exact Hk. rewrite !lastn_all by lia.
    rewrite skipn_app, repeat_length, Nat.sub_diag, skipn_all2 by (rewrite repeat_length; lia).
    reflexivity.
  - replace (fw_size - length ps) with 0 by lia. simpl. unfold lastn. rewrite skipn_skipn'.
    f_equal. assert (length ps mod fw_size <= length ps) by (apply Nat.mod_le; lia). lia.
Qed.

(* ---------------------------------------------------------------------------------- *)
(* histories of forwarded queries and replies                                           *)

Lemma run_events_fold evs : forall st,
  fold_left (fun st e => fst (step st e)) evs st = fold_left fw_put (puts_of evs) st.
Proof.
  induction evs as [|[q|pkt] evs IH]; intros st; simpl; [reflexivity|apply IH|apply IH].
Qed.

Lemma run_events_puts evs : run_events evs = fw_run (puts_of evs).
Proof. apply run_events_fold. Qed.

Lemma bind_reply_spec st pkt :
  bind_reply st pkt =
  match pkt with
  | [] => []
  | _ => match fw_get st (get_id pkt) with Some a => [(ToAddr a, pkt)] | None => [] end
  end.
Proof. reflexivity. Qed.

Lemma bind_reply_sends st pkt d b :
  In (d, b) (bind_reply st pkt) ->
  b = pkt /\ exists a, d = ToAddr a /\ fw_get st (get_id pkt) = Some a /\ bind_reply st pkt = [(ToAddr a, pkt)].
Proof.
  unfold bind_reply. destruct pkt as [|x pkt]; [intros []|].
  destruct (fw_get st (get_id (x :: pkt))) as [a|]; [|intros []].
  intros [H|[]]. inversion H. subst. split; [reflexivity|]. exists a. repeat split.
Qed.

(* ---------------------------------------------------------------------------------- *)
(* the forwarded datagram: parse (encode q) = (id, name, type)                           *)

Local Open Scope N_scope.

Lemma split_dots_nonnil s : split_dots s <> [].
Proof.
  destruct s as [|c s]; simpl; [discriminate|]. destruct (c =? dot); [discriminate|].
  destruct (split_dots s); discriminate.
Qed.

Lemma split_dots_last l :
  forallb (fun c => negb (c =? dot)) l = true -> split_dots l = [l].
Proof.
  induction l as [|c l IH]; simpl; [reflexivity|]. intros H. apply andb_prop in H. destruct H as [Hc Hl].
  apply negb_true_iff in Hc. rewrite Hc, (IH Hl). reflexivity.
Qed.

Lemma split_dots_label l rest :
  forallb (fun c => negb (c =? dot)) l = true ->
  split_dots (l ++ dot :: rest) = l :: split_dots rest.
Proof.
  induction l as [|c l IH]; simpl.
  - intros _. reflexivity.
  - intros H. apply andb_prop in H. destruct H as [Hc Hl].
    apply negb_true_iff in Hc. rewrite Hc, (IH Hl). reflexivity.
Qed.

Lemma wf_labelb_spec l : wf_labelb l = true ->
  l <> [] /\ (1 <= length l <= 63)%nat /\ forallb (fun c => negb (c =? dot)) l = true.
Proof.
  unfold wf_labelb. intros H. apply andb_prop in H. destruct H as [H H3].
  apply andb_prop in H. destruct H as [H1 H2]. apply Nat.leb_le in H2.
  destruct l; [discriminate|]. repeat split; [discriminate|simpl; lia|exact H2|exact H3].
Qed.

Lemma split_join ls : ls <> [] -> forallb wf_labelb ls = true -> split_dots (join_dots ls) = ls.
Proof.
  induction ls as [|l ls IH]; [congruence|]. intros _ H. simpl in H. apply andb_prop in H.
  destruct H as [Hl Hls]. destruct (wf_labelb_spec l Hl) as (_ & _ & Hd).
  destruct ls as [|l2 ls].
  - simpl. apply split_dots_last, Hd.
  - change (join_dots (l :: l2 :: ls)) with (l ++ dot :: join_dots (l2 :: ls)).
    rewrite split_dots_label by exact Hd. rewrite IH by (try discriminate; exact Hls). reflexivity.
Qed.

Lemma filter_nonempty_wf ls : forallb wf_labelb ls = true -> filter nonempty ls = ls.
Proof.
  induction ls as [|l ls IH]; simpl; [reflexivity|]. intros H. apply andb_prop in H. destruct H as [Hl Hls].
  destruct (wf_labelb_spec l Hl) as (Hn & _ & _). destruct l; [congruence|]. simpl. rewrite IH by exact Hls.
  reflexivity.
Qed.

Lemma strtok_join ls : wf_labelsb ls = true -> strtok_dots (join_dots ls) = ls.
Proof.
  unfold wf_labelsb, strtok_dots. intros H. apply andb_prop in H. destruct H as [Hn Hw].
  rewrite split_join; [apply filter_nonempty_wf, Hw|destruct ls; [discriminate|discriminate]|exact Hw].
Qed.

(* the wire form of a label sequence *)
Fixpoint wire (ls : list (list N)) : list N :=
  match ls with
  | [] => [0]
  | l :: t => N.of_nat (length l) :: l ++ wire t
  end.

Fixpoint total (ls : list (list N)) : nat :=
  match ls with [] => O | l :: t => (length l + 1 + total t)%nat end.

Lemma join_dots_length ls : ls <> [] -> (length (join_dots ls) + 1 = total ls)%nat.
Proof.
  induction ls as [|l ls IH]; [congruence|]. intros _. destruct ls as [|l2 ls].
  - simpl. lia.
  - change (join_dots (l :: l2 :: ls)) with (l ++ dot :: join_dots (l2 :: ls)).
    specialize (IH ltac:(discriminate)). rewrite app_length. cbn [length total] in *. lia.
Qed.

Lemma label_max_63 : src_PUTNAME_LABEL_MAX = 63.
Proof. reflexivity. Qed.

Lemma putname_go_wf ls : forall left, forallb wf_labelb ls = true ->
  (Z.of_nat (total ls) <= left + 1)%Z -> putname_go left ls = Some (wire ls).
Proof.
  induction ls as [|l ls IH]; intros left Hw Hl; [reflexivity|].
  simpl in Hw. apply andb_prop in Hw. destruct Hw as [Hwl Hw].
  destruct (wf_labelb_spec l Hwl) as (_ & Hlen & _).
  cbn [putname_go total wire] in *. rewrite label_max_63.
  replace ((Z.of_N 63 <? Z.of_nat (length l))%Z) with false by lia.
  replace ((0 <=? left)%Z && (left <? Z.of_nat (length l))%Z)%bool with false by lia.
  simpl orb. rewrite IH; [reflexivity|exact Hw|lia].
Qed.

Lemma putname_wf ls : wf_labelsb ls = true ->
  putname (length (join_dots ls)) (join_dots ls) = Some (wire ls).
Proof.
  intros H. unfold putname. rewrite strtok_join by exact H.
  unfold wf_labelsb in H. apply andb_prop in H. destruct H as [Hn Hw].
  apply putname_go_wf; [exact Hw|].
  rewrite <- join_dots_length by (destruct ls; [discriminate|discriminate]). lia.
Qed.

Lemma parse_labels_wire ls : forall fuel rest, forallb wf_labelb ls = true ->
  (length ls < fuel)%nat -> parse_labels fuel (wire ls ++ rest) = Some (ls, rest).
Proof.
  induction ls as [|l ls IH]; intros fuel rest Hw Hf.
  - destruct fuel; [simpl in Hf; lia|]. reflexivity.
  - destruct fuel; [simpl in Hf; lia|]. simpl in Hw. apply andb_prop in Hw. destruct Hw as [Hwl Hw].
    destruct (wf_labelb_spec l Hwl) as (_ & Hlen & _).
    cbn [wire parse_labels app].
    replace (N.of_nat (length l) =? 0) with false by lia.
    replace (63 <? N.of_nat (length l)) with false by lia.
    rewrite Nat2N.id, <- app_assoc.
    replace ((length (l ++ wire ls ++ rest) <? length l)%nat) with false
      by (rewrite app_length; lia).
    rewrite skipn_app, Nat.sub_diag, skipn_all, firstn_app, Nat.sub_diag, firstn_all. simpl.
    rewrite app_nil_r. rewrite IH by (try exact Hw; simpl in Hf; lia). reflexivity.
Qed.

Lemma wire_length ls : (length ls < length (wire ls))%nat.
Proof. induction ls as [|l ls IH]; simpl; [lia|]. rewrite app_length. lia. Qed.

Lemma hi_lo v : v < 65536 -> hi8 v * 256 + lo8 v = v.
Proof. unfold hi8, lo8. intros H. lia. Qed.

Lemma hi8_lt v : hi8 v < 256.
Proof. unfold hi8. lia. Qed.

Lemma parse_encode id type ls :
  wf_labelsb ls = true -> id < 65536 -> type < 65536 ->
  parse_query (encode_query id type (join_dots ls)) = Some (id, ls, type).
Proof.
  intros Hw Hid Hty. unfold encode_query. rewrite putname_wf by exact Hw.
  unfold wf_labelsb in Hw. apply andb_prop in Hw. destruct Hw as [_ Hw].
  cbn [app parse_query]. change (1 <? 128) with true. change (0 =? 0) with true. change (1 =? 1) with true.
  cbn [negb andb].
  rewrite parse_labels_wire; [|exact Hw|rewrite app_length; pose proof (wire_length ls); lia].
  cbn [app]. change (0 =? 0) with true. change (1 =? 1) with true. cbn [andb].
  rewrite !hi_lo by assumption. reflexivity.
Qed.

(* an id that occurs once among the puts of a list has one address *)
Lemma count_one_unique (l : list entry) a a' id :
  count_occ N.eq_dec (map snd l) id = 1%nat -> In (a, id) l -> In (a', id) l -> a' = a.
Proof.
  induction l as [|[b i] l IH]; simpl; [intros _ []|].
  destruct (N.eq_dec i id) as [->|Hne].
  - intros Hc. assert (Hn : ~ In id (map snd l)) by (apply (count_occ_not_In N.eq_dec); lia).
    assert (Hno : forall c, ~ In (c, id) l).
    { intros c Hin. apply Hn. apply in_map_iff. exists (c, id). split; [reflexivity|exact Hin]. }
    intros [H1|H1] [H2|H2]; try (exfalso; eapply Hno; eassumption).
    inversion H1. inversion H2. congruence.
  - intros Hc [H1|H1] [H2|H2]; try (inversion H1; congruence); try (inversion H2; congruence).
    exact (IH Hc H1 H2).
Qed.
