(* ServerAnswerPing.v -- C14: the ping and data handlers, phase by phase.
   handle_ping / handle_data are shown equal to "guard; tail" forms whose phases are named
   functions (the equalities are by computation, the model is not changed); every phase gets a
   lemma; composition gives exact conservation (nothing dropped) and "older query first". *)
From Coq Require Import List NArith ZArith Arith Bool Lia Permutation.
From RecordUpdate Require Import RecordUpdate.
From Iodine Require Import Generated.SrcConsts Base Codec Server ServerAnswerLedger ServerAnswerChunk ServerAnswerState.
Import ListNotations.
Local Open Scope N_scope.

Lemma list_eqb_eq a b : list_eqb a b = true -> a = b.
Proof.
  unfold list_eqb. revert b. induction a as [|x a IH]; intros [|y b] H; simpl in H; try discriminate; [reflexivity|].
  apply andb_prop in H. destruct H as [Hl H]. apply andb_prop in H. destruct H as [Hx H]. simpl in Hx.
  apply N.eqb_eq in Hx. subst y. f_equal. apply IH. rewrite Hl. exact H.
Qed.

(* ---- generic one-user facts ---------------------------------------------------------------- *)

(* storing the new query in the free slot u_q *)
Lemma store_q_uacc qi u u' q :
  h_id (u_q u) = 0 -> h_id q <> 0 -> h_id2 q = 0 -> u_q u' = q -> u_qs u' = u_qs u ->
  uacc qi [q_inst q] u u' [] [].
Proof.
  intros Hz Hn H2 Eq Eqs. unfold uacc, user_held. rewrite Eq, Eqs, (hq_held_free _ Hz), (hq_held_fresh _ Hn H2).
  simpl. rewrite app_nil_r. reflexivity.
Qed.

(* moving the held u_q into the free slot u_qs (q_sendrealsoon := q; q.id := 0) *)
Lemma move_q_uacc qi u u' :
  h_id (u_qs u) = 0 -> u_qs u' = u_q u -> h_id (u_q u') = 0 -> uacc qi [] u u' [] [].
Proof.
  intros Hz Eqs Hz'. unfold uacc, user_held. rewrite Eqs, (hq_held_free _ Hz), (hq_held_free _ Hz').
  simpl. rewrite !app_nil_r. reflexivity.
Qed.

Section WithOracles.
Set Default Proof Using "Type".
Variable login : list N -> N -> list N.
Variable unz : list N -> option (list N).
Variable qi : option inst.

(* ---- ping: phases ------------------------------------------------------------------------------ *)

Definition p_phase1 (u1 : suser) : suser * list out :=
  if negb (h_id (u_qs u1) =? 0)
  then let '(x, o, _) := send_chunk_or_dataless u1 WQS in (x, o) else (u1, []).

Definition p_phase2 (u2 : suser) : suser * list out * bool :=
  if negb (h_id (u_q u2) =? 0)
  then let '(x, o, again) := send_chunk_or_dataless u2 WQ in (x, o, negb again)
  else (u2, [], false).

Definition p_phase3 (u4 : suser) (didsend : bool) : suser * list out :=
  if (negb didsend && (0 <? p_len (u_out u4))) || negb (u_lazy u4)
  then let '(x, o, _) := send_chunk_or_dataless u4 WQ in (x, o) else (u4, []).

Definition ping_tail (u : suser) (now : N) (q : hq) (unpacked : list N) : suser * list out :=
  let dn_seq := Z.shiftr (schar (chr unpacked 1)) 4 in
  let dn_frag := Z.of_N (N.land (chr unpacked 1) 15) in
  let u1 := process_downstream_ack u dn_seq dn_frag in
  let '(u2, o1) := p_phase1 u1 in
  let '(u3, o2, didsend) := p_phase2 u2 in
  let u4 := u3 <| u_q := q |> <| u_last := now |> in
  let '(u5, o3) := p_phase3 u4 didsend in
  (u5, o1 ++ o2 ++ o3).

(* the early exits of the ping handler: Some r = the handler returns r without touching the
   held-query machinery (refused, answered from the answer cache, suppressed as an old duplicate,
   or remembered as a duplicate of a held query) *)
Definition ping_guard (c : cfg) (st : sstate) (now : N) (q : hq) (unpacked : list N) : option (sstate * list out) :=
  let userid := schar (chr unpacked 0) in
  if check_auth c st now userid (h_from q) then Some (st, [mk_answer q s_BADIP 84]) else
  let i := Z.to_nat userid in
  let u := getu st i in
  match answer_from_dnscache u (h_name q) (h_type q) with
  | Some e => Some (st, [mk_answer q (firstn (N.to_nat (ce_len e)) (ce_answer e)) (u_downenc u)])
  | None =>
  if qmem_hit (u_pingmem u) (firstn 4 unpacked) (h_type q) then Some (st, [mk_answer q [120] 84]) else
  if dup_pending u q WQ then Some (upd st i (fun x => remember_dup x q WQ), []) else
  if dup_pending u q WQS then Some (upd st i (fun x => remember_dup x q WQS), []) else None
  end.

Lemma handle_ping_eq c st now q unpacked :
  handle_ping c st now q unpacked =
  match ping_guard c st now q unpacked with
  | Some r => r
  | None => let i := Z.to_nat (schar (chr unpacked 0)) in
            let '(u5, outs) := ping_tail (getu st i) now q unpacked in
            (upd st i (fun _ => u5), outs)
  end.
Proof.
  unfold handle_ping, ping_guard.
  destruct (check_auth _ _ _ _ _); [reflexivity|]. cbv zeta.
  destruct (answer_from_dnscache _ _ _); [reflexivity|].
  destruct (qmem_hit _ _ _); [reflexivity|].
  destruct (dup_pending _ q WQ); [reflexivity|].
  destruct (dup_pending _ q WQS); [reflexivity|].
  unfold ping_tail. cbv zeta.
  fold (p_phase1 (process_downstream_ack (getu st (Z.to_nat (schar (chr unpacked 0))))
                    (Z.shiftr (schar (chr unpacked 1)) 4) (Z.of_N (N.land (chr unpacked 1) 15)))).
  destruct (p_phase1 _) as [u2 o1].
  fold (p_phase2 u2). destruct (p_phase2 u2) as [[u3 o2] ds].
  fold (p_phase3 (u3 <| u_q := q |> <| u_last := now |>) ds).
  destruct (p_phase3 _ ds) as [u5 o3]. reflexivity.
Qed.

Lemma p_phase1_spec u1 u2 o1 : p_phase1 u1 = (u2, o1) -> pstep qi u1 u2 o1 /\ h_id (u_qs u2) = 0.
Proof.
  unfold p_phase1. destruct (h_id (u_qs u1) =? 0) eqn:E; simpl negb; cbv iota.
  - intros H. inversion H. subst. split; [apply pstep_same; reflexivity|apply N.eqb_eq, E].
  - destruct (send_chunk_or_dataless u1 WQS) as [[x o] ag] eqn:S. intros H. inversion H. subst.
    apply (send_chunk_pstep qi) in S; [|simpl; apply N.eqb_neq, E].
    destruct S as (P & Hz & _). split; [exact P|exact Hz].
Qed.

Lemma p_phase2_spec u2 u3 o2 ds : p_phase2 u2 = (u3, o2, ds) ->
  pstep qi u2 u3 o2 /\ h_id (u_q u3) = 0 /\ u_qs u3 = u_qs u2.
Proof.
  unfold p_phase2. destruct (h_id (u_q u2) =? 0) eqn:E; simpl negb; cbv iota.
  - intros H. inversion H. subst. split; [apply pstep_same; reflexivity|]. split; [apply N.eqb_eq, E|reflexivity].
  - destruct (send_chunk_or_dataless u2 WQ) as [[x o] ag] eqn:S. intros H. inversion H. subst.
    apply (send_chunk_pstep qi) in S; [|simpl; apply N.eqb_neq, E].
    destruct S as (P & Hz & Ho & _). split; [exact P|]. split; [exact Hz|exact Ho].
Qed.

(* the last phase acts on a session whose u_q is the (occupied) new query *)
Lemma p_phase3_spec u4 ds u5 o3 : p_phase3 u4 ds = (u5, o3) -> h_id (u_q u4) <> 0 ->
  pstep qi u4 u5 o3 /\ u_qs u5 = u_qs u4 /\
  (u_q u5 = u_q u4 \/ (answered_by o3 (u_q u4) /\ h_id (u_q u5) = 0)) /\
  (u_lazy u4 = false -> answered_by o3 (u_q u4)).
Proof.
  unfold p_phase3. intros H Hn.
  destruct ((negb ds && (0 <? p_len (u_out u4))) || negb (u_lazy u4)) eqn:E.
  - destruct (send_chunk_or_dataless u4 WQ) as [[x o] ag] eqn:S. inversion H. subst.
    apply (send_chunk_pstep qi) in S; [|exact Hn]. destruct S as (P & Hz & Ho & Ha).
    split; [exact P|]. split; [exact Ho|]. split; [right; split; assumption|intros _; exact Ha].
  - inversion H. subst. split; [apply pstep_same; reflexivity|]. split; [reflexivity|].
    split; [left; reflexivity|]. intros Hl. rewrite Hl in E. rewrite orb_true_r in E. discriminate.
Qed.

(* The accepted ping: exact conservation (the new query and everything held before is answered
   or still held -- nothing is dropped), both previously held queries are answered, the new one is
   stored in u_q or answered, and q_sendrealsoon is left free. *)
Lemma ping_tail_spec u now q unpacked u5 outs :
  ping_tail u now q unpacked = (u5, outs) -> h_id q <> 0 -> h_id2 q = 0 ->
  uacc qi [q_inst q] u u5 outs [] /\
  (h_id (u_q u) <> 0 -> answered_by outs (u_q u)) /\
  (h_id (u_qs u) <> 0 -> answered_by outs (u_qs u)) /\
  (u_q u5 = q \/ (answered_by outs q /\ h_id (u_q u5) = 0)) /\
  h_id (u_qs u5) = 0 /\ u_lazy u5 = u_lazy u /\
  (u_lazy u = false -> answered_by outs q).
Proof.
  unfold ping_tail. cbv zeta.
  set (u1 := process_downstream_ack u _ _).
  assert (P0 : pstep qi u u1 []) by (apply pstep_same, qs3_ack).
  destruct (p_phase1 u1) as [u2 o1] eqn:E1.
  destruct (p_phase2 u2) as [[u3 o2] ds] eqn:E2.
  set (u4 := u3 <| u_q := q |> <| u_last := now |>).
  destruct (p_phase3 u4 ds) as [u5' o3] eqn:E3.
  intros H Hn H2. inversion H. subst u5' outs. clear H.
  apply p_phase1_spec in E1. destruct E1 as (P1 & Z1).
  apply p_phase2_spec in E2. destruct E2 as (P2 & Z2 & S2).
  apply p_phase3_spec in E3; [|exact Hn]. destruct E3 as (P3 & S3 & Q3 & L3).
  pose proof (pstep_trans qi _ _ _ _ _ P0 (pstep_trans qi _ _ _ _ _ P1 P2)) as P012. simpl in P012.
  destruct P012 as (A012 & L012 & Q012 & S012).
  assert (A4 : uacc qi [q_inst q] u3 u4 [] []) by (apply store_q_uacc; auto).
  destruct P3 as (A3 & Lz3 & Q3' & S3').
  split.
  { unfold uacc in *. rewrite !answers_app in *. simpl in *. perm_lia. }
  rewrite (app_assoc o1 o2 o3).
  split; [intros Hq; apply answered_by_app_l; eapply slot_prog_freed; eauto|].
  split; [intros Hq; apply answered_by_app_l; eapply slot_prog_freed; eauto; congruence|].
  split.
  { destruct Q3 as [Q3|[Q3 Q3z]]; [left; exact Q3|right]. split; [apply answered_by_app_r; exact Q3|exact Q3z]. }
  split; [rewrite S3; change (h_id (u_qs u3) = 0); rewrite S2; exact Z1|].
  split; [rewrite Lz3; exact L012|].
  intros Hl. apply answered_by_app_r. apply L3. change (u_lazy u3 = false). congruence.
Qed.

(* ---- early exits --------------------------------------------------------------------------------- *)

Lemma dup_pending_true u q w : dup_pending u q w = true ->
  h_id (getq u w) <> 0 /\ h_type q = h_type (getq u w) /\ h_name q = h_name (getq u w).
Proof.
  unfold dup_pending. intros H.
  apply andb_prop in H. destruct H as [H _]. apply andb_prop in H. destruct H as [H Hn].
  apply andb_prop in H. destruct H as [Hi Ht].
  split; [apply N.eqb_neq; destruct (h_id (getq u w) =? 0); [discriminate|reflexivity]|].
  split; [apply N.eqb_eq, Ht|apply list_eqb_eq, Hn].
Qed.

(* a duplicate of a held query is remembered as id2/from2 of that slot (replacing an earlier
   remembered duplicate, which is thereby dropped) *)
Lemma remember_dup_uacc u q w : dup_pending u q w = true -> h_id q <> 0 ->
  exists d, uacc qi [q_inst q] u (remember_dup u q w) [] d.
Proof.
  intros Hd Hn. apply dup_pending_true in Hd. destruct Hd as (Hh & Ht & Hnm).
  exists (if h_id2 (getq u w) =? 0 then [] else [q_inst2 (getq u w)]).
  unfold uacc. pose proof (user_held_wq u w) as P1. pose proof (user_held_wq (remember_dup u q w) w) as P2.
  unfold remember_dup in *. rewrite getq_setq_same, getq_setq_other in P2.
  set (h := getq u w) in *.
  assert (E1 : hq_held h = q_inst h :: (if h_id2 h =? 0 then [] else [q_inst2 h])).
  { unfold hq_held. apply N.eqb_neq in Hh. rewrite Hh. reflexivity. }
  assert (E2 : hq_held (h <| h_id2 := h_id q |> <| h_from2 := h_from q |>) = [q_inst h; q_inst q]).
  { unfold hq_held. simpl. apply N.eqb_neq in Hh, Hn. rewrite Hh, Hn.
    unfold q_inst, q_inst2. simpl. rewrite Ht, Hnm. reflexivity. }
  rewrite E1 in P1. rewrite E2 in P2. simpl. perm_lia.
Qed.

Lemma acc_answer_same st st' q data enc :
  held st' = held st -> acc qi [q_inst q] st st' [mk_answer q data enc] [].
Proof. intros H. apply acc_same_held; [exact H|]. reflexivity. Qed.

Lemma ping_guard_acc c st now q unpacked r :
  ping_guard c st now q unpacked = Some r -> h_id q <> 0 -> exists d, acc qi [q_inst q] st (fst r) (snd r) d.
Proof.
  unfold ping_guard. intros H Hn.
  destruct (check_auth _ _ _ _ _) eqn:Ec.
  { inversion H. subst. exists []. apply acc_answer_same. reflexivity. }
  apply check_auth_inrange in Ec. cbv zeta in H.
  destruct (answer_from_dnscache _ _ _).
  { inversion H. subst. exists []. apply acc_answer_same. reflexivity. }
  destruct (qmem_hit _ _ _).
  { inversion H. subst. exists []. apply acc_answer_same. reflexivity. }
  destruct (dup_pending _ q WQ) eqn:D1.
  { inversion H. subst. simpl. destruct (remember_dup_uacc _ _ _ D1 Hn) as [d Hd]. exists d.
    apply acc_upd; assumption. }
  destruct (dup_pending _ q WQS) eqn:D2; [|discriminate].
  inversion H. subst. simpl. destruct (remember_dup_uacc _ _ _ D2 Hn) as [d Hd]. exists d.
  apply acc_upd; assumption.
Qed.

(* the ping handler as a whole *)
Lemma handle_ping_acc c st now q unpacked : h_id q <> 0 -> h_id2 q = 0 ->
  exists d, acc qi [q_inst q] st (fst (handle_ping c st now q unpacked)) (snd (handle_ping c st now q unpacked)) d.
Proof.
  intros Hn H2. rewrite handle_ping_eq.
  destruct (ping_guard c st now q unpacked) as [r|] eqn:G.
  - eapply ping_guard_acc; eassumption.
  - cbv zeta. destruct (ping_tail _ now q unpacked) as [u5 outs] eqn:T. simpl.
    apply ping_tail_spec in T; [|assumption..]. destruct T as (A & _).
    exists []. apply acc_upd; [|exact A].
    unfold ping_guard in G. destruct (check_auth _ _ _ _ _) eqn:Ec; [discriminate|].
    eapply check_auth_inrange, Ec.
Qed.

End WithOracles.
