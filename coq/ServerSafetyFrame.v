(* ServerSafetyFrame.v -- C05, part 7: which session records a datagram can change (frame
   condition), and that every index into users[] is range-checked before it is used.

   A datagram received on the DNS socket changes the record of slot j only if
     (own)      the sender passes j's access check check_user_and_ip (slot active, not disabled,
                not timed out, and -- unless -c was given -- same address family and address), or
     (claim)    it is a version handshake and j is the slot find_available_user() hands out
                (inactive, or silent for more than 60 s; never a disabled slot), or
     (rawlogin) it is a raw-mode login frame for j carrying the login hash of j's seed + 1 (the
                raw login deliberately has no address check: it is how a client announces its
                real address; it needs the password), or
     (fwd)      the sender passes the access check of some authenticated session (it is a logged-in
                client) and j is an authenticated live session: client-to-client forwarding puts
                the packet into j's out-packet / queue.
   Everything else -- any command naming another userid, any malformed datagram, any raw frame for
   another userid, any foreign query -- leaves slot j exactly as it was. *)
From Coq Require Import List NArith ZArith Arith Bool Lia ZifyBool ZifyNat ZifyN.
From RecordUpdate Require Import RecordUpdate.
From Iodine Require Import Generated.SrcConsts Base Codec Hostname DnsName DnsMsg Domain Server
  ServerSafetyProofs ServerSafetyOps ServerSafetyStep.
Import ListNotations.
Local Open Scope N_scope.

(* slots outside S are unchanged *)
Definition only (st st' : sstate) (S : nat -> Prop) : Prop :=
  forall j, ~ S j -> nth_error st' j = nth_error st j.

Lemma only_refl st S : only st st S.
Proof. intros j _. reflexivity. Qed.

Lemma only_upd st i f (S : nat -> Prop) : S i -> only st (upd st i f) S.
Proof. intros Hi j Hj. apply upd_other. intros ->. contradiction. Qed.

Lemma only_trans st st1 st2 (S : nat -> Prop) : only st st1 S -> only st1 st2 S -> only st st2 S.
Proof. intros H1 H2 j Hj. rewrite (H2 j Hj). apply H1, Hj. Qed.

Lemma only_weaken st st' (S S' : nat -> Prop) : (forall j, S j -> S' j) -> only st st' S -> only st st' S'.
Proof. intros HS H j Hj. apply H. intros HSj. apply Hj, HS, HSj. Qed.

(* ---- every index is range-checked ---------------------------------------------------------------- *)

Lemma check_user_in_range c st now userid from :
  check_user_and_ip c st now userid from = false -> (0 <= userid < Z.of_nat (length st))%Z.
Proof.
  unfold check_user_and_ip, in_range. destruct ((0 <=? userid)%Z && (Z.to_nat userid <? length st)%nat) eqn:E; [|discriminate].
  intros _. apply andb_prop in E. destruct E as [E1 E2]. apply Nat.ltb_lt in E2. lia.
Qed.

Lemma check_auth_user c st now userid from :
  check_auth c st now userid from = false ->
  check_user_and_ip c st now userid from = false /\ u_auth (getu st (Z.to_nat userid)) = true.
Proof.
  unfold check_auth. destruct (check_user_and_ip c st now userid from); [discriminate|].
  intros H. split; [reflexivity|]. destruct (u_auth _); [reflexivity|discriminate].
Qed.

Lemma check_auth_options_auth c st now userid from :
  check_auth_options c st now userid from = false -> check_auth c st now userid from = false.
Proof.
  unfold check_auth_options. cbv zeta. destruct (check_auth c st now userid from); [|reflexivity].
  cbn. intros H. exact H.
Qed.

Lemma find_user_by_ip_from_spec st : forall ip now i t, find_user_by_ip_from st ip now i = Some t ->
  (i <= t < i + length st)%nat /\
  (let u := nth (t - i) st (user_init 0) in
   u_active u = true /\ u_auth u = true /\ u_disabled u = false /\ live now u = true).
Proof.
  induction st as [|u st IH]; intros ip now i t H; [discriminate|].
  cbn [find_user_by_ip_from] in H.
  destruct (u_active u && u_auth u && negb (u_disabled u) && live now u && (ip =? u_tun_ip u)) eqn:E.
  - inversion H; subst. cbn [length]. split; [lia|]. rewrite Nat.sub_diag. change (nth 0 (u :: st) (user_init 0)) with u.
    repeat (apply andb_prop in E; destruct E as [E ?]). cbv zeta.
    destruct (u_disabled u); [discriminate|]. repeat split; assumption.
  - apply IH in H. destruct H as [H1 H2]. cbn [length]. split; [lia|].
    replace (t - i)%nat with (S (t - S i)) by lia.
    change (nth (S (t - S i)) (u :: st) (user_init 0)) with (nth (t - S i) st (user_init 0)). exact H2.
Qed.

(* a forwarding target is an existing, authenticated, live session *)
Definition receiver (st : sstate) (now : N) (j : nat) : Prop :=
  (j < length st)%nat /\ u_active (getu st j) = true /\ u_auth (getu st j) = true /\
  u_disabled (getu st j) = false /\ live now (getu st j) = true.

Lemma find_user_by_ip_receiver st ip now t : find_user_by_ip st ip now = Some t -> receiver st now t.
Proof.
  intros H. apply find_user_by_ip_from_spec in H. destruct H as [H1 H2].
  rewrite Nat.sub_0_r in H2. unfold receiver, getu. split; [lia|exact H2].
Qed.

Lemma find_available_from_spec st : forall now i t, find_available_from st now i = Some t ->
  (i <= t < i + length st)%nat /\
  (let u := nth (t - i) st (user_init 0) in
   (u_active u = false \/ u_last u + src_USER_TIMEOUT_AVAIL < now) /\ u_disabled u = false).
Proof.
  induction st as [|u st IH]; intros now i t H; [discriminate|].
  cbn [find_available_from] in H.
  destruct ((negb (u_active u) || (u_last u + src_USER_TIMEOUT_AVAIL <? now)) && negb (u_disabled u)) eqn:E.
  - inversion H; subst. cbn [length]. split; [lia|]. rewrite Nat.sub_diag. change (nth 0 (u :: st) (user_init 0)) with u. cbv zeta.
    apply andb_prop in E. destruct E as [E1 E2]. destruct (u_disabled u); [discriminate|].
    split; [|reflexivity]. apply orb_prop in E1. destruct E1 as [E1|E1].
    + left. destruct (u_active u); [discriminate|reflexivity].
    + right. lia.
  - apply IH in H. destruct H as [H1 H2]. cbn [length]. split; [lia|].
    replace (t - i)%nat with (S (t - S i)) by lia.
    change (nth (S (t - S i)) (u :: st) (user_init 0)) with (nth (t - S i) st (user_init 0)). exact H2.
Qed.

(* ---- frame of the per-user handlers ---------------------------------------------------------------- *)

Lemma send_held_only st t : only st (fst (send_held st t)) (fun j => j = t).
Proof.
  unfold send_held. cbv zeta.
  destruct (negb (h_id (u_qs (getu st t)) =? 0)).
  - destruct (send_chunk_or_dataless (getu st t) WQS) as [[x o] b]. apply only_upd. reflexivity.
  - destruct (negb (h_id (u_q (getu st t)) =? 0)); [|apply only_refl].
    destruct (send_chunk_or_dataless (getu st t) WQ) as [[x o] b]. apply only_upd. reflexivity.
Qed.

Section Frame.
Variable login : list N -> N -> list N.
Variable unz : list N -> option (list N).

Lemma handle_full_packet_only st now userid :
  only st (fst (handle_full_packet unz st now userid)) (fun j => j = userid \/ receiver st now j).
Proof.
  unfold handle_full_packet. cbv zeta.
  set (raw := firstn _ _). clearbody raw.
  assert (G : forall r : sstate * list out, only st (fst r) (fun j => j = userid \/ receiver st now j) ->
              only st (fst (let '(st1, outs) := r in
                (upd st1 userid (fun x => x <| u_in := (u_in x) <| p_len := 0 |> <| p_offset := 0 |> |>), outs)))
                (fun j => j = userid \/ receiver st now j)).
  { intros [st1 outs] H. cbn [fst] in *. eapply only_trans; [exact H|]. apply only_upd. left. reflexivity. }
  apply G.
  destruct (unz raw) as [ip|]; [|apply only_refl].
  destruct (24 <=? length ip)%nat; [|apply only_refl].
  destruct (find_user_by_ip st (le32_at ip 20) now) as [t|] eqn:Ef; [|apply only_refl].
  apply find_user_by_ip_receiver in Ef.
  destruct (u_conn (getu st t)); [apply only_refl|].
  destruct (p_len (u_out (getu st t)) =? 0).
  - eapply only_trans; [apply only_upd; right; exact Ef|].
    eapply only_weaken; [|apply send_held_only]. intros j ->. right. exact Ef.
  - cbn [fst]. apply only_upd. right. exact Ef.
Qed.

(* the receiver condition only looks at the slot itself *)
Lemma receiver_upd st i f now j : j <> i -> receiver (upd st i f) now j -> receiver st now j.
Proof.
  intros Hne. unfold receiver. rewrite upd_length, getu_upd_other by exact Hne. auto.
Qed.

End Frame.

(* ---- the slots a datagram may change ------------------------------------------------------------------ *)

Definition own (c : cfg) (st : sstate) (now : N) (from : addr) (j : nat) : Prop :=
  check_user_and_ip c st now (Z.of_nat j) from = false.
Definition sender_auth (c : cfg) (st : sstate) (now : N) (from : addr) : Prop :=
  exists s, check_auth c st now (Z.of_nat s) from = false.
Definition claimed (st : sstate) (now : N) (j : nat) : Prop := find_available_from st now 0 = Some j.
Definition fwd (c : cfg) (st : sstate) (now : N) (from : addr) (j : nat) : Prop :=
  sender_auth c st now from /\ receiver st now j.
Definition S_dns (c : cfg) (st : sstate) (now : N) (from : addr) (j : nat) : Prop :=
  own c st now from j \/ claimed st now j \/ fwd c st now from j.

Lemma own_of_check c st now from userid : check_user_and_ip c st now userid from = false -> own c st now from (Z.to_nat userid).
Proof.
  intros H. unfold own. pose proof (check_user_in_range _ _ _ _ _ H). rewrite Z2Nat.id by lia. exact H.
Qed.

Lemma own_of_auth c st now from userid : check_auth c st now userid from = false -> own c st now from (Z.to_nat userid).
Proof. intros H. apply own_of_check, (check_auth_user _ _ _ _ _ H). Qed.

Lemma own_of_auth_options c st now from userid : check_auth_options c st now userid from = false -> own c st now from (Z.to_nat userid).
Proof. intros H. apply own_of_auth, check_auth_options_auth, H. Qed.

Lemma sender_of_auth c st now from userid : check_auth c st now userid from = false -> sender_auth c st now from.
Proof.
  intros H. exists (Z.to_nat userid). pose proof (check_auth_user _ _ _ _ _ H) as [H1 _].
  pose proof (check_user_in_range _ _ _ _ _ H1). rewrite Z2Nat.id by lia. exact H.
Qed.

Lemma some_inj' {A} (x y : A) : Some x = Some y -> x = y.
Proof. congruence. Qed.

Ltac dscd :=
  match goal with
  | |- context [send_chunk_or_dataless ?u ?w] =>
      destruct (send_chunk_or_dataless u w) as [[? ?] ?]; cbv beta iota
  end.

Lemma handle_ping_only c st now q unpacked :
  only st (fst (handle_ping c st now q unpacked)) (S_dns c st now (h_from q)).
Proof.
  unfold handle_ping. cbv zeta.
  destruct (check_auth c st now _ (h_from q)) eqn:Ec; [apply only_refl|].
  apply own_of_auth in Ec.
  assert (Hi : S_dns c st now (h_from q) (Z.to_nat (schar (chr unpacked 0)))) by (left; exact Ec).
  destruct (answer_from_dnscache _ _ _); [apply only_refl|].
  destruct (qmem_hit _ _ _); [apply only_refl|].
  destruct (dup_pending _ q WQ); [apply only_upd, Hi|].
  destruct (dup_pending _ q WQS); [apply only_upd, Hi|].
  repeat first [dscd | step_if]; apply only_upd, Hi.
Qed.

Section Frame2.
Variable login : list N -> N -> list N.
Variable unz : list N -> option (list N).

Lemma handle_data_only c st now q inb dl :
  only st (fst (handle_data unz c st now q inb dl)) (S_dns c st now (h_from q)).
Proof.
  rewrite handle_data_eq. cbv zeta.
  set (code := if (48 <=? chr inb 0) && (chr inb 0 <=? 57) then _ else _). clearbody code.
  destruct (check_auth c st now _ (h_from q)) eqn:Ec; [apply only_refl|].
  pose proof (sender_of_auth _ _ _ _ _ Ec) as Hs. apply own_of_auth in Ec. rewrite Nat2Z.id in Ec || idtac.
  assert (Hi : S_dns c st now (h_from q) (N.to_nat code)).
  { left. replace (N.to_nat code) with (Z.to_nat (Z.of_N code)) by lia. exact Ec. }
  set (i := N.to_nat code) in *. clearbody i.
  destruct (answer_from_dnscache _ _ _); [apply only_refl|].
  destruct (qmem_hit _ _ _); [apply only_refl|].
  destruct (dup_pending _ q WQ); [apply only_upd, Hi|].
  destruct (dup_pending _ q WQS); [apply only_upd, Hi|].
  set (dcs := hd_decide _ _ _). clearbody dcs. destruct dcs as [u2 upstream_ok]. cbn [fst snd].
  set (u3 := if upstream_ok then _ else u2). clearbody u3.
  set (st1 := upd st i (fun _ => u3)).
  assert (H1 : only st st1 (S_dns c st now (h_from q))) by (apply only_upd, Hi).
  set (r2 := if upstream_ok && _ then handle_full_packet unz st1 now i else (st1, [])).
  assert (H2 : only st (fst r2) (S_dns c st now (h_from q))).
  { subst r2. destruct (upstream_ok && _); [|exact H1].
    eapply only_trans; [exact H1|]. eapply only_weaken; [|apply handle_full_packet_only].
    intros j [->|Hr]; [exact Hi|].
    destruct (Nat.eq_dec j i) as [->|Hne]; [exact Hi|].
    right. right. split; [exact Hs|]. eapply receiver_upd; eassumption. }
  clearbody r2. destruct r2 as [st2 o0]. cbn [fst snd] in *. clear H1. clearbody st1.
  assert (G : forall x o, only st (fst (upd st2 i (fun _ : suser => x), o0 ++ o)) (S_dns c st now (h_from q))).
  { intros x o. cbn [fst]. eapply only_trans; [exact H2|]. apply only_upd, Hi. }
  set (u4 := getu st2 i). clearbody u4.
  repeat first [dscd | step_if]; apply G.
Qed.


Lemma handle_null_request_only c st now rnd q dl :
  only st (fst (handle_null_request login unz c st now rnd q dl)) (S_dns c st now (h_from q)).
Proof.
  unfold handle_null_request.
  destruct (dl <? 2)%nat; [apply only_refl|]. cbv zeta.
  set (inb := firstn dl (h_name q)). clearbody inb.
  set (unpacked := unpack_data b32 (N.to_nat 65536) (skipn 1 inb) (dl - 1)). clearbody unpacked.
  set (c0 := chr inb 0). clearbody c0.
  destruct (is_letter c0 118).
  { destruct (_ =? src_PROTOCOL_VERSION); [|apply only_refl].
    destruct (find_available_from st now 0) as [i|] eqn:Ef; [|apply only_refl].
    apply only_upd. right. left. exact Ef. }
  destruct (is_letter c0 108).
  { destruct (length unpacked <? 17)%nat; [apply only_refl|].
    destruct (check_user_and_ip _ _ _ _ _) eqn:Ec; [apply only_refl|]. apply own_of_check in Ec.
    destruct (_ && _); cbn [fst].
    - eapply only_trans; apply only_upd; left; exact Ec.
    - apply only_upd. left. exact Ec. }
  destruct (is_letter c0 105); [destruct (check_auth _ _ _ _ _); apply only_refl|].
  destruct (is_letter c0 122); [apply only_refl|].
  destruct (is_letter c0 115).
  { destruct (dl <? 3)%nat; [apply only_refl|].
    destruct (check_auth_options _ _ _ _ _) eqn:Ec; [apply only_refl|]. apply own_of_auth_options in Ec.
    repeat (destruct (b32_8to5 (chr inb 2) =? _); [apply only_upd; left; exact Ec|]). apply only_refl. }
  destruct (is_letter c0 111).
  { destruct (dl <? 3)%nat; [apply only_refl|].
    destruct (check_auth_options _ _ _ _ _) eqn:Ec; [apply only_refl|]. apply own_of_auth_options in Ec.
    repeat (destruct (is_letter (chr inb 2) _); [apply only_upd; left; exact Ec|]). apply only_refl. }
  destruct (is_letter c0 121).
  { destruct (dl <? 6)%nat; [apply only_refl|]. destruct (negb _); [apply only_refl|].
    repeat (destruct (_ && _); [apply only_refl|]). apply only_refl. }
  destruct (is_letter c0 114).
  { destruct (dl <? 16)%nat; [apply only_refl|]. destruct (check_auth _ _ _ _ _); [apply only_refl|].
    destruct (_ || _); apply only_refl. }
  destruct (is_letter c0 110).
  { destruct (length unpacked <? 3)%nat; [apply only_refl|].
    destruct (check_auth_options _ _ _ _ _) eqn:Ec; [apply only_refl|]. apply own_of_auth_options in Ec.
    destruct (_ <? 2); [apply only_refl|]. apply only_upd. left. exact Ec. }
  destruct (is_letter c0 112).
  { destruct (h_id q =? 0); [apply only_refl|]. destruct (length unpacked <? 4)%nat; [apply only_refl|].
    apply handle_ping_only. }
  destruct (_ || _); [|apply only_refl].
  destruct (dl <? 6)%nat; [apply only_refl|]. destruct (h_id q =? 0); [apply only_refl|].
  apply handle_data_only.
Qed.

Lemma tunnel_dns_only c st now rnd q :
  only st (fst (tunnel_dns login unz c st now rnd q)) (S_dns c st now (h_from q)).
Proof.
  unfold tunnel_dns. destruct (query_datalen _ _); [|destruct (c_bind c); apply only_refl].
  cbv zeta. destruct (aux_answer _ _ _ _); [apply only_refl|].
  destruct (_ || _); [apply only_refl|]. destruct (_ || _); [|apply only_refl].
  apply handle_null_request_only.
Qed.

(* ---- raw mode -------------------------------------------------------------------------------------------- *)

(* a raw login frame for slot j with the right hash *)
Definition rawlogin (c : cfg) (st : sstate) (now : N) (packet : list N) (j : nat) : Prop :=
  j = N.to_nat (N.land (chr packet 3) src_RAW_HDR_USR_MASK) /\ (j < length st)%nat /\
  u_active (getu st j) = true /\ u_auth (getu st j) = true /\
  list_eqb (firstn 16 (skipn 4 packet)) (login (c_password c) (wrap32 (Z.of_N (u_seed (getu st j)) + 1))) = true.

Definition S_all (c : cfg) (st : sstate) (now : N) (from : addr) (packet : list N) (j : nat) : Prop :=
  S_dns c st now from j \/ rawlogin c st now packet j.

Lemma raw_decode_only c st now packet from r : raw_decode login unz c st now packet from = Some r ->
  only st (fst r) (S_all c st now from packet).
Proof.
  unfold raw_decode. cbv zeta.
  destruct (_ <? 4)%nat; [discriminate|]. destruct (negb _); [discriminate|].
  intros E. apply some_inj' in E. subst r.
  set (userid := N.to_nat _).
  destruct (_ =? src_RAW_HDR_CMD_LOGIN).
  { unfold handle_raw_login.
    destruct (_ <? 16)%nat; [apply only_refl|].
    destruct (length st <=? userid)%nat eqn:E1; [apply only_refl|].
    destruct (negb (u_active (getu st userid)) || _) eqn:E2; [apply only_refl|].
    destruct (negb (u_auth (getu st userid))) eqn:E3; [apply only_refl|].
    destruct (_ <? now); [apply only_refl|].
    destruct (list_eqb _ _) eqn:E5; [|apply only_refl].
    cbn [fst]. apply only_upd. right. unfold rawlogin. fold userid.
    apply Nat.leb_gt in E1. apply orb_false_elim in E2. destruct E2 as [E2 _].
    destruct (u_active (getu st userid)); [|discriminate]. destruct (u_auth (getu st userid)); [|discriminate].
    repeat split; auto. }
  destruct (_ =? src_RAW_HDR_CMD_DATA).
  { unfold handle_raw_data. cbv zeta.
    destruct (check_auth _ _ _ _ _) eqn:Ec; [apply only_refl|].
    cbn [h_from hq0 set] in Ec.
    pose proof (sender_of_auth _ _ _ _ _ Ec) as Hs. apply own_of_auth in Ec. rewrite Nat2Z.id in Ec.
    destruct (negb _); [apply only_refl|].
    eapply only_trans; [apply only_upd; left; left; exact Ec|].
    eapply only_weaken; [|apply handle_full_packet_only].
    intros j [->|Hr]; [left; left; exact Ec|].
    destruct (Nat.eq_dec j userid) as [->|Hne]; [left; left; exact Ec|].
    left. right. right. split; [exact Hs|]. eapply receiver_upd; eassumption. }
  destruct (_ =? src_RAW_HDR_CMD_PING); [|apply only_refl].
  unfold handle_raw_ping.
  destruct (check_auth _ _ _ _ _) eqn:Ec; [apply only_refl|].
  cbn [h_from hq0 set] in Ec. apply own_of_auth in Ec. rewrite Nat2Z.id in Ec.
  destruct (negb _); [apply only_refl|]. cbn [fst]. apply only_upd. left. left. exact Ec.
Qed.

Theorem recv_datagram_only c st now rnd from dest packet :
  only st (fst (recv_datagram login unz c st now rnd from dest packet)) (S_all c st now from packet).
Proof.
  unfold recv_datagram. destruct packet as [|b0 rest] eqn:Epk; [apply only_refl|].
  rewrite <- Epk. clear Epk b0 rest.
  destruct (raw_decode _ _ _ _ _ _ _) as [r|] eqn:Er; [eapply raw_decode_only, Er|].
  cbv zeta. destruct (dq_q _) as [q|]; [|apply only_refl].
  destruct (0 <? _)%Z; [|apply only_refl].
  eapply only_weaken; [|apply tunnel_dns_only]. intros j Hj. left. exact Hj.
Qed.

(* ---- corollaries -------------------------------------------------------------------------------------------- *)

(* the sender is refused by slot j's access check when -c is not given and its address differs *)
Lemma foreign_refused c st now from j : c_check_ip c = true ->
  list_eqb (a_ip from) (a_ip (u_host (getu st j))) = false ->
  check_user_and_ip c st now (Z.of_nat j) from = true.
Proof.
  intros Hc Hne. unfold check_user_and_ip. rewrite Nat2Z.id, Hc, Hne.
  destruct (negb (in_range _ _)); [reflexivity|]. destruct (_ || _); [reflexivity|].
  destruct (_ <? now); [reflexivity|]. cbn [negb].
  destruct (negb (a_fam from =? a_fam (u_host (getu st j)))); [reflexivity|].
  destruct (_ || _); reflexivity.
Qed.

(* a live, active slot is never handed out by the version handshake *)
Lemma live_not_claimed st now j : u_active (getu st j) = true -> ~ (u_last (getu st j) + src_USER_TIMEOUT_AVAIL < now) ->
  ~ claimed st now j.
Proof.
  intros Ha Hl Hc. unfold claimed in Hc. apply find_available_from_spec in Hc.
  destruct Hc as [_ Hc]. rewrite Nat.sub_0_r in Hc. cbv zeta in Hc. fold (getu st j) in Hc.
  destruct Hc as [[Hc|Hc] _]; [congruence|contradiction].
Qed.

(* A datagram whose sender passes no authenticated session's access check (a third party: it is
   not a logged-in client), does not pass slot j's own check, and is not a valid raw login for j,
   leaves the live session j untouched -- whatever its bytes are. *)
Theorem third_party_untouched c st now rnd from dest packet j :
  check_user_and_ip c st now (Z.of_nat j) from = true ->
  (forall s, check_auth c st now (Z.of_nat s) from = true) ->
  u_active (getu st j) = true -> ~ (u_last (getu st j) + src_USER_TIMEOUT_AVAIL < now) ->
  ~ rawlogin c st now packet j ->
  nth_error (fst (recv_datagram login unz c st now rnd from dest packet)) j = nth_error st j.
Proof.
  intros Hown Hauth Hact Hlive Hraw. apply recv_datagram_only.
  intros [[Ho|[Hc|[[s Hs] _]]]|Hr].
  - unfold own in Ho. congruence.
  - eapply live_not_claimed; eassumption.
  - rewrite Hauth in Hs. discriminate.
  - contradiction.
Qed.

End Frame2.
(* EOF *)
