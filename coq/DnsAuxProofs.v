(* DnsAuxProofs.v -- C10, emitter side, part 4: the non-tunnel answers of tunnel_dns
   (aux_answer): NS queries under the tunnel domain are answered with ns.<domain> (name written
   as the label "ns" + a compression pointer into the question name) and, when an IPv4 address is
   known, an additional A record owned by that name (a pointer to the NS RDATA); A queries for
   ns.<domain> / www.<domain> get an address record. *)
From Coq Require Import List NArith Arith Bool Lia ZArith ZifyBool ZifyNat ZifyN.
From Iodine Require Import Generated.SrcConsts Base Codec Hostname DnsName DnsMsg DnsWf DnsWfProofs DnsEmitProofs DnsAnswerProofs.
Import ListNotations.
Local Open Scope N_scope.

Ltac Zify.zify_post_hook ::= Z.div_mod_to_equations.

(* ---------------------------------------------------------------------------------- *)
(* the NS message, parser side                                                          *)

Definition ns_label : list N := [110; 115].

Definition ns_rr (owner ld : list (list N)) (rd : list N) : rr :=
  mk_rr owner 2 1 3600 rd (Some ([ns_label] ++ ld)).

Section NsMsg.
Variables (id ar : N) (lp ld : list (list N)) (hi1 lo1 hi2 lo2 : N) (ip : list N) (with_ip : bool).

Let H := hdr12 id 132 0 1 1 0 ar.
Let QT := DnsWfProofs.be16 2 ++ DnsWfProofs.be16 1.
Let FX := rr_fixed 2 1 3600 5.
Let RD := enc_labels [ns_label] ++ [192 + hi1; lo1].
Let ADD := if with_ip then [192 + hi2; lo2] ++ rr_fixed 1 1 3600 4 ++ ip else [].
Let M := H ++ (enc_labels lp ++ enc_name ld) ++ QT ++ ptr12 ++ FX ++ RD ++ ADD.
Let wl := wire_len (lp ++ ld).
Let P := (12 + wl + 4)%nat.
Let rstart := (P + 12)%nat.

Hypothesis Hid : id < 65536.
Hypothesis Har : ar = if with_ip then 1 else 0.
Hypothesis Hlp : lens_ok lp.
Hypothesis Hld : lens_ok ld.
Hypothesis Hne : ld <> [].
Hypothesis Hw : (wl <= 255)%nat.
Hypothesis Hwns : (wire_len ([ns_label] ++ ld) <= 255)%nat.
Hypothesis Hhi1 : hi1 < 64.
Hypothesis Hlo1 : lo1 < 256.
Hypothesis Hp1 : N.of_nat (12 + length (enc_labels lp)) = hi1 * 256 + lo1.
Hypothesis Hhi2 : hi2 < 64.
Hypothesis Hlo2 : lo2 < 256.
Hypothesis Hp2 : N.of_nat rstart = hi2 * 256 + lo2.
Hypothesis Hip : length ip = 4%nat.

Lemma ns_qn : enc_labels lp ++ enc_name ld = enc_name (lp ++ ld).
Proof. unfold enc_name. rewrite enc_labels_app, app_assoc. reflexivity. Qed.

Lemma ns_lens : lens_ok (lp ++ ld).
Proof. apply Forall_app. split; assumption. Qed.

Lemma ns_label_ok : lens_ok [ns_label].
Proof. constructor; [cbn; lia|constructor]. Qed.

Definition ns_starts := offsets 12 (lp ++ ld).

Lemma ns_target_in : In (12 + length (enc_labels lp))%nat ns_starts.
Proof.
  unfold ns_starts. rewrite offsets_app. apply in_or_app. right.
  destruct ld as [|l r]; [congruence|]. apply offsets_head.
Qed.

Lemma ns_in12 : In 12%nat ns_starts.
Proof.
  unfold ns_starts. destruct lp as [|l r]; [|apply offsets_head].
  cbn [app]. destruct ld as [|l r]; [congruence|apply offsets_head].
Qed.

Lemma ns_P_len : length (H ++ (enc_labels lp ++ enc_name ld) ++ QT) = P.
Proof. unfold P, wl, QT, H. rewrite ns_qn, !app_length, hdr12_length, enc_name_length, !be16_length. lia. Qed.

(* the answer record *)
Lemma ns_answer_rr :
  parse_rr M ns_starts P =
    Some (ns_rr (lp ++ ld) ld RD, (rstart + 5)%nat, offsets rstart [ns_label] ++ [] ++ ns_starts).
Proof.
  set (pre := H ++ (enc_labels lp ++ enc_name ld) ++ QT).
  assert (HM : M = pre ++ ptr12 ++ rr_fixed 2 1 3600 (N.of_nat (length RD)) ++ RD ++ ADD).
  { unfold M, pre, FX. rewrite <- !app_assoc. reflexivity. }
  assert (Hpl : length pre = P) by apply ns_P_len.
  assert (Hown : pname M ns_starts (length pre) = Some (lp ++ ld, (length pre + length ptr12)%nat, [])).
  { rewrite HM. unfold pre. rewrite ns_qn. unfold ptr12. rewrite <- !app_assoc.
    change ([192; 12] ++ ?x) with ((192 + 0) :: 12 :: x).
    pose proof (pname_ptr H (lp ++ ld) QT 0 12 (rr_fixed 2 1 3600 (N.of_nat (length RD)) ++ RD ++ ADD) ns_starts) as Q.
    cbv zeta in Q. rewrite <- !app_assoc in Q. apply Q; try lia.
    - reflexivity.
    - unfold H. rewrite hdr12_length. apply ns_in12.
    - apply ns_lens. }
  rewrite <- Hpl.
  rewrite HM in *.
  rewrite (parse_rr_split pre ptr12 2 1 3600 RD ADD ns_starts (lp ++ ld) [] Hown) by (cbn; lia).
  rewrite <- HM.
  unfold rr_tail. cbn [N.eqb Pos.eqb orb].
  (* the name in RDATA: "ns" + pointer to the first label of the domain *)
  assert (Hrs : (length pre + length ptr12 + 10 = rstart)%nat) by (rewrite Hpl; unfold rstart; cbn [length ptr12]; lia).
  rewrite Hrs, Nat.add_0_r.
  set (a := H ++ enc_labels lp).
  set (b := QT ++ ptr12 ++ FX).
  assert (HM2 : M = (a ++ enc_name ld ++ b) ++ enc_labels [ns_label] ++ (192 + hi1) :: lo1 :: ADD).
  { unfold M, a, b, RD. rewrite <- !app_assoc. reflexivity. }
  assert (Hab : length (a ++ enc_name ld ++ b) = rstart).
  { unfold a, b, QT, FX, H. rewrite !app_length, hdr12_length, enc_name_length, !be16_length, rr_fixed_length.
    unfold rstart, P, wl. pose proof (wire_len_app lp ld). pose proof (enc_labels_length lp). cbn [length ptr12]. lia. }
  assert (Hal : length a = (12 + length (enc_labels lp))%nat) by (unfold a; rewrite app_length; reflexivity).
  pose proof (pname_labels_ptr a ld b [ns_label] hi1 lo1 ADD ([] ++ ns_starts)) as Q. cbv zeta in Q.
  rewrite <- HM2, Hab, Hal in Q.
  rewrite Q; try assumption; [|apply ns_target_in|apply ns_label_ok].
  replace (rstart + length (enc_labels [ns_label]) + 2)%nat with (rstart + length RD)%nat by (unfold RD; rewrite app_length; cbn [length]; lia).
  rewrite Nat.eqb_refl. unfold ns_rr, mk_rr. reflexivity.
Qed.

Definition a_rr (owner : list (list N)) (rd : list N) : rr := mk_rr owner 1 1 3600 rd None.

(* the additional record (when an address is known) *)
Lemma ns_additional_rr : with_ip = true ->
  parse_rr M (offsets rstart [ns_label] ++ [] ++ ns_starts) (rstart + 5) =
    Some (a_rr ([ns_label] ++ ld) ip, length M, [] ++ offsets rstart [ns_label] ++ [] ++ ns_starts).
Proof.
  intros Hwi. set (st := offsets rstart [ns_label] ++ [] ++ ns_starts).
  set (pre := H ++ (enc_labels lp ++ enc_name ld) ++ QT ++ ptr12 ++ FX ++ RD).
  assert (HADD : ADD = [192 + hi2; lo2] ++ rr_fixed 1 1 3600 4 ++ ip) by (unfold ADD; rewrite Hwi; reflexivity).
  assert (HM : M = pre ++ [192 + hi2; lo2] ++ rr_fixed 1 1 3600 (N.of_nat (length ip)) ++ ip ++ []).
  { unfold M, pre. rewrite HADD, Hip, app_nil_r, <- !app_assoc. reflexivity. }
  assert (Hpl : length pre = (rstart + 5)%nat).
  { unfold pre, QT, FX, RD, H. rewrite ns_qn, !app_length, hdr12_length, enc_name_length, !be16_length, rr_fixed_length.
    unfold rstart, P, wl. cbn [length ptr12 enc_labels ns_label app]. lia. }
  (* owner: pointer to the NS RDATA, which itself ends in a pointer *)
  set (a := H ++ enc_labels lp).
  set (b := QT ++ ptr12 ++ FX).
  assert (HM2 : M = (a ++ enc_name ld ++ b) ++ enc_labels [ns_label] ++ (192 + hi1) :: lo1 :: ADD).
  { unfold M, a, b, RD. rewrite <- !app_assoc. reflexivity. }
  assert (Hab : length (a ++ enc_name ld ++ b) = rstart).
  { unfold a, b, QT, FX, H. rewrite !app_length, hdr12_length, enc_name_length, !be16_length, rr_fixed_length.
    unfold rstart, P, wl. pose proof (wire_len_app lp ld). pose proof (enc_labels_length lp). cbn [length ptr12]. lia. }
  assert (Hal : length a = (12 + length (enc_labels lp))%nat) by (unfold a; rewrite app_length; reflexivity).
  assert (Htgt : parse_name (length [ns_label] + S (length ld + 1)) M st rstart true =
                 Some ([ns_label] ++ ld, (rstart + length (enc_labels [ns_label]) + 2)%nat, [])).
  { pose proof (pn_labels_ptr a ld b [ns_label] hi1 lo1 ADD st true) as Q. cbv zeta in Q.
    rewrite <- HM2, Hab, Hal in Q. apply Q; try assumption; [|apply ns_label_ok].
    unfold st. apply in_or_app. right. apply ns_target_in. }
  assert (Hown : pname M st (length pre) = Some ([ns_label] ++ ld, (length pre + 2)%nat, [])).
  { assert (HM3 : M = pre ++ (192 + hi2) :: lo2 :: rr_fixed 1 1 3600 (N.of_nat (length ip)) ++ ip ++ []) by (rewrite HM; reflexivity).
    pose proof (pn_pointer (length [ns_label] + S (length ld + 1)) pre hi2 lo2 (rr_fixed 1 1 3600 (N.of_nat (length ip)) ++ ip ++ []) st rstart
                  ([ns_label] ++ ld) (rstart + length (enc_labels [ns_label]) + 2)%nat [] false Hhi2 Hlo2) as Q.
    rewrite <- HM3 in Q. specialize (Q ltac:(lia) ltac:(lia)).
    assert (Hin : In rstart st) by (unfold st; left; reflexivity).
    specialize (Q Hin Htgt).
    apply (pname_of_parse _ _ _ _ _ _ _ Q); [|exact Hwns].
    rewrite HM3, app_length, Hpl. pose proof (wire_len_ge_length (lp ++ ld)) as G. rewrite app_length in G.
    unfold rstart, P, wl. cbn [length]. lia. }
  rewrite <- Hpl. rewrite HM in *.
  rewrite (parse_rr_split pre [192 + hi2; lo2] 1 1 3600 ip [] st ([ns_label] ++ ld) [] Hown) by (rewrite ?Hip; cbn; lia).
  unfold rr_tail. cbn [N.eqb Pos.eqb orb]. rewrite Hip. cbn [Nat.eqb].
  unfold a_rr, mk_rr. repeat f_equal.
  rewrite !app_length, rr_fixed_length, Hip. cbn [length]. lia.
Qed.

Lemma ns_msg_wf :
  wf_msg M = Some {| m_id := id; m_qr := true; m_qname := lp ++ ld; m_qtype := 2; m_qclass := 1;
                     m_answers := [ns_rr (lp ++ ld) ld RD]; m_authority := [];
                     m_additional := if with_ip then [a_rr ([ns_label] ++ ld) ip] else [] |}.
Proof.
  assert (HM : M = hdr12 id 132 0 1 1 0 ar ++ enc_name (lp ++ ld) ++ DnsWfProofs.be16 2 ++ DnsWfProofs.be16 1 ++ (ptr12 ++ FX ++ RD ++ ADD)).
  { unfold M, H, QT. rewrite ns_qn, <- !app_assoc. reflexivity. }
  pose proof ns_answer_rr as Hans.
  pose proof ns_additional_rr as Hadd.
  assert (Hcase : with_ip = true \/ with_ip = false) by (destruct with_ip; tauto).
  destruct Hcase as [Ewi|Ewi].
  - specialize (Hadd Ewi). rewrite Ewi in Har. rewrite Ewi.
    rewrite HM in *.
    apply (wf_msg_intro id 132 0 1 0 ar (lp ++ ld) 2 1 _ [ns_rr (lp ++ ld) ld RD] [] [a_rr ([ns_label] ++ ld) ip]
             (rstart + 5)%nat (rstart + 5)%nat (offsets rstart [ns_label] ++ [] ++ ns_starts) (offsets rstart [ns_label] ++ [] ++ ns_starts)
             ([] ++ offsets rstart [ns_label] ++ [] ++ ns_starts)); try lia; try assumption; try apply ns_lens.
    + change (N.to_nat 1) with 1%nat. cbn [parse_rrs]. fold wl. fold P. unfold ns_starts in Hans. rewrite Hans. reflexivity.
    + reflexivity.
    + replace (N.to_nat ar) with 1%nat by (rewrite Har; reflexivity). cbn [parse_rrs]. rewrite Hadd. reflexivity.
  - assert (Hlen : length M = (rstart + 5)%nat).
    { unfold M, H, QT, FX, RD, ADD. rewrite Ewi, ns_qn, !app_length, hdr12_length, enc_name_length, !be16_length, rr_fixed_length.
      unfold rstart, P, wl. cbn [length ptr12 enc_labels ns_label app]. lia. }
    rewrite Ewi in Har. rewrite Ewi.
    rewrite HM in *.
    apply (wf_msg_intro id 132 0 1 0 ar (lp ++ ld) 2 1 _ [ns_rr (lp ++ ld) ld RD] [] []
             (rstart + 5)%nat (rstart + 5)%nat (offsets rstart [ns_label] ++ [] ++ ns_starts) (offsets rstart [ns_label] ++ [] ++ ns_starts)
             (offsets rstart [ns_label] ++ [] ++ ns_starts)); try lia; try assumption; try apply ns_lens.
    + change (N.to_nat 1) with 1%nat. cbn [parse_rrs]. fold wl. fold P. unfold ns_starts in Hans. rewrite Hans. reflexivity.
    + reflexivity.
    + replace (N.to_nat ar) with 0%nat by (rewrite Har; reflexivity). cbn [parse_rrs]. rewrite Hlen. reflexivity.
Qed.

End NsMsg.

(* ---------------------------------------------------------------------------------- *)
(* the NS message, emitter side                                                          *)

(* the text in front of the matched domain: every label followed by a dot *)
Definition prefix_of (lp : list (list N)) : list N := concat (map (fun l => l ++ [46]) lp).

Lemma name_split lp ld : ld <> [] -> name_of (lp ++ ld) = prefix_of lp ++ name_of ld.
Proof.
  intros Hne. unfold name_of, prefix_of. induction lp as [|l r IH]; [reflexivity|].
  cbn [app map concat dotted]. destruct (r ++ ld) as [|x y] eqn:E.
  - destruct r; [cbn in E; congruence|discriminate].
  - rewrite IH, <- !app_assoc. reflexivity.
Qed.

Lemma prefix_length lp : length (prefix_of lp) = length (enc_labels lp).
Proof.
  unfold prefix_of. induction lp as [|l r IH]; [reflexivity|].
  cbn [map concat enc_labels length]. rewrite !app_length, IH. cbn [length]. lia.
Qed.

Lemma prefix_not1 lp : lens_ok lp -> length (prefix_of lp) <> 1%nat.
Proof.
  intros H. destruct H as [|l r Hl Hr]; [cbn; lia|].
  unfold prefix_of. cbn [map concat]. rewrite !app_length. cbn [length]. lia.
Qed.

Lemma prefix_last lp : lp <> [] -> exists X, prefix_of lp = X ++ [46].
Proof.
  unfold prefix_of. induction lp as [|l r IH]; [congruence|]. intros _.
  destruct r as [|l2 r].
  - exists l. cbn [map concat]. rewrite app_nil_r. reflexivity.
  - destruct IH as [X HX]; [discriminate|]. exists ((l ++ [46]) ++ X).
    cbn [map concat] in *. rewrite HX, <- !app_assoc. reflexivity.
Qed.

Lemma caseeq_refl a : caseeq a a = true.
Proof. induction a as [|x a IH]; [reflexivity|]. cbn [caseeq]. rewrite N.eqb_refl, IH. reflexivity. Qed.

Lemma be16_pointer x : x < 16384 -> DnsWfProofs.be16 (49152 + x mod 16384) = [192 + x / 256; x mod 256].
Proof. intros H. unfold DnsWfProofs.be16. f_equal; [lia|f_equal; lia]. Qed.

Definition ns_msg (id ar : N) (lp ld : list (list N)) (hi1 lo1 : N) (add : list N) : list N :=
  hdr12 id 132 0 1 1 0 ar ++ (enc_labels lp ++ enc_name ld) ++ (DnsWfProofs.be16 2 ++ DnsWfProofs.be16 1) ++ ptr12 ++
  rr_fixed 2 1 3600 5 ++ (enc_labels [ns_label] ++ [192 + hi1; lo1]) ++ add.

Definition ns_add (hi2 lo2 : N) (dest : option (list N)) : list N :=
  match dest with Some ip => [192 + hi2; lo2] ++ rr_fixed 1 1 3600 4 ++ ip | None => [] end.

Lemma ns_response_form q lp ld dest :
  q_name q = prefix_of lp ++ name_of ld -> q_type q = T_NS ->
  Forall label_ok (lp ++ ld) -> (wire_len (lp ++ ld) <= 255)%nat -> ld <> [] ->
  (match dest with Some ip => length ip = 4%nat | None => True end) ->
  let dl := length (prefix_of lp) in
  let rstart := (12 + wire_len (lp ++ ld) + 4 + 12)%nat in
  dns_encode_ns_response buf64k q (name_of ld) dest =
    Some (ns_msg (q_id q) (match dest with Some _ => 1 | None => 0 end) lp ld
                 (N.of_nat (12 + dl) / 256) (N.of_nat (12 + dl) mod 256)
                 (ns_add (N.of_nat rstart / 256) (N.of_nat rstart mod 256) dest)).
Proof.
  intros Hn Hty Hok Hw Hne Hip dl rstart.
  pose proof (wf_lens_ok _ Hok) as Hlens.
  assert (Hlp : lens_ok lp) by (unfold lens_ok in *; apply Forall_app in Hlens; tauto).
  assert (Hname : q_name q = name_of (lp ++ ld)) by (rewrite name_split by exact Hne; exact Hn).
  pose proof (dotted_length_le (lp ++ ld)) as Hnl. fold (name_of (lp ++ ld)) in Hnl.
  assert (Hdl : (dl <= 255)%nat).
  { unfold dl. rewrite prefix_length. pose proof (enc_labels_length lp). pose proof (wire_len_app lp ld).
    pose proof (wire_len_ge_length ld). lia. }
  unfold dns_encode_ns_response.
  destruct (buf64k <? 12)%nat eqn:E; [apply Nat.ltb_lt in E; unfold buf64k in E; lia|].
  assert (Hlen : length (q_name q) = (dl + length (name_of ld))%nat) by (rewrite Hn, app_length; reflexivity).
  destruct (length (q_name q) <? length (name_of ld))%nat eqn:E1; [apply Nat.ltb_lt in E1; lia|].
  replace (length (q_name q) - length (name_of ld))%nat with dl by lia.
  destruct (dl =? 1)%nat eqn:E2; [apply Nat.eqb_eq in E2; exfalso; exact (prefix_not1 lp Hlp E2)|].
  assert (Hsk : skipn dl (q_name q) = name_of ld).
  { rewrite Hn. unfold dl. rewrite skipn_app, Nat.sub_diag, skipn_all. reflexivity. }
  rewrite Hsk, caseeq_refl. cbn [negb].
  assert (Hdot : (1 <=? dl)%nat && negb (nth (dl - 1) (q_name q) 0 =? DOTC) = false).
  { destruct lp as [|l r].
    - reflexivity.
    - destruct (prefix_last (l :: r)) as [X HX]; [discriminate|].
      rewrite Hn. unfold dl. rewrite HX, app_length, <- app_assoc. cbn [length].
      replace (length X + 1 - 1)%nat with (length X) by lia.
      rewrite app_nth2 by lia. rewrite Nat.sub_diag. cbn [app nth]. unfold DOTC. cbn [N.eqb Pos.eqb negb].
      apply andb_false_r. }
  rewrite Hdot.
  rewrite Hname, (putname_name_of _ _ Hok) by (unfold buf64k; lia). cbn [opt_bytes].
  rewrite hdr_same, be16_same, be32_same. change C_IN with 1. rewrite Hty. change T_NS with 2. change T_A with 1.
  set (p0 := hdr12 (q_id q) 132 0 1 1 0 match dest with Some _ => 1 | None => 0 end ++ enc_name (lp ++ ld)).
  assert (Hp0 : length p0 = (12 + wire_len (lp ++ ld))%nat) by (unfold p0; rewrite app_length, hdr12_length, enc_name_length; reflexivity).
  rewrite checklen_true by (rewrite Hp0; unfold buf64k; lia). cbn [negb].
  rewrite checklen_true by (rewrite !app_length, Hp0, !be16_length; unfold buf64k; lia). cbn [negb].
  set (p2 := (p0 ++ DnsWfProofs.be16 2 ++ DnsWfProofs.be16 1) ++ [192; 12] ++ DnsWfProofs.be16 2 ++ DnsWfProofs.be16 1 ++ DnsWfProofs.be32 3600 ++ DnsWfProofs.be16 5).
  assert (Hp2 : length p2 = rstart).
  { unfold p2. rewrite !app_length, Hp0, !be16_length, be32_length. unfold rstart. cbn [length]. lia. }
  rewrite checklen_true by (rewrite Hp2; unfold rstart, buf64k; lia). cbn [negb].
  rewrite Hp2.
  rewrite (be16_pointer (N.of_nat (12 + dl))) by lia.
  assert (Hp3 : length (p2 ++ [2; 110; 115] ++ [192 + N.of_nat (12 + dl) / 256; N.of_nat (12 + dl) mod 256]) = (rstart + 5)%nat).
  { rewrite app_length, Hp2. cbn [length app]. lia. }
  assert (Hform : p2 ++ [2; 110; 115] ++ [192 + N.of_nat (12 + dl) / 256; N.of_nat (12 + dl) mod 256] =
                  ns_msg (q_id q) (match dest with Some _ => 1 | None => 0 end) lp ld
                         (N.of_nat (12 + dl) / 256) (N.of_nat (12 + dl) mod 256) []).
  { unfold ns_msg, p2, p0, rr_fixed, ptr12, enc_name. rewrite enc_labels_app, app_nil_r, <- !app_assoc. reflexivity. }
  destruct dest as [ip|].
  - rewrite checklen_true by (rewrite Hp3; unfold rstart, buf64k; lia). cbn [negb].
    rewrite (be16_pointer (N.of_nat rstart)) by (unfold rstart; lia).
    rewrite checklen_true by (rewrite app_length, Hp3, !app_length, !be16_length, be32_length; cbn [length]; unfold rstart, buf64k; lia).
    cbn [negb]. assert (Hf : firstn 4 ip = ip) by (rewrite <- Hip; apply firstn_all). rewrite Hf. f_equal.
    rewrite Hform. unfold ns_msg, ns_add, rr_fixed. rewrite <- !app_assoc. cbn [app]. reflexivity.
  - f_equal. rewrite Hform. reflexivity.
Qed.

Definition eff_dest (dest ns_ip : option (list N)) : option (list N) :=
  match ns_ip with Some i => Some i | None => dest end.

Definition ns_goal (q : query) (lp ld : list (list N)) (eff : option (list N)) (msg : DnsWf.msg) : Prop :=
  m_id msg = q_id q /\ m_qr msg = true /\ m_qname msg = lp ++ ld /\ m_qtype msg = T_NS /\ m_qclass msg = 1 /\
  m_authority msg = [] /\
  (exists r, m_answers msg = [r] /\ rr_name r = lp ++ ld /\ rr_type r = T_NS /\ rr_class r = 1 /\
             rr_rdname r = Some (ns_label :: ld)) /\
  match eff with
  | Some ip => exists a, m_additional msg = [a] /\ rr_name a = ns_label :: ld /\ rr_type a = T_A /\ rr_class a = 1 /\ rr_rdata a = ip
  | None => m_additional msg = []
  end.

Lemma ns_answer_wf q lp ld dest ns_ip :
  wf_labels (lp ++ ld) -> ld <> [] -> (wire_len ld <= 252)%nat ->
  q_name q = prefix_of lp ++ name_of ld -> q_type q = T_NS -> q_id q < 65536 ->
  (match eff_dest dest ns_ip with Some ip => length ip = 4%nat | None => True end) ->
  exists m msg, aux_answer q (length (prefix_of lp)) dest ns_ip = Some m /\ wf_msg m = Some msg /\
                ns_goal q lp ld (eff_dest dest ns_ip) msg.
Proof.
  intros [Hok Hw] Hne Hwd Hn Hty Hid Hip.
  pose proof (wf_lens_ok _ Hok) as Hlens.
  assert (Hlp : lens_ok lp) by (unfold lens_ok in *; apply Forall_app in Hlens; tauto).
  assert (Hld : lens_ok ld) by (unfold lens_ok in *; apply Forall_app in Hlens; tauto).
  set (dl := length (prefix_of lp)).
  assert (Hdl : dl = length (enc_labels lp)) by apply prefix_length.
  assert (Hdl2 : (dl <= 255)%nat).
  { rewrite Hdl. pose proof (enc_labels_length lp). pose proof (wire_len_app lp ld). pose proof (wire_len_ge_length ld). lia. }
  assert (Hwns : (wire_len ([ns_label] ++ ld) <= 255)%nat) by (cbn [app]; rewrite wire_len_cons; cbn [length ns_label]; lia).
  (* the dispatch of aux_answer reaches the NS branch *)
  assert (Haux : aux_answer q dl dest ns_ip = dns_encode_ns_response buf64k q (name_of ld) (eff_dest dest ns_ip)).
  { unfold aux_answer. rewrite Hty. change (T_NS =? T_A) with false. rewrite !andb_false_r. cbn [andb].
    change (T_NS =? T_NS) with true. cbv iota.
    rewrite Hn. unfold dl. rewrite skipn_app, Nat.sub_diag, skipn_all. reflexivity. }
  rewrite Haux.
  rewrite (ns_response_form q lp ld (eff_dest dest ns_ip) Hn Hty Hok Hw Hne Hip). fold dl.
  set (rstart := (12 + wire_len (lp ++ ld) + 4 + 12)%nat).
  set (hi1 := N.of_nat (12 + dl) / 256). set (lo1 := N.of_nat (12 + dl) mod 256).
  set (hi2 := N.of_nat rstart / 256). set (lo2 := N.of_nat rstart mod 256).
  destruct (eff_dest dest ns_ip) as [ip|] eqn:Eeff.
  - eexists. eexists. split; [reflexivity|]. split.
    + apply (ns_msg_wf (q_id q) 1 lp ld hi1 lo1 hi2 lo2 ip true); try assumption; try reflexivity;
        unfold hi1, lo1, hi2, lo2, rstart; lia.
    + unfold ns_goal. cbn [m_id m_qr m_qname m_qtype m_qclass m_authority m_answers m_additional].
      repeat split.
      * eexists. split; [reflexivity|]. repeat split.
      * eexists. split; [reflexivity|]. repeat split.
  - eexists. eexists. split; [reflexivity|]. split.
    + apply (ns_msg_wf (q_id q) 0 lp ld hi1 lo1 hi2 lo2 [0; 0; 0; 0] false); try assumption; try reflexivity;
        unfold hi1, lo1, hi2, lo2, rstart; lia.
    + unfold ns_goal. cbn [m_id m_qr m_qname m_qtype m_qclass m_authority m_answers m_additional].
      repeat split. eexists. split; [reflexivity|]. repeat split.
Qed.

(* ---------------------------------------------------------------------------------- *)
(* A answers for ns.<domain> / www.<domain>                                              *)

Lemma a_response_form q ls ip :
  q_name q = name_of ls -> Forall label_ok ls -> (wire_len ls <= 255)%nat -> length ip = 4%nat ->
  dns_encode_a_response buf64k q (Some ip) =
    Some (hdr12 (q_id q) 132 0 1 (N.of_nat (length [ip])) 0 0 ++ enc_name ls ++ DnsWfProofs.be16 (q_type q) ++ DnsWfProofs.be16 1 ++
          recs12 (q_type q) 1 3600 [ip]).
Proof.
  intros Hn Hok Hw Hip. unfold dns_encode_a_response. rewrite Hn.
  destruct (buf64k <? 12)%nat eqn:E; [apply Nat.ltb_lt in E; unfold buf64k in E; lia|].
  rewrite (putname_name_of _ ls Hok) by (unfold buf64k; lia). cbn [opt_bytes].
  rewrite hdr_same, be16_same, be32_same. change C_IN with 1.
  set (p0 := hdr12 (q_id q) 132 0 1 1 0 0 ++ enc_name ls).
  assert (Hp0 : length p0 = (12 + wire_len ls)%nat) by (unfold p0; rewrite app_length, hdr12_length, enc_name_length; reflexivity).
  rewrite checklen_true by (rewrite Hp0; unfold buf64k; lia). cbn [negb].
  rewrite checklen_true by (rewrite !app_length, Hp0, !be16_length; unfold buf64k; lia). cbn [negb].
  rewrite checklen_true by (rewrite !app_length, Hp0, !be16_length, be32_length; cbn [length]; unfold buf64k; lia). cbn [negb].
  assert (Hf : firstn 4 ip = ip) by (rewrite <- Hip; apply firstn_all). rewrite Hf. f_equal.
  unfold p0, recs12, rec12, rr_fixed, ptr12. cbn [map concat length]. rewrite Hip, app_nil_r, <- !app_assoc. reflexivity.
Qed.

Definition a_goal (q : query) (ls : list (list N)) (ip : list N) (msg : DnsWf.msg) : Prop :=
  m_id msg = q_id q /\ m_qr msg = true /\ m_qname msg = ls /\ m_qtype msg = T_A /\ m_qclass msg = 1 /\
  m_authority msg = [] /\ m_additional msg = [] /\
  exists r, m_answers msg = [r] /\ rr_name r = ls /\ rr_type r = T_A /\ rr_class r = 1 /\ rr_rdata r = ip.

Lemma a_answer_wf q (lbl : list N) ls dl dest ns_ip ip :
  wf_labels (lbl :: ls) -> ls <> [] -> q_name q = name_of (lbl :: ls) -> q_id q < 65536 -> q_type q = T_A ->
  length ip = 4%nat ->
  ((map lc lbl = [110; 115] /\ dl = 3%nat /\ eff_dest dest ns_ip = Some ip) \/
   (map lc lbl = [119; 119; 119] /\ dl = 4%nat /\ ip = [127; 0; 0; 1])) ->
  exists m msg, aux_answer q dl dest ns_ip = Some m /\ wf_msg m = Some msg /\ a_goal q (lbl :: ls) ip msg.
Proof.
  intros [Hok Hw] Hne Hn Hid Hty Hip Hcase.
  assert (Haux : aux_answer q dl dest ns_ip = dns_encode_a_response buf64k q (Some ip)).
  { unfold aux_answer. rewrite Hn, Hty. change (T_A =? T_A) with true.
    destruct ls as [|l2 r]; [congruence|]. unfold name_of. cbn [dotted].
    destruct Hcase as [[Hl [Hdl He]]|[Hl [Hdl He]]].
    - destruct lbl as [|c0 [|c1 [|c2 lbl']]]; try discriminate. cbn [map] in Hl. injection Hl as H0 H1.
      subst dl. cbn [app nth Nat.eqb andb]. rewrite H0, H1. cbn [N.eqb Pos.eqb andb]. unfold DOTC. cbn [N.eqb Pos.eqb].
      unfold eff_dest in He. rewrite He. reflexivity.
    - destruct lbl as [|c0 [|c1 [|c2 [|c3 lbl']]]]; try discriminate. cbn [map] in Hl. injection Hl as H0 H1 H2.
      subst dl ip. cbn [app nth Nat.eqb andb]. rewrite H0, H1, H2. cbn [N.eqb Pos.eqb andb]. unfold DOTC. cbn [N.eqb Pos.eqb].
      reflexivity. }
  rewrite Haux, (a_response_form q (lbl :: ls) ip Hn Hok Hw Hip).
  eexists. eexists. split; [reflexivity|]. split.
  - rewrite Hty. apply (answer_wf (q_id q) 132 0 (lbl :: ls) T_A T_A 1 3600 [ip] [None]); try assumption;
      try (unfold T_A; lia); try (cbn [length]; lia); try discriminate.
    + apply wf_lens_ok, Hok.
    + constructor; [|constructor]. split; [rewrite Hip; lia|]. apply rs_a, Hip.
  - unfold a_goal. cbn [m_id m_qr m_qname m_qtype m_qclass m_authority m_additional m_answers combine map fst snd].
    repeat split. eexists. split; [reflexivity|]. repeat split.
Qed.
