(* Extraction of the executable model for C19, used only by the correspondence check.
   ExtrOcamlBasic only; N, positive, nat stay as extracted datatypes; no Extract Constant. *)
From Coq Require Import Extraction ExtrOcamlBasic.
From Iodine Require Import Md5 Login LoginGlue Startup.
Extraction Language OCaml.
Set Extraction Optimize.
Extraction "extracted/model_c19.ml" Md5.md5 Login.login_block Login.login_calculate Login.login_out
  Login.raw_login_up Login.raw_login_down Login.raw_server Login.raw_client_accepts
  LoginGlue.srv_version_reply LoginGlue.srv_version_matches LoginGlue.srv_version_nak LoginGlue.srv_dns_login LoginGlue.srv_login_accepts LoginGlue.u32_of_Z LoginGlue.int_of_u32
  LoginGlue.cli_version LoginGlue.cli_payload_defined LoginGlue.cli_dns_login LoginGlue.cli_raw_login LoginGlue.cli_raw_accepts
  Startup.pw_buffer Startup.prompt_line Startup.startup_password Startup.clamp_maxlen Startup.startup_maxlen Startup.csettings_of Startup.fragsize_accepted.
