(* DnsWfProofs.v -- lemmas about the strict RFC 1035 parser of DnsWf.v (the specification side of
   C10): how it behaves on messages assembled from a header, plainly encoded names, compression
   pointers and resource records.  Nothing here mentions iodine's emitters. *)
From Coq Require Import List NArith Arith Bool Lia ZArith ZifyBool ZifyNat ZifyN.
From Iodine Require Import Base DnsWf.
Import ListNotations.
Local Open Scope N_scope.

Ltac Zify.zify_post_hook ::= Z.div_mod_to_equations.

(* ---------------------------------------------------------------------------------- *)
(* wire encoding of a label list                                                       *)

Fixpoint enc_labels (ls : list (list N)) : list N :=
  match ls with
  | [] => []
  | l :: r => N.of_nat (length l) :: l ++ enc_labels r
  end.
Definition enc_name (ls : list (list N)) : list N := enc_labels ls ++ [0].

(* offsets at which the labels start when the name is written at offset p *)
Fixpoint offsets (p : nat) (ls : list (list N)) : list nat :=
  match ls with
  | [] => []
  | l :: r => p :: offsets (p + S (length l)) r
  end.

Definition lens_ok (ls : list (list N)) : Prop := Forall (fun l => (1 <= length l <= 63)%nat) ls.

Lemma wire_len_cons l r : wire_len (l :: r) = (S (length l) + wire_len r)%nat.
Proof. reflexivity. Qed.

Lemma enc_labels_length ls : S (length (enc_labels ls)) = wire_len ls.
Proof.
  induction ls as [|l r IH]; [reflexivity|].
  rewrite wire_len_cons. cbn [enc_labels length]. rewrite app_length. lia.
Qed.

Lemma enc_name_length ls : length (enc_name ls) = wire_len ls.
Proof. unfold enc_name. rewrite app_length. cbn [length]. rewrite <- enc_labels_length. lia. Qed.

Lemma wire_len_app a b : (wire_len (a ++ b) + 1 = wire_len a + wire_len b)%nat.
Proof.
  induction a as [|l a IH]; [cbn [app]; change (wire_len []) with 1%nat; lia|].
  rewrite <- app_comm_cons, !wire_len_cons. lia.
Qed.

Lemma wire_len_ge_length ls : (length ls < wire_len ls)%nat.
Proof. induction ls as [|l r IH]; [cbn; lia|]. rewrite wire_len_cons. cbn [length]. lia. Qed.

Lemma enc_labels_app a b : enc_labels (a ++ b) = enc_labels a ++ enc_labels b.
Proof.
  induction a as [|l a IH]; [reflexivity|].
  cbn [app enc_labels]. rewrite IH, app_assoc. reflexivity.
Qed.

(* ---------------------------------------------------------------------------------- *)
(* reading bytes of a message given as pre ++ rest                                       *)

Lemma nthb_app pre l i : nthb (pre ++ l) (length pre + i) = nthb l i.
Proof.
  unfold nthb. rewrite nth_error_app2 by lia. f_equal. lia.
Qed.

Lemma nthb_app0 pre x post : nthb (pre ++ x :: post) (length pre) = Some x.
Proof.
  replace (length pre) with (length pre + 0)%nat by lia. rewrite nthb_app. reflexivity.
Qed.

Lemma get16_app pre l i : get16 (pre ++ l) (length pre + i) = get16 l i.
Proof.
  unfold get16. rewrite nthb_app.
  replace (S (length pre + i)) with (length pre + S i)%nat by lia. rewrite nthb_app. reflexivity.
Qed.

Lemma get16_cons2 a b l : get16 (a :: b :: l) 0 = Some (a * 256 + b).
Proof. reflexivity. Qed.

Lemma get16_skip x l i : get16 (x :: l) (S i) = get16 l i.
Proof. reflexivity. Qed.

Lemma slice_app pre s post : slice (pre ++ s ++ post) (length pre) (length s) = Some s.
Proof.
  unfold slice. rewrite skipn_app, Nat.sub_diag, skipn_all. cbn [app skipn].
  rewrite firstn_app, Nat.sub_diag, firstn_all. cbn [firstn]. rewrite app_nil_r, Nat.eqb_refl. reflexivity.
Qed.

Lemma slice_app_end pre s : slice (pre ++ s) (length pre) (length s) = Some s.
Proof. rewrite <- (app_nil_r s) at 1. apply slice_app. Qed.

Definition be16 (v : N) : list N := [(v / 256) mod 256; v mod 256].

Lemma get16_be16 v l : v < 65536 -> get16 (be16 v ++ l) 0 = Some v.
Proof. intros H. unfold be16. cbn [app]. rewrite get16_cons2. f_equal. lia. Qed.

(* ---------------------------------------------------------------------------------- *)
(* parse_name                                                                            *)

Lemma parse_name_mono f : forall f' m st p fl r,
  parse_name f m st p fl = Some r -> (f <= f')%nat -> parse_name f' m st p fl = Some r.
Proof.
  induction f as [|f IH]; intros f' m st p fl r H Hle; [discriminate|].
  destruct f' as [|f']; [lia|].
  cbn [parse_name] in H |- *.
  destruct (nthb m p) as [c|]; [|discriminate].
  destruct (c =? 0); [exact H|].
  destruct (c <? 64).
  - destruct (slice m (S p) (N.to_nat c)) as [lbl|]; [|discriminate].
    destruct (parse_name f m st (S p + N.to_nat c) fl) as [[[ls after] s]|] eqn:E; [|discriminate].
    rewrite (IH f' _ _ _ _ _ E) by lia. exact H.
  - destruct (192 <=? c); [|discriminate].
    destruct (nthb m (S p)) as [c2|]; [|discriminate].
    destruct (_ && _); [|discriminate].
    destruct (parse_name f m st (N.to_nat ((c - 192) * 256 + c2)) true) as [[[ls after] s]|] eqn:E; [|discriminate].
    rewrite (IH f' _ _ _ _ _ E) by lia. exact H.
Qed.

(* the root terminator *)
Lemma pn_root f pre post st fl :
  parse_name (S f) (pre ++ 0 :: post) st (length pre) fl = Some ([], S (length pre), []).
Proof. cbn [parse_name]. rewrite nthb_app0. reflexivity. Qed.

(* labels followed by whatever terminates the name *)
Lemma pn_labels ls : forall f pre rest st fl ls2 after st2,
  lens_ok ls ->
  parse_name f (pre ++ enc_labels ls ++ rest) st (length pre + length (enc_labels ls)) fl = Some (ls2, after, st2) ->
  parse_name (length ls + f) (pre ++ enc_labels ls ++ rest) st (length pre) fl =
    Some (ls ++ ls2, after, if fl then st2 else offsets (length pre) ls ++ st2).
Proof.
  induction ls as [|l r IH]; intros f pre rest st fl ls2 after st2 Hok H.
  - cbn [enc_labels app length Nat.add offsets] in *. rewrite Nat.add_0_r in H. rewrite H.
    destruct fl; reflexivity.
  - inversion Hok as [|? ? Hl Hr]; subst.
    cbn [length Nat.add parse_name enc_labels].
    cbn [enc_labels] in H.
    replace (pre ++ (N.of_nat (length l) :: l ++ enc_labels r) ++ rest)
      with (pre ++ N.of_nat (length l) :: l ++ enc_labels r ++ rest) in *
      by (cbn [app]; rewrite <- app_assoc; reflexivity).
    rewrite nthb_app0.
    destruct (N.of_nat (length l) =? 0) eqn:E0; [lia|].
    destruct (N.of_nat (length l) <? 64) eqn:E1; [|lia].
    rewrite Nat2N.id.
    assert (Hs : slice (pre ++ N.of_nat (length l) :: l ++ enc_labels r ++ rest) (S (length pre)) (length l) = Some l).
    { replace (pre ++ N.of_nat (length l) :: l ++ enc_labels r ++ rest)
        with ((pre ++ [N.of_nat (length l)]) ++ l ++ enc_labels r ++ rest)
        by (rewrite <- app_assoc; reflexivity).
      replace (S (length pre)) with (length (pre ++ [N.of_nat (length l)])) by (rewrite app_length; cbn; lia).
      apply slice_app. }
    rewrite Hs.
    replace (pre ++ N.of_nat (length l) :: l ++ enc_labels r ++ rest)
      with ((pre ++ N.of_nat (length l) :: l) ++ enc_labels r ++ rest) in *
      by (rewrite <- app_assoc; reflexivity).
    replace (S (length pre + length l))%nat with (length (pre ++ N.of_nat (length l) :: l))
      by (rewrite app_length; cbn [length]; lia).
    rewrite (IH f (pre ++ N.of_nat (length l) :: l) rest st fl ls2 after st2 Hr).
    + cbn [app offsets]. destruct fl; [reflexivity|].
      replace (length (pre ++ N.of_nat (length l) :: l)) with (length pre + S (length l))%nat
        by (rewrite app_length; cbn [length]; lia).
      reflexivity.
    + rewrite <- H. f_equal. rewrite !app_length. cbn [length]. rewrite app_length. lia.
Qed.

(* a plainly encoded name *)
Lemma pn_plain ls f pre post st fl : lens_ok ls ->
  parse_name (length ls + S f) (pre ++ enc_name ls ++ post) st (length pre) fl =
    Some (ls, (length pre + wire_len ls)%nat, if fl then [] else offsets (length pre) ls).
Proof.
  intros Hok. unfold enc_name. rewrite <- app_assoc. cbn [app].
  rewrite (pn_labels ls (S f) pre (0 :: post) st fl [] (length pre + wire_len ls)%nat [] Hok).
  - rewrite !app_nil_r. reflexivity.
  - replace (pre ++ enc_labels ls ++ 0 :: post) with ((pre ++ enc_labels ls) ++ 0 :: post)
      by (rewrite <- app_assoc; reflexivity).
    replace (length pre + length (enc_labels ls))%nat with (length (pre ++ enc_labels ls))
      by (rewrite app_length; reflexivity).
    rewrite pn_root. rewrite app_length, <- enc_labels_length. repeat f_equal. lia.
Qed.

(* a compression pointer as terminator (not reached through another pointer) *)
Lemma pn_pointer f pre hi lo post st target ls2 a2 s2 fl :
  hi < 64 -> lo < 256 -> target = N.to_nat (hi * 256 + lo) ->
  (target < length pre)%nat -> In target st ->
  parse_name f (pre ++ (192 + hi) :: lo :: post) st target true = Some (ls2, a2, s2) ->
  parse_name (S f) (pre ++ (192 + hi) :: lo :: post) st (length pre) fl = Some (ls2, (length pre + 2)%nat, []).
Proof.
  intros Hhi Hlo Ht Hlt Hin H. cbn [parse_name]. rewrite nthb_app0.
  destruct (192 + hi =? 0) eqn:E0; [lia|].
  destruct (192 + hi <? 64) eqn:E1; [lia|].
  destruct (192 <=? 192 + hi) eqn:E2; [|lia].
  replace (pre ++ (192 + hi) :: lo :: post) with ((pre ++ [192 + hi]) ++ lo :: post) in *
    by (rewrite <- app_assoc; reflexivity).
  replace (S (length pre)) with (length (pre ++ [192 + hi])) by (rewrite app_length; cbn; lia).
  rewrite nthb_app0.
  replace (192 + hi - 192) with hi by lia. rewrite <- Ht.
  replace (length (pre ++ [192 + hi])) with (S (length pre)) in * by (rewrite app_length; cbn; lia).
  assert (He : existsb (Nat.eqb target) st = true).
  { apply existsb_exists. exists target. split; [exact Hin|apply Nat.eqb_refl]. }
  assert (Hb' : (target <? length pre)%nat = true) by (apply Nat.ltb_lt; lia).
  rewrite Hb', He. cbn [andb]. rewrite H. repeat f_equal. lia.
Qed.

(* ---------------------------------------------------------------------------------- *)
(* pname                                                                                 *)

Lemma pname_of_parse m st p ls after s f :
  parse_name f m st p false = Some (ls, after, s) -> (f <= 2 * length m + 2)%nat -> (wire_len ls <= 255)%nat ->
  pname m st p = Some (ls, after, s).
Proof.
  intros H Hf Hw. unfold pname. rewrite (parse_name_mono _ _ _ _ _ _ _ H Hf).
  unfold name_ok. destruct (wire_len ls <=? 255)%nat eqn:E; [reflexivity|]. apply Nat.leb_gt in E. lia.
Qed.

Lemma pname_plain ls pre post st : lens_ok ls -> (wire_len ls <= 255)%nat ->
  pname (pre ++ enc_name ls ++ post) st (length pre) =
    Some (ls, (length pre + wire_len ls)%nat, offsets (length pre) ls).
Proof.
  intros Hok Hw. apply (pname_of_parse _ _ _ _ _ _ (length ls + 1)); [apply (pn_plain ls 0 pre post st false Hok)| |exact Hw].
  rewrite !app_length, enc_name_length. pose proof (wire_len_ge_length ls). lia.
Qed.

(* ---------------------------------------------------------------------------------- *)
(* resource records                                                                      *)

Definition be32 (v : N) : list N := [(v / 16777216) mod 256; (v / 65536) mod 256; (v / 256) mod 256; v mod 256].

(* the fixed part of a record after the owner name *)
Definition rr_fixed (ty cl ttl rdlen : N) : list N := be16 ty ++ be16 cl ++ be32 ttl ++ be16 rdlen.

Lemma rr_fixed_length ty cl ttl rdlen : length (rr_fixed ty cl ttl rdlen) = 10%nat.
Proof. reflexivity. Qed.

(* what parse_rr does once owner, fixed part and RDATA have been read *)
Definition rr_tail (m : list N) (starts1 : list nat) (rstart rl : nat) (owner : list (list N))
           (ty cl ttl : N) (rdata : list N) : option (rr * nat * list nat) :=
  let name_at off :=
    match pname m starts1 (rstart + off) with
    | Some (ls, after, st) => if (after =? rstart + rl)%nat then Some (ls, st) else None
    | None => None
    end in
  let mk rdn := {| rr_name := owner; rr_type := ty; rr_class := cl; rr_ttl := ttl;
                   rr_rdata := rdata; rr_rdname := rdn |} in
  if (ty =? 5) || (ty =? 2) then
    match name_at 0%nat with Some (ls, st) => Some (mk (Some ls), rstart + rl, st ++ starts1)%nat | None => None end
  else if ty =? 15 then
    if (rl <? 2)%nat then None else
    match name_at 2%nat with Some (ls, st) => Some (mk (Some ls), rstart + rl, st ++ starts1)%nat | None => None end
  else if ty =? 33 then
    if (rl <? 6)%nat then None else
    match name_at 6%nat with Some (ls, st) => Some (mk (Some ls), rstart + rl, st ++ starts1)%nat | None => None end
  else if ty =? 16 then
    if txt_tiled (S rl) rdata && (1 <=? rl)%nat then Some (mk None, rstart + rl, starts1)%nat else None
  else if ty =? 1 then
    if (rl =? 4)%nat then Some (mk None, rstart + rl, starts1)%nat else None
  else if ty =? 41 then
    match owner with [] => Some (mk None, rstart + rl, starts1)%nat | _ => None end
  else Some (mk None, rstart + rl, starts1)%nat.

Lemma parse_rr_split pre ob ty cl ttl rdata post starts owner st1 :
  let m := pre ++ ob ++ rr_fixed ty cl ttl (N.of_nat (length rdata)) ++ rdata ++ post in
  pname m starts (length pre) = Some (owner, (length pre + length ob)%nat, st1) ->
  ty < 65536 -> cl < 65536 -> ttl < 4294967296 -> N.of_nat (length rdata) < 65536 ->
  parse_rr m starts (length pre) =
    rr_tail m (st1 ++ starts) (length pre + length ob + 10) (length rdata) owner ty cl ttl rdata.
Proof.
  intros m Hp Hty Hcl Httl Hrl. unfold parse_rr. rewrite Hp.
  set (p1 := (length pre + length ob)%nat).
  assert (Hm : m = (pre ++ ob) ++ rr_fixed ty cl ttl (N.of_nat (length rdata)) ++ rdata ++ post)
    by (unfold m; rewrite <- app_assoc; reflexivity).
  assert (Hp1 : p1 = length (pre ++ ob)) by (unfold p1; rewrite app_length; reflexivity).
  assert (G : forall k, get16 m (p1 + k) = get16 (rr_fixed ty cl ttl (N.of_nat (length rdata)) ++ rdata ++ post) k).
  { intros k. rewrite Hm, Hp1. apply get16_app. }
  replace p1 with (p1 + 0)%nat at 1 by lia. rewrite !G.
  unfold rr_fixed, be16, be32. cbn [app get16 nthb nth_error].
  assert (Hs : slice m (p1 + 10) (N.to_nat (N.of_nat (length rdata) / 256 mod 256 * 256 + N.of_nat (length rdata) mod 256)) = Some rdata).
  { replace (N.to_nat (N.of_nat (length rdata) / 256 mod 256 * 256 + N.of_nat (length rdata) mod 256)) with (length rdata) by lia.
    unfold m. replace (pre ++ ob ++ rr_fixed ty cl ttl (N.of_nat (length rdata)) ++ rdata ++ post)
      with ((pre ++ ob ++ rr_fixed ty cl ttl (N.of_nat (length rdata))) ++ rdata ++ post)
      by (rewrite <- !app_assoc; reflexivity).
    replace (p1 + 10)%nat with (length (pre ++ ob ++ rr_fixed ty cl ttl (N.of_nat (length rdata))))
      by (rewrite !app_length, rr_fixed_length; unfold p1; lia).
    apply slice_app. }
  rewrite Hs. unfold rr_tail.
  replace (N.to_nat (N.of_nat (length rdata) / 256 mod 256 * 256 + N.of_nat (length rdata) mod 256)) with (length rdata) by lia.
  replace (ty / 256 mod 256 * 256 + ty mod 256) with ty by lia.
  replace (cl / 256 mod 256 * 256 + cl mod 256) with cl by lia.
  replace ((ttl / 16777216 mod 256 * 256 + ttl / 65536 mod 256) * 65536 + (ttl / 256 mod 256 * 256 + ttl mod 256)) with ttl by lia.
  reflexivity.
Qed.

(* ---------------------------------------------------------------------------------- *)
(* names that end in a compression pointer to an earlier, plainly written name (suffix)  *)

(* message = a ++ enc_name lt ++ b ++ enc_labels l0 ++ pointer(length a) ++ post :
   the name read at the start of l0 is l0 ++ lt *)
Lemma pn_labels_ptr a lt b l0 hi lo post st fl :
  let pre := a ++ enc_name lt ++ b in
  let m := pre ++ enc_labels l0 ++ (192 + hi) :: lo :: post in
  hi < 64 -> lo < 256 -> N.of_nat (length a) = hi * 256 + lo ->
  In (length a) st -> lens_ok lt -> lens_ok l0 ->
  parse_name (length l0 + S (length lt + 1)) m st (length pre) fl =
    Some (l0 ++ lt, (length pre + length (enc_labels l0) + 2)%nat, if fl then [] else offsets (length pre) l0).
Proof.
  intros pre m Hhi Hlo Ha Hin Hlt Hl0.
  assert (Hlen : (length a + wire_len lt <= length pre)%nat).
  { unfold pre. rewrite !app_length, enc_name_length. lia. }
  (* the target name, read through the pointer *)
  assert (Ht : parse_name (length lt + 1) m st (length a) true = Some (lt, (length a + wire_len lt)%nat, [])).
  { unfold m, pre. rewrite <- !app_assoc. apply (pn_plain lt 0 a _ st true Hlt). }
  (* the pointer itself *)
  assert (Hp : parse_name (S (length lt + 1)) m st (length pre + length (enc_labels l0)) fl =
               Some (lt, (length pre + length (enc_labels l0) + 2)%nat, [])).
  { unfold m. replace (pre ++ enc_labels l0 ++ (192 + hi) :: lo :: post) with ((pre ++ enc_labels l0) ++ (192 + hi) :: lo :: post)
      by (rewrite <- app_assoc; reflexivity).
    replace (length pre + length (enc_labels l0))%nat with (length (pre ++ enc_labels l0)) by (rewrite app_length; reflexivity).
    apply (pn_pointer _ _ hi lo post st (length a) lt (length a + wire_len lt)%nat []); try assumption.
    - lia.
    - rewrite app_length. pose proof (wire_len_ge_length lt). lia.
    - unfold m in Ht. rewrite <- app_assoc. exact Ht. }
  pose proof (pn_labels l0 _ pre _ st fl lt _ [] Hl0 Hp) as H.
  rewrite app_nil_r in H. destruct fl; exact H.
Qed.

Lemma pname_labels_ptr a lt b l0 hi lo post st :
  let pre := a ++ enc_name lt ++ b in
  let m := pre ++ enc_labels l0 ++ (192 + hi) :: lo :: post in
  hi < 64 -> lo < 256 -> N.of_nat (length a) = hi * 256 + lo ->
  In (length a) st -> lens_ok lt -> lens_ok l0 -> (wire_len (l0 ++ lt) <= 255)%nat ->
  pname m st (length pre) = Some (l0 ++ lt, (length pre + length (enc_labels l0) + 2)%nat, offsets (length pre) l0).
Proof.
  intros pre m Hhi Hlo Ha Hin Hlt Hl0 Hw.
  pose proof (pn_labels_ptr a lt b l0 hi lo post st false Hhi Hlo Ha Hin Hlt Hl0) as H. cbv zeta in H.
  apply (pname_of_parse _ _ _ _ _ _ _ H); [|exact Hw].
  unfold m, pre. rewrite !app_length, enc_name_length. cbn [length].
  pose proof (wire_len_ge_length lt). pose proof (wire_len_ge_length l0). pose proof (enc_labels_length l0). lia.
Qed.

Lemma pname_ptr a lt b hi lo post st :
  let pre := a ++ enc_name lt ++ b in
  hi < 64 -> lo < 256 -> N.of_nat (length a) = hi * 256 + lo ->
  In (length a) st -> lens_ok lt -> (wire_len lt <= 255)%nat ->
  pname (pre ++ (192 + hi) :: lo :: post) st (length pre) = Some (lt, (length pre + 2)%nat, []).
Proof.
  intros pre Hhi Hlo Ha Hin Hlt Hw.
  pose proof (pname_labels_ptr a lt b [] hi lo post st Hhi Hlo Ha Hin Hlt (Forall_nil _) Hw) as H.
  cbn [enc_labels app length offsets] in H. rewrite Nat.add_0_r in H. exact H.
Qed.

Lemma offsets_head p l r : In p (offsets p (l :: r)).
Proof. left. reflexivity. Qed.

Lemma offsets_app p a b : offsets p (a ++ b) = offsets p a ++ offsets (p + length (enc_labels a)) b.
Proof.
  revert p. induction a as [|l a IH]; intros p; [cbn; rewrite Nat.add_0_r; reflexivity|].
  cbn [app offsets enc_labels length]. rewrite IH, app_length.
  replace (p + S (length l) + length (enc_labels a))%nat with (p + S (length l + length (enc_labels a)))%nat by lia. reflexivity.
Qed.

(* ---------------------------------------------------------------------------------- *)
(* TXT tiling                                                                            *)

Lemma txt_tiled_mono f : forall f' r, txt_tiled f r = true -> (f <= f')%nat -> txt_tiled f' r = true.
Proof.
  induction f as [|f IH]; intros f' r H Hle.
  - destruct r; [destruct f'; reflexivity|discriminate].
  - destruct r as [|c r]; [destruct f'; reflexivity|].
    destruct f' as [|f']; [lia|]. cbn [txt_tiled] in *.
    destruct (N.to_nat c <=? length r)%nat; [|discriminate]. apply IH; [exact H|lia].
Qed.

(* a string of n bytes in front of a tiled rest *)
Lemma txt_tiled_cons f s rest : txt_tiled f rest = true ->
  txt_tiled (S f) (N.of_nat (length s) :: s ++ rest) = true.
Proof.
  intros H. cbn [txt_tiled]. rewrite Nat2N.id, app_length.
  destruct (length s <=? length s + length rest)%nat eqn:E; [|apply Nat.leb_gt in E; lia].
  rewrite skipn_app, Nat.sub_diag, skipn_all. exact H.
Qed.

(* ---------------------------------------------------------------------------------- *)
(* whole messages: header ++ question ++ records                                        *)

Definition hdr12 (id f1 f2 qd an ns ar : N) : list N :=
  be16 id ++ [f1; f2] ++ be16 qd ++ be16 an ++ be16 ns ++ be16 ar.

Lemma hdr12_length id f1 f2 qd an ns ar : length (hdr12 id f1 f2 qd an ns ar) = 12%nat.
Proof. reflexivity. Qed.

Lemma wf_msg_intro id f1 f2 an ns ar ls ty cl rest ans auth add p2 p3 st2 st3 st4 :
  let m := hdr12 id f1 f2 1 an ns ar ++ enc_name ls ++ be16 ty ++ be16 cl ++ rest in
  id < 65536 -> an < 65536 -> ns < 65536 -> ar < 65536 -> ty < 65536 -> cl < 65536 ->
  lens_ok ls -> (wire_len ls <= 255)%nat ->
  parse_rrs m (N.to_nat an) (offsets 12 ls) (12 + wire_len ls + 4) = Some (ans, p2, st2) ->
  parse_rrs m (N.to_nat ns) st2 p2 = Some (auth, p3, st3) ->
  parse_rrs m (N.to_nat ar) st3 p3 = Some (add, length m, st4) ->
  wf_msg m = Some {| m_id := id; m_qr := 128 <=? f1; m_qname := ls; m_qtype := ty; m_qclass := cl;
                     m_answers := ans; m_authority := auth; m_additional := add |}.
Proof.
  intros m Hid Han Hns Har Hty Hcl Hok Hw H1 H2 H3.
  set (R := enc_name ls ++ be16 ty ++ be16 cl ++ rest) in *.
  assert (G0 : get16 m 0 = Some id) by (unfold m, hdr12, be16; cbn [app get16 nthb nth_error]; f_equal; lia).
  assert (G2 : nthb m 2 = Some f1) by reflexivity.
  assert (G4 : get16 m 4 = Some 1) by reflexivity.
  assert (G6 : get16 m 6 = Some an) by (unfold m, hdr12, be16; cbn [app get16 nthb nth_error]; f_equal; lia).
  assert (G8 : get16 m 8 = Some ns) by (unfold m, hdr12, be16; cbn [app get16 nthb nth_error]; f_equal; lia).
  assert (G10 : get16 m 10 = Some ar) by (unfold m, hdr12, be16; cbn [app get16 nthb nth_error]; f_equal; lia).
  assert (Gn : pname m [] 12 = Some (ls, (12 + wire_len ls)%nat, offsets 12 ls)).
  { pose proof (pname_plain ls (hdr12 id f1 f2 1 an ns ar) (be16 ty ++ be16 cl ++ rest) [] Hok Hw) as P.
    rewrite hdr12_length in P. exact P. }
  assert (Gq : forall k, get16 m (12 + wire_len ls + k) = get16 (be16 ty ++ be16 cl ++ rest) k).
  { intros k. unfold m, R. rewrite app_assoc.
    replace (12 + wire_len ls)%nat with (length (hdr12 id f1 f2 1 an ns ar ++ enc_name ls))
      by (rewrite app_length, enc_name_length; reflexivity).
    apply get16_app. }
  assert (Gt : get16 m (12 + wire_len ls) = Some ty).
  { replace (12 + wire_len ls)%nat with (12 + wire_len ls + 0)%nat by lia. rewrite Gq.
    unfold be16; cbn [app get16 nthb nth_error]; f_equal; lia. }
  assert (Gc : get16 m (12 + wire_len ls + 2) = Some cl).
  { rewrite Gq. unfold be16; cbn [app get16 nthb nth_error]; f_equal; lia. }
  unfold wf_msg. rewrite G0, G2, G4, G6, G8, G10. cbn [N.eqb Pos.eqb negb].
  rewrite Gn, Gt, Gc, H1, H2, H3, Nat.eqb_refl. reflexivity.
Qed.

(* ---------------------------------------------------------------------------------- *)
(* pointer-free RDATA: how it parses does not depend on where it sits                    *)

(* number of fixed bytes in front of the name of name-valued RDATA *)
Definition name_prefix_len (ty : N) : option nat :=
  if (ty =? 5) || (ty =? 2) then Some 0%nat
  else if ty =? 15 then Some 2%nat
  else if ty =? 33 then Some 6%nat
  else None.

Definition opaque_type (ty : N) : Prop :=
  ty <> 5 /\ ty <> 2 /\ ty <> 15 /\ ty <> 33 /\ ty <> 16 /\ ty <> 1 /\ ty <> 41.

Inductive rd_shape : N -> list N -> option (list (list N)) -> Prop :=
| rs_opaque ty rd : opaque_type ty -> rd_shape ty rd None
| rs_txt rd : txt_tiled (S (length rd)) rd = true -> (1 <= length rd)%nat -> rd_shape 16 rd None
| rs_a rd : length rd = 4%nat -> rd_shape 1 rd None
| rs_name ty pfx rl : name_prefix_len ty = Some (length pfx) -> lens_ok rl -> (wire_len rl <= 255)%nat ->
                      rd_shape ty (pfx ++ enc_name rl) (Some rl).

Definition mk_rr (owner : list (list N)) (ty cl ttl : N) (rd : list N) (rdn : option (list (list N))) : rr :=
  {| rr_name := owner; rr_type := ty; rr_class := cl; rr_ttl := ttl; rr_rdata := rd; rr_rdname := rdn |}.

Lemma rr_tail_shape ty rd rdn pre post starts1 owner cl ttl :
  rd_shape ty rd rdn ->
  exists st, rr_tail (pre ++ rd ++ post) starts1 (length pre) (length rd) owner ty cl ttl rd =
             Some (mk_rr owner ty cl ttl rd rdn, (length pre + length rd)%nat, st ++ starts1).
Proof.
  intros Hs. destruct Hs as [ty rd [H5 [H2 [H15 [H33 [H16 [H1 H41]]]]]]|rd Ht Hl|rd Hl4|ty pfx rl Hp Hok Hw].
  - exists []. unfold rr_tail.
    destruct (ty =? 5) eqn:E5; [lia|]. destruct (ty =? 2) eqn:E2; [lia|]. destruct (ty =? 15) eqn:E15; [lia|].
    destruct (ty =? 33) eqn:E33; [lia|]. destruct (ty =? 16) eqn:E16; [lia|]. destruct (ty =? 1) eqn:E1; [lia|].
    destruct (ty =? 41) eqn:E41; [lia|]. reflexivity.
  - exists []. unfold rr_tail. cbn [N.eqb Pos.eqb orb]. rewrite Ht.
    destruct (1 <=? length rd)%nat eqn:E; [reflexivity|apply Nat.leb_gt in E; lia].
  - exists []. unfold rr_tail. cbn [N.eqb Pos.eqb orb]. rewrite Hl4. reflexivity.
  - exists (offsets (length pre + length pfx) rl).
    assert (Hn : pname (pre ++ (pfx ++ enc_name rl) ++ post) starts1 (length pre + length pfx) =
                 Some (rl, (length pre + length pfx + wire_len rl)%nat, offsets (length pre + length pfx) rl)).
    { replace (pre ++ (pfx ++ enc_name rl) ++ post) with ((pre ++ pfx) ++ enc_name rl ++ post)
        by (rewrite <- !app_assoc; reflexivity).
      replace (length pre + length pfx)%nat with (length (pre ++ pfx)) by (rewrite app_length; reflexivity).
      apply pname_plain; assumption. }
    assert (He : (length pre + length pfx + wire_len rl =? length pre + length (pfx ++ enc_name rl))%nat = true).
    { apply Nat.eqb_eq. rewrite app_length, enc_name_length. lia. }
    pose proof (wire_len_ge_length rl) as Hg.
    unfold rr_tail, name_prefix_len in *.
    destruct ((ty =? 5) || (ty =? 2)) eqn:E52.
    + inversion Hp as [Hp']. rewrite <- Hp' in *. rewrite Nat.add_0_r in *. rewrite Hn, He. reflexivity.
    + destruct (ty =? 15) eqn:E15.
      * inversion Hp as [Hp']. rewrite <- Hp' in *. rewrite Hn, He.
        destruct (length (pfx ++ enc_name rl) <? 2)%nat eqn:E; [apply Nat.ltb_lt in E; rewrite app_length in E; lia|reflexivity].
      * destruct (ty =? 33) eqn:E33; [|discriminate].
        inversion Hp as [Hp']. rewrite <- Hp' in *. rewrite Hn, He.
        destruct (length (pfx ++ enc_name rl) <? 6)%nat eqn:E; [apply Nat.ltb_lt in E; rewrite app_length in E; lia|reflexivity].
Qed.

(* ---------------------------------------------------------------------------------- *)
(* records whose owner is the pointer 0xC00C to the question name                        *)

Definition ptr12 : list N := [192; 12].

Definition rec12 (ty cl ttl : N) (rd : list N) : list N :=
  ptr12 ++ rr_fixed ty cl ttl (N.of_nat (length rd)) ++ rd.

Lemma rec12_length ty cl ttl rd : length (rec12 ty cl ttl rd) = (12 + length rd)%nat.
Proof. unfold rec12. rewrite !app_length, rr_fixed_length. reflexivity. Qed.

Lemma parse_rr_ptr12 H ls mid ty cl ttl rd rdn post starts :
  let pre := H ++ enc_name ls ++ mid in
  let m := pre ++ rec12 ty cl ttl rd ++ post in
  length H = 12%nat -> lens_ok ls -> (wire_len ls <= 255)%nat -> In 12%nat starts ->
  ty < 65536 -> cl < 65536 -> ttl < 4294967296 -> N.of_nat (length rd) < 65536 ->
  rd_shape ty rd rdn ->
  exists st', parse_rr m starts (length pre) = Some (mk_rr ls ty cl ttl rd rdn, (length pre + length (rec12 ty cl ttl rd))%nat, st') /\
              In 12%nat st'.
Proof.
  intros pre m HH Hok Hw Hin Hty Hcl Httl Hrl Hs.
  set (fx := rr_fixed ty cl ttl (N.of_nat (length rd))).
  assert (Hm : m = pre ++ ptr12 ++ fx ++ rd ++ post).
  { unfold m, rec12, fx. rewrite <- !app_assoc. reflexivity. }
  assert (Hown : pname m starts (length pre) = Some (ls, (length pre + length ptr12)%nat, [])).
  { rewrite Hm. unfold pre, ptr12. change ([192; 12] ++ ?x) with ((192 + 0) :: 12 :: x).
    apply pname_ptr; try assumption; try lia. rewrite HH. exact Hin. }
  rewrite Hm in *. unfold fx in *.
  rewrite (parse_rr_split pre ptr12 ty cl ttl rd post starts ls [] Hown Hty Hcl Httl Hrl).
  fold fx.
  replace (pre ++ ptr12 ++ fx ++ rd ++ post) with ((pre ++ ptr12 ++ fx) ++ rd ++ post)
    by (rewrite <- !app_assoc; reflexivity).
  replace (length pre + length ptr12 + 10)%nat with (length (pre ++ ptr12 ++ fx))
    by (rewrite !app_length; unfold fx; rewrite rr_fixed_length; lia).
  destruct (rr_tail_shape ty rd rdn (pre ++ ptr12 ++ fx) post ([] ++ starts) ls cl ttl Hs) as [st Hst].
  rewrite Hst. eexists. split.
  - replace (length pre + length (rec12 ty cl ttl rd))%nat with (length (pre ++ ptr12 ++ fx) + length rd)%nat; [reflexivity|].
    rewrite rec12_length, !app_length. unfold fx. rewrite rr_fixed_length. cbn [length ptr12]. lia.
  - apply in_or_app. right. exact Hin.
Qed.

Definition recs12 (ty cl ttl : N) (rds : list (list N)) : list N := concat (map (rec12 ty cl ttl) rds).

Lemma parse_rrs_ptr12 H ls ty cl ttl : forall rds rdns mid starts,
  let pre := H ++ enc_name ls ++ mid in
  let m := pre ++ recs12 ty cl ttl rds in
  length H = 12%nat -> lens_ok ls -> (wire_len ls <= 255)%nat -> In 12%nat starts ->
  ty < 65536 -> cl < 65536 -> ttl < 4294967296 ->
  Forall2 (fun rd rdn => N.of_nat (length rd) < 65536 /\ rd_shape ty rd rdn) rds rdns ->
  exists st', parse_rrs m (length rds) starts (length pre) =
              Some (map (fun p => mk_rr ls ty cl ttl (fst p) (snd p)) (combine rds rdns), length m, st').
Proof.
  induction rds as [|rd rds IH]; intros rdns mid starts pre m HH Hok Hw Hin Hty Hcl Httl HF.
  - inversion HF; subst. exists starts. unfold m, recs12. cbn [map concat parse_rrs length combine]. rewrite app_nil_r. reflexivity.
  - inversion HF as [|? rdn ? rdns' [Hrl Hs] HF']; subst.
    assert (Hm : m = pre ++ rec12 ty cl ttl rd ++ recs12 ty cl ttl rds) by reflexivity.
    destruct (parse_rr_ptr12 H ls mid ty cl ttl rd rdn (recs12 ty cl ttl rds) starts HH Hok Hw Hin Hty Hcl Httl Hrl Hs) as [st1 [Hrr Hin1]].
    fold pre in Hrr. rewrite <- Hm in Hrr.
    cbn [length parse_rrs]. rewrite Hrr.
    destruct (IH rdns' (mid ++ rec12 ty cl ttl rd) st1 HH Hok Hw Hin1 Hty Hcl Httl HF') as [st2 H2].
    assert (Hm2 : (H ++ enc_name ls ++ mid ++ rec12 ty cl ttl rd) ++ recs12 ty cl ttl rds = m).
    { rewrite Hm. unfold pre. rewrite <- !app_assoc. reflexivity. }
    rewrite Hm2 in H2.
    replace (length (H ++ enc_name ls ++ mid ++ rec12 ty cl ttl rd)) with (length pre + length (rec12 ty cl ttl rd))%nat in H2
      by (unfold pre; rewrite !app_length; lia).
    rewrite H2. exists st2. reflexivity.
Qed.

(* a complete answer: header (QR|AA), question, n records owned by the question name *)
Lemma answer_wf id f1 f2 ls ty aty cl ttl rds rdns :
  let m := hdr12 id f1 f2 1 (N.of_nat (length rds)) 0 0 ++ enc_name ls ++ be16 ty ++ be16 1 ++ recs12 aty cl ttl rds in
  id < 65536 -> ty < 65536 -> aty < 65536 -> cl < 65536 -> ttl < 4294967296 -> N.of_nat (length rds) < 65536 ->
  lens_ok ls -> ls <> [] -> (wire_len ls <= 255)%nat ->
  Forall2 (fun rd rdn => N.of_nat (length rd) < 65536 /\ rd_shape aty rd rdn) rds rdns ->
  wf_msg m = Some {| m_id := id; m_qr := 128 <=? f1; m_qname := ls; m_qtype := ty; m_qclass := 1;
                     m_answers := map (fun p => mk_rr ls aty cl ttl (fst p) (snd p)) (combine rds rdns);
                     m_authority := []; m_additional := [] |}.
Proof.
  intros m Hid Hty Haty Hcl Httl Hn Hok Hne Hw HF.
  assert (Hin : In 12%nat (offsets 12 ls)) by (destruct ls; [congruence|apply offsets_head]).
  destruct (parse_rrs_ptr12 (hdr12 id f1 f2 1 (N.of_nat (length rds)) 0 0) ls aty cl ttl rds rdns (be16 ty ++ be16 1) (offsets 12 ls)
              (hdr12_length _ _ _ _ _ _ _) Hok Hw Hin Haty Hcl Httl HF) as [st' Hp].
  assert (Hm : (hdr12 id f1 f2 1 (N.of_nat (length rds)) 0 0 ++ enc_name ls ++ be16 ty ++ be16 1) ++ recs12 aty cl ttl rds = m)
    by (unfold m; rewrite <- !app_assoc; reflexivity).
  rewrite Hm in Hp.
  replace (length (hdr12 id f1 f2 1 (N.of_nat (length rds)) 0 0 ++ enc_name ls ++ be16 ty ++ be16 1)) with (12 + wire_len ls + 4)%nat in Hp
    by (rewrite !app_length, hdr12_length, enc_name_length; unfold be16; cbn [length]; lia).
  apply (wf_msg_intro id f1 f2 (N.of_nat (length rds)) 0 0 ls ty 1 (recs12 aty cl ttl rds) _ [] [] (length m) (length m) st' st' st');
    try assumption; try lia; try reflexivity.
  fold m. rewrite Nat2N.id. exact Hp.
Qed.
