(* ClientUnmatched.v -- C06, part 4d: replies that do not match the client's recent queries are
   ignored: no packet reaches the tun device, the reassembly buffer, the upstream packet, the
   retransmission counter and the watchdog clock are untouched.  Lemmas only. *)
From Coq Require Import List NArith ZArith Arith Bool Lia ZifyBool ZifyNat ZifyN.
From RecordUpdate Require Import RecordUpdate.
From Iodine Require Import Generated.SrcConsts Base Codec Hostname DnsName DnsMsg Client
     DecodeSafetyProofs DecodeSafetyMx DecodeSafetyAnswer ClientStages ClientSafetyProofs.
Import ListNotations.
Local Open Scope N_scope.

Ltac Zify.zify_post_hook ::= Z.div_mod_to_equations.

(* everything except: c_ping_soon, c_packrecv, c_packrecv_oos, c_servfail, c_recvcnt, c_sendcnt,
   c_selecttimeout, c_lazy, c_chunkid, c_prev, c_prev2, c_rand_seed *)
Definition kept (s : cstate) :=
  (c_in s, c_out s, c_resent s, c_lastdown s, c_running s, c_datacmc s,
   (c_userid s, c_domain s, c_codec s, c_maxlen s, c_qtype s, c_edns0 s, c_dns s)).

(* everything except c_ping_soon *)
Definition all_but_ping (s : cstate) :=
  (kept s, (c_packrecv s, c_packrecv_oos s, c_servfail s, c_recvcnt s, c_sendcnt s),
   (c_selecttimeout s, c_lazy s, c_chunkid s, c_prev s, c_prev2 s, c_rand_seed s)).

Lemma quiet_kept s s' o : quiet s s' o -> kept s' = kept s.
Proof.
  intros (Q1 & Q2 & Q3 & _). unfold core in Q1. inversion Q1 as [[E1 E2 E3 E4 E5 E6 E7 E8 E9 E10 E11 E12 E13 E14]].
  unfold kept. rewrite E1, E2, E3, E4, E5, E6, E7, E8, E9, E10, E11, Q2, Q3. reflexivity.
Qed.

Definition id_recent (s : cstate) (qid : N) : bool :=
  (qid =? c_chunkid s) || (qid =? c_prev s) || (qid =? c_prev2 s).

Section WithUnz.
Variable unz : list N -> option (list N).

Lemma servfail_kept s read rcode : kept (td_servfail s read rcode) = kept s /\
  c_chunkid (td_servfail s read rcode) = c_chunkid s.
Proof.
  unfold td_servfail.
  repeat match goal with |- context[if ?b then _ else _] => destruct b end; split; reflexivity.
Qed.

Lemma oos_kept s3 now_flag : kept (fst (td_oos s3 now_flag)) = kept s3 /\ no_tun (snd (td_oos s3 now_flag)).
Proof.
  unfold td_oos. cbv zeta.
  match goal with |- context[send_ping ?st] => assert (Hs : kept st = kept s3) end.
  { destruct (_ && _ && _); reflexivity. }
  destruct now_flag; [|split; [exact Hs|apply no_tun_nil]].
  match goal with |- context[send_ping ?st] =>
    pose proof (send_ping_quiet st) as Hq; destruct (send_ping st) as [s6 o] end.
  cbn [fst snd] in Hq |- *. split; [|apply Hq].
  apply quiet_kept in Hq. rewrite <- Hs, <- Hq. reflexivity.
Qed.

(* a reply whose DNS id is none of chunkid / chunkid_prev / chunkid_prev2 *)
Lemma main_id_mismatch s0 now qid buf read :
  id_recent s0 qid = false ->
  kept (fst (td_main unz s0 now qid buf read)) = kept s0 /\ no_tun (snd (td_main unz s0 now qid buf read)).
Proof.
  intros Hid. unfold td_main.
  match goal with |- context[let '(s1, now_flag) := ?e in _] =>
    assert (H1 : kept (fst e) = kept s0 /\ id_recent (fst e) qid = false); [|destruct e as [s1 now_flag]] end.
  { destruct (negb _); cbn [fst]; split; (reflexivity || exact Hid). }
  cbn [fst] in H1. destruct H1 as [K1 J1]. cbv zeta.
  match goal with |- context[let '(s2, read2) := ?e in _] =>
    assert (H2 : kept (fst e) = kept s0 /\ id_recent (fst e) qid = false); [|destruct e as [s2 read2]] end.
  { destruct (_ && _ && _); cbn [fst]; split; (exact K1 || exact J1). }
  cbn [fst] in H2. destruct H2 as [K2 J2].
  match goal with |- context[td_oos ?st now_flag] =>
    assert (H3 : kept st = kept s0 /\ id_recent st qid = false) end.
  { destruct (_ =? 0); split; (exact K2 || exact J2). }
  destruct H3 as [K3 J3]. unfold id_recent in J3. rewrite J3. cbn [negb].
  match goal with |- context[td_oos ?st now_flag] => destruct (oos_kept st now_flag) as [A B] end.
  split; [rewrite A; exact K3|exact B].
Qed.

Lemma dispatch_id_mismatch s0 now r :
  id_recent s0 (td_qid r) = false ->
  kept (fst (td_dispatch unz s0 now r)) = kept s0 /\ no_tun (snd (td_dispatch unz s0 now r)).
Proof.
  intros Hid. unfold td_dispatch.
  destruct (negb _); [cbn [fst snd]; split; [reflexivity|apply no_tun_nil]|].
  destruct (_ <? 2)%Z.
  { cbn [fst snd]. split; [|apply no_tun_nil].
    destruct (servfail_kept s0 (da_rv r) (da_rcode r)) as [A _]. rewrite <- A. reflexivity. }
  destruct (_ && _); [cbn [fst snd]; split; [reflexivity|apply no_tun_nil]|].
  apply main_id_mismatch, Hid.
Qed.

(* a reply whose first question-name character is not 'p' / 'P' / the userid digit *)
Lemma dispatch_name_mismatch s0 now r :
  td_name_ok s0 (td_name0 r) = false ->
  td_dispatch unz s0 now r = (s0 <| c_ping_soon := 700 |>, []).
Proof. intros H. unfold td_dispatch. rewrite H. reflexivity. Qed.

Definition reply_of (d : list N) : da_result := client_extract (N.to_nat 65536) d (length d).

Definition unmatched (s : cstate) (d : list N) : Prop :=
  td_name_ok s (td_name0 (reply_of d)) = false \/ id_recent s (td_qid (reply_of d)) = false.

Lemma tunnel_dns_unmatched s now d :
  c_dns s = true -> unmatched s d ->
  kept (fst (tunnel_dns unz s now d)) = kept s /\ no_tun (snd (tunnel_dns unz s now d)).
Proof.
  intros Hd Hu. rewrite tunnel_dns_stages, Hd. cbn [negb]. fold (reply_of d).
  destruct Hu as [Hn|Hi].
  - rewrite (dispatch_name_mismatch _ _ _ Hn). cbn [fst snd]. split; [reflexivity|apply no_tun_nil].
  - apply dispatch_id_mismatch, Hi.
Qed.

Lemma tunnel_dns_name_mismatch s now d :
  c_dns s = true -> td_name_ok s (td_name0 (reply_of d)) = false ->
  all_but_ping (fst (tunnel_dns unz s now d)) = all_but_ping s /\ snd (tunnel_dns unz s now d) = [].
Proof.
  intros Hd Hn. rewrite tunnel_dns_stages, Hd. cbn [negb]. fold (reply_of d).
  rewrite (dispatch_name_mismatch _ _ _ Hn). split; reflexivity.
Qed.

(* raw UDP mode: a frame without the magic header or for another userid changes nothing at all *)
Definition raw_unmatched (s : cstate) (d : list N) : Prop :=
  (length d < 4)%nat \/ list_eqb (firstn 3 d) (firstn 3 src_raw_header) = false \/
  (N.land (nth 3 d 0) src_RAW_HDR_USR_MASK =? c_userid s) = false.

Lemma tunnel_dns_raw_unmatched s now d :
  c_dns s = false -> raw_unmatched s d -> tunnel_dns unz s now d = (s, []).
Proof.
  intros Hd Hu. rewrite tunnel_dns_stages, Hd. cbn [negb]. unfold raw_recv.
  destruct (length d <? 4)%nat eqn:E1; [reflexivity|].
  destruct (list_eqb _ _) eqn:E2; [|reflexivity]. cbn [negb]. cbv zeta.
  destruct (_ =? c_userid s) eqn:E3; [|reflexivity].
  destruct Hu as [H|[H|H]]; [lia|congruence|congruence].
Qed.

End WithUnz.

(* the step function: the watchdog runs first *)
Lemma cstep_unmatched zc unz s now d :
  c_dns s = true -> unmatched (watchdog s now) d ->
  kept (fst (cstep zc unz s (CEDns now d))) = kept (watchdog s now) /\
  no_tun (snd (cstep zc unz s (CEDns now d))).
Proof.
  intros Hd Hu. unfold cstep. cbv zeta.
  destruct (negb _); [cbn [fst snd]; split; [reflexivity|apply no_tun_nil]|].
  apply tunnel_dns_unmatched; [|exact Hu].
  unfold watchdog. destruct (_ <? _); exact Hd.
Qed.
