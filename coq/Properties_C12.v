(* Properties_C12.v -- final statements for property C12: a datagram is interpreted from its own
   bytes only (no stale-buffer over-read).  Only statements, each closed by lemmas of
   ResidueProofs.v / ResidueSteps.v, with Print Assumptions beneath.

   Vocabulary.  The receive buffer (the 64 KB stack arrays `packet` of iodined.c read_dns and `data`
   of client.c read_dns_withq) is the list [dat ++ res]: the datagram's bytes followed by an
   ARBITRARY residue [res] (whatever earlier, longer datagrams left there; any length, also shorter
   than 64 KB or empty); [plen = length dat] is what recvmsg()/recvfrom() returned.  The models
   (DnsName.v, DnsMsg.v) read [rb buf i = nth i buf 0] exactly where the C dereferences a pointer,
   so a model result that is the same for all residues means: no byte at an index >= plen
   influences the result.
     readname / readname_lvl / readtxtbin / readshort / readlong     src/read.c
     dns_decode_query / dns_decode_answer / dns_get_id               src/dns.c dns_decode, dns_get_id
     client_extract                      client.c read_dns_withq (DNS mode): decode + name decoding
     raw_view buf plen = firstn plen buf the bytes packet[0..len) the raw-frame code reads
     recv_buffer                         iodined.c read_dns + tunnel_dns on (buffer, r)
     tunnel_dns_buf                      client.c tunnel_dns (incl. read_dns_withq) on (buffer, r)
     Server.recv_datagram / Client.tunnel_dns   the datagram-level state machines (validated against
                                         the real dispatchers by the history correspondence runs)
   No hypothesis on the bytes (values >= 256 allowed), on lengths, on src/offsets or on buflen. *)
From Coq Require Import List NArith ZArith Arith Bool Lia.
From Iodine Require Import Generated.SrcConsts Base Codec Hostname DnsName DnsMsg Server Client
     ResidueProofs ResidueSteps.
Import ListNotations.
Local Open Scope N_scope.

(* ---- the wire-name reader and the primitive readers ------------------------------------------- *)

(* for every start offset (also at or beyond the end of the datagram) and every destination size *)
Theorem readname_residue_free : forall (dat res1 res2 : list N) (src lim : nat),
  readname (dat ++ res1) (length dat) src lim = readname (dat ++ res2) (length dat) src lim.
Proof. intros. apply readname_agree, agree_app. Qed.
Print Assumptions readname_residue_free.

(* ... at every remaining pointer-recursion depth *)
Theorem readname_lvl_residue_free : forall (dat res1 res2 : list N) (lim loop src : nat),
  readname_lvl (dat ++ res1) (length dat) lim loop src = readname_lvl (dat ++ res2) (length dat) lim loop src.
Proof. intros. apply readname_lvl_agree, agree_app. Qed.
Print Assumptions readname_lvl_residue_free.

(* readtxtbin under the guard its caller establishes (CHECKLEN(rlen)): the record lies in the datagram *)
Theorem readtxtbin_residue_free : forall (dat res1 res2 : list N) (p srcremain dstremain : nat),
  (p + srcremain <= length dat)%nat ->
  readtxtbin (dat ++ res1) p srcremain dstremain = readtxtbin (dat ++ res2) p srcremain dstremain.
Proof. intros dat res1 res2 p sr dr H. apply (readtxtbin_agree (length dat)); [apply agree_app|exact H]. Qed.
Print Assumptions readtxtbin_residue_free.

(* readshort / readlong under CHECKLEN(2) / CHECKLEN(4) *)
Theorem readshort_residue_free : forall (dat res1 res2 : list N) (p : nat),
  (p + 2 <= length dat)%nat -> readshort (dat ++ res1) p = readshort (dat ++ res2) p.
Proof. intros dat res1 res2 p H. apply (readshort_agree (length dat)); [apply agree_app|exact H]. Qed.
Print Assumptions readshort_residue_free.

Theorem readlong_residue_free : forall (dat res1 res2 : list N) (p : nat),
  (p + 4 <= length dat)%nat -> readlong (dat ++ res1) p = readlong (dat ++ res2) p.
Proof. intros dat res1 res2 p H. apply (readlong_agree (length dat)); [apply agree_app|exact H]. Qed.
Print Assumptions readlong_residue_free.

(* ---- the datagram decoders --------------------------------------------------------------------- *)

(* server side: return value, name, type and id of dns_decode(QR_QUERY) *)
Theorem C12_query_residue_free : forall (dat res1 res2 : list N),
  dns_decode_query (dat ++ res1) (length dat) = dns_decode_query (dat ++ res2) (length dat).
Proof. intros. apply dns_decode_query_agree, agree_app. Qed.
Print Assumptions C12_query_residue_free.

(* client side: return value, payload bytes, id, first name character, answer type and rcode of
   dns_decode(QR_ANSWER), all type branches (NULL/PRIVATE, A/CNAME, MX/SRV loop, TXT, others), for
   every size of the caller's buffer *)
Theorem C12_answer_residue_free : forall (buflen : nat) (dat res1 res2 : list N),
  dns_decode_answer buflen (dat ++ res1) (length dat) = dns_decode_answer buflen (dat ++ res2) (length dat).
Proof. intros. apply dns_decode_answer_agree, agree_app. Qed.
Print Assumptions C12_answer_residue_free.

(* ... and what read_dns_withq hands to the client after the hostname/TXT/MX post-decoding *)
Theorem C12_client_extract_residue_free : forall (buflen : nat) (dat res1 res2 : list N),
  client_extract buflen (dat ++ res1) (length dat) = client_extract buflen (dat ++ res2) (length dat).
Proof. intros. apply client_extract_agree, agree_app. Qed.
Print Assumptions C12_client_extract_residue_free.

Theorem C12_get_id_residue_free : forall (dat res1 res2 : list N),
  dns_get_id (dat ++ res1) (length dat) = dns_get_id (dat ++ res2) (length dat).
Proof. intros. apply dns_get_id_agree, agree_app. Qed.
Print Assumptions C12_get_id_residue_free.

(* the same facts for an arbitrary buffer and length (also plen > length buf, where the model reads
   zeros): only the first plen bytes matter *)
Theorem C12_decoders_read_prefix_only : forall (buflen : nat) (buf : list N) (plen : nat),
  dns_decode_query buf plen = dns_decode_query (firstn plen buf) plen /\
  dns_decode_answer buflen buf plen = dns_decode_answer buflen (firstn plen buf) plen /\
  client_extract buflen buf plen = client_extract buflen (firstn plen buf) plen /\
  dns_get_id buf plen = dns_get_id (firstn plen buf) plen /\
  (forall src lim, readname buf plen src lim = readname (firstn plen buf) plen src lim).
Proof.
  intros buflen buf plen. pose proof (agree_firstn plen buf) as Ha. repeat split.
  - apply dns_decode_query_agree, Ha.
  - apply dns_decode_answer_agree, Ha.
  - apply client_extract_agree, Ha.
  - apply dns_get_id_agree, Ha.
  - intros. apply readname_agree, Ha.
Qed.
Print Assumptions C12_decoders_read_prefix_only.

(* content: the question name the server decodes (the name it echoes in every answer and matches
   against its domain) consists of bytes of THIS datagram and dots only -- never of residue bytes *)
Theorem C12_query_name_bytes_from_datagram : forall (dat res : list N) (q : query),
  dq_q (dns_decode_query (dat ++ res) (length dat)) = Some q ->
  forall c, In c (q_name q) -> c = DOTC \/ In c dat.
Proof.
  intros dat res q H. rewrite (dns_decode_query_agree (dat ++ res) dat (length dat) (agree_app_nil dat res)) in H.
  exact (dns_decode_query_name_from dat (length dat) q H).
Qed.
Print Assumptions C12_query_name_bytes_from_datagram.

(* ---- raw frames --------------------------------------------------------------------------------- *)

(* Raw (non-DNS) frames: the models take the frame as the list of exactly the received bytes, which
   abstracts the C reading packet[0..len) only (see the header of ResidueSteps.v for the list of
   reads).  At buffer level that view is [raw_view buf plen = firstn plen buf]; it does not depend
   on the residue, hence neither does anything the raw-frame handlers of server and client do. *)
Theorem C12_raw_residue_free :
  forall (login : list N -> N -> list N) (unz : list N -> option (list N))
         (c : cfg) (st : sstate) (now : N) (from : addr) (s : cstate) (dat res1 res2 : list N),
  raw_view (dat ++ res1) (length dat) = dat /\
  Server.raw_decode login unz c st now (raw_view (dat ++ res1) (length dat)) from =
  Server.raw_decode login unz c st now (raw_view (dat ++ res2) (length dat)) from /\
  Client.raw_recv unz s now (raw_view (dat ++ res1) (length dat)) =
  Client.raw_recv unz s now (raw_view (dat ++ res2) (length dat)).
Proof. intros. rewrite !raw_view_app. repeat split. Qed.
Print Assumptions C12_raw_residue_free.

(* ---- the state machines -------------------------------------------------------------------------- *)

(* server: the new session table and every datagram / tun packet / forwarded query produced in
   reaction to a received datagram (raw frame or DNS query) are determined by the datagram, its
   sender and destination address, the clock, rand() and the prior state *)
Theorem C12_server_step_residue_free :
  forall (login : list N -> N -> list N) (unz : list N -> option (list N))
         (c : cfg) (st : sstate) (now rnd : N) (from : addr) (dest : option (list N)) (dat res1 res2 : list N),
  recv_buffer login unz c st now rnd from dest (dat ++ res1) (length dat) =
  recv_buffer login unz c st now rnd from dest (dat ++ res2) (length dat).
Proof. intros. apply recv_buffer_residue_free. Qed.
Print Assumptions C12_server_step_residue_free.

(* ... and it is the step of the datagram-level model of Server.v on the datagram alone; in the
   form asked for: recv_datagram on firstn plen of the buffer *)
Theorem C12_server_step_is_datagram_step :
  forall (login : list N -> N -> list N) (unz : list N -> option (list N))
         (c : cfg) (st : sstate) (now rnd : N) (from : addr) (dest : option (list N)) (dat res : list N),
  recv_buffer login unz c st now rnd from dest (dat ++ res) (length dat) =
  Server.recv_datagram login unz c st now rnd from dest dat /\
  Server.recv_datagram login unz c st now rnd from dest (firstn (length dat) (dat ++ res)) =
  Server.recv_datagram login unz c st now rnd from dest dat.
Proof.
  intros. split; [apply recv_buffer_datagram|].
  change (firstn (length dat) (dat ++ res)) with (raw_view (dat ++ res) (length dat)).
  rewrite raw_view_app. reflexivity.
Qed.
Print Assumptions C12_server_step_is_datagram_step.

(* client: new state, queries / raw frames sent and packets written to tun *)
Theorem C12_client_step_residue_free :
  forall (unz : list N -> option (list N)) (s : cstate) (now : N) (dat res1 res2 : list N),
  tunnel_dns_buf unz s now (dat ++ res1) (length dat) = tunnel_dns_buf unz s now (dat ++ res2) (length dat).
Proof. intros. apply tunnel_dns_buf_residue_free. Qed.
Print Assumptions C12_client_step_residue_free.

Theorem C12_client_step_is_datagram_step :
  forall (unz : list N -> option (list N)) (s : cstate) (now : N) (dat res : list N),
  tunnel_dns_buf unz s now (dat ++ res) (length dat) = Client.tunnel_dns unz s now dat.
Proof. intros. apply tunnel_dns_buf_datagram. Qed.
Print Assumptions C12_client_step_is_datagram_step.

(* the question sections echoed by the answers of a server step (OAnswer q id to ..: write_dns
   encodes h_name q / h_type q with this id to this address) are a function of the datagram, never of
   the residue; together with C12_query_name_bytes_from_datagram: a short or truncated datagram
   cannot make the server echo bytes of earlier traffic *)
Theorem C12_no_stale_echo :
  forall (login : list N -> N -> list N) (unz : list N -> option (list N))
         (c : cfg) (st : sstate) (now rnd : N) (from : addr) (dest : option (list N)) (dat res1 res2 : list N),
  map echoed (snd (recv_buffer login unz c st now rnd from dest (dat ++ res1) (length dat))) =
  map echoed (snd (recv_buffer login unz c st now rnd from dest (dat ++ res2) (length dat))) /\
  map echoed (snd (recv_buffer login unz c st now rnd from dest (dat ++ res1) (length dat))) =
  map echoed (snd (Server.recv_datagram login unz c st now rnd from dest dat)).
Proof.
  intros. rewrite (recv_buffer_residue_free login unz c st now rnd from dest dat res1 res2).
  rewrite recv_buffer_datagram. split; reflexivity.
Qed.
Print Assumptions C12_no_stale_echo.

(* ---- non-vacuity ---------------------------------------------------------------------------------- *)

(* the probe datagram of defect D2: an 18-byte query whose name is a pointer to the last byte of the
   datagram (a label-length byte 3 whose label would lie in the residue).  Before the fix it decoded
   to "abc.z" or "xyz.com" depending on the residue; the model of the fixed code decodes it to the
   empty name (the datagram is dropped: rv = 0) whatever follows *)
Definition probe_D2 : list N := [18; 52; 1; 0; 0; 1; 0; 0; 0; 0; 0; 0; 192; 17; 0; 10; 0; 3].

Example C12_probe_D2 :
  length probe_D2 = 18%nat /\
  dns_decode_query (probe_D2 ++ [97; 98; 99; 1; 122; 0]) 18 =
  dns_decode_query (probe_D2 ++ [120; 121; 122; 3; 99; 111; 109; 0]) 18 /\
  dns_decode_query (probe_D2 ++ [97; 98; 99; 1; 122; 0]) 18 =
  {| dq_rv := 0; dq_q := Some {| q_name := []; q_type := 10; q_id := 4660 |} |}.
Proof. vm_compute. repeat split. Qed.

(* a well-formed query "ab.c" (type NULL) followed by label-like residue: decoded name is ab.c *)
Example C12_nontrivial :
  dns_decode_query ([18; 52; 1; 0; 0; 1; 0; 0; 0; 0; 0; 0; 2; 97; 98; 1; 99; 0; 0; 10; 0; 1] ++ [3; 120; 121; 122; 0]) 22 =
  {| dq_rv := 4; dq_q := Some {| q_name := [97; 98; 46; 99]; q_type := 10; q_id := 4660 |} |}.
Proof. vm_compute. reflexivity. Qed.

(* a NULL answer whose RDLENGTH (5) exceeds the 3 bytes present: nothing is extracted, for two
   residues that would both supply the missing bytes *)
Definition short_answer : list N :=
  [18; 52; 132; 0; 0; 1; 0; 1; 0; 0; 0; 0; 1; 112; 0; 0; 10; 0; 1; 192; 12; 0; 10; 0; 1; 0; 0; 0; 0; 0; 5; 65; 66; 67].

Example C12_short_answer :
  client_extract 4096 (short_answer ++ [68; 69; 70]) (length short_answer) =
  client_extract 4096 (short_answer ++ [255; 255; 255]) (length short_answer) /\
  da_rv (client_extract 4096 (short_answer ++ [68; 69; 70]) (length short_answer)) = 0%Z /\
  da_name0 (client_extract 4096 (short_answer ++ [68; 69; 70]) (length short_answer)) = Some 112.
Proof. vm_compute. repeat split. Qed.
