(* DnsAnswerProofs.v -- C10, emitter side, part 2: the server's answers (write_dns ->
   dns_encode_answer) for every record type, parsed by the strict parser of DnsWf.v. *)
From Coq Require Import List NArith Arith Bool Lia ZArith ZifyBool ZifyNat ZifyN.
From Iodine Require Import Generated.SrcConsts Base Codec CodecProofs Hostname DnsName DnsMsg DnsWf DnsWfProofs DnsEmitProofs DnsNameencProofs.
Import ListNotations.
Local Open Scope N_scope.

Ltac Zify.zify_post_hook ::= Z.div_mod_to_equations.

(* ---------------------------------------------------------------------------------- *)
(* shared pieces of dns_encode_answer                                                   *)

Lemma set_ancount_hdr id f1 f2 qd an0 ns ar rest an :
  set_ancount (hdr12 id f1 f2 qd an0 ns ar ++ rest) an = hdr12 id f1 f2 qd an ns ar ++ rest.
Proof. reflexivity. Qed.

Lemma rr_head_eq ty : rr_head ty = ptr12 ++ DnsWfProofs.be16 ty ++ DnsWfProofs.be16 1 ++ DnsWfProofs.be32 0.
Proof. reflexivity. Qed.

Lemma rr_head_length ty : length (rr_head ty) = 10%nat.
Proof. reflexivity. Qed.

(* the message up to and including the question: header ++ name ++ type ++ class *)
Definition front (id ty : N) (ls : list (list N)) : list N :=
  hdr12 id 132 0 1 0 0 0 ++ enc_name ls ++ DnsWfProofs.be16 ty ++ DnsWfProofs.be16 1.

Lemma front_length id ty ls : length (front id ty ls) = (12 + wire_len ls + 4)%nat.
Proof. unfold front. rewrite !app_length, hdr12_length, enc_name_length, !be16_length. lia. Qed.

Lemma front_alt id ty ls :
  (hdr12 id 132 0 1 0 0 0 ++ enc_name ls) ++ DnsWfProofs.be16 ty ++ DnsWfProofs.be16 1 = front id ty ls.
Proof. unfold front. rewrite <- app_assoc. reflexivity. Qed.

Ltac len_solve :=
  rewrite ?app_length, ?front_length, ?hdr12_length, ?enc_name_length, ?be16_length, ?be32_length, ?rr_head_length,
          ?firstn_length; cbn [length]; unfold buf64k; lia.

(* one-record answers: what the final message looks like *)
Lemma one_record_msg id ty aty ls rd :
  set_ancount (front id ty ls ++ rr_head aty ++ DnsWfProofs.be16 (N.of_nat (length rd)) ++ rd) 1 =
  hdr12 id 132 0 1 (N.of_nat (length [rd])) 0 0 ++ enc_name ls ++ DnsWfProofs.be16 ty ++ DnsWfProofs.be16 1 ++ recs12 aty 1 0 [rd].
Proof.
  unfold front. rewrite <- !app_assoc, set_ancount_hdr.
  unfold recs12, rec12, rr_fixed. cbn [map concat length]. rewrite rr_head_eq, app_nil_r, <- !app_assoc. reflexivity.
Qed.

Definition tunnel_type (ty : N) : Prop :=
  ty = T_NULL \/ ty = T_PRIVATE \/ ty = T_TXT \/ ty = T_CNAME \/ ty = T_A \/ ty = T_MX \/ ty = T_SRV.

Lemma t_private_facts : T_PRIVATE < 65536 /\ opaque_type T_PRIVATE /\ opaque_type T_NULL.
Proof. unfold opaque_type, T_PRIVATE, T_NULL. vm_compute. repeat split; discriminate. Qed.

(* ---------------------------------------------------------------------------------- *)
(* what C10 says about a parsed answer                                                   *)

(* per record: name-valued RDATA (CNAME, MX, SRV) holds a legal name with labels of at most 57
   bytes; TXT RDATA is non-empty and tiled by its length-prefixed strings.  (RDLENGTH = actual
   data size is part of wf_msg's acceptance.) *)
Definition rec_ok (r : rr) : Prop :=
  ((rr_type r = T_CNAME \/ rr_type r = T_MX \/ rr_type r = T_SRV) ->
     exists rl, rr_rdname r = Some rl /\ Forall (fun l => (1 <= length l <= 57)%nat) rl /\ (wire_len rl <= 255)%nat) /\
  (rr_type r = T_TXT ->
     txt_tiled (S (length (rr_rdata r))) (rr_rdata r) = true /\ (1 <= length (rr_rdata r))%nat).

Definition answer_type (qt : N) : N := if qt =? T_A then T_CNAME else qt.

Definition answer_ok (q : query) (ls : list (list N)) (msg : DnsWf.msg) : Prop :=
  m_id msg = q_id q /\ m_qr msg = true /\ m_qname msg = ls /\ m_qtype msg = q_type q /\ m_qclass msg = 1 /\
  m_authority msg = [] /\ m_additional msg = [] /\ m_answers msg <> [] /\
  Forall (fun r => rr_name r = ls /\ rr_type r = answer_type (q_type q) /\ rr_class r = 1 /\ rec_ok r) (m_answers msg).

Definition short_labels (rdn : option (list (list N))) : Prop :=
  match rdn with Some rl => Forall (fun l => (length l <= 57)%nat) rl | None => True end.

Lemma rec_ok_shape ls ty cl ttl rd rdn : rd_shape ty rd rdn -> short_labels rdn -> rec_ok (mk_rr ls ty cl ttl rd rdn).
Proof.
  intros Hs Hsh. unfold rec_ok, T_CNAME, T_MX, T_SRV, T_TXT. cbn [mk_rr rr_type rr_rdname rr_rdata].
  destruct Hs as [ty rd [H5 [H2 [H15 [H33 [H16 [H1 H41]]]]]]|rd Ht Hl|rd Hl4|ty pfx rl Hp Hok Hw].
  - split; [intros [E|[E|E]]; lia|intros E; lia].
  - split; [intros [E|[E|E]]; discriminate|]. intros _. split; assumption.
  - split; [intros [E|[E|E]]; discriminate|intros E; discriminate].
  - split.
    + intros _. exists rl. repeat split; [|exact Hw].
      cbn [short_labels] in Hsh. unfold lens_ok in Hok. rewrite Forall_forall in *. intros l Hl.
      specialize (Hok l Hl). specialize (Hsh l Hl). lia.
    + intros E. subst ty. discriminate.
Qed.

Lemma Forall2_weaken {A B} (P Q : A -> B -> Prop) l1 l2 :
  (forall a b, P a b -> Q a b) -> Forall2 P l1 l2 -> Forall2 Q l1 l2.
Proof. intros H HF. induction HF; constructor; auto. Qed.

Lemma answer_msg_ok q ls rds rdns :
  q_id q < 65536 -> q_type q < 65536 -> answer_type (q_type q) < 65536 ->
  rds <> [] -> N.of_nat (length rds) < 65536 ->
  Forall label_ok ls -> ls <> [] -> (wire_len ls <= 255)%nat ->
  Forall2 (fun rd rdn => N.of_nat (length rd) < 65536 /\ rd_shape (answer_type (q_type q)) rd rdn /\ short_labels rdn) rds rdns ->
  exists msg,
    wf_msg (hdr12 (q_id q) 132 0 1 (N.of_nat (length rds)) 0 0 ++ enc_name ls ++ DnsWfProofs.be16 (q_type q) ++ DnsWfProofs.be16 1 ++
            recs12 (answer_type (q_type q)) 1 0 rds) = Some msg /\ answer_ok q ls msg.
Proof.
  intros Hid Hty Haty Hne Hn Hok Hlne Hw HF.
  eexists. split.
  - apply (answer_wf (q_id q) 132 0 ls (q_type q) (answer_type (q_type q)) 1 0 rds rdns); try assumption; try lia.
    + apply wf_lens_ok, Hok.
    + eapply Forall2_weaken; [|exact HF]. intros rd rdn [H1 [H2 _]]. split; assumption.
  - unfold answer_ok. cbn [m_id m_qr m_qname m_qtype m_qclass m_authority m_additional m_answers].
    repeat split.
    + destruct rds as [|rd rds]; [congruence|]. inversion HF; subst. discriminate.
    + clear Hne Hn. induction HF as [|rd rdn rds rdns [_ [Hs Hsh]] HF IH]; [constructor|].
      cbn [combine map]. constructor; [|exact IH].
      cbn [fst snd]. split; [reflexivity|split; [reflexivity|split; [reflexivity|apply rec_ok_shape; assumption]]].
Qed.

(* ---------------------------------------------------------------------------------- *)
(* stage 1: NULL / PRIVATE (and any other type whose RDATA the RFC leaves opaque)        *)

Lemma answer_opaque_form q ls data :
  q_name q = name_of ls -> Forall label_ok ls -> (wire_len ls <= 255)%nat ->
  opaque_type (q_type q) -> (length data <= 4098)%nat ->
  dns_encode_answer buf64k q data =
    Some (hdr12 (q_id q) 132 0 1 (N.of_nat (length [data])) 0 0 ++ enc_name ls ++ DnsWfProofs.be16 (q_type q) ++ DnsWfProofs.be16 1 ++
          recs12 (q_type q) 1 0 [data]).
Proof.
  intros Hn Hok Hw [H5 [H2 [H15 [H33 [H16 [H1 H41]]]]]] Hd.
  unfold dns_encode_answer. rewrite Hn.
  destruct (buf64k <? 12)%nat eqn:E; [apply Nat.ltb_lt in E; unfold buf64k in E; lia|].
  rewrite (putname_name_of _ ls Hok) by (unfold buf64k; lia). cbn [opt_bytes].
  rewrite hdr_same, be16_same. change C_IN with 1.
  rewrite checklen_true by len_solve. cbn [negb].
  unfold T_CNAME, T_A, T_MX, T_SRV, T_TXT.
  destruct (q_type q =? 5) eqn:E5; [lia|]. destruct (q_type q =? 1) eqn:E1; [lia|].
  destruct (q_type q =? 15) eqn:E15; [lia|]. destruct (q_type q =? 33) eqn:E33; [lia|].
  destruct (q_type q =? 16) eqn:E16; [lia|]. cbn [orb].
  rewrite front_alt.
  rewrite checklen_true by len_solve. cbn [negb].
  assert (Hmin : Nat.min (length data) (buf64k - length (front (q_id q) (q_type q) ls ++ rr_head (q_type q))) = length data) by len_solve.
  rewrite Hmin.
  rewrite checklen_true by len_solve. cbn [negb].
  replace (N.of_nat (length data) mod 65536) with (N.of_nat (length data)) by lia.
  rewrite checklen_true by len_solve. cbn [negb].
  rewrite firstn_all. rewrite <- !app_assoc. rewrite one_record_msg. reflexivity.
Qed.

Lemma answer_type_other ty : ty <> T_A -> answer_type ty = ty.
Proof. intros H. unfold answer_type, T_A in *. destruct (ty =? 1) eqn:E; [lia|reflexivity]. Qed.

Definition answer_goal (q : query) (ls : list (list N)) (p : list N) (downenc : N) (td : nat * nat) : Prop :=
  exists m td' msg, write_dns q p downenc td = (Some m, td') /\ wf_msg m = Some msg /\ answer_ok q ls msg.

Lemma answer_wf_opaque q ls p downenc td :
  q_name q = name_of ls -> wf_labels ls -> ls <> [] -> q_id q < 65536 -> q_type q < 65536 ->
  opaque_type (q_type q) -> (length p <= 4098)%nat ->
  answer_goal q ls p downenc td.
Proof.
  intros Hn [Hok Hw] Hne Hid Hty Hop Hp.
  pose proof Hop as [H5 [H2 [H15 [H33 [H16 [H1 H41]]]]]].
  assert (Hat : answer_type (q_type q) = q_type q) by (apply answer_type_other; unfold T_A; lia).
  destruct (answer_msg_ok q ls [p] [None]) as [msg [Hwf Hans]]; try assumption; try (rewrite Hat; assumption);
    try discriminate; try (cbn [length]; lia).
  { constructor; [|constructor]. split; [lia|]. split; [|exact I]. rewrite Hat. apply rs_opaque, Hop. }
  exists (hdr12 (q_id q) 132 0 1 (N.of_nat (length [p])) 0 0 ++ enc_name ls ++ DnsWfProofs.be16 (q_type q) ++ DnsWfProofs.be16 1 ++
          recs12 (q_type q) 1 0 [p]), td, msg.
  split; [|split; [rewrite Hat in Hwf; exact Hwf|exact Hans]].
  unfold write_dns, T_CNAME, T_A, T_MX, T_SRV, T_TXT.
  destruct (q_type q =? 5) eqn:E5; [lia|]. destruct (q_type q =? 1) eqn:E1; [lia|].
  destruct (q_type q =? 15) eqn:E15; [lia|]. destruct (q_type q =? 33) eqn:E33; [lia|].
  destruct (q_type q =? 16) eqn:E16; [lia|]. cbn [orb].
  rewrite (answer_opaque_form q ls p Hn Hok Hw Hop Hp). reflexivity.
Qed.

(* ---------------------------------------------------------------------------------- *)
(* stage 2: TXT                                                                          *)

Lemma txt_chunk_pos : (1 <= txt_chunk)%nat.
Proof. unfold txt_chunk. vm_compute. lia. Qed.

Lemma txt_chunk_byte : (txt_chunk < 256)%nat.
Proof. unfold txt_chunk. vm_compute. lia. Qed.

Lemma puttxtbin_go_bytes fuel : forall rem from txt,
  bytes_ok from -> puttxtbin_go fuel rem from = Some txt -> bytes_ok txt.
Proof.
  induction fuel as [|fuel IH]; intros rem from txt Hb H.
  - destruct from; cbn [puttxtbin_go] in H; [inversion H; constructor|discriminate].
  - destruct from as [|x from']; [cbn [puttxtbin_go] in H; inversion H; constructor|].
    cbn [puttxtbin_go] in H. set (from := x :: from') in *.
    set (tc := Nat.min (length from) txt_chunk) in *.
    destruct (rem <? tc + 1)%nat; [discriminate|].
    destruct (puttxtbin_go fuel (rem - (tc + 1)) (skipn tc from)) as [rest|] eqn:E; [|discriminate].
    assert (Ht : txt = N.of_nat tc :: firstn tc from ++ rest) by congruence. clear H. pose proof txt_chunk_byte as Hc.
    assert (Htc : (tc <= txt_chunk)%nat) by (unfold tc; lia).
    clearbody tc. clearbody from. rewrite Ht.
    unfold bytes_ok. apply Forall_cons; [unfold byte_ok; lia|].
    apply Forall_app. split; [apply bytes_ok_firstn, Hb|].
    apply (IH _ _ _ (bytes_ok_skipn tc from Hb) E).
Qed.

Lemma puttxtbin_go_ok fuel : forall rem from,
  (length from < fuel)%nat -> (2 * length from <= rem)%nat ->
  exists txt, puttxtbin_go fuel rem from = Some txt /\ txt_tiled (S (length txt)) txt = true /\
              (length from <= length txt <= 2 * length from)%nat.
Proof.
  induction fuel as [|fuel IH]; intros rem from Hf Hr; [lia|].
  destruct from as [|x from']; [exists []; repeat split; cbn; lia|].
  set (from := x :: from') in *.
  assert (HL : (1 <= length from)%nat) by (unfold from; cbn [length]; lia).
  cbn [puttxtbin_go]. fold from.
  pose proof txt_chunk_pos as Hc.
  set (tc := Nat.min (length from) txt_chunk).
  assert (Htc : (1 <= tc <= length from)%nat) by (unfold tc; lia).
  destruct (rem <? tc + 1)%nat eqn:E; [apply Nat.ltb_lt in E; lia|].
  destruct (IH (rem - (tc + 1))%nat (skipn tc from)) as [rest [H1 [H2 H3]]].
  - rewrite skipn_length. cbn [length] in Hf. lia.
  - rewrite skipn_length. lia.
  - rewrite H1. rewrite skipn_length in H3.
    exists (N.of_nat tc :: firstn tc from ++ rest). split; [reflexivity|].
    assert (Hfl : length (firstn tc from) = tc) by (apply firstn_length_le; lia).
    split.
    + pose proof (txt_tiled_cons (S (length rest)) (firstn tc from) rest H2) as T. rewrite Hfl in T.
      apply (txt_tiled_mono _ _ _ T). cbn [length]. rewrite app_length. lia.
    + cbn [length]. rewrite app_length, Hfl. lia.
Qed.

Lemma puttxtbin_ok rem from : (2 * length from <= rem)%nat ->
  exists txt, puttxtbin rem from = Some txt /\ txt_tiled (S (length txt)) txt = true /\
              (length from <= length txt <= 2 * length from)%nat.
Proof. intros H. unfold puttxtbin. apply puttxtbin_go_ok; [lia|exact H]. Qed.

Lemma answer_txt_form q ls data :
  q_name q = name_of ls -> Forall label_ok ls -> (wire_len ls <= 255)%nat ->
  q_type q = T_TXT -> (1 <= length data <= 2 * 4100)%nat ->
  exists txt, txt_tiled (S (length txt)) txt = true /\ (1 <= length txt)%nat /\ N.of_nat (length txt) < 65536 /\
  dns_encode_answer buf64k q data =
    Some (hdr12 (q_id q) 132 0 1 (N.of_nat (length [txt])) 0 0 ++ enc_name ls ++ DnsWfProofs.be16 (q_type q) ++ DnsWfProofs.be16 1 ++
          recs12 (q_type q) 1 0 [txt]) /\
  (bytes_ok data -> bytes_ok txt).
Proof.
  intros Hn Hok Hw Hty Hd.
  unfold dns_encode_answer. rewrite Hn.
  destruct (buf64k <? 12)%nat eqn:E; [apply Nat.ltb_lt in E; unfold buf64k in E; lia|].
  rewrite (putname_name_of _ ls Hok) by (unfold buf64k; lia). cbn [opt_bytes].
  rewrite hdr_same, be16_same. change C_IN with 1.
  rewrite checklen_true by len_solve. cbn [negb].
  rewrite Hty. change ((T_TXT =? T_CNAME) || (T_TXT =? T_A)) with false. change ((T_TXT =? T_MX) || (T_TXT =? T_SRV)) with false.
  change (T_TXT =? T_TXT) with true. cbv iota.
  rewrite front_alt.
  rewrite checklen_true by len_solve. cbn [negb].
  destruct (puttxtbin_ok (buf64k - length (front (q_id q) T_TXT ls ++ rr_head T_TXT) - 2) data) as [txt [H1 [H2 H3]]]; [len_solve|].
  rewrite H1. cbn [opt_bytes].
  rewrite checklen_true by len_solve. cbn [negb].
  exists txt. split; [exact H2|]. split; [lia|]. split; [lia|].
  replace (N.of_nat (length txt) mod 65536) with (N.of_nat (length txt)) by lia.
  split; [rewrite <- !app_assoc; rewrite one_record_msg; reflexivity|].
  intros Hbd. unfold puttxtbin in H1. exact (puttxtbin_go_bytes _ _ _ _ Hbd H1).
Qed.


Lemma txt_codec_cases downenc :
  (exists c, (c = b32 \/ c = b64 \/ c = b64u \/ c = b128) /\ fst (txt_letter_codec downenc) = Some c) \/
  fst (txt_letter_codec downenc) = None.
Proof.
  unfold txt_letter_codec.
  destruct (downenc =? 83); [left; exists b64; cbn; tauto|].
  destruct (downenc =? 85); [left; exists b64u; cbn; tauto|].
  destruct (downenc =? 86); [left; exists b128; cbn; tauto|].
  destruct (downenc =? 82); [right; reflexivity|].
  left; exists b32; cbn; tauto.
Qed.

Lemma answer_wf_txt q ls p downenc td :
  q_name q = name_of ls -> wf_labels ls -> ls <> [] -> q_id q < 65536 ->
  q_type q = T_TXT -> (length p <= 4098)%nat ->
  answer_goal q ls p downenc td.
Proof.
  intros Hn [Hok Hw] Hne Hid Hty Hp.
  assert (Hat : answer_type (q_type q) = q_type q) by (rewrite Hty; reflexivity).
  unfold answer_goal, write_dns. rewrite Hty.
  change ((T_TXT =? T_CNAME) || (T_TXT =? T_A)) with false. change ((T_TXT =? T_MX) || (T_TXT =? T_SRV)) with false.
  change (T_TXT =? T_TXT) with true. cbv iota.
  destruct (txt_letter_codec downenc) as [oc letter] eqn:Etc.
  set (body := match oc with Some c => fst (encode c (buf64k - 1) p) | None => firstn (buf64k - 1) p end).
  assert (Hb : (length body <= 2 * length p + 1)%nat).
  { destruct (txt_codec_cases downenc) as [[c [Hc Hfc]]|Hfc]; rewrite Etc in Hfc; cbn [fst] in Hfc; subst oc; unfold body.
    - apply enc_len_bound, four_wfb, Hc.
    - rewrite firstn_length. lia. }
  destruct (answer_txt_form q ls (letter :: body) Hn Hok Hw Hty) as [txt [T1 [T2 [T3 [T4 _]]]]]; [cbn [length]; lia|].
  assert (Hq : q_type q < 65536) by (rewrite Hty; unfold T_TXT; lia).
  assert (Hqa : answer_type (q_type q) < 65536) by (rewrite Hat; exact Hq).
  assert (HF : Forall2 (fun rd rdn => N.of_nat (length rd) < 65536 /\ rd_shape (answer_type (q_type q)) rd rdn /\ short_labels rdn)
                       [txt] [None]).
  { constructor; [|constructor]. split; [exact T3|]. split; [|exact I]. rewrite Hat, Hty. apply rs_txt; assumption. }
  destruct (answer_msg_ok q ls [txt] [None] Hid Hq Hqa) as [msg [Hwf Hans]]; try assumption; [discriminate|cbn [length]; lia|].
  eexists. exists td, msg. split; [rewrite T4; reflexivity|]. split; [rewrite Hat in Hwf; exact Hwf|exact Hans].
Qed.

(* the TXT record consists of bytes: in particular every string-length byte is a byte (the 252-byte
   chunks of puttxtbin do not wrap the length byte) *)
Lemma encode_bytes c cap d : c = b32 \/ c = b64 \/ c = b64u \/ c = b128 -> bytes_ok (fst (encode c cap d)).
Proof.
  intros Hc. pose proof (enc_go_alpha c cap 0 d) as HA. unfold encode, bytes_ok. rewrite Forall_forall in *.
  intros x Hx. destruct (HA x Hx) as [v [Hv ->]]. apply (sym_facts c (four_wfb c Hc) v Hv).
Qed.

Lemma answer_txt_bytes q ls p downenc td :
  q_name q = name_of ls -> wf_labels ls -> ls <> [] -> q_id q < 65536 ->
  q_type q = T_TXT -> (length p <= 4098)%nat -> bytes_ok p ->
  exists m td' msg, write_dns q p downenc td = (Some m, td') /\ wf_msg m = Some msg /\
                    exists r, m_answers msg = [r] /\ bytes_ok (rr_rdata r) /\ rr_type r = T_TXT.
Proof.
  intros Hn [Hok Hw] Hne Hid Hty Hp Hbp.
  unfold write_dns. rewrite Hty.
  change ((T_TXT =? T_CNAME) || (T_TXT =? T_A)) with false. change ((T_TXT =? T_MX) || (T_TXT =? T_SRV)) with false.
  change (T_TXT =? T_TXT) with true. cbv iota.
  destruct (txt_letter_codec downenc) as [oc letter] eqn:Etc.
  set (body := match oc with Some c => fst (encode c (buf64k - 1) p) | None => firstn (buf64k - 1) p end).
  assert (Hb : (length body <= 2 * length p + 1)%nat /\ bytes_ok body).
  { destruct (txt_codec_cases downenc) as [[c [Hc Hfc]]|Hfc]; rewrite Etc in Hfc; cbn [fst] in Hfc; subst oc; unfold body.
    - split; [apply enc_len_bound, four_wfb, Hc|apply encode_bytes, Hc].
    - split; [rewrite firstn_length; lia|apply bytes_ok_firstn, Hbp]. }
  destruct Hb as [Hbl Hbb].
  assert (Hlet : letter < 256).
  { unfold txt_letter_codec in Etc.
    destruct (downenc =? 83); [inversion Etc; lia|]. destruct (downenc =? 85); [inversion Etc; lia|].
    destruct (downenc =? 86); [inversion Etc; lia|]. destruct (downenc =? 82); inversion Etc; lia. }
  destruct (answer_txt_form q ls (letter :: body) Hn Hok Hw Hty) as [txt [T1 [T2 [T3 [T4 T5]]]]]; [cbn [length]; lia|].
  assert (Htb : bytes_ok txt) by (apply T5; constructor; assumption).
  rewrite T4, Hty.
  eexists. exists td. eexists. split; [reflexivity|]. split.
  - apply (answer_wf (q_id q) 132 0 ls T_TXT T_TXT 1 0 [txt] [None]); try assumption; try (unfold T_TXT; lia); try (cbn [length]; lia).
    + apply wf_lens_ok, Hok.
    + constructor; [|constructor]. split; [exact T3|]. apply rs_txt; assumption.
  - cbn [m_answers combine map fst snd]. eexists. split; [reflexivity|]. split; [exact Htb|reflexivity].
Qed.

(* ---------------------------------------------------------------------------------- *)
(* stage 3: CNAME / A (answered with a CNAME record)                                     *)

(* name-valued RDATA written by putname for a host name built by write_dns_nameenc *)
Lemma host_putname buflen nm : enc_host_ok nm -> (253 <= buflen)%nat ->
  putname buflen nm = Some (enc_name (tokens nm)) /\
  lens_ok (tokens nm) /\ (wire_len (tokens nm) <= 255)%nat /\
  Forall (fun l => (length l <= 57)%nat) (tokens nm).
Proof.
  intros [Hnn [Hlen [Hne H57]]] Hb.
  pose proof (cstr_nonul nm Hnn) as Hc.
  split; [|split; [|split]].
  - rewrite putname_tokens; rewrite Hc.
    + reflexivity.
    + eapply Forall_impl; [|exact H57]. intros w Hw. cbv beta in Hw. lia.
    + lia.
  - unfold lens_ok. pose proof (tokens_ok nm) as Hok. rewrite Forall_forall in *. intros w Hw.
    destruct (Hok w Hw) as [H1 _]. specialize (H57 w Hw). cbv beta in H57. lia.
  - rewrite toklen_wire. pose proof (tokens_len nm). lia.
  - exact H57.
Qed.

Lemma answer_cname_form q ls nm :
  q_name q = name_of ls -> Forall label_ok ls -> (wire_len ls <= 255)%nat ->
  (q_type q = T_CNAME \/ q_type q = T_A) -> enc_host_ok nm ->
  dns_encode_answer buf64k q nm =
    Some (hdr12 (q_id q) 132 0 1 (N.of_nat (length [enc_name (tokens nm)])) 0 0 ++ enc_name ls ++
          DnsWfProofs.be16 (q_type q) ++ DnsWfProofs.be16 1 ++ recs12 T_CNAME 1 0 [enc_name (tokens nm)]).
Proof.
  intros Hn Hok Hw Hty Hnm.
  unfold dns_encode_answer. rewrite Hn.
  destruct (buf64k <? 12)%nat eqn:E; [apply Nat.ltb_lt in E; unfold buf64k in E; lia|].
  rewrite (putname_name_of _ ls Hok) by (unfold buf64k; lia). cbn [opt_bytes].
  rewrite hdr_same, be16_same. change C_IN with 1.
  rewrite checklen_true by len_solve. cbn [negb].
  assert (Hb : (q_type q =? T_CNAME) || (q_type q =? T_A) = true).
  { destruct Hty as [-> | ->]; reflexivity. }
  rewrite Hb. rewrite front_alt.
  rewrite checklen_true by len_solve. cbn [negb].
  destruct (host_putname (buf64k - length (front (q_id q) (q_type q) ls ++ rr_head T_CNAME) - 2) nm Hnm) as [Hp [Hlo [Hwl H57]]]; [len_solve|].
  rewrite Hp. cbn [opt_bytes].
  assert (Hel : (length (enc_name (tokens nm)) <= 255)%nat) by (rewrite enc_name_length; exact Hwl).
  rewrite checklen_true by (revert Hel; generalize (enc_name (tokens nm)); intros t Hel; len_solve). cbn [negb].
  replace (N.of_nat (length (enc_name (tokens nm))) mod 65536) with (N.of_nat (length (enc_name (tokens nm)))) by lia.
  rewrite <- !app_assoc. rewrite one_record_msg. reflexivity.
Qed.

Lemma answer_wf_cname q ls p downenc td :
  q_name q = name_of ls -> wf_labels ls -> ls <> [] -> q_id q < 65536 ->
  (q_type q = T_CNAME \/ q_type q = T_A) ->
  answer_goal q ls p downenc td.
Proof.
  intros Hn [Hok Hw] Hne Hid Hty.
  assert (Hat : answer_type (q_type q) = T_CNAME) by (destruct Hty as [-> | ->]; reflexivity).
  assert (Hq : q_type q < 65536) by (destruct Hty as [-> | ->]; unfold T_CNAME, T_A; lia).
  assert (Hqa : answer_type (q_type q) < 65536) by (rewrite Hat; unfold T_CNAME; lia).
  unfold answer_goal, write_dns.
  assert (Hb : (q_type q =? T_CNAME) || (q_type q =? T_A) = true).
  { destruct Hty as [-> | ->]; reflexivity. }
  rewrite Hb.
  destruct (nameenc_ok buf1k p downenc td) as [nm [Hnm Hhost]]; [unfold buf1k; lia|].
  rewrite Hnm.
  destruct (host_putname 253 nm Hhost) as [_ [Hlo [Hwl H57]]]; [lia|].
  assert (HF : Forall2 (fun rd rdn => N.of_nat (length rd) < 65536 /\ rd_shape (answer_type (q_type q)) rd rdn /\ short_labels rdn)
                       [enc_name (tokens nm)] [Some (tokens nm)]).
  { constructor; [|constructor]. split; [rewrite enc_name_length; lia|]. split; [|exact H57].
    rewrite Hat. apply (rs_name T_CNAME [] (tokens nm)); [reflexivity|exact Hlo|exact Hwl]. }
  destruct (answer_msg_ok q ls [enc_name (tokens nm)] [Some (tokens nm)] Hid Hq Hqa) as [msg [Hwf Hans]]; try assumption;
    [discriminate|cbn [length]; lia|].
  eexists. exists (td_next td), msg. split; [rewrite (answer_cname_form q ls nm Hn Hok Hw Hty Hhost); reflexivity|].
  split; [rewrite Hat in Hwf; exact Hwf|exact Hans].
Qed.
