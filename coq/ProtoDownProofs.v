(* ProtoDownProofs.v -- safety of the downstream fragment protocol under N* (see ProtoDown.v). *)
From Coq Require Import List Arith Bool Lia ZArith ZifyBool ZifyNat.
From Iodine Require Import ProtoUp ProtoUpProofs ProtoDown.
Import ListNotations.

Ltac Zify.zify_post_hook ::= Z.div_mod_to_equations.

Lemma recent_cases r kk : r < 8 -> kk < 8 ->
  recent r kk = (kk =? r) || (kk =? if r =? 0 then 7 else r - 1) || (kk =? if r <=? 1 then r + 6 else r - 2) ||
                (kk =? if r <=? 2 then r + 5 else r - 3).
Proof.
  intros Hr Hk. unfold recent.
  assert (M7 : (r + 7) mod 8 = if r =? 0 then 7 else r - 1) by (destruct (r =? 0) eqn:E; lia).
  assert (M6 : (r + 6) mod 8 = if r <=? 1 then r + 6 else r - 2) by (destruct (r <=? 1) eqn:E; lia).
  assert (M5 : (r + 5) mod 8 = if r <=? 2 then r + 5 else r - 3) by (destruct (r <=? 2) eqn:E; lia).
  rewrite M7, M6, M5. reflexivity.
Qed.

Lemma cli_rule_cases R rf e k f : R <= k + 3 -> k <= R + 5 ->
  match cli_rule (R mod 8) rf e (k mod 8) (f mod 16) with
  | CIgnore => True
  | CNew => R < k
  | CWeird => k = R /\ rf = 0 /\ f mod 16 = 0 /\ e = true
  | CNext => k = R /\ f mod 16 = rf + 1
  end.
Proof.
  intros H1 H2. unfold cli_rule.
  pose proof (Nat.div_mod R 8 ltac:(lia)) as HR. pose proof (Nat.mod_upper_bound R 8 ltac:(lia)) as HRb.
  pose proof (Nat.div_mod k 8 ltac:(lia)) as Hk. pose proof (Nat.mod_upper_bound k 8 ltac:(lia)) as Hkb.
  rewrite (recent_cases (R mod 8) (k mod 8) HRb Hkb).
  set (r := R mod 8) in *. set (kk := k mod 8) in *. set (qR := R / 8) in *. set (qk := k / 8) in *.
  set (ff := f mod 16). clearbody r kk qR qk ff.
  destruct (kk =? r) eqn:E1; cbn [negb andb orb].
  - assert (k = R) by lia. subst k.
    destruct (rf =? 0) eqn:E2; destruct (ff =? 0) eqn:E3; destruct e; cbn [andb];
      destruct (ff <=? rf) eqn:E4; try exact I; destruct (rf + 1 <? ff) eqn:E5; try exact I; lia.
  - destruct (r =? 0) eqn:T0; destruct (r <=? 1) eqn:T1; destruct (r <=? 2) eqn:T2;
    match goal with |- context [ (kk =? ?a) || (kk =? ?b) || (kk =? ?c) ] =>
      destruct (kk =? a) eqn:F1; destruct (kk =? b) eqn:F2; destruct (kk =? c) eqn:F3 end;
    cbn [orb]; try exact I; lia.
Qed.

Lemma cli_adopts_cases R k : R <= k + 3 -> k <= R + 5 -> cli_adopts (R mod 8) (k mod 8) = true -> R < k.
Proof.
  intros H1 H2. unfold cli_adopts.
  pose proof (Nat.div_mod R 8 ltac:(lia)) as HR. pose proof (Nat.mod_upper_bound R 8 ltac:(lia)) as HRb.
  pose proof (Nat.div_mod k 8 ltac:(lia)) as Hk. pose proof (Nat.mod_upper_bound k 8 ltac:(lia)) as Hkb.
  rewrite (recent_cases (R mod 8) (k mod 8) HRb Hkb).
  set (r := R mod 8) in *. set (kk := k mod 8) in *. set (qR := R / 8) in *. set (qk := k / 8) in *.
  clearbody r kk qR qk.
  destruct (kk =? r) eqn:E1; cbn [negb andb orb]; [discriminate|].
  destruct (r =? 0) eqn:T0; destruct (r <=? 1) eqn:T1; destruct (r <=? 2) eqn:T2;
    match goal with |- context [ (kk =? ?a) || (kk =? ?b) || (kk =? ?c) ] =>
      destruct (kk =? a) eqn:F1; destruct (kk =? b) eqn:F2; destruct (kk =? c) eqn:F3 end;
    cbn [orb negb]; intros X; try discriminate; lia.
Qed.

Definition msg_ok (s : dsys) (m : dmsg) : Prop :=
  match m with
  | Data k f l =>
      1 <= k <= dk (dsnd s) /\ f < dsizes s k /\ l = (S f =? dsizes s k) /\ (k = dk (dsnd s) -> f <= df (dsnd s)) /\
      (0 < f -> k < cR (drcv s) \/ (k = cR (drcv s) /\ f <= S (cf (drcv s))))
  | Hdr k f =>
      k <= dk (dsnd s) /\ f < 16 /\ (k = dk (dsnd s) -> dact (dsnd s) = false /\ f = df (dsnd s))
  end.

Definition dack_ok (s : dsys) (b : dack) : Prop :=
  b_seq b = b_R b mod 8 /\ b_frag b = b_rf b mod 16 /\ b_R b <= b_sk b /\ b_sk b <= b_R b + 5 /\
  b_sk b <= dk (dsnd s) /\ b_R b <= cR (drcv s) /\ (b_R b = cR (drcv s) -> b_rf b <= cf (drcv s)) /\ b_rf b < 16.

Definition drcv_ok (s : dsys) : Prop :=
  let R_ := drcv s in
  match cmode R_ with
  | CInit => cR R_ = 0 /\ cf R_ = 0 /\ cbuf R_ = []
  | CProg => 1 <= cR R_ /\ cf R_ < dsizes s (cR R_) /\ cbuf R_ = seq_tags (cR R_) (S (cf R_))
  | CDone => 1 <= cR R_ /\ cbuf R_ = [] /\ S (cf R_) = dsizes s (cR R_)
  | CAdopted => cbuf R_ = [] /\ cf R_ < 16 /\ (cR R_ = dk (dsnd s) -> dact (dsnd s) = false) /\
                (forall j l, In (Data (cR R_) j l) (dmsgs s) -> j <= cf R_)
  end.

Record DInv (s : dsys) : Prop := {
  j_le : cR (drcv s) <= dk (dsnd s);
  j_act : dact (dsnd s) = true -> 1 <= dk (dsnd s);
  j_df0 : dk (dsnd s) = 0 -> df (dsnd s) = 0;
  j_sn : 1 <= dk (dsnd s) -> dn (dsnd s) = dsizes s (dk (dsnd s)) /\ df (dsnd s) < dn (dsnd s);
  j_sizes : forall k, 1 <= k <= dk (dsnd s) -> 1 <= dsizes s k <= 16;
  j_msgs : forall m, In m (dmsgs s) -> msg_ok s m;
  j_hdr : forall k f j l, In (Hdr k f) (dmsgs s) -> In (Data k j l) (dmsgs s) -> j <= f;
  j_rcv : drcv_ok s;
  j_acks : forall b, In b (dacks s) -> dack_ok s b;
  j_frag : cR (drcv s) = dk (dsnd s) -> cf (drcv s) <= df (dsnd s)
}.

Lemma dinv_init : DInv dinit.
Proof.
  constructor; cbn; try lia; try (intros; contradiction); try discriminate.
  unfold drcv_ok. cbn. repeat split; reflexivity.
Qed.

Definition dexact (s : dsys) (b : list (nat * nat)) : Prop :=
  exists k, 1 <= k <= dk (dsnd s) /\ b = seq_tags k (dsizes s k).

Lemma cf_lt16 s : DInv s -> cf (drcv s) < 16.
Proof.
  intros I. pose proof (j_rcv s I) as H. pose proof (j_le s I) as Hle. unfold drcv_ok in H.
  destruct (cmode (drcv s)).
  - lia.
  - destruct H as (A & B & _). pose proof (j_sizes s I (cR (drcv s)) ltac:(lia)). lia.
  - destruct H as (A & _ & B). pose proof (j_sizes s I (cR (drcv s)) ltac:(lia)). lia.
  - lia.
Qed.

Ltac dsimp := cbn [dsnd drcv dmsgs dacks dsizes dk df dn dact cR cf cbuf cmode] in *.

(* what changes for messages and acks when only the receiver moves forward *)
Lemma msgs_rcv_forward s r' :
  (forall m, In m (dmsgs s) -> msg_ok s m) ->
  (cR (drcv s) < cR r' \/ (cR (drcv s) = cR r' /\ cf (drcv s) <= cf r')) ->
  forall m, In m (dmsgs s) -> msg_ok (with_rcv s r') m.
Proof.
  intros H Hf m Hm. specialize (H m Hm). destruct m as [k f l|k f]; unfold msg_ok in *; cbn in *; [|exact H].
  destruct H as (A & B & C & D & E). split; [exact A|]. split; [exact B|]. split; [exact C|]. split; [exact D|].
  intros Hpos. specialize (E Hpos). lia.
Qed.

Lemma acks_rcv_forward s r' :
  (forall b, In b (dacks s) -> dack_ok s b) ->
  (cR (drcv s) < cR r' \/ (cR (drcv s) = cR r' /\ cf (drcv s) <= cf r')) ->
  forall b, In b (dacks s) -> dack_ok (with_rcv s r') b.
Proof.
  intros H Hf b Hb. specialize (H b Hb). unfold dack_ok in *. cbn in *.
  destruct H as (A1 & A2 & A3 & A4 & A5 & A6 & A7 & A8). repeat split; try assumption; lia.
Qed.

Lemma dstep_inv s e s' o : DInv s -> dstep 2 s e s' o -> dclose s -> dclose s' ->
  DInv s' /\ (forall b, o = Some b -> dexact s' b).
Proof.
  intros I Hst Hc Hc'. unfold dclose in Hc, Hc'.
  pose proof (cf_lt16 s I) as Hcf16.
  destruct I as [I1 Ia I0 I2 I2c I3 Ih I4 I6 I7].
  inversion Hst; subst; clear Hst.
  - (* new packet *)
    rename H into Hact, H0 into Hn.
    split; [|intros b Hb; discriminate].
    constructor; dsimp.
    + lia.
    + lia.
    + lia.
    + intros _. rewrite Nat.eqb_refl. lia.
    + intros k Hk. destruct (k =? S (dk (dsnd s))) eqn:E; [lia|]. apply I2c. lia.
    + intros m [<-|Hin].
      * unfold msg_ok. dsimp. rewrite Nat.eqb_refl. repeat split; try lia.
      * specialize (I3 m Hin). unfold msg_ok in *. destruct m as [k f l|k f]; dsimp.
        -- destruct I3 as (A & B & C & D & E).
           assert (Ek : (k =? S (dk (dsnd s))) = false) by lia. rewrite Ek.
           repeat split; try assumption; try lia.
        -- destruct I3 as (A & B & C). repeat split; try assumption; lia.
    + intros k f j l [X|Hh] [Y|Hd]; try discriminate.
      * inversion Y; subst. specialize (I3 _ Hh). cbn in I3. lia.
      * eapply Ih; eassumption.
    + unfold drcv_ok in *. dsimp. destruct (cmode (drcv s)).
      * exact I4.
      * destruct I4 as (A & B & C). assert (E : (cR (drcv s) =? S (dk (dsnd s))) = false) by lia. rewrite E. auto.
      * destruct I4 as (A & B & C). assert (E : (cR (drcv s) =? S (dk (dsnd s))) = false) by lia. rewrite E. auto.
      * destruct I4 as (A & B & C & D). split; [exact A|]. split; [exact B|]. split; [lia|].
        intros j l [X|Hd]; [inversion X; lia|]. eapply D; eassumption.
    + intros b Hb. specialize (I6 b Hb). unfold dack_ok in *. dsimp.
      destruct I6 as (A1 & A2 & A3 & A4 & A5 & A6 & A7 & A8). repeat split; try assumption; lia.
    + lia.
  - (* drop / single chunk sent *)
    split; [|intros b Hb; discriminate].
    constructor; dsimp; try assumption; try discriminate.
    + intros m Hin. specialize (I3 m Hin). unfold msg_ok in *. destruct m as [k f l|k f]; dsimp; [exact I3|].
      destruct I3 as (A & B & C). split; [exact A|]. split; [exact B|]. intros X. split; [reflexivity|].
      destruct (dact (dsnd s)) eqn:E.
      * destruct (C X) as [Y _]. discriminate.
      * apply C, X.
    + unfold drcv_ok in *. dsimp. destruct (cmode (drcv s)); try exact I4.
      destruct I4 as (A & B & C & D). auto.
  - (* dataless header generated *)
    rename H into Hact.
    split; [|intros b Hb; discriminate].
    constructor; dsimp; try assumption.
    + intros m [<-|Hin]; [|apply I3, Hin].
      unfold msg_ok. dsimp. split; [lia|]. split; [|intros _; split; [exact Hact|reflexivity]].
      destruct (dk (dsnd s)) eqn:E; [rewrite I0; lia|].
      destruct (I2 ltac:(lia)) as [X Y]. pose proof (I2c (dk (dsnd s)) ltac:(lia)). rewrite E in *. lia.
    + intros k f j l [X|Hh] [Y|Hd]; try discriminate.
      * inversion X; subst. specialize (I3 _ Hd). cbn in I3. lia.
      * eapply Ih; eassumption.
    + unfold drcv_ok in *. dsimp. destruct (cmode (drcv s)); try exact I4.
      destruct I4 as (A & B & C & D). split; [exact A|]. split; [exact B|]. split; [exact C|].
      intros j l [X|Hd]; [discriminate|]. eapply D; eassumption.
  - (* last fragment acknowledged *)
    split; [|intros b0 Hb0; discriminate].
    constructor; dsimp; try assumption; try discriminate.
    + intros m Hin. specialize (I3 m Hin). unfold msg_ok in *. destruct m as [k f l|k f]; dsimp; [exact I3|].
      destruct I3 as (A & B & C). split; [exact A|]. split; [exact B|]. intros X. destruct (C X) as [Y _]. congruence.
    + unfold drcv_ok in *. dsimp. destruct (cmode (drcv s)); try exact I4.
      destruct I4 as (A & B & C & D). auto.
  - (* fragment acknowledged: next one is sent *)
    rename H into Hb, H0 into Hact, H1 into Hfresh, H2 into Hseq, H3 into Hfrag, H4 into Hmore.
    split; [|intros b0 Hb0; discriminate].
    pose proof (Ia Hact) as Hpos. destruct (I2 Hpos) as [Hsn Hsf].
    pose proof (I2c (dk (dsnd s)) ltac:(lia)) as Hsz.
    destruct (I6 b Hb) as (A1 & A2 & A3 & A4 & A5 & A6 & A7 & A8).
    assert (HR : b_R b = dk (dsnd s)) by lia.
    assert (HcR : cR (drcv s) = dk (dsnd s)) by lia.
    assert (Hrf : b_rf b = df (dsnd s)) by lia.
    assert (Hge : df (dsnd s) <= cf (drcv s)) by (specialize (A7 ltac:(lia)); lia).
    constructor; dsimp; try assumption.
    + intros _. lia.
    + intros X. lia.
    + intros _. lia.
    + intros m [<-|Hin].
      * unfold msg_ok. dsimp. rewrite Hsn.
        split; [lia|]. split; [lia|]. split; [reflexivity|]. split; [lia|]. intros _. right. lia.
      * specialize (I3 m Hin). unfold msg_ok in *. destruct m as [k f l|k f]; dsimp.
        -- destruct I3 as (B1 & B2 & B3 & B4 & B5). repeat split; try assumption; lia.
        -- destruct I3 as (B1 & B2 & B3). split; [exact B1|]. split; [exact B2|]. intros X.
           destruct (B3 X) as [Y _]. congruence.
    + intros k f j l [X|Hh]; [discriminate|]. intros [Y|Hd]; [|eapply Ih; eassumption].
      inversion Y; subst. specialize (I3 _ Hh). cbn in I3. destruct I3 as (_ & _ & B3).
      destruct (B3 eq_refl) as [Z _]. congruence.
    + unfold drcv_ok in *. dsimp. destruct (cmode (drcv s)); try exact I4.
      destruct I4 as (A & B & C & D). specialize (C HcR). congruence.
    + intros _. specialize (I7 HcR). lia.
  - (* acknowledgement not applicable *)
    split; [|intros b0 Hb0; discriminate]. constructor; assumption.
  - (* the client builds a query *)
    split; [|intros b Hb; discriminate].
    constructor; dsimp; try assumption.
    intros b [<-|Hb]; [|apply I6, Hb].
    unfold dack_ok. cbn. repeat split; lia.
  - (* data ignored *)
    split; [|intros b Hb; discriminate]. constructor; assumption.
  - (* data starts a new packet at the client *)
    rename H into Hin, H0 into Hdelay, H1 into Hrule.
    pose proof (I3 _ Hin) as Hc0. unfold msg_ok in Hc0. destruct Hc0 as (B1 & B2 & B3 & B4 & B5).
    pose proof (cli_rule_cases (cR (drcv s)) (cf (drcv s)) (is_empty (cbuf (drcv s))) k f ltac:(lia) ltac:(lia)) as Hrc.
    rewrite Hrule in Hrc.
    assert (Hf0 : f = 0).
    { destruct f as [|f']; [reflexivity|]. destruct (B5 ltac:(lia)) as [X|[X _]]; lia. }
    subst f. change (0 mod 16) with 0.
    pose proof (I2c k ltac:(lia)) as Hsz.
    set (r' := {| cR := k; cf := 0; cbuf := if l then [] else [(k, 0)]; cmode := if l then CDone else CProg |}).
    split.
    + constructor; change (mkdsys (dsnd s) r' (dmsgs s) (dacks s) (dsizes s)) with (with_rcv s r'); dsimp; try assumption.
      * unfold with_rcv; subst r'; dsimp. lia.
      * apply (msgs_rcv_forward s r' I3). left. subst r'. cbn. lia.
      * unfold drcv_ok, with_rcv; subst r'; dsimp. destruct l; dsimp.
        -- destruct (1 =? dsizes s k) eqn:E; [|discriminate]. repeat split; lia.
        -- repeat split; try lia.
      * apply (acks_rcv_forward s r' I6). left. subst r'. cbn. lia.
    + intros b Hb. destruct l; [|discriminate]. inversion Hb; subst b.
      exists k. split; [dsimp; lia|]. destruct (1 =? dsizes s k) eqn:E; [|discriminate].
      assert (Hs1 : dsizes s k = 1) by lia. dsimp. rewrite Hs1. reflexivity.
  - (* the weird-situation rule *)
    rename H into Hin, H0 into Hdelay, H1 into Hrule.
    pose proof (I3 _ Hin) as Hc0. unfold msg_ok in Hc0. destruct Hc0 as (B1 & B2 & B3 & B4 & B5).
    pose proof (cli_rule_cases (cR (drcv s)) (cf (drcv s)) (is_empty (cbuf (drcv s))) k f ltac:(lia) ltac:(lia)) as Hrc.
    rewrite Hrule in Hrc. destruct Hrc as (Hk & Hcf0 & Hf0 & Hemp).
    pose proof (I2c k ltac:(lia)) as Hsz.
    assert (Hf : f = 0) by lia. subst f. change (0 mod 16) with 0.
    set (r' := {| cR := cR (drcv s); cf := 0; cbuf := if l then [] else [(k, 0)]; cmode := if l then CDone else CProg |}).
    split.
    + constructor; change (mkdsys (dsnd s) r' (dmsgs s) (dacks s) (dsizes s)) with (with_rcv s r'); dsimp; try assumption.
      * apply (msgs_rcv_forward s r' I3). right. subst r'. cbn. lia.
      * unfold drcv_ok, with_rcv; subst r'; dsimp. subst k. destruct l; dsimp.
        -- destruct (1 =? dsizes s (cR (drcv s))) eqn:E; [|discriminate]. repeat split; lia.
        -- repeat split; try lia.
      * apply (acks_rcv_forward s r' I6). right. subst r'. cbn. lia.
      * unfold with_rcv; subst r'; dsimp. lia.
    + intros b Hb. destruct l; [|discriminate]. inversion Hb; subst b.
      exists k. split; [dsimp; lia|]. destruct (1 =? dsizes s k) eqn:E; [|discriminate].
      assert (Hs1 : dsizes s k = 1) by lia. dsimp. rewrite Hs1. reflexivity.
  - (* data continues the packet the client is on *)
    rename H into Hin, H0 into Hdelay, H1 into Hrule.
    pose proof (I3 _ Hin) as Hc0. unfold msg_ok in Hc0. destruct Hc0 as (B1 & B2 & B3 & B4 & B5).
    pose proof (cli_rule_cases (cR (drcv s)) (cf (drcv s)) (is_empty (cbuf (drcv s))) k f ltac:(lia) ltac:(lia)) as Hrc.
    rewrite Hrule in Hrc. destruct Hrc as [Hk Hnext]. subst k.
    pose proof (I2c (cR (drcv s)) ltac:(lia)) as Hsz.
    assert (Hf16 : f mod 16 = f) by (apply Nat.mod_small; lia).
    rewrite Hf16 in *.
    (* only a client that holds fragments 0..cf of this packet can be here *)
    assert (Hprog : cmode (drcv s) = CProg /\ cbuf (drcv s) = seq_tags (cR (drcv s)) (S (cf (drcv s)))).
    { unfold drcv_ok in I4. destruct (cmode (drcv s)).
      - lia.
      - split; [reflexivity|apply I4].
      - destruct I4 as (_ & _ & X). lia.
      - destruct I4 as (_ & _ & _ & D). specialize (D _ _ Hin). lia. }
    destruct Hprog as [Hmode Hbuf].
    set (r' := {| cR := cR (drcv s); cf := f; cbuf := if l then [] else cbuf (drcv s) ++ [(cR (drcv s), f)];
                  cmode := if l then CDone else CProg |}).
    split.
    + constructor; change (mkdsys (dsnd s) r' (dmsgs s) (dacks s) (dsizes s)) with (with_rcv s r'); dsimp; try assumption.
      * apply (msgs_rcv_forward s r' I3). right. subst r'. cbn. lia.
      * unfold drcv_ok, with_rcv; subst r'; dsimp. destruct l; dsimp.
        -- destruct (S f =? dsizes s (cR (drcv s))) eqn:E; [|discriminate]. repeat split; lia.
        -- split; [lia|]. split; [lia|]. rewrite Hbuf, Hnext. rewrite Nat.add_1_r. rewrite <- seq_tags_S. reflexivity.
      * apply (acks_rcv_forward s r' I6). right. subst r'. cbn. lia.
    + intros b Hb. destruct l; [|discriminate]. inversion Hb; subst b.
      exists (cR (drcv s)). split; [dsimp; lia|].
      destruct (S f =? dsizes s (cR (drcv s))) eqn:E; [|discriminate].
      assert (Hs : dsizes s (cR (drcv s)) = S f) by lia. dsimp. rewrite Hs, Hbuf, Hnext.
      rewrite Nat.add_1_r. rewrite <- seq_tags_S. reflexivity.
  - (* a dataless header makes the client adopt an unseen packet number *)
    rename H into Hin, H0 into Hdelay, H1 into Had.
    pose proof (I3 _ Hin) as Hc0. unfold msg_ok in Hc0. destruct Hc0 as (B1 & B2 & B3).
    pose proof (cli_adopts_cases (cR (drcv s)) k ltac:(lia) ltac:(lia) Had) as Hlt.
    assert (Hf16 : f mod 16 = f) by (apply Nat.mod_small; lia). rewrite Hf16.
    set (r' := {| cR := k; cf := f; cbuf := []; cmode := CAdopted |}).
    split; [|intros b Hb; discriminate].
    constructor; change (mkdsys (dsnd s) r' (dmsgs s) (dacks s) (dsizes s)) with (with_rcv s r'); dsimp; try assumption.
    + apply (msgs_rcv_forward s r' I3). left. subst r'. cbn. lia.
    + unfold drcv_ok, with_rcv; subst r'; dsimp. split; [reflexivity|]. split; [lia|]. split.
      * intros X. apply B3, X.
      * intros j l Hd. eapply Ih; eassumption.
    + apply (acks_rcv_forward s r' I6). left. subst r'. cbn. lia.
    + unfold with_rcv; subst r'; dsimp. intros X. destruct (B3 X) as [_ Y]. lia.
  - (* dataless header ignored *)
    split; [|intros b Hb; discriminate]. constructor; assumption.
Qed.

Lemma dstep_sizes w s e s' o k : dstep w s e s' o -> 1 <= k <= dk (dsnd s) -> dsizes s' k = dsizes s k.
Proof.
  intros H Hk. inversion H; subst; cbn [dsizes]; try reflexivity.
  destruct (k =? S (dk (dsnd s))) eqn:E; [lia|reflexivity].
Qed.

Lemma dstep_dk w s e s' o : dstep w s e s' o -> dk (dsnd s) <= dk (dsnd s').
Proof. intros H. inversion H; subst; cbn; lia. Qed.

Lemma dexact_step w s e s' o b : dstep w s e s' o -> dexact s b -> dexact s' b.
Proof.
  intros H (k & Hk & ->). exists k. split.
  - pose proof (dstep_dk _ _ _ _ _ H). lia.
  - rewrite (dstep_sizes _ _ _ _ _ k H Hk). reflexivity.
Qed.

(* every buffer the client hands to uncompress() is the complete, in-order fragment sequence of one packet *)
Theorem proto_down_safe s outs : dreach s outs -> DInv s /\ dclose s /\ Forall (dexact s) outs.
Proof.
  induction 1 as [|s outs e s' o Hr IH Hst Hc'].
  - split; [exact dinv_init|]. split; [unfold dclose; cbn; lia|constructor].
  - destruct IH as (I & Hc & Hall).
    destruct (dstep_inv s e s' o I Hst Hc Hc') as [I' Hout].
    split; [exact I'|]. split; [exact Hc'|].
    assert (Hall' : Forall (dexact s') outs).
    { rewrite Forall_forall in *. intros b Hb. eapply dexact_step; [exact Hst|]. apply Hall, Hb. }
    destruct o as [b|]; [|exact Hall'].
    apply Forall_app. split; [exact Hall'|]. constructor; [apply Hout; reflexivity|constructor].
Qed.

(* ---- the executable step function is sound w.r.t. the relation ------------------------------- *)

Lemma dmsg_eqb_eq a b : dmsg_eqb a b = true -> a = b.
Proof.
  destruct a as [k f l|k f], b as [k' f' l'|k' f']; cbn; intros H; try discriminate.
  - apply andb_prop in H. destruct H as [H Hl]. apply andb_prop in H. destruct H as [Hk Hf].
    apply Nat.eqb_eq in Hk, Hf. apply Bool.eqb_prop in Hl. subst. reflexivity.
  - apply andb_prop in H. destruct H as [Hk Hf]. apply Nat.eqb_eq in Hk, Hf. subst. reflexivity.
Qed.

Lemma dack_eqb_eq a b : dack_eqb a b = true -> a = b.
Proof.
  destruct a, b. unfold dack_eqb. cbn. intros H.
  repeat (apply andb_prop in H; let X := fresh "E" in destruct H as [H X]; apply Nat.eqb_eq in X).
  apply Nat.eqb_eq in H. subst. reflexivity.
Qed.

Lemma negb_existsb_in {A} (eqb : A -> A -> bool) (Heq : forall a b, eqb a b = true -> a = b) x l :
  negb (existsb (eqb x) l) = false -> In x l.
Proof.
  intros H. apply (existsb_in eqb Heq). destruct (existsb (eqb x) l); [reflexivity|discriminate].
Qed.

Lemma dexec_sound w s e s' o : dexec w s e = Some (s', o) -> dstep w s e s' o.
Proof.
  unfold dexec. destruct e as [n| | |b| |[k f l|k f]|[k f l|k f]]; try discriminate.
  - destruct (negb (dact (dsnd s)) && (1 <=? n) && (n <=? 16)) eqn:E; [|discriminate].
    intros H. inversion H; subst; clear H.
    apply ds_new; [destruct (dact (dsnd s)); cbn in E; [discriminate|reflexivity]|lia].
  - intros H. inversion H; subst. apply ds_drop.
  - destruct (dact (dsnd s)) eqn:E; [discriminate|]. intros H. inversion H; subst. apply ds_genhdr. exact E.
  - destruct (negb (existsb (dack_eqb b) (dacks s))) eqn:Ein; [discriminate|].
    pose proof (negb_existsb_in dack_eqb dack_eqb_eq _ _ Ein) as Hin.
    destruct (dact (dsnd s) && (dk (dsnd s) <=? b_sk b + w) && (b_seq b =? dk (dsnd s) mod 8) && (b_frag b =? df (dsnd s))) eqn:E.
    + apply andb_prop in E. destruct E as [E E4]. apply andb_prop in E. destruct E as [E E3].
      apply andb_prop in E. destruct E as [E1 E2].
      destruct (S (df (dsnd s)) =? dn (dsnd s)) eqn:El.
      * intros H. inversion H; subst; clear H. apply ds_ack_last; try assumption; lia.
      * destruct (S (df (dsnd s)) <? dn (dsnd s)) eqn:Em; [|discriminate].
        intros H. inversion H; subst; clear H. apply ds_ack_next; try assumption; lia.
    + intros H. assert (Hso : s' = s /\ o = None) by (inversion H; auto). destruct Hso as [-> ->]. clear H.
      apply ds_ack_ignored; [exact Hin|].
      destruct (dact (dsnd s)); [|left; reflexivity]. right.
      cbn [andb] in E.
      destruct (dk (dsnd s) <=? b_sk b + w) eqn:E2; [|left; lia]. right.
      destruct (b_seq b =? dk (dsnd s) mod 8) eqn:E3; [|left; lia]. right.
      cbn [andb] in E. lia.
  - intros H. inversion H; subst. apply ds_genack.
  - destruct (negb (existsb (dmsg_eqb (Data k f l)) (dmsgs s)) || negb (dk (dsnd s) <=? k + 3)) eqn:Eg; [discriminate|].
    apply orb_false_elim in Eg. destruct Eg as [Eg1 Eg2].
    pose proof (negb_existsb_in dmsg_eqb dmsg_eqb_eq _ _ Eg1) as Hin.
    assert (Hd : dk (dsnd s) <= k + 3) by (destruct (dk (dsnd s) <=? k + 3) eqn:X; [lia|discriminate]).
    destruct (cli_rule (cR (drcv s) mod 8) (cf (drcv s)) (is_empty (cbuf (drcv s))) (k mod 8) (f mod 16)) eqn:Er;
      intros H.
    + assert (Hso : s' = s /\ o = None) by (inversion H; auto). destruct Hso as [-> ->]. clear H.
      apply ds_data_ignore; assumption.
    + inversion H; subst; clear H. apply ds_data_new; assumption.
    + inversion H; subst; clear H. apply ds_data_weird; assumption.
    + inversion H; subst; clear H. apply ds_data_next; assumption.
  - destruct (negb (existsb (dmsg_eqb (Hdr k f)) (dmsgs s)) || negb (dk (dsnd s) <=? k + 3)) eqn:Eg; [discriminate|].
    apply orb_false_elim in Eg. destruct Eg as [Eg1 Eg2].
    pose proof (negb_existsb_in dmsg_eqb dmsg_eqb_eq _ _ Eg1) as Hin.
    assert (Hd : dk (dsnd s) <= k + 3) by (destruct (dk (dsnd s) <=? k + 3) eqn:X; [lia|discriminate]).
    destruct (cli_adopts (cR (drcv s) mod 8) (k mod 8)) eqn:Ea; intros H.
    + inversion H; subst; clear H. apply ds_hdr_adopt; assumption.
    + assert (Hso : s' = s /\ o = None) by (inversion H; auto). destruct Hso as [-> ->]. clear H.
      apply ds_hdr_ignore; assumption.
Qed.

Lemma dexec_noout_genack w s s1 o1 : dexec w s CGenAck = Some (s1, o1) -> o1 = None.
Proof. cbn. intros H. inversion H. reflexivity. Qed.

Lemma dexec_noout_ack w s b s2 o2 : dexec w s (DAck b) = Some (s2, o2) -> o2 = None.
Proof.
  unfold dexec. destruct (negb _); [discriminate|]. destruct (_ && _ && _ && _).
  - destruct (_ =? _); [intros H; inversion H; reflexivity|]. destruct (_ <? _); intros H; inversion H; reflexivity.
  - intros H; inversion H; reflexivity.
Qed.

Lemma drun_reach : forall es s outs s' outs',
  dreach s outs -> drun 2 s es outs true = Some (s', outs') -> dreach s' outs'.
Proof.
  induction es as [|e es IH]; intros s outs s' outs' Hr Hp.
  - cbn in Hp. inversion Hp; subst. exact Hr.
  - cbn [drun] in Hp. destruct e as [e|].
    + destruct (dexec 2 s e) as [[s1 o]|] eqn:E; [|discriminate].
      destruct (true && negb (dk (dsnd s1) <=? cR (drcv s1) + 5)) eqn:Ec; [discriminate|].
      apply (IH s1 (match o with Some b => outs ++ [b] | None => outs end) s' outs'); [|exact Hp].
      eapply dreach_step; [exact Hr|apply dexec_sound; exact E|]. unfold dclose. cbn in Ec. lia.
    + destruct (dexec 2 s CGenAck) as [[s1 o1]|] eqn:E1; [|discriminate].
      destruct (dexec 2 s1 (DAck (cur_dack s))) as [[s2 o2]|] eqn:E2; [|discriminate].
      destruct (true && negb (dk (dsnd s2) <=? cR (drcv s2) + 5)) eqn:Ec; [discriminate|].
      apply (IH s2 outs s' outs'); [|exact Hp].
      pose proof (proto_down_safe s outs Hr) as (_ & Hcs & _).
      pose proof (dexec_noout_genack _ _ _ _ E1). subst o1.
      pose proof (dexec_noout_ack _ _ _ _ _ E2). subst o2.
      assert (Hr1 : dreach s1 outs).
      { change outs with (match (None : option (list (nat * nat))) with Some b => outs ++ [b] | None => outs end).
        eapply dreach_step; [exact Hr|apply dexec_sound; exact E1|].
        cbn in E1. inversion E1; subst. unfold dclose in *. cbn. exact Hcs. }
      change outs with (match (None : option (list (nat * nat))) with Some b => outs ++ [b] | None => outs end).
      eapply dreach_step; [exact Hr1|apply dexec_sound; exact E2|]. unfold dclose. cbn in Ec. lia.
Qed.

Lemma drun_reach0 w : forall es s outs s' outs',
  dreach0 w s outs -> drun w s es outs false = Some (s', outs') -> dreach0 w s' outs'.
Proof.
  induction es as [|e es IH]; intros s outs s' outs' Hr Hp.
  - cbn in Hp. inversion Hp; subst. exact Hr.
  - cbn [drun] in Hp. destruct e as [e|].
    + destruct (dexec w s e) as [[s1 o]|] eqn:E; [|discriminate]. cbn [andb] in Hp.
      apply (IH s1 (match o with Some b => outs ++ [b] | None => outs end) s' outs'); [|exact Hp].
      eapply dreach0_step; [exact Hr|apply dexec_sound; exact E].
    + destruct (dexec w s CGenAck) as [[s1 o1]|] eqn:E1; [|discriminate].
      destruct (dexec w s1 (DAck (cur_dack s))) as [[s2 o2]|] eqn:E2; [|discriminate]. cbn [andb] in Hp.
      apply (IH s2 outs s' outs'); [|exact Hp].
      pose proof (dexec_noout_genack _ _ _ _ E1). subst o1.
      pose proof (dexec_noout_ack _ _ _ _ _ E2). subst o2.
      change outs with (match (None : option (list (nat * nat))) with Some b => outs ++ [b] | None => outs end).
      eapply dreach0_step; [|apply dexec_sound; exact E2].
      change outs with (match (None : option (list (nat * nat))) with Some b => outs ++ [b] | None => outs end).
      eapply dreach0_step; [exact Hr|apply dexec_sound; exact E1].
Qed.

(* inside N-star: a 3-fragment packet with duplicates and a lost ack; a single-fragment packet whose
   only chunk is lost, so that the client first sees its dataless header (adoption) and then, late,
   the chunk itself (the "weird situation" rule); then a dropped packet and a further one *)
Definition dscript_ok : list dsevent :=
  [ DEv (DNew 3);
    DEv (CData (Data 1 0 false)); DEv (CData (Data 1 0 false));
    DEv CGenAck;                                (* a query that is lost *)
    DEvAckNow;                                  (* fragment 1 is released *)
    DEv (CData (Data 1 1 false)); DEv (CData (Data 1 0 false));
    DEvAckNow;
    DEv (CData (Data 1 2 true));                (* delivery of packet 1 *)
    DEv (CData (Data 1 2 true));                (* duplicate of the last fragment *)
    DEvAckNow;                                  (* packet 1 complete at the server *)
    DEv (DNew 1); DEv DDrop;                    (* packet 2: one chunk, sent without waiting for an ack *)
    DEv DGenHdr;
    DEv (CHdr (Hdr 2 0));                       (* the client adopts seqno 2 from the dataless answer *)
    DEv (CData (Data 2 0 true));                (* ... and the data follows: weird-situation rule *)
    DEv (DNew 2); DEv DDrop;                    (* packet 3 given up after fragment 0 *)
    DEv (CData (Data 3 0 false));
    DEv (DNew 1);
    DEv (CData (Data 4 0 true)) ].

Example proto_down_nonvacuous :
  exists s, drun 2 dinit dscript_ok [] true = Some (s, [seq_tags 1 3; seq_tags 2 1; seq_tags 4 1]) /\
            dreach s [seq_tags 1 3; seq_tags 2 1; seq_tags 4 1].
Proof.
  assert (H : exists s, drun 2 dinit dscript_ok [] true = Some (s, [seq_tags 1 3; seq_tags 2 1; seq_tags 4 1])).
  { vm_compute. eexists. reflexivity. }
  destruct H as [s Hs]. exists s. split; [exact Hs|].
  eapply drun_reach; [apply dreach_init|exact Hs].
Qed.

(* outside N-star: a query built eight packets ago reaches the server (H2 and H6 violated); its ack
   fields are mistaken for an ack of fragment 0 of packet 9, fragment 1 is released and the client,
   still on packet 1, appends it: the buffer handed to uncompress() is not a packet *)
Definition dscript_bad : list dsevent :=
  [ DEv (DNew 1); DEv (CData (Data 1 0 true)); DEv DDrop; DEv CGenAck ] ++
  flat_map (fun _ => [DEv (DNew 1); DEv DDrop]) (seq 0 7) ++
  [ DEv (DNew 2);
    DEv (DAck {| b_seq := 1; b_frag := 0; b_sk := 1; b_R := 1; b_rf := 0 |});
    DEv (CData (Data 9 1 true)) ].

Theorem proto_down_inexact_witness :
  exists s outs, dreach0 8 s outs /\ ~ Forall (dexact s) outs.
Proof.
  assert (H : exists s, drun 8 dinit dscript_bad [] false = Some (s, [[(1, 0)]; [(9, 1)]])).
  { vm_compute. eexists. reflexivity. }
  destruct H as [s Hs]. exists s, [[(1, 0)]; [(9, 1)]]. split.
  - eapply drun_reach0; [apply dreach0_init|exact Hs].
  - intros HF. inversion HF as [|x l _ HF2]; subst. inversion HF2 as [|x l H9 _]; subst.
    destruct H9 as (k & Hk & Heq). unfold seq_tags in Heq.
    destruct (dsizes s k) as [|n]; [discriminate|]. cbn in Heq. inversion Heq.
Qed.
