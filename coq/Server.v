(* Server.v -- executable model of the iodined request dispatcher and session state
   (src/iodined.c: check_user_and_ip .. handle_null_request, send_chunk_or_dataless, caches,
   tunnel_tun, handle_full_packet, raw-mode handlers, the send-real-soon sweep; src/user.c
   find_available_user / find_user_by_ip).  Model only.

   External functions are Section variables, never axioms:
     login : password -> seed -> 16 bytes      (login_calculate; instantiated with Login.v)
     zc / unz : zlib compress2 / uncompress     (instantiated with a framing codec for the
                                                 correspondence run; proofs assume nothing, or the
                                                 single law unz (zc p) = Some p where stated)
   Every event carries the clock value [now] and the values rand() returns during the step. *)
From Coq Require Import List NArith ZArith Arith Bool.
From RecordUpdate Require Import RecordUpdate.
From Iodine Require Import Generated.SrcConsts Base Codec Hostname DnsName DnsMsg Domain.
Import ListNotations.
Local Open Scope N_scope.

(* ---- addresses, held queries, packets ------------------------------------------------ *)

Definition AF_INET : N := 2.
Definition AF_INET6 : N := 10.

Record addr := mkaddr { a_fam : N; a_ip : list N; a_port : N }.
Definition addr0 : addr := {| a_fam := 0; a_ip := []; a_port := 0 |}.

Definition list_eqb (a b : list N) : bool :=
  (length a =? length b)%nat && forallb (fun p => fst p =? snd p) (combine a b).

Definition addr_eqb (a b : addr) : bool :=
  (a_fam a =? a_fam b) && list_eqb (a_ip a) (a_ip b) && (a_port a =? a_port b).

(* struct query as held by the server *)
Record hq := mkhq {
  h_name : list N; h_type : N; h_id : N; h_from : addr;
  h_id2 : N; h_from2 : addr;
  h_dest : option (list N)       (* IPv4 destination address of the query, when known *)
}.
#[export] Instance eta_hq : Settable _ := settable! mkhq <h_name; h_type; h_id; h_from; h_id2; h_from2; h_dest>.
Definition hq0 : hq := {| h_name := []; h_type := 0; h_id := 0; h_from := addr0; h_id2 := 0; h_from2 := addr0; h_dest := None |}.

Record pkt := mkpkt {
  p_len : N; p_sentlen : N; p_offset : N; p_data : list N;
  p_seqno : N;       (* 0..7 *)
  p_fragment : Z     (* C char: wraps at 127 -> -128 *)
}.
#[export] Instance eta_pkt : Settable _ := settable! mkpkt <p_len; p_sentlen; p_offset; p_data; p_seqno; p_fragment>.
Definition pkt0 : pkt := {| p_len := 0; p_sentlen := 0; p_offset := 0; p_data := []; p_seqno := 0; p_fragment := 0%Z |}.

Definition schar_wrap (z : Z) : Z := ((z + 128) mod 256 - 128)%Z.
Definition schar (b : N) : Z := if b <? 128 then Z.of_N b else (Z.of_N b - 256)%Z.

(* remembered answers / queries *)
Record cache_entry := mkce { ce_name : list N; ce_type : N; ce_id : N; ce_answer : list N; ce_len : N }.
Definition ce0 : cache_entry := {| ce_name := []; ce_type := 0; ce_id := 0; ce_answer := []; ce_len := 0 |}.
Record qmem_entry := mkqm { qm_cmc : list N; qm_type : N }.
Definition T_UNSET : N := 65432.
Definition qm0 : qmem_entry := {| qm_cmc := [0; 0; 0; 0]; qm_type := T_UNSET |}.

Inductive conn_t := CONN_RAW | CONN_DNS.

Record suser := mksuser {
  u_active : bool; u_auth : bool; u_auth_raw : bool; u_locked : bool; u_disabled : bool;
  u_last : N; u_seed : N; u_tun_ip : N; u_host : addr;
  u_q : hq; u_qs : hq; u_qs_new : bool;
  u_in : pkt; u_out : pkt; u_resent : N;
  u_enc : N;           (* upstream codec: 0 b32, 1 b64, 2 b64u, 3 b128 *)
  u_downenc : N;       (* letter *)
  u_fragsize : N;
  u_conn : conn_t; u_lazy : bool;
  u_pingmem : list qmem_entry; u_pingmem_last : nat;
  u_datamem : list qmem_entry; u_datamem_last : nat;
  u_queue : list pkt; u_queue_next : nat; u_queue_filled : nat;
  u_cache : list cache_entry; u_cache_last : nat
}.
#[export] Instance eta_suser : Settable _ := settable! mksuser
  <u_active; u_auth; u_auth_raw; u_locked; u_disabled; u_last; u_seed; u_tun_ip; u_host;
   u_q; u_qs; u_qs_new; u_in; u_out; u_resent; u_enc; u_downenc; u_fragsize; u_conn; u_lazy;
   u_pingmem; u_pingmem_last; u_datamem; u_datamem_last; u_queue; u_queue_next; u_queue_filled;
   u_cache; u_cache_last>.

Definition QLEN : nat := N.to_nat src_OUTPACKETQ_LEN.
Definition CACHELEN : nat := N.to_nat src_DNSCACHE_LEN.
Definition PINGLEN : nat := N.to_nat src_QMEMPING_LEN.
Definition DATALEN : nat := N.to_nat src_QMEMDATA_LEN.
Definition TIMEOUT : N := src_USER_TIMEOUT.

(* calloc'ed user as left by init_users *)
Definition user_init (tun_ip : N) : suser :=
  {| u_active := false; u_auth := false; u_auth_raw := false; u_locked := false; u_disabled := false;
     u_last := 0; u_seed := 0; u_tun_ip := tun_ip; u_host := addr0;
     u_q := hq0; u_qs := hq0; u_qs_new := false; u_in := pkt0; u_out := pkt0; u_resent := 0;
     u_enc := 0; u_downenc := 0; u_fragsize := 0; u_conn := CONN_RAW; u_lazy := false;
     u_pingmem := repeat {| qm_cmc := [0;0;0;0]; qm_type := 0 |} PINGLEN; u_pingmem_last := 0;
     u_datamem := repeat {| qm_cmc := [0;0;0;0]; qm_type := 0 |} DATALEN; u_datamem_last := 0;
     u_queue := repeat pkt0 QLEN; u_queue_next := 0; u_queue_filled := 0;
     u_cache := repeat ce0 CACHELEN; u_cache_last := 0 |}.

(* server configuration + sessions *)
Record cfg := mkcfg {
  c_topdomain : list N; c_password : list N; c_check_ip : bool;
  c_my_ip : N;        (* in_addr_t as the C holds it *)
  c_netmask : N; c_mtu : N;
  c_ns_ip : option (list N);
  c_bind : bool       (* -b: forward foreign queries *)
}.

Definition sstate := list suser.

(* outputs of a step *)
Inductive out :=
| OAnswer (q : hq) (id : N) (to : addr) (data : list N) (downenc : N)   (* write_dns(q with this id/to) *)
| OAux (to : addr) (bytes : list N)                                      (* NS / A auxiliary answer *)
| ORaw (to : addr) (bytes : list N)
| OTun (bytes : list N)
| OForward (q : hq).

Definition upd (st : sstate) (i : nat) (f : suser -> suser) : sstate :=
  firstn i st ++ match nth_error st i with Some u => [f u] | None => [] end ++ skipn (S i) st.
Definition getu (st : sstate) (i : nat) : suser := nth i st (user_init 0).

Definition chr (s : list N) (i : nat) : N := nth i s 0.
Definition is_letter (c : N) (l : N) : bool := (c =? l) || (c =? l - 32).   (* l lower case *)

Section WithOracles.
Variable login : list N -> N -> list N.
Variable zc : list N -> list N.
Variable unz : list N -> option (list N).

(* ---- user.c -------------------------------------------------------------------------- *)

Definition live (now : N) (u : suser) : bool := now <? u_last u + TIMEOUT.

Fixpoint find_user_by_ip_from (st : sstate) (ip now : N) (i : nat) : option nat :=
  match st with
  | [] => None
  | u :: rest =>
      if u_active u && u_auth u && negb (u_disabled u) && live now u && (ip =? u_tun_ip u)
      then Some i else find_user_by_ip_from rest ip now (S i)
  end.
Definition find_user_by_ip (st : sstate) (ip now : N) : option nat := find_user_by_ip_from st ip now 0.

Fixpoint find_available_from (st : sstate) (now : N) (i : nat) : option nat :=
  match st with
  | [] => None
  | u :: rest =>
      if (negb (u_active u) || (u_last u + src_USER_TIMEOUT_AVAIL <? now)) && negb (u_disabled u)
      then Some i else find_available_from rest now (S i)
  end.
Definition claim (now : N) (u : suser) : suser :=
  u <| u_active := true |> <| u_auth := false |> <| u_auth_raw := false |> <| u_locked := false |>
    <| u_last := now |> <| u_fragsize := src_USER_DEFAULT_FRAGSIZE_V |> <| u_conn := CONN_DNS |>.

(* ---- access checks ------------------------------------------------------------------- *)

Definition in_range (st : sstate) (userid : Z) : bool := (0 <=? userid)%Z && (Z.to_nat userid <? length st)%nat.

(* check_user_and_ip: true = refused *)
Definition check_user_and_ip (c : cfg) (st : sstate) (now : N) (userid : Z) (from : addr) : bool :=
  if negb (in_range st userid) then true else
  let u := getu st (Z.to_nat userid) in
  if negb (u_active u) || u_disabled u then true else
  if u_last u + TIMEOUT <? now then true else
  if negb (c_check_ip c) then false else
  if negb (a_fam from =? a_fam (u_host u)) then true else
  if (a_fam from =? AF_INET) || (a_fam from =? AF_INET6) then negb (list_eqb (a_ip from) (a_ip (u_host u)))
  else true.

Definition check_auth (c : cfg) (st : sstate) (now : N) (userid : Z) (from : addr) : bool :=
  if check_user_and_ip c st now userid from then true
  else negb (u_auth (getu st (Z.to_nat userid))).

Definition check_auth_options (c : cfg) (st : sstate) (now : N) (userid : Z) (from : addr) : bool :=
  let res := check_auth c st now userid from in
  if res || c_check_ip c then res
  else u_locked (getu st (Z.to_nat userid)).

(* ---- queue, caches -------------------------------------------------------------------- *)

Definition start_new_outpacket (u : suser) (data : list N) : suser :=
  let d := firstn (N.to_nat 65536) data in
  u <| u_out := {| p_len := N.of_nat (length d); p_sentlen := 0; p_offset := 0; p_data := d;
                   p_seqno := (p_seqno (u_out u) + 1) mod 8; p_fragment := 0%Z |} |>
    <| u_resent := 0 |>.

Definition set_nth {A} (l : list A) (i : nat) (x : A) : list A :=
  firstn i l ++ match l with [] => [] | _ => if (i <? length l)%nat then [x] else [] end ++ skipn (S i) l.

Definition save_to_outpacketq (u : suser) (data : list N) : suser * bool :=
  if (QLEN <=? u_queue_filled u)%nat then (u, false) else
  let fill0 := (u_queue_next u + u_queue_filled u)%nat in
  let fill := if (QLEN <=? fill0)%nat then (fill0 - QLEN)%nat else fill0 in
  let d := firstn (N.to_nat 65536) data in
  let e := nth fill (u_queue u) pkt0 in
  (u <| u_queue := set_nth (u_queue u) fill (e <| p_data := d |> <| p_len := N.of_nat (length d) |>) |>
     <| u_queue_filled := S (u_queue_filled u) |>, true).

Definition get_from_outpacketq (u : suser) : suser * bool :=
  match u_queue_filled u with
  | O => (u, false)
  | S f =>
      let use_ := u_queue_next u in
      let e := nth use_ (u_queue u) pkt0 in
      let u1 := start_new_outpacket u (firstn (N.to_nat (p_len e)) (p_data e)) in
      let nxt := if (QLEN <=? S use_)%nat then O else S use_ in
      (u1 <| u_queue_next := nxt |> <| u_queue_filled := f |>, true)
  end.

Definition save_to_dnscache (u : suser) (q : hq) (id : N) (answer : list N) : suser :=
  if (N.to_nat 4096 <? length answer)%nat then u else
  let fill0 := S (u_cache_last u) in
  let fill := if (CACHELEN <=? fill0)%nat then O else fill0 in
  u <| u_cache := set_nth (u_cache u) fill
         {| ce_name := h_name q; ce_type := h_type q; ce_id := id; ce_answer := answer; ce_len := N.of_nat (length answer) |} |>
    <| u_cache_last := fill |>.

(* most-recent-first scan *)
Fixpoint dnscache_scan (n : nat) (i : nat) (u : suser) (name : list N) (ty : N) : option cache_entry :=
  match n with
  | O => None
  | S n' =>
      let use_ := if (i <=? u_cache_last u)%nat then (u_cache_last u - i)%nat else (u_cache_last u + CACHELEN - i)%nat in
      let e := nth use_ (u_cache u) ce0 in
      if (ce_id e =? 0) || (ce_len e =? 0) || negb (ce_type e =? ty) || negb (list_eqb (ce_name e) name)
      then dnscache_scan n' (S i) u name ty
      else Some e
  end.
Definition answer_from_dnscache (u : suser) (name : list N) (ty : N) : option cache_entry :=
  dnscache_scan CACHELEN 0 u name ty.

Definition save_to_qmem (mem : list qmem_entry) (last len : nat) (cmc : list N) (ty : N) : list qmem_entry * nat :=
  let fill0 := S last in
  let fill := if (len <=? fill0)%nat then O else fill0 in
  (set_nth mem fill {| qm_cmc := cmc; qm_type := ty |}, fill).

Definition qmem_hit (mem : list qmem_entry) (cmc : list N) (ty : N) : bool :=
  existsb (fun e => negb (qm_type e =? T_UNSET) && (qm_type e =? ty) && list_eqb (qm_cmc e) cmc) mem.

Definition lower4 (name : list N) : list N :=
  map (fun i => let c := chr name (S i) in if (65 <=? c) && (c <=? 90) then c + 32 else c) (seq 0 4).

Fixpoint index_of (c : N) (s : list N) (i : nat) : option nat :=
  match s with [] => None | x :: r => if x =? c then Some i else index_of c r (S i) end.

Definition save_to_qmem_pingordata (u : suser) (q : hq) : suser :=
  let nm := h_name q in
  if is_letter (chr nm 0) 112 then
    match index_of DOT nm 0 with
    | None => u
    | Some cp =>
        let cmc := decode b32 8 (firstn (cp - 1) (skipn 1 nm)) in
        if (length cmc <? 4)%nat then u else
        let '(m, l) := save_to_qmem (u_pingmem u) (u_pingmem_last u) PINGLEN (firstn 4 cmc) (h_type q) in
        u <| u_pingmem := m |> <| u_pingmem_last := l |>
    end
  else
    if (length nm <? 5)%nat then u else
    let '(m, l) := save_to_qmem (u_datamem u) (u_datamem_last u) DATALEN (lower4 nm) (h_type q) in
    u <| u_datamem := m |> <| u_datamem_last := l |>.

(* ---- fragment emission ---------------------------------------------------------------- *)

Inductive which_q := WQ | WQS.
Definition getq (u : suser) (w : which_q) : hq := match w with WQ => u_q u | WQS => u_qs u end.
Definition setq (u : suser) (w : which_q) (q : hq) : suser :=
  match w with WQ => u <| u_q := q |> | WQS => u <| u_qs := q |> end.

Definition drop_outpacket (u : suser) : suser :=
  u <| u_out := (u_out u) <| p_len := 0 |> <| p_offset := 0 |> <| p_sentlen := 0 |> |> <| u_resent := 0 |>.

(* send_chunk_or_dataless(dns_fd, userid, q) with q = &users[userid].q or .q_sendrealsoon *)
Definition send_chunk_or_dataless (u0 : suser) (w : which_q) : suser * list out * bool :=
  let u1 := if (0 <? p_len (u_out u0)) && (5 <? u_resent u0)
            then fst (get_from_outpacketq (drop_outpacket u0)) else u0 in
  let o := u_out u1 in
  let has := 0 <? p_len o in
  let datalen := if has then N.min (N.min (u_fragsize u1) (p_len o - p_offset o)) 4094 else 0 in
  let payload := firstn (N.to_nat datalen) (skipn (N.to_nat (p_offset o)) (p_data o)) in
  let last := has && (p_len o =? p_offset o + datalen) in
  let u2 := if has then u1 <| u_out := o <| p_sentlen := datalen |> |> <| u_resent := u_resent u1 + 1 |> else u1 in
  let o2 := u_out u2 in
  let b0 := 128 + (p_seqno (u_in u2) mod 8) * 16 + Z.to_N (p_fragment (u_in u2) mod 16) in
  let b1 := (p_seqno o2 mod 8) * 32 + Z.to_N (p_fragment o2 mod 16) * 2 + (if last then 1 else 0) in
  let pktb := b0 :: b1 :: payload in
  let q := getq u2 w in
  let outs1 := [OAnswer q (h_id q) (h_from q) pktb (u_downenc u2)] in
  let '(q', outs2) :=
    if negb (h_id2 q =? 0)
    then (q <| h_id := h_id2 q |> <| h_from := h_from2 q |>,
          [OAnswer q (h_id2 q) (h_from2 q) pktb (u_downenc u2)])
    else (q, []) in
  let u3 := save_to_qmem_pingordata u2 q' in
  let u4 := save_to_dnscache u3 q' (h_id q') pktb in
  let u5 := setq u4 w (q' <| h_id := 0 |>) in
  if (0 <? datalen) && (datalen =? p_len (u_out u5)) then
    let '(u6, got) := get_from_outpacketq (drop_outpacket u5) in
    (u6, outs1 ++ outs2, got)
  else (u5, outs1 ++ outs2, false).

(* process_downstream_ack(userid, down_seq, down_frag) *)
Definition process_downstream_ack (u : suser) (dn_seq dn_frag : Z) : suser :=
  let o := u_out u in
  if p_len o =? 0 then u else
  if negb ((Z.of_N (p_seqno o) =? dn_seq)%Z && (p_fragment o =? dn_frag)%Z) then u else
  if p_sentlen o =? 0 then u else          (* this fragment has not been sent yet: stale ack *)
  let o1 := o <| p_offset := p_offset o + p_sentlen o |> <| p_sentlen := 0 |>
              <| p_fragment := schar_wrap (p_fragment o + 1) |> in
  let u1 := u <| u_out := o1 |> <| u_resent := 0 |> in
  if p_len o1 <=? p_offset o1 then
    let o2 := o1 <| p_len := 0 |> <| p_offset := 0 |> <| p_fragment := schar_wrap (p_fragment o1 - 1) |> in
    fst (get_from_outpacketq (u1 <| u_out := o2 |>))
  else u1.

(* ---- delivery of a completed upstream packet ------------------------------------------- *)

Definition le32_at (b : list N) (off : nat) : N :=
  chr b off + 256 * (chr b (off + 1) + 256 * (chr b (off + 2) + 256 * chr b (off + 3))).

Definition send_held (st : sstate) (t : nat) : sstate * list out :=
  let ut := getu st t in
  if negb (h_id (u_qs ut) =? 0) then
    let '(u', o, _) := send_chunk_or_dataless ut WQS in (upd st t (fun _ => u'), o)
  else if negb (h_id (u_q ut) =? 0) then
    let '(u', o, _) := send_chunk_or_dataless ut WQ in (upd st t (fun _ => u'), o)
  else (st, []).

Definition raw_frame (cmd : N) (userid : nat) (data : list N) : list N :=
  firstn 3 src_raw_header ++ [N.lor cmd (N.land (N.of_nat userid) 15)] ++ firstn (N.to_nat 4092) data.

Definition handle_full_packet (st : sstate) (now : N) (userid : nat) : sstate * list out :=
  let u := getu st userid in
  let raw := firstn (N.to_nat (p_len (u_in u))) (p_data (u_in u)) in
  let '(st1, outs) :=
    match unz raw with
    | None => (st, [])
    | Some ip =>
        (* a packet too short to hold the TUN + IP header has no destination user (goes to tun) *)
        match (if (24 <=? length ip)%nat then find_user_by_ip st (le32_at ip 20) now else None) with
        | None => (st, [OTun ip])
        | Some t =>
            let ut := getu st t in
            match u_conn ut with
            | CONN_DNS =>
                if p_len (u_out ut) =? 0 then
                  send_held (upd st t (fun x => start_new_outpacket x raw)) t
                else (upd st t (fun x => fst (save_to_outpacketq x raw)), [])
            | CONN_RAW => (st, [ORaw (h_from (u_q ut)) (raw_frame src_RAW_HDR_CMD_DATA t raw)])
            end
        end
    end in
  (upd st1 userid (fun x => x <| u_in := (u_in x) <| p_len := 0 |> <| p_offset := 0 |> |>), outs).

(* ---- handle_null_request ----------------------------------------------------------------- *)

Definition str (s : list N) := s.
Definition s_BADIP : list N := [66;65;68;73;80].
Definition s_BADLEN : list N := [66;65;68;76;69;78].
Definition s_BADCODEC : list N := [66;65;68;67;79;68;69;67].
Definition s_BADFRAG : list N := [66;65;68;70;82;65;71].
Definition s_LNAK : list N := [76;78;65;75].

Definition be32b (v : N) : list N := [(v / 16777216) mod 256; (v / 65536) mod 256; (v / 256) mod 256; v mod 256].

Fixpoint dec_digits (fuel : nat) (v : N) (acc : list N) : list N :=
  match fuel with
  | O => acc
  | S f => let acc' := (48 + v mod 10) :: acc in if v / 10 =? 0 then acc' else dec_digits f (v / 10) acc'
  end.
Definition dec_of (v : N) : list N := dec_digits 20 v [].
(* inet_ntoa of an in_addr_t held as on little-endian x86 *)
Definition ntoa (ip : N) : list N :=
  dec_of (ip mod 256) ++ [DOT] ++ dec_of ((ip / 256) mod 256) ++ [DOT] ++
  dec_of ((ip / 65536) mod 256) ++ [DOT] ++ dec_of ((ip / 16777216) mod 256).
(* "%d" of a C int held as N mod 2^32 *)
Definition dec_int (v : N) : list N :=
  if v <? 2147483648 then dec_of v else 45 :: dec_of (4294967296 - v).

Definition mk_answer (q : hq) (data : list N) (downenc : N) : out := OAnswer q (h_id q) (h_from q) data downenc.

Definition codec_name (i : N) : list N :=
  if i =? 0 then [66;97;115;101;51;50] else if i =? 1 then [66;97;115;101;54;52]
  else if i =? 2 then [66;97;115;101;54;52;117] else [66;97;115;101;49;50;56].
Definition codec_of_id (i : N) : codec := if i =? 0 then b32 else if i =? 1 then b64 else if i =? 2 then b64u else b128.

Definition tunnel_types (ty : N) : bool :=
  (ty =? T_TXT) || (ty =? T_SRV) || (ty =? T_MX) || (ty =? T_CNAME) || (ty =? T_A).

(* fragsize probe answer: 2 bytes size, 107, then v, v+107, ... (mod 256) *)
Fixpoint probe_seq (n : nat) (v : N) : list N :=
  match n with O => [] | S n' => v :: probe_seq n' ((v + 107) mod 256) end.
Definition probe_reply (req : N) (v0 : N) : list N :=
  firstn (N.to_nat req) ([(req / 256) mod 256; req mod 256; 107] ++ probe_seq (N.to_nat 2045) v0).

Definition reset_session (u : suser) (q : hq) (seed : N) : suser :=
  u <| u_seed := seed |> <| u_host := h_from q |>
    <| u_q := q <| h_id := 0 |> <| h_id2 := 0 |> |>
    <| u_enc := 0 |> <| u_downenc := 84 |>
    <| u_qs := (u_qs u) <| h_id := 0 |> <| h_id2 := 0 |> |> <| u_qs_new := false |>
    <| u_out := (u_out u) <| p_len := 0 |> <| p_offset := 0 |> <| p_sentlen := 0 |> <| p_seqno := 0 |> <| p_fragment := 0%Z |> |>
    <| u_resent := 0 |>
    <| u_in := (u_in u) <| p_len := 0 |> <| p_offset := 0 |> <| p_seqno := 0 |> <| p_fragment := 0%Z |> |>
    <| u_fragsize := 100 |> <| u_conn := CONN_DNS |> <| u_lazy := false |>
    <| u_queue_next := O |> <| u_queue_filled := O |>
    <| u_cache := map (fun e => {| ce_name := ce_name e; ce_type := ce_type e; ce_id := 0; ce_answer := ce_answer e; ce_len := 0 |}) (u_cache u) |>
    <| u_cache_last := O |>
    <| u_pingmem := map (fun e => {| qm_cmc := qm_cmc e; qm_type := T_UNSET |}) (u_pingmem u) |> <| u_pingmem_last := O |>
    <| u_datamem := map (fun e => {| qm_cmc := qm_cmc e; qm_type := T_UNSET |}) (u_datamem u) |> <| u_datamem_last := O |>.

(* the ping / data handlers share the duplicate logic *)
Definition dup_pending (u : suser) (q : hq) (w : which_q) : bool :=
  let h := getq u w in
  negb (h_id h =? 0) && (h_type q =? h_type h) && list_eqb (h_name q) (h_name h) &&
  match w with WQ => u_lazy u | WQS => true end.

Definition remember_dup (u : suser) (q : hq) (w : which_q) : suser :=
  setq u w ((getq u w) <| h_id2 := h_id q |> <| h_from2 := h_from q |>).

Definition handle_ping (c : cfg) (st : sstate) (now : N) (q : hq) (unpacked : list N) : sstate * list out :=
  let userid := schar (chr unpacked 0) in
  if check_auth c st now userid (h_from q) then (st, [mk_answer q s_BADIP 84]) else
  let i := Z.to_nat userid in
  let u := getu st i in
  match answer_from_dnscache u (h_name q) (h_type q) with
  | Some e => (st, [mk_answer q (firstn (N.to_nat (ce_len e)) (ce_answer e)) (u_downenc u)])
  | None =>
  if qmem_hit (u_pingmem u) (firstn 4 unpacked) (h_type q) then (st, [mk_answer q [120] 84]) else
  if dup_pending u q WQ then (upd st i (fun x => remember_dup x q WQ), []) else
  if dup_pending u q WQS then (upd st i (fun x => remember_dup x q WQS), []) else
  let dn_seq := Z.shiftr (schar (chr unpacked 1)) 4 in
  let dn_frag := Z.of_N (N.land (chr unpacked 1) 15) in
  let u1 := process_downstream_ack u dn_seq dn_frag in
  let '(u2, o1) := if negb (h_id (u_qs u1) =? 0)
                   then let '(x, o, _) := send_chunk_or_dataless u1 WQS in (x, o) else (u1, []) in
  let '(u3, o2, didsend) :=
     if negb (h_id (u_q u2) =? 0)
     then let '(x, o, again) := send_chunk_or_dataless u2 WQ in (x, o, negb again)
     else (u2, [], false) in
  let u4 := u3 <| u_q := q |> <| u_last := now |> in
  let '(u5, o3) :=
     if (negb didsend && (0 <? p_len (u_out u4))) || negb (u_lazy u4)
     then let '(x, o, _) := send_chunk_or_dataless u4 WQ in (x, o) else (u4, []) in
  (upd st i (fun _ => u5), o1 ++ o2 ++ o3)
  end.

Definition recent_seqno (ours got : N) : bool :=
  existsb (fun k => got =? (ours + 8 - k) mod 8) [0; 1; 2; 3].

Definition handle_data (c : cfg) (st : sstate) (now : N) (q : hq) (inb : list N) (domain_len : nat) : sstate * list out :=
  let c0 := chr inb 0 in
  let code := if (48 <=? c0) && (c0 <=? 57) then c0 - 48
              else if (97 <=? c0) && (c0 <=? 102) then c0 - 87 else c0 - 55 in
  let userid := Z.of_N code in
  if check_auth c st now userid (h_from q) then (st, [mk_answer q s_BADIP 84]) else
  let i := N.to_nat code in
  let u := getu st i in
  match answer_from_dnscache u (h_name q) (h_type q) with
  | Some e => (st, [mk_answer q (firstn (N.to_nat (ce_len e)) (ce_answer e)) (u_downenc u)])
  | None =>
  if qmem_hit (u_datamem u) (lower4 (h_name q)) (h_type q) then (st, [mk_answer q [120] 84]) else
  if dup_pending u q WQ then (upd st i (fun x => remember_dup x q WQ), []) else
  if dup_pending u q WQS then (upd st i (fun x => remember_dup x q WQS), []) else
  let d1 := b32_8to5 (chr inb 1) in
  let d2 := b32_8to5 (chr inb 2) in
  let d3 := b32_8to5 (chr inb 3) in
  let up_seq := (d1 / 4) mod 8 in
  let up_frag := (d1 mod 4) * 4 + (d2 / 8) mod 4 in
  let dn_seq := d2 mod 8 in
  let dn_frag := d3 / 2 in
  let lastfrag := (d3 mod 2) =? 1 in
  let u1 := process_downstream_ack u (Z.of_N dn_seq) (Z.of_N dn_frag) in
  let ip := u_in u1 in
  let '(u2, upstream_ok) :=
     if (up_seq =? p_seqno ip) && (Z.of_N up_frag <=? p_fragment ip)%Z then (u1, false)
     else if negb (up_seq =? p_seqno ip) && recent_seqno (p_seqno ip) up_seq then (u1, false)
     else if negb (up_seq =? p_seqno ip)
          then (u1 <| u_in := ip <| p_seqno := up_seq |> <| p_fragment := Z.of_N up_frag |> <| p_len := 0 |> <| p_offset := 0 |> |>, true)
          else (u1 <| u_in := ip <| p_fragment := Z.of_N up_frag |> |>, true) in
  let u3 :=
     if upstream_ok then
       let dec := unpack_data (codec_of_id (u_enc u2)) (N.to_nat 65536) (skipn 5 inb) (domain_len - 5) in
       let ip2 := u_in u2 in
       let room := N.to_nat (65536 - p_offset ip2) in
       let piece := firstn room dec in
       u2 <| u_in := ip2 <| p_data := firstn (N.to_nat (p_offset ip2)) (p_data ip2 ++ repeat 0 (N.to_nat (p_offset ip2))) ++ piece |>
                        <| p_len := p_len ip2 + N.of_nat (length piece) |>
                        <| p_offset := p_offset ip2 + N.of_nat (length piece) |> |>
     else u2 in
  let st1 := upd st i (fun _ => u3) in
  let '(st2, o0) := if upstream_ok && lastfrag then handle_full_packet st1 now i else (st1, []) in
  let u4 := getu st2 i in
  let '(u5, o1, didsend1) :=
     if negb (h_id (u_qs u4) =? 0)
     then let '(x, o, again) := send_chunk_or_dataless u4 WQS in (x, o, negb again)
     else (u4, [], false) in
  let '(u6, o2, didsend2) :=
     if negb (h_id (u_q u5) =? 0) then
       if ((0 <? p_len (u_out u5)) && negb didsend1) || (upstream_ok && negb lastfrag && negb didsend1)
          || (negb upstream_ok && negb didsend1) || negb (u_lazy u5)
       then let '(x, o, again) := send_chunk_or_dataless u5 WQ in (x, o, negb again)
       else (u5 <| u_qs := u_q u5 |> <| u_qs_new := true |> <| u_q := (u_q u5) <| h_id := 0 |> |>, [], true)
     else (u5, [], didsend1) in
  let u7 := u6 <| u_q := q |> <| u_last := now |> in
  let '(u8, o3) :=
     if (0 <? p_len (u_out u7)) && negb didsend2
     then let '(x, o, _) := send_chunk_or_dataless u7 WQ in (x, o)
     else if negb didsend2 || negb (u_lazy u7) then
       if upstream_ok && lastfrag
       then (u7 <| u_qs := u_q u7 |> <| u_qs_new := true |> <| u_q := (u_q u7) <| h_id := 0 |> |>, [])
       else let '(x, o, _) := send_chunk_or_dataless u7 WQ in (x, o)
     else (u7, []) in
  (upd st2 i (fun _ => u8), o0 ++ o1 ++ o2 ++ o3)
  end.

(* handle_null_request(tun_fd, dns_fd, dns_fds, q, domain_len); rnd = values rand() would return *)
Definition handle_null_request (c : cfg) (st : sstate) (now : N) (rnd : N) (q : hq) (domain_len : nat)
  : sstate * list out :=
  if (domain_len <? 2)%nat then (st, []) else
  let inb := firstn domain_len (h_name q) in
  let c0 := chr inb 0 in
  let u0dl := u_downenc (getu st 0) in
  let unpacked := unpack_data b32 (N.to_nat 65536) (skipn 1 inb) (domain_len - 1) in
  let read := length unpacked in
  let from := h_from q in
  if is_letter c0 118 then                                          (* V *)
    let version := if (4 <? read)%nat
                   then ((chr unpacked 0 * 256 + chr unpacked 1) * 256 + chr unpacked 2) * 256 + chr unpacked 3 else 0 in
    if version =? src_PROTOCOL_VERSION then
      match find_available_from st now 0 with
      | Some i =>
          let seed := rnd mod 2147483648 in
          let st1 := upd st i (fun u => reset_session (claim now u) q seed) in
          (st1, [mk_answer q ([86;65;67;75] ++ be32b seed ++ [N.of_nat i mod 256]) 84])
      | None => (st, [mk_answer q ([86;70;85;76] ++ be32b (N.of_nat (length st)) ++ [0]) u0dl])
      end
    else (st, [mk_answer q ([86;78;65;75] ++ be32b src_PROTOCOL_VERSION ++ [0]) u0dl])
  else if is_letter c0 108 then                                     (* L *)
    if (read <? 17)%nat then (st, [mk_answer q s_BADLEN 84]) else
    let userid := schar (chr unpacked 0) in
    if check_user_and_ip c st now userid from then (st, [mk_answer q s_BADIP 84]) else
    let i := Z.to_nat userid in
    let st1 := upd st i (fun u => u <| u_last := now |>) in
    let u := getu st1 i in
    if (18 <=? read)%nat && list_eqb (login (c_password c) (u_seed u)) (firstn 16 (skipn 1 unpacked)) then
      let reply := ntoa (c_my_ip c) ++ [45] ++ ntoa (u_tun_ip u) ++ [45] ++ dec_int (c_mtu c) ++ [45] ++ dec_int (c_netmask c) in
      (upd st1 i (fun x => x <| u_auth := true |>), [mk_answer q reply (u_downenc u)])
    else (st1, [mk_answer q s_LNAK 84])
  else if is_letter c0 105 then                                     (* I *)
    let userid := Z.of_N (b32_8to5 (chr inb 1)) in
    if check_auth c st now userid from then (st, [mk_answer q s_BADIP 84]) else
    let ipb := if a_fam from =? AF_INET
               then match c_ns_ip c with
                    | Some ip => firstn 4 ip
                    | None => match h_dest q with Some d => firstn 4 (d ++ [0;0;0;0]) | None => [0;0;0;0] end
                    end
               else repeat 0 16   (* IPv6 destination addresses are not modelled: the harness only supplies
                                     IPv4 destination info, for which the C reads 16 zero bytes here *) in
    (st, [mk_answer q (73 :: ipb) 84])
  else if is_letter c0 122 then                                     (* Z *)
    (st, [mk_answer q inb 84])
  else if is_letter c0 115 then                                     (* S *)
    if (domain_len <? 3)%nat then (st, [mk_answer q s_BADLEN 84]) else
    let userid := Z.of_N (b32_8to5 (chr inb 1)) in
    if check_auth_options c st now userid from then (st, [mk_answer q s_BADIP 84]) else
    let i := Z.to_nat userid in
    let dl := u_downenc (getu st i) in
    let codec := b32_8to5 (chr inb 2) in
    let sw e := (upd st i (fun u => u <| u_enc := e |>), [mk_answer q (codec_name e) dl]) in
    if codec =? 5 then sw 0 else if codec =? 6 then sw 1 else if codec =? 26 then sw 2
    else if codec =? 7 then sw 3 else (st, [mk_answer q s_BADCODEC dl])
  else if is_letter c0 111 then                                     (* O *)
    if (domain_len <? 3)%nat then (st, [mk_answer q s_BADLEN 84]) else
    let userid := Z.of_N (b32_8to5 (chr inb 1)) in
    if check_auth_options c st now userid from then (st, [mk_answer q s_BADIP 84]) else
    let i := Z.to_nat userid in
    let c2 := chr inb 2 in
    let setd l nm := (upd st i (fun u => u <| u_downenc := l |>), [mk_answer q nm l]) in
    let dl := u_downenc (getu st i) in
    if is_letter c2 116 then setd 84 (codec_name 0)
    else if is_letter c2 115 then setd 83 (codec_name 1)
    else if is_letter c2 117 then setd 85 (codec_name 2)
    else if is_letter c2 118 then setd 86 (codec_name 3)
    else if is_letter c2 114 then setd 82 [82;97;119]
    else if is_letter c2 108 then (upd st i (fun u => u <| u_lazy := true |>), [mk_answer q [76;97;122;121] dl])
    else if is_letter c2 105 then (upd st i (fun u => u <| u_lazy := false |>), [mk_answer q [73;109;109;101;100;105;97;116;101] dl])
    else (st, [mk_answer q s_BADCODEC dl])
  else if is_letter c0 121 then                                     (* Y *)
    if (domain_len <? 6)%nat then (st, [mk_answer q s_BADLEN 84]) else
    if negb (b32_8to5 (chr inb 2) =? 1) then (st, [mk_answer q s_BADLEN 84]) else
    let c1 := chr inb 1 in
    let ty := h_type q in
    let chk := src_DOWNCODECCHECK1 in
    if is_letter c1 116 && tunnel_types ty then (st, [mk_answer q chk 84])
    else if is_letter c1 115 && tunnel_types ty then (st, [mk_answer q chk 83])
    else if is_letter c1 117 && tunnel_types ty then (st, [mk_answer q chk 85])
    else if is_letter c1 118 && tunnel_types ty then (st, [mk_answer q chk 86])
    else if is_letter c1 114 && ((ty =? T_NULL) || (ty =? T_TXT)) then (st, [mk_answer q chk 82])
    else (st, [mk_answer q s_BADCODEC 84])
  else if is_letter c0 114 then                                     (* R *)
    if (domain_len <? 16)%nat then (st, [mk_answer q s_BADLEN 84]) else
    let d1 := b32_8to5 (chr inb 1) in
    let userid := Z.of_N ((d1 / 2) mod 16) in
    if check_auth c st now userid from then (st, [mk_answer q s_BADIP 84]) else
    let dl := u_downenc (getu st (Z.to_nat userid)) in
    let req := (d1 mod 2) * 1024 + (b32_8to5 (chr inb 2) mod 32) * 32 + b32_8to5 (chr inb 3) mod 32 in
    if (req <? 2) || (2047 <? req) then (st, [mk_answer q s_BADFRAG dl])
    else (st, [mk_answer q (probe_reply req (rnd mod 256)) dl])
  else if is_letter c0 110 then                                     (* N *)
    if (read <? 3)%nat then (st, [mk_answer q s_BADLEN 84]) else
    let userid := schar (chr unpacked 0) in
    if check_auth_options c st now userid from then (st, [mk_answer q s_BADIP 84]) else
    let i := Z.to_nat userid in
    let dl := u_downenc (getu st i) in
    let mfs := chr unpacked 1 * 256 + chr unpacked 2 in
    if mfs <? 2 then (st, [mk_answer q s_BADFRAG dl])
    else (upd st i (fun u => u <| u_cache := map (fun e => {| ce_name := ce_name e; ce_type := ce_type e; ce_id := 0;
                                                                ce_answer := ce_answer e; ce_len := 0 |}) (u_cache u) |>
                                 <| u_fragsize := mfs |> <| u_locked := true |>),
          [mk_answer q [chr unpacked 1; chr unpacked 2] dl])
  else if is_letter c0 112 then                                     (* P *)
    if h_id q =? 0 then (st, []) else
    if (read <? 4)%nat then (st, []) else
    handle_ping c st now q unpacked
  else if ((48 <=? c0) && (c0 <=? 57)) || ((97 <=? c0) && (c0 <=? 102)) || ((65 <=? c0) && (c0 <=? 70)) then
    if (domain_len <? 6)%nat then (st, []) else
    if h_id q =? 0 then (st, []) else
    handle_data c st now q inb domain_len
  else (st, []).

(* ---- tunnel_dns: dispatch of a decoded query ---------------------------------------------- *)

Definition to_query (q : hq) : query := {| q_name := h_name q; q_type := h_type q; q_id := h_id q |}.

Definition tunnel_dns (c : cfg) (st : sstate) (now : N) (rnd : N) (q : hq) : sstate * list out :=
  match query_datalen (h_name q) (c_topdomain c) with
  | Some dl =>
      let ty := h_type q in
      match aux_answer (to_query q) dl (h_dest q) (c_ns_ip c) with
      | Some bytes =>
          (* the ns./www. A cases and NS; aux_answer = None for a non-matching A query *)
          (st, [OAux (h_from q) bytes])
      | None =>
          let n := h_name q in
          let is_ns_a := (dl =? 3)%nat && (ty =? T_A) && is_letter (chr n 0) 110 && is_letter (chr n 1) 115 && (chr n 2 =? DOT) in
          let is_www_a := (dl =? 4)%nat && (ty =? T_A) && is_letter (chr n 0) 119 && is_letter (chr n 1) 119
                          && is_letter (chr n 2) 119 && (chr n 3 =? DOT) in
          if is_ns_a || is_www_a || (ty =? T_NS) then (st, [])     (* encoder refused: nothing sent *)
          else if (ty =? T_NULL) || (ty =? T_PRIVATE) || (ty =? T_CNAME) || (ty =? T_A) || (ty =? T_MX)
                  || (ty =? T_SRV) || (ty =? T_TXT)
          then handle_null_request c st now rnd q dl
          else (st, [])
      end
  | None => if c_bind c then (st, [OForward q]) else (st, [])
  end.

(* ---- tunnel_tun: a packet read from the tun device ----------------------------------------- *)

Definition tunnel_tun (st : sstate) (now : N) (inpkt : list N) : sstate * list out :=
  match inpkt with
  | [] => (st, [])
  | _ =>
    if (length inpkt <? 24)%nat then (st, []) else
    match find_user_by_ip st (le32_at inpkt 20) now with
    | None => (st, [])
    | Some t =>
        let outb := zc inpkt in
        let ut := getu st t in
        match u_conn ut with
        | CONN_DNS =>
            if 0 <? p_len (u_out ut) then (upd st t (fun x => fst (save_to_outpacketq x outb)), [])
            else send_held (upd st t (fun x => start_new_outpacket x outb)) t
        | CONN_RAW => (st, [ORaw (h_from (u_q ut)) (raw_frame src_RAW_HDR_CMD_DATA t outb)])
        end
    end
  end.

(* ---- raw mode -------------------------------------------------------------------------------- *)

Definition wrap32 (z : Z) : N := Z.to_N (z mod 4294967296)%Z.

Definition handle_raw_login (c : cfg) (st : sstate) (now : N) (payload : list N) (q : hq) (userid : nat) : sstate * list out :=
  if (length payload <? 16)%nat then (st, []) else
  if (length st <=? userid)%nat then (st, []) else
  let u := getu st userid in
  if negb (u_active u) || u_disabled u then (st, []) else
  if negb (u_auth u) then (st, []) else
  if u_last u + TIMEOUT <? now then (st, []) else
  if list_eqb (firstn 16 payload) (login (c_password c) (wrap32 (Z.of_N (u_seed u) + 1))) then
    let st1 := upd st userid (fun x => x <| u_last := now |> <| u_q := q |> <| u_host := h_from q |>
                                          <| u_conn := CONN_RAW |> <| u_auth_raw := true |>) in
    (st1, [ORaw (h_from q) (raw_frame src_RAW_HDR_CMD_LOGIN userid (login (c_password c) (wrap32 (Z.of_N (u_seed u) - 1))))])
  else (st, []).

Definition handle_raw_data (c : cfg) (st : sstate) (now : N) (payload : list N) (q : hq) (userid : nat) : sstate * list out :=
  if check_auth c st now (Z.of_nat userid) (h_from q) then (st, []) else
  if negb (u_auth_raw (getu st userid)) then (st, []) else
  let st1 := upd st userid (fun x => x <| u_last := now |> <| u_q := q |>
                 <| u_in := (u_in x) <| p_offset := 0 |> <| p_data := payload |> <| p_len := N.of_nat (length payload) |> |>) in
  handle_full_packet st1 now userid.

Definition handle_raw_ping (c : cfg) (st : sstate) (now : N) (q : hq) (userid : nat) : sstate * list out :=
  if check_auth c st now (Z.of_nat userid) (h_from q) then (st, []) else
  if negb (u_auth_raw (getu st userid)) then (st, []) else
  (upd st userid (fun x => x <| u_last := now |> <| u_q := q |>),
   [ORaw (h_from q) (raw_frame src_RAW_HDR_CMD_PING userid [])]).

(* raw_decode(packet, len, q, ...): None = not a raw frame (continue with DNS decoding) *)
Definition raw_decode (c : cfg) (st : sstate) (now : N) (packet : list N) (from : addr) : option (sstate * list out) :=
  if (length packet <? 4)%nat then None else
  if negb (list_eqb (firstn 3 packet) (firstn 3 src_raw_header)) then None else
  let b := chr packet 3 in
  let userid := N.to_nat (N.land b src_RAW_HDR_USR_MASK) in
  let cmd := N.land b src_RAW_HDR_CMD_MASK in
  let q := hq0 <| h_from := from |> in
  let payload := skipn 4 packet in
  Some (if cmd =? src_RAW_HDR_CMD_LOGIN then handle_raw_login c st now payload q userid
        else if cmd =? src_RAW_HDR_CMD_DATA then handle_raw_data c st now payload q userid
        else if cmd =? src_RAW_HDR_CMD_PING then handle_raw_ping c st now q userid
        else (st, [])).

(* ---- the send-real-soon sweep of tunnel() ---------------------------------------------------- *)

Definition sweep_clear (st : sstate) (now : N) : sstate :=
  map (fun u => if u_active u && negb (u_disabled u) && live now u then u <| u_qs_new := false |> else u) st.

Fixpoint sweep_send (n : nat) (i : nat) (st : sstate) (now : N) (acc : list out) : sstate * list out :=
  match n with
  | O => (st, acc)
  | S n' =>
      let u := getu st i in
      if u_active u && negb (u_disabled u) && live now u && negb (h_id (u_qs u) =? 0)
         && (match u_conn u with CONN_DNS => true | CONN_RAW => false end) && negb (u_qs_new u)
      then let '(u', o, _) := send_chunk_or_dataless u WQS in
           sweep_send n' (S i) (upd st i (fun _ => u')) now (acc ++ o)
      else sweep_send n' (S i) st now acc
  end.

(* ---- events ---------------------------------------------------------------------------------- *)

Inductive event :=
| EDns (now rnd : N) (q : hq)                 (* a decoded DNS query *)
| ERaw (now : N) (from : addr) (packet : list N)
| ETun (now : N) (packet : list N)
| ESweepClear (now : N)                       (* top of the select loop *)
| ESweepSend (now : N).                       (* bottom of the select loop *)

Definition step (c : cfg) (st : sstate) (e : event) : sstate * list out :=
  match e with
  | EDns now rnd q => tunnel_dns c st now rnd q
  | ERaw now from packet => match raw_decode c st now packet from with Some r => r | None => (st, []) end
  | ETun now packet => tunnel_tun st now packet
  | ESweepClear now => (sweep_clear st now, [])
  | ESweepSend now => sweep_send (length st) 0 st now []
  end.

End WithOracles.

(* ---- datagram level: read_dns + tunnel_dns ---------------------------------------------------- *)
Section Datagram.
Variable login : list N -> N -> list N.
Variable zc : list N -> list N.
Variable unz : list N -> option (list N).

(* a datagram received on the DNS socket: raw frame, or DNS query, or dropped *)
Definition recv_datagram (c : cfg) (st : sstate) (now rnd : N) (from : addr) (dest : option (list N))
           (packet : list N) : sstate * list out :=
  match packet with
  | [] => (st, [])
  | _ =>
    match raw_decode login unz c st now packet from with
    | Some r => r
    | None =>
        let r := dns_decode_query packet (length packet) in
        match dq_q r with
        | Some q =>
            if (0 <? dq_rv r)%Z
            then tunnel_dns login unz c st now rnd
                   {| h_name := q_name q; h_type := q_type q; h_id := q_id q; h_from := from;
                      h_id2 := 0; h_from2 := addr0; h_dest := dest |}
            else (st, [])
        | None => (st, [])
        end
    end
  end.
End Datagram.

(* framing "compression" used by the correspondence run (the harness wraps compress2/uncompress
   with the same functions): 0x5A marker byte + data *)
Definition zc_frame (p : list N) : list N := 90 :: p.
Definition unz_frame (b : list N) : option (list N) :=
  match b with
  | 90 :: p => if (length p <=? N.to_nat 65536)%nat then Some p else None
  | _ => None
  end.

(* stand-in for login_calculate in the correspondence run of the dispatcher (the real function is
   tied to its model by C19); the harness wraps login_calculate with the same function *)
Definition login_stub (pass : list N) (seed : N) : list N :=
  map (fun i => (nth i pass 0 + ((seed / 256 ^ (N.of_nat (i mod 4))) mod 256) * N.of_nat (S i)) mod 256) (seq 0 16).

Definition init_state (tun_ips : list N) : sstate := map user_init tun_ips.
