(* LoginProofs.v -- lemmas about Login.v: the word-wise loop of login_calculate equals the
   byte-wise documented formula; the block is injective in the padded password and in the
   challenge; raw-login seeds wrap modulo 2^32; server/client raw login agree. *)
From Coq Require Import List NArith Arith Bool Lia ZArith ZifyBool ZifyNat ZifyN.
From Iodine Require Import Base Generated.SrcConsts Md5 Login.
Import ListNotations.
Local Open Scope N_scope.

Ltac Zify.zify_post_hook ::= Z.div_mod_to_equations.

(* --- source constants the statements depend on ------------------------------------------ *)
Lemma src_login_copy_32 : src_LOGIN_COPY = 32.
Proof. reflexivity. Qed.
Lemma src_login_words_8 : src_LOGIN_WORDS = 8.
Proof. reflexivity. Qed.
Lemma src_login_md5_len_32 : src_LOGIN_MD5_LEN = 32.
Proof. reflexivity. Qed.

(* --- padn -------------------------------------------------------------------------------- *)
Lemma padn_length n p : length (padn n p) = n.
Proof. unfold padn. rewrite firstn_length, app_length, repeat_length. lia. Qed.

Lemma Forall_firstn_ {A} (P : A -> Prop) n l : Forall P l -> Forall P (firstn n l).
Proof.
  revert l. induction n as [|n IH]; intros l H; [constructor|].
  destruct l as [|x l]; [constructor|]. inversion H; subst. simpl. constructor; auto.
Qed.

Lemma padn_bytes_ok n p : bytes_ok p -> bytes_ok (padn n p).
Proof.
  intros H. unfold padn, bytes_ok. apply Forall_firstn_, Forall_app. split; [exact H|].
  apply Forall_forall. intros x Hx. apply repeat_spec in Hx. subst. unfold byte_ok. lia.
Qed.

Lemma padn_long n p : (n <= length p)%nat -> padn n p = firstn n p.
Proof.
  intros H. unfold padn. rewrite firstn_app.
  replace (n - length p)%nat with 0%nat by lia. simpl. apply app_nil_r.
Qed.

(* appending anything to a password of at least n bytes does not change the padded buffer *)
Lemma padn_app_long n p q : (n <= length p)%nat -> padn n (p ++ q) = padn n p.
Proof.
  intros H. rewrite (padn_long n p H), padn_long by (rewrite app_length; lia).
  rewrite firstn_app. replace (n - length p)%nat with 0%nat by lia. simpl. apply app_nil_r.
Qed.

Lemma firstn_repeat0 k m : (k <= m)%nat -> firstn k (repeat 0 m) = repeat 0 k.
Proof.
  revert m. induction k as [|k IH]; intros m H; [reflexivity|].
  destruct m as [|m]; [lia|]. simpl. f_equal. apply IH. lia.
Qed.

Lemma firstn_app_zeros : forall (p : list N) k m m',
  (k <= length p + m)%nat -> (k <= length p + m')%nat ->
  firstn k (p ++ repeat 0 m) = firstn k (p ++ repeat 0 m').
Proof.
  induction p as [|x p IH]; intros k m m' H H'; simpl in *.
  - rewrite !firstn_repeat0 by lia. reflexivity.
  - destruct k as [|k]; [reflexivity|]. simpl. f_equal. apply IH; lia.
Qed.

(* explicit zero bytes after the password are the same as the zero fill of the buffer *)
Lemma padn_app_zeros n p k : padn n (p ++ repeat 0 k) = padn n p.
Proof.
  unfold padn. rewrite <- app_assoc, <- repeat_app. apply firstn_app_zeros; lia.
Qed.

(* --- bytes of a xor ---------------------------------------------------------------------- *)
Lemma lxor_byte a b n :
  (N.lxor a b / 2 ^ n) mod 2 ^ 8 = N.lxor ((a / 2 ^ n) mod 2 ^ 8) ((b / 2 ^ n) mod 2 ^ 8).
Proof.
  rewrite <- !N.shiftr_div_pow2, <- !N.land_ones, N.shiftr_lxor.
  apply N.bits_inj. intros i.
  rewrite !N.lxor_spec, !N.land_spec, !N.lxor_spec.
  destruct (N.testbit (N.shiftr a n) i), (N.testbit (N.shiftr b n) i), (N.testbit (N.ones 8) i);
    reflexivity.
Qed.

Lemma lxor_byte0 a b : N.lxor a b mod 256 = N.lxor (a mod 256) (b mod 256).
Proof.
  pose proof (lxor_byte a b 0) as H. change (2 ^ 0) with 1 in H. change (2 ^ 8) with 256 in H.
  rewrite !N.div_1_r in H. exact H.
Qed.
Lemma lxor_byte1 a b : (N.lxor a b / 256) mod 256 = N.lxor ((a / 256) mod 256) ((b / 256) mod 256).
Proof. exact (lxor_byte a b 8). Qed.
Lemma lxor_byte2 a b :
  (N.lxor a b / 65536) mod 256 = N.lxor ((a / 65536) mod 256) ((b / 65536) mod 256).
Proof. exact (lxor_byte a b 16). Qed.
Lemma lxor_byte3 a b :
  (N.lxor a b / 16777216) mod 256 = N.lxor ((a / 16777216) mod 256) ((b / 16777216) mod 256).
Proof. exact (lxor_byte a b 24). Qed.

(* --- one word of the loop ------------------------------------------------------------------ *)
Lemma bswap_le32 b0 b1 b2 b3 :
  b0 < 256 -> b1 < 256 -> b2 < 256 -> b3 < 256 ->
  bswap32 (le32 b0 b1 b2 b3) = le32 b3 b2 b1 b0.
Proof. intros H0 H1 H2 H3. unfold bswap32, le32. lia. Qed.

Lemma bytes_le32_bswap x :
  bytes_le32 (bswap32 x) =
  [(x / 16777216) mod 256; (x / 65536) mod 256; (x / 256) mod 256; x mod 256].
Proof.
  unfold bytes_le32, bswap32.
  remember (x mod 256) as x0 eqn:E0. remember ((x / 256) mod 256) as x1 eqn:E1.
  remember ((x / 65536) mod 256) as x2 eqn:E2. remember ((x / 16777216) mod 256) as x3 eqn:E3.
  assert (x0 < 256) by (subst; apply N.mod_lt; discriminate).
  assert (x1 < 256) by (subst; apply N.mod_lt; discriminate).
  assert (x2 < 256) by (subst; apply N.mod_lt; discriminate).
  assert (x3 < 256) by (subst; apply N.mod_lt; discriminate).
  clear E0 E1 E2 E3.
  repeat f_equal; lia.
Qed.

Lemma le32_bytes b0 b1 b2 b3 :
  b0 < 256 -> b1 < 256 -> b2 < 256 -> b3 < 256 ->
  (le32 b3 b2 b1 b0 / 16777216) mod 256 = b0 /\ (le32 b3 b2 b1 b0 / 65536) mod 256 = b1 /\
  (le32 b3 b2 b1 b0 / 256) mod 256 = b2 /\ le32 b3 b2 b1 b0 mod 256 = b3.
Proof. intros H0 H1 H2 H3. unfold le32. repeat split; lia. Qed.

Lemma mod32_byte3 s : ((s mod 4294967296) / 16777216) mod 256 = (s / 16777216) mod 256.
Proof. lia. Qed.
Lemma mod32_byte2 s : ((s mod 4294967296) / 65536) mod 256 = (s / 65536) mod 256.
Proof. lia. Qed.
Lemma mod32_byte1 s : ((s mod 4294967296) / 256) mod 256 = (s / 256) mod 256.
Proof. lia. Qed.
Lemma mod32_byte0 s : (s mod 4294967296) mod 256 = s mod 256.
Proof. lia. Qed.

Lemma be32_mod s : be32 (s mod M32) = be32 s.
Proof.
  unfold be32, M32. rewrite mod32_byte3, mod32_byte2, mod32_byte1, mod32_byte0. reflexivity.
Qed.

Lemma word_xor b0 b1 b2 b3 s :
  b0 < 256 -> b1 < 256 -> b2 < 256 -> b3 < 256 ->
  bytes_le32 (htonl (N.lxor (ntohl (le32 b0 b1 b2 b3)) (s mod M32))) =
  map2 N.lxor [b0; b1; b2; b3] (be32 s).
Proof.
  intros H0 H1 H2 H3. unfold htonl, ntohl.
  rewrite bswap_le32 by assumption. rewrite bytes_le32_bswap.
  rewrite lxor_byte0, lxor_byte1, lxor_byte2, lxor_byte3.
  destruct (le32_bytes b0 b1 b2 b3 H0 H1 H2 H3) as [E0 [E1 [E2 E3]]].
  rewrite E0, E1, E2, E3. rewrite <- (be32_mod s). reflexivity.
Qed.

(* --- the whole loop --------------------------------------------------------------------- *)
Lemma map2_app {A B C} (f : A -> B -> C) l1 l1' l2 l2' :
  length l1 = length l2 -> map2 f (l1 ++ l1') (l2 ++ l2') = map2 f l1 l2 ++ map2 f l1' l2'.
Proof.
  revert l2. induction l1 as [|a l1 IH]; intros [|b l2] H; simpl in *; try discriminate; [reflexivity|].
  f_equal. apply IH. lia.
Qed.

Lemma xor_words_spec n : forall buf s,
  length buf = (4 * n)%nat -> bytes_ok buf ->
  xor_words n buf s = map2 N.lxor buf (concat (repeat (be32 s) n)).
Proof.
  induction n as [|n IH]; intros buf s Hl Hb.
  - destruct buf; [reflexivity|discriminate].
  - destruct buf as [|b0 [|b1 [|b2 [|b3 rest]]]]; try (simpl in Hl; lia).
    inversion Hb as [|? ? B0 Hb1]; subst. inversion Hb1 as [|? ? B1 Hb2]; subst.
    inversion Hb2 as [|? ? B2 Hb3]; subst. inversion Hb3 as [|? ? B3 Hb4]; subst.
    unfold byte_ok in *.
    cbn [xor_words repeat concat].
    rewrite word_xor by assumption.
    rewrite IH; [|simpl in Hl; lia|exact Hb4].
    change (b0 :: b1 :: b2 :: b3 :: rest) with ([b0; b1; b2; b3] ++ rest).
    rewrite map2_app by reflexivity. reflexivity.
Qed.

Lemma map2_length {A B C} (f : A -> B -> C) l1 l2 :
  length l1 = length l2 -> length (map2 f l1 l2) = length l1.
Proof.
  revert l2. induction l1 as [|a l1 IH]; intros [|b l2] H; simpl in *; try discriminate; [reflexivity|].
  f_equal. apply IH. lia.
Qed.

Lemma rep8_length s : length (rep8 (be32 s)) = 32%nat.
Proof. reflexivity. Qed.

(* login_calculate hashes exactly the documented block *)
Lemma login_block_doc p s : bytes_ok p -> login_block p s = doc_block p s.
Proof.
  intros Hp. unfold login_block, doc_block, pad32, rep8.
  rewrite src_login_copy_32, src_login_words_8, src_login_md5_len_32.
  change (N.to_nat 32) with 32%nat. change (N.to_nat 8) with 8%nat.
  rewrite xor_words_spec; [|rewrite padn_length; reflexivity|apply padn_bytes_ok, Hp].
  apply firstn_all2. rewrite map2_length; rewrite padn_length; reflexivity.
Qed.

Lemma login_block_pad p1 p2 s : pad32 p1 = pad32 p2 -> login_block p1 s = login_block p2 s.
Proof.
  unfold login_block, pad32. rewrite src_login_copy_32. change (N.to_nat 32) with 32%nat.
  intros ->. reflexivity.
Qed.

(* --- injectivity -------------------------------------------------------------------------- *)
Lemma lxor_cancel_r a b c : N.lxor a c = N.lxor b c -> a = b.
Proof.
  intros H. apply (f_equal (fun x => N.lxor x c)) in H.
  rewrite !N.lxor_assoc, N.lxor_nilpotent, !N.lxor_0_r in H. exact H.
Qed.

Lemma map2_lxor_inj_l : forall a b c,
  length a = length c -> length b = length c ->
  map2 N.lxor a c = map2 N.lxor b c -> a = b.
Proof.
  induction a as [|x a IH]; intros [|y b] [|z c] Ha Hb H; simpl in *; try discriminate; [reflexivity|].
  injection H as H1 H2. apply lxor_cancel_r in H1. subst. f_equal. apply (IH b c); [lia|lia|exact H2].
Qed.

Lemma map2_lxor_inj_r : forall a c d,
  length c = length a -> length d = length a ->
  map2 N.lxor a c = map2 N.lxor a d -> c = d.
Proof.
  induction a as [|x a IH]; intros [|y c] [|z d] Hc Hd H; simpl in *; try discriminate; [reflexivity|].
  injection H as H1 H2. rewrite (N.lxor_comm x y), (N.lxor_comm x z) in H1.
  apply lxor_cancel_r in H1. subst. f_equal. apply IH; [lia|lia|exact H2].
Qed.

Lemma be32_sum s : s < M32 ->
  s = 16777216 * ((s / 16777216) mod 256) + 65536 * ((s / 65536) mod 256)
      + 256 * ((s / 256) mod 256) + s mod 256.
Proof. unfold M32. intros H. lia. Qed.

Lemma be32_inj s1 s2 : s1 < M32 -> s2 < M32 -> be32 s1 = be32 s2 -> s1 = s2.
Proof.
  unfold be32. intros H1 H2 H. injection H as E3 E2 E1 E0.
  rewrite (be32_sum s1 H1), (be32_sum s2 H2), E3, E2, E1, E0. reflexivity.
Qed.

Lemma doc_block_inj_pad p1 p2 s : doc_block p1 s = doc_block p2 s -> pad32 p1 = pad32 p2.
Proof.
  unfold doc_block. intros H.
  apply (map2_lxor_inj_l _ _ (rep8 (be32 s))); [| |exact H];
    unfold pad32; rewrite padn_length; reflexivity.
Qed.

Lemma doc_block_inj_seed p s1 s2 : s1 < M32 -> s2 < M32 ->
  doc_block p s1 = doc_block p s2 -> s1 = s2.
Proof.
  unfold doc_block. intros H1 H2 H.
  apply map2_lxor_inj_r in H; [| unfold pad32; rewrite padn_length; reflexivity ..].
  apply be32_inj; [exact H1|exact H2|].
  unfold rep8 in H. cbn [repeat concat] in H.
  apply (f_equal (firstn 4)) in H. exact H.
Qed.

(* byte i of the block depends on byte i of the padded password and byte (i mod 4) of the
   challenge only *)
Lemma doc_block_nth p s i : (i < 32)%nat ->
  nth i (doc_block p s) 0 = N.lxor (nth i (pad32 p) 0) (nth (i mod 4) (be32 s) 0).
Proof.
  intros Hi. unfold doc_block.
  pose proof (padn_length 32 p) as Hl. fold (pad32 p) in Hl.
  remember (pad32 p) as q eqn:Eq. clear Eq.
  do 32 (destruct q as [|? q]; [discriminate Hl|]). destruct q; [|discriminate Hl].
  do 32 (destruct i as [|i]; [reflexivity|]). lia.
Qed.

(* --- md5 output length, byte-list equality -------------------------------------------------- *)
Lemma md5_length m : length (md5 m) = 16%nat.
Proof.
  unfold md5. destruct (md5_blocks _ _ _) as [[[a b] c] d]. reflexivity.
Qed.

Lemma bytes_eqb_refl l : bytes_eqb l l = true.
Proof. induction l as [|a l IH]; [reflexivity|]. simpl. rewrite N.eqb_refl. exact IH. Qed.

Lemma bytes_eqb_eq : forall l1 l2, bytes_eqb l1 l2 = true -> l1 = l2.
Proof.
  induction l1 as [|a l1 IH]; intros [|b l2] H; simpl in H; try discriminate; [reflexivity|].
  apply andb_true_iff in H. destruct H as [H1 H2]. apply N.eqb_eq in H1. subst. f_equal. apply IH, H2.
Qed.

(* --- raw login ---------------------------------------------------------------------------- *)
Lemma seed_succ_spec s : s < M32 ->
  seed_succ s = (if s =? M32 - 1 then 0 else s + 1) /\ seed_succ s < M32.
Proof.
  unfold seed_succ, M32. intros H. destruct (N.eqb_spec s (4294967296 - 1)); split; lia.
Qed.

Lemma seed_pred_spec s : s < M32 ->
  seed_pred s = (if s =? 0 then M32 - 1 else s - 1) /\ seed_pred s < M32.
Proof.
  unfold seed_pred, M32. intros H. destruct (N.eqb_spec s 0); split; lia.
Qed.

Lemma seed_succ_pred s : s < M32 -> seed_pred (seed_succ s) = s /\ seed_succ (seed_pred s) = s.
Proof. unfold seed_succ, seed_pred, M32. intros H. split; lia. Qed.

Lemma raw_server_accepts p s : raw_server p s (raw_login_up p s) = Some (raw_login_down p s).
Proof.
  unfold raw_server, raw_login_up, login_calculate.
  rewrite md5_length. simpl (16 <? 16)%nat. cbv iota.
  rewrite firstn_all2 by (rewrite md5_length; lia). rewrite bytes_eqb_refl. reflexivity.
Qed.

Lemma raw_server_exact p s pkt r :
  raw_server p s pkt = Some r -> firstn 16 pkt = raw_login_up p s /\ r = raw_login_down p s.
Proof.
  unfold raw_server. destruct (length pkt <? 16)%nat; [discriminate|].
  destruct (bytes_eqb (firstn 16 pkt) (raw_login_up p s)) eqn:E; [|discriminate].
  intros H. injection H as <-. split; [apply bytes_eqb_eq, E|reflexivity].
Qed.

Lemma raw_client_accepts_down p s : raw_client_accepts p s (raw_login_down p s) = true.
Proof.
  unfold raw_client_accepts, raw_login_down, login_calculate.
  rewrite firstn_all2 by (rewrite md5_length; lia). apply bytes_eqb_refl.
Qed.

Lemma raw_client_exact p s h :
  raw_client_accepts p s h = true -> firstn 16 h = raw_login_down p s.
Proof. unfold raw_client_accepts. apply bytes_eqb_eq. Qed.
