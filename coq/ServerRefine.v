(* ServerRefine.v -- every step of the dispatcher model (Server.step) decomposes into a sequence of
   micro-steps of six kinds:
     frame    : a change that leaves the rings and the fragment size of every session alone
                (and keeps "held queries belong to their session");
     ctl      : control outputs (answers to non ping/data requests, BADIP, the illegal "x", raw
                frames, tun writes, forwards, auxiliary answers);
     emit     : one call of send_chunk_or_dataless on a held query (logged);
     replay   : an answer from the dnscache, state unchanged;
     naccept  : an accepted N request (cache of that session cleared, fragsize set);
     vreset   : the V handler's reset of a claimed session.
   A step is either of "data kind" (frame/ctl/emit/replay only: no fragsize changes) or of
   "configuration kind" (frame/ctl/naccept/vreset only: no tunnel data is answered).
   The invariants of C15 and the ring-evolution facts of C16 are then proved per micro-step. *)
From Coq Require Import List NArith ZArith Arith Bool Lia.
From RecordUpdate Require Import RecordUpdate.
From Iodine Require Import Generated.SrcConsts Base Codec Hostname DnsName DnsMsg Domain Server ServerRings.
Import ListNotations.
Local Open Scope N_scope.

(* ---- which requests are ping / data requests, and whose ---------------------------------------- *)

Definition hex_letter (c0 : N) : bool :=
  ((48 <=? c0) && (c0 <=? 57)) || ((97 <=? c0) && (c0 <=? 102)) || ((65 <=? c0) && (c0 <=? 70)).
Definition pd_letter (c0 : N) : bool := is_letter c0 112 || hex_letter c0.

Definition hex_code (c0 : N) : N :=
  if (48 <=? c0) && (c0 <=? 57) then c0 - 48 else if (97 <=? c0) && (c0 <=? 102) then c0 - 87 else c0 - 55.

(* the session a ping / data request names (as the handlers compute it) *)
Definition nslot (c : cfg) (nm : list N) : option nat :=
  match query_datalen nm (c_topdomain c) with
  | None => None
  | Some dl =>
      let inb := firstn dl nm in
      let c0 := chr inb 0 in
      if is_letter c0 112
      then Some (Z.to_nat (schar (chr (unpack_data b32 (N.to_nat 65536) (skipn 1 inb) (dl - 1)) 0)))
      else if hex_letter c0 then Some (N.to_nat (hex_code c0)) else None
  end.

(* control outputs: everything that is not an answer to a ping/data request, plus BADIP and "x" *)
Definition is_control (o : out) : Prop :=
  match o with
  | OAnswer q _ _ data _ => pd_letter (chr (h_name q) 0) = false \/ data = s_BADIP \/ data = [120]
  | _ => True
  end.

(* held queries of session i name session i *)
Definition held_ok (c : cfg) (i : nat) (u : suser) : Prop :=
  (h_id (u_q u) <> 0 -> nslot c (h_name (u_q u)) = Some i) /\
  (h_id (u_qs u) <> 0 -> nslot c (h_name (u_qs u)) = Some i).

Definition uframe (c : cfg) (i : nat) (u u' : suser) : Prop :=
  rview u' = rview u /\ (held_ok c i u -> held_ok c i u').

Lemma uframe_refl c i u : uframe c i u u.
Proof. split; [reflexivity|tauto]. Qed.

Lemma uframe_trans c i u u' u'' : uframe c i u u' -> uframe c i u' u'' -> uframe c i u u''.
Proof. intros [A B] [C D]. split; [rewrite C; exact A|tauto]. Qed.

Lemma uframe_okey c i u u' : okey u' = okey u -> uframe c i u u'.
Proof.
  intros H. split; [apply rview_okey, H|].
  unfold held_ok. rewrite (okey_proj u_q u u'), (okey_proj u_qs u u') by (reflexivity || exact H). tauto.
Qed.

Definition n_accept (mfs : N) (u : suser) : suser :=
  u <| u_cache := map (fun e => {| ce_name := ce_name e; ce_type := ce_type e; ce_id := 0;
                                    ce_answer := ce_answer e; ce_len := 0 |}) (u_cache u) |>
    <| u_fragsize := mfs |> <| u_locked := true |>.

Inductive logitem :=
| LEmit (i : nat) (u : suser) (w : which_q)     (* send_chunk_or_dataless u w for session i *)
| LNacc (i : nat) (mfs : N)                     (* accepted N for session i *)
| LVreset (i : nat).                            (* session i claimed and reset by V *)

Inductive mstep (c : cfg) (k : bool) : sstate -> list out -> list logitem -> sstate -> Prop :=
| ms_frame st st' :
    length st' = length st -> (forall i, uframe c i (getu st i) (getu st' i)) -> mstep c k st [] [] st'
| ms_ctl st o : Forall is_control o -> mstep c k st o [] st
| ms_emit st i w u' o ag :
    k = true -> (i < length st)%nat -> h_id (getq (getu st i) w) <> 0 ->
    send_chunk_or_dataless (getu st i) w = (u', o, ag) ->
    mstep c k st o [LEmit i (getu st i) w] (upd st i (fun _ => u'))
| ms_replay st i q e :
    k = true -> (i < length st)%nat -> nslot c (h_name q) = Some i ->
    answer_from_dnscache (getu st i) (h_name q) (h_type q) = Some e ->
    mstep c k st [mk_answer q (firstn (N.to_nat (ce_len e)) (ce_answer e)) (u_downenc (getu st i))] [] st
| ms_naccept st i mfs :
    k = false -> 2 <= mfs -> mfs < 65536 -> mstep c k st [] [LNacc i mfs] (upd st i (n_accept mfs))
| ms_vreset st i now q seed :
    k = false -> mstep c k st [] [LVreset i] (upd st i (fun u => reset_session (claim now u) q seed)).

Inductive msteps (c : cfg) (k : bool) : sstate -> list out -> list logitem -> sstate -> Prop :=
| mss_nil st : msteps c k st [] [] st
| mss_cons st o1 l1 st1 o2 l2 st2 :
    mstep c k st o1 l1 st1 -> msteps c k st1 o2 l2 st2 -> msteps c k st (o1 ++ o2) (l1 ++ l2) st2.

Lemma msteps_one c k st o l st' : mstep c k st o l st' -> msteps c k st o l st'.
Proof. intros H. rewrite <- (app_nil_r o), <- (app_nil_r l). eapply mss_cons; [exact H|apply mss_nil]. Qed.

Lemma msteps_trans c k st o1 l1 st1 o2 l2 st2 :
  msteps c k st o1 l1 st1 -> msteps c k st1 o2 l2 st2 -> msteps c k st (o1 ++ o2) (l1 ++ l2) st2.
Proof.
  intros H. revert o2 l2 st2. induction H as [st|st oa la sta ob lb stb Ha Hb IH]; intros o2 l2 st2 H2.
  - exact H2.
  - rewrite <- !app_assoc. eapply mss_cons; [exact Ha|]. apply IH, H2.
Qed.

Lemma msteps_length c k st o l st' : msteps c k st o l st' -> length st' = length st.
Proof.
  intros H. induction H as [st|st oa la sta ob lb stb Ha Hb IH]; [reflexivity|].
  rewrite IH. destruct Ha; try reflexivity; try assumption; apply upd_length.
Qed.

(* a step refines to micro-steps of kind k *)
Definition refines (c : cfg) (k : bool) (st : sstate) (r : sstate * list out) : Prop :=
  exists l, msteps c k st (snd r) l (fst r).

Lemma refines_nil c k st : refines c k st (st, []).
Proof. exists []. apply mss_nil. Qed.

Lemma refines_ctl c k st o : Forall is_control o -> refines c k st (st, o).
Proof. intros H. exists []. apply msteps_one, ms_ctl, H. Qed.

Lemma refines_trans c k st st1 o1 r :
  refines c k st (st1, o1) -> refines c k st1 r -> refines c k st (fst r, o1 ++ snd r).
Proof. intros [l1 H1] [l2 H2]. exists (l1 ++ l2). simpl in *. eapply msteps_trans; eassumption. Qed.

Lemma refines_trans' c k st st1 o1 st2 o2 :
  refines c k st (st1, o1) -> refines c k st1 (st2, o2) -> refines c k st (st2, o1 ++ o2).
Proof. intros H1 H2. exact (refines_trans c k st st1 o1 (st2, o2) H1 H2). Qed.

Lemma frame_upd c k st i f :
  uframe c i (getu st i) (f (getu st i)) -> mstep c k st [] [] (upd st i f).
Proof.
  intros H. apply ms_frame; [apply upd_length|].
  intros j. rewrite getu_upd. destruct ((i =? j)%nat && (i <? length st)%nat) eqn:E; [|apply uframe_refl].
  apply andb_prop in E. destruct E as [E _]. apply Nat.eqb_eq in E. subst j. exact H.
Qed.

Lemma refines_frame_upd c k st i f o :
  uframe c i (getu st i) (f (getu st i)) -> Forall is_control o -> refines c k st (upd st i f, o).
Proof.
  intros H Ho. exists ([] ++ []). change o with ([] ++ o). eapply mss_cons; [apply frame_upd, H|].
  apply msteps_one, ms_ctl, Ho.
Qed.

(* ---- sequences of frame / emit moves of one session ---------------------------------------------- *)

Inductive ustep (c : cfg) (i : nat) : suser -> list out -> list (suser * which_q) -> suser -> Prop :=
| us_end u u' : uframe c i u u' -> ustep c i u [] [] u'
| us_emit u ua w u' o1 ag o l u'' :
    uframe c i u ua -> h_id (getq ua w) <> 0 -> send_chunk_or_dataless ua w = (u', o1, ag) ->
    ustep c i u' o l u'' -> ustep c i u (o1 ++ o) ((ua, w) :: l) u''.

Lemma ustep_lift c i u o l u' :
  ustep c i u o l u' -> forall st, (i < length st)%nat -> getu st i = u ->
  msteps c true st o (map (fun p => LEmit i (fst p) (snd p)) l) (upd st i (fun _ => u')).
Proof.
  intros H. induction H as [u u' Hf|u ua w u' o1 ag o l u'' Hf Hid Hs Hrest IH]; intros st Hi Hu.
  - simpl. apply msteps_one. apply frame_upd. rewrite Hu. exact Hf.
  - assert (M1 : mstep c true st [] [] (upd st i (fun _ => ua))) by (apply frame_upd; rewrite Hu; exact Hf).
    set (st1 := upd st i (fun _ => ua)).
    assert (L1 : (i < length st1)%nat) by (unfold st1; rewrite upd_length; exact Hi).
    assert (G1 : getu st1 i = ua) by (unfold st1; apply getu_upd_same, Hi).
    assert (M2 : mstep c true st1 o1 [LEmit i ua w] (upd st1 i (fun _ => u'))).
    { rewrite <- G1 at 1. apply (ms_emit c true st1 i w u' o1 ag); [reflexivity|exact L1|rewrite G1; exact Hid|rewrite G1; exact Hs]. }
    set (st2 := upd st1 i (fun _ => u')).
    assert (L2 : (i < length st2)%nat) by (unfold st2; rewrite upd_length; exact L1).
    assert (G2 : getu st2 i = u') by (unfold st2; apply getu_upd_same, L1).
    specialize (IH st2 L2 G2).
    assert (E : upd st2 i (fun _ => u'') = upd st i (fun _ => u'')).
    { unfold st2, st1. rewrite !upd_upd. reflexivity. }
    rewrite E in IH.
    change (o1 ++ o) with ([] ++ o1 ++ o).
    change (map (fun p => LEmit i (fst p) (snd p)) ((ua, w) :: l)) with ([] ++ [LEmit i ua w] ++ map (fun p => LEmit i (fst p) (snd p)) l).
    eapply mss_cons; [exact M1|]. eapply mss_cons; [exact M2|]. exact IH.
Qed.

Lemma ustep_frame_l c i u ua o l u' : uframe c i u ua -> ustep c i ua o l u' -> ustep c i u o l u'.
Proof.
  intros Hf H. destruct H as [x x' Hx|x xa w x' o1 ag o l x'' Hx Hid Hs Hr].
  - apply us_end. eapply uframe_trans; eassumption.
  - eapply us_emit; try eassumption. eapply uframe_trans; eassumption.
Qed.

Lemma ustep_trans c i u o1 l1 u1 o2 l2 u2 :
  ustep c i u o1 l1 u1 -> ustep c i u1 o2 l2 u2 -> ustep c i u (o1 ++ o2) (l1 ++ l2) u2.
Proof.
  intros H. revert o2 l2 u2. induction H as [x x' Hx|x xa w x' oa ag o l x'' Hx Hid Hs Hr IH]; intros o2 l2 u2 H2.
  - simpl. eapply ustep_frame_l; eassumption.
  - rewrite <- app_assoc. simpl. eapply us_emit; try eassumption. apply IH, H2.
Qed.

Lemma ustep_scd c i u w u' o ag :
  h_id (getq u w) <> 0 -> send_chunk_or_dataless u w = (u', o, ag) -> ustep c i u o [(u, w)] u'.
Proof.
  intros Hid Hs. rewrite <- (app_nil_r o). eapply us_emit; [apply uframe_refl|exact Hid|exact Hs|].
  apply us_end, uframe_refl.
Qed.

Lemma refines_ustep c st i o l u' :
  (i < length st)%nat -> ustep c i (getu st i) o l u' -> refines c true st (upd st i (fun _ => u'), o).
Proof. intros Hi H. eexists. simpl. eapply ustep_lift; [exact H|exact Hi|reflexivity]. Qed.

Lemma refines_length c k st r : refines c k st r -> length (fst r) = length st.
Proof. intros [l H]. eapply msteps_length, H. Qed.

Lemma refines_then_frame c k st st1 o i f :
  refines c k st (st1, o) -> uframe c i (getu st1 i) (f (getu st1 i)) -> refines c k st (upd st1 i f, o).
Proof.
  intros H Hf. rewrite <- (app_nil_r o).
  apply (refines_trans c k st st1 o (upd st1 i f, [])); [exact H|].
  apply refines_frame_upd; [exact Hf|constructor].
Qed.

(* ---- access checks imply a slot inside the table ------------------------------------------------ *)

Lemma check_user_range c st now userid from :
  check_user_and_ip c st now userid from = false -> (Z.to_nat userid < length st)%nat.
Proof.
  unfold check_user_and_ip, in_range. intros H.
  destruct ((0 <=? userid)%Z && (Z.to_nat userid <? length st)%nat) eqn:E; [|discriminate].
  apply andb_prop in E. destruct E as [_ E]. apply Nat.ltb_lt in E. exact E.
Qed.

Lemma check_auth_range c st now userid from :
  check_auth c st now userid from = false -> (Z.to_nat userid < length st)%nat.
Proof.
  unfold check_auth. intros H. destruct (check_user_and_ip c st now userid from) eqn:E; [discriminate|].
  eapply check_user_range, E.
Qed.

Lemma check_auth_options_range c st now userid from :
  check_auth_options c st now userid from = false -> (Z.to_nat userid < length st)%nat.
Proof.
  unfold check_auth_options. cbv zeta. intros H.
  destruct (check_auth c st now userid from) eqn:E.
  - simpl in H. discriminate.
  - eapply check_auth_range, E.
Qed.

Lemma find_user_by_ip_from_range st ip now : forall k t,
  find_user_by_ip_from st ip now k = Some t -> (k <= t < k + length st)%nat.
Proof.
  induction st as [|u rest IH]; intros k t H; [discriminate|]. simpl in H.
  destruct (u_active u && u_auth u && negb (u_disabled u) && live now u && (ip =? u_tun_ip u)).
  - inversion H. subst. simpl. lia.
  - apply IH in H. simpl. lia.
Qed.

Lemma find_user_by_ip_range st ip now t : find_user_by_ip st ip now = Some t -> (t < length st)%nat.
Proof. intros H. apply find_user_by_ip_from_range in H. lia. Qed.

Lemma find_available_from_range st now : forall k t,
  find_available_from st now k = Some t -> (k <= t < k + length st)%nat.
Proof.
  induction st as [|u rest IH]; intros k t H; [discriminate|]. simpl in H.
  destruct ((negb (u_active u) || (u_last u + src_USER_TIMEOUT_AVAIL <? now)) && negb (u_disabled u)).
  - inversion H. subst. simpl. lia.
  - apply IH in H. simpl. lia.
Qed.

(* ---- frames that occur in the handlers ------------------------------------------------------------ *)

Lemma uframe_setq_last c i u x q now :
  nslot c (h_name q) = Some i -> uframe c i u x -> uframe c i u (x <| u_q := q |> <| u_last := now |>).
Proof.
  intros Hs Hx. eapply uframe_trans; [exact Hx|].
  split; [reflexivity|]. unfold held_ok. cbn. intros [_ B]. split; [intros _; exact Hs|exact B].
Qed.

Lemma uframe_move_qs c i u x :
  uframe c i u x ->
  uframe c i u (x <| u_qs := u_q x |> <| u_qs_new := true |> <| u_q := (u_q x) <| h_id := 0 |> |>).
Proof.
  intros Hx. eapply uframe_trans; [exact Hx|].
  split; [reflexivity|]. unfold held_ok. cbn. intros [A _]. split; [intros H; exfalso; apply H; reflexivity|exact A].
Qed.

Lemma uframe_remember_dup c i u q w : uframe c i u (remember_dup u q w).
Proof. split; [destruct w; reflexivity|]. unfold held_ok. destruct w; cbn; tauto. Qed.

Lemma uframe_ack c i u x a b : uframe c i u x -> uframe c i u (process_downstream_ack x a b).
Proof. intros Hx. eapply uframe_trans; [exact Hx|]. apply uframe_okey, okey_process_downstream_ack. Qed.

(* any change that touches neither the rings, the fragment size nor the held queries *)
Definition qkey (u : suser) := (rview u, u_q u, u_qs u).
Lemma uframe_qkey c i u u' : qkey u' = qkey u -> uframe c i u u'.
Proof.
  unfold qkey. intros H.
  assert (H1 : rview u' = rview u) by (apply (f_equal (fun p => fst (fst p))) in H; exact H).
  assert (H2 : u_q u' = u_q u) by (apply (f_equal (fun p => snd (fst p))) in H; exact H).
  assert (H3 : u_qs u' = u_qs u) by (apply (f_equal snd) in H; exact H).
  split; [exact H1|]. unfold held_ok. rewrite H2, H3. tauto.
Qed.

Ltac us_id :=
  first [ assumption
        | cbn [getq]; apply N.eqb_neq; assumption
        | cbn [getq]; match goal with H : negb (?x =? 0) = true |- ?x <> 0 => apply N.eqb_neq, negb_true_iff, H end
        | cbn; assumption ].

(* uframe c i u ua where ua is u under a stack of the setters above *)
Ltac us_frame Hs :=
  solve [ repeat match goal with
    | |- uframe _ _ ?u ?u => apply uframe_refl
    | H : uframe _ _ ?u ?x |- uframe _ _ ?u ?x => exact H
    | |- uframe _ _ _ (_ <| u_q := _ |> <| u_last := _ |>) => apply uframe_setq_last; [exact Hs|]
    | |- uframe _ _ _ (_ <| u_qs := _ |> <| u_qs_new := _ |> <| u_q := _ |>) => apply uframe_move_qs
    | |- uframe _ _ _ (process_downstream_ack _ _ _) => apply uframe_ack
    end ].

Ltac us_go Hs :=
  repeat match goal with
  | |- ustep _ _ _ ([] ++ _) _ _ => rewrite app_nil_l
  | |- ustep _ _ _ (_ ++ []) _ _ => rewrite app_nil_r
  | S : send_chunk_or_dataless ?ua ?w = (?x, ?o, ?a) |- ustep _ _ ?u (?o ++ _) _ _ =>
      eapply (us_emit _ _ u ua w x o a); [us_frame Hs|us_id|exact S|]; clear S
  | S : send_chunk_or_dataless ?ua ?w = (?x, ?o, ?a) |- ustep _ _ ?u ?o _ _ =>
      rewrite <- (app_nil_r o);
      eapply (us_emit _ _ u ua w x o a); [us_frame Hs|us_id|exact S|]; clear S
  | |- ustep _ _ _ [] _ _ => apply us_end; us_frame Hs
  end.

Ltac split_all :=
  repeat match goal with
  | |- context [send_chunk_or_dataless ?a ?w] => destruct (send_chunk_or_dataless a w) as [[? ?] ?] eqn:?
  | |- context [if ?b then _ else _] => destruct b eqn:?
  end; cbv beta iota.

Ltac ctl1 := apply refines_ctl; constructor; [simpl; tauto|constructor].

(* ---- ping ------------------------------------------------------------------------------------------- *)

Lemma handle_ping_refines c st now q unpacked :
  h_id q <> 0 ->
  nslot c (h_name q) = Some (Z.to_nat (schar (chr unpacked 0))) ->
  refines c true st (handle_ping c st now q unpacked).
Proof.
  intros Hid Hs. unfold handle_ping. cbv zeta.
  set (i := Z.to_nat (schar (chr unpacked 0))) in *.
  destruct (check_auth c st now (schar (chr unpacked 0)) (h_from q)) eqn:Hca; [ctl1|].
  assert (Hi : (i < length st)%nat) by (eapply check_auth_range; exact Hca).
  destruct (answer_from_dnscache (getu st i) (h_name q) (h_type q)) as [e|] eqn:Hc.
  { eexists. simpl. apply msteps_one. eapply ms_replay; [reflexivity|exact Hi|exact Hs|exact Hc]. }
  destruct (qmem_hit _ _ _); [ctl1|].
  destruct (dup_pending (getu st i) q WQ).
  { apply refines_frame_upd; [apply uframe_remember_dup|constructor]. }
  destruct (dup_pending (getu st i) q WQS).
  { apply refines_frame_upd; [apply uframe_remember_dup|constructor]. }
  set (u1 := process_downstream_ack _ _ _).
  assert (F1 : uframe c i (getu st i) u1) by (apply uframe_ack, uframe_refl).
  clearbody u1.
  split_all.
  all: eapply refines_ustep; [exact Hi|].
  all: eapply ustep_frame_l; [exact F1|].
  all: us_go Hs.
Qed.

(* ---- delivery of a completed upstream packet ------------------------------------------------------- *)

Lemma send_held_refines c st t : (t < length st)%nat -> refines c true st (send_held st t).
Proof.
  intros Ht. unfold send_held. cbv zeta. split_all.
  all: try (eapply refines_ustep; [exact Ht|]; us_go I).
  apply refines_nil.
Qed.

Lemma uframe_start_new c i u d : uframe c i u (start_new_outpacket u d).
Proof. apply uframe_okey, okey_start_new_outpacket. Qed.
Lemma uframe_save_q c i u d : uframe c i u (fst (save_to_outpacketq u d)).
Proof. apply uframe_okey, okey_save_to_outpacketq. Qed.

Lemma handle_full_packet_refines unz c st now userid :
  refines c true st (handle_full_packet unz st now userid).
Proof.
  unfold handle_full_packet. cbv zeta.
  set (raw := firstn _ _).
  assert (K : forall st1 o, refines c true st (st1, o) ->
              refines c true st (upd st1 userid (fun x => x <| u_in := (u_in x) <| p_len := 0 |> <| p_offset := 0 |> |>), o)).
  { intros st1 o H. apply refines_then_frame; [exact H|]. apply uframe_qkey. reflexivity. }
  destruct (unz raw) as [ip|]; [|apply K, refines_nil].
  destruct (if (24 <=? length ip)%nat then find_user_by_ip st (le32_at ip 20) now else None) as [t|] eqn:Hf.
  2:{ apply K. apply refines_ctl. constructor; [exact I|constructor]. }
  assert (Hf' : (t < length st)%nat).
  { destruct (24 <=? length ip)%nat; [|discriminate]. apply find_user_by_ip_range in Hf. exact Hf. }
  clear Hf. rename Hf' into Hf.
  destruct (u_conn (getu st t)).
  { apply K. apply refines_ctl. constructor; [exact I|constructor]. }
  destruct (p_len (u_out (getu st t)) =? 0).
  - destruct (send_held (upd st t (fun x => start_new_outpacket x raw)) t) as [st1 o] eqn:Hsh.
    apply K.
    assert (R : refines c true (upd st t (fun x => start_new_outpacket x raw)) (st1, o)).
    { rewrite <- Hsh. apply send_held_refines. rewrite upd_length. exact Hf. }
    change o with ([] ++ o). eapply refines_trans'; [|exact R].
    apply refines_frame_upd; [apply uframe_start_new|constructor].
  - apply K. apply refines_frame_upd; [apply uframe_save_q|constructor].
Qed.

(* ---- data ------------------------------------------------------------------------------------------- *)

Lemma handle_data_refines unz c st now q inb domain_len :
  h_id q <> 0 ->
  nslot c (h_name q) = Some (N.to_nat (hex_code (chr inb 0))) ->
  refines c true st (handle_data unz c st now q inb domain_len).
Proof.
  intros Hid Hs. unfold handle_data. cbv zeta. fold (hex_code (chr inb 0)).
  set (i := N.to_nat (hex_code (chr inb 0))) in *.
  destruct (check_auth c st now (Z.of_N (hex_code (chr inb 0))) (h_from q)) eqn:Hca; [ctl1|].
  assert (Hi : (i < length st)%nat).
  { apply check_auth_range in Hca. unfold i. lia. }
  destruct (answer_from_dnscache (getu st i) (h_name q) (h_type q)) as [e|] eqn:Hc.
  { eexists. simpl. apply msteps_one. eapply ms_replay; [reflexivity|exact Hi|exact Hs|exact Hc]. }
  destruct (qmem_hit _ _ _); [ctl1|].
  destruct (dup_pending (getu st i) q WQ).
  { apply refines_frame_upd; [apply uframe_remember_dup|constructor]. }
  destruct (dup_pending (getu st i) q WQS).
  { apply refines_frame_upd; [apply uframe_remember_dup|constructor]. }
  set (u1 := process_downstream_ack _ _ _).
  assert (F1 : uframe c i (getu st i) u1) by (apply uframe_ack, uframe_refl).
  clearbody u1.
  match goal with |- context [let '(u2, upstream_ok) := ?P in _] => set (PP := P) end.
  assert (HP : uframe c i u1 (fst PP)).
  { unfold PP. repeat match goal with |- context [if ?b then _ else _] => destruct b end; cbn [fst];
      first [apply uframe_refl | apply uframe_qkey; reflexivity]. }
  destruct PP as [u2 ok]. cbn [fst] in HP. cbv beta iota.
  match goal with |- context [upd st i (fun _ => ?X)] => set (u3 := X) end.
  assert (F3 : uframe c i (getu st i) u3).
  { eapply uframe_trans; [exact F1|]. eapply uframe_trans; [exact HP|].
    unfold u3. destruct ok; [apply uframe_qkey; reflexivity|apply uframe_refl]. }
  clearbody u3. clear HP F1.
  set (st1 := upd st i (fun _ => u3)).
  assert (R1 : refines c true st (st1, [])) by (apply refines_frame_upd; [exact F3|constructor]).
  clearbody st1.
  match goal with |- context [let '(st2, o0) := ?P in _] => set (X := P) end.
  assert (R2 : refines c true st1 X).
  { unfold X. destruct (ok && _); [apply handle_full_packet_refines|apply refines_nil]. }
  clearbody X. destruct X as [st2 o0].
  assert (Hi2 : (i < length st2)%nat).
  { pose proof (refines_length _ _ _ _ R1) as L1. pose proof (refines_length _ _ _ _ R2) as L2. simpl in L1, L2. lia. }
  assert (R : refines c true st (st2, o0)) by (exact (refines_trans' c true st st1 [] st2 o0 R1 R2)).
  clear R1 R2.
  split_all.
  all: eapply refines_trans'; [exact R|].
  all: eapply refines_ustep; [exact Hi2|].
  all: us_go Hs.
Qed.

(* ---- handle_null_request ---------------------------------------------------------------------------- *)

Definition refines2 (c : cfg) (st : sstate) (r : sstate * list out) : Prop :=
  refines c true st r \/ refines c false st r.

Lemma is_letter_cases c l : is_letter c l = true -> c = l \/ c = l - 32.
Proof.
  unfold is_letter. intros H. apply orb_prop in H. destruct H as [H|H]; apply N.eqb_eq in H; [left|right]; exact H.
Qed.

Lemma not_pd c l : is_letter c l = true -> pd_letter l = false -> pd_letter (l - 32) = false -> pd_letter c = false.
Proof. intros H A B. apply is_letter_cases in H. destruct H as [-> | ->]; assumption. Qed.

Lemma chr_firstn (l : list N) n : (0 < n)%nat -> chr (firstn n l) 0 = chr l 0.
Proof. intros H. unfold chr. destruct n; [lia|]. destruct l; reflexivity. Qed.

Lemma dec_go_bytes c cap : forall i s, Forall (fun b => b < 256) (dec_go c cap i s).
Proof.
  induction cap as [|cap IH]; intros i s; [constructor|]. simpl.
  destruct (length (firstn (dneed (cbits c) i) s) <? dneed (cbits c) i)%nat; [constructor|].
  destruct (existsb (fun x => x =? 0) (firstn (dneed (cbits c) i) s)); [constructor|].
  constructor; [|apply IH].
  unfold dbyte. destruct (doff (cbits c) i + 8 <=? 2 * cbits c); apply N.mod_lt; discriminate.
Qed.

Lemma chr_unpack_lt c n d l k : chr (unpack_data c n d l) k < 256.
Proof.
  unfold chr, unpack_data, decode.
  pose proof (dec_go_bytes c n 0 (inline_undotify d l)) as H.
  destruct (Nat.lt_ge_cases k (length (dec_go c n 0 (inline_undotify d l)))) as [L|L].
  - rewrite Forall_forall in H. apply H. apply nth_In, L.
  - rewrite nth_overflow by exact L. lia.
Qed.

Lemma uf_last c i u v : uframe c i u (u <| u_last := v |>). Proof. apply uframe_qkey; reflexivity. Qed.
Lemma uf_auth c i u v : uframe c i u (u <| u_auth := v |>). Proof. apply uframe_qkey; reflexivity. Qed.
Lemma uf_enc c i u v : uframe c i u (u <| u_enc := v |>). Proof. apply uframe_qkey; reflexivity. Qed.
Lemma uf_downenc c i u v : uframe c i u (u <| u_downenc := v |>). Proof. apply uframe_qkey; reflexivity. Qed.
Lemma uf_lazy c i u v : uframe c i u (u <| u_lazy := v |>). Proof. apply uframe_qkey; reflexivity. Qed.

Ltac uf := first [apply uf_last|apply uf_auth|apply uf_enc|apply uf_downenc|apply uf_lazy].

Ltac leaf NP :=
  first [ apply refines_nil
        | apply refines_ctl; constructor; [left; exact NP|constructor]
        | apply refines_frame_upd; [uf | constructor; [left; exact NP|constructor]]
        | apply refines_then_frame;
          [apply refines_frame_upd; [uf|constructor; [left; exact NP|constructor]]
          |uf] ].

Ltac leaves NP :=
  repeat match goal with
  | |- context [if ?b then _ else _] => destruct b eqn:?
  | |- context [match ?x with Some _ => _ | None => _ end] => destruct x eqn:?
  end; leaf NP.

Lemma handle_null_request_refines login unz c st now rnd q dl :
  query_datalen (h_name q) (c_topdomain c) = Some dl ->
  refines2 c st (handle_null_request login unz c st now rnd q dl).
Proof.
  intros Hdl. unfold handle_null_request. cbv zeta.
  destruct (dl <? 2)%nat eqn:D2; [left; apply refines_nil|]. apply Nat.ltb_ge in D2.
  set (inb := firstn dl (h_name q)). set (c0 := chr inb 0).
  assert (Hc0 : c0 = chr (h_name q) 0) by (apply chr_firstn; lia).
  remember (unpack_data b32 (N.to_nat 65536) (skipn 1 inb) (dl - 1)) as unpacked eqn:Hun.
  assert (B1 : chr unpacked 1 < 256) by (rewrite Hun; apply chr_unpack_lt).
  assert (B2 : chr unpacked 2 < 256) by (rewrite Hun; apply chr_unpack_lt).
  destruct (is_letter c0 118) eqn:LV.
  { assert (NP : pd_letter (chr (h_name q) 0) = false)
      by (rewrite <- Hc0; eapply not_pd; [exact LV|reflexivity|reflexivity]).
    destruct (_ =? src_PROTOCOL_VERSION); [|left; leaf NP].
    destruct (find_available_from st now 0) as [i|]; [|left; leaf NP].
    right. eexists (_ ++ []). cbn [fst snd].
    match goal with |- msteps _ _ _ ?o _ _ => change o with ([] ++ o) end.
    eapply mss_cons; [apply ms_vreset; reflexivity|]. apply msteps_one, ms_ctl. constructor; [left; exact NP|constructor]. }
  destruct (is_letter c0 108) eqn:LL.
  { assert (NP : pd_letter (chr (h_name q) 0) = false)
      by (rewrite <- Hc0; eapply not_pd; [exact LL|reflexivity|reflexivity]).
    left. leaves NP. }
  destruct (is_letter c0 105) eqn:LI.
  { assert (NP : pd_letter (chr (h_name q) 0) = false)
      by (rewrite <- Hc0; eapply not_pd; [exact LI|reflexivity|reflexivity]).
    left. leaves NP. }
  destruct (is_letter c0 122) eqn:LZ.
  { assert (NP : pd_letter (chr (h_name q) 0) = false)
      by (rewrite <- Hc0; eapply not_pd; [exact LZ|reflexivity|reflexivity]).
    left. leaves NP. }
  destruct (is_letter c0 115) eqn:LS.
  { assert (NP : pd_letter (chr (h_name q) 0) = false)
      by (rewrite <- Hc0; eapply not_pd; [exact LS|reflexivity|reflexivity]).
    left. leaves NP. }
  destruct (is_letter c0 111) eqn:LO.
  { assert (NP : pd_letter (chr (h_name q) 0) = false)
      by (rewrite <- Hc0; eapply not_pd; [exact LO|reflexivity|reflexivity]).
    left. leaves NP. }
  destruct (is_letter c0 121) eqn:LY.
  { assert (NP : pd_letter (chr (h_name q) 0) = false)
      by (rewrite <- Hc0; eapply not_pd; [exact LY|reflexivity|reflexivity]).
    left. leaves NP. }
  destruct (is_letter c0 114) eqn:LR.
  { assert (NP : pd_letter (chr (h_name q) 0) = false)
      by (rewrite <- Hc0; eapply not_pd; [exact LR|reflexivity|reflexivity]).
    left. leaves NP. }
  destruct (is_letter c0 110) eqn:LN.
  { assert (NP : pd_letter (chr (h_name q) 0) = false)
      by (rewrite <- Hc0; eapply not_pd; [exact LN|reflexivity|reflexivity]).
    destruct (_ <? 3)%nat; [left; leaf NP|].
    destruct (check_auth_options _ _ _ _ _); [left; leaf NP|].
    match goal with |- context [if ?m <? 2 then _ else _] => set (mfs := m); destruct (mfs <? 2) eqn:M end; [left; leaf NP|].
    right. eexists (_ ++ []). cbn [fst snd].
    match goal with |- msteps _ _ _ ?o _ _ => change o with ([] ++ o) end.
    eapply mss_cons.
    - apply (ms_naccept c false st (Z.to_nat (schar (chr unpacked 0))) mfs); [reflexivity|lia|].
      unfold mfs. lia.
    - apply msteps_one, ms_ctl. constructor; [left; exact NP|constructor]. }
  destruct (is_letter c0 112) eqn:LP.
  { destruct (h_id q =? 0) eqn:Hid; [left; apply refines_nil|]. apply N.eqb_neq in Hid.
    destruct (_ <? 4)%nat; [left; apply refines_nil|].
    left. apply handle_ping_refines; [exact Hid|].
    unfold nslot. rewrite Hdl. cbv zeta. fold inb. fold c0. rewrite LP, <- Hun. reflexivity. }
  fold (hex_letter c0).
  destruct (hex_letter c0) eqn:LH; [|left; apply refines_nil].
  destruct (dl <? 6)%nat; [left; apply refines_nil|].
  destruct (h_id q =? 0) eqn:Hid; [left; apply refines_nil|]. apply N.eqb_neq in Hid.
  left. apply handle_data_refines; [exact Hid|].
  unfold nslot. rewrite Hdl. cbv zeta. fold inb. fold c0. rewrite LP, LH. reflexivity.
Qed.

(* ---- tunnel_dns, tunnel_tun, raw mode, sweeps, step -------------------------------------------------- *)

Lemma refines2_nil c st : refines2 c st (st, []).
Proof. left. apply refines_nil. Qed.

Lemma tunnel_dns_refines login unz c st now rnd q :
  refines2 c st (tunnel_dns login unz c st now rnd q).
Proof.
  unfold tunnel_dns. cbv zeta.
  destruct (query_datalen (h_name q) (c_topdomain c)) as [dl|] eqn:Hdl.
  - destruct (aux_answer _ _ _ _).
    { left. apply refines_ctl. constructor; [exact I|constructor]. }
    match goal with |- context [if ?b then _ else _] => destruct b end; [apply refines2_nil|].
    match goal with |- context [if ?b then _ else _] => destruct b end; [|apply refines2_nil].
    apply handle_null_request_refines, Hdl.
  - destruct (c_bind c); [|apply refines2_nil].
    left. apply refines_ctl. constructor; [exact I|constructor].
Qed.

Lemma tunnel_tun_refines zc c st now inpkt : refines c true st (tunnel_tun zc st now inpkt).
Proof.
  unfold tunnel_tun. destruct inpkt as [|b rest]; [apply refines_nil|].
  set (pk := b :: rest). clearbody pk.
  destruct (length pk <? 24)%nat; [apply refines_nil|].
  destruct (find_user_by_ip st (le32_at pk 20) now) as [t|] eqn:Hf; [|apply refines_nil].
  apply find_user_by_ip_range in Hf. cbv zeta.
  destruct (u_conn (getu st t)).
  { apply refines_ctl. constructor; [exact I|constructor]. }
  destruct (0 <? p_len (u_out (getu st t))).
  - apply refines_frame_upd; [apply uframe_save_q|constructor].
  - destruct (send_held (upd st t (fun x => start_new_outpacket x (zc pk))) t) as [st1 o] eqn:Hsh.
    assert (R : refines c true (upd st t (fun x => start_new_outpacket x (zc pk))) (st1, o)).
    { rewrite <- Hsh. apply send_held_refines. rewrite upd_length. exact Hf. }
    change o with ([] ++ o). eapply refines_trans'; [|exact R].
    apply refines_frame_upd; [apply uframe_start_new|constructor].
Qed.

Lemma uf_rawlogin c i u now q h :
  h_id q = 0 ->
  uframe c i u (u <| u_last := now |> <| u_q := q |> <| u_host := h |> <| u_conn := CONN_RAW |> <| u_auth_raw := true |>).
Proof.
  intros Hq. split; [reflexivity|]. unfold held_ok. cbn. intros [_ B]. split; [intros H; exfalso; apply H, Hq|exact B].
Qed.

Lemma uf_rawping c i u now q :
  h_id q = 0 -> uframe c i u (u <| u_last := now |> <| u_q := q |>).
Proof.
  intros Hq. split; [reflexivity|]. unfold held_ok. cbn. intros [_ B]. split; [intros H; exfalso; apply H, Hq|exact B].
Qed.

Lemma uf_rawdata c i u now q x :
  h_id q = 0 -> uframe c i u (u <| u_last := now |> <| u_q := q |> <| u_in := x |>).
Proof.
  intros Hq. split; [reflexivity|]. unfold held_ok. cbn. intros [_ B]. split; [intros H; exfalso; apply H, Hq|exact B].
Qed.

Lemma raw_decode_refines login unz c st now packet from r :
  raw_decode login unz c st now packet from = Some r -> refines c true st r.
Proof.
  unfold raw_decode. destruct (length packet <? 4)%nat; [discriminate|].
  destruct (negb _); [discriminate|]. cbv zeta.
  set (q := hq0 <| h_from := from |>). assert (Hq : h_id q = 0) by reflexivity. clearbody q.
  intros H. inversion H. clear H.
  destruct (_ =? src_RAW_HDR_CMD_LOGIN).
  { unfold handle_raw_login. cbv zeta.
    repeat match goal with |- context [if ?b then _ else _] => destruct b end; try apply refines_nil.
    apply refines_frame_upd; [apply uf_rawlogin, Hq|constructor; [exact I|constructor]]. }
  destruct (_ =? src_RAW_HDR_CMD_DATA).
  { unfold handle_raw_data. cbv zeta.
    destruct (check_auth _ _ _ _ _); [apply refines_nil|].
    destruct (negb _); [apply refines_nil|].
    match goal with |- refines _ _ _ (handle_full_packet ?u ?s ?n ?i) =>
      destruct (handle_full_packet u s n i) as [st1 o] eqn:Hh;
      pose proof (handle_full_packet_refines u c s n i) as R; rewrite Hh in R end.
    change o with ([] ++ o). eapply refines_trans'; [|exact R].
    apply refines_frame_upd; [apply uf_rawdata, Hq|constructor]. }
  destruct (_ =? src_RAW_HDR_CMD_PING); [|apply refines_nil].
  unfold handle_raw_ping.
  destruct (check_auth _ _ _ _ _); [apply refines_nil|].
  destruct (negb _); [apply refines_nil|].
  apply refines_frame_upd; [apply uf_rawping, Hq|constructor; [exact I|constructor]].
Qed.

Lemma sweep_clear_frame c k st now : mstep c k st [] [] (sweep_clear st now).
Proof.
  unfold sweep_clear. apply ms_frame; [apply map_length|].
  intros i. unfold getu.
  set (f := fun u => if u_active u && negb (u_disabled u) && live now u then u <| u_qs_new := false |> else u).
  destruct (Nat.lt_ge_cases i (length st)) as [L|L].
  - rewrite (nth_indep (map f st) (user_init 0) (f (user_init 0))) by (rewrite map_length; exact L).
    rewrite map_nth. unfold f. destruct (_ && _ && _); [apply uframe_qkey; reflexivity|apply uframe_refl].
  - rewrite !nth_overflow by (rewrite ?map_length; exact L). apply uframe_refl.
Qed.

Lemma sweep_send_refines c now : forall n i st acc,
  exists o l st', sweep_send n i st now acc = (st', acc ++ o) /\ msteps c true st o l st'.
Proof.
  induction n as [|n IH]; intros i st acc.
  - exists [], [], st. simpl. rewrite app_nil_r. split; [reflexivity|apply mss_nil].
  - cbn [sweep_send]. cbv zeta.
    destruct (u_active (getu st i) && negb (u_disabled (getu st i)) && live now (getu st i) &&
              negb (h_id (u_qs (getu st i)) =? 0) &&
              match u_conn (getu st i) with CONN_DNS => true | CONN_RAW => false end &&
              negb (u_qs_new (getu st i))) eqn:E.
    + destruct (send_chunk_or_dataless (getu st i) WQS) as [[u' o] ag] eqn:Hscd.
      destruct (IH (S i) (upd st i (fun _ => u')) (acc ++ o)) as (o2 & l2 & st2 & E2 & M2).
      exists (o ++ o2), ([LEmit i (getu st i) WQS] ++ l2), st2. rewrite E2, app_assoc. split; [reflexivity|].
      eapply mss_cons; [|exact M2].
      repeat (apply andb_prop in E; destruct E as [E ?]).
      apply (ms_emit c true st i WQS u' o ag); [reflexivity| | |exact Hscd].
      * destruct (Nat.lt_ge_cases i (length st)) as [L|L]; [exact L|].
        rewrite getu_oob in E by exact L. discriminate.
      * cbn [getq]. apply N.eqb_neq, negb_true_iff. assumption.
    + apply IH.
Qed.

Theorem step_refines login zc unz c st e :
  refines2 c st (step login zc unz c st e).
Proof.
  destruct e as [now rnd q|now from packet|now packet|now|now]; cbn [step].
  - apply tunnel_dns_refines.
  - destruct (raw_decode login unz c st now packet from) as [r|] eqn:E; [|apply refines2_nil].
    left. eapply raw_decode_refines, E.
  - left. apply tunnel_tun_refines.
  - left. exists []. apply msteps_one, sweep_clear_frame.
  - left. destruct (sweep_send_refines c now (length st) 0 st []) as (o & l & st' & E & M).
    rewrite E. exists l. exact M.
Qed.

Lemma recv_datagram_is_step login zc unz c st now rnd from dest packet :
  recv_datagram login unz c st now rnd from dest packet = (st, []) \/
  exists e, recv_datagram login unz c st now rnd from dest packet = step login zc unz c st e.
Proof.
  unfold recv_datagram. destruct packet as [|b rest]; [left; reflexivity|].
  set (pk := b :: rest). clearbody pk.
  destruct (raw_decode login unz c st now pk from) as [r|] eqn:E.
  - right. exists (ERaw now from pk). cbn [step]. rewrite E. reflexivity.
  - cbv zeta. destruct (dq_q (dns_decode_query pk (length pk))) as [q|]; [|left; reflexivity].
    destruct (0 <? dq_rv (dns_decode_query pk (length pk)))%Z; [|left; reflexivity].
    right. eexists (EDns now rnd _). reflexivity.
Qed.
