(* DnsMsgProofs_Sent.v -- C09, the hypothesis "the server produced a datagram" is always met in the
   quantified range: for every well-formed question and every payload of at most 4096 bytes
   dns_encode does not run out of its 64 KiB buffer, so write_dns hands a datagram to sendto. *)
From Coq Require Import List NArith ZArith Arith Bool Lia ZifyBool ZifyNat ZifyN.
From Iodine Require Import Generated.SrcConsts Base Codec CodecProofs Hostname DnsName DnsWf DnsMsg
  DnsMsgProofs_Base DnsMsgProofs_Null DnsMsgProofs_Txt DnsMsgProofs_Dotify DnsMsgProofs_Name
  DnsMsgProofs_Mx DnsMsgProofs_MxClient DnsMsgProofs.
Import ListNotations.
Local Open Scope N_scope.

Ltac Zify.zify_post_hook ::= Z.div_mod_to_equations.

Ltac lens := rewrite ?app_length, ?hdr_len, ?wire_length, ?be16_len, ?rr_head_len, ?firstn_length; cbn [length].

(* discharge the next CHECKLEN of the goal *)
Ltac pass_check :=
  match goal with
  | |- context [checklen ?B ?s ?x] =>
      let Hc := fresh "Hc" in
      assert (Hc : checklen B s x = true) by (unfold checklen; apply Nat.leb_le; lens; lia);
      rewrite Hc; clear Hc; cbn [negb]
  end.

Lemma sent_null B name ty id ws p : B = N.to_nat 65536 ->
  ty = T_NULL \/ ty = T_PRIVATE ->
  Forall label_ok ws -> ws <> [] -> name = dotted ws -> (length name <= 253)%nat ->
  (length p <= N.to_nat 4096)%nat ->
  exists d, dns_encode_answer B {| q_name := name; q_type := ty; q_id := id |} p = Some d.
Proof.
  intros H64 Hty Hok Hne Hn Hl Hp. unfold dns_encode_answer. cbn [q_name q_type q_id].
  rewrite (putname_qname B name ws H64 Hok Hne Hn Hl). cbn [opt_bytes].
  pose proof (dotted_wire_len ws Hne) as Hwq. rewrite <- Hn in Hwq.
  destruct (B <? 12)%nat eqn:E; [apply Nat.ltb_lt in E; lia|].
  pass_check.
  assert (Ht : (ty =? T_CNAME) || (ty =? T_A) = false /\ (ty =? T_MX) || (ty =? T_SRV) = false /\ (ty =? T_TXT) = false).
  { destruct Hty as [-> | ->]; repeat split; vm_compute; reflexivity. }
  destruct Ht as [-> [-> ->]].
  pass_check. pass_check.
  match goal with |- context [checklen ?B ?s ?x] =>
    assert (Hc : checklen B s x = true) by (unfold checklen; apply Nat.leb_le; lens; lia); rewrite Hc end.
  cbn [negb]. eexists. reflexivity.
Qed.

Lemma sent_txt B name id ws data : B = N.to_nat 65536 ->
  Forall label_ok ws -> ws <> [] -> name = dotted ws -> (length name <= 253)%nat ->
  (length data <= N.to_nat 60000)%nat ->
  exists d, dns_encode_answer B {| q_name := name; q_type := T_TXT; q_id := id |} data = Some d.
Proof.
  intros H64 Hok Hne Hn Hl Hp. unfold dns_encode_answer. cbn [q_name q_type q_id].
  rewrite (putname_qname B name ws H64 Hok Hne Hn Hl). cbn [opt_bytes].
  pose proof (dotted_wire_len ws Hne) as Hwq. rewrite <- Hn in Hwq.
  destruct (B <? 12)%nat eqn:E; [apply Nat.ltb_lt in E; lia|].
  pass_check.
  change ((T_TXT =? T_CNAME) || (T_TXT =? T_A)) with false.
  change ((T_TXT =? T_MX) || (T_TXT =? T_SRV)) with false.
  change (T_TXT =? T_TXT) with true. cbv iota.
  pass_check.
  match goal with |- context [puttxtbin ?rem data] =>
    assert (Hlen : (length (opt_bytes (puttxtbin rem data)) <= txt_len (length data))%nat);
    [|set (txt := opt_bytes (puttxtbin rem data)) in *]
  end.
  { match goal with |- context [puttxtbin ?rem data] => destruct (puttxtbin rem data) as [t|] eqn:Et end.
    - cbn [opt_bytes]. unfold puttxtbin in Et. rewrite (puttxtbin_go_len _ _ _ _ Et). lia.
    - cbn [opt_bytes length]. lia. }
  unfold txt_len in Hlen. clearbody txt.
  match goal with |- context [checklen ?B ?s ?x] =>
    assert (Hc : checklen B s x = true) by (unfold checklen; apply Nat.leb_le; lens; lia); rewrite Hc end.
  cbn [negb]. eexists. reflexivity.
Qed.

Lemma sent_cname B name ty id ws wl nm : B = N.to_nat 65536 ->
  ty = T_CNAME \/ ty = T_A ->
  Forall label_ok ws -> ws <> [] -> name = dotted ws -> (length name <= 253)%nat ->
  Forall label_ok wl -> wl <> [] -> nm = dotted wl -> (length nm <= 253)%nat ->
  exists d, dns_encode_answer B {| q_name := name; q_type := ty; q_id := id |} nm = Some d.
Proof.
  intros H64 Hty Hok Hne Hn Hl Hokl Hnel Hnm Hll. unfold dns_encode_answer. cbn [q_name q_type q_id].
  rewrite (putname_qname B name ws H64 Hok Hne Hn Hl). cbn [opt_bytes].
  pose proof (dotted_wire_len ws Hne) as Hwq. rewrite <- Hn in Hwq.
  pose proof (dotted_wire_len wl Hnel) as Hwn. rewrite <- Hnm in Hwn.
  destruct (B <? 12)%nat eqn:E; [apply Nat.ltb_lt in E; lia|].
  pass_check.
  assert (Ht : (ty =? T_CNAME) || (ty =? T_A) = true) by (destruct Hty as [-> | ->]; reflexivity).
  rewrite Ht. pass_check.
  rewrite (putname_wf _ nm wl Hokl Hnm) by (lens; lia). cbn [opt_bytes].
  match goal with |- context [checklen ?B ?s ?x] =>
    assert (Hc : checklen B s x = true) by (unfold checklen; apply Nat.leb_le; lens; lia); rewrite Hc end.
  cbn [negb]. eexists. reflexivity.
Qed.

Lemma sent_mx_records B ty wls : forall j sofar, B = N.to_nat 65536 ->
  Forall wl_ok wls -> (length sofar + 280 * length wls + 300 <= B)%nat -> (j + length wls <= 1000)%nat ->
  exists r, mx_records B ty (map dotted wls) (N.of_nat j) sofar = Some r.
Proof.
  induction wls as [|wl r IH]; intros j sofar HB Hok Hlen Hj.
  - eexists. reflexivity.
  - apply Forall_cons_iff in Hok. destruct Hok as [[Hl [Hne Hdl]] Hr].
    cbn [map mx_records]. cbn [length] in Hlen, Hj.
    pose proof (dotted_wire_len wl Hne) as Hwl.
    pass_check. pass_check.
    fold (srv_bytes ty). pose proof (srv_bytes_len ty) as Hsl.
    assert (Hsrv : (ty =? T_SRV) && negb (checklen B ((sofar ++ rr_head ty) ++ [0; 0] ++ be16 ((10 * N.of_nat j) mod 65536)) 4) = false).
    { assert (Hc : checklen B ((sofar ++ rr_head ty) ++ [0; 0] ++ be16 ((10 * N.of_nat j) mod 65536)) 4 = true)
        by (unfold checklen; apply Nat.leb_le; lens; lia).
      rewrite Hc. apply andb_false_r. }
    rewrite Hsrv.
    rewrite (putname_wf _ (dotted wl) wl Hl eq_refl) by (lens; lia). cbn [opt_bytes].
    match goal with |- context [checklen ?B ?s ?x] =>
      assert (Hc : checklen B s x = true) by (unfold checklen; apply Nat.leb_le; lens; lia); rewrite Hc end.
    cbn [negb].
    replace (N.of_nat j + 1) with (N.of_nat (S j)) by lia.
    apply IH; [exact HB|exact Hr| |lia]. lens. lia.
Qed.

Lemma sent_mx B name ty id ws wls : B = N.to_nat 65536 ->
  ty = T_MX \/ ty = T_SRV ->
  Forall label_ok ws -> ws <> [] -> name = dotted ws -> (length name <= 253)%nat ->
  Forall wl_ok wls -> wls <> [] -> (length wls <= 200)%nat ->
  exists d, dns_encode_answer B {| q_name := name; q_type := ty; q_id := id |} (flat (map dotted wls) ++ [0]) = Some d.
Proof.
  intros H64 Hty Hok Hne Hn Hl Hwls Hwne Hwlen. unfold dns_encode_answer. cbn [q_name q_type q_id].
  rewrite (putname_qname B name ws H64 Hok Hne Hn Hl). cbn [opt_bytes].
  pose proof (dotted_wire_len ws Hne) as Hwq. rewrite <- Hn in Hwq.
  destruct (B <? 12)%nat eqn:E; [apply Nat.ltb_lt in E; lia|].
  pass_check.
  assert (Ht : (ty =? T_CNAME) || (ty =? T_A) = false /\ (ty =? T_MX) || (ty =? T_SRV) = true).
  { destruct Hty as [-> | ->]; split; vm_compute; reflexivity. }
  destruct Ht as [-> ->].
  rewrite mx_strings_flat.
  - match goal with |- context [mx_records B ty ?nms 1 ?sofar] =>
      destruct (sent_mx_records B ty wls 1%nat sofar H64 Hwls) as [[msg an] Hr]; [lens; lia|lia|]
    end.
    change (N.of_nat 1) with 1 in Hr. rewrite Hr. eexists. reflexivity.
  - rewrite Forall_forall. intros nm Hin. apply in_map_iff in Hin. destruct Hin as [wl [<- Hin]].
    apply wl_ok_cname. rewrite Forall_forall in Hwls. apply Hwls, Hin.
  - intros _. destruct wls; [congruence|discriminate].
  - pose proof (flat_length (map dotted wls)). rewrite app_length. cbn [length]. lia.
Qed.

(* the TXT text is at most twice the payload, plus the letter *)
Lemma txt_data_bound B downenc p : (length (txt_data B downenc p) <= 1 + 2 * length p)%nat.
Proof.
  unfold txt_data, txt_body. cbn [length].
  assert (Hgen : forall c, wfb c = true -> (length (fst (encode c (B - 1) p)) <= 2 * length p)%nat).
  { intros c Hwf. destruct (enc_exact c Hwf (B - 1) p) as [G1 [G2 [G3 _]]]. cbv zeta in *.
    pose proof (k_ok c Hwf) as Hk. rewrite G3. unfold enclen.
    set (n := snd (encode c (B - 1) p)) in *. clearbody n.
    destruct Hk as [E|[E|E]]; rewrite E; lia. }
  destruct (txt_cases downenc) as [Hc|[Hc|[Hc|[Hc|Hc]]]]; rewrite Hc; cbn [fst].
  - pose proof (Hgen b32 wfb_b32). lia.
  - pose proof (Hgen b64 wfb_b64). lia.
  - pose proof (Hgen b64u wfb_b64u). lia.
  - pose proof (Hgen b128 wfb_b128). lia.
  - rewrite firstn_length. lia.
Qed.

(* write_dns always hands a datagram to sendto in the quantified range *)
Lemma c09_sent q p downenc td :
  is_ctype (q_type q) -> wf_qname (q_name q) -> bytes_ok p -> (1 <= length p <= N.to_nat 4096)%nat ->
  exists d, fst (write_dns q p downenc td) = Some d.
Proof.
  intros Hty [ws [Hne [Hok [Hn Hl]]]] Hbp Hp.
  assert (Hpne : p <> []) by (destruct p; [simpl in Hp; lia|discriminate]).
  destruct q as [name ty id]. cbn [q_name q_type q_id] in *.
  destruct Hty as [Hty|[Hty|[Hty|[Hty|[Hty|[Hty|Hty]]]]]].
  - rewrite write_dns_null by (cbn [q_type]; tauto). cbn [fst].
    apply (sent_null buf64k name ty id ws p buf64k_eq); tauto.
  - rewrite write_dns_null by (cbn [q_type]; tauto). cbn [fst].
    apply (sent_null buf64k name ty id ws p buf64k_eq); tauto.
  - rewrite write_dns_txt by exact Hty. subst ty.
    apply (sent_txt buf64k name id ws _ buf64k_eq Hok Hne Hn Hl).
    pose proof (txt_data_bound buf64k downenc p). lia.
  - (* SRV *)
    rewrite write_dns_mx by (cbn [q_type]; tauto).
    rewrite mx_build_spec by (assumption || lia). cbn [app].
    set (sts := mx_states (S (length p)) downenc p td).
    destruct (mx_states_shape downenc (S (length p)) p td sts Hpne ltac:(lia) eq_refl) as [front [lst [Hsts [Hl1 [Hl2 [Hfr Hsum]]]]]].
    assert (HK : (length front <= length p / 153)%nat).
    { rewrite Hsts, fold_used_app in Hsum.
      pose proof (sum_used_front downenc front (fun st Hin => proj1 (Hfr st Hin))) as Hs.
      apply Nat.div_le_lower_bound; lia. }
    set (wls := map (st_labels downenc) sts).
    assert (Hnames : map (st_name downenc) sts = map dotted wls) by (unfold wls; rewrite map_map; reflexivity).
    rewrite Hnames.
    assert (Hwlen : length wls = S (length front)).
    { unfold wls. rewrite map_length, Hsts, app_length. cbn [length]. lia. }
    apply (sent_mx buf64k name ty id ws wls buf64k_eq); try tauto.
    + unfold wls. rewrite Forall_forall. intros wl Hin. apply in_map_iff in Hin. destruct Hin as [st [<- _]]. apply st_labels_ok.
    + intros Hw. rewrite Hw in Hwlen. discriminate.
    + assert (length p / 153 <= 26)%nat by lia. lia.
  - (* MX *)
    rewrite write_dns_mx by (cbn [q_type]; tauto).
    rewrite mx_build_spec by (assumption || lia). cbn [app].
    set (sts := mx_states (S (length p)) downenc p td).
    destruct (mx_states_shape downenc (S (length p)) p td sts Hpne ltac:(lia) eq_refl) as [front [lst [Hsts [Hl1 [Hl2 [Hfr Hsum]]]]]].
    assert (HK : (length front <= length p / 153)%nat).
    { rewrite Hsts, fold_used_app in Hsum.
      pose proof (sum_used_front downenc front (fun st Hin => proj1 (Hfr st Hin))) as Hs.
      apply Nat.div_le_lower_bound; lia. }
    set (wls := map (st_labels downenc) sts).
    assert (Hnames : map (st_name downenc) sts = map dotted wls) by (unfold wls; rewrite map_map; reflexivity).
    rewrite Hnames.
    assert (Hwlen : length wls = S (length front)).
    { unfold wls. rewrite map_length, Hsts, app_length. cbn [length]. lia. }
    apply (sent_mx buf64k name ty id ws wls buf64k_eq); try tauto.
    + unfold wls. rewrite Forall_forall. intros wl Hin. apply in_map_iff in Hin. destruct Hin as [st [<- _]]. apply st_labels_ok.
    + intros Hw. rewrite Hw in Hwlen. discriminate.
    + assert (length p / 153 <= 26)%nat by lia. lia.
  - rewrite write_dns_cname by (cbn [q_type]; tauto). cbn [fst].
    pose proof (host_labels_ok downenc td p) as [Hokl [Hnel Hll]].
    apply (sent_cname buf64k name ty id ws (host_labels downenc td p) _ buf64k_eq); try tauto.
  - rewrite write_dns_cname by (cbn [q_type]; tauto). cbn [fst].
    pose proof (host_labels_ok downenc td p) as [Hokl [Hnel Hll]].
    apply (sent_cname buf64k name ty id ws (host_labels downenc td p) _ buf64k_eq); try tauto.
Qed.

Lemma capacity_le ty downenc : (capacity ty downenc <= N.to_nat 4096)%nat.
Proof.
  unfold capacity, txt_capacity, host_capacity.
  destruct (ty =? T_TXT); [destruct ((downenc =? 83) || (downenc =? 85)); [lia|]; destruct (downenc =? 86); [lia|]; destruct (downenc =? 82); lia|].
  destruct ((ty =? T_CNAME) || (ty =? T_A)); [|lia].
  destruct ((downenc =? 83) || (downenc =? 85)); [lia|]. destruct (downenc =? 86); lia.
Qed.

(* the server sends, and the client gets exactly the payload *)
Lemma c09_delivered q p downenc td buflen :
  q_id q < 65536 -> is_ctype (q_type q) -> wf_qname (q_name q) ->
  bytes_ok p -> (2 <= length p)%nat -> client_fits (q_type q) (length p) buflen ->
  (length p <= capacity (q_type q) downenc)%nat ->
  exists d, fst (write_dns q p downenc td) = Some d /\ exact (client_extract buflen d (length d)) p.
Proof.
  intros Hid Hty Hwf Hbp Hp Hfit Hcap.
  pose proof (capacity_le (q_type q) downenc) as Hc.
  destruct (c09_sent q p downenc td Hty Hwf Hbp ltac:(lia)) as [d Hd].
  exists d. split; [exact Hd|]. apply (c09_exact q p downenc td buflen d); assumption.
Qed.
