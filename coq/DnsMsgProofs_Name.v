(* DnsMsgProofs_Name.v -- C09 for the name-encoded answers, part 1: write_dns_nameenc produces a
   dotted list of well-formed labels, dns_namedec undoes it; CNAME answers (also sent for A). *)
From Coq Require Import List NArith ZArith Arith Bool Lia ZifyBool ZifyNat ZifyN.
From Iodine Require Import Generated.SrcConsts Base Codec CodecProofs Hostname DnsName DnsWf DnsMsg
  DnsMsgProofs_Base DnsMsgProofs_Null DnsMsgProofs_Dotify.
Import ListNotations.
Local Open Scope N_scope.

Ltac Zify.zify_post_hook ::= Z.div_mod_to_equations.

(* ---- the four host-name codecs ------------------------------------------------------------ *)

Lemma downenc_cases e :
  downenc_codec e = (b32, 104) \/ downenc_codec e = (b64, 105) \/
  downenc_codec e = (b64u, 106) \/ downenc_codec e = (b128, 107).
Proof.
  unfold downenc_codec. destruct (e =? 83); [tauto|]. destruct (e =? 85); [tauto|].
  destruct (e =? 86); tauto.
Qed.

(* no alphabet contains the dot *)
Definition nodotb (c : codec) : bool :=
  forallb (fun v => negb (sym c v =? 46)) (nrange (N.to_nat (2 ^ cbits c))).

Lemma nodot_b32 : nodotb b32 = true. Proof. vm_compute. reflexivity. Qed.
Lemma nodot_b64 : nodotb b64 = true. Proof. vm_compute. reflexivity. Qed.
Lemma nodot_b64u : nodotb b64u = true. Proof. vm_compute. reflexivity. Qed.
Lemma nodot_b128 : nodotb b128 = true. Proof. vm_compute. reflexivity. Qed.

Definition name_char (ch : N) : Prop := ch <> 46 /\ ch <> 0.

Lemma enc_name_chars c cap d : wfb c = true -> nodotb c = true -> Forall name_char (fst (encode c cap d)).
Proof.
  intros Hwf Hnd. pose proof (enc_go_alpha c cap 0 d) as HA. unfold encode.
  rewrite Forall_forall in *. intros x Hx. destruct (HA x Hx) as [v [Hv ->]]. split.
  - pose proof (sweep1 _ _ Hnd v) as H1. cbv beta in H1.
    assert (Hv' : v < N.of_nat (N.to_nat (2 ^ cbits c))) by lia. specialize (H1 Hv').
    destruct (sym c v =? 46) eqn:E; [discriminate|]. lia.
  - apply (sym_facts c Hwf v Hv).
Qed.

Definition host_codec (e : N) : codec := fst (downenc_codec e).
Definition host_letter (e : N) : N := snd (downenc_codec e).

Lemma host_codec_wf e : wfb (host_codec e) = true /\ nodotb (host_codec e) = true /\ name_char (host_letter e) /\
  lower_letter (host_letter e) = host_letter e /\
  (host_letter e = 104 /\ host_codec e = b32 \/ host_letter e = 105 /\ host_codec e = b64 \/
   host_letter e = 106 /\ host_codec e = b64u \/ host_letter e = 107 /\ host_codec e = b128).
Proof.
  unfold host_codec, host_letter, name_char.
  destruct (downenc_cases e) as [H|[H|[H|H]]]; rewrite H; cbn [fst snd]; repeat split; try lia;
    try (vm_compute; reflexivity); tauto.
Qed.

(* ---- write_dns_nameenc ---------------------------------------------------------------------- *)

(* The capacity 245 is sealed behind an opaque proof: with a literal capacity the encoder loop
   [enc_go c 245 ...] can be unfolded by the kernel's conversion test, which then compares two
   245-deep binary trees of stuck matches (this made a trivial Qed run forever). *)
Definition host_cap_sig : { n : nat | n = 245%nat }. Proof. exists 245%nat. reflexivity. Qed.
Definition host_cap : nat := proj1_sig host_cap_sig.
Lemma host_cap_eq : host_cap = 245%nat. Proof. exact (proj2_sig host_cap_sig). Qed.

Definition host_enc (e : N) (p : list N) : list N := fst (encode (host_codec e) host_cap p).
Definition host_used (e : N) (p : list N) : nat := snd (encode (host_codec e) host_cap p).
Definition host_text (e : N) (p : list N) : list N := host_letter e :: host_enc e p.
Definition td_label (td : nat * nat) : list N := [97 + N.of_nat (fst td); 97 + N.of_nat (snd td)].
Definition host_labels (e : N) (td : nat * nat) (p : list N) : list (list N) :=
  labels57 (host_text e p) ++ [td_label (td_next td)].
Definition host_name (e : N) (td : nat * nat) (p : list N) : list N := dotted (host_labels e td p).

Lemma last_in {A} (l : list A) d : l <> [] -> In (last l d) l.
Proof.
  induction l as [|x l IH]; intros H; [congruence|]. destruct l as [|y l]; [left; reflexivity|].
  right. apply IH. discriminate.
Qed.

Lemma host_text_chars e p : Forall name_char (host_text e p).
Proof.
  destruct (host_codec_wf e) as [Hwf [Hnd [Hl _]]]. constructor; [exact Hl|].
  apply enc_name_chars; assumption.
Qed.

Lemma host_text_len e p : (1 <= length (host_text e p) <= 246)%nat.
Proof.
  unfold host_text. cbn [length]. unfold host_enc.
  destruct (host_codec_wf e) as [Hwf _].
  destruct (enc_exact _ Hwf host_cap p) as [G1 _]. cbv zeta in G1. pose proof host_cap_eq. lia.
Qed.

Lemma nameenc_spec buflen p e td : (255 <= buflen)%nat ->
  write_dns_nameenc buflen p e td = (host_name e td p, host_used e p, td_next td).
Proof.
  intros HB. unfold write_dns_nameenc.
  rewrite Nat.min_l by exact HB. rewrite period_build_eq.
  replace (255 - 4 - 2 - (255 - 4 - 2) / 57)%nat with host_cap by (rewrite host_cap_eq; reflexivity).
  unfold host_name, host_labels, host_used, host_text, host_enc, host_codec, host_letter.
  destruct (downenc_codec e) as [c letter] eqn:Edc. cbn [fst snd].
  assert (Hs : letter :: fst (encode c host_cap p) = host_text e p).
  { unfold host_text, host_enc, host_codec, host_letter. rewrite Edc. reflexivity. }
  rewrite Hs.
  pose proof (host_text_len e p) as Hlen. pose proof (host_text_chars e p) as Hch.
  assert (Hne : host_text e p <> []) by (unfold host_text; discriminate).
  rewrite dotify_then_dot; [| exact Hne | lia |].
  - rewrite dotted_snoc by (unfold labels57; apply chunks57_nonempty; [exact Hne|lia]).
    unfold td_label. rewrite <- app_assoc. reflexivity.
  - pose proof (last_in (host_text e p) 0 Hne) as Hin.
    rewrite Forall_forall in Hch. destruct (Hch _ Hin) as [Hd _]. exact Hd.
Qed.

Lemma td_label_ok td : label_ok (td_label td).
Proof.
  unfold label_ok, td_label. split; [cbn; lia|]. repeat constructor; lia.
Qed.

Lemma host_name_len e td p :
  length (host_name e td p) = (S (length (host_enc e p)) + length (host_enc e p) / 57 + 3)%nat.
Proof.
  pose proof (host_text_len e p) as Hlen.
  assert (Hne : host_text e p <> []) by (unfold host_text; discriminate).
  assert (Hlne : labels57 (host_text e p) <> []) by (unfold labels57; apply chunks57_nonempty; [exact Hne|lia]).
  unfold host_name, host_labels. rewrite dotted_snoc by exact Hlne. rewrite app_length. unfold labels57.
  rewrite dotted_length_labels by (lia || exact Hne). cbn [length td_label].
  unfold host_text. cbn [length]. replace (S (length (host_enc e p)) - 1)%nat with (length (host_enc e p)) by lia. lia.
Qed.

Lemma host_labels_ok e td p : Forall label_ok (host_labels e td p) /\ host_labels e td p <> [] /\
  (length (host_name e td p) <= 253)%nat.
Proof.
  pose proof (host_text_len e p) as Hlen. pose proof (host_text_chars e p) as Hch.
  assert (Hne : host_text e p <> []) by (unfold host_text; discriminate).
  assert (Hlne : labels57 (host_text e p) <> []) by (unfold labels57; apply chunks57_nonempty; [exact Hne|lia]).
  repeat split.
  - unfold host_labels. apply Forall_app. split; [|constructor; [apply td_label_ok|constructor]].
    pose proof (chunks57_forall name_char (length (host_text e p)) (host_text e p) Hch) as HF.
    fold (labels57 (host_text e p)) in HF. eapply Forall_impl; [|exact HF].
    intros w [Hw1 Hw2]. split; [lia|]. exact Hw2.
  - unfold host_labels. destruct (labels57 (host_text e p)); discriminate.
  - rewrite host_name_len. unfold host_text in Hlen. cbn [length] in Hlen. lia.
Qed.

(* a non-empty payload gives at least one byte per name *)
Lemma host_used_pos e p : p <> [] ->
  (1 <= host_used e p)%nat /\ (1 <= length (host_enc e p))%nat.
Proof.
  intros Hp. destruct (host_codec_wf e) as [Hwf _].
  destruct (enc_exact _ Hwf host_cap p) as [G1 [G2 [G3 [G4 G5]]]]. cbv zeta in *.
  pose proof (k_ok _ Hwf) as Hk. pose proof host_cap_eq as Hc.
  fold (host_used e p) in *. fold (host_enc e p) in *.
  assert (Hlp : (1 <= length p)%nat) by (destruct p; [congruence|simpl; lia]).
  assert (H1 : (1 <= host_used e p)%nat).
  { destruct (host_used e p) eqn:E; [|lia]. specialize (G5 Hlp). unfold enclen in G5.
    destruct Hk as [Ek|[Ek|Ek]]; rewrite Ek in G5; simpl in G5; lia. }
  split; [exact H1|].
  rewrite G3. unfold enclen. destruct Hk as [Ek|[Ek|Ek]]; rewrite Ek; lia.
Qed.

Lemma host_name_nz e td p : Forall (fun ch => ch <> 0) (host_name e td p).
Proof. apply dotted_nz. apply host_labels_ok. Qed.

(* ---- dns_namedec of such a name ---------------------------------------------------------------- *)

(* host_name = letter :: dotted encoding ++ ".xy" *)
Lemma host_name_shape e td p : exists D,
  host_name e td p = host_letter e :: D ++ 46 :: td_label (td_next td) /\
  filter (fun ch => negb (ch =? DOT)) D = host_enc e p.
Proof.
  pose proof (host_text_len e p) as Hlen. pose proof (host_text_chars e p) as Hch.
  assert (Hne : host_text e p <> []) by (unfold host_text; discriminate).
  assert (Hlne : labels57 (host_text e p) <> []) by (unfold labels57; apply chunks57_nonempty; [exact Hne|lia]).
  unfold host_name, host_labels. rewrite dotted_snoc by exact Hlne.
  assert (Hfil : filter (fun ch => negb (ch =? DOT)) (dotted (labels57 (host_text e p))) = host_text e p).
  { rewrite filter_dotted.
    - unfold labels57. apply chunks57_concat. lia.
    - pose proof (chunks57_forall name_char (length (host_text e p)) (host_text e p) Hch) as HF.
      fold (labels57 (host_text e p)) in HF. eapply Forall_impl; [|exact HF].
      intros w [_ Hw]. eapply Forall_impl; [|exact Hw]. intros a [Ha _]. exact Ha. }
  destruct (dotted (labels57 (host_text e p))) as [|l0 D] eqn:Ed.
  { exfalso. unfold host_text in Hfil. cbn in Hfil. discriminate. }
  assert (Hl0 : l0 = host_letter e).
  { (* the first char of the dotted form is the first char of the text *)
    unfold labels57, host_text in Ed. cbn [length chunks57] in Ed.
    remember (chunks57 (length (host_enc e p)) (skipn 57 (host_letter e :: host_enc e p))) as rest.
    destruct rest; cbn in Ed; injection Ed as Ed _; symmetry; exact Ed. }
  subst l0. exists D. split; [reflexivity|].
  cbn [filter] in Hfil. destruct (host_codec_wf e) as [_ [_ [[Hl _] _]]].
  unfold DOT in *. destruct (host_letter e =? 46) eqn:E; [lia|]. cbn [negb] in Hfil.
  unfold host_text in Hfil. injection Hfil as Hfil. exact Hfil.
Qed.

Lemma host_dec e p B : bytes_ok p -> (246 <= B)%nat ->
  decode (host_codec e) B (host_enc e p) = firstn (host_used e p) p.
Proof.
  intros Hp HB. destruct (host_codec_wf e) as [Hwf _]. unfold host_enc, host_used.
  apply (roundtrip _ Hwf); [exact Hp|].
  destruct (enc_exact _ Hwf host_cap p) as [G1 [G2 [G3 [G4 G5]]]]. cbv zeta in *.
  pose proof (k_ok _ Hwf) as Hk. pose proof host_cap_eq as Hc.
  set (n := snd (encode (host_codec e) host_cap p)) in *.
  set (L := length (fst (encode (host_codec e) host_cap p))) in *. clearbody n L.
  destruct Hk as [E|[E|E]]; rewrite E in G4; lia.
Qed.

(* the exact length of the name, and the MX quirk length (one more: the separator dot is
   undotified away) both decode to the consumed payload prefix *)
Lemma namedec_host B e td p rest len : bytes_ok p -> p <> [] -> (246 <= B)%nat ->
  len = length (host_name e td p) \/ len = S (length (host_name e td p)) ->
  dns_namedec B (host_name e td p ++ rest) len = firstn (host_used e p) p.
Proof.
  intros Hp Hpne HB Hlen.
  destruct (host_name_shape e td p) as [D [Hn HD]].
  assert (Hl5 : (5 <= length (host_name e td p))%nat).
  { destruct (host_used_pos e p Hpne) as [_ H2]. rewrite host_name_len. lia. }
  rewrite Hn in *. cbn [length] in Hlen, Hl5. rewrite app_length in Hlen, Hl5. cbn [length td_label] in Hlen, Hl5.
  unfold dns_namedec. cbn [app nth skipn].
  destruct (host_codec_wf e) as [_ [_ [_ [Hlow Hcases]]]]. rewrite Hlow.
  assert (E5 : (len <? 5)%nat = false) by (apply Nat.ltb_ge; lia). rewrite E5.
  assert (Hund : forall c, unpack_data c B ((D ++ 46 :: td_label (td_next td)) ++ rest) (len - 4) =
                           decode c B (host_enc e p)).
  { intros c. unfold unpack_data, inline_undotify. f_equal. rewrite <- HD.
    rewrite <- app_assoc. rewrite firstn_app.
    destruct Hlen as [-> | ->].
    - replace (S (length D + 3) - 4)%nat with (length D) by lia.
      rewrite firstn_all, Nat.sub_diag. cbn [firstn]. rewrite app_nil_r. reflexivity.
    - replace (S (S (length D + 3)) - 4)%nat with (S (length D)) by lia.
      rewrite firstn_all2 by lia. replace (S (length D) - length D)%nat with 1%nat by lia.
      cbn [firstn app]. rewrite filter_app. cbn [filter]. change (negb (46 =? DOT)) with false. cbv iota.
      rewrite app_nil_r. reflexivity. }
  rewrite !Hund.
  destruct Hcases as [[Hl Hc]|[[Hl Hc]|[[Hl Hc]|[Hl Hc]]]]; rewrite Hl; cbn [N.eqb Pos.eqb];
    rewrite <- Hc; apply host_dec; assumption.
Qed.

(* ---- CNAME answers (also for A questions) ------------------------------------------------------- *)

Definition cname_answer (id : N) (ws : list (list N)) (ty : N) (wl : list (list N)) : list N :=
  ans_head id 1 ws ty ++ rr_head T_CNAME ++ be16 (N.of_nat (wire_len wl)) ++ wire wl.

Lemma encode_cname B name ty id ws wl nm d : B = N.to_nat 65536 ->
  ty = T_CNAME \/ ty = T_A ->
  Forall label_ok ws -> ws <> [] -> name = dotted ws -> (length name <= 253)%nat ->
  Forall label_ok wl -> wl <> [] -> nm = dotted wl -> (length nm <= 253)%nat ->
  dns_encode_answer B {| q_name := name; q_type := ty; q_id := id |} nm = Some d ->
  d = cname_answer id ws ty wl.
Proof.
  intros H64 Hty Hok Hne Hn Hl Hokl Hnel Hnm Hll H. unfold dns_encode_answer in H. cbn [q_name q_type q_id] in H.
  rewrite (putname_qname B name ws H64 Hok Hne Hn Hl) in H. cbn [opt_bytes] in H.
  destruct (B <? 12)%nat; [discriminate|].
  destruct (negb (checklen B _ 4)); [discriminate|].
  assert (Ht : (ty =? T_CNAME) || (ty =? T_A) = true) by (destruct Hty as [-> | ->]; reflexivity).
  rewrite Ht in H.
  destruct (negb (checklen B _ 10)); [discriminate|].
  rewrite !app_length, hdr_len, wire_length, !be16_len, rr_head_len in H.
  pose proof (dotted_wire_len ws Hne) as Hwq. rewrite <- Hn in Hwq.
  pose proof (dotted_wire_len wl Hnel) as Hwn. rewrite <- Hnm in Hwn.
  rewrite (putname_wf _ nm wl Hokl Hnm) in H by lia. cbn [opt_bytes] in H.
  match type of H with (if negb (checklen _ ?x 0) then _ else _) = _ => destruct (checklen B x 0) eqn:E end;
    [|discriminate].
  cbn [negb] in H. apply some_inj in H. rewrite wire_length in H.
  assert (Hmod : N.of_nat (wire_len wl) mod 65536 = N.of_nat (wire_len wl)) by (apply N.mod_small; lia).
  rewrite Hmod in H. subst d.
  rewrite <- !app_assoc. rewrite set_ancount_hdr. unfold cname_answer, ans_head. rewrite <- !app_assoc. reflexivity.
Qed.

Lemma holds_skipn buf o l rest : skipn o buf = l ++ rest -> holds buf o l.
Proof. intros H i Hi. rewrite <- rb_skipn, H. unfold rb. apply app_nth1, Hi. Qed.

Lemma cstr_firstn_nul s : forall n t, Forall (fun ch => ch <> 0) s -> (length s < n)%nat ->
  cstr (firstn n (s ++ 0 :: t)) = s.
Proof.
  induction s as [|x s IH]; intros n t H Hn.
  - destruct n; [simpl in Hn; lia|]. reflexivity.
  - inversion H as [|? ? Hx Hs]; subst. destruct n; [simpl in Hn; lia|].
    cbn [app firstn cstr]. destruct (x =? 0) eqn:E; [lia|]. rewrite IH; [reflexivity|exact Hs|simpl in Hn; lia].
Qed.

Lemma ty_cname_lt ty : ty = T_CNAME \/ ty = T_A -> ty < 65536.
Proof. intros [-> | ->]; vm_compute; reflexivity. Qed.

Lemma decode_cname buflen id ws ty wl :
  id < 65536 -> ty = T_CNAME \/ ty = T_A ->
  ws <> [] -> Forall label_ok ws -> (length (dotted ws) <= 253)%nat ->
  wl <> [] -> Forall label_ok wl -> (length (dotted wl) <= 253)%nat ->
  (255 <= buflen)%nat ->
  let d := cname_answer id ws ty wl in
  dns_decode_answer buflen d (length d) =
  {| da_rv := Z.of_nat (length (dotted wl)); da_out := dotted wl ++ [0]; da_id := Some id;
     da_name0 := Some (hd 0 (dotted ws)); da_type := Some T_CNAME; da_rcode := 0 |}.
Proof.
  intros Hid Hty Hne Hok Hdl Hnel Hokl Hdll Hb d.
  pose proof (ty_cname_lt ty Hty) as Htl.
  assert (Hcl : T_CNAME < 65536) by (vm_compute; reflexivity).
  pose proof (dotted_wire_len wl Hnel) as Hwn.
  unfold d, cname_answer. rewrite decode_head; try assumption; try lia.
  fold (cname_answer id ws ty wl). fold d.
  assert (Hd : d = ans_head id 1 ws ty ++ rr_head T_CNAME ++ be16 (N.of_nat (wire_len wl)) ++ wire wl) by reflexivity.
  destruct (rr_bytes d _ T_CNAME (N.of_nat (wire_len wl)) (wire wl) Hd Hcl ltac:(lia)) as [B0 [B1 [B2 [B3 [B4 B5]]]]].
  rewrite ans_head_len in B0, B1, B2, B3, B4, B5. rewrite wire_length in B5.
  set (d2 := (12 + wire_len ws + 4)%nat) in *.
  unfold da_tail.
  assert (Ht : (ty =? T_NULL) || (ty =? T_PRIVATE) = false /\ (ty =? T_A) || (ty =? T_CNAME) = true).
  { destruct Hty as [-> | ->]; split; vm_compute; reflexivity. }
  destruct Ht as [-> ->]. cbv zeta.
  rewrite adv_ptr by (assumption || lia).
  destruct (length d <? 10 + (d2 + 2))%nat eqn:E1; [apply Nat.ltb_lt in E1; lia|].
  rewrite B2. change (T_CNAME =? T_CNAME) with true. cbv iota.
  assert (Hrn : readname d (length d) (d2 + 2 + 10) (name_size - 1) =
                {| rn_ret := S (length (dotted wl)); rn_wr := dotted wl ++ [0];
                   rn_src := Some (d2 + 2 + 10 + wire_len wl)%nat |}).
  { apply readname_wire; [exact Hokl| |lia|rewrite name_size_eq; lia].
    apply (holds_skipn _ _ _ []). rewrite app_nil_r. exact B4. }
  rewrite Hrn. cbn [rn_wr]. unfold overlay.
  rewrite <- app_assoc. cbn [app].
  rewrite cstr_firstn_nul by (try (apply dotted_nz; exact Hokl); rewrite name_size_eq; lia).
  rewrite firstn_all2 by lia. reflexivity.
Qed.

Lemma write_dns_cname q p downenc td : q_type q = T_CNAME \/ q_type q = T_A ->
  write_dns q p downenc td = (dns_encode_answer buf64k q (host_name downenc td p), td_next td).
Proof.
  intros Hty. unfold write_dns.
  assert (Ht : (q_type q =? T_CNAME) || (q_type q =? T_A) = true) by (destruct Hty as [-> | ->]; reflexivity).
  rewrite Ht. rewrite nameenc_spec by (pose proof buf1k_eq; lia). reflexivity.
Qed.

Lemma c09_cname q p downenc td buflen d :
  q_id q < 65536 -> q_type q = T_CNAME \/ q_type q = T_A -> wf_qname (q_name q) ->
  bytes_ok p -> (2 <= length p)%nat -> (N.to_nat 4096 <= buflen)%nat ->
  fst (write_dns q p downenc td) = Some d ->
  extract_ok (client_extract buflen d (length d)) q p (host_used downenc p).
Proof.
  intros Hid Hty [ws [Hne [Hok [Hn Hl]]]] Hbp Hp Hb H.
  rewrite write_dns_cname in H by exact Hty. cbn [fst] in H.
  destruct q as [name ty id]. cbn [q_name q_type q_id] in *.
  pose proof (host_labels_ok downenc td p) as [Hokl [Hnel Hll]].
  assert (Hpne : p <> []) by (destruct p; [simpl in Hp; lia|discriminate]).
  pose proof (encode_cname buf64k name ty id ws (host_labels downenc td p) (host_name downenc td p) d
                buf64k_eq Hty Hok Hne Hn Hl Hokl Hnel eq_refl Hll H) as Hd.
  subst d. unfold client_extract.
  rewrite decode_cname; try assumption; try lia; [|subst name; exact Hl].
  fold (host_name downenc td p). cbn [da_rv da_out da_id da_type da_name0 da_rcode].
  destruct (host_used_pos downenc p Hpne) as [Hu1 Hu2].
  pose proof (host_name_len downenc td p) as Hnl.
  destruct (Z.of_nat (length (host_name downenc td p)) <=? 0)%Z eqn:E; [lia|].
  change ((T_CNAME =? T_CNAME) || (T_CNAME =? T_TXT)) with true. cbv iota.
  rewrite Nat2Z.id.
  rewrite namedec_host; [|exact Hbp|exact Hpne|pose proof buf64k_eq; lia|left; reflexivity].
  assert (Hul : (host_used downenc p <= length p)%nat /\ (host_used downenc p <= 245)%nat).
  { destruct (host_codec_wf downenc) as [Hwf _].
    destruct (enc_exact _ Hwf host_cap p) as [G1 [G2 [G3 [G4 G5]]]]. cbv zeta in *.
    pose proof (k_ok _ Hwf) as Hk. pose proof host_cap_eq as Hc.
    fold (host_used downenc p) in *. split; [exact G2|].
    set (L := length (fst (encode (host_codec downenc) host_cap p))) in *. clearbody L.
    destruct Hk as [Ek|[Ek|Ek]]; rewrite Ek in G4; lia. }
  rewrite firstn_length.
  replace (Nat.min (Nat.min (host_used downenc p) (length p)) buflen) with (host_used downenc p) by lia.
  rewrite firstn_firstn. replace (Nat.min (host_used downenc p) (host_used downenc p)) with (host_used downenc p) by lia.
  assert (Hat : answer_type ty = T_CNAME) by (destruct Hty as [-> | ->]; reflexivity).
  unfold extract_ok. cbn [da_rv da_out da_id da_type da_name0 q_id q_type q_name]. rewrite Hat.
  subst name. repeat split; lia.
Qed.

(* exactness: everything is consumed iff the text fits the 245 characters *)
Lemma host_used_exact e p :
  (host_used e p = length p <-> (enclen (cbits (host_codec e)) (length p) <= 245)%nat).
Proof.
  destruct (host_codec_wf e) as [Hwf _]. pose proof host_cap_eq as Hc.
  destruct (enc_exact _ Hwf host_cap p) as [G1 [G2 [G3 [G4 G5]]]]. cbv zeta in *.
  fold (host_used e p) in *. split.
  - intros E. rewrite E in G3. lia.
  - intros Hle. destruct (enc_full _ Hwf host_cap p) as [F1 _]; [lia|]. exact F1.
Qed.
